/-
  StrAscii.lean — machinery for the C01 gap items 1–4 (C01Str.lean):
   * the pieces `split_netloc` reads are contiguous pieces of the authority text;
   * `_encode_host` character by character, for an arbitrary character class;
   * a generic invariant on the stored authority (`Spec` / `Inv`) and its preservation by the constructor,
     `build`, the five authority modifiers, `origin`, `join` and everything that copies the authority;
   * reachability with explicit side conditions (`ReachS`);
   * `WellEscaped` through concatenation, `make_netloc` and `unsplit_result`.
-/
import YarlModel
import YarlProofs.Lemmas.BuildFix
import YarlProofs.C03Reach
import YarlProofs.C17Build
namespace Yarl
namespace StrAscii
open NetlocLemmas WfLemmas EntryLemmas

/-! ### partition / zone -/

/-- the text after the first '%' (the zone id when the text is an IP literal) -/
def zoneOf (h : Str) : Str := (partition 37 h).2.2

theorem mem_zoneOf {h : Str} {c : Nat} : c ∈ zoneOf h ↔ ∃ l r, h = l ++ 37 :: r ∧ c ∈ r := by
  unfold zoneOf
  induction h with
  | nil => simp [partition]
  | cons x xs ih =>
    by_cases hx : x = 37
    · subst hx
      simp only [partition, ↓reduceIte]
      constructor
      · intro hc; exact ⟨[], xs, rfl, hc⟩
      · rintro ⟨l, r, he, hc⟩
        cases l with
        | nil => simp only [List.nil_append, List.cons.injEq, true_and] at he; exact he ▸ hc
        | cons y ys =>
          simp only [List.cons_append, List.cons.injEq] at he
          rw [he.2]; simp [hc]
    · have : (partition 37 (x :: xs)).2.2 = (partition 37 xs).2.2 := by simp [partition, hx]
      rw [this, ih]
      constructor
      · rintro ⟨l, r, he, hc⟩; exact ⟨x :: l, r, by simp [he], hc⟩
      · rintro ⟨l, r, he, hc⟩
        cases l with
        | nil => simp only [List.nil_append, List.cons.injEq] at he; exact absurd he.1 hx
        | cons y ys =>
          simp only [List.cons_append, List.cons.injEq] at he
          exact ⟨ys, r, he.2, hc⟩

/-- the zone of a contiguous piece lies inside the zone of the whole -/
theorem zoneOf_piece {a h b : Str} {c : Nat} (hc : c ∈ zoneOf h) : c ∈ zoneOf (a ++ h ++ b) := by
  obtain ⟨l, r, he, hr⟩ := mem_zoneOf.mp hc
  exact mem_zoneOf.mpr ⟨a ++ l, r ++ b, by simp [he], by simp [hr]⟩

theorem zoneOf_sub {h : Str} {c : Nat} (hc : c ∈ zoneOf h) : c ∈ h := by
  obtain ⟨l, r, he, hr⟩ := mem_zoneOf.mp hc
  rw [he]; simp [hr]

/-- `s.partition(c)` glued together again -/
theorem partition_glue (c : Nat) (s : Str) :
    s = (partition c s).1 ++ (if (partition c s).2.1 then c :: (partition c s).2.2 else []) := by
  induction s with
  | nil => simp [partition]
  | cons x xs ih =>
    by_cases hx : x = c
    · subst hx; simp [partition]
    · simp only [partition, hx, ↓reduceIte, List.cons_append, List.cons.injEq, true_and]
      exact ih

theorem partition_fst_piece (c : Nat) (s : Str) : ∃ b, s = [] ++ (partition c s).1 ++ b :=
  ⟨_, by simpa using partition_glue c s⟩

theorem partition_snd_piece (c : Nat) (s : Str) : ∃ a, s = a ++ (partition c s).2.2 ++ [] ∨ (partition c s).2.2 = [] := by
  induction s with
  | nil => exact ⟨[], Or.inr (by simp [partition])⟩
  | cons x xs ih =>
    by_cases hx : x = c
    · subst hx; exact ⟨[x], Or.inl (by simp [partition])⟩
    · obtain ⟨a, ha⟩ := ih
      refine ⟨x :: a, ?_⟩
      have : (partition c (x :: xs)).2.2 = (partition c xs).2.2 := by simp [partition, hx]
      rw [this]
      rcases ha with ha | ha
      · left; simp only [List.cons_append, List.cons.injEq, true_and]; exact ha
      · right; exact ha

/-- a contiguous piece of a contiguous piece -/
theorem piece_trans {s t u a b a' b' : Str} (h1 : s = a ++ t ++ b) (h2 : t = a' ++ u ++ b') :
    s = (a ++ a') ++ u ++ (b' ++ b) := by
  rw [h1, h2]; simp

/-! ### the pieces `split_netloc` reads -/

/-- the `host[:port]` part of an authority text: what follows the last '@' -/
def hostinfo (n : Str) : Str := (userSplit n).2.2

theorem hostinfo_noAt (n : Str) : 64 ∉ hostinfo n := by
  unfold hostinfo userSplit
  by_cases h : 64 ∈ n
  · have hm : mem 64 n = true := mem_iff.mpr h
    simp only [hm, Bool.not_true, Bool.false_eq_true, ↓reduceIte]
    exact (ParseLemmas.rpartition_mem h).2
  · have hm : mem 64 n = false := mem_false_iff.mpr h
    simp only [hm, Bool.not_false, ↓reduceIte]
    exact h

theorem hostinfo_sub (n : Str) : ∀ c ∈ hostinfo n, c ∈ n := by
  intro c hc
  unfold hostinfo userSplit at hc
  split at hc
  · exact hc
  · exact ParseLemmas.mem_of_mem_rpartition_snd_snd hc

theorem hostinfo_of_noAt {n : Str} (h : 64 ∉ n) : hostinfo n = n := by
  unfold hostinfo; rw [userSplit_noAt n h]

/-- the host name `split_netloc` extracts is a contiguous piece of the `host[:port]` text -/
theorem hostPort_piece (hi : Str) : ∃ a b, hi = a ++ (hostPort hi).1 ++ b := by
  unfold hostPort
  split
  · simp only
    obtain ⟨b, hb⟩ := partition_fst_piece 93 (partition 91 hi).2.2
    obtain ⟨a, ha⟩ := partition_snd_piece 91 hi
    rcases ha with ha | ha
    · exact ⟨a ++ [], b ++ [], piece_trans ha hb⟩
    · rw [ha]; exact ⟨hi, [], by simp [partition]⟩
  · simp only
    obtain ⟨b, hb⟩ := partition_fst_piece 58 hi
    exact ⟨[], b, hb⟩

theorem hostPort_sub (hi : Str) : ∀ c ∈ (hostPort hi).1, c ∈ hi := by
  obtain ⟨a, b, h⟩ := hostPort_piece hi
  intro c hc; rw [h]; simp [hc]

/-- what a successful `split_netloc` returns, in terms of the two splits -/
theorem splitNetloc_shape (o : Oracles) (n : Str) (r : NetlocParts) (h : splitNetloc o n = .ok r) :
    r.user = (userSplit n).1.bind orNone ∧ r.password = (userSplit n).2.1 ∧
      r.host = orNone (hostPort (hostinfo n)).1 := by
  rw [splitNetloc_eq] at h
  unfold finish at h
  simp only at h
  split at h
  · cases h; exact ⟨rfl, rfl, rfl⟩
  · obtain ⟨v, _, h⟩ := bind_ok h
    cases v with
    | none => cases h
    | some p =>
      simp only at h
      split at h
      · cases h; exact ⟨rfl, rfl, rfl⟩
      · cases h

theorem userSplit_user_sub (n : Str) : ∀ x, (userSplit n).1 = some x → ∀ c ∈ x, c ∈ n := by
  intro x hx c hc
  have : (ParseLemmas.userTriple n).1 = some x := hx
  unfold ParseLemmas.userTriple at this
  split at this
  · cases this
  · cases this
    exact rpartition_fst_sub 64 n c (partition_fst_sub 58 _ c hc)

theorem userSplit_pw_sub (n : Str) : ∀ x, (userSplit n).2.1 = some x → ∀ c ∈ x, c ∈ n := by
  intro x hx c hc
  have : (ParseLemmas.userTriple n).2.1 = some x := hx
  unfold ParseLemmas.userTriple at this
  split at this
  · cases this
  · simp only at this
    split at this
    · cases this
      exact rpartition_fst_sub 64 n c (partition_snd_sub 58 _ c hc)
    · cases this

/-! ### `_encode_host`, character by character -/

theorem regName_char {c : Nat} (h : c = 37 ∨ mem c Gen.regNameChars = true) : c < 128 ∧ c ≠ 64 := by
  refine ⟨(C16_regNameChars_lower h).1, ?_⟩
  rintro rfl
  rcases h with h | h
  · omega
  · revert h; decide

/-- the characters of the canonical text of an IP literal: ASCII other than '@', and the zone id -/
theorem ipRes_chars_class {C : Nat → Prop} (Cb : ∀ c, c < 128 → c ≠ 64 → C c) {h r : Str}
    (hip : HostLemmas.ipRes h = some r)
    (hzone : (partition 37 h).2.1 = true → ∀ c ∈ (partition 37 h).2.2, C c) : ∀ c ∈ r, C c := by
  have hdig : ∀ c, isDigitC c = true → C c := by
    intro c hc; simp [isDigitC] at hc; exact Cb c (by omega) (by omega)
  unfold HostLemmas.ipRes at hip
  cases h4 : parseIPv4 (partition 37 h).1 with
  | some o4 =>
    simp only [parseIP, h4, Option.some.injEq] at hip
    rw [(C16_ipv4_canonical _ o4 h4).1] at hip
    have hd : ∀ c ∈ (partition 37 h).1, C c := by
      intro c hc
      rcases HostLemmas.parseIPv4_chars h4 c hc with rfl | hd
      · exact Cb _ (by omega) (by omega)
      · exact hdig c hd
    intro c hc
    rw [← hip] at hc
    split at hc
    · rename_i hsep
      simp only [List.mem_append, List.mem_cons, List.not_mem_nil, or_false] at hc
      rcases hc with (hc | rfl) | hc
      · exact hd c hc
      · exact Cb _ (by omega) (by omega)
      · exact hzone hsep c hc
    · exact hd c hc
  | none =>
    cases h6 : parseIPv6 (partition 37 h).1 with
    | none => simp [parseIP, h4, h6] at hip
    | some h8 =>
      simp only [parseIP, h4, h6, Option.map_some, Option.some.injEq] at hip
      have htxt : ∀ c ∈ ipv6ToStr h8, C c := by
        intro c hc
        rcases C16_ipv6_text_lower h8 c hc with rfl | hd | hd
        · exact Cb _ (by omega) (by omega)
        · exact hdig c hd
        · exact Cb c (by omega) (by omega)
      intro c hc
      rw [← hip] at hc
      split at hc
      · rename_i hsep
        simp only [List.mem_append, List.mem_cons, List.not_mem_nil, or_false] at hc
        rcases hc with (((rfl | hc) | rfl) | hc) | rfl
        · exact Cb _ (by omega) (by omega)
        · exact htxt c hc
        · exact Cb _ (by omega) (by omega)
        · exact hzone hsep c hc
        · exact Cb _ (by omega) (by omega)
      · simp only [List.mem_append, List.mem_cons, List.not_mem_nil, or_false] at hc
        rcases hc with (rfl | hc) | rfl
        · exact Cb _ (by omega) (by omega)
        · exact htxt c hc
        · exact Cb _ (by omega) (by omega)

/-- the re-entry (fix 3fbf5b4) on a text whose characters are all in `C` answers in `C` -/
theorem encodeHostA_chars {C : Nat → Prop} (Cb : ∀ c, c < 128 → c ≠ 64 → C c) {o : Oracles} {a : Str} {v : Bool}
    {r : Str} (ha : ∀ c ∈ a, C c) (he : encodeHostA o a v = .ok r) : ∀ c ∈ r, C c := by
  rcases HostLemmas.encodeHostA_casesV he with ⟨hip, _⟩ | ⟨_, hreg⟩
  · exact ipRes_chars_class Cb hip (fun _ c hc => ha c (partition_snd_sub 37 a c hc))
  · obtain ⟨hasc, rfl, _⟩ := HostLemmas.regPathA_ok hreg
    intro c hc
    simp only [lower, List.mem_map] at hc
    obtain ⟨x, hx, rfl⟩ := hc
    simp only [isAscii, List.all_eq_true, decide_eq_true_eq] at hasc
    by_cases h64 : x = 64
    · subst h64; exact ha 64 hx
    · refine Cb _ (HostLemmas.lowerC_lt (hasc x hx)).1 ?_
      intro e
      rw [HostLemmas.lowerC_eq_iff x 64 (by omega)] at e
      exact h64 e

/-- every character of an encoded host belongs to the class `C`, when `C` contains every ASCII character
    other than '@', the IDNA oracle answers in `C`, and — unless the host is validated — the zone id of the
    input is in `C` and the input has no '@' -/
theorem encodeHost_chars' {C : Nat → Prop} (Cb : ∀ c, c < 128 → c ≠ 64 → C c) {o : Oracles} {h : Str} {v : Bool}
    {r : Str} (horc : isAscii h = false → ∀ y, idnaEncode o h = .ok y → ∀ c ∈ y, C c)
    (hin : v = true ∨ ((∀ c ∈ zoneOf h, C c) ∧ (∀ c ∈ h, c < 128 → C (lowerC c))))
    (he : encodeHost o h v = .ok r) : ∀ c ∈ r, C c := by
  rcases HostLemmas.encodeHost_casesV he with ⟨hip, hz⟩ | ⟨_, hreg⟩
  · have hzone : (partition 37 h).2.1 = true → ∀ c ∈ (partition 37 h).2.2, C c := by
      intro hsep c hc
      rcases hin with hv | ⟨hzc, _⟩
      · subst hv
        have := HostLemmas.zone_chars (HostLemmas.zoneBad_true_false hz hsep) c hc
        exact Cb c this.1 this.2.1
      · exact hzc c hc
    exact ipRes_chars_class Cb hip hzone
  · cases ha : isAscii h with
    | true =>
      simp only [HostLemmas.regPath, ha, ↓reduceIte] at hreg
      split at hreg
      · cases hreg
      · rename_i hn
        cases hreg
        intro c hc
        rcases hin with hv | ⟨_, h64⟩
        · subst hv
          simp only [Bool.true_and, Bool.not_eq_true] at hn
          have := regName_char (HostLemmas.notRegName_spec _ hn c hc)
          exact Cb c this.1 this.2
        · simp only [lower, List.mem_map] at hc
          obtain ⟨x, hx, rfl⟩ := hc
          simp only [isAscii, List.all_eq_true, decide_eq_true_eq] at ha
          exact h64 x hx (ha x hx)
    | false =>
      obtain ⟨a, hi, ⟨_, rfl, _⟩ | ⟨_, hA⟩⟩ := HostLemmas.regPath_idn_cases ha hreg
      · exact horc ha _ hi
      · exact encodeHostA_chars Cb (horc ha a hi) hA

theorem encodeHost_chars {C : Nat → Prop} (Cb : ∀ c, c < 128 → c ≠ 64 → C c) {o : Oracles} {h : Str} {v : Bool}
    {r : Str} (horc : ∀ y, idnaEncode o h = .ok y → ∀ c ∈ y, C c)
    (hin : v = true ∨ ((∀ c ∈ zoneOf h, C c) ∧ 64 ∉ h))
    (he : encodeHost o h v = .ok r) : ∀ c ∈ r, C c := by
  refine encodeHost_chars' Cb (fun _ => horc) ?_ he
  rcases hin with hv | ⟨hz, h64⟩
  · exact Or.inl hv
  · refine Or.inr ⟨hz, ?_⟩
    intro c hc hlt
    refine Cb _ (HostLemmas.lowerC_lt hlt).1 ?_
    intro e
    rw [HostLemmas.lowerC_eq_iff c 64 (by omega)] at e
    exact h64 (e ▸ hc)

/-! ### `make_netloc` -/

/-- `make_netloc(..., encode=True)` is `make_netloc(..., encode=False)` of the quoted pieces -/
theorem makeNetloc_true (qf : Str → Str) (U P : Option Str) (hb : Str) (port : Option Nat) :
    makeNetloc qf U P (some hb) port true =
      makeNetloc qf (U.map fun u => if u.isEmpty then u else qf u) (P.map qf) (some hb) port false := by
  unfold makeNetloc
  cases U with
  | none => cases P <;> simp
  | some u =>
    cases P with
    | none =>
      simp only [Option.map_some, Option.map_none, Bool.and_true, Bool.and_false, Bool.false_eq_true, if_false]
      by_cases hu : u.isEmpty = true
      · simp [hu]
      · simp [hu]
    | some w =>
      simp only [Option.map_some, Bool.false_eq_true, if_false, if_true]
      by_cases hu : u.isEmpty = true
      · simp [hu]
      · simp only [hu, Bool.false_eq_true, if_false]
        by_cases hq : (qf u).isEmpty = true
        · simp [List.isEmpty_iff.mp hq]
        · simp [hq]

/-- `host[:port]` is `make_netloc(None, None, host, port)` -/
theorem hostPortStr_eq (qf : Str → Str) (hb : Str) (port : Option Nat) :
    (match port with | none => hb | some p => hb ++ [58] ++ natToStr p) = makeNetloc qf none none (some hb) port false := by
  unfold makeNetloc; cases port <;> rfl

/-! ### a class of authority texts, described by its pieces -/

structure Spec (e : Env) where
  /-- characters of the host text -/
  C : Nat → Prop
  /-- user / password texts -/
  PU : Str → Prop
  /-- authority texts -/
  PN : Str → Prop
  /-- a cached raw host against the stored authority -/
  PH : Str → Str → Prop
  Cb : ∀ c, c < 128 → c ≠ 64 → C c
  PUnil : PU []
  PNnil : PN []
  mkN : ∀ (U P : Option Str) (hb : Str) (port : Option Nat), (∀ x, U = some x → PU x) → (∀ x, P = some x → PU x) →
      (∀ c ∈ hb, C c) → PN (makeNetloc id U P (some hb) port false)
  mkH : ∀ (U P : Option Str) (hb : Str) (port : Option Nat) (x : Str), (∀ x, U = some x → PU x) →
      (∀ x, P = some x → PU x) → (∀ c ∈ hb, C c) → (∀ c ∈ x, c ∈ hb) → PH x (makeNetloc id U P (some hb) port false)
  rdH : ∀ N, PN N → ∀ c ∈ hostinfo N, C c
  rdU : ∀ N, PN N → (∀ x, (userSplit N).1 = some x → PU x) ∧ (∀ x, (userSplit N).2.1 = some x → PU x)
  phC : ∀ N x, PN N → PH x N → ∀ c ∈ x, C c
  phLazy : ∀ N x, PN N → (∀ c ∈ x, c ∈ hostinfo N) → PH x N
  quote : ∀ s, PyStr s → PU (q e Gen.QUOTER s)
  requote : ∀ s, PyStr s → PU (q e Gen.REQUOTER s)
  orc : ∀ x y, idnaEncode e.o x = .ok y → ∀ c ∈ y, C c

/-- the stored authority is in the class, and so are the cache entries the constructor pre-filled -/
structure Inv {e : Env} (S : Spec e) (u : Url) : Prop where
  net : S.PN u.netloc
  preU : ∀ p x, u.pre = some p → p.rawUser = some x → S.PU x
  preP : ∀ p x, u.pre = some p → p.rawPassword = some x → S.PU x
  preH : ∀ p x, u.pre = some p → p.rawHost = some x → S.PH x u.netloc

variable {e : Env} {S : Spec e}

theorem Spec.mk' (S : Spec e) (qf : Str → Str) (U P : Option Str) (hb : Str) (port : Option Nat)
    (hU : ∀ x, U = some x → S.PU x) (hP : ∀ x, P = some x → S.PU x) (hh : ∀ c ∈ hb, S.C c) :
    S.PN (makeNetloc qf U P (some hb) port false) := by
  rw [makeNetloc_qf qf id]; exact S.mkN U P hb port hU hP hh

theorem Spec.Cdigit (S : Spec e) {c : Nat} (h : isDigitC c = true) : S.C c := by
  simp [isDigitC] at h; exact S.Cb c (by omega) (by omega)

theorem inv_fresh {N : Str} (h : S.PN N) (s p q f : Str) : Inv S (fromParts s N p q f) :=
  ⟨h, fun _ _ hp => (by cases hp), fun _ _ hp => (by cases hp), fun _ _ hp => (by cases hp)⟩

theorem inv_of_keeps {u v : Url} (h : Inv S u) (hk : ReachFix.Keeps u v) : Inv S v := by
  obtain ⟨hn, hp⟩ := hk
  rcases hp with hp | hp
  · exact ⟨hn ▸ h.net, fun _ _ hq => (by rw [hp] at hq; cases hq), fun _ _ hq => (by rw [hp] at hq; cases hq),
      fun _ _ hq => (by rw [hp] at hq; cases hq)⟩
  · exact ⟨hn ▸ h.net, fun p x hq => h.preU p x (hp ▸ hq), fun p x hq => h.preP p x (hp ▸ hq),
      fun p x hq hx => hn ▸ h.preH p x (hp ▸ hq) hx⟩

/-- what the accessors of a URL satisfying the invariant answer -/
theorem Inv.net_ok {u : Url} (hI : Inv S u) (np : NetPre) (h : Yarl.net e u = .ok np) :
    (∀ x, np.rawUser = some x → S.PU x) ∧ (∀ x, np.rawPassword = some x → S.PU x) ∧
      (∀ x, np.rawHost = some x → S.PH x u.netloc) := by
  unfold Yarl.net at h
  cases hpre : u.pre with
  | some p =>
    rw [hpre] at h
    cases h
    exact ⟨fun x => hI.preU _ x hpre, fun x => hI.preP _ x hpre, fun x => hI.preH _ x hpre⟩
  | none =>
    rw [hpre] at h
    unfold lazyNet at h
    obtain ⟨r, hr, h⟩ := bind_ok h
    obtain ⟨h1, h2, h3⟩ := splitNetloc_shape e.o u.netloc r hr
    obtain ⟨k1, k2⟩ := S.rdU u.netloc hI.net
    cases h
    refine ⟨?_, ?_, ?_⟩
    · intro x hx
      simp only at hx
      rw [h1] at hx
      cases hu : (userSplit u.netloc).1 with
      | none => rw [hu] at hx; cases hx
      | some y =>
        rw [hu] at hx
        simp only [Option.bind_some] at hx
        rw [orNone_some hx]
        exact k1 y hu
    · intro x hx
      simp only at hx
      rw [h2] at hx
      exact k2 x hx
    · intro x hx
      apply S.phLazy _ _ hI.net
      simp only at hx
      split at hx
      · split at hx
        · cases hx
        · cases hx; intro c hc; cases hc
      · rename_i hh heq
        cases hx
        rw [h3] at heq
        rw [orNone_some heq]
        exact hostPort_sub _

theorem Inv.rawUser_ok {u : Url} (hI : Inv S u) {ru : Option Str} (h : rawUser e u = .ok ru) :
    ∀ x, ru = some x → S.PU x := by
  unfold rawUser at h
  obtain ⟨n, hn, rfl⟩ := map_ok h
  exact (hI.net_ok n hn).1

theorem Inv.rawPassword_ok {u : Url} (hI : Inv S u) {rp : Option Str} (h : rawPassword e u = .ok rp) :
    ∀ x, rp = some x → S.PU x := by
  unfold rawPassword at h
  obtain ⟨n, hn, rfl⟩ := map_ok h
  exact (hI.net_ok n hn).2.1

theorem Inv.rawHost_ok {u : Url} (hI : Inv S u) {rh : Option Str} (h : rawHost e u = .ok rh) :
    ∀ x, rh = some x → S.PH x u.netloc := by
  unfold rawHost at h
  obtain ⟨n, hn, rfl⟩ := map_ok h
  exact (hI.net_ok n hn).2.2

theorem Inv.hostSub_ok {u : Url} (hI : Inv S u) {hs : Option Str} (h : hostSubcomponent e u = .ok hs) :
    ∀ x, hs = some x → ∀ c ∈ x, S.C c := by
  unfold hostSubcomponent at h
  obtain ⟨rh, hrh, h⟩ := bind_ok h
  cases h
  intro x hx c hc
  cases rh with
  | none => cases hx
  | some raw =>
    simp only [Option.map_some, Option.some.injEq] at hx
    subst hx
    have hraw := S.phC _ _ hI.net (hI.rawHost_ok hrh raw rfl)
    split at hc
    · simp only [List.mem_append, List.mem_cons, List.not_mem_nil, or_false] at hc
      rcases hc with (rfl | hc) | rfl
      · exact S.Cb _ (by omega) (by omega)
      · exact hraw c hc
      · exact S.Cb _ (by omega) (by omega)
    · exact hraw c hc

theorem Inv.hostSub_getD {u : Url} (hI : Inv S u) {hs : Option Str} (h : hostSubcomponent e u = .ok hs) :
    ∀ c ∈ hs.getD [], S.C c := by
  cases hs with
  | none => intro c hc; cases hc
  | some x => exact hI.hostSub_ok h x rfl

/-! ### the authority modifiers -/

theorem withUser_inv {u v : Url} (hI : Inv S u) (s : Option Str) (ha : ∀ x, s = some x → PyStr x)
    (h : withUser e u s = .ok v) : Inv S v ∧ v.scheme = u.scheme := by
  unfold withUser at h
  obtain ⟨⟨usr', pw'⟩, hup, h⟩ := bind_ok h
  simp only at h
  split at h
  · cases h
  · obtain ⟨h1, hhs, h⟩ := bind_ok h
    obtain ⟨p, hp, h⟩ := bind_ok h
    cases h
    refine ⟨inv_fresh (S.mk' _ _ _ _ _ ?_ ?_ (hI.hostSub_getD hhs)) _ _ _ _, rfl⟩
    · intro x hx
      cases s with
      | none => cases hup; cases hx
      | some y =>
        simp only at hup
        obtain ⟨rp, hrp, hup⟩ := bind_ok hup
        cases hup; cases hx
        exact S.quote y (ha y rfl)
    · intro x hx
      cases s with
      | none => cases hup; cases hx
      | some y =>
        simp only at hup
        obtain ⟨rp, hrp, hup⟩ := bind_ok hup
        cases hup
        exact hI.rawPassword_ok hrp x hx

theorem withPassword_inv {u v : Url} (hI : Inv S u) (s : Option Str) (ha : ∀ x, s = some x → PyStr x)
    (h : withPassword e u s = .ok v) : Inv S v ∧ v.scheme = u.scheme := by
  unfold withPassword at h
  simp only at h
  split at h
  · cases h
  · obtain ⟨h1, hhs, h⟩ := bind_ok h
    obtain ⟨p, hp, h⟩ := bind_ok h
    obtain ⟨ru, hru, h⟩ := bind_ok h
    cases h
    refine ⟨inv_fresh (S.mk' _ _ _ _ _ (hI.rawUser_ok hru) ?_ (hI.hostSub_getD hhs)) _ _ _ _, rfl⟩
    intro x hx
    cases s with
    | none => cases hx
    | some y =>
      simp only [Option.map_some, Option.some.injEq] at hx
      subst hx
      exact S.quote y (ha y rfl)

theorem withHost_inv {u v : Url} (hI : Inv S u) (s : Str) (h : withHost e u s = .ok v) :
    Inv S v ∧ v.scheme = u.scheme := by
  unfold withHost at h
  split at h
  · cases h
  · split at h
    · cases h
    · obtain ⟨eh, heh, h⟩ := bind_ok h
      obtain ⟨p, hp, h⟩ := bind_ok h
      obtain ⟨ru, hru, h⟩ := bind_ok h
      obtain ⟨rp, hrp, h⟩ := bind_ok h
      cases h
      exact ⟨inv_fresh (S.mk' _ _ _ _ _ (hI.rawUser_ok hru) (hI.rawPassword_ok hrp)
        (encodeHost_chars S.Cb (S.orc s) (Or.inl rfl) heh)) _ _ _ _, rfl⟩

theorem withPort_inv {u v : Url} (hI : Inv S u) (p : Option Int) (k : Nat) (h : withPort e u p k = .ok v) :
    Inv S v ∧ v.scheme = u.scheme := by
  unfold withPort at h
  obtain ⟨_, h⟩ := ite_err_ok h
  obtain ⟨_, h⟩ := ite_err_ok h
  obtain ⟨_, h⟩ := ite_err_ok h
  obtain ⟨h1, hhs, h⟩ := bind_ok h
  obtain ⟨ru, hru, h⟩ := bind_ok h
  obtain ⟨rp, hrp, h⟩ := bind_ok h
  cases h
  exact ⟨inv_fresh (S.mk' _ _ _ _ _ (hI.rawUser_ok hru) (hI.rawPassword_ok hrp) (hI.hostSub_getD hhs)) _ _ _ _, rfl⟩

theorem origin_inv {u v : Url} (hI : Inv S u) (h : origin e u = .ok v) : Inv S v ∧ v.scheme = u.scheme := by
  unfold origin at h
  split at h
  · cases h
  · split at h
    · cases h
    · split at h
      · obtain ⟨hh, hhs, h⟩ := bind_ok h
        obtain ⟨p, hp, h⟩ := bind_ok h
        cases h
        refine ⟨inv_fresh ?_ _ _ _ _, rfl⟩
        cases hh with
        | none => exact S.PNnil
        | some x =>
          exact S.mk' _ _ _ _ _ (fun _ hx => by cases hx) (fun _ hx => by cases hx) (hI.hostSub_ok hhs x rfl)
      · split at h
        · cases h; exact ⟨hI, rfl⟩
        · cases h; exact ⟨inv_of_keeps hI (ReachFix.keeps_fromParts u _ _ _ _), rfl⟩

theorem join_inv {base ref : Url} (hb : Inv S base) (hr : Inv S ref) : Inv S (join e base ref) := by
  unfold join
  simp only
  generalize (if (!ref.scheme.isEmpty) = true then ref.scheme else base.scheme) = scheme
  split
  · exact hr
  · split
    · exact inv_of_keeps hr (ReachFix.keeps_fromParts ref _ _ _ _)
    · exact inv_of_keeps hb (ReachFix.keeps_fromParts base _ _ _ _)

/-! ### the constructor -/

theorem requoteOpt_PU (S : Spec e) (x : Option Str) (hx : ∀ s, x = some s → PyStr s) :
    ∀ y, requoteOpt e x = some y → S.PU y := by
  intro y hy
  cases x with
  | none => cases hy
  | some s =>
    simp only [requoteOpt, Option.map_some, Option.some.injEq] at hy
    subst hy
    split
    · rename_i hemp; rw [isEmpty_eq_nil hemp]; exact S.PUnil
    · exact S.requote s (hx s rfl)

/-- the `NetlocParts` the constructor / `build(authority=)` work with: texts are Python strings, the host is a
    contiguous piece of the `host[:port]` text -/
theorem splitNetloc_facts (o : Oracles) (N : Str) (hN : PyStr N) (np : NetlocParts) (h : splitNetloc o N = .ok np) :
    (∀ x, np.user = some x → PyStr x) ∧ (∀ x, np.password = some x → PyStr x) ∧
      (∀ x, np.host = some x → ∃ a b, hostinfo N = a ++ x ++ b) := by
  obtain ⟨k1, k2⟩ := splitNetloc_pyStr o N hN np h
  refine ⟨k1, k2, ?_⟩
  intro x hx
  rw [(splitNetloc_shape o N np h).2.2] at hx
  rw [orNone_some hx]
  exact hostPort_piece _

/-- the host text handed to `_encode_host`: its zone id is inside the zone of the `host[:port]` text, no '@' -/
theorem piece_facts {C : Nat → Prop} {hi h0 : Str} (hp : ∃ a b, hi = a ++ h0 ++ b) (h64 : 64 ∉ hi)
    (hz : ∀ c ∈ zoneOf hi, C c) : (∀ c ∈ zoneOf h0, C c) ∧ 64 ∉ h0 := by
  obtain ⟨a, b, hab⟩ := hp
  constructor
  · intro c hc; exact hz c (hab ▸ zoneOf_piece hc)
  · intro hm; exact h64 (by rw [hab]; simp [hm])

theorem encodeUrl_inv (S : Spec e) (s : Str) (hs : PyStr s) (u : Url)
    (hz : ∀ p, splitUrl e.o s = .ok p → ∀ c ∈ zoneOf (hostinfo p.netloc), S.C c)
    (h : encodeUrl e s = .ok u) : Inv S u := by
  unfold encodeUrl at h
  obtain ⟨p, hp, h⟩ := bind_ok h
  obtain ⟨⟨netloc, pre⟩, hnp, h⟩ := bind_ok h
  simp only [pure, Except.pure, Except.ok.injEq] at h
  subst h
  have hN := (splitUrl_pyStr e.o s hs p hp).1
  suffices hsuf : S.PN netloc ∧ ∀ pr, pre = some pr → (∀ x, pr.rawUser = some x → S.PU x) ∧
      (∀ x, pr.rawPassword = some x → S.PU x) ∧ (∀ x, pr.rawHost = some x → S.PH x netloc) from
    ⟨hsuf.1, fun pr x hq => (hsuf.2 pr hq).1 x, fun pr x hq => (hsuf.2 pr hq).2.1 x,
      fun pr x hq => (hsuf.2 pr hq).2.2 x⟩
  split at hnp
  · cases hnp
    exact ⟨S.PNnil, fun pr hq => by cases hq⟩
  · obtain ⟨np, hnp1, hnp⟩ := bind_ok hnp
    obtain ⟨host0, hh0, hnp⟩ := bind_ok hnp
    obtain ⟨host1, hh1, hnp⟩ := bind_ok hnp
    simp only [pure, Except.pure] at hnp
    -- the parts
    have hfacts : (∀ x, np.user = some x → PyStr x) ∧ (∀ x, np.password = some x → PyStr x) ∧
        (∀ x, np.host = some x → ∃ a b, hostinfo p.netloc = a ++ x ++ b) := by
      split at hnp1
      · exact splitNetloc_facts e.o p.netloc hN np hnp1
      · rename_i hcond
        cases hnp1
        refine ⟨fun x hx => (by cases hx), fun x hx => (by cases hx), ?_⟩
        intro x hx
        cases hx
        have h64 : 64 ∉ p.netloc := by
          intro hm
          have := mem_iff.mpr hm
          simp [this] at hcond
        exact ⟨[], [], by simp [hostinfo_of_noAt h64]⟩
    obtain ⟨kU, kP, kH⟩ := hfacts
    have hpiece : ∃ a b, hostinfo p.netloc = a ++ host0 ++ b := by
      cases hh : np.host with
      | some x =>
        rw [hh] at hh0
        cases hh0
        exact kH _ hh
      | none =>
        rw [hh] at hh0
        simp only at hh0
        split at hh0
        · cases hh0
        · cases hh0; exact ⟨hostinfo p.netloc, [], by simp⟩
    obtain ⟨hz0, h640⟩ := piece_facts hpiece (hostinfo_noAt _) (hz p hp)
    have hC1 := encodeHost_chars S.Cb (S.orc host0) (Or.inr ⟨hz0, h640⟩) hh1
    generalize hhost : (if (mem 91 (rpartition 64 p.netloc).2.2 && !mem 91 host1) = true then [91] ++ host1 ++ [93]
      else host1) = host at hnp
    have hCh : ∀ c ∈ host, S.C c := by
      intro c hc
      rw [← hhost] at hc
      split at hc
      · simp only [List.mem_append, List.mem_cons, List.not_mem_nil, or_false] at hc
        rcases hc with (rfl | hc) | rfl
        · exact S.Cb _ (by omega) (by omega)
        · exact hC1 c hc
        · exact S.Cb _ (by omega) (by omega)
      · exact hC1 c hc
    have hraw : ∀ c ∈ (if mem 91 host = true then (host.drop 1).dropLast else host), c ∈ host := by
      intro c hc
      split at hc
      · exact (List.drop_sublist 1 host).subset ((List.dropLast_sublist _).subset hc)
      · exact hc
    have hnone : ∀ x, (none : Option Str) = some x → S.PU x := fun x hx => by cases hx
    split at hnp
    · cases hnp
      have e1 : ∀ port : Option Nat, makeNetloc id none none (some host) port false =
          (match port with | none => host | some pt => host ++ [58] ++ natToStr pt) := by
        intro port; cases port <;> rfl
      have k1 := S.mkN none none host np.port hnone hnone hCh
      have k2 := S.mkH none none host np.port _ hnone hnone hCh hraw
      rw [e1] at k1 k2
      refine ⟨?_, ?_⟩
      · cases hport : np.port <;> (rw [hport] at k1; exact k1)
      · intro pr hq
        cases hq
        refine ⟨hnone, hnone, ?_⟩
        intro x hx
        cases hx
        cases hport : np.port <;> (rw [hport] at k2; exact k2)
    · cases hnp
      have hru : ∀ x, (requoteOpt e np.user).bind (fun s => if s.isEmpty then none else some s) = some x → S.PU x :=
        fun x hx => requoteOpt_PU S _ kU x (orNoneBind_some.mp hx).1
      have hrp := requoteOpt_PU S _ kP
      rw [makeNetloc_qf (q e Gen.QUOTER) id]
      refine ⟨S.mkN _ _ _ _ hru hrp hCh, ?_⟩
      intro pr hq
      cases hq
      refine ⟨hru, hrp, ?_⟩
      intro x hx
      cases hx
      exact S.mkH _ _ _ _ _ hru hrp hCh hraw

/-! ### `build` -/

theorem hostPortMatch_PN (S : Spec e) (hb : Str) (port : Option Nat) (hh : ∀ c ∈ hb, S.C c) :
    S.PN (match port with | none => hb | some p => hb ++ [58] ++ natToStr p) := by
  have k := S.mkN none none hb port (fun x hx => by cases hx) (fun x hx => by cases hx) hh
  cases port <;> exact k

theorem makeNetloc_true_PN (S : Spec e) (U P : Option Str) (hb : Str) (port : Option Nat)
    (hU : ∀ x, U = some x → PyStr x) (hP : ∀ x, P = some x → PyStr x) (hh : ∀ c ∈ hb, S.C c) :
    S.PN (makeNetloc (q e Gen.QUOTER) U P (some hb) port true) := by
  rw [makeNetloc_true]
  refine S.mk' _ _ _ _ _ ?_ ?_ hh
  · intro x hx
    cases U with
    | none => cases hx
    | some y =>
      simp only [Option.map_some, Option.some.injEq] at hx
      subst hx
      split
      · rename_i hemp; rw [isEmpty_eq_nil hemp]; exact S.PUnil
      · exact S.quote y (hU y rfl)
  · intro x hx
    cases P with
    | none => cases hx
    | some y =>
      simp only [Option.map_some, Option.some.injEq] at hx
      subst hx
      exact S.quote y (hP y rfl)

theorem buildNetloc_PN (S : Spec e) (a : BuildArgs) (N : Str)
    (hU : ∀ x, a.user = some x → PyStr x) (hP : ∀ x, a.password = some x → PyStr x) (hA : PyStr a.authority)
    (hz : ∀ c ∈ zoneOf (hostinfo a.authority), S.C c)
    (h : StrTotal.buildNetloc e a = .ok N) : S.PN N := by
  unfold StrTotal.buildNetloc at h
  simp only at h
  split at h
  · replace h := (BuildFix.screen_ok h).1   -- a non-ASCII authority passed the NFKC screen (fix c2c2803)
    obtain ⟨np, hnp, h⟩ := bind_ok h
    obtain ⟨h1, hh1, h⟩ := bind_ok h
    obtain ⟨kU, kP, kH⟩ := splitNetloc_facts e.o a.authority hA np hnp
    have hC1 : ∀ c ∈ h1, S.C c := by
      cases hh : np.host with
      | none => rw [hh] at hh1; cases hh1; intro c hc; cases hc
      | some x =>
        rw [hh] at hh1
        obtain ⟨hz0, h640⟩ := piece_facts (kH x hh) (hostinfo_noAt _) hz
        exact encodeHost_chars S.Cb (S.orc x) (Or.inr ⟨hz0, h640⟩) hh1
    generalize hhost : (if (mem 91 (rpartition 64 a.authority).2.2 && !mem 91 h1) = true then [91] ++ h1 ++ [93]
      else h1) = host at h
    have hCh : ∀ c ∈ host, S.C c := by
      intro c hc
      rw [← hhost] at hc
      split at hc
      · simp only [List.mem_append, List.mem_cons, List.not_mem_nil, or_false] at hc
        rcases hc with (rfl | hc) | rfl
        · exact S.Cb _ (by omega) (by omega)
        · exact hC1 c hc
        · exact S.Cb _ (by omega) (by omega)
      · exact hC1 c hc
    split at h
    · cases h; exact hostPortMatch_PN S host _ hCh
    · cases h; exact makeNetloc_true_PN S _ _ _ _ kU kP hCh
  · split at h
    · obtain ⟨eh, heh, h⟩ := bind_ok h
      have hCh := encodeHost_chars S.Cb (S.orc a.host) (Or.inl rfl) heh
      split at h
      · cases h; exact hostPortMatch_PN S eh _ hCh
      · cases h; exact makeNetloc_true_PN S _ _ _ _ hU hP hCh
    · cases h; exact S.PNnil

theorem build_inv (S : Spec e) (a : BuildArgs) (u : Url) (henc : a.encoded = false)
    (hU : ∀ x, a.user = some x → PyStr x) (hP : ∀ x, a.password = some x → PyStr x) (hA : PyStr a.authority)
    (hz : ∀ c ∈ zoneOf (hostinfo a.authority), S.C c)
    (h : build e a = .ok u) : Inv S u ∧ ∃ sc, lowerAny e a.scheme = .ok sc ∧ u.scheme = sc := by
  obtain ⟨sc, hsc, h1, h2, h3, _⟩ := MiscLemmas.build_parts e a u henc h
  have hn := buildNetloc_PN S { a with scheme := sc } u.netloc hU hP hA hz h3
  exact ⟨⟨hn, fun _ _ hq => (by rw [h2] at hq; cases hq), fun _ _ hq => (by rw [h2] at hq; cases hq),
    fun _ _ hq => (by rw [h2] at hq; cases hq)⟩, sc, hsc, h1⟩

/-! ### reachability with explicit side conditions -/

/-- the authority texts of a `build` call are Python strings (`BuildArgsPy` covers path, query, fragment only) -/
def BuildNetPy (a : BuildArgs) : Prop :=
  (∀ x, a.user = some x → PyStr x) ∧ (∀ x, a.password = some x → PyStr x) ∧ PyStr a.authority

/-- side conditions of one operation: `Sc` on the argument of `with_scheme`, `J` on a `join` reference -/
def OpSide (Sc : Str → Prop) (J : Url → Prop) : UOp → Prop
  | .withScheme s => Sc s
  | .joinRef ref => J ref
  | _ => True

/-- `Reach` (C01Reach.lean) with explicit side conditions:
    * `Z`  on the `host[:port]` text (what follows the last '@') of the authority the constructor / `build(authority=)`
           is given;
    * `Sc` on the scheme handed to `with_scheme` / `build(scheme=)`;
    * `J`  on a reference record handed to `join` (`UOp.joinRef` accepts ANY well-formed record);
    and the authority texts of `build` are Python strings. -/
inductive ReachS (Z : Str → Prop) (Sc : Str → Prop) (J : Url → Prop) (e : Env) : Url → Prop
  | ctor (s : Str) (u : Url) : PyStr s → (∀ p, splitUrl e.o s = .ok p → Z (hostinfo p.netloc)) →
      encodeUrl e s = .ok u → ReachS Z Sc J e u
  | build (a : BuildArgs) (u : Url) : a.encoded = false → BuildArgsPy a → BuildNetPy a → Z (hostinfo a.authority) →
      Sc a.scheme → build e a = .ok u → ReachS Z Sc J e u
  | op (u : Url) (op : UOp) (v : Url) : ReachS Z Sc J e u → op.ArgsPy e.b → OpSide Sc J op →
      applyOp e u op = .ok v → ReachS Z Sc J e v
  | join (u r : Url) : ReachS Z Sc J e u → ReachS Z Sc J e r → ReachS Z Sc J e (join e u r)

theorem ReachS.toReach {Z Sc : Str → Prop} {J : Url → Prop} {u : Url} (h : ReachS Z Sc J e u) : Reach e u := by
  induction h with
  | ctor s u hs _ h => exact Reach.ctor s u hs h
  | build a u henc hpy _ _ _ h => exact Reach.build a u henc hpy h
  | op u op v _ ha _ h ih => exact Reach.op u op v ih ha h
  | join u r _ _ ihu ihr => exact Reach.join u r ihu ihr

theorem ReachS.mono {Z Z' Sc Sc' : Str → Prop} {J J' : Url → Prop} (hZ : ∀ x, Z x → Z' x) (hS : ∀ x, Sc x → Sc' x)
    (hJ : ∀ x, J x → J' x) {u : Url} (h : ReachS Z Sc J e u) : ReachS Z' Sc' J' e u := by
  induction h with
  | ctor s u hs hz h => exact ReachS.ctor s u hs (fun p hp => hZ _ (hz p hp)) h
  | build a u henc hpy hn hz hsc h => exact ReachS.build a u henc hpy hn (hZ _ hz) (hS _ hsc) h
  | op u op v _ ha hside h ih =>
    refine ReachS.op u op v ih ha ?_ h
    cases op <;> first | exact hS _ hside | exact hJ _ hside | trivial
  | join u r _ _ ihu ihr => exact ReachS.join u r ihu ihr

/-- one operation keeps the invariant -/
theorem applyOp_inv (S : Spec e) {u v : Url} (hI : Inv S u) (op : UOp) (ha : op.ArgsPy e.b)
    (hj : ∀ ref, op = .joinRef ref → Inv S ref) (h : applyOp e u op = .ok v) : Inv S v := by
  cases op with
  | withScheme s => exact inv_of_keeps hI (ReachFix.applyOp_keeps e u _ v h trivial)
  | withPath s kq kf => exact inv_of_keeps hI (ReachFix.applyOp_keeps e u _ v h trivial)
  | withQuery a => exact inv_of_keeps hI (ReachFix.applyOp_keeps e u _ v h trivial)
  | extendQuery a => exact inv_of_keeps hI (ReachFix.applyOp_keeps e u _ v h trivial)
  | updateQuery a => exact inv_of_keeps hI (ReachFix.applyOp_keeps e u _ v h trivial)
  | withoutQueryParams ns => exact inv_of_keeps hI (ReachFix.applyOp_keeps e u _ v h trivial)
  | withFragment f => exact inv_of_keeps hI (ReachFix.applyOp_keeps e u _ v h trivial)
  | withName s kq kf => exact inv_of_keeps hI (ReachFix.applyOp_keeps e u _ v h trivial)
  | withSuffix s kq kf => exact inv_of_keeps hI (ReachFix.applyOp_keeps e u _ v h trivial)
  | child paths => exact inv_of_keeps hI (ReachFix.applyOp_keeps e u _ v h trivial)
  | parent => exact inv_of_keeps hI (ReachFix.applyOp_keeps e u _ v h trivial)
  | copy => exact inv_of_keeps hI (ReachFix.applyOp_keeps e u _ v h trivial)
  | relative =>
    simp only [applyOp] at h
    unfold relative at h
    split at h
    · cases h
    · cases h; exact inv_fresh S.PNnil _ _ _ _
  | joinRef ref => cases h; exact join_inv hI (hj ref rfl)
  | origin => exact (origin_inv hI h).1
  | withPort p k => exact (withPort_inv hI p k h).1
  | withHost s => exact (withHost_inv hI s h).1
  | withUser s => exact (withUser_inv hI s ha h).1
  | withPassword s => exact (withPassword_inv hI s ha h).1

/-- MAIN (generic): every URL reachable under the side conditions satisfies the invariant -/
theorem reachS_inv (S : Spec e) {Z Sc : Str → Prop} {J : Url → Prop}
    (hZ : ∀ hi, Z hi → 64 ∉ hi → ∀ c ∈ zoneOf hi, S.C c) (hJ : ∀ r, J r → Inv S r) {u : Url}
    (h : ReachS Z Sc J e u) : Inv S u := by
  induction h with
  | ctor s u hs hz h => exact encodeUrl_inv S s hs u (fun p hp => hZ _ (hz p hp) (hostinfo_noAt _)) h
  | build a u henc _ hn hz _ h =>
    exact (build_inv S a u henc hn.1 hn.2.1 hn.2.2 (hZ _ hz (hostinfo_noAt _)) h).1
  | op u op v _ ha hside h ih =>
    refine applyOp_inv S ih op ha ?_ h
    intro ref hop; subst hop; exact hJ ref hside
  | join u r _ _ ihu ihr => exact join_inv ihu ihr

/-! ### the scheme -/

/-- the trivial class: used to read frame facts off the generic lemmas -/
def Spec.top (e : Env) : Spec e where
  C := fun _ => True
  PU := fun _ => True
  PN := fun _ => True
  PH := fun _ _ => True
  Cb := fun _ _ _ => trivial
  PUnil := trivial
  PNnil := trivial
  mkN := fun _ _ _ _ _ _ _ => trivial
  mkH := fun _ _ _ _ _ _ _ _ _ => trivial
  rdH := fun _ _ _ _ => trivial
  rdU := fun _ _ => ⟨fun _ _ => trivial, fun _ _ => trivial⟩
  phC := fun _ _ _ _ _ _ => trivial
  phLazy := fun _ _ _ _ => trivial
  quote := fun _ _ => trivial
  requote := fun _ _ => trivial
  orc := fun _ _ _ _ _ => trivial

theorem inv_top (u : Url) : Inv (Spec.top e) u :=
  ⟨trivial, fun _ _ _ _ => trivial, fun _ _ _ _ => trivial, fun _ _ _ _ => trivial⟩

/-- every operation other than `with_scheme` and `join` keeps the scheme (`relative` clears it) -/
theorem applyOp_scheme {u v : Url} (op : UOp) (ha : op.ArgsPy e.b) (h : applyOp e u op = .ok v)
    (h1 : ∀ s, op ≠ .withScheme s) (h2 : ∀ r, op ≠ .joinRef r) : v.scheme = u.scheme ∨ v.scheme = [] := by
  cases op with
  | withScheme s => exact absurd rfl (h1 s)
  | joinRef r => exact absurd rfl (h2 r)
  | withPath s kq kf => cases h; exact Or.inl rfl
  | withQuery a => exact Or.inl (C11_with_query_frame e u v a h).1
  | extendQuery a => exact Or.inl (C11_extend_query_frame e u v a h).1
  | updateQuery a => exact Or.inl (C11_update_query_frame e u v a h).1
  | withoutQueryParams ns =>
    replace h : Yarl.withoutQueryParams e u ns = .ok v := h
    unfold Yarl.withoutQueryParams at h
    simp only at h
    split at h
    · cases h; exact Or.inl rfl
    · exact Or.inl (C11_with_query_frame e u v _ h).1
  | withFragment f => cases h; exact Or.inl (C11_with_fragment e u f).1
  | withName s kq kf => exact Or.inl (C11_with_name_frame e u v s kq kf h).1
  | withSuffix s kq kf => exact Or.inl (C11_with_suffix_frame e u v s kq kf h).1
  | child paths => exact Or.inl (C11_make_child_frame e u v paths false h).1
  | parent => cases h; exact Or.inl (C11_parent_frame u).1
  | copy => cases h; exact Or.inl rfl
  | relative =>
    simp only [applyOp] at h
    unfold relative at h
    split at h
    · cases h
    · cases h; exact Or.inr rfl
  | origin => exact Or.inl (origin_inv (inv_top u) h).2
  | withPort p k => exact Or.inl (withPort_inv (inv_top u) p k h).2
  | withHost s => exact Or.inl (withHost_inv (inv_top u) s h).2
  | withUser s => exact Or.inl (withUser_inv (inv_top u) s ha h).2
  | withPassword s => exact Or.inl (withPassword_inv (inv_top u) s ha h).2

theorem join_scheme (base ref : Url) : (join e base ref).scheme = base.scheme ∨ (join e base ref).scheme = ref.scheme := by
  unfold join
  simp only
  generalize hsch : (if (!ref.scheme.isEmpty) = true then ref.scheme else base.scheme) = scheme
  split
  · exact Or.inr rfl
  · rename_i hcond
    have hs : scheme = base.scheme := by
      simp only [ne_eq, Bool.or_eq_true, decide_eq_true_eq, not_or, Decidable.not_not] at hcond
      exact hcond.1
    split
    · exact Or.inl hs
    · exact Or.inl hs

/-- a class of scheme characters: ASCII, closed under ASCII lower-casing, containing `scheme_chars` -/
structure SchemeClass (P : Nat → Prop) : Prop where
  ascii : ∀ c, P c → c < 128
  lower : ∀ c, P c → P (lowerC c)
  chars : ∀ c ∈ Gen.schemeChars, P c

/-- every character of the scheme text is in the class -/
def SchemeIn (P : Nat → Prop) (s : Str) : Prop := ∀ c ∈ s, P c

theorem schemeIn_nil (P : Nat → Prop) : SchemeIn P [] := fun c hc => by cases hc

theorem schemeIn_lower {P : Nat → Prop} (hP : SchemeClass P) {s : Str} (h : SchemeIn P s) : SchemeIn P (lower s) := by
  intro c hc
  simp only [lower, List.mem_map] at hc
  obtain ⟨x, hx, rfl⟩ := hc
  exact hP.lower x (h x hx)

/-- ASCII -/
theorem schemeClass_ascii : SchemeClass (fun c => c < 128) :=
  ⟨fun _ h => h, fun c h => (HostLemmas.lowerC_lt h).1, by decide⟩

/-- ASCII and not '%' -/
theorem schemeClass_clean : SchemeClass (fun c => c < 128 ∧ c ≠ 37) := by
  refine ⟨fun _ h => h.1, fun c h => ⟨(HostLemmas.lowerC_lt h.1).1, ?_⟩, by decide⟩
  intro e37
  rw [HostLemmas.lowerC_eq_iff c 37 (by omega)] at e37
  exact h.2 e37

/-- the scheme `split_url` returns consists of (lower-cased) `scheme_chars` -/
theorem splitUrl_scheme_in {P : Nat → Prop} (hP : SchemeClass P) (o : Oracles) (s : Str) (p : Parts)
    (h : splitUrl o s = .ok p) : SchemeIn P p.scheme := by
  have hsc : SchemeIn P (splitScheme (cleanUrl s)).1 := by
    unfold splitScheme
    split
    · split
      · rename_i i _ hc
        apply schemeIn_lower hP
        intro c hc'
        have := hc.2
        simp only [List.all_eq_true] at this
        exact hP.chars c (mem_iff.mp (this c hc'))
      · exact schemeIn_nil P
    · exact schemeIn_nil P
  unfold splitUrl at h
  simp only at h
  obtain ⟨_, _, h⟩ := bind_ok h
  split at h
  · obtain ⟨_, _, h⟩ := bind_ok h
    cases h
    exact hsc
  · cases h
    exact hsc

theorem encodeUrl_scheme_in {P : Nat → Prop} (hP : SchemeClass P) (s : Str) (u : Url) (h : encodeUrl e s = .ok u) :
    SchemeIn P u.scheme := by
  unfold encodeUrl at h
  obtain ⟨p, hp, h⟩ := bind_ok h
  obtain ⟨⟨netloc, pre⟩, _, h⟩ := bind_ok h
  cases h
  exact splitUrl_scheme_in hP e.o s p hp

theorem withScheme_in {P : Nat → Prop} (hP : SchemeClass P) {u v : Url} {s : Str} (hs : SchemeIn P s)
    (h : withScheme e u s = .ok v) : SchemeIn P v.scheme := by
  unfold withScheme at h
  obtain ⟨l, hl, h⟩ := bind_ok h
  have hl' : l = lower s := by
    unfold lowerAny at hl
    have : isAscii s = true := by
      simp only [isAscii, List.all_eq_true, decide_eq_true_eq]
      exact fun c hc => hP.ascii c (hs c hc)
    rw [if_pos this] at hl
    cases hl; rfl
  split at h
  · cases h
  · cases h; rw [hl']; exact schemeIn_lower hP hs

/-- under the side condition on `with_scheme` / `build(scheme=)` arguments, the stored scheme is in the class -/
theorem reachS_scheme {P : Nat → Prop} (hP : SchemeClass P) {Z Sc : Str → Prop} {J : Url → Prop}
    (hS : ∀ s, Sc s → SchemeIn P s) (hJ : ∀ r, J r → SchemeIn P r.scheme) {u : Url} (h : ReachS Z Sc J e u) :
    SchemeIn P u.scheme := by
  induction h with
  | ctor s u hs _ h => exact encodeUrl_scheme_in hP s u h
  | build a u henc _ _ _ hsc h =>
    -- the scheme `build` stores is the lowered argument (fix e21485a)
    obtain ⟨sc, hl, hu, _⟩ := MiscLemmas.build_parts e a u henc h
    have hasc : isAscii a.scheme = true := by
      simp only [isAscii, List.all_eq_true, decide_eq_true_eq]
      exact fun c hc => hP.ascii c (hS _ hsc c hc)
    rw [hu, BuildFix.lowerAny_ok_ascii hasc hl]
    exact schemeIn_lower hP (hS _ hsc)
  | op u op v _ ha hside h ih =>
    by_cases h1 : ∃ s, op = .withScheme s
    · obtain ⟨s, rfl⟩ := h1
      exact withScheme_in hP (hS s hside) h
    · by_cases h2 : ∃ r, op = .joinRef r
      · obtain ⟨r, rfl⟩ := h2
        cases h
        rcases join_scheme (e := e) u r with hj | hj
        · rw [hj]; exact ih
        · rw [hj]; exact hJ r hside
      · rcases applyOp_scheme op ha h (fun s hs => h1 ⟨s, hs⟩) (fun r hr => h2 ⟨r, hr⟩) with hk | hk
        · rw [hk]; exact ih
        · rw [hk]; exact schemeIn_nil P
  | join u r _ _ ihu ihr =>
    rcases join_scheme (e := e) u r with hj | hj
    · rw [hj]; exact ihu
    · rw [hj]; exact ihr

/-! ### operation sequences as lists -/

theorem applyOps_reachS {Z Sc : Str → Prop} {J : Url → Prop} (ops : List UOp) : ∀ (u v : Url), ReachS Z Sc J e u →
    (∀ op ∈ ops, op.ArgsPy e.b ∧ OpSide Sc J op) → applyOps e u ops = .ok v → ReachS Z Sc J e v := by
  induction ops with
  | nil =>
    intro u v hu _ h
    simp only [applyOps, List.foldlM_nil, pure, Except.pure] at h
    cases h; exact hu
  | cons op rest ih =>
    intro u v hu ha h
    simp only [applyOps, List.foldlM_cons] at h
    obtain ⟨w, hw, h⟩ := bind_ok h
    exact ih w v (ReachS.op u op w hu (ha op (by simp)).1 (ha op (by simp)).2 hw) (fun o ho => ha o (by simp [ho])) h

/-! ### `WellEscaped` through concatenation -/

open OutLangLemmas in
theorem wellEscaped_append {a b : Str} (ha : WellEscaped a) (hb : WellEscaped b) : WellEscaped (a ++ b) := by
  induction a using WellEscaped.induct with
  | case1 => exact hb
  | case2 x y r ih =>
    rw [wellEscaped_pct] at ha
    show WellEscaped (37 :: x :: y :: (r ++ b))
    rw [wellEscaped_pct]
    exact ⟨ha.1, ha.2.1, ih ha.2.2⟩
  | case3 => simp [WellEscaped] at ha
  | case4 x => simp [WellEscaped] at ha
  | case5 c r h1 h2 h3 ih =>
    have hc : c ≠ 37 := by
      intro hc
      match r, h1, h2, h3 with
      | [], _, h2, _ => exact h2 hc rfl
      | [x], _, _, h3 => exact h3 x hc rfl
      | x :: y :: r', h1, _, _ => exact h1 x y r' hc rfl
    rw [wellEscaped_cons_ne hc] at ha
    show WellEscaped (c :: (r ++ b))
    rw [wellEscaped_cons_ne hc]
    exact ih ha

open OutLangLemmas in
theorem wellEscaped_of_no_pct {s : Str} (h : 37 ∉ s) : WellEscaped s := by
  induction s with
  | nil => trivial
  | cons c r ih =>
    have hc : c ≠ 37 := fun e => h (by simp [e])
    rw [wellEscaped_cons_ne hc]
    exact ih (fun hm => h (by simp [hm]))

theorem wellEscaped_natToStr (p : Nat) : WellEscaped (natToStr p) :=
  wellEscaped_of_no_pct (notMem_digits (natToStr_digits p).2 37 (by omega))

/-- `unsplit_result` of well-escaped pieces (the delimiters it inserts are not '%') -/
theorem unsplit_wellEscaped (scheme netloc path query fragment : Str)
    (h1 : WellEscaped scheme) (h2 : WellEscaped netloc) (h3 : WellEscaped path) (h4 : WellEscaped query)
    (h5 : WellEscaped fragment) : WellEscaped (unsplitResult scheme netloc path query fragment) := by
  have k1 : WellEscaped [58, 47, 47] := wellEscaped_of_no_pct (by decide)
  have k2 : WellEscaped [47] := wellEscaped_of_no_pct (by decide)
  have k3 : WellEscaped [58] := wellEscaped_of_no_pct (by decide)
  have k4 : WellEscaped [47, 47] := wellEscaped_of_no_pct (by decide)
  have k5 : WellEscaped [63] := wellEscaped_of_no_pct (by decide)
  have k6 : WellEscaped [35] := wellEscaped_of_no_pct (by decide)
  have ap := @wellEscaped_append
  unfold unsplitResult
  simp only
  have hurl : WellEscaped
      (if (!netloc.isEmpty || (!scheme.isEmpty && Gen.usesAuthority.contains scheme) ||
            decide (path.take 2 = [47, 47])) = true then
        if (!path.isEmpty && decide (path.take 1 ≠ [47])) = true then
          if (!scheme.isEmpty) = true then scheme ++ [58, 47, 47] ++ netloc ++ [47] ++ path
          else scheme ++ [58] ++ path
        else
          if (!scheme.isEmpty) = true then scheme ++ [58, 47, 47] ++ netloc ++ path
          else [47, 47] ++ netloc ++ path
      else if (!scheme.isEmpty) = true then scheme ++ [58] ++ path
      else path) := by
    split
    · split
      · split
        · exact ap (ap (ap (ap h1 k1) h2) k2) h3
        · exact ap (ap h1 k3) h3
      · split
        · exact ap (ap (ap h1 k1) h2) h3
        · exact ap (ap k4 h2) h3
    · split
      · exact ap (ap h1 k3) h3
      · exact h3
  generalize (if (!netloc.isEmpty || (!scheme.isEmpty && Gen.usesAuthority.contains scheme) ||
            decide (path.take 2 = [47, 47])) = true then
        if (!path.isEmpty && decide (path.take 1 ≠ [47])) = true then
          if (!scheme.isEmpty) = true then scheme ++ [58, 47, 47] ++ netloc ++ [47] ++ path
          else scheme ++ [58] ++ path
        else
          if (!scheme.isEmpty) = true then scheme ++ [58, 47, 47] ++ netloc ++ path
          else [47, 47] ++ netloc ++ path
      else if (!scheme.isEmpty) = true then scheme ++ [58] ++ path
      else path) = url at hurl ⊢
  have hurl2 : WellEscaped (if (!query.isEmpty) = true then url ++ [63] ++ query else url) := by
    split
    · exact ap (ap hurl k5) h4
    · exact hurl
  split
  · exact ap (ap hurl2 k6) h5
  · exact hurl2

theorem mkUserinfo_wellEscaped (U P : Option Str) (ret : Str)
    (hU : ∀ x, U = some x → WellEscaped x) (hP : ∀ x, P = some x → WellEscaped x) (hret : WellEscaped ret) :
    WellEscaped (mkUserinfo U P ret) := by
  have ap := @wellEscaped_append
  have k58 : WellEscaped [58] := wellEscaped_of_no_pct (by decide)
  have k64 : WellEscaped [64] := wellEscaped_of_no_pct (by decide)
  unfold mkUserinfo
  cases P with
  | none =>
    cases U with
    | none => exact hret
    | some us =>
      simp only
      split
      · exact hret
      · exact ap (ap (hU us rfl) k64) hret
  | some pw =>
    have hpw := hP pw rfl
    cases U with
    | none =>
      simp only
      rw [if_neg (by simp)]
      exact ap (ap (ap (ap trivial k58) hpw) k64) hret
    | some us =>
      simp only
      rw [if_neg (by simp)]
      refine ap (ap (ap (ap ?_ k58) hpw) k64) hret
      split
      · trivial
      · exact hU us rfl

/-- `make_netloc` (no encoding) of well-escaped pieces -/
theorem makeNetloc_wellEscaped (qf : Str → Str) (U P : Option Str) (hb : Str) (port : Option Nat)
    (hU : ∀ x, U = some x → WellEscaped x) (hP : ∀ x, P = some x → WellEscaped x) (hh : WellEscaped hb) :
    WellEscaped (makeNetloc qf U P (some hb) port false) := by
  rw [EntryLemmas.makeNetloc_eq]
  apply mkUserinfo_wellEscaped U P _ hU hP
  cases port with
  | none => exact hh
  | some p =>
    exact wellEscaped_append (wellEscaped_append hh (wellEscaped_of_no_pct (by decide))) (wellEscaped_natToStr p)

/-! ### `make_netloc`: characters, and reading the userinfo back -/

theorem mkUserinfo_forall (C : Nat → Prop) (h58 : C 58) (h64 : C 64) (U P : Option Str) (ret : Str)
    (hU : ∀ x, U = some x → ∀ c ∈ x, C c) (hP : ∀ x, P = some x → ∀ c ∈ x, C c) (hret : ∀ c ∈ ret, C c) :
    ∀ c ∈ mkUserinfo U P ret, C c := by
  have ap : ∀ {a b : Str}, (∀ c ∈ a, C c) → (∀ c ∈ b, C c) → ∀ c ∈ a ++ b, C c := by
    intro a b ha hb c hc
    rcases List.mem_append.mp hc with h | h
    · exact ha c h
    · exact hb c h
  have k58 : ∀ c ∈ ([58] : Str), C c := by intro c hc; simp at hc; exact hc ▸ h58
  have k64 : ∀ c ∈ ([64] : Str), C c := by intro c hc; simp at hc; exact hc ▸ h64
  have knil : ∀ c ∈ ([] : Str), C c := by intro c hc; cases hc
  unfold mkUserinfo
  cases P with
  | none =>
    cases U with
    | none => exact hret
    | some us =>
      simp only
      split
      · exact hret
      · exact ap (ap (hU us rfl) k64) hret
  | some pw =>
    have hpw := hP pw rfl
    cases U with
    | none =>
      simp only
      rw [if_neg (by simp)]
      exact ap (ap (ap (ap knil k58) hpw) k64) hret
    | some us =>
      simp only
      rw [if_neg (by simp)]
      refine ap (ap (ap (ap ?_ k58) hpw) k64) hret
      split
      · exact knil
      · exact hU us rfl

theorem makeNetloc_forall (C : Nat → Prop) (h58 : C 58) (h64 : C 64) (hd : ∀ c, isDigitC c = true → C c)
    (qf : Str → Str) (U P : Option Str) (hb : Str) (port : Option Nat)
    (hU : ∀ x, U = some x → ∀ c ∈ x, C c) (hP : ∀ x, P = some x → ∀ c ∈ x, C c) (hh : ∀ c ∈ hb, C c) :
    ∀ c ∈ makeNetloc qf U P (some hb) port false, C c := by
  rw [EntryLemmas.makeNetloc_eq]
  apply mkUserinfo_forall C h58 h64 U P _ hU hP
  cases port with
  | none => exact hh
  | some p =>
    intro c hc
    simp only [List.mem_append, List.mem_cons, List.not_mem_nil, or_false] at hc
    rcases hc with (hc | rfl) | hc
    · exact hh c hc
    · exact h58
    · exact hd c ((natToStr_digits p).2 c hc)

theorem notMem_hostPortStr' {hb : Str} (port : Option Nat) (h64 : 64 ∉ hb) : 64 ∉ hostPortStr hb port := by
  cases port with
  | none => simpa [hostPortStr] using h64
  | some p =>
    have := notMem_digits (natToStrAux_digits p p).2 64 (by omega)
    simp only [hostPortStr, List.mem_append, not_or]
    exact ⟨⟨h64, by simp⟩, this⟩

theorem mem_hostPortStr {hb : Str} (port : Option Nat) {c : Nat} (hc : c ∈ hb) : c ∈ hostPortStr hb port := by
  cases port <;> simp [hostPortStr, hc]

/-- the two splits of `split_netloc` on a text `make_netloc` wrote: the password reads back exactly, the user up to
    "an empty user is no user", the rest is `host[:port]` -/
theorem userSplit_makeNetloc (U P : Option Str) (hb : Str) (port : Option Nat)
    (hU : ∀ x, U = some x → 58 ∉ x) (h64 : 64 ∉ hb) :
    ∃ U', userSplit (makeNetloc id U P (some hb) port false) = (U', P, hostPortStr hb port) ∧
      U'.bind orNone = U.bind orNone ∧ (∀ x, U' = some x → x = [] ∨ U = some x) := by
  have hret := notMem_hostPortStr' port h64
  rw [NetlocLemmas.makeNetloc_eq]
  cases U with
  | none =>
    cases P with
    | none =>
      exact ⟨none, userSplit_noAt _ hret, rfl, fun x hx => (by cases hx)⟩
    | some w =>
      have e1 : (none : Option Str).getD [] ++ 58 :: w ++ 64 :: hostPortStr hb port
          = (58 :: w) ++ 64 :: hostPortStr hb port := by simp
      simp only [e1, userSplit_at _ _ hret]
      exact ⟨some [], by simp [partition], rfl, fun x hx => (by simp at hx; exact Or.inl hx)⟩
  | some u =>
    have h58 := hU u rfl
    cases P with
    | none =>
      simp only
      split
      · rename_i hemp
        refine ⟨none, userSplit_noAt _ hret, ?_, fun x hx => (by cases hx)⟩
        rw [isEmpty_eq_nil hemp]; rfl
      · rw [userSplit_at u _ hret]
        simp only [partition_notFound 58 u h58]
        exact ⟨some u, by simp, rfl, fun x hx => Or.inr hx⟩
    | some w =>
      have e1 : (some u).getD [] ++ 58 :: w ++ 64 :: hostPortStr hb port
          = (u ++ 58 :: w) ++ 64 :: hostPortStr hb port := by simp
      simp only [e1, userSplit_at _ _ hret, partition_found 58 u w h58]
      exact ⟨some u, by simp, rfl, fun x hx => Or.inr hx⟩

end StrAscii
end Yarl
