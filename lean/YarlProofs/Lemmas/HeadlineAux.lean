/-
  HeadlineAux.lean — the two pieces of vocabulary shared by the `CxxHeadline.lean` audit files.
-/
import YarlModel
import YarlProofs.Lemmas.NetlocLemmas
namespace Yarl
namespace HeadB
open NetlocLemmas

/-- "`u` is a URL whose authority is the text `make_netloc` writes for (user, pw, h, port)":
    * `pre`    — no pre-filled constructor cache (true of every `build` / modifier / `encoded=True`
                 result: `C09_no_prefill`, `C09_modifiers_no_prefill`; for the auto-encoding constructor
                 the cache equals the lazy values: `C09_eager_eq_lazy`);
    * `netloc` — the stored authority is `[user[:pw]@]host[:port]`, host in brackets iff it contains ':';
    * `user`   — a present user is non-empty and has no ':'  (`UserOK`);
    * `host`   — the host is non-empty, without '@' '[' ']'   (`HostOK`);
    * `port`   — a present port is at most 65535.
    Every authority the library itself writes has this form (`NetlocCanon`, C03Reach.lean). -/
structure Written (qf : Str → Str) (u : Url) (user pw : Option Str) (h : Str) (port : Option Nat) : Prop where
  pre : u.pre = none
  netloc : u.netloc = makeNetloc qf user pw (some (bracket h)) port false
  user : UserOK user
  host : HostOK h
  port : ∀ p, port = some p → p ≤ 65535

theorem Written.eq {qf : Str → Str} {u : Url} {user pw : Option Str} {h : Str} {port : Option Nat}
    (w : Written qf u user pw h port) :
    u = fromParts u.scheme (makeNetloc qf user pw (some (bracket h)) port false) u.path u.query u.fragment := by
  have h1 := w.pre; have h2 := w.netloc
  cases u; simp only at h1 h2; subst h1 h2; rfl

end HeadB
end Yarl
