/-
  HumanRelax.lean — `human_repr()` with OTHER `unsafe` lists for user and password: the round trip of
  C18Full.lean re-proved with the lists as parameters (`AuthLists`: what the round trip needs of them).
  Used by C18More.lean to show that three of the generated escapes are not needed.
-/
import YarlProofs.Lemmas.HumanMore
set_option linter.unusedVariables false
set_option linter.unusedSimpArgs false
namespace Yarl
namespace HumanRelax

open HumanLemmas HumanFull HumanMore QueryUrl QsLemmas NetlocLemmas

/-- `human_repr()` with the per-position `unsafe` lists as a parameter -/
def humanReprU (L : String → Str) (e : Env) (u : Url) : R Str := do
  let usr ← humanQuoteOpt e.o (← user e u) (L "user")
  let pw ← humanQuoteOpt e.o (← password e u) (L "password")
  let h0 ← host e u
  let h := h0.map (fun h => if !h.isEmpty && mem 58 h then [91] ++ h ++ [93] else h)
  let path ← humanQuote e.o (pathDecoded e u) (L "path")
  let qparts ← (queryPairs u).mapM (fun (k, v) => do
    pure ((← humanQuote e.o k (L "k")) ++ [61] ++ (← humanQuote e.o v (L "v"))))
  let qs := joinC 38 qparts
  let frag ← humanQuote e.o (fragmentDecoded e u) (L "fragment")
  let netloc := makeNetloc (q e Gen.QUOTER) usr pw h (← explicitPort e u) false
  pure (unsplitResult u.scheme netloc path qs frag)

theorem humanReprU_std : humanReprU humanUnsafeOf = humanRepr := rfl

/-- the characters the human form of a user must not contain literally -/
def userBadU : List Nat := [9, 10, 13, 35, 47, 58, 63, 91, 93]
/-- … and of a password (':' and '@' are harmless there) -/
def pwBadU : List Nat := [9, 10, 13, 35, 47, 63, 91, 93]

/-- what the round trip needs of the `unsafe` lists of user (`Lu`) and password (`Lp`) -/
structure AuthLists (Lu Lp : Str) : Prop where
  compatU : ∀ b : Backend, HumanCompat (Gen.REQUOTER.tab b) (Gen.QUOTER.tab b) Lu
  compatP : ∀ b : Backend, HumanCompat (Gen.REQUOTER.tab b) (Gen.QUOTER.tab b) Lp
  avoidU : ∀ d ∈ userBadU, mem d Lu = true ∨ d < 32 ∨ d = 127
  avoidP : ∀ d ∈ pwBadU, mem d Lp = true ∨ d < 32 ∨ d = 127

theorem bad_tab : ∀ d ∈ userBadU ++ pwBadU, d < 128 ∧ d ≠ 37 ∧ isUpperHexDigit d = false := by decide

theorem avoid_of {o : Oracles} {L : Str} (hasc : ∀ c ∈ L, c < 128) (bad : List Nat)
    (hbad : ∀ d ∈ bad, d < 128 ∧ d ≠ 37 ∧ isUpperHexDigit d = false ∧ (mem d L = true ∨ d < 32 ∨ d = 127))
    {x y : Option Str} (hx : UText x) (h : humanQuoteOpt o x L = .ok y) :
    ∀ r, y = some r → ∀ d ∈ bad, d ∉ r := by
  intro r hr d hd
  rcases humanQuoteOpt_ok h with ⟨_, rfl⟩ | ⟨s, r', rfl, rfl, hq⟩
  · cases hr
  · cases hr
    obtain ⟨h1, h2, h3, h4⟩ := hbad d hd
    exact humanQuote_avoid o _ hasc s r (hx s rfl).1 hq d h1 h2 h3 h4

section lists
variable {Lu Lp : Str} (al : AuthLists Lu Lp)
include al

theorem avoidU_of {o : Oracles} {x y : Option Str} (hx : UText x) (h : humanQuoteOpt o x Lu = .ok y) :
    ∀ r, y = some r → ∀ d ∈ userBadU, d ∉ r :=
  avoid_of (al.compatU .c).ascii userBadU
    (fun d hd => ⟨(bad_tab d (by simp [hd])).1, (bad_tab d (by simp [hd])).2.1, (bad_tab d (by simp [hd])).2.2,
      al.avoidU d hd⟩) hx h

theorem avoidP_of {o : Oracles} {x y : Option Str} (hx : UText x) (h : humanQuoteOpt o x Lp = .ok y) :
    ∀ r, y = some r → ∀ d ∈ pwBadU, d ∉ r :=
  avoid_of (al.compatP .c).ascii pwBadU
    (fun d hd => ⟨(bad_tab d (by simp [hd])).1, (bad_tab d (by simp [hd])).2.1, (bad_tab d (by simp [hd])).2.2,
      al.avoidP d hd⟩) hx h

end lists

/-- the human forms of user and password: free of the characters that end the authority, of brackets
    (and, the user, of ':') -/
structure Parts2 (usr pw' : Option Str) : Prop where
  u : ∀ r, usr = some r → ∀ d ∈ userBadU, d ∉ r
  p : ∀ r, pw' = some r → ∀ d ∈ pwBadU, d ∉ r

theorem parts_authCh_u {usr pw' : Option Str} (k : Parts2 usr pw') :
    ∀ r, usr = some r → ∀ a ∈ r, AuthCh a ∧ a ≠ 91 ∧ a ≠ 93 ∧ a ≠ 58 := by
  intro r hr a ha
  have := k.u r hr
  refine ⟨⟨?_, ?_, ?_, ?_, ?_, ?_⟩, ?_, ?_, ?_⟩ <;> (intro e; subst e; exact this _ (by decide) ha)

theorem parts_authCh_p {usr pw' : Option Str} (k : Parts2 usr pw') :
    ∀ r, pw' = some r → ∀ a ∈ r, AuthCh a ∧ a ≠ 91 ∧ a ≠ 93 := by
  intro r hr a ha
  have := k.p r hr
  refine ⟨⟨?_, ?_, ?_, ?_, ?_, ?_⟩, ?_, ?_⟩ <;> (intro e; subst e; exact this _ (by decide) ha)

theorem authText_chars_u {usr pw' : Option Str} {D : Str} (port : Option Nat) (k : Parts2 usr pw')
    (hD : DispHost D) : ∀ a ∈ authText usr pw' D port, AuthCh a := by
  apply FixLemmas.authText_forall AuthCh
  · intro s hs c hc; exact (parts_authCh_u k s hs c hc).1
  · intro s hs c hc; exact (parts_authCh_p k s hs c hc).1
  · exact hD.chars
  · intro c hc; exact (authCh_digit hc).1
  · unfold AuthCh; omega
  · unfold AuthCh; omega
  · intro _; unfold AuthCh; omega
  · intro _; unfold AuthCh; omega

theorem authText_no91_u {usr pw' : Option Str} {D : Str} (port : Option Nat) (k : Parts2 usr pw')
    (hD : HostOK D) (h58 : 58 ∉ D) : ∀ c ∈ authText usr pw' D port, c ≠ 91 ∧ c ≠ 93 := by
  apply FixLemmas.authText_forall (fun c => c ≠ 91 ∧ c ≠ 93)
  · intro s hs c hc; exact ⟨(parts_authCh_u k s hs c hc).2.1, (parts_authCh_u k s hs c hc).2.2.1⟩
  · intro s hs c hc; exact (parts_authCh_p k s hs c hc).2
  · intro c hc
    constructor
    · rintro rfl; exact hD.2.2.1 hc
    · rintro rfl; exact hD.2.2.2 hc
  · intro c hc; exact (authCh_digit hc).2
  · decide
  · decide
  · intro hm; exact absurd hm h58
  · intro hm; exact absurd hm h58

theorem checkBrackets_u {usr pw' : Option Str} {D : Str} (port : Option Nat) (k : Parts2 usr pw')
    (hD : DispHost D) : checkBrackets (authText usr pw' D port) = .ok () := by
  by_cases h58 : 58 ∈ D
  · have hpre : ∀ c ∈ FixLemmas.userPrefix usr pw', c ≠ 91 :=
      FixLemmas.userPrefix_forall (fun c => c ≠ 91) usr pw'
        (fun s hs c hc => (parts_authCh_u k s hs c hc).2.1)
        (fun s hs c hc => (parts_authCh_p k s hs c hc).2.1) (by decide) (by decide)
    obtain ⟨tail, htail⟩ : ∃ tail, hostPortStr (bracket D) port = 91 :: (D ++ 93 :: tail) := by
      have hb : bracket D = 91 :: (D ++ [93]) := by
        unfold bracket; rw [if_pos (mem_iff.mpr h58)]; simp
      cases port with
      | none => exact ⟨[], by simp [hostPortStr, hb]⟩
      | some p => exact ⟨58 :: natToStr p, by simp [hostPortStr, hb]⟩
    have hA : authText usr pw' D port = FixLemmas.userPrefix usr pw' ++ 91 :: (D ++ 93 :: tail) := by
      rw [FixLemmas.authText_eq, htail]
    have e1 : partition 91 (authText usr pw' D port) =
        (FixLemmas.userPrefix usr pw', true, D ++ 93 :: tail) := by
      rw [hA]; exact partition_found 91 _ _ (fun hm => hpre 91 hm rfl)
    have e2 : partition 93 (D ++ 93 :: tail) = (D, true, tail) := partition_found 93 D tail hD.ok.2.2.2
    have m1 : mem 91 (authText usr pw' D port) = true := mem_iff.mpr (by rw [hA]; simp)
    have m2 : mem 93 (authText usr pw' D port) = true := mem_iff.mpr (by rw [hA]; simp)
    unfold checkBrackets
    simp only [m1, m2, e1, e2, Bool.not_true, Bool.and_false, Bool.or_self, Bool.false_eq_true, if_false, if_true]
    have hv : ¬ (D.take 1 = [118]) := by
      intro ht
      apply hD.notV h58
      cases D with
      | nil => simp at ht
      | cons x xs => simp at ht; simp [ht]
    rw [if_neg hv]
    simp [mem_iff.mpr h58]
  · have hall := authText_no91_u port k hD.ok h58
    exact FixLemmas.checkBrackets_plain (mem_false_iff.mpr (fun hm => (hall 91 hm).1 rfl))
      (mem_false_iff.mpr (fun hm => (hall 93 hm).2 rfl))

/-- re-quoting the human form (any compatible list) of an optional text -/
theorem requoteOpt_u (e : Env) (L : Str) (k : ∀ b : Backend, HumanCompat (Gen.REQUOTER.tab b) (Gen.QUOTER.tab b) L)
    (x y : Option Str) (hx : UText x) (h : humanQuoteOpt e.o x L = .ok y) :
    requoteOpt e y = x.map (q e Gen.QUOTER) := by
  rcases humanQuoteOpt_ok h with ⟨rfl, rfl⟩ | ⟨s, r, rfl, rfl, hq⟩
  · rfl
  · obtain ⟨h1, h2⟩ := hx s rfl
    simp only [requoteOpt, Option.map_some, Option.some.injEq]
    by_cases hr : r = []
    · subst hr
      have hs : s = [] := by
        by_cases hs : s = []
        · exact hs
        · exact absurd rfl (humanQuote_ne_nil e.o _ s [] h1 hs hq)
      subst hs
      rw [q_nil e Gen.QUOTER]; rfl
    · rw [HumanLemmas.isEmpty_false hr]
      simp only [Bool.false_eq_true, ↓reduceIte]
      exact run_roundtrip Gen.REQUOTER Gen.QUOTER (by decide) (by decide) (by decide) (by decide) L k e s r h1 h2 hq

section lists2
variable {Lu Lp : Str} (al : AuthLists Lu Lp)
include al

theorem parts2_of {o : Oracles} {user pw usr pw' : Option Str} (hu : UText user) (hw : UText pw)
    (hq1 : humanQuoteOpt o user Lu = .ok usr) (hq2 : humanQuoteOpt o pw Lp = .ok pw') : Parts2 usr pw' :=
  ⟨avoidU_of al hu hq1, avoidP_of al hw hq2⟩

/-- the authority block of `encode_url` on the authority of the human form -/
theorem netBlock_u (e : Env) (sc : Str) (user pw usr pw' : Option Str) (H D : Str) (port : Option Nat)
    (hu : UText user) (hune : ∀ s, user = some s → s ≠ []) (hw : UText pw)
    (hq1 : humanQuoteOpt e.o user Lu = .ok usr) (hq2 : humanQuoteOpt e.o pw Lp = .ok pw')
    (hD : HostOK D) (hH : HostOK H) (henc : encodeHost e.o D false = .ok (bracket H))
    (hcol : 58 ∈ D → 58 ∈ H) (hp : ∀ p, port = some p → p ≤ 65535) :
    FixLemmas.netBlock e sc (authText usr pw' D port) =
      .ok (authText (user.map (q e Gen.QUOTER)) (pw.map (q e Gen.QUOTER)) H port,
           some (preOf (user.map (q e Gen.QUOTER)) (pw.map (q e Gen.QUOTER)) H port)) := by
  have k := parts2_of al hu hw hq1 hq2
  have hne1 := humanPart_ne_nil hu hune hq1
  have huo : UserOK usr := fun r hr => ⟨hne1 r hr, k.u r hr 58 (by decide)⟩
  have hne : (authText usr pw' D port).isEmpty = false :=
    HumanLemmas.isEmpty_false (makeNetloc_ne_nil id usr pw' hD.1 port)
  have hnp : FixLemmas.gateNp e.o (authText usr pw' D port) =
      .ok { user := usr, password := pw', host := some D, port := port } := by
    unfold FixLemmas.gateNp
    split
    · exact netloc_roundtrip e.o id usr pw' D port huo hD hp
    · rename_i hg
      simp only [Bool.or_eq_true, not_or, Bool.not_eq_true] at hg
      obtain ⟨rfl, rfl, rfl, hA, _⟩ := FixLemmas.authText_plain huo hg.1.1 hg.1.2 hg.2
      rw [hA]; rfl
  have hraw : (if mem 91 (bracket H) then ((bracket H).drop 1).dropLast else bracket H) = H :=
    unbracket_bracket H hH
  have hkeep : (if mem 91 (rpartition 64 (authText usr pw' D port)).2.2 && !mem 91 (bracket H)
      then [91] ++ bracket H ++ [93] else bracket H) = bracket H := by
    by_cases h58 : 58 ∈ H
    · have : mem 91 (bracket H) = true := by
        unfold bracket; rw [if_pos (mem_iff.mpr h58)]; exact mem_iff.mpr (by simp)
      simp [this]
    · have h58D : 58 ∉ D := fun h => h58 (hcol h)
      have : mem 91 (rpartition 64 (authText usr pw' D port)).2.2 = false :=
        ParseLemmas.mem_rpartition_snd_snd_false (mem_false_iff.mpr
          (fun hm => (authText_no91_u port k hD h58D 91 hm).1 rfl))
      simp [this]
  have hru := requoteOpt_u e Lu al.compatU user usr hu hq1
  have hrp := requoteOpt_u e Lp al.compatP pw pw' hw hq2
  have hor := HumanLemmas.orNone_quoted_user e user hu hune
  rw [FixLemmas.netBlock_eq, hne, hnp]
  simp only [Bool.false_eq_true, if_false, bind, Except.bind, FixLemmas.netRest, pure, Except.pure, henc,
    hkeep, hraw, hru, hrp, hor]
  rcases humanQuoteOpt_ok hq1 with ⟨rfl, rfl⟩ | ⟨s1, r1, rfl, rfl, _⟩
  · rcases humanQuoteOpt_ok hq2 with ⟨rfl, rfl⟩ | ⟨s2, r2, rfl, rfl, _⟩
    · simp only [Option.isNone_none, Bool.and_self, if_true]
      cases port <;> simp [authText, makeNetloc, preOf]
    · simp only [Option.isNone_some, Option.isNone_none, Bool.false_and, Bool.false_eq_true, if_false,
        Option.map_none, Option.map_some, authText, makeNetloc_qf (q e Gen.QUOTER) id]
  · simp only [Option.isNone_some, Bool.and_false, Bool.false_eq_true, if_false, authText,
      makeNetloc_qf (q e Gen.QUOTER) id]

end lists2

/-- the pieces of the human form made with the lists `Lu`, `Lp` for user and password -/
structure PiecesU (Lu Lp : Str) (e : Env) (user pw : Option Str) (p : Str) (kvs : List (Str × Str)) (f : Str)
    (usr pw' : Option Str) (rp : Str) (qparts : List Str) (rf : Str) : Prop where
  q1 : humanQuoteOpt e.o user Lu = .ok usr
  q2 : humanQuoteOpt e.o pw Lp = .ok pw'
  q3 : humanQuote e.o p (humanUnsafeOf "path") = .ok rp
  q4 : kvs.mapM (humanPair e.o) = .ok qparts
  q5 : humanQuote e.o f (humanUnsafeOf "fragment") = .ok rf

/-- the lists `L` differ from the generated ones only for user and password -/
structure SameElsewhere (L : String → Str) : Prop where
  path : L "path" = humanUnsafeOf "path"
  k : L "k" = humanUnsafeOf "k"
  v : L "v" = humanUnsafeOf "v"
  fragment : L "fragment" = humanUnsafeOf "fragment"

theorem humanReprU_eq (L : String → Str) (se : SameElsewhere L) (e : Env) (u : Url) : humanReprU L e u = (do
    let usr ← humanQuoteOpt e.o (← user e u) (L "user")
    let pw ← humanQuoteOpt e.o (← password e u) (L "password")
    let h0 ← host e u
    let h := h0.map (fun h => if !h.isEmpty && mem 58 h then [91] ++ h ++ [93] else h)
    let path ← humanQuote e.o (pathDecoded e u) (humanUnsafeOf "path")
    let qparts ← (queryPairs u).mapM (humanPair e.o)
    let qs := joinC 38 qparts
    let frag ← humanQuote e.o (fragmentDecoded e u) (humanUnsafeOf "fragment")
    let netloc := makeNetloc (q e Gen.QUOTER) usr pw h (← explicitPort e u) false
    pure (unsplitResult u.scheme netloc path qs frag)) := by
  unfold humanReprU
  rw [se.k, se.v, se.path, se.fragment]
  rfl

theorem humanReprU_full (L : String → Str) (se : SameElsewhere L) (e : Env) (sc : Str) (user pw : Option Str)
    (H D : Str) (port : Option Nat) (p : Str) (kvs : List (Str × Str)) (f : Str)
    (hH : HostOK H) (hshown : ∀ u, rawHost e u = .ok (some H) → host e u = .ok (some D)) (hD : D ≠ [])
    (hport : ∀ x, port = some x → x ≤ 65535)
    (hu : UText user) (hune : ∀ s, user = some s → s ≠ []) (hw : UText pw)
    (hp : PyStr (47 :: p)) (hn : NoSurrogate (47 :: p)) (hg : GoodPairs kvs)
    (hf : PyStr f) (hfn : NoSurrogate f) :
    humanReprU L e (builtFull e sc user pw H port (47 :: p) kvs f) =
      (humanQuoteOpt e.o user (L "user") >>= fun usr =>
        humanQuoteOpt e.o pw (L "password") >>= fun pw' =>
        humanQuote e.o (47 :: p) (humanUnsafeOf "path") >>= fun rp =>
        kvs.mapM (humanPair e.o) >>= fun qparts =>
        humanQuote e.o f (humanUnsafeOf "fragment") >>= fun rf =>
          pure (unsplitResult sc (authText usr pw' D port) rp (joinC 38 qparts) rf)) := by
  have huk := userOK_quoted e user hu hune
  have hU : rawUser e (builtFull e sc user pw H port (47 :: p) kvs f) = .ok (user.map (q e Gen.QUOTER)) :=
    rawUser_std e id _ _ H port _ _ _ _ huk hH hport
  have hP : rawPassword e (builtFull e sc user pw H port (47 :: p) kvs f) = .ok (pw.map (q e Gen.QUOTER)) :=
    rawPassword_std e id _ _ H port _ _ _ _ huk hH hport
  have hHo : rawHost e (builtFull e sc user pw H port (47 :: p) kvs f) = .ok (some H) :=
    rawHost_std e id _ _ H port _ _ _ _ huk hH hport
  have hE : explicitPort e (builtFull e sc user pw H port (47 :: p) kvs f) = .ok port :=
    explicitPort_std e id _ _ H port _ _ _ _ huk hH hport
  have hHost := hshown _ hHo
  have hq : queryPairs (builtFull e sc user pw H port (47 :: p) kvs f) = kvs := parse_qtext e.b kvs hg
  have hsc : (builtFull e sc user pw H port (47 :: p) kvs f).scheme = sc := rfl
  rw [humanReprU_eq L se]
  unfold Yarl.user password
  rw [hU, hP, hHost, hE, pathDecoded_of e _ p rfl hp hn, fragmentDecoded_of e _ f rfl hf hfn, hq, hsc]
  simp only [bind, Except.bind, pure, Except.pure, map_readback e user hu, map_readback e pw hw,
    Option.map_some, shown_bracket hD, authText, makeNetloc_qf (q e Gen.QUOTER) id]

theorem humanReprU_shape (L : String → Str) (se : SameElsewhere L) (e : Env) (sc : Str) (user pw : Option Str)
    (H D : Str) (port : Option Nat) (p : Str) (kvs : List (Str × Str)) (f : Str) (hsc : sc ≠ [])
    (hH : HostOK H) (hshown : ∀ u, rawHost e u = .ok (some H) → host e u = .ok (some D)) (hD : D ≠ [])
    (hport : ∀ x, port = some x → x ≤ 65535)
    (hu : UText user) (hune : ∀ s, user = some s → s ≠ []) (hw : UText pw)
    (hp : PyStr (47 :: p)) (hn : NoSurrogate (47 :: p)) (hg : GoodPairs kvs)
    (hf : PyStr f) (hfn : NoSurrogate f) (hr : Str)
    (hh : humanReprU L e (builtFull e sc user pw H port (47 :: p) kvs f) = .ok hr) :
    ∃ usr pw' rp qparts rf,
      PiecesU (L "user") (L "password") e user pw (47 :: p) kvs f usr pw' (47 :: rp) qparts rf ∧
      hr = composeUrl sc (authText usr pw' D port) (47 :: rp) (joinC 38 qparts) rf := by
  rw [humanReprU_full L se e sc user pw H D port p kvs f hH hshown hD hport hu hune hw hp hn hg hf hfn] at hh
  cases hq1 : humanQuoteOpt e.o user (L "user") with
  | error err => rw [hq1] at hh; cases hh
  | ok usr =>
  cases hq2 : humanQuoteOpt e.o pw (L "password") with
  | error err => rw [hq1, hq2] at hh; cases hh
  | ok pw' =>
  cases h1 : humanQuote e.o (47 :: p) (humanUnsafeOf "path") with
  | error err => rw [hq1, hq2, h1] at hh; cases hh
  | ok rp =>
  cases h4 : kvs.mapM (humanPair e.o) with
  | error err => rw [hq1, hq2, h1, h4] at hh; cases hh
  | ok qparts =>
  cases h2 : humanQuote e.o f (humanUnsafeOf "fragment") with
  | error err => rw [hq1, hq2, h1, h4, h2] at hh; cases hh
  | ok rf =>
    rw [hq1, hq2, h1, h4, h2] at hh
    simp only [bind, Except.bind, pure, Except.pure, Except.ok.injEq] at hh
    subst hh
    obtain ⟨rp', _, rfl⟩ := humanQuote_cons_shown e.o _ 47 p rp (hqChar_slash_path e.o) h1
    refine ⟨usr, pw', rp', qparts, rf, ⟨hq1, hq2, h1, h4, h2⟩, ?_⟩
    exact FixLemmas.unsplit_compose sc _ _ _ _ hsc (authText_ne_nil usr pw' hD port) (Or.inr ⟨rp', rfl⟩)

section lists3
variable {Lu Lp : Str} (al : AuthLists Lu Lp)
include al

theorem appendixB_u (e : Env) (sc : Str) (user pw : Option Str) (D : Str) (port : Option Nat)
    (p : Str) (kvs : List (Str × Str)) (f : Str) (usr pw' : Option Str) (rp : Str) (qparts : List Str)
    (rf : Str) (vs : ValidScheme sc) (hD : DispHost D) (hu : UText user) (hw : UText pw)
    (hp : PyStr (47 :: p)) (hg : GoodPairs kvs)
    (hq : PiecesU Lu Lp e user pw (47 :: p) kvs f usr pw' (47 :: rp) qparts rf) :
    (Rfc.appendixB Gen.schemeChars
      (composeUrl sc (authText usr pw' D port) (47 :: rp) (joinC 38 qparts) rf)).authority =
      authText usr pw' D port := by
  obtain ⟨hq1, hq2, h1, h4, h2⟩ := hq
  obtain ⟨hu1, hu2, hm35, hm63⟩ := unsafe_ascii
  have k := parts2_of al hu hw hq1 hq2
  have av : ∀ d, d < 128 → d ≠ 37 → d ≠ 47 → isUpperHexDigit d = false →
      (mem d (humanUnsafeOf "path") = true ∨ d < 32 ∨ d = 127) → d ∉ rp := by
    intro d hd h37 h47 hx hbad hm
    exact humanQuote_avoid e.o _ hu1 _ _ hp h1 d hd h37 hx hbad (by simp [hm])
  have h35 : 35 ∉ rp := av 35 (by omega) (by omega) (by omega) (by decide) (Or.inl hm35)
  have h63 : 63 ∉ rp := av 63 (by omega) (by omega) (by omega) (by decide) (Or.inl hm63)
  obtain ⟨_, _, hqbad⟩ := humanQuery_chars e.o kvs qparts hg h4
  rw [FixLemmas.appendixB_compose sc _ (47 :: rp) _ rf (schemeOK_of_valid vs)
    (fun c hc => by
      obtain ⟨a1, a2, a3, _⟩ := authText_chars_u port k hD c hc
      simp [Rfc.isDelim3, a1, a2, a3])
    (Or.inr ⟨rp, rfl⟩)
    (fun c hc => by
      rcases List.mem_cons.mp hc with rfl | hc
      · omega
      · exact ⟨fun e9 => h63 (e9 ▸ hc), fun e9 => h35 (e9 ▸ hc)⟩)
    (fun c hc e9 => hqbad 35 (by decide) (e9 ▸ hc))]

theorem reparse_u (e : Env) (sc : Str) (user pw : Option Str) (h H D : Str) (port : Option Nat)
    (p : Str) (kvs : List (Str × Str)) (f : Str) (usr pw' : Option Str) (rp : Str) (qparts : List Str)
    (rf : Str) (vs : ValidScheme sc) (hrt : HostRT e h H D)
    (hport : ∀ x, port = some x → x ≤ 65535)
    (hu : UText user) (hune : ∀ s, user = some s → s ≠ []) (hw : UText pw)
    (hp : PyStr (47 :: p)) (hn : NoSurrogate (47 :: p)) (hnorm : normalizePath (47 :: p) = 47 :: p)
    (hg : GoodPairs kvs) (hf : PyStr f) (hfn : NoSurrogate f)
    (hq : PiecesU Lu Lp e user pw (47 :: p) kvs f usr pw' (47 :: rp) qparts rf)
    (hnf : isAscii (authText usr pw' D port) = false → checkNetloc e.o (authText usr pw' D port) = .ok ()) :
    encodeUrl e (composeUrl sc (authText usr pw' D port) (47 :: rp) (joinC 38 qparts) rf) =
      .ok { builtFull e sc user pw H port (47 :: p) kvs f with
            pre := some (preOf (user.map (q e Gen.QUOTER)) (pw.map (q e Gen.QUOTER)) H port) } := by
  obtain ⟨hq1, hq2, h1, h4, h2⟩ := hq
  obtain ⟨hu1, hu2, hm35, hm63⟩ := unsafe_ascii
  have k := parts2_of al hu hw hq1 hq2
  -- the path
  have h1' : humanQuote e.o p (humanUnsafeOf "path") = .ok rp := by
    obtain ⟨r', hr', hcons⟩ := humanQuote_cons_shown e.o _ 47 p _ (hqChar_slash_path e.o) h1
    cases hcons; exact hr'
  have av : ∀ d, d < 128 → d ≠ 37 → d ≠ 47 → isUpperHexDigit d = false →
      (mem d (humanUnsafeOf "path") = true ∨ d < 32 ∨ d = 127) → d ∉ rp := by
    intro d hd h37 h47 hx hbad hm
    exact humanQuote_avoid e.o _ hu1 _ _ hp h1 d hd h37 hx hbad (by simp [hm])
  have h35 : 35 ∉ rp := av 35 (by omega) (by omega) (by omega) (by decide) (Or.inl hm35)
  have h63 : 63 ∉ rp := av 63 (by omega) (by omega) (by omega) (by decide) (Or.inl hm63)
  have hc1 : Clean rp := fun c hc =>
    ⟨fun e9 => av 9 (by omega) (by omega) (by omega) (by decide) (Or.inr (Or.inl (by omega))) (e9 ▸ hc),
     fun e9 => av 10 (by omega) (by omega) (by omega) (by decide) (Or.inr (Or.inl (by omega))) (e9 ▸ hc),
     fun e9 => av 13 (by omega) (by omega) (by omega) (by decide) (Or.inr (Or.inl (by omega))) (e9 ▸ hc)⟩
  have hpath : q e Gen.PATH_REQUOTER (47 :: rp) = q e Gen.PATH_QUOTER (47 :: p) :=
    C18_path_roundtrip e _ _ hp hn h1
  have hd := stored_path e p hp hn
  rw [hnorm] at hd
  -- the fragment
  have avf : ∀ d, d < 32 → isUpperHexDigit d = false → d ∉ rf := fun d hd hx =>
    humanQuote_avoid e.o _ hu2 _ _ hf h2 d (by omega) (by omega) hx (Or.inr (Or.inl hd))
  have hc2 : Clean rf := fun c hc =>
    ⟨fun e9 => avf 9 (by omega) (by decide) (e9 ▸ hc),
     fun e9 => avf 10 (by omega) (by decide) (e9 ▸ hc),
     fun e9 => avf 13 (by omega) (by decide) (e9 ▸ hc)⟩
  have hfrag : FixLemmas.encFragment e rf = (if f.isEmpty then f else q e Gen.FRAGMENT_QUOTER f) := by
    unfold FixLemmas.encFragment
    cases f with
    | nil => rw [humanQuote_eq_nil e.o _ rf h2]; rfl
    | cons c r =>
      have hne := humanQuote_ne_nil e.o _ _ rf hf (by simp) h2
      rw [HumanLemmas.isEmpty_false hne]
      simp only [Bool.false_eq_true, ↓reduceIte, List.isEmpty_cons]
      exact C18_fragment_roundtrip e _ _ hf hfn h2
  -- the query
  obtain ⟨_, _, hqbad⟩ := humanQuery_chars e.o kvs qparts hg h4
  have hq35 : ∀ c ∈ joinC 38 qparts, c ≠ 35 := fun c hc e9 => hqbad 35 (by decide) (e9 ▸ hc)
  have hcq : Clean (joinC 38 qparts) := fun c hc =>
    ⟨fun e9 => hqbad 9 (by decide) (e9 ▸ hc), fun e9 => hqbad 10 (by decide) (e9 ▸ hc),
     fun e9 => hqbad 13 (by decide) (e9 ▸ hc)⟩
  have hquery : FixLemmas.encQuery e (joinC 38 qparts) = qtext e.b kvs := by
    unfold FixLemmas.encQuery
    split
    · rename_i hemp
      have := (humanQuery_nil_iff e.o kvs qparts h4).mp (List.isEmpty_iff.mp hemp)
      subst this
      rw [List.isEmpty_iff.mp hemp]; rfl
    · exact query_requote_human e kvs qparts hg h4
  -- the authority
  have hsplit := splitUrl_human e.o sc (authText usr pw' D port) rp (joinC 38 qparts) rf vs
    (authText_chars_u port k hrt.disp) (checkBrackets_u port k hrt.disp) hnf
    (fun c hc => ⟨fun e9 => h63 (e9 ▸ hc), fun e9 => h35 (e9 ▸ hc)⟩) hc1 hq35 hcq hc2
  have hnet := netBlock_u al e sc user pw usr pw' H D port hu hune hw hq1 hq2 hrt.disp.ok hrt.okH
    hrt.enc hrt.colon hport
  rw [FixLemmas.encodeUrl_of e _ _ _ _ hsplit hnet]
  have hnl : (authText (user.map (q e Gen.QUOTER)) (pw.map (q e Gen.QUOTER)) H port).isEmpty = false :=
    HumanLemmas.isEmpty_false (authText_ne_nil _ _ hrt.okH.1 _)
  simp only [FixLemmas.finishUrl, hfrag, hquery, FixLemmas.encPath, hpath, hnl, List.isEmpty_cons,
    Bool.false_eq_true, ↓reduceIte, Bool.not_false, Bool.true_and, hd, builtFull, fromParts]

end lists3

/-- THE ROUND TRIP WITH OTHER LISTS for user and password: for lists `L` that agree with the generated ones
    except for user and password, where they satisfy `AuthLists`, the text `human_repr()` would give with the
    lists `L` re-parses to a URL equal to the built one (same family, same NFKC proviso) -/
theorem roundtrip_lists (L : String → Str) (se : SameElsewhere L) (al : AuthLists (L "user") (L "password"))
    (e : Env) (sc : Str) (user pw : Option Str) (h H D : Str)
    (port : Option Nat) (p : Str) (kvs : List (Str × Str)) (f : Str)
    (vs : ValidScheme sc) (hrt : HostRT e h H D) (hport : ∀ x, port = some x → x ≤ 65535)
    (hu : UText user) (hune : ∀ s, user = some s → s ≠ []) (hw : UText pw)
    (hp : PyStr (47 :: p)) (hn : NoSurrogate (47 :: p)) (hg : GoodPairs kvs)
    (hf : PyStr f) (hfn : NoSurrogate f) :
    ∃ u, build e (fullArgs sc user pw h port p kvs f) = .ok u ∧
      ∀ hr, humanReprU L e u = .ok hr →
        (isAscii (Rfc.appendixB Gen.schemeChars hr).authority = false →
          checkNetloc e.o (Rfc.appendixB Gen.schemeChars hr).authority = .ok ()) →
        ∃ v, encodeUrl e hr = .ok v ∧ Url.beq v u = true := by
  have hb := build_full e sc sc (vs.lowerAny_eq e) user pw h H port p kvs f hrt.hne hrt.okH.1 hrt.build hport hp hn
  have hgp := good_normalizePath hp hn
  rw [normalizePath_rooted] at hb
  refine ⟨_, hb, ?_⟩
  intro hr hh hnf
  obtain ⟨usr, pw', rp, qparts, rf, hq, rfl⟩ := humanReprU_shape L se e sc user pw H D (effPort sc port)
    (normTail p) kvs f vs.ne hrt.okH hrt.shown hrt.disp.ok.1 (effPort_range hport) hu hune hw hgp.1 hgp.2 hg hf
    hfn hr hh
  rw [appendixB_u al e sc user pw D (effPort sc port) (normTail p) kvs f usr pw' rp qparts rf vs hrt.disp hu hw
    hgp.1 hg hq] at hnf
  rw [reparse_u al e sc user pw h H D (effPort sc port) (normTail p) kvs f usr pw' rp qparts rf vs hrt
    (effPort_range hport) hu hune hw hgp.1 hgp.2 (normTail_normal p) hg hf hfn hq hnf]
  exact ⟨_, rfl, by simp [Url.beq, eqKey]⟩

end HumanRelax
end Yarl
