/-
  PathAlg.lean — helper lemmas for C13 (path algebra): generic split/join facts,
  `rfind`, the shape of `rawParts`, `withRawName` and `makeChild` on segment lists.
-/
import YarlModel
import YarlProofs.Lemmas.PathLemmas
import YarlProofs.Lemmas.QuoteEquiv
import YarlProofs.Lemmas.GenTabs
namespace Yarl.PathAlg
open Yarl Yarl.PathLemmas

/-! ### generic separator -/

theorem joinC_cons_gen (c : Nat) (s : Str) (rest : List Str) :
    joinC c (s :: rest) = s ++ (rest.map (c :: ·)).flatten := by
  induction rest generalizing s with
  | nil => simp [joinC, joinSep]
  | cons s' r ih =>
    have := ih s'
    simp only [joinC] at this ⊢
    simp [joinSep, this]

theorem joinC_splitOn_gen (c : Nat) (s : Str) : joinC c (splitOn c s) = s := by
  induction s with
  | nil => simp [splitOn, joinC, joinSep]
  | cons x xs ih =>
    by_cases h : x = c
    · subst h
      obtain ⟨q, qs, e⟩ := List.exists_cons_of_ne_nil (splitOn_ne_nil x xs)
      simp only [splitOn, ↓reduceIte]
      rw [joinC_cons_gen]
      rw [e, joinC_cons_gen] at ih
      rw [e]
      simp [ih]
    · obtain ⟨q, qs, e⟩ := List.exists_cons_of_ne_nil (splitOn_ne_nil c xs)
      rw [splitOn_cons_ne c x xs h e, joinC_cons_gen]
      rw [e, joinC_cons_gen] at ih
      simp [ih]

theorem splitOn_of_not_mem (c : Nat) (s : Str) (h : c ∉ s) : splitOn c s = [s] := by
  induction s with
  | nil => simp [splitOn]
  | cons x xs ih =>
    have hx : x ≠ c := fun e => h (e ▸ List.mem_cons_self)
    have hxs : c ∉ xs := fun e => h (List.mem_cons_of_mem _ e)
    exact splitOn_cons_ne c x xs hx (ih hxs)

/-- the head segment of a split is empty exactly when the string is empty or starts with the separator -/
theorem splitOn_head_nil (c : Nat) (x : Nat) (xs : Str) (h : x ≠ c) :
    ∃ p ps, splitOn c (x :: xs) = (x :: p) :: ps := by
  obtain ⟨q, qs, e⟩ := List.exists_cons_of_ne_nil (splitOn_ne_nil c xs)
  exact ⟨q, qs, splitOn_cons_ne c x xs h e⟩

/-! ### find / rfind -/

theorem find_some (c : Nat) (s : Str) (i : Nat) (h : find c s = some i) :
    i < s.length ∧ s[i]? = some c ∧ c ∉ s.take i := by
  induction s generalizing i with
  | nil => simp [find] at h
  | cons x xs ih =>
    unfold find at h
    split at h
    · rename_i hx
      cases h
      simp [hx]
    · rename_i hx
      cases hf : find c xs with
      | none => simp [hf] at h
      | some j =>
        simp [hf] at h
        subst h
        obtain ⟨h1, h2, h3⟩ := ih j hf
        refine ⟨by simp; omega, by simpa using h2, ?_⟩
        simp only [List.take_succ_cons, List.mem_cons, not_or]
        exact ⟨fun e => hx e.symm, h3⟩

theorem rfind_some (c : Nat) (s : Str) (i : Nat) (h : rfind c s = some i) :
    i < s.length ∧ s[i]? = some c ∧ c ∉ s.drop (i + 1) := by
  unfold rfind at h
  cases hf : find c s.reverse with
  | none => simp [hf] at h
  | some j =>
    simp [hf] at h
    obtain ⟨h1, h2, h3⟩ := find_some c s.reverse j hf
    simp only [List.length_reverse] at h1
    subst h
    refine ⟨by omega, ?_, ?_⟩
    · rw [List.getElem?_reverse h1] at h2
      exact h2
    · intro hm
      apply h3
      have : s.drop (s.length - 1 - j + 1) = (s.reverse.take j).reverse := by
        rw [List.take_reverse, List.reverse_reverse]
        congr 1
        omega
      rw [this] at hm
      simpa using hm

/-! ### segment lists -/

/-- no segment contains a slash -/
def Segs (l : List Str) : Prop := ∀ p ∈ l, 47 ∉ p

theorem segs_splitOn (s : Str) : Segs (splitOn 47 s) := splitOn_no_sep 47 s

theorem segs_append {a b : List Str} (ha : Segs a) (hb : Segs b) : Segs (a ++ b) := by
  intro p hp
  rcases List.mem_append.1 hp with h | h
  · exact ha p h
  · exact hb p h

theorem segs_dropLast {a : List Str} (ha : Segs a) : Segs a.dropLast :=
  fun p hp => ha p (List.dropLast_subset _ hp)

theorem segs_tail {a : List Str} (ha : Segs a) : Segs a.tail :=
  fun p hp => ha p (List.mem_of_mem_tail hp)

theorem segs_cons {s : Str} {a : List Str} (hs : 47 ∉ s) (ha : Segs a) : Segs (s :: a) := by
  intro p hp
  rcases List.mem_cons.1 hp with rfl | h
  · exact hs
  · exact ha p h

/-- `x[:-1] if x[-1] == "" else x` -/
def stripTrail (l : List Str) : List Str := if l.getLast? = some [] then l.dropLast else l

theorem segs_stripTrail {a : List Str} (ha : Segs a) : Segs (stripTrail a) := by
  unfold stripTrail; split
  · exact segs_dropLast ha
  · exact ha

/-! ### `rawParts` of a URL whose path is a joined segment list -/

/-- rooted path: first segment empty, something after it -/
theorem rawParts_rooted (v : Url) (r : List Str) (hr : r ≠ []) (hs : Segs r)
    (hp : v.path = joinC 47 ([] :: r)) : rawParts v = [47] :: r := by
  have hp' : v.path = 47 :: joinC 47 r := by
    rw [hp, joinC_cons, flatF_eq_joinC r hr]; rfl
  unfold rawParts
  by_cases hn : v.netloc = []
  · simp [hn, hp', splitOn_joinC r hr hs]
  · simp [hn, hp', splitOn_joinC r hr hs]

/-- rootless path (or the empty path) without authority -/
theorem rawParts_rootless (v : Url) (M : List Str) (hn : v.netloc = []) (hs : Segs M) (hne : M ≠ [])
    (hh : M.head? ≠ some [] ∨ M = [[]]) (hp : v.path = joinC 47 M) : rawParts v = M := by
  unfold rawParts
  simp only [hn, List.isEmpty_nil, Bool.not_true, Bool.false_eq_true, ↓reduceIte]
  rcases hh with hh | hh
  · cases M with
    | nil => exact absurd rfl hne
    | cons m r =>
      cases m with
      | nil => simp at hh
      | cons c m' =>
        have hc : c ≠ 47 := fun e => hs (c :: m') List.mem_cons_self (e ▸ List.mem_cons_self)
        have hp' : v.path = c :: (m' ++ flatF r) := by rw [hp, joinC_cons]; rfl
        split
        · rename_i rest hv
          rw [hp'] at hv
          exact absurd (List.cons.inj hv).1 hc
        · rw [hp, splitOn_joinC _ hne hs]
  · subst hh
    have hp' : v.path = [] := by rw [hp]; rfl
    simp [hp', splitOn]

theorem rawParts_empty_auth (v : Url) (hn : v.netloc ≠ []) (hp : v.path = []) : rawParts v = [[47]] := by
  unfold rawParts
  simp [hn, hp]

/-- shape of `rawParts` -/
theorem rawParts_shape (u : Url) :
    (∃ T, rawParts u = [47] :: T ∧ Segs T ∧ (T = [] → u.netloc ≠ [])) ∨
    (u.netloc = [] ∧ Segs (rawParts u) ∧ rawParts u ≠ [] ∧
      ((rawParts u).head? ≠ some [] ∨ rawParts u = [[]])) := by
  unfold rawParts
  by_cases hn : u.netloc = []
  · simp only [hn, List.isEmpty_nil, Bool.not_true, Bool.false_eq_true, ↓reduceIte]
    split
    · rename_i rest hp
      exact Or.inl ⟨_, rfl, segs_splitOn _, fun h => absurd h (splitOn_ne_nil _ _)⟩
    · rename_i hp
      refine Or.inr ⟨trivial, segs_splitOn _, splitOn_ne_nil _ _, ?_⟩
      cases hpe : u.path with
      | nil => right; simp [splitOn]
      | cons c rest =>
        have hc : c ≠ 47 := fun e => hp rest (e ▸ hpe)
        obtain ⟨p, ps, e⟩ := splitOn_head_nil 47 c rest hc
        left; simp [e]
  · left
    by_cases hp : u.path = []
    · exact ⟨[], by simp [hn, hp], fun _ h => by simp at h, fun _ => hn⟩
    · exact ⟨splitOn 47 (u.path.drop 1), by simp [hn, hp], segs_splitOn _,
        fun h => absurd h (splitOn_ne_nil _ _)⟩

theorem segs_single {s : Str} (h : 47 ∉ s) : Segs [s] := by
  intro p hp; simp at hp; subst hp; exact h

theorem withRawName_spec (u : Url) (nm : Str) (kq kf : Bool) (v : Url) (hnm : 47 ∉ nm)
    (h : withRawName u nm kq kf = .ok v) :
    rawParts v = (if u.netloc ≠ [] ∧ (rawParts u).length = 1 then rawParts u ++ [nm]
                  else (rawParts u).dropLast ++ [nm]) ∧
    v.scheme = u.scheme ∧ v.netloc = u.netloc ∧ v.query = (if kq then u.query else []) ∧
    v.fragment = (if kf then u.fragment else []) := by
  unfold withRawName at h
  rcases rawParts_shape u with ⟨T, hT, hsT, hTn⟩ | ⟨hn, hs, hne, hh⟩
  · rw [hT] at h ⊢
    by_cases hn : u.netloc = []
    · have hT0 : T ≠ [] := fun e => hTn e hn
      have e1 : ([47] :: T).dropLast = [47] :: T.dropLast := List.dropLast_cons_of_ne_nil hT0
      simp only [hn, List.isEmpty_nil, Bool.not_true, Bool.false_eq_true, ↓reduceIte, e1,
        List.cons_append, bind, Except.bind, pure, Except.pure, Except.ok.injEq] at h
      subst h
      simp only [fromParts, ne_eq, not_true_eq_false, false_and, ↓reduceIte, hn, and_self, and_true]
      rw [e1]
      exact rawParts_rooted _ (T.dropLast ++ [nm]) (by simp)
          (segs_append (segs_dropLast hsT) (segs_single hnm)) rfl
    · have hn' : u.netloc.isEmpty = false := by simpa using hn
      simp only [hn', Bool.not_false, ↓reduceIte, bind, Except.bind, pure, Except.pure, Except.ok.injEq] at h
      subst h
      simp only [fromParts, ne_eq, hn, not_false_eq_true, true_and, and_self, and_true]
      by_cases hT0 : T = []
      · subst hT0
        simp
        exact rawParts_rooted _ _ (by simp) (segs_single hnm) rfl
      · have e1 : ([47] :: T).dropLast = [47] :: T.dropLast := List.dropLast_cons_of_ne_nil hT0
        have e2 : ([47] :: T).length ≠ 1 := by
          cases T with
          | nil => exact absurd rfl hT0
          | cons a b => simp
        simp only [e2, ↓reduceIte, e1, List.cons_append, List.drop_succ_cons, List.drop_zero]
        exact rawParts_rooted _ (T.dropLast ++ [nm]) (by simp)
          (segs_append (segs_dropLast hsT) (segs_single hnm)) rfl
  · generalize hL : rawParts u = L at h hs hne hh ⊢
    simp only [hn, List.isEmpty_nil, Bool.not_true, Bool.false_eq_true, ↓reduceIte, bind, Except.bind,
      pure, Except.pure] at h
    have hps : Segs (L.dropLast ++ [nm]) := segs_append (segs_dropLast hs) (segs_single hnm)
    cases L with
    | nil => exact absurd rfl hne
    | cons l0 lr =>
      simp only [Except.ok.injEq] at h
      split at h
      · rename_i r hr
        exact absurd (List.mem_singleton.2 rfl) (hps [47] (hr ▸ List.mem_cons_self))
      · subst h
        simp only [fromParts, ne_eq, hn, not_true_eq_false, false_and, ↓reduceIte, and_self, and_true]
        refine rawParts_rootless _ _ rfl hps (by simp) ?_ rfl
        cases lr with
        | nil =>
          by_cases hnm0 : nm = []
          · right; simp [hnm0]
          · left; simp [hnm0]
        | cons l1 lr' =>
          left
          rcases hh with hh | hh
          · simpa using hh
          · simp at hh

theorem rawName_append (v : Url) (P : List Str) (nm : Str) (h : rawParts v = P ++ [nm])
    (hP : v.netloc ≠ [] → P ≠ []) : rawName v = .ok nm := by
  unfold rawName
  simp only [h]
  by_cases hn : v.netloc = []
  · simp [hn, pure, Except.pure]
  · have hn' : v.netloc.isEmpty = false := by simpa using hn
    cases P with
    | nil => exact absurd rfl (hP hn)
    | cons p0 pr => simp [hn', pure, Except.pure]

/-- `_with_raw_name(nm)` for a slash-free `nm`: name, parent parts, other components -/
theorem withRawName_spec2 (u : Url) (nm : Str) (kq kf : Bool) (v : Url) (hnm : 47 ∉ nm)
    (h : withRawName u nm kq kf = .ok v) :
    rawName v = .ok nm ∧
    (rawParts v).dropLast = (if u.netloc ≠ [] ∧ (rawParts u).length = 1 then rawParts u
                             else (rawParts u).dropLast) ∧
    v.scheme = u.scheme ∧ v.netloc = u.netloc ∧ v.query = (if kq then u.query else []) ∧
    v.fragment = (if kf then u.fragment else []) := by
  obtain ⟨h1, h2, h3, h4, h5⟩ := withRawName_spec u nm kq kf v hnm h
  have hP : rawParts v = (if u.netloc ≠ [] ∧ (rawParts u).length = 1 then rawParts u
                             else (rawParts u).dropLast) ++ [nm] := by
    rw [h1]; split <;> rfl
  refine ⟨rawName_append v _ nm hP ?_, by rw [hP]; simp, h2, h3, h4, h5⟩
  rw [h3]
  intro hn
  split
  · rename_i hc
    intro e
    rw [e] at hc
    simp at hc
  · rename_i hc
    have hl : (rawParts u).length ≠ 1 := fun e => hc ⟨hn, e⟩
    rcases rawParts_shape u with ⟨T, hT, _, _⟩ | ⟨hn0, _⟩
    · rw [hT] at hl ⊢
      cases T with
      | nil => simp at hl
      | cons a b => simp
    · exact absurd hn0 hn

/-- the name is one of the slash-free segments -/
theorem rawName_no_slash (u : Url) (n : Str) (h : rawName u = .ok n) : 47 ∉ n := by
  unfold rawName at h
  simp only at h
  rcases rawParts_shape u with ⟨T, hT, hsT, hTn⟩ | ⟨hn, hs, hne, _⟩
  · rw [hT] at h
    by_cases hn : u.netloc = []
    · have hT0 : T ≠ [] := fun e => hTn e hn
      simp only [hn, List.isEmpty_nil, ↓reduceIte] at h
      obtain ⟨a, b, rfl⟩ := List.exists_cons_of_ne_nil hT0
      simp only [List.getLast?_cons_cons] at h
      cases hl : (a :: b).getLast? with
      | none => simp [hl] at h
      | some l =>
        simp [hl, pure, Except.pure] at h
        subst h
        exact hsT l (List.mem_of_getLast? hl)
    · have hn' : u.netloc.isEmpty = false := by simpa using hn
      simp only [hn', Bool.false_eq_true, ↓reduceIte, List.drop_succ_cons, List.drop_zero] at h
      cases hl : T.getLast? with
      | none => simp [hl, pure, Except.pure] at h; subst h; simp
      | some l =>
        simp [hl, pure, Except.pure] at h
        subst h
        exact hsT l (List.mem_of_getLast? hl)
  · simp only [hn, List.isEmpty_nil, ↓reduceIte] at h
    cases hl : (rawParts u).getLast? with
    | none => simp [hl] at h
    | some l =>
      simp [hl, pure, Except.pure] at h
      subst h
      exact hs l (List.mem_of_getLast? hl)

/-- under an authority a one-element `raw_parts` (`("/",)`) has the empty name -/
theorem rawName_root (u : Url) (n : Str) (h : rawName u = .ok n) (hn : u.netloc ≠ [])
    (hl : (rawParts u).length = 1) : n = [] := by
  unfold rawName at h
  have hn' : u.netloc.isEmpty = false := by simpa using hn
  simp only [hn', Bool.false_eq_true, ↓reduceIte] at h
  cases hp : rawParts u with
  | nil => simp [hp] at hl
  | cons a b =>
    cases b with
    | nil => simp [hp, pure, Except.pure] at h; exact h
    | cons c d => simp [hp] at hl

/-! ### `_make_child` on segment lists -/

/-- the old path's segments without a trailing empty one -/
def base (u : Url) : List Str := if u.path.isEmpty then [] else stripTrail (splitOn 47 u.path)

/-- under an authority a non-empty segment list gets the root's empty first segment -/
def root (n : Str) (L : List Str) : List Str :=
  if !n.isEmpty && !L.isEmpty && decide (L.head? ≠ some []) then [] :: L else L

def fixRoot (p : Str) : Str :=
  match p with
  | [] => p
  | 47 :: _ => p
  | _ => 47 :: p

/-- `_make_child` after the argument loop: `X` the new segments (in order), `nn` = "a '.' occurred" -/
def childOf (u : Url) (X : List Str) (nn : Bool) : Url :=
  let M := root u.netloc (base u ++ X)
  if u.netloc.isEmpty || !nn then fromParts u.scheme u.netloc (joinC 47 M) [] []
  else fromParts u.scheme u.netloc (fixRoot (joinC 47 (normalizePathSegments M))) [] []

theorem makeChild_eq (e : Env) (u : Url) (paths : List Str) (enc : Bool) :
    makeChild e u paths enc =
      (makeChild.go e enc paths.reverse true [] false).map (fun r => childOf u r.1.reverse r.2) := by
  unfold makeChild
  cases hg : makeChild.go e enc paths.reverse true [] false with
  | error err => rfl
  | ok r =>
    obtain ⟨p0, nn⟩ := r
    simp only [bind, Except.bind, Except.map, childOf]
    have h1 : (if (!u.path.isEmpty) = true then
          p0 ++ (if (splitOn 47 u.path).getLast? = some [] then (splitOn 47 u.path).dropLast
                 else splitOn 47 u.path).reverse
        else p0) = (base u ++ p0.reverse).reverse := by
      unfold base stripTrail
      by_cases hp : u.path.isEmpty = true <;> simp [hp]
    simp only [h1]
    have h2 : (if (!u.netloc.isEmpty && !(base u ++ p0.reverse).reverse.isEmpty &&
            decide ((base u ++ p0.reverse).reverse.getLast? ≠ some [])) = true
          then (base u ++ p0.reverse).reverse ++ [[]] else (base u ++ p0.reverse).reverse).reverse
        = root u.netloc (base u ++ p0.reverse) := by
      unfold root
      simp only [List.getLast?_reverse, List.isEmpty_reverse]
      split <;> simp
    simp only [h2]
    unfold fixRoot
    split <;> rfl


theorem makeChild_one (e : Env) (u : Url) (s : Str) (hs0 : s.head? ≠ some 47) :
    makeChild e u [s] false
      = .ok (childOf u (splitOn 47 (q e Gen.PATH_QUOTER s)) (mem 46 (q e Gen.PATH_QUOTER s))) := by
  rw [makeChild_eq]
  simp [makeChild.go, hs0, Except.map, pure, Except.pure]

theorem makeChild_two (e : Env) (u : Url) (a b : Str) (ha0 : a.head? ≠ some 47) (hb0 : b.head? ≠ some 47) :
    makeChild e u [a, b] false
      = .ok (childOf u (stripTrail (splitOn 47 (q e Gen.PATH_QUOTER a)) ++ splitOn 47 (q e Gen.PATH_QUOTER b))
          (mem 46 (q e Gen.PATH_QUOTER b) || mem 46 (q e Gen.PATH_QUOTER a))) := by
  rw [makeChild_eq]
  simp only [List.reverse_cons, List.reverse_nil, List.nil_append, List.cons_append, makeChild.go, ha0, hb0,
    ↓reduceIte, Bool.not_true, Bool.false_and, Bool.false_eq_true, Bool.not_false, Bool.true_and,
    Bool.false_or, decide_eq_true_eq, List.head?_reverse, pure, Except.pure, Except.map]
  unfold stripTrail
  split <;> simp

theorem makeChild_head (e : Env) (u : Url) (s : Str) (rest : List Str) (v : Url)
    (h : makeChild e u (rest ++ [s]) false = .ok v) : s.head? ≠ some 47 := by
  rw [makeChild_eq] at h
  intro hs
  simp [makeChild.go, hs, Except.map] at h
theorem stripTrail_cons (a : Str) (S : List Str) (h : S ≠ []) : stripTrail (a :: S) = a :: stripTrail S := by
  unfold stripTrail
  obtain ⟨b, c, rfl⟩ := List.exists_cons_of_ne_nil h
  simp only [List.getLast?_cons_cons]
  split <;> simp

theorem stripTrail_append (A S : List Str) (h : S ≠ []) : stripTrail (A ++ S) = A ++ stripTrail S := by
  induction A with
  | nil => rfl
  | cons a A ih => rw [List.cons_append, stripTrail_cons _ _ (by simp [h]), ih]; rfl

theorem stripTrail_single_nil : stripTrail [[]] = [] := by simp [stripTrail]

/-- a child made of one slash-free, dot-free, non-empty (after quoting) segment -/
theorem childOf_single (u : Url) (p : Str) (hp : 47 ∉ p) (hp0 : u.netloc ≠ [] → u.path = [] → p ≠ [])
    (hpath : u.netloc ≠ [] → (u.path = [] ∨ u.path.head? = some 47)) :
    rawParts (childOf u [p] false) = stripTrail (rawParts u) ++ [p] := by
  have hv : (childOf u [p] false).path = joinC 47 (root u.netloc (base u ++ [p])) := by
    simp [childOf, fromParts]
  have hvn : (childOf u [p] false).netloc = u.netloc := by
    simp [childOf, fromParts]
  cases hpe : u.path with
  | nil =>
    have hb : base u = [] := by simp [base, hpe]
    by_cases hn : u.netloc = []
    · have hr : rawParts u = [[]] := by simp [rawParts, hn, hpe, splitOn]
      rw [hr, stripTrail_single_nil]
      refine rawParts_rootless _ _ (hvn.trans hn) (segs_single hp) (by simp) ?_ (by rw [hv, hb]; simp [root, hn])
      by_cases h0 : p = []
      · right; simp [h0]
      · left; simp [h0]
    · have hr : rawParts u = [[47]] := rawParts_empty_auth u hn hpe
      have h0 := hp0 hn hpe
      rw [hr]
      have : stripTrail [[47]] = [[47]] := by simp [stripTrail]
      rw [this]
      refine rawParts_rooted _ [p] (by simp) (segs_single hp) ?_
      rw [hv, hb]
      simp [root, hn, h0]
  | cons c rest =>
    by_cases hc : c = 47
    · subst hc
      have hS := splitOn_ne_nil 47 rest
      have hr : rawParts u = [47] :: splitOn 47 rest := by
        unfold rawParts
        by_cases hn : u.netloc = [] <;> simp [hn, hpe]
      have hb : base u = [] :: stripTrail (splitOn 47 rest) := by
        simp only [base, hpe, List.isEmpty_cons, Bool.false_eq_true, ↓reduceIte, splitOn]
        exact stripTrail_cons _ _ hS
      rw [hr, stripTrail_cons _ _ hS]
      refine rawParts_rooted _ (stripTrail (splitOn 47 rest) ++ [p]) (by simp)
        (segs_append (segs_stripTrail (segs_splitOn _)) (segs_single hp)) ?_
      rw [hv, hb]
      simp [root]
    · have hn : u.netloc = [] := by
        apply Classical.byContradiction
        intro hn
        rcases hpath hn with h | h
        · simp [hpe] at h
        · simp [hpe] at h; exact hc h
      obtain ⟨s0, sr, hS⟩ := splitOn_head_nil 47 c rest hc
      have hr : rawParts u = splitOn 47 (c :: rest) := by
        unfold rawParts
        simp only [hn, List.isEmpty_nil, Bool.not_true, Bool.false_eq_true, ↓reduceIte, hpe]
        split
        · rename_i r h; exact absurd (List.cons.inj h).1 hc
        · rfl
      have hb : base u = stripTrail (splitOn 47 (c :: rest)) := by
        simp [base, hpe]
      rw [hr]
      refine rawParts_rootless _ _ (hvn.trans hn)
        (segs_append (segs_stripTrail (segs_splitOn _)) (segs_single hp)) (by simp) ?_
        (by rw [hv, hb]; simp [root, hn])
      left
      rw [hS]
      cases sr with
      | nil => simp [stripTrail]
      | cons a b => rw [stripTrail_cons _ _ (by simp)]; simp
theorem segs_base (u : Url) : Segs (base u) := by
  unfold base; split
  · exact fun _ h => nomatch h
  · exact segs_stripTrail (segs_splitOn _)

theorem segs_root (n : Str) {L : List Str} (h : Segs L) : Segs (root n L) := by
  unfold root; split
  · exact segs_cons (by simp) h
  · exact h

theorem root_ne_nil (n : Str) {L : List Str} (h : L ≠ []) : root n L ≠ [] := by
  unfold root; split
  · simp
  · exact h

/-- the segments of a joined list, with the trailing empty one dropped; the empty path has none -/
theorem base_of_joinC (v : Url) (M : List Str) (hM : Segs M) (hne : M ≠ []) (hp : v.path = joinC 47 M) :
    base v = stripTrail M := by
  unfold base
  rw [hp]
  have hs := splitOn_joinC M hne hM
  split
  · rename_i he
    have : joinC 47 M = [] := by simpa using he
    rw [this] at hs
    rw [← hs]; simp [splitOn, stripTrail]
  · rw [hs]

theorem root_strip (n : Str) (L SB : List Str) (hL : L ≠ []) :
    root n (stripTrail (root n L) ++ SB) = root n (stripTrail L ++ SB) := by
  by_cases hc : (!n.isEmpty && !L.isEmpty && decide (L.head? ≠ some [])) = true
  · have e1 : root n L = [] :: L := by simp only [root, hc, ↓reduceIte]
    rw [e1, stripTrail_cons _ _ hL]
    obtain ⟨a, L', rfl⟩ := List.exists_cons_of_ne_nil hL
    have ha : a ≠ [] := by
      simp at hc
      exact hc.2
    have hn : n.isEmpty = false := by
      simp at hc
      simpa using hc.1
    have e2 : ∃ t, stripTrail (a :: L') = a :: t := by
      cases L' with
      | nil => exact ⟨[], by simp [stripTrail, ha]⟩
      | cons b c => exact ⟨_, stripTrail_cons _ _ (by simp)⟩
    obtain ⟨t, ht⟩ := e2
    rw [ht]
    simp [root, hn, ha]
  · have e1 : root n L = L := by simp only [root, hc]; rfl
    rw [e1]

theorem childOf_congr (v u' : Url) (X X' : List Str) (nn nn' : Bool) (hs : v.scheme = u'.scheme)
    (hn : v.netloc = u'.netloc) (hM : root u'.netloc (base v ++ X) = root u'.netloc (base u' ++ X'))
    (hc : (u'.netloc.isEmpty || !nn) = (u'.netloc.isEmpty || !nn')) : childOf v X nn = childOf u' X' nn' := by
  unfold childOf
  simp only [hs, hn, hM, hc]

theorem childOf_assoc_left (u : Url) (SA SB : List Str) (nnA nnB : Bool) (hSA : Segs SA) (hSA0 : SA ≠ [])
    (hnn : (u.netloc.isEmpty || !nnA) = true) :
    childOf (childOf u SA nnA) SB nnB = childOf u (stripTrail SA ++ SB) (nnB || nnA) := by
  have hL : base u ++ SA ≠ [] := by simp [hSA0]
  have hM : Segs (root u.netloc (base u ++ SA)) := segs_root _ (segs_append (segs_base u) hSA)
  have hv1 : childOf u SA nnA = fromParts u.scheme u.netloc (joinC 47 (root u.netloc (base u ++ SA))) [] [] := by
    simp only [childOf, hnn, ↓reduceIte]
  have hb : base (childOf u SA nnA) = stripTrail (root u.netloc (base u ++ SA)) :=
    base_of_joinC _ _ hM (root_ne_nil _ hL) (by rw [hv1]; rfl)
  have hM2 : root u.netloc (base (childOf u SA nnA) ++ SB) = root u.netloc (base u ++ (stripTrail SA ++ SB)) := by
    rw [hb, root_strip _ _ _ hL, stripTrail_append _ _ hSA0, List.append_assoc]
  have hc : (u.netloc.isEmpty || !(nnB || nnA)) = (u.netloc.isEmpty || !nnB) := by
    cases hn : u.netloc.isEmpty
    · simp [hn] at hnn; simp [hnn]
    · simp
  have hs1 : (childOf u SA nnA).scheme = u.scheme := by rw [hv1]; rfl
  have hn1 : (childOf u SA nnA).netloc = u.netloc := by rw [hv1]; rfl
  exact childOf_congr _ u _ _ _ _ hs1 hn1 hM2 hc.symm
/-! ### associativity with normalisation -/

theorem normLoop_append (acc X Y : List Str) :
    normLoop acc (X ++ Y) = normLoop (normLoop acc X).reverse Y := by
  induction X generalizing acc with
  | nil => simp [normLoop]
  | cons x X ih =>
    rw [List.cons_append, normLoop_cons, normLoop_cons, ih]

theorem normLoop_single (acc : List Str) (l : Str) : normLoop acc [l] = (step acc l).reverse := by
  rw [normLoop_cons]; simp [normLoop]

theorem trail_append (X SB : List Str) (h : SB ≠ []) : trail (X ++ SB) = trail SB := by
  unfold trail
  obtain ⟨S0, l, rfl⟩ : ∃ S0 l, SB = S0 ++ [l] := by
    rcases List.eq_nil_or_concat SB with h' | ⟨a, b, h'⟩
    · exact absurd h' h
    · exact ⟨a, b, by simpa using h'⟩
  rw [← List.append_assoc, List.getLast?_concat, List.getLast?_concat]

theorem trail_concat (X : List Str) (l : Str) : trail (X ++ [l]) = if l = dot ∨ l = dotdot then [[]] else [] := by
  unfold trail; rw [List.getLast?_concat]

theorem stripTrail_concat_nil (X : List Str) : stripTrail (X ++ [[]]) = X := by simp [stripTrail]

theorem stripTrail_concat_ne (X : List Str) (l : Str) (h : l ≠ []) : stripTrail (X ++ [l]) = X ++ [l] := by
  simp [stripTrail, h]

/-- the stack left by the segments without a trailing empty one = the normalised list without its
    trailing empty segment -/
theorem normLoop_stripTrail (M : List Str) :
    normLoop [] (stripTrail M) = stripTrail (normalizePathSegments M) := by
  rw [normalizePathSegments_eq_G]
  rcases List.eq_nil_or_concat M with h | ⟨M0, l, h⟩
  · subst h; simp [stripTrail, G, normLoop, trail]
  · have hM : M = M0 ++ [l] := by simpa using h
    subst hM
    unfold G
    rw [trail_concat]
    by_cases h0 : l = []
    · subst h0
      rw [stripTrail_concat_nil, normLoop_append, normLoop_single]
      simp [step, dot, dotdot, stripTrail_concat_nil]
    · rw [stripTrail_concat_ne _ _ h0, normLoop_append, normLoop_single]
      by_cases h1 : l = dotdot
      · subst h1
        simp [step, stripTrail_concat_nil]
      · by_cases h2 : l = dot
        · subst h2
          simp [step_dot, stripTrail_concat_nil]
        · simp [step, h1, h2, stripTrail_concat_ne _ _ h0]

theorem mem_stripTrail {X : List Str} {s : Str} (h : s ∈ stripTrail X) : s ∈ X := by
  unfold stripTrail at h; split at h
  · exact List.dropLast_subset _ h
  · exact h

theorem noDots_strip_norm (M : List Str) : NoDots (stripTrail (normalizePathSegments M)) :=
  fun s hs => noDots_normalizePathSegments M s (mem_stripTrail hs)

theorem norm_append (X SB : List Str) (h : SB ≠ []) :
    normalizePathSegments (X ++ SB) = normLoop (normLoop [] X).reverse SB ++ trail SB := by
  rw [normalizePathSegments_eq_G]; unfold G
  rw [normLoop_append, trail_append _ _ h]

/-- KEY: re-normalising after an intermediate normalisation of the prefix changes nothing -/
theorem norm_strip_append (M SB : List Str) (hSB : SB ≠ []) :
    normalizePathSegments (stripTrail M ++ SB)
      = normalizePathSegments (stripTrail (normalizePathSegments M) ++ SB) := by
  rw [norm_append _ _ hSB, norm_append _ _ hSB, normLoop_stripTrail,
    normLoop_noDots [] _ (noDots_strip_norm M)]
  simp

theorem fixRoot_rooted (R : List Str) (hR : R ≠ []) :
    fixRoot (joinC 47 ([] :: R)) = joinC 47 ([] :: R) := by
  obtain ⟨k, r, rfl⟩ := List.exists_cons_of_ne_nil hR
  rw [joinC_cons]
  simp [fixRoot]

theorem root_head (n : Str) (L : List Str) (hn : n.isEmpty = false) (hL : L ≠ []) :
    ∃ R, root n L = [] :: R := by
  unfold root
  by_cases h : L.head? = some []
  · obtain ⟨a, L', rfl⟩ := List.exists_cons_of_ne_nil hL
    simp at h; subst h
    exact ⟨L', by simp⟩
  · exact ⟨L, by simp [hn, hL, h]⟩

theorem root_of_head (n : Str) (R : List Str) : root n ([] :: R) = [] :: R := by
  simp [root]

theorem childOf_true (u : Url) (X : List Str) (hn : u.netloc.isEmpty = false) :
    childOf u X true = fromParts u.scheme u.netloc
      (fixRoot (joinC 47 (normalizePathSegments (root u.netloc (base u ++ X))))) [] [] := by
  simp [childOf, hn]

theorem childOf_false (u : Url) (X : List Str) :
    childOf u X false = fromParts u.scheme u.netloc (joinC 47 (root u.netloc (base u ++ X))) [] [] := by
  simp [childOf]

theorem noDots_append {A B : List Str} (ha : NoDots A) (hb : NoDots B) : NoDots (A ++ B) := by
  intro s hs
  rcases List.mem_append.1 hs with h | h
  · exact ha s h
  · exact hb s h

/-- associativity when the first step IS normalised, provided that normalisation keeps the root
    segment and leaves something after it -/
theorem childOf_assoc_right (u : Url) (SA SB : List Str) (nnB : Bool) (hn : u.netloc.isEmpty = false)
    (hSA : Segs SA) (hSA0 : SA ≠ []) (hSB0 : SB ≠ [])
    (hroot : ∃ K', K' ≠ [] ∧ normalizePathSegments (root u.netloc (base u ++ SA)) = [] :: K')
    (hnnB : nnB = false → NoDots SB) :
    childOf (childOf u SA true) SB nnB = childOf u (stripTrail SA ++ SB) true := by
  obtain ⟨K', hK', hK⟩ := hroot
  have hL : base u ++ SA ≠ [] := by simp [hSA0]
  have hM1 : Segs (root u.netloc (base u ++ SA)) := segs_root _ (segs_append (segs_base u) hSA)
  have hKs : Segs ([] :: K') := hK ▸ normalizePathSegments_no_sep _ hM1
  -- the first step
  have hv1 : childOf u SA true = fromParts u.scheme u.netloc (joinC 47 ([] :: K')) [] [] := by
    rw [childOf_true u SA hn, hK, fixRoot_rooted K' hK']
  have hb1 : base (childOf u SA true) = [] :: stripTrail K' := by
    rw [base_of_joinC _ _ hKs (by simp) (by rw [hv1]; rfl), stripTrail_cons _ _ hK']
  have hn1 : (childOf u SA true).netloc = u.netloc := by rw [hv1]; rfl
  have hs1 : (childOf u SA true).scheme = u.scheme := by rw [hv1]; rfl
  -- the segment list of the one-step version
  obtain ⟨R, hR⟩ := root_head u.netloc (base u ++ SA) hn hL
  have hR0 : R ≠ [] := by
    intro e
    rw [hR, e] at hK
    have : normalizePathSegments [[]] = [[]] := by decide
    rw [this] at hK
    exact hK' (List.cons.inj hK).2.symm
  have hMw : root u.netloc (base u ++ (stripTrail SA ++ SB)) = [] :: (stripTrail R ++ SB) := by
    rw [← List.append_assoc, ← stripTrail_append _ _ hSA0, ← root_strip _ _ _ hL, hR,
      stripTrail_cons _ _ hR0, List.cons_append, root_of_head]
  have hM2 : root u.netloc (base (childOf u SA true) ++ SB) = [] :: (stripTrail K' ++ SB) := by
    rw [hb1, List.cons_append, root_of_head]
  have hN : normalizePathSegments ([] :: (stripTrail R ++ SB))
      = normalizePathSegments ([] :: (stripTrail K' ++ SB)) := by
    have := norm_strip_append ([] :: R) SB hSB0
    rw [show normalizePathSegments ([] :: R) = [] :: K' from hR ▸ hK,
      stripTrail_cons _ _ hR0, stripTrail_cons _ _ hK'] at this
    exact this
  have hw : childOf u (stripTrail SA ++ SB) true = fromParts u.scheme u.netloc
      (fixRoot (joinC 47 (normalizePathSegments ([] :: (stripTrail K' ++ SB))))) [] [] := by
    rw [childOf_true u _ hn, hMw, hN]
  rw [hw]
  cases nnB with
  | true =>
    rw [childOf_true _ _ (by rw [hn1]; exact hn), hs1, hn1, hM2]
  | false =>
    rw [childOf_false, hs1, hn1, hM2]
    have hnd : NoDots ([] :: (stripTrail K' ++ SB)) := by
      have h1 : NoDots (stripTrail ([] :: K')) := hK ▸ noDots_strip_norm _
      rw [stripTrail_cons _ _ hK'] at h1
      exact noDots_append h1 (hnnB rfl)
    rw [normalizePathSegments_noDots _ hnd, fixRoot_rooted _ (by simp [hSB0])]
theorem normLoop_no_dotdot (acc X : List Str) (h : dotdot ∉ X) :
    normLoop acc X = acc.reverse ++ X.filter (fun s => decide (s ≠ dot)) := by
  induction X generalizing acc with
  | nil => simp [normLoop]
  | cons x X ih =>
    have hx : x ≠ dotdot := fun e => h (e ▸ List.mem_cons_self)
    have hX : dotdot ∉ X := fun e => h (List.mem_cons_of_mem _ e)
    rw [normLoop_cons, ih _ hX]
    by_cases hd : x = dot
    · subst hd; simp [step_dot]
    · simp [step, hx, hd]

/-- without ".." segments the root's empty segment stays at the bottom of the stack -/
theorem norm_keeps_root (R : List Str) (hR : R ≠ []) (hdd : dotdot ∉ R) :
    ∃ K', K' ≠ [] ∧ normalizePathSegments ([] :: R) = [] :: K' := by
  have hdd' : dotdot ∉ ([] :: R : List Str) := by
    intro h
    rcases List.mem_cons.1 h with h | h
    · simp [dotdot] at h
    · exact hdd h
  refine ⟨R.filter (fun s => decide (s ≠ dot)) ++ trail ([] :: R), ?_, ?_⟩
  · intro h
    rw [List.append_eq_nil_iff] at h
    obtain ⟨R0, l, rfl⟩ : ∃ R0 l, R = R0 ++ [l] := by
      rcases List.eq_nil_or_concat R with h' | ⟨a, b, h'⟩
      · exact absurd h' hR
      · exact ⟨a, b, by simpa using h'⟩
    have hl : l = dot := by
      have := List.filter_eq_nil_iff.1 h.1 l (by simp)
      simpa using this
    have := h.2
    rw [← List.cons_append, trail_concat] at this
    simp [hl] at this
  · rw [normalizePathSegments_eq_G]
    unfold G
    rw [normLoop_no_dotdot _ _ hdd']
    simp [dot]

theorem mem_root {n : Str} {L : List Str} {s : Str} (h : s ∈ root n L) : s = [] ∨ s ∈ L := by
  unfold root at h; split at h
  · rcases List.mem_cons.1 h with h | h
    · exact Or.inl h
    · exact Or.inr h
  · exact Or.inr h

theorem mem_base {u : Url} {s : Str} (h : s ∈ base u) : s ∈ splitOn 47 u.path := by
  unfold base at h; split at h
  · simp at h
  · exact mem_stripTrail h

theorem root_ne_single (n : Str) (L : List Str) (hL : L ≠ []) (h1 : L ≠ [[]]) : root n L ≠ [[]] := by
  unfold root; split
  · intro h; exact hL (List.cons.inj h).2
  · exact h1

/-! ### the PATH_QUOTER on Python strings: a character-wise map -/

theorem path_quoter_mem : Gen.PATH_QUOTER ∈ Gen.allQuoters := by decide

theorem path_tab_requote (b : Backend) : (Gen.PATH_QUOTER.tab b).requote = false := by
  cases b <;> decide

theorem path_tab_qs (b : Backend) : (Gen.PATH_QUOTER.tab b).qs = false := by
  cases b <;> decide

theorem path_tab_slash_safe (b : Backend) : (Gen.PATH_QUOTER.tab b).safe 47 = true := by
  cases b <;> decide +kernel

theorem cOut_flatMap (t : QTab) (hr : t.requote = false) (s : Str) :
    cOut t s = s.flatMap (cWriteOut t) := by
  induction s with
  | nil => simp [cOut]
  | cons c r ih =>
    rw [QuoteEquiv.cOut_plain t (by simp [hr]), ih]
    simp

theorem q_path_eq (e : Env) (s : Str) (hs : PyStr s) :
    q e Gen.PATH_QUOTER s = (stripSurr s).flatMap (cWriteOut (Gen.PATH_QUOTER.tab e.b)) := by
  have hwf := gen_tab_wf _ path_quoter_mem e.b
  have hsp : (Gen.PATH_QUOTER.tab e.b).qs = true → (Gen.PATH_QUOTER.tab e.b).safe 32 = false :=
    fun _ => gen_space_unsafe _ path_quoter_mem e.b
  have hC := quoteC_eq_cOut _ hwf hsp s hs
  rw [cOut_flatMap _ (path_tab_requote e.b)] at hC
  unfold q QArgs.run quote
  cases hb : e.b with
  | py =>
    rw [hb] at hC hwf hsp
    simp only
    rw [quotePy_eq_quoteC _ hwf hsp s hs, hC]
  | c =>
    rw [hb] at hC
    exact hC

theorem pyStr_append {x y : Str} (hx : PyStr x) (hy : PyStr y) : PyStr (x ++ y) := by
  intro c hc
  rcases List.mem_append.1 hc with h | h
  · exact hx c h
  · exact hy c h

theorem q_path_append (e : Env) (x y : Str) (hx : PyStr x) (hy : PyStr y) :
    q e Gen.PATH_QUOTER (x ++ y) = q e Gen.PATH_QUOTER x ++ q e Gen.PATH_QUOTER y := by
  rw [q_path_eq e _ (pyStr_append hx hy), q_path_eq e _ hx, q_path_eq e _ hy]
  simp [stripSurr]

theorem q_path_slash (e : Env) : q e Gen.PATH_QUOTER [47] = [47] := by
  rw [q_path_eq e _ (by decide)]
  have : stripSurr [47] = [47] := by decide
  rw [this]
  simp [cWriteOut, path_tab_qs, path_tab_slash_safe]

theorem toHex_ge (v : Nat) : 48 ≤ toHex v := by
  unfold toHex; split <;> omega

theorem toHex_ne46 (v : Nat) : toHex v ≠ 46 := by have := toHex_ge v; omega
theorem toHex_ne47 (v : Nat) : toHex v ≠ 47 := by have := toHex_ge v; omega

/-- a character other than `d` (`d` = '/' or '.') never produces `d` -/
theorem cWriteOut_avoid (t : QTab) (c d : Nat) (hd : d = 46 ∨ d = 47) (hc : c ≠ d) : d ∉ cWriteOut t c := by
  unfold cWriteOut
  split
  · rcases hd with rfl | rfl <;> simp
  · split
    · simpa using fun h => hc h.symm
    · unfold writeUtf8
      intro h
      obtain ⟨b, _, hb⟩ := List.mem_flatMap.1 h
      simp only [pct, List.mem_cons, List.not_mem_nil, or_false] at hb
      have h1 := toHex_ge (b / 16)
      have h2 := toHex_ge (b % 16)
      rcases hd with rfl | rfl <;> omega

theorem q_path_avoid (e : Env) (s : Str) (hs : PyStr s) (d : Nat) (hd : d = 46 ∨ d = 47) (h : d ∉ s) :
    d ∉ q e Gen.PATH_QUOTER s := by
  rw [q_path_eq e s hs]
  intro hm
  obtain ⟨c, hc, hm⟩ := List.mem_flatMap.1 hm
  have hcs : c ∈ s := (List.mem_filter.1 hc).1
  exact cWriteOut_avoid _ c d hd (fun e => h (e ▸ hcs)) hm

theorem cWriteOut_ne_nil (t : QTab) (c : Nat) (hp : c ≤ 0x10FFFF) (hs : isSurrogate c = false) :
    cWriteOut t c ≠ [] := by
  unfold cWriteOut
  split
  · simp
  · split
    · simp
    · unfold writeUtf8
      have := QuoteEquiv.utf8_ne_nil hp hs
      cases hu : utf8 c with
      | nil => simp [hu] at this
      | cons b r => simp [pct]

theorem q_path_ne_nil (e : Env) (s : Str) (hs : PyStr s) (hn : NoSurrogate s) (h0 : s ≠ []) :
    q e Gen.PATH_QUOTER s ≠ [] := by
  rw [q_path_eq e s hs]
  obtain ⟨c, r, rfl⟩ := List.exists_cons_of_ne_nil h0
  have hc : isSurrogate c = false := hn c List.mem_cons_self
  have : stripSurr (c :: r) = c :: stripSurr r := by simp [stripSurr, hc]
  rw [this, List.flatMap_cons]
  intro h
  exact cWriteOut_ne_nil _ c (hs c List.mem_cons_self) hc (List.append_eq_nil_iff.1 h).1

theorem splitOn_append_sep (x y : Str) :
    splitOn 47 (x ++ 47 :: y) = splitOn 47 x ++ splitOn 47 y := by
  induction x with
  | nil => simp [splitOn]
  | cons c x ih =>
    by_cases hc : c = 47
    · subst hc; simp [splitOn, ih]
    · obtain ⟨p, ps, e⟩ := List.exists_cons_of_ne_nil (splitOn_ne_nil 47 x)
      rw [splitOn_cons_ne 47 c x hc e, List.cons_append,
        splitOn_cons_ne 47 c _ hc (by rw [ih, e]; rfl)]
      rfl

end Yarl.PathAlg
