/-
  QsMore.lean — helper lemmas for C12More.lean:
  * the replacing UTF-8 decoder does not depend on its fuel and re-synchronises at every byte that is not a
    continuation byte (`dr_append`);
  * stdlib `unquote` (per ASCII run, errors="replace") is "percent-decode the whole text to bytes, decode as UTF-8
    with replacement" on texts without lone surrogates (`stdUnquote_eq`), and after '+' → ' ' it is form-decoding
    (`stdUnquote_pts`).
-/
import YarlModel
import YarlProofs.C02
import YarlProofs.C12Readback
set_option linter.unusedVariables false
set_option linter.unusedSimpArgs false
namespace Yarl.QsMore
open QsLemmas WfLemmas Readback

theorem mem_takeWhile {p : Nat → Bool} : ∀ {l : List Nat} {x : Nat}, x ∈ l.takeWhile p → p x = true := by
  intro l
  induction l with
  | nil => intro x h; simp at h
  | cons a l ih =>
    intro x h
    rw [List.takeWhile_cons] at h
    split at h
    · rcases List.mem_cons.mp h with rfl | h
      · assumption
      · exact ih h
    · simp at h

theorem dropWhile_head {p : Nat → Bool} : ∀ {l : List Nat} {t : Nat} {tl : List Nat},
    l.dropWhile p = t :: tl → p t = false := by
  intro l
  induction l with
  | nil => intro t tl h; simp at h
  | cons a l ih =>
    intro t tl h
    rw [List.dropWhile_cons] at h
    split at h
    · exact ih h
    · rename_i hp
      simp only [List.cons.injEq] at h
      rw [← h.1]; simpa using hp

/-! ### the decoder and its fuel -/

theorem dr_fuel : ∀ (n : Nat) (bs : List Nat) (f f' : Nat), bs.length ≤ n → n < f → n < f' →
    decodeReplaceAux f bs = decodeReplaceAux f' bs := by
  intro n
  induction n with
  | zero =>
    intro bs f f' hl hf hf'
    have : bs = [] := List.length_eq_zero_iff.mp (by omega)
    subst this
    cases f <;> cases f' <;> simp_all [decodeReplaceAux]
  | succ n ih =>
    intro bs f f' hl hf hf'
    cases bs with
    | nil => cases f <;> cases f' <;> simp_all [decodeReplaceAux]
    | cons b0 rest =>
      obtain ⟨f1, rfl⟩ : ∃ k, f = k + 1 := ⟨f - 1, by omega⟩
      obtain ⟨f2, rfl⟩ : ∃ k, f' = k + 1 := ⟨f' - 1, by omega⟩
      have key : ∀ l : List Nat, l.length ≤ n → decodeReplaceAux f1 l = decodeReplaceAux f2 l :=
        fun l hl => ih l f1 f2 hl (by omega) (by omega)
      simp only [List.length_cons] at hl
      simp only [decodeReplaceAux]
      repeat' split
      all_goals first
        | rfl
        | (congr 1; apply key; (try simp only [List.length_cons] at hl ⊢); omega)

/-- any fuel above the length gives the same result -/
theorem dr_fuel' (bs : List Nat) (f f' : Nat) (h : bs.length < f) (h' : bs.length < f') :
    decodeReplaceAux f bs = decodeReplaceAux f' bs := dr_fuel bs.length bs f f' (Nat.le_refl _) h h'

theorem dr_eq (bs : List Nat) (f : Nat) (h : bs.length < f) : decodeReplaceAux f bs = decodeReplace bs :=
  dr_fuel' bs f _ h (Nat.lt_succ_self _)

theorem dr_nil (f : Nat) : decodeReplaceAux f [] = [] := by cases f <;> simp [decodeReplaceAux]

/-- `r` is empty or starts with a byte that is not a continuation byte -/
def Bnd (r : List Nat) : Prop := ∀ b r', r = b :: r' → isCont b = false

theorem dr_append_aux (r : List Nat) (hb : Bnd r) (f1 : Nat) (a : List Nat) : ∀ (f f2 : Nat),
    (a ++ r).length < f → a.length < f1 → r.length < f2 →
    decodeReplaceAux f (a ++ r) = decodeReplaceAux f1 a ++ decodeReplaceAux f2 r := by
  fun_induction decodeReplaceAux f1 a <;> intro f f2 hf hf1 hf2
  · simp at hf1
  · simp only [List.nil_append]; exact dr_fuel' r _ _ (by simpa using hf) hf2
  all_goals (obtain ⟨g, rfl⟩ : ∃ g, f = g + 1 :=
    ⟨f - 1, by simp only [List.length_append, List.length_cons] at hf; omega⟩)
  all_goals first
    | (rename_i ih
       simp only [List.cons_append, List.nil_append, decodeReplaceAux, *, ↓reduceIte, Bool.false_eq_true, Bool.not_true,
         Bool.false_or, Bool.or_false, Bool.not_false]
       exact congrArg (List.cons _) (ih g f2 (by simp only [List.length_append, List.length_cons] at hf ⊢; omega)
         (by simp only [List.length_cons] at hf1 ⊢; omega) hf2))
    | (rcases r with _ | ⟨c0, r'⟩
       · simp only [List.append_nil, dr_nil, List.cons_append, List.nil_append, decodeReplaceAux, *, ↓reduceIte,
           Bool.false_eq_true, Bool.not_true, Bool.false_or, Bool.or_false, Bool.not_false]
       · have hc : isCont c0 = false := hb c0 r' rfl
         simp only [List.cons_append, List.nil_append, decodeReplaceAux, *, ↓reduceIte, Bool.false_eq_true, Bool.not_false,
           Bool.true_or, List.singleton_append, Bool.not_true, Bool.false_or, Bool.or_false]
         exact congrArg (List.cons _)
           (dr_fuel' (c0 :: r') g f2 (by simp only [List.length_append, List.length_cons] at hf ⊢; omega) hf2))

/-- RESYNCHRONISATION: decoding with replacement splits at every position whose next byte is not a continuation
    byte (an ASCII byte or a lead byte) — whatever ill-formed or truncated sequence precedes it -/
theorem dr_append (a r : List Nat) (hb : Bnd r) :
    decodeReplace (a ++ r) = decodeReplace a ++ decodeReplace r :=
  dr_append_aux r hb _ a _ _ (Nat.lt_succ_self _) (Nat.lt_succ_self _) (Nat.lt_succ_self _)

theorem dr_cons_char (c : Nat) (r : List Nat) (hc : c ≤ 0x10FFFF) (hs : isSurrogate c = false) :
    decodeReplace (utf8 c ++ r) = c :: decodeReplace r := by
  have hp := utf8_length_pos c hc hs
  unfold decodeReplace
  rw [show (utf8 c ++ r).length + 1 = ((utf8 c ++ r).length) + 1 from rfl, dr_char _ c r hc hs]
  congr 1
  exact dr_fuel' r _ _ (by simp only [List.length_append]; omega) (Nat.lt_succ_self _)

/-- the first UTF-8 byte of a non-ASCII character is a lead byte -/
theorem utf8_head (c : Nat) (h : 128 ≤ c) (hc : c ≤ 0x10FFFF) (hs : isSurrogate c = false) :
    ∃ b bs, utf8 c = b :: bs ∧ isCont b = false := by
  by_cases h2 : c < 0x800
  · exact ⟨_, _, utf8_2 c h h2, by simp only [isCont, Bool.and_eq_false_imp, decide_eq_true_eq, decide_eq_false_iff_not]; omega⟩
  by_cases h3 : c < 0x10000
  · exact ⟨_, _, utf8_3 c (by omega) h3 hs, by simp only [isCont, Bool.and_eq_false_imp, decide_eq_true_eq, decide_eq_false_iff_not]; omega⟩
  · exact ⟨_, _, utf8_4 c (by omega) hc, by simp only [isCont, Bool.and_eq_false_imp, decide_eq_true_eq, decide_eq_false_iff_not]; omega⟩

/-! ### `pctDecode` on an ASCII run followed by a non-ASCII character -/

theorem fromHex_lt {c v : Nat} (h : fromHex c = some v) : c < 128 := by
  unfold fromHex at h
  split at h
  · omega
  · split at h
    · omega
    · split at h
      · omega
      · cases h

theorem restoreCh_lt128 {d1 d2 v : Nat} (h : restoreCh d1 d2 = some v) : d1 < 128 ∧ d2 < 128 := by
  unfold restoreCh at h
  cases h1 : fromHex d1 with
  | none => simp [h1] at h
  | some a =>
    cases h2 : fromHex d2 with
    | none => simp [h1, h2] at h
    | some b => exact ⟨fromHex_lt h1, fromHex_lt h2⟩

/-- `tail` is empty or starts with a non-ASCII character -/
def NA (tail : Str) : Prop := ∀ t tl, tail = t :: tl → 128 ≤ t

theorem takeEscape_append_none {rest tail : Str} (hm : takeEscape restoreCh rest = none) (ht : NA tail) :
    takeEscape restoreCh (rest ++ tail) = none := by
  rcases rest with _ | ⟨d1, _ | ⟨d2, r⟩⟩
  · rcases tail with _ | ⟨t, _ | ⟨t2, tl⟩⟩
    · rfl
    · rfl
    · simp only [List.nil_append, takeEscape]
      cases hr : restoreCh t t2 with
      | none => rfl
      | some v => have := (restoreCh_lt128 hr).1; have := ht t _ rfl; omega
  · rcases tail with _ | ⟨t, tl⟩
    · rfl
    · simp only [List.cons_append, List.nil_append, takeEscape]
      cases hr : restoreCh d1 t with
      | none => rfl
      | some v => have := (restoreCh_lt128 hr).2; have := ht t _ rfl; omega
  · simp only [List.cons_append, takeEscape] at hm ⊢
    cases hr : restoreCh d1 d2 with
    | none => rfl
    | some v => rw [hr] at hm; cases hm

theorem takeEscape_append_some {rest rest' tail : Str} {v d1 d2 : Nat}
    (hm : takeEscape restoreCh rest = some (v, d1, d2, rest')) :
    takeEscape restoreCh (rest ++ tail) = some (v, d1, d2, rest' ++ tail) := by
  obtain ⟨rfl, hv⟩ := takeEscape_eq hm
  simp only [List.cons_append, takeEscape, hv]

theorem pctDecode_run (run : Str) (hrun : ∀ c ∈ run, c < 128) (tail : Str) (ht : NA tail) :
    pctDecode (run ++ tail) = unquoteToBytes run ++ pctDecode tail := by
  fun_induction unquoteToBytes run with
  | case1 => simp
  | case2 rest v d1 d2 rest' hm ih =>
    have hsub : ∀ c ∈ rest', c < 128 := by
      obtain ⟨rfl, _⟩ := takeEscape_eq hm
      exact fun c hc => hrun c (by simp [hc])
    rw [List.cons_append, pctDecode_esc (takeEscape_append_some hm), ih hsub]
    rfl
  | case3 rest hm ih =>
    rw [List.cons_append, pctDecode_noesc (takeEscape_append_none hm ht),
      ih (fun c hc => hrun c (by simp [hc]))]
    rfl
  | case4 c rest hc ih =>
    rw [List.cons_append, pctDecode_cons_ne hc, utf8_1 c (hrun c (by simp)),
      ih (fun c hc => hrun c (by simp [hc]))]
    rfl

theorem pctDecode_no_pct (s : Str) (h : 37 ∉ s) : pctDecode s = utf8s s := by
  induction s with
  | nil => rw [pctDecode_nil]; rfl
  | cons c r ih =>
    rw [pctDecode_cons_ne (fun e => h (by simp [e])), ih (fun hm => h (by simp [hm])), QuoteEquiv.utf8s_cons]

theorem bnd_pctDecode (tail : Str) (ht : NA tail) (hp : PyStr tail) (hn : NoSurrogate tail) :
    Bnd (pctDecode tail) := by
  intro b r' hb
  rcases tail with _ | ⟨t, tl⟩
  · rw [pctDecode_nil] at hb; cases hb
  · have h128 := ht t tl rfl
    rw [pctDecode_cons_ne (by omega)] at hb
    obtain ⟨b0, bs, hu, hcont⟩ := utf8_head t h128 (hp t (by simp)) (hn t (by simp))
    rw [hu] at hb
    simp only [List.cons_append, List.cons.injEq] at hb
    rw [← hb.1]; exact hcont

/-! ### stdlib `unquote` is "percent-decode the whole text, decode as UTF-8 with replacement" -/

theorem stdUnquoteAux_eq (fuel : Nat) (s : Str) : s.length < fuel → PyStr s → NoSurrogate s →
    stdUnquoteAux fuel s = decodeReplace (pctDecode s) := by
  fun_induction stdUnquoteAux fuel s with
  | case1 s => intro h; omega
  | case2 fuel hf => intro _ _ _; rw [pctDecode_nil]; rfl
  | case3 fuel c rest hc run tail ih =>
    intro hl hp hn
    have hsplit : run ++ tail = c :: rest := List.takeWhile_append_dropWhile
    have hrun : ∀ x ∈ run, x < 128 := fun x hx => by simpa using mem_takeWhile hx
    have hNA : NA tail := by
      intro t tl htl
      have := dropWhile_head (p := fun x => decide (x < 128)) (l := c :: rest) htl
      simpa using this
    have hsub : tail.Sublist (c :: rest) := List.dropWhile_sublist _
    have hpt : PyStr tail := fun x hx => hp x (hsub.subset hx)
    have hnt : NoSurrogate tail := fun x hx => hn x (hsub.subset hx)
    have hlen : tail.length < fuel := by
      have h1 : run.length + tail.length = (c :: rest).length := by rw [← hsplit, List.length_append]
      have h2 : 0 < run.length := by
        have : run = c :: rest.takeWhile (· < 128) := by
          show List.takeWhile _ (c :: rest) = _
          rw [List.takeWhile_cons]; simp [hc]
        rw [this]; simp
      simp only [List.length_cons] at h1 hl
      omega
    rw [ih hlen hpt hnt, ← hsplit, pctDecode_run run hrun tail hNA,
      dr_append _ _ (bnd_pctDecode tail hNA hpt hnt)]
  | case4 fuel c rest hc ih =>
    intro hl hp hn
    have h37 : c ≠ 37 := by omega
    rw [ih (by simp only [List.length_cons] at hl; omega) (QuoteEquiv.pyStr_tail hp) (QuoteEquiv.noSurr_tail hn),
      pctDecode_cons_ne h37, dr_cons_char c _ (hp c (by simp)) (hn c (by simp))]

/-- `urllib.parse.unquote(s)` (errors="replace") on a text without lone surrogates: percent-decode the whole text to
    bytes (non-ASCII characters contribute their UTF-8 bytes), then decode as UTF-8 with U+FFFD replacement -/
theorem stdUnquote_eq (s : Str) (hp : PyStr s) (hn : NoSurrogate s) :
    stdUnquote s = decodeReplace (pctDecode s) := by
  unfold stdUnquote
  split
  · rename_i hm
    have hm' : 37 ∉ s := by
      intro h; rw [GenTabs.mem_iff.mpr h] at hm; simp at hm
    rw [pctDecode_no_pct s hm', decodeReplace_utf8s s hp hn]
  · exact stdUnquoteAux_eq _ s (Nat.lt_succ_self _) hp hn

/-! ### '+' → ' ' first: form-decoding -/

def p2s (c : Nat) : Nat := if c = 43 then 32 else c

theorem pts_eq (s : Str) : plusToSpace s = s.map p2s := rfl

theorem fromHex_p2s (c : Nat) : fromHex (p2s c) = fromHex c := by
  unfold p2s
  split
  · rename_i h; subst h; decide
  · rfl

theorem takeEscape_pts (rest : Str) :
    takeEscape restoreCh (plusToSpace rest) =
      (takeEscape restoreCh rest).map (fun x => (x.1, p2s x.2.1, p2s x.2.2.1, plusToSpace x.2.2.2)) := by
  rcases rest with _ | ⟨d1, _ | ⟨d2, r⟩⟩
  · rfl
  · rfl
  · simp only [pts_eq, List.map_cons, takeEscape, restoreCh, fromHex_p2s]
    cases fromHex d1 <;> cases fromHex d2 <;> rfl

/-- percent-decoding after '+' → ' ' is form-decoding -/
theorem pctDecode_pts (s : Str) : pctDecode (plusToSpace s) = pctDecodeQs s := by
  fun_induction pctDecodeQs s with
  | case1 => exact pctDecode_nil
  | case2 rest v d1 d2 rest' hm ih =>
    have h1 : plusToSpace (37 :: rest) = 37 :: plusToSpace rest := rfl
    have h2 := takeEscape_pts rest
    rw [hm] at h2
    rw [h1, pctDecode_esc h2, ih]
  | case3 rest hm ih =>
    have h1 : plusToSpace (37 :: rest) = 37 :: plusToSpace rest := rfl
    have h2 := takeEscape_pts rest
    rw [hm] at h2
    rw [h1, pctDecode_noesc h2, ih]
  | case4 rest hc ih =>
    have h1 : plusToSpace (43 :: rest) = 32 :: plusToSpace rest := rfl
    rw [h1, pctDecode_cons_ne (by decide), ih]
    rfl
  | case5 c rest hc h43 ih =>
    have h1 : plusToSpace (c :: rest) = c :: plusToSpace rest := by simp [plusToSpace, h43]
    rw [h1, pctDecode_cons_ne hc, ih]

theorem pts_pyStr {s : Str} (h : PyStr s) : PyStr (plusToSpace s) := by
  intro c hc
  simp only [plusToSpace, List.mem_map] at hc
  obtain ⟨x, hx, rfl⟩ := hc
  split
  · omega
  · exact h x hx

theorem pts_noSurr {s : Str} (h : NoSurrogate s) : NoSurrogate (plusToSpace s) := by
  intro c hc
  simp only [plusToSpace, List.mem_map] at hc
  obtain ⟨x, hx, rfl⟩ := hc
  split
  · decide
  · exact h x hx

/-- what `parse_qsl` does to one key or value: '+' → ' ', then `unquote` — i.e. form-decode to bytes and decode as
    UTF-8 with replacement -/
theorem stdUnquote_pts (s : Str) (hp : PyStr s) (hn : NoSurrogate s) :
    stdUnquote (plusToSpace s) = decodeReplace (pctDecodeQs s) := by
  rw [stdUnquote_eq _ (pts_pyStr hp) (pts_noSurr hn), pctDecode_pts]

end Yarl.QsMore
