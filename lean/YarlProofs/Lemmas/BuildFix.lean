/-
  BuildFix.lean — small facts about the two steps `URL.build()` gained with the fixes e21485a
  (the scheme is stored lower-case: `lowerAny`) and c2c2803 (a non-ASCII `authority=` goes through
  the NFKC screen `checkNetloc`, as in the parser).  Used by the `build` proofs of every property.
-/
import YarlModel
namespace Yarl
namespace BuildFix

/-- for an ASCII scheme `lowerAny` is `str.lower()` computed natively -/
theorem lowerAny_ascii (e : Env) (s : Str) (h : isAscii s = true) : lowerAny e s = .ok (lower s) := by
  unfold lowerAny; rw [if_pos h]; rfl

theorem lowerAny_ok_ascii {e : Env} {s sc : Str} (h : isAscii s = true) (hl : lowerAny e s = .ok sc) :
    sc = lower s := by
  rw [lowerAny_ascii e s h] at hl; cases hl; rfl

/-- a non-ASCII scheme is lowered by the oracle -/
theorem lowerAny_nonascii (e : Env) (s : Str) (h : isAscii s = false) :
    lowerAny e s = ask "lowerU" s (e.o.lowerU s) := by
  unfold lowerAny; rw [if_neg (by simp [h])]

/-- `lowerAny` fails only with an oracle request -/
theorem lowerAny_total (e : Env) (s : Str) :
    (∃ sc, lowerAny e s = .ok sc) ∨ lowerAny e s = .error (.oracleMiss "lowerU" s) := by
  unfold lowerAny
  split
  · exact Or.inl ⟨_, rfl⟩
  · cases e.o.lowerU s with
    | some v => exact Or.inl ⟨v, rfl⟩
    | none => exact Or.inr rfl

/-- the empty scheme stays empty -/
theorem lowerAny_nil (e : Env) : lowerAny e [] = .ok [] := rfl

/-- the screen step of `build(authority=…)`: the continuation ran, and a non-ASCII authority passed
    `checkNetloc` -/
theorem screen_ok {β : Type} {o : Oracles} {s : Str} {k : R β} {v : β}
    (h : (if (!isAscii s) = true then (do checkNetloc o s; k) else k) = .ok v) :
    k = .ok v ∧ (isAscii s = false → checkNetloc o s = .ok ()) := by
  by_cases hc : (!isAscii s) = true
  · rw [if_pos hc] at h
    cases hk : checkNetloc o s with
    | error er => rw [hk] at h; cases h
    | ok u => rw [hk] at h; exact ⟨h, fun _ => rfl⟩
  · rw [if_neg hc] at h
    refine ⟨h, fun ha => ?_⟩
    rw [ha] at hc; exact absurd rfl hc

/-- conversely: an ASCII authority skips the screen -/
theorem screen_ascii {β : Type} {o : Oracles} {s : Str} {k : R β} (h : isAscii s = true) :
    (if (!isAscii s) = true then (do checkNetloc o s; k) else k) = k := by
  rw [if_neg (by simp [h])]

/-- a non-ASCII authority that fails the screen fails the whole step -/
theorem screen_error {β : Type} {o : Oracles} {s : Str} {k : R β} {er : PyErr}
    (h : isAscii s = false) (hc : checkNetloc o s = .error er) :
    (if (!isAscii s) = true then (do checkNetloc o s; k) else k) = .error er := by
  rw [if_pos (by simp [h]), hc]; rfl

/-- a non-ASCII authority that passes the screen continues -/
theorem screen_pass {β : Type} {o : Oracles} {s : Str} {k : R β}
    (hc : checkNetloc o s = .ok ()) :
    (if (!isAscii s) = true then (do checkNetloc o s; k) else k) = k := by
  split
  · rw [hc]; rfl
  · rfl

end BuildFix
end Yarl
