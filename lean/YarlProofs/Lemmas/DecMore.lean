/-
  DecMore.lean — helper lemmas for C06Decode.lean that do not mention the independent specification:
  the strict decoder `decodeBuf` accepts exactly the encodings `utf8 c`; lead bytes; pending escapes.
-/
import YarlProofs.C06Spec
set_option linter.unusedVariables false
namespace Yarl
namespace DecMore
open DecLemmas Readback UnquoteEquiv SpecLemmas

theorem utf8_scalar_of_ne_nil (c : Nat) (h : utf8 c ≠ []) : c ≤ 0x10FFFF ∧ isSurrogate c = false := by
  unfold utf8 at h
  by_cases hs : isSurrogate c = true
  · have : 0x800 ≤ c := by simp [isSurrogate] at hs; omega
    have a : ¬ c < 0x80 := by omega
    have b : ¬ c < 0x800 := by omega
    simp [a, b, hs] at h
  · have hs' : isSurrogate c = false := by simpa using hs
    refine ⟨?_, hs'⟩
    apply Classical.byContradiction
    intro hc
    have a : ¬ c < 0x80 := by omega
    have b : ¬ c < 0x800 := by omega
    have d : ¬ c < 0x10000 := by omega
    simp [a, b, d, hs', hc] at h

/-- the converse of `decodeBuf_utf8`: a buffer that decodes to `c` IS the encoding of `c` -/
theorem decodeBuf_char_utf8 (bs : List Nat) (c : Nat) (h : decodeBuf bs = .char c) :
    bs = utf8 c ∧ c ≤ 0x10FFFF ∧ isSurrogate c = false := by
  match bs, h with
  | [], h => simp [decodeBuf] at h
  | [b0], h =>
    simp only [decodeBuf] at h
    repeat' split at h
    all_goals first | (simp at h; done) | skip
    simp only [DecRes.char.injEq] at h; subst h
    rename_i h0
    exact ⟨(utf8_1 _ h0).symm, by omega, by simp [isSurrogate]; omega⟩
  | [b0, b1], h =>
    simp only [decodeBuf] at h
    repeat' split at h
    all_goals first | (simp at h; done) | skip
    simp only [DecRes.char.injEq] at h
    rename_i h0 h1 h2
    rw [isCont_iff] at h2
    have hc1 : 0x80 ≤ c := by omega
    have hc2 : c < 0x800 := by omega
    refine ⟨?_, by omega, by simp [isSurrogate]; omega⟩
    rw [utf8_2 c hc1 hc2]
    simp only [List.cons.injEq, and_true]
    refine ⟨by omega, by omega⟩
  | [b0, b1, b2], h =>
    simp only [decodeBuf] at h
    repeat' split at h
    all_goals first | (simp at h; done) | skip
    simp only [DecRes.char.injEq] at h
    rename_i h0 h1 h2 h3 h4
    simp only [Bool.or_eq_true, Bool.not_eq_eq_eq_not, Bool.not_true, not_or, Bool.not_eq_false] at h2
    obtain ⟨hb1, hb2⟩ := h2
    rw [isCont_iff] at hb1 hb2
    simp only [Bool.and_eq_true, decide_eq_true_eq, not_and, Nat.not_lt, Nat.not_le] at h3 h4
    have hc1 : 0x800 ≤ c := by
      by_cases hE : b0 = 0xE0
      · have := h3 hE; omega
      · omega
    have hc2 : c < 0x10000 := by omega
    have hs : isSurrogate c = false := by
      simp only [isSurrogate, Bool.and_eq_false_iff, decide_eq_false_iff_not]
      by_cases hE : b0 = 0xED
      · have := h4 hE; omega
      · omega
    refine ⟨?_, by omega, hs⟩
    rw [utf8_3 c hc1 hc2 hs]
    simp only [List.cons.injEq, and_true]
    refine ⟨by omega, by omega, by omega⟩
  | [b0, b1, b2, b3], h =>
    simp only [decodeBuf] at h
    repeat' split at h
    all_goals first | (simp at h; done) | skip
    simp only [DecRes.char.injEq] at h
    rename_i h0 h2 h3 h4
    simp only [Bool.or_eq_true, Bool.not_eq_eq_eq_not, Bool.not_true, not_or, Bool.not_eq_false,
      decide_eq_true_eq, Nat.not_lt, Nat.not_le] at h0 h2
    obtain ⟨⟨hb1, hb2⟩, hb3⟩ := h2
    rw [isCont_iff] at hb1 hb2 hb3
    simp only [Bool.and_eq_true, decide_eq_true_eq, not_and, Nat.not_lt, Nat.not_le] at h3 h4
    have hc1 : 0x10000 ≤ c := by
      by_cases hE : b0 = 0xF0
      · have := h3 hE; omega
      · omega
    have hc2 : c ≤ 0x10FFFF := by
      by_cases hE : b0 = 0xF4
      · have := h4 hE; omega
      · omega
    have hs : isSurrogate c = false := by
      simp only [isSurrogate, Bool.and_eq_false_iff, decide_eq_false_iff_not]; omega
    refine ⟨?_, hc2, hs⟩
    rw [utf8_4 c hc1 hc2]
    simp only [List.cons.injEq, and_true]
    refine ⟨by omega, by omega, by omega, by omega⟩
  | _ :: _ :: _ :: _ :: _ :: _, h => simp [decodeBuf] at h


/-- a byte that can start no well-formed sequence: a continuation byte, `C0`, `C1`, `F5`…`FF` -/
def BadLead (b : Nat) : Prop := (0x80 ≤ b ∧ b < 0xC2) ∨ 0xF5 ≤ b

theorem utf8_lead (c : Nat) (hc : c ≤ 0x10FFFF) (hs : isSurrogate c = false) :
    ∃ b0 r, utf8 c = b0 :: r ∧ ¬ BadLead b0 := by
  unfold BadLead
  by_cases h1 : c < 0x80
  · exact ⟨_, _, utf8_1 c h1, by omega⟩
  by_cases h2 : c < 0x800
  · exact ⟨_, _, utf8_2 c (by omega) h2, by omega⟩
  by_cases h3 : c < 0x10000
  · exact ⟨_, _, utf8_3 c (by omega) h3 hs, by omega⟩
  · exact ⟨_, _, utf8_4 c (by omega) hc, by omega⟩

theorem badLead_of_cont {b : Nat} (h : isCont b = true) : BadLead b := by
  rw [isCont_iff] at h; exact Or.inl (by omega)

theorem incomplete_tail_cont (l : List Nat) (h : decodeBuf l = .incomplete) : ∀ x ∈ l.tail, isCont x = true := by
  match l, h with
  | [], h => simp [decodeBuf] at h
  | [b0], h => simp
  | [b0, b1], h =>
    simp only [decodeBuf] at h
    repeat' split at h
    all_goals first | (simp at h; done) | skip
    all_goals simp_all
  | [b0, b1, b2], h =>
    simp only [decodeBuf] at h
    repeat' split at h
    all_goals first | (simp at h; done) | skip
    all_goals simp_all
  | [b0, b1, b2, b3], h =>
    simp only [decodeBuf] at h
    repeat' split at h
    all_goals (simp at h)
  | _ :: _ :: _ :: _ :: _ :: _, h => simp [decodeBuf] at h

theorem pending_tail_cont (p : Nat × Str) (ps : List (Nat × Str)) (hp : Pending (p :: ps)) :
    ∀ e ∈ ps, isCont e.1 = true := by
  have h := hp ps.length (by simp)
  rw [List.take_of_length_le (by simp)] at h
  intro e he
  exact incomplete_tail_cont _ h e.1 (by simp only [runBytes, List.map_cons, List.tail_cons]; exact List.mem_map_of_mem he)

theorem pending_take_incomplete {ps : List (Nat × Str)} (hp : Pending ps) (tl : List (Nat × Str)) (k : Nat)
    (h0 : 0 < k) (hk : k ≤ ps.length) : decodeBuf ((runBytes (ps ++ tl)).take k) = .incomplete := by
  have := hp (k - 1) (by omega)
  rw [show k - 1 + 1 = k by omega] at this
  simp only [runBytes, List.map_append]
  rw [List.take_append_of_le_length (by simp; omega)]
  exact this

/-- every run is: pending escapes to its end, or pending escapes and the escape that decides them -/
theorem split_pending (es : List (Nat × Str)) :
    Pending es ∨ ∃ ps e tl, es = ps ++ e :: tl ∧ Pending ps ∧ decodeBuf (runBytes ps ++ [e.1]) ≠ .incomplete := by
  have key : ∀ k, k ≤ es.length → Pending (es.take k) ∨
      ∃ ps e tl, es = ps ++ e :: tl ∧ Pending ps ∧ decodeBuf (runBytes ps ++ [e.1]) ≠ .incomplete := by
    intro k
    induction k with
    | zero => intro _; left; rw [List.take_zero]; exact pending_nil
    | succ k ih =>
      intro hk
      rcases ih (by omega) with hp | hex
      · by_cases hd : decodeBuf (runBytes (es.take k) ++ [(es[k]'(by omega)).1]) = .incomplete
        · left
          rw [List.take_succ_eq_append_getElem (by omega)]
          exact pending_snoc hp hd
        · right
          refine ⟨es.take k, es[k]'(by omega), es.drop (k + 1), ?_, hp, hd⟩
          rw [← List.drop_eq_getElem_cons (by omega), List.take_append_drop]
      · exact Or.inr hex
  have := key es.length (Nat.le_refl _)
  rwa [List.take_of_length_le (Nat.le_refl _)] at this

theorem not_startsEscape_of_restoreCh_none {d1 d2 : Nat} {r : Str} (h : restoreCh d1 d2 = none) :
    ¬ StartsEscape (37 :: d1 :: d2 :: r) := by
  rintro ⟨e1, e2, r', v, he, hv⟩
  injection he with _ he; injection he with h1 he; injection he with h2 _
  subst h1; subst h2
  rw [h] at hv; cases hv


end DecMore
end Yarl
