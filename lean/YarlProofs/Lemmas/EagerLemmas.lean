/-
  EagerLemmas.lean — helper lemmas for C09 (eager = lazy netloc data):
  "every successful result satisfies P" combinators, what `split_netloc` can
  return, REQUOTER output facts, and the shape of an encoded host.
-/
import YarlModel
import YarlProofs.Lemmas.NetlocLemmas
import YarlProofs.Lemmas.HostLemmas
import YarlProofs.Lemmas.OutLang
import YarlProofs.Lemmas.GenTabs
import YarlProofs.C07
import YarlProofs.C11
import YarlProofs.C12Readback
import YarlProofs.C16
namespace Yarl

/-- the syntactic guard on the host text that `split_netloc` cuts out of the INPUT authority:
    no stray brackets, and either a colon-free non-empty name (reg-name, IPv4 literal with or
    without zone; for a non-ASCII name the IDNA oracle's answer must itself be a plain host),
    or a valid IPv6 literal (text before an optional `%zone`) -/
def GoodHost (o : Oracles) (h0 : Str) : Prop :=
  91 ∉ h0 ∧ 93 ∉ h0 ∧
  ((h0 ≠ [] ∧ 58 ∉ h0 ∧ (isAscii h0 = false → ∀ r, idnaEncode o h0 = .ok r → HostOK r ∧ 58 ∉ r))
   ∨ (∃ h8, parseIP (partition 37 h0).1 = some (.v6 h8)))

namespace EagerLemmas
open NetlocLemmas (mem_iff mem_false_iff)

/-! ### "every successful result satisfies P" -/

structure AllOk {α} (P : α → Prop) (x : R α) : Prop where
  h : ∀ a, x = .ok a → P a

theorem allOk_error {α} {P : α → Prop} (err : PyErr) : AllOk P (.error err : R α) := ⟨by
  intro a h; cases h⟩

theorem allOk_ok {α} {P : α → Prop} {a : α} (h : P a) : AllOk P (.ok a : R α) := ⟨by
  intro b hb; cases hb; exact h⟩

theorem allOk_pure {α} {P : α → Prop} {a : α} (h : P a) : AllOk P (pure a : R α) := allOk_ok h

theorem allOk_bind {α β} {P : β → Prop} {x : R α} {f : α → R β} (h : ∀ a, AllOk P (f a)) :
    AllOk P (x >>= f) := ⟨by
  intro b hb
  cases x with
  | error err => cases hb
  | ok a => exact (h a).h b hb⟩

theorem allOk_ite {α} {P : α → Prop} {c : Prop} [Decidable c] {x y : R α} (hx : AllOk P x) (hy : AllOk P y) :
    AllOk P (if c then x else y) := by
  split
  · exact hx
  · exact hy

/-- walk a `do` block whose leaves are errors or `pure (fromParts …)` -/
macro "allok" : tactic =>
  `(tactic| repeat' (first | exact allOk_error _ | exact allOk_pure rfl | exact allOk_ok rfl
                           | (apply allOk_bind; intro _) | apply allOk_ite | split))

/-! ### small string facts -/

theorem lowerC_eq_iff' (c k : Nat) (hk : ¬ (65 ≤ k ∧ k ≤ 90) ∧ ¬ (97 ≤ k ∧ k ≤ 122)) : lowerC c = k ↔ c = k := by
  unfold lowerC; split <;> omega

theorem mem_lower' (k : Nat) (hk : ¬ (65 ≤ k ∧ k ≤ 90) ∧ ¬ (97 ≤ k ∧ k ≤ 122)) (s : Str) : k ∈ lower s ↔ k ∈ s := by
  unfold lower
  simp only [List.mem_map]
  constructor
  · rintro ⟨c, hc, h⟩; rw [lowerC_eq_iff' c k hk] at h; exact h ▸ hc
  · intro h; exact ⟨k, h, (lowerC_eq_iff' k k hk).mpr rfl⟩

theorem lower_ne_nil {s : Str} (h : s ≠ []) : lower s ≠ [] := by
  cases s with
  | nil => exact absurd rfl h
  | cons _ _ => simp [lower]

/-- `partition` loses nothing -/
theorem partition_join (c : Nat) (s : Str) :
    s = (partition c s).1 ++ (if (partition c s).2.1 then c :: (partition c s).2.2 else []) := by
  induction s with
  | nil => simp [partition]
  | cons x xs ih =>
    by_cases h : x = c
    · subst h; simp [partition]
    · simp only [partition, h, ↓reduceIte, List.cons_append, List.cons.injEq, true_and]
      exact ih

theorem partition_snd_sub (c : Nat) (s : Str) : ∀ x ∈ (partition c s).2.2, x ∈ s := by
  induction s with
  | nil => simp [partition]
  | cons y ys ih =>
    intro x hx
    by_cases h : y = c
    · subst h; simp only [partition, ↓reduceIte] at hx; exact List.mem_cons_of_mem _ hx
    · simp only [partition, h, ↓reduceIte] at hx; exact List.mem_cons_of_mem _ (ih x hx)

theorem isEmpty_false {s : Str} (h : s ≠ []) : s.isEmpty = false := by
  cases s with
  | nil => exact absurd rfl h
  | cons _ _ => rfl

/-! ### the encoded host -/

open HostLemmas in
theorem parseIP_v6 {s : Str} {h8 : List Nat} (h : parseIP s = some (.v6 h8)) :
    parseIPv4 s = none ∧ parseIPv6 s = some h8 := by
  unfold parseIP at h
  cases h4 : parseIPv4 s with
  | some o => rw [h4] at h; cases h
  | none =>
    rw [h4] at h
    cases h6 : parseIPv6 s with
    | none => rw [h6] at h; cases h
    | some x => rw [h6] at h; simp at h; subst h; exact ⟨rfl, rfl⟩

theorem parseIP_v4 {s : Str} {o4 : List Nat} (h : parseIP s = some (.v4 o4)) : parseIPv4 s = some o4 := by
  unfold parseIP at h
  cases h4 : parseIPv4 s with
  | some o => rw [h4] at h; simp at h; subst h; rfl
  | none =>
    rw [h4] at h
    cases h6 : parseIPv6 s with
    | none => rw [h6] at h; cases h
    | some x => rw [h6] at h; cases h

open HostLemmas in
/-- under the guard, `_encode_host` returns `bracket rh` for a plain host text `rh`
    (which is what `encode_url` caches as `raw_host`) -/
theorem host_good (o : Oracles) (h0 r : Str) (h64 : 64 ∉ h0) (hg : GoodHost o h0)
    (he : encodeHost o h0 false = .ok r) : ∃ rh, HostOK rh ∧ r = bracket rh := by
  obtain ⟨h91, h93, hg⟩ := hg
  rcases hg with ⟨hne, h58, hidna⟩ | ⟨h8, hv6⟩
  · -- colon-free: the result is colon-free and un-bracketed
    suffices hs : HostOK r ∧ 58 ∉ r by
      refine ⟨r, hs.1, ?_⟩
      unfold bracket; rw [mem_false_iff.mpr hs.2]; rfl
    rcases encodeHost_cases he with hip | hreg
    · -- IPv4 literal (an IPv6 one needs a colon): kept verbatim
      have hrr : r = h0 := by
        unfold ipRes at hip
        have hj := partition_join 37 h0
        generalize partition 37 h0 = pp at hip hj
        obtain ⟨a, f, z⟩ := pp
        dsimp only at hip hj
        have ha : ∀ x ∈ a, x ∈ h0 := fun x hx => by rw [hj]; exact List.mem_append_left _ hx
        split at hip
        · rename_i h hv
          exact absurd (ha 58 (parseIPv6_colon (parseIP_v6 hv).2)) h58
        · rename_i ip hv
          have hc := (C16_ipv4_canonical _ ip (parseIP_v4 hv)).1
          rw [hc] at hip
          cases f with
          | true => simp at hip hj; rw [hj, ← hip]
          | false => simp at hip hj; rw [hj, ← hip]
        · cases hip
      subst hrr
      exact ⟨⟨hne, h64, h91, h93⟩, h58⟩
    · unfold regPath at hreg
      split at hreg
      · simp only [Bool.false_and, Bool.false_eq_true, ↓reduceIte, pure, Except.pure, Except.ok.injEq] at hreg
        subst hreg
        refine ⟨⟨lower_ne_nil hne, ?_, ?_, ?_⟩, ?_⟩
        · rw [mem_lower' 64 (by omega)]; exact h64
        · rw [mem_lower' 91 (by omega)]; exact h91
        · rw [mem_lower' 93 (by omega)]; exact h93
        · rw [mem_lower' 58 (by omega)]; exact h58
      · rename_i hna
        cases hi : idnaEncode o h0 with
        | error err => rw [hi] at hreg; cases hreg
        | ok r' =>
          rw [hi] at hreg
          simp only [bind, Except.bind, Bool.false_and, Bool.false_eq_true, ↓reduceIte, pure, Except.pure,
            Except.ok.injEq] at hreg
          subst hreg
          exact hidna (by simpa using hna) r' hi
  · -- IPv6 literal: bracketed canonical text, zone kept
    obtain ⟨h4, h6⟩ := parseIP_v6 hv6
    obtain ⟨_, _, hr⟩ := C16_ipv6_bracketed o h0 false h8 r h4 h6 he
    have hcolon : 58 ∈ ipv6ToStr h8 := parseIPv6_colon (C16_ipv6_reparse _ h8 h6)
    have htxt : ∀ c, c = 64 ∨ c = 91 ∨ c = 93 → c ∉ ipv6ToStr h8 := by
      intro c hc hm
      have := C16_ipv6_text_lower h8 c hm
      simp only [isDigitC, Bool.and_eq_true, decide_eq_true_eq] at this
      omega
    have hzone : ∀ c, c ∉ h0 → c ≠ 37 →
        c ∉ (if (partition 37 h0).2.1 then [37] ++ (partition 37 h0).2.2 else []) := by
      intro c hc h37 hm
      split at hm
      · simp only [List.cons_append, List.nil_append, List.mem_cons] at hm
        rcases hm with hm | hm
        · exact h37 hm
        · exact hc (partition_snd_sub 37 h0 c hm)
      · cases hm
    refine ⟨ipv6ToStr h8 ++ (if (partition 37 h0).2.1 then [37] ++ (partition 37 h0).2.2 else []), ⟨?_, ?_, ?_, ?_⟩, ?_⟩
    · intro hnil
      have : 58 ∈ ipv6ToStr h8 ++ (if (partition 37 h0).2.1 then [37] ++ (partition 37 h0).2.2 else []) :=
        List.mem_append_left _ hcolon
      rw [hnil] at this; cases this
    · simp only [List.mem_append, not_or]; exact ⟨htxt 64 (by simp), hzone 64 h64 (by decide)⟩
    · simp only [List.mem_append, not_or]; exact ⟨htxt 91 (by simp), hzone 91 h91 (by decide)⟩
    · simp only [List.mem_append, not_or]; exact ⟨htxt 93 (by simp), hzone 93 h93 (by decide)⟩
    · unfold bracket
      have : mem 58 (ipv6ToStr h8 ++ (if (partition 37 h0).2.1 then [37] ++ (partition 37 h0).2.2 else [])) = true :=
        mem_iff.mpr (List.mem_append_left _ hcolon)
      rw [this, hr]; simp

/-! ### REQUOTER output -/

theorem requoter_mem : Gen.REQUOTER ∈ Gen.allQuoters := by decide

theorem requoter_escapes : ∀ b : Backend, (Gen.REQUOTER.tab b).safe 58 = false ∧ (Gen.REQUOTER.tab b).safe 64 = false ∧
    (Gen.REQUOTER.tab b).qs = false := by
  intro b; cases b <;> decide

/-- REQUOTER escapes ':' and '@' -/
theorem requoter_no_delims (e : Env) (s : Str) (hs : PyStr s) :
    58 ∉ q e Gen.REQUOTER s ∧ 64 ∉ q e Gen.REQUOTER s := by
  obtain ⟨h58, h64, hqs⟩ := requoter_escapes e.b
  have hwf := gen_tab_wf _ requoter_mem e.b
  unfold q
  rw [QsLemmas.run_eq_cOut _ requoter_mem e.b s hs]
  have hall := outLang_allowed _ hwf (cOut_outLang _ hwf (stripSurr s) (QuoteEquiv.pyStr_stripSurr hs))
  constructor
  · intro hm
    rcases hall 58 hm with h | h | h | h
    · rw [h58] at h; cases h
    · exact absurd h (by decide)
    · exact absurd h (by decide)
    · rw [hqs] at h; cases h.1
  · intro hm
    rcases hall 64 hm with h | h | h | h
    · rw [h64] at h; cases h
    · exact absurd h (by decide)
    · exact absurd h (by decide)
    · rw [hqs] at h; cases h.1

theorem pct_ne_nil (b : Nat) : pct b ≠ [] := by simp [pct]

theorem cWriteOut_ne_nil (t : QTab) {c : Nat} (hc : c ≤ 0x10FFFF) (hn : isSurrogate c = false) :
    cWriteOut t c ≠ [] := by
  unfold cWriteOut
  split; · simp
  split; · simp
  unfold writeUtf8
  have := QuoteEquiv.utf8_ne_nil hc hn
  cases hu : utf8 c with
  | nil => rw [hu] at this; cases this
  | cons b bs => simp [pct]

theorem cEscOut_ne_nil (t : QTab) (v : Nat) : cEscOut t v ≠ [] := by
  unfold cEscOut
  split; · exact pct_ne_nil v
  split; · simp
  exact pct_ne_nil v

theorem cOut_cons_ne_nil (t : QTab) (c : Nat) (rest : Str) (hc : c ≤ 0x10FFFF) (hn : isSurrogate c = false) :
    cOut t (c :: rest) ≠ [] := by
  rw [cOut]
  split
  · split
    · intro h; exact cEscOut_ne_nil t _ (List.append_eq_nil_iff.mp h).1
    · intro h; exact cWriteOut_ne_nil t (by decide) (by decide) (List.append_eq_nil_iff.mp h).1
  · intro h; exact cWriteOut_ne_nil t hc hn (List.append_eq_nil_iff.mp h).1

/-- a string with at least one real (non-surrogate) character does not requote to "" -/
theorem requoter_ne_nil (e : Env) (s : Str) (hs : PyStr s) (hx : ∃ c ∈ s, isSurrogate c = false) :
    q e Gen.REQUOTER s ≠ [] := by
  unfold q
  rw [QsLemmas.run_eq_cOut _ requoter_mem e.b s hs]
  obtain ⟨c, hc, hn⟩ := hx
  have hm : c ∈ stripSurr s := by unfold stripSurr; simp [hc, hn]
  cases hss : stripSurr s with
  | nil => rw [hss] at hm; cases hm
  | cons d rest =>
    have hd : d ∈ stripSurr s := by rw [hss]; simp
    have hd' := List.mem_filter.mp hd
    exact cOut_cons_ne_nil _ d rest (hs d hd'.1) (by simpa using hd'.2)

end EagerLemmas

/-- the guard on the authority of the INPUT as `split_netloc` cuts it:
    * the user, if any, is a Python string that does not requote to "" (i.e. it is not made of lone
      surrogates only, see `requoter_ne_nil`);
    * the host, if any, satisfies `GoodHost`;
    * with an EMPTY host there is a user, a password or a port (otherwise the stored netloc is ""). -/
def GoodNp (e : Env) (np : NetlocParts) : Prop :=
  (∀ s, np.user = some s → PyStr s ∧ q e Gen.REQUOTER s ≠ []) ∧
  (match np.host with
   | none => np.user ≠ none ∨ np.password ≠ none ∨ np.port ≠ none
   | some h0 => GoodHost e.o h0)

/-- the guard of `C09_eager_eq_lazy`, on the split authority of the input string -/
def GoodAuthority (e : Env) (s : Str) : Prop :=
  ∀ pt np, splitUrl e.o s = .ok pt → splitNetloc e.o pt.netloc = .ok np → GoodNp e np

namespace EagerLemmas
open NetlocLemmas (mem_iff mem_false_iff)

/-- the authority split of `encode_url` (the fast path for a netloc without ':' '@' '[') -/
def authSplit (o : Oracles) (netloc : Str) : R NetlocParts :=
  if mem 58 netloc || mem 64 netloc || mem 91 netloc then splitNetloc o netloc
  else pure { user := none, password := none, host := some netloc, port := none }

def hostOr (scheme : Str) (h : Option Str) : R Str :=
  match h with
  | some h => pure h
  | none => if Gen.schemeRequiresHost.contains scheme then .error .valueError else pure []

/-- stored netloc and pre-filled cache, from the split input authority and the encoded host -/
def eagerOut (e : Env) (np : NetlocParts) (host : Str) : R (Str × Option NetPre) :=
  let rawHost := if mem 91 host then (host.drop 1).dropLast else host
  if np.password.isNone && np.user.isNone then
    let netloc := match np.port with
      | none => host
      | some pt => host ++ [58] ++ natToStr pt
    pure (netloc, some { rawHost := some rawHost, explicitPort := np.port, rawUser := none, rawPassword := none })
  else
    let ru := requoteOpt e np.user
    let rp := requoteOpt e np.password
    let netloc := makeNetloc (q e Gen.QUOTER) ru rp (some host) np.port false
    pure (netloc, some { rawHost := some rawHost, explicitPort := np.port, rawUser := ru, rawPassword := rp })

def authBlock (e : Env) (p : Parts) : R (Str × Option NetPre) :=
  if p.netloc.isEmpty then pure (([] : Str), (none : Option NetPre))
  else do
    let np ← authSplit e.o p.netloc
    let host0 ← hostOr p.scheme np.host
    let host ← encodeHost e.o host0 false
    eagerOut e np host

def finishUrl (e : Env) (p : Parts) (netloc : Str) (pre : Option NetPre) : Url :=
  let path :=
    if p.path.isEmpty then p.path
    else
      let p1 := q e Gen.PATH_REQUOTER p.path
      if !netloc.isEmpty && mem 46 p1 then normalizePath p1 else p1
  let query := if p.query.isEmpty then p.query else q e Gen.QUERY_REQUOTER p.query
  let fragment := if p.fragment.isEmpty then p.fragment else q e Gen.FRAGMENT_REQUOTER p.fragment
  { scheme := p.scheme, netloc := netloc, path := path, query := query, fragment := fragment, pre := pre }

theorem encodeUrl_eq (e : Env) (s : Str) :
    encodeUrl e s = (splitUrl e.o s >>= fun p => authBlock e p >>= fun np => pure (finishUrl e p np.1 np.2)) := by
  rfl

/-! ### what `split_netloc` returns -/

theorem netlocRest_host (o : Oracles) (u pw : Option Str) (hn ps : Str) :
    AllOk (fun r => r.host = orNone hn) (ParseLemmas.netlocRest o u pw hn ps) := by
  unfold ParseLemmas.netlocRest
  dsimp only
  allok

theorem orNone_some {x h : Str} (hx : orNone x = some h) : h = x ∧ h ≠ [] := by
  unfold orNone at hx
  split at hx
  · cases hx
  · rename_i hne
    cases hx
    exact ⟨rfl, by intro h0; subst h0; simp at hne⟩

/-- `split_netloc` never returns an empty user or an empty host, and the host has no '@' -/
theorem splitNetloc_shape (o : Oracles) (n : Str) (np : NetlocParts) (h : splitNetloc o n = .ok np) :
    np.user ≠ some [] ∧ (∀ h0, np.host = some h0 → h0 ≠ [] ∧ 64 ∉ h0) := by
  rw [ParseLemmas.splitNetloc_eq] at h
  have h1 := (ParseLemmas.netlocRest_shape _ _ _ _ _ _ h).1
  have h2 := (netlocRest_host _ _ _ _ _).h _ h
  constructor
  · rw [h1]
    cases (ParseLemmas.userTriple n).1 with
    | none => simp
    | some x =>
      simp only [Option.bind]
      intro hx
      exact (orNone_some hx).2 rfl
  · intro h0 hh
    rw [h2] at hh
    obtain ⟨he, hne⟩ := orNone_some hh
    refine ⟨hne, ?_⟩
    subst he
    have hi : 64 ∉ (ParseLemmas.userTriple n).2.2 := by
      unfold ParseLemmas.userTriple
      split
      · rename_i hm; simpa [ParseLemmas.mem_eq] using hm
      · rename_i hm
        have : 64 ∈ n := by simpa [ParseLemmas.mem_eq] using hm
        exact (ParseLemmas.rpartition_mem this).2
    intro hm
    apply hi
    unfold ParseLemmas.hostPort at hm
    split at hm
    · exact partition_snd_sub 91 _ 64 (HostLemmas.partition_fst_sub 93 _ 64 hm)
    · exact HostLemmas.partition_fst_sub 58 _ 64 hm

theorem splitNetloc_simple (o : Oracles) (n : Str) (hne : n ≠ []) (h58 : 58 ∉ n) (h64 : 64 ∉ n) (h91 : 91 ∉ n) :
    splitNetloc o n = .ok { user := none, password := none, host := some n, port := none } := by
  rw [NetlocLemmas.splitNetloc_eq, NetlocLemmas.userSplit_noAt n h64]
  unfold NetlocLemmas.finish NetlocLemmas.hostPort
  simp [mem_false_iff.mpr h91, NetlocLemmas.partition_notFound 58 n h58, orNone, isEmpty_false hne, pure,
    Except.pure]

theorem authSplit_eq (o : Oracles) (n : Str) (hne : n ≠ []) : authSplit o n = splitNetloc o n := by
  unfold authSplit
  split
  · rfl
  · rename_i hc
    simp only [Bool.or_eq_true, not_or, Bool.not_eq_true] at hc
    rw [splitNetloc_simple o n hne (mem_false_iff.mp hc.1.1) (mem_false_iff.mp hc.1.2) (mem_false_iff.mp hc.2)]
    rfl

/-! ### the eager data against the stored netloc -/

/-- both branches of the cache fill, uniformly -/
theorem eagerOut_eq (e : Env) (np : NetlocParts) (host : Str) :
    eagerOut e np host = .ok
      (makeNetloc (q e Gen.QUOTER) (requoteOpt e np.user) (requoteOpt e np.password) (some host) np.port false,
       some { rawHost := some (unbracket host), explicitPort := np.port,
              rawUser := requoteOpt e np.user, rawPassword := requoteOpt e np.password }) := by
  unfold eagerOut unbracket
  dsimp only
  split
  · rename_i hc
    have h1 : np.password = none := by
      cases h : np.password with
      | none => rfl
      | some x => rw [h] at hc; simp at hc
    have h2 : np.user = none := by
      cases h : np.user with
      | none => rfl
      | some x => rw [h] at hc; simp at hc
    rw [h1, h2]
    cases np.port <;> rfl
  · rfl

theorem userOK_requote (e : Env) (u : Option Str) (hne : u ≠ some [])
    (hu : ∀ s, u = some s → PyStr s ∧ q e Gen.REQUOTER s ≠ []) : UserOK (requoteOpt e u) := by
  intro t ht
  cases u with
  | none => cases ht
  | some s =>
    have hs : s.isEmpty = false := isEmpty_false (fun h => hne (by rw [h]))
    simp only [requoteOpt, Option.map_some, hs, Bool.false_eq_true, ↓reduceIte, Option.some.injEq] at ht
    subst ht
    exact ⟨(hu s rfl).2, (requoter_no_delims e s (hu s rfl).1).1⟩

theorem lazyNet_of_split (e : Env) (u : Url) (p : NetPre) (hopt : Option Str)
    (hh : p.rawHost = match hopt with
      | none => if u.netloc.isEmpty then none else some []
      | some h => some h)
    (hs : splitNetloc e.o u.netloc =
      .ok { user := p.rawUser, password := p.rawPassword, host := hopt, port := p.explicitPort }) :
    lazyNet e u = .ok p := by
  unfold lazyNet
  rw [hs]
  simp only [bind, Except.bind, pure, Except.pure]
  obtain ⟨rh, ep, ru, rp⟩ := p
  simp only at hh
  subst hh
  cases hopt <;> rfl

theorem encodeHost_nil (o : Oracles) : encodeHost o [] false = .ok [] := rfl

theorem makeNetloc_nil_host_ne_nil (qf : Str → Str) (ru rp : Option Str) (port : Option Nat) (hu : UserOK ru)
    (h : ru ≠ none ∨ rp ≠ none ∨ port ≠ none) : makeNetloc qf ru rp (some []) port false ≠ [] := by
  rw [NetlocLemmas.makeNetloc_eq]
  cases rp with
  | some pw => cases ru <;> simp
  | none =>
    cases ru with
    | some u =>
      have := (hu u rfl).1
      simp [isEmpty_false this]
    | none =>
      cases port with
      | none => simp at h
      | some pt => simp [NetlocLemmas.hostPortStr]

/-- MAIN at the netloc level: what `encode_url` caches is what `split_netloc` reads from the stored netloc -/
theorem authBlock_lazy (e : Env) (pt : Parts) (netloc : Str) (p : NetPre)
    (hb : authBlock e pt = .ok (netloc, some p))
    (hg : ∀ np, splitNetloc e.o pt.netloc = .ok np → GoodNp e np)
    (u : Url) (hu : u.netloc = netloc) : lazyNet e u = .ok p := by
  unfold authBlock at hb
  split at hb
  · cases hb
  rename_i hne
  have hne' : pt.netloc ≠ [] := by intro h; rw [h] at hne; exact hne rfl
  cases hsp : authSplit e.o pt.netloc with
  | error err => simp only [hsp, bind, Except.bind] at hb; cases hb
  | ok np =>
    simp only [hsp, bind, Except.bind] at hb
    rw [authSplit_eq _ _ hne'] at hsp
    obtain ⟨hgu, hgh⟩ := hg np hsp
    obtain ⟨hune, hhost⟩ := splitNetloc_shape _ _ _ hsp
    have hport := fun p => NetlocLemmas.splitNetloc_port_range e.o _ np p hsp
    have hUser : UserOK (requoteOpt e np.user) := userOK_requote e np.user hune hgu
    cases hho : hostOr pt.scheme np.host with
    | error err => simp only [hho] at hb; cases hb
    | ok host0 =>
      simp only [hho] at hb
      cases henc : encodeHost e.o host0 false with
      | error err => simp only [henc] at hb; cases hb
      | ok host =>
        simp only [henc] at hb
        simp only [eagerOut_eq, Except.ok.injEq, Prod.mk.injEq, Option.some.injEq] at hb
        obtain ⟨hnl, hp⟩ := hb
        subst hp
        cases hnh : np.host with
        | some h0 =>
          rw [hnh] at hgh hho
          simp only [hostOr, pure, Except.pure, Except.ok.injEq] at hho
          subst hho
          obtain ⟨rh, hrh, hbr⟩ := host_good e.o h0 host (hhost h0 hnh).2 hgh henc
          subst hbr
          apply lazyNet_of_split e u _ (some rh)
          · simp only [unbracket_bracket rh hrh]
          · rw [hu, ← hnl]
            exact netloc_roundtrip e.o _ _ _ rh np.port hUser hrh (fun p hp => hport p hp)
        | none =>
          rw [hnh] at hgh hho
          have h0 : host0 = [] := by
            simp only [hostOr] at hho
            split at hho
            · cases hho
            · cases hho; rfl
          subst h0
          rw [encodeHost_nil] at henc
          cases henc
          have hnn : netloc ≠ [] := by
            rw [← hnl]
            apply makeNetloc_nil_host_ne_nil _ _ _ _ hUser
            rcases hgh with h | h | h
            · left; cases hh : np.user with
              | none => exact absurd hh h
              | some x => simp [requoteOpt]
            · right; left; cases hh : np.password with
              | none => exact absurd hh h
              | some x => simp [requoteOpt]
            · right; right; exact h
          apply lazyNet_of_split e u _ none
          · rw [hu]; simp [isEmpty_false hnn, unbracket, mem]
          · rw [hu, ← hnl]
            exact netloc_roundtrip_empty_host e.o _ _ _ np.port hUser (fun p hp => hport p hp)
end EagerLemmas
end Yarl
