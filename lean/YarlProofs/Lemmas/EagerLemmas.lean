/-
  EagerLemmas.lean — helper lemmas for C09 (eager = lazy netloc data):
  "every successful result satisfies P" combinators, what `split_netloc` can
  return, REQUOTER output facts, and the shape of an encoded host.
-/
import YarlModel
import YarlProofs.Lemmas.NetlocLemmas
import YarlProofs.Lemmas.HostLemmas
import YarlProofs.Lemmas.OutLang
import YarlProofs.Lemmas.GenTabs
import YarlProofs.Lemmas.StrTotal
import YarlProofs.C07
import YarlProofs.C11
import YarlProofs.C12Readback
import YarlProofs.C16
namespace Yarl

/-- the guard on the host text `h0` that `split_netloc` cuts out of the INPUT authority.  After the
    re-bracketing fix only two things are left:
    * no '[' inside the host text ("[[::1]" is the finding that remains), and for a non-ASCII host the
      IDNA oracle's answer is non-empty and introduces none of ':' '@' '[' ']';
    * or the host is a valid IPv6 literal (text before an optional `%zone`), whatever the zone is.
    A host with ':' that is no IPv6 address (IPvFuture, "[a:b]", "[1.2.3.4%a:b]") is inside the guard now. -/
def GoodHost (o : Oracles) (h0 : Str) : Prop :=
  (91 ∉ h0 ∧ (isAscii h0 = false → ∀ r, idnaEncode o h0 = .ok r →
      r ≠ [] ∧ ∀ c, (c = 58 ∨ c = 64 ∨ c = 91 ∨ c = 93) → c ∈ r → c ∈ h0))
  ∨ (∃ h8, parseIP (partition 37 h0).1 = some (.v6 h8))

/-- the guard as it was before the fix (kept: it implies the new one, see `goodHost_of_old`) -/
def GoodHostOld (o : Oracles) (h0 : Str) : Prop :=
  91 ∉ h0 ∧ 93 ∉ h0 ∧
  ((h0 ≠ [] ∧ 58 ∉ h0 ∧ (isAscii h0 = false → ∀ r, idnaEncode o h0 = .ok r → HostOK r ∧ 58 ∉ r))
   ∨ (∃ h8, parseIP (partition 37 h0).1 = some (.v6 h8)))

theorem goodHost_of_old {o : Oracles} {h0 : Str} (h : GoodHostOld o h0) : GoodHost o h0 := by
  obtain ⟨h91, _, h | h⟩ := h
  · left
    refine ⟨h91, fun hna r hr => ?_⟩
    obtain ⟨⟨hne, h64, h91', h93'⟩, h58⟩ := h.2.2 hna r hr
    refine ⟨hne, ?_⟩
    intro c hc hm
    rcases hc with rfl | rfl | rfl | rfl
    · exact absurd hm h58
    · exact absurd hm h64
    · exact absurd hm h91'
    · exact absurd hm h93'
  · exact Or.inr h

namespace EagerLemmas
open NetlocLemmas (mem_iff mem_false_iff)

/-! ### "every successful result satisfies P" -/

structure AllOk {α} (P : α → Prop) (x : R α) : Prop where
  h : ∀ a, x = .ok a → P a

theorem allOk_error {α} {P : α → Prop} (err : PyErr) : AllOk P (.error err : R α) := ⟨by
  intro a h; cases h⟩

theorem allOk_ok {α} {P : α → Prop} {a : α} (h : P a) : AllOk P (.ok a : R α) := ⟨by
  intro b hb; cases hb; exact h⟩

theorem allOk_pure {α} {P : α → Prop} {a : α} (h : P a) : AllOk P (pure a : R α) := allOk_ok h

theorem allOk_bind {α β} {P : β → Prop} {x : R α} {f : α → R β} (h : ∀ a, AllOk P (f a)) :
    AllOk P (x >>= f) := ⟨by
  intro b hb
  cases x with
  | error err => cases hb
  | ok a => exact (h a).h b hb⟩

theorem allOk_ite {α} {P : α → Prop} {c : Prop} [Decidable c] {x y : R α} (hx : AllOk P x) (hy : AllOk P y) :
    AllOk P (if c then x else y) := by
  split
  · exact hx
  · exact hy

/-- walk a `do` block whose leaves are errors or `pure (fromParts …)` -/
macro "allok" : tactic =>
  `(tactic| repeat' (first | exact allOk_error _ | exact allOk_pure rfl | exact allOk_ok rfl
                           | (apply allOk_bind; intro _) | apply allOk_ite | split))

/-! ### small string facts -/

theorem lowerC_eq_iff' (c k : Nat) (hk : ¬ (65 ≤ k ∧ k ≤ 90) ∧ ¬ (97 ≤ k ∧ k ≤ 122)) : lowerC c = k ↔ c = k := by
  unfold lowerC; split <;> omega

theorem mem_lower' (k : Nat) (hk : ¬ (65 ≤ k ∧ k ≤ 90) ∧ ¬ (97 ≤ k ∧ k ≤ 122)) (s : Str) : k ∈ lower s ↔ k ∈ s := by
  unfold lower
  simp only [List.mem_map]
  constructor
  · rintro ⟨c, hc, h⟩; rw [lowerC_eq_iff' c k hk] at h; exact h ▸ hc
  · intro h; exact ⟨k, h, (lowerC_eq_iff' k k hk).mpr rfl⟩

theorem lower_ne_nil {s : Str} (h : s ≠ []) : lower s ≠ [] := by
  cases s with
  | nil => exact absurd rfl h
  | cons _ _ => simp [lower]

/-- `partition` loses nothing -/
theorem partition_join (c : Nat) (s : Str) :
    s = (partition c s).1 ++ (if (partition c s).2.1 then c :: (partition c s).2.2 else []) := by
  induction s with
  | nil => simp [partition]
  | cons x xs ih =>
    by_cases h : x = c
    · subst h; simp [partition]
    · simp only [partition, h, ↓reduceIte, List.cons_append, List.cons.injEq, true_and]
      exact ih

theorem partition_snd_sub (c : Nat) (s : Str) : ∀ x ∈ (partition c s).2.2, x ∈ s := by
  induction s with
  | nil => simp [partition]
  | cons y ys ih =>
    intro x hx
    by_cases h : y = c
    · subst h; simp only [partition, ↓reduceIte] at hx; exact List.mem_cons_of_mem _ hx
    · simp only [partition, h, ↓reduceIte] at hx; exact List.mem_cons_of_mem _ (ih x hx)

theorem isEmpty_false {s : Str} (h : s ≠ []) : s.isEmpty = false := by
  cases s with
  | nil => exact absurd rfl h
  | cons _ _ => rfl

/-! ### the encoded host -/

open HostLemmas in
theorem parseIP_v6 {s : Str} {h8 : List Nat} (h : parseIP s = some (.v6 h8)) :
    parseIPv4 s = none ∧ parseIPv6 s = some h8 := by
  unfold parseIP at h
  cases h4 : parseIPv4 s with
  | some o => rw [h4] at h; cases h
  | none =>
    rw [h4] at h
    cases h6 : parseIPv6 s with
    | none => rw [h6] at h; cases h
    | some x => rw [h6] at h; simp at h; subst h; exact ⟨rfl, rfl⟩

theorem parseIP_v4 {s : Str} {o4 : List Nat} (h : parseIP s = some (.v4 o4)) : parseIPv4 s = some o4 := by
  unfold parseIP at h
  cases h4 : parseIPv4 s with
  | some o => rw [h4] at h; simp at h; subst h; rfl
  | none =>
    rw [h4] at h
    cases h6 : parseIPv6 s with
    | none => rw [h6] at h; cases h
    | some x => rw [h6] at h; cases h

/-! ### reading a written host text back -/

/-- `split_netloc` reads the host `h` (and the port behind it) out of the written text `w`, and
    `encode_url`'s way of stripping brackets gives `h` too -/
structure Reads (w h : Str) : Prop where
  h64 : 64 ∉ w
  plain : NetlocLemmas.hostPort w = (h, [])
  port : ∀ ds, 91 ∉ ds → NetlocLemmas.hostPort (w ++ [58] ++ ds) = (h, ds)
  unbr : unbracket w = h

open NetlocLemmas in
/-- a bracketed text: any content without '@' and ']' (a '[' inside is harmless) -/
theorem reads_bracketed (h : Str) (h64 : 64 ∉ h) (h93 : 93 ∉ h) : Reads ([91] ++ h ++ [93]) h := by
  have e2 : ∀ t, mem 91 (91 :: t) = true := fun t => mem_iff.mpr (by simp)
  refine ⟨by simp [h64], ?_, ?_, ?_⟩
  · have e4 : partition 93 (h ++ [93]) = (h, true, []) := by
      simpa using partition_found 93 h [] h93
    unfold hostPort
    simp [e2, e4, partition]
  · intro ds _
    have e3 : partition 91 (91 :: (h ++ 93 :: 58 :: ds)) = ([], true, h ++ 93 :: 58 :: ds) :=
      partition_found 91 [] (h ++ 93 :: 58 :: ds) (by simp)
    have e4 : partition 93 (h ++ 93 :: 58 :: ds) = (h, true, 58 :: ds) :=
      partition_found 93 h (58 :: ds) h93
    unfold hostPort
    simp [e2, e3, e4, partition]
  · unfold unbracket
    have : mem 91 ([91] ++ h ++ [93]) = true := mem_iff.mpr (by simp)
    rw [if_pos this]
    simp

open NetlocLemmas in
/-- a plain text: no ':' '@' '[' -/
theorem reads_plain (h : Str) (h58 : 58 ∉ h) (h64 : 64 ∉ h) (h91 : 91 ∉ h) : Reads h h := by
  have e2 : mem 91 h = false := mem_false_iff.mpr h91
  refine ⟨h64, ?_, ?_, ?_⟩
  · unfold hostPort
    simp [e2, partition_notFound 58 h h58]
  · intro ds d91
    have e2' : mem 91 (h ++ 58 :: ds) = false := mem_false_iff.mpr (by simp [h91, d91])
    have e3 : partition 58 (h ++ 58 :: ds) = (h, true, ds) := partition_found 58 h ds h58
    unfold hostPort
    simp [e2', e3]
  · unfold unbracket
    rw [e2]; rfl

open NetlocLemmas in
theorem finish_reads (o : Oracles) (U P : Option Str) (w h : Str) (port : Option Nat) (hr : Reads w h)
    (hp : ∀ p, port = some p → p ≤ 65535) :
    finish o U P (hostPortStr w port) =
      .ok { user := U.bind orNone, password := P, host := orNone h, port := port } := by
  cases port with
  | none =>
    simp only [hostPortStr]
    unfold finish
    rw [hr.plain]
    rfl
  | some p =>
    have hd := natToStrAux_digits p p
    simp only [hostPortStr]
    unfold finish
    rw [hr.port (natToStr p) (notMem_digits hd.2 91 (by omega))]
    have hne : (natToStr p).isEmpty = false := by
      cases hh : natToStr p with
      | nil => exact absurd hh hd.1
      | cons _ _ => rfl
    have hi : pyInt o (natToStr p) = .ok (some (Int.ofNat p)) := by
      unfold pyInt
      rw [isAscii_natToStr, natToStr_roundtrip]
      rfl
    have hle := hp p rfl
    have hr' : (0 : Int) ≤ Int.ofNat p ∧ Int.ofNat p ≤ 65535 := by
      constructor
      · exact Int.natCast_nonneg p
      · exact Int.ofNat_le.mpr hle
    simp only [hne, hi, bind, Except.bind, if_pos hr']
    simp [pure, Except.pure]

open NetlocLemmas in
/-- the round trip `split_netloc (make_netloc …)` around any written host text that reads back -/
theorem roundtrip_reads (o : Oracles) (qf : Str → Str) (user pw : Option Str) (w h : Str) (port : Option Nat)
    (hu : UserOK user) (hr : Reads w h) (hp : ∀ p, port = some p → p ≤ 65535) :
    splitNetloc o (makeNetloc qf user pw (some w) port false) =
      .ok { user := user, password := pw, host := orNone h, port := port } := by
  have hret := StrTotal.notMem_hostPortStr_written port hr.h64
  have hfin := fun U P => finish_reads o U P w h port hr hp
  rw [splitNetloc_eq, makeNetloc_eq]
  cases user with
  | none =>
    cases pw with
    | none =>
      simp only [userSplit_noAt _ hret, hfin]; rfl
    | some x =>
      have e : (none : Option Str).getD [] ++ 58 :: x ++ 64 :: hostPortStr w port
          = (58 :: x) ++ 64 :: hostPortStr w port := by simp
      simp only [e, userSplit_at _ _ hret, hfin]
      simp [partition, orNone]
  | some u =>
    have ⟨hne, h58⟩ := hu u rfl
    have hemp : u.isEmpty = false := by cases u with
      | nil => exact absurd rfl hne
      | cons _ _ => rfl
    have hor : orNone u = some u := by simp [orNone, hemp]
    cases pw with
    | none =>
      simp only [hemp, Bool.false_eq_true, if_false]
      rw [userSplit_at u _ hret]
      simp only [hfin, partition_notFound 58 u h58]
      simp [hor]
    | some x =>
      have e : (some u).getD [] ++ 58 :: x ++ 64 :: hostPortStr w port
          = (u ++ 58 :: x) ++ 64 :: hostPortStr w port := by simp
      simp only [e, userSplit_at _ _ hret, hfin, partition_found 58 u x h58]
      simp [hor]

theorem makeNetloc_ne_nil_written (qf : Str → Str) (user pw : Option Str) {w : Str} (hne : w ≠ [])
    (port : Option Nat) : makeNetloc qf user pw (some w) port false ≠ [] := by
  have hr := NetlocLemmas.hostPortStr_ne_nil hne port
  rw [NetlocLemmas.makeNetloc_eq]
  cases user with
  | none => cases pw <;> simp [hr]
  | some u =>
    cases pw with
    | none => simp only; split <;> simp [hr]
    | some x => simp

/-! ### the encoded host -/

open StrTotal (rebracket zonePart) in
/-- under the guard, the re-bracketed result of `_encode_host` is a written host text from which
    `split_netloc` reads back exactly what `encode_url` caches as `raw_host` -/
theorem host_reads (o : Oracles) (n : Str) (np : NetlocParts) (h0 h1 : Str)
    (hn : splitNetloc o n = .ok np) (hh : np.host = some h0) (hg : GoodHost o h0)
    (he : encodeHost o h0 false = .ok h1) :
    ∃ rh, rh ≠ [] ∧ Reads (rebracket (mem 91 (rpartition 64 n).2.2) h1) rh := by
  obtain ⟨hne, h64, hB, hnB⟩ := StrTotal.splitNetloc_host_facts o n np h0 hn hh
  -- the IPv6 case: bracketed canonical text, zone kept; made from `t`, the host or (fix 3fbf5b4) its IDNA answer
  have keyT : ∀ (t : Str) h8, (∀ c, (c = 58 ∨ c = 64 ∨ c = 93) → c ∈ t → c ∈ h0) →
      parseIP (partition 37 t).1 = some (.v6 h8) →
      h1 = [91] ++ (ipv6ToStr h8 ++ zonePart t) ++ [93] →
      ∃ rh, rh ≠ [] ∧ Reads (rebracket (mem 91 (rpartition 64 n).2.2) h1) rh := by
    intro t h8 ht hv6 hr
    obtain ⟨hc, hc0, hsub⟩ := StrTotal.v6_body_facts t h8 hv6
    have hc0' : 58 ∈ h0 := ht 58 (by simp) hc0
    have hBt : mem 91 (rpartition 64 n).2.2 = true := by
      cases hb : mem 91 (rpartition 64 n).2.2 with
      | true => rfl
      | false => exact absurd hc0' (hnB hb).1
    have hm : mem 91 h1 = true := mem_iff.mpr (by rw [hr]; simp)
    have : rebracket (mem 91 (rpartition 64 n).2.2) h1 = h1 := by simp [rebracket, hm]
    rw [this, hr]
    refine ⟨ipv6ToStr h8 ++ zonePart t, ?_, reads_bracketed _ (fun hm => h64 (ht 64 (by simp) (hsub 64 (by simp) hm)))
      (fun hm => hB hBt (ht 93 (by simp) (hsub 93 (by simp) hm)))⟩
    intro hnil; rw [hnil] at hc; cases hc
  have key : ∀ h8, parseIP (partition 37 h0).1 = some (.v6 h8) →
      h1 = [91] ++ (ipv6ToStr h8 ++ zonePart h0) ++ [93] →
      ∃ rh, rh ≠ [] ∧ Reads (rebracket (mem 91 (rpartition 64 n).2.2) h1) rh :=
    fun h8 hv6 hr => keyT h0 h8 (fun _ _ hm => hm) hv6 hr
  -- every other answer: non-empty, no new delimiter
  have main : 91 ∉ h0 → (∀ c, StrTotal.Delim c → c ∈ h1 → c ∈ h0) → h1 ≠ [] →
      ∃ rh, rh ≠ [] ∧ Reads (rebracket (mem 91 (rpartition 64 n).2.2) h1) rh := by
    intro h91 hd hne1
    have h64' : 64 ∉ h1 := fun hm => h64 (hd 64 (by simp [StrTotal.Delim]) hm)
    have h91' : 91 ∉ h1 := fun hm => h91 (hd 91 (by simp [StrTotal.Delim]) hm)
    have hm : mem 91 h1 = false := mem_false_iff.mpr h91'
    cases hb : mem 91 (rpartition 64 n).2.2 with
    | true =>
      have h93' : 93 ∉ h1 := fun hm => hB hb (hd 93 (by simp [StrTotal.Delim]) hm)
      have : rebracket true h1 = [91] ++ h1 ++ [93] := by simp [rebracket, hm]
      rw [this]
      exact ⟨h1, hne1, reads_bracketed h1 h64' h93'⟩
    | false =>
      have h58' : 58 ∉ h1 := fun hm => (hnB hb).1 (hd 58 (by simp [StrTotal.Delim]) hm)
      have : rebracket false h1 = h1 := by simp [rebracket]
      rw [this]
      exact ⟨h1, hne1, reads_plain h1 h58' h64' h91'⟩
  rcases hg with ⟨h91, hidna⟩ | ⟨h8, hv6⟩
  · rcases StrTotal.encodeHost_false_cases o h0 h1 he with ⟨h8, hv6, hr⟩ | ⟨hna, a, hi, _, hA⟩ | hrest
    · exact key h8 hv6 hr
    · obtain ⟨hane, hida⟩ := hidna hna a hi
      rcases hA with ⟨h8, hv6, hr⟩ | hA
      · exact keyT a h8 (fun c hc => hida c (by omega)) hv6 hr
      · refine main h91 (fun c hc hm => hida c hc
          (StrTotal.encodeHostA_false_char a h1 c (by unfold StrTotal.Delim at hc; omega) hA hm)) ?_
        rcases hA with h | ⟨_, h⟩
        · rw [h]; exact hane
        · rw [h]; exact lower_ne_nil hane
    · have hd := StrTotal.encodeHost_false_delims o h0 h1 (fun ha r hr => (hidna ha r hr).2) hrest
      have hne1 : h1 ≠ [] := by
        rcases hrest with h | ⟨_, h⟩ | ⟨ha, h⟩
        · rw [h]; exact hne
        · rw [h]; exact lower_ne_nil hne
        · exact (hidna ha h1 h).1
      exact main h91 hd hne1
  · obtain ⟨h4, h6⟩ := parseIP_v6 hv6
    obtain ⟨_, _, hr⟩ := C16_ipv6_bracketed o h0 false h8 h1 h4 h6 he
    apply key h8 hv6
    rw [hr]; unfold zonePart; simp

/-- "no host" is written as "" or, if the host part of the input was "[]", as "[]" -/
theorem nil_reads (b : Bool) : Reads (StrTotal.rebracket b []) [] := by
  cases b with
  | true =>
    have : StrTotal.rebracket true [] = [91] ++ [] ++ [93] := by simp [StrTotal.rebracket, mem]
    rw [this]
    exact reads_bracketed [] (by simp) (by simp)
  | false =>
    have : StrTotal.rebracket false [] = [] := by simp [StrTotal.rebracket]
    rw [this]
    exact reads_plain [] (by simp) (by simp) (by simp)

/-! ### REQUOTER output -/

theorem requoter_mem : Gen.REQUOTER ∈ Gen.allQuoters := by decide

theorem requoter_escapes : ∀ b : Backend, (Gen.REQUOTER.tab b).safe 58 = false ∧ (Gen.REQUOTER.tab b).safe 64 = false ∧
    (Gen.REQUOTER.tab b).qs = false := by
  intro b; cases b <;> decide

/-- REQUOTER escapes ':' and '@' -/
theorem requoter_no_delims (e : Env) (s : Str) (hs : PyStr s) :
    58 ∉ q e Gen.REQUOTER s ∧ 64 ∉ q e Gen.REQUOTER s := by
  obtain ⟨h58, h64, hqs⟩ := requoter_escapes e.b
  have hwf := gen_tab_wf _ requoter_mem e.b
  unfold q
  rw [QsLemmas.run_eq_cOut _ requoter_mem e.b s hs]
  have hall := outLang_allowed _ hwf (cOut_outLang _ hwf (stripSurr s) (QuoteEquiv.pyStr_stripSurr hs))
  constructor
  · intro hm
    rcases hall 58 hm with h | h | h | h
    · rw [h58] at h; cases h
    · exact absurd h (by decide)
    · exact absurd h (by decide)
    · rw [hqs] at h; cases h.1
  · intro hm
    rcases hall 64 hm with h | h | h | h
    · rw [h64] at h; cases h
    · exact absurd h (by decide)
    · exact absurd h (by decide)
    · rw [hqs] at h; cases h.1

theorem pct_ne_nil (b : Nat) : pct b ≠ [] := by simp [pct]

theorem cWriteOut_ne_nil (t : QTab) {c : Nat} (hc : c ≤ 0x10FFFF) (hn : isSurrogate c = false) :
    cWriteOut t c ≠ [] := by
  unfold cWriteOut
  split; · simp
  split; · simp
  unfold writeUtf8
  have := QuoteEquiv.utf8_ne_nil hc hn
  cases hu : utf8 c with
  | nil => rw [hu] at this; cases this
  | cons b bs => simp [pct]

theorem cEscOut_ne_nil (t : QTab) (v : Nat) : cEscOut t v ≠ [] := by
  unfold cEscOut
  split; · exact pct_ne_nil v
  split; · simp
  exact pct_ne_nil v

theorem cOut_cons_ne_nil (t : QTab) (c : Nat) (rest : Str) (hc : c ≤ 0x10FFFF) (hn : isSurrogate c = false) :
    cOut t (c :: rest) ≠ [] := by
  rw [cOut]
  split
  · split
    · intro h; exact cEscOut_ne_nil t _ (List.append_eq_nil_iff.mp h).1
    · intro h; exact cWriteOut_ne_nil t (by decide) (by decide) (List.append_eq_nil_iff.mp h).1
  · intro h; exact cWriteOut_ne_nil t hc hn (List.append_eq_nil_iff.mp h).1

/-- a string with at least one real (non-surrogate) character does not requote to "" -/
theorem requoter_ne_nil (e : Env) (s : Str) (hs : PyStr s) (hx : ∃ c ∈ s, isSurrogate c = false) :
    q e Gen.REQUOTER s ≠ [] := by
  unfold q
  rw [QsLemmas.run_eq_cOut _ requoter_mem e.b s hs]
  obtain ⟨c, hc, hn⟩ := hx
  have hm : c ∈ stripSurr s := by unfold stripSurr; simp [hc, hn]
  cases hss : stripSurr s with
  | nil => rw [hss] at hm; cases hm
  | cons d rest =>
    have hd : d ∈ stripSurr s := by rw [hss]; simp
    have hd' := List.mem_filter.mp hd
    exact cOut_cons_ne_nil _ d rest (hs d hd'.1) (by simpa using hd'.2)

end EagerLemmas

/-- `(REQUOTER(username) or None)`: the user `encode_url` caches (and writes into the stored netloc)
    since commit 2fdb38c — a user that requotes to "" is no user -/
def cachedUser (e : Env) (u : Option Str) : Option Str :=
  (requoteOpt e u).bind (fun s => if s.isEmpty then none else some s)

/-- the guard on the authority of the INPUT as `split_netloc` cuts it:
    * the user, if any, is a Python string (nothing else: since commit 2fdb38c a user that requotes to ""
      — one made of lone surrogates only — is cached as `None`, which is what the twin reads; the guard
      used to ask for `q e Gen.REQUOTER s ≠ []` here);
    * the host, if any, satisfies `GoodHost`;
    * with an EMPTY host there is a user THAT IS WRITTEN (it does not requote to ""), a password or a port
      (otherwise the stored netloc is "").  The old guard asked for the same thing in this case, since it
      asked every user not to requote to "". -/
def GoodNp (e : Env) (np : NetlocParts) : Prop :=
  (∀ s, np.user = some s → PyStr s) ∧
  (match np.host with
   | none => (∃ s, np.user = some s ∧ q e Gen.REQUOTER s ≠ []) ∨ np.password ≠ none ∨ np.port ≠ none
   | some h0 => GoodHost e.o h0)

/-- the guard as it was before commit 2fdb38c (kept: it implies the new one, see `goodNp_of_old`) -/
def GoodNpOld (e : Env) (np : NetlocParts) : Prop :=
  (∀ s, np.user = some s → PyStr s ∧ q e Gen.REQUOTER s ≠ []) ∧
  (match np.host with
   | none => np.user ≠ none ∨ np.password ≠ none ∨ np.port ≠ none
   | some h0 => GoodHost e.o h0)

theorem goodNp_of_old {e : Env} {np : NetlocParts} (h : GoodNpOld e np) : GoodNp e np := by
  obtain ⟨hu, hh⟩ := h
  refine ⟨fun s hs => (hu s hs).1, ?_⟩
  cases hnh : np.host with
  | some h0 => rw [hnh] at hh; exact hh
  | none =>
    rw [hnh] at hh
    rcases hh with h | h | h
    · cases hus : np.user with
      | none => exact absurd hus h
      | some x => exact Or.inl ⟨x, rfl, (hu x hus).2⟩
    · exact Or.inr (Or.inl h)
    · exact Or.inr (Or.inr h)

/-- the guard of `C09_eager_eq_lazy`, on the split authority of the input string -/
def GoodAuthority (e : Env) (s : Str) : Prop :=
  ∀ pt np, splitUrl e.o s = .ok pt → splitNetloc e.o pt.netloc = .ok np → GoodNp e np

namespace EagerLemmas
open NetlocLemmas (mem_iff mem_false_iff)

/-- the authority split of `encode_url` (the fast path for a netloc without ':' '@' '[') -/
def authSplit (o : Oracles) (netloc : Str) : R NetlocParts :=
  if mem 58 netloc || mem 64 netloc || mem 91 netloc then splitNetloc o netloc
  else pure { user := none, password := none, host := some netloc, port := none }

def hostOr (scheme : Str) (h : Option Str) : R Str :=
  match h with
  | some h => pure h
  | none => if Gen.schemeRequiresHost.contains scheme then .error .valueError else pure []

/-- stored netloc and pre-filled cache, from the split input authority and the encoded host -/
def eagerOut (e : Env) (np : NetlocParts) (host : Str) : R (Str × Option NetPre) :=
  let rawHost := if mem 91 host then (host.drop 1).dropLast else host
  if np.password.isNone && np.user.isNone then
    let netloc := match np.port with
      | none => host
      | some pt => host ++ [58] ++ natToStr pt
    pure (netloc, some { rawHost := some rawHost, explicitPort := np.port, rawUser := none, rawPassword := none })
  else
    let ru := (requoteOpt e np.user).bind (fun s => if s.isEmpty then none else some s)
    let rp := requoteOpt e np.password
    let netloc := makeNetloc (q e Gen.QUOTER) ru rp (some host) np.port false
    pure (netloc, some { rawHost := some rawHost, explicitPort := np.port, rawUser := ru, rawPassword := rp })

def authBlock (e : Env) (p : Parts) : R (Str × Option NetPre) :=
  if p.netloc.isEmpty then pure (([] : Str), (none : Option NetPre))
  else do
    let np ← authSplit e.o p.netloc
    let host0 ← hostOr p.scheme np.host
    let host1 ← encodeHost e.o host0 false
    -- a bracketed host that is not an IPv6 address keeps the brackets the input had
    eagerOut e np (if mem 91 (rpartition 64 p.netloc).2.2 && !mem 91 host1 then [91] ++ host1 ++ [93] else host1)

def finishUrl (e : Env) (p : Parts) (netloc : Str) (pre : Option NetPre) : Url :=
  let path :=
    if p.path.isEmpty then p.path
    else
      let p1 := q e Gen.PATH_REQUOTER p.path
      if !netloc.isEmpty && mem 46 p1 then normalizePath p1 else p1
  let query := if p.query.isEmpty then p.query else q e Gen.QUERY_REQUOTER p.query
  let fragment := if p.fragment.isEmpty then p.fragment else q e Gen.FRAGMENT_REQUOTER p.fragment
  { scheme := p.scheme, netloc := netloc, path := path, query := query, fragment := fragment, pre := pre }

theorem encodeUrl_eq (e : Env) (s : Str) :
    encodeUrl e s = (splitUrl e.o s >>= fun p => authBlock e p >>= fun np => pure (finishUrl e p np.1 np.2)) := by
  rfl

/-! ### what `split_netloc` returns -/

theorem netlocRest_host (o : Oracles) (u pw : Option Str) (hn ps : Str) :
    AllOk (fun r => r.host = orNone hn) (ParseLemmas.netlocRest o u pw hn ps) := by
  unfold ParseLemmas.netlocRest
  dsimp only
  allok

theorem orNone_some {x h : Str} (hx : orNone x = some h) : h = x ∧ h ≠ [] := by
  unfold orNone at hx
  split at hx
  · cases hx
  · rename_i hne
    cases hx
    exact ⟨rfl, by intro h0; subst h0; simp at hne⟩

/-- `split_netloc` never returns an empty user or an empty host, and the host has no '@' -/
theorem splitNetloc_shape (o : Oracles) (n : Str) (np : NetlocParts) (h : splitNetloc o n = .ok np) :
    np.user ≠ some [] ∧ (∀ h0, np.host = some h0 → h0 ≠ [] ∧ 64 ∉ h0) := by
  rw [ParseLemmas.splitNetloc_eq] at h
  have h1 := (ParseLemmas.netlocRest_shape _ _ _ _ _ _ h).1
  have h2 := (netlocRest_host _ _ _ _ _).h _ h
  constructor
  · rw [h1]
    cases (ParseLemmas.userTriple n).1 with
    | none => simp
    | some x =>
      simp only [Option.bind]
      intro hx
      exact (orNone_some hx).2 rfl
  · intro h0 hh
    rw [h2] at hh
    obtain ⟨he, hne⟩ := orNone_some hh
    refine ⟨hne, ?_⟩
    subst he
    have hi : 64 ∉ (ParseLemmas.userTriple n).2.2 := by
      unfold ParseLemmas.userTriple
      split
      · rename_i hm; simpa [ParseLemmas.mem_eq] using hm
      · rename_i hm
        have : 64 ∈ n := by simpa [ParseLemmas.mem_eq] using hm
        exact (ParseLemmas.rpartition_mem this).2
    intro hm
    apply hi
    unfold ParseLemmas.hostPort at hm
    split at hm
    · exact partition_snd_sub 91 _ 64 (HostLemmas.partition_fst_sub 93 _ 64 hm)
    · exact HostLemmas.partition_fst_sub 58 _ 64 hm

theorem splitNetloc_simple (o : Oracles) (n : Str) (hne : n ≠ []) (h58 : 58 ∉ n) (h64 : 64 ∉ n) (h91 : 91 ∉ n) :
    splitNetloc o n = .ok { user := none, password := none, host := some n, port := none } := by
  rw [NetlocLemmas.splitNetloc_eq, NetlocLemmas.userSplit_noAt n h64]
  unfold NetlocLemmas.finish NetlocLemmas.hostPort
  simp [mem_false_iff.mpr h91, NetlocLemmas.partition_notFound 58 n h58, orNone, isEmpty_false hne, pure,
    Except.pure]

theorem authSplit_eq (o : Oracles) (n : Str) (hne : n ≠ []) : authSplit o n = splitNetloc o n := by
  unfold authSplit
  split
  · rfl
  · rename_i hc
    simp only [Bool.or_eq_true, not_or, Bool.not_eq_true] at hc
    rw [splitNetloc_simple o n hne (mem_false_iff.mp hc.1.1) (mem_false_iff.mp hc.1.2) (mem_false_iff.mp hc.2)]
    rfl

/-! ### the eager data against the stored netloc -/

/-- both branches of the cache fill, uniformly -/
theorem eagerOut_eq (e : Env) (np : NetlocParts) (host : Str) :
    eagerOut e np host = .ok
      (makeNetloc (q e Gen.QUOTER) (cachedUser e np.user) (requoteOpt e np.password) (some host) np.port false,
       some { rawHost := some (unbracket host), explicitPort := np.port,
              rawUser := cachedUser e np.user, rawPassword := requoteOpt e np.password }) := by
  unfold eagerOut unbracket
  dsimp only
  split
  · rename_i hc
    have h1 : np.password = none := by
      cases h : np.password with
      | none => rfl
      | some x => rw [h] at hc; simp at hc
    have h2 : np.user = none := by
      cases h : np.user with
      | none => rfl
      | some x => rw [h] at hc; simp at hc
    rw [h1, h2]
    cases np.port <;> rfl
  · rfl

theorem userOK_requote (e : Env) (u : Option Str) (hne : u ≠ some [])
    (hu : ∀ s, u = some s → PyStr s ∧ q e Gen.REQUOTER s ≠ []) : UserOK (requoteOpt e u) := by
  intro t ht
  cases u with
  | none => cases ht
  | some s =>
    have hs : s.isEmpty = false := isEmpty_false (fun h => hne (by rw [h]))
    simp only [requoteOpt, Option.map_some, hs, Bool.false_eq_true, ↓reduceIte, Option.some.injEq] at ht
    subst ht
    exact ⟨(hu s rfl).2, (requoter_no_delims e s (hu s rfl).1).1⟩

/-- what the filter keeps -/
theorem cachedUser_some {e : Env} {u : Option Str} {t : Str} :
    cachedUser e u = some t ↔ ∃ s, u = some s ∧ s ≠ [] ∧ t = q e Gen.REQUOTER s ∧ t ≠ [] := by
  unfold cachedUser requoteOpt
  cases u with
  | none => simp
  | some s =>
    cases s with
    | nil => simp
    | cons c r =>
      simp only [Option.map_some, List.isEmpty_cons, Bool.false_eq_true, ↓reduceIte, Option.bind_some,
        Option.some.injEq, ne_eq, reduceCtorEq, not_false_eq_true, true_and, exists_eq_left']
      cases hq : q e Gen.REQUOTER (c :: r) with
      | nil =>
        simp only [List.isEmpty_nil, ↓reduceIte, reduceCtorEq, false_iff, not_and, Decidable.not_not]
        intro h; exact h
      | cons d r' =>
        simp only [List.isEmpty_cons, Bool.false_eq_true, ↓reduceIte, Option.some.injEq]
        constructor
        · intro h; subst h; exact ⟨rfl, by simp⟩
        · intro h; exact h.1.symm

theorem cachedUser_none {e : Env} {u : Option Str} :
    cachedUser e u = none ↔ u = none ∨ u = some [] ∨ ∃ s, u = some s ∧ q e Gen.REQUOTER s = [] := by
  unfold cachedUser requoteOpt
  cases u with
  | none => simp
  | some s =>
    cases s with
    | nil => simp
    | cons c r =>
      cases hq : q e Gen.REQUOTER (c :: r) <;> simp [hq]

/-- the cached user is never "" -/
theorem cachedUser_ne_nil (e : Env) (u : Option Str) : cachedUser e u ≠ some [] := by
  intro h
  obtain ⟨_, _, _, _, h'⟩ := cachedUser_some.mp h
  exact h' rfl

/-- where the requoted user is not "", the filter changes nothing -/
theorem cachedUser_eq_requoteOpt (e : Env) (u : Option Str) (hne : u ≠ some [])
    (hu : ∀ s, u = some s → q e Gen.REQUOTER s ≠ []) : cachedUser e u = requoteOpt e u := by
  unfold cachedUser requoteOpt
  cases u with
  | none => rfl
  | some s =>
    cases s with
    | nil => exact absurd rfl hne
    | cons c r =>
      have := hu _ rfl
      cases hq : q e Gen.REQUOTER (c :: r) with
      | nil => exact absurd hq this
      | cons d r' => simp [hq]

/-- the cached user can always be written into a netloc and read back — no condition on the user
    beyond being a Python string (the filter of commit 2fdb38c takes care of "") -/
theorem userOK_cached (e : Env) (u : Option Str) (hu : ∀ s, u = some s → PyStr s) : UserOK (cachedUser e u) := by
  intro t ht
  obtain ⟨s, hs, _, rfl, hne⟩ := cachedUser_some.mp ht
  exact ⟨hne, (requoter_no_delims e s (hu s hs)).1⟩

theorem lazyNet_of_split (e : Env) (u : Url) (p : NetPre) (hopt : Option Str)
    (hh : p.rawHost = match hopt with
      | none => if u.netloc.isEmpty then none else some []
      | some h => some h)
    (hs : splitNetloc e.o u.netloc =
      .ok { user := p.rawUser, password := p.rawPassword, host := hopt, port := p.explicitPort }) :
    lazyNet e u = .ok p := by
  unfold lazyNet
  rw [hs]
  simp only [bind, Except.bind, pure, Except.pure]
  obtain ⟨rh, ep, ru, rp⟩ := p
  simp only at hh
  subst hh
  cases hopt <;> rfl

theorem encodeHost_nil (o : Oracles) : encodeHost o [] false = .ok [] := rfl

theorem makeNetloc_nil_host_ne_nil (qf : Str → Str) (ru rp : Option Str) (port : Option Nat) (hu : UserOK ru)
    (h : ru ≠ none ∨ rp ≠ none ∨ port ≠ none) : makeNetloc qf ru rp (some []) port false ≠ [] := by
  rw [NetlocLemmas.makeNetloc_eq]
  cases rp with
  | some pw => cases ru <;> simp
  | none =>
    cases ru with
    | some u =>
      have := (hu u rfl).1
      simp [isEmpty_false this]
    | none =>
      cases port with
      | none => simp at h
      | some pt => simp [NetlocLemmas.hostPortStr]

/-- MAIN at the netloc level: what `encode_url` caches is what `split_netloc` reads from the stored netloc -/
theorem authBlock_lazy (e : Env) (pt : Parts) (netloc : Str) (p : NetPre)
    (hb : authBlock e pt = .ok (netloc, some p))
    (hg : ∀ np, splitNetloc e.o pt.netloc = .ok np → GoodNp e np)
    (u : Url) (hu : u.netloc = netloc) : lazyNet e u = .ok p := by
  unfold authBlock at hb
  split at hb
  · cases hb
  rename_i hne
  have hne' : pt.netloc ≠ [] := by intro h; rw [h] at hne; exact hne rfl
  cases hsp : authSplit e.o pt.netloc with
  | error err => simp only [hsp, bind, Except.bind] at hb; cases hb
  | ok np =>
    simp only [hsp, bind, Except.bind] at hb
    rw [authSplit_eq _ _ hne'] at hsp
    obtain ⟨hgu, hgh⟩ := hg np hsp
    obtain ⟨hune, hhost⟩ := splitNetloc_shape _ _ _ hsp
    have hport := fun p => NetlocLemmas.splitNetloc_port_range e.o _ np p hsp
    have hUser : UserOK (cachedUser e np.user) := userOK_cached e np.user hgu
    cases hho : hostOr pt.scheme np.host with
    | error err => simp only [hho] at hb; cases hb
    | ok host0 =>
      simp only [hho] at hb
      cases henc : encodeHost e.o host0 false with
      | error err => simp only [henc] at hb; cases hb
      | ok host1 =>
        simp only [henc] at hb
        change eagerOut e np (StrTotal.rebracket (mem 91 (rpartition 64 pt.netloc).2.2) host1) = _ at hb
        simp only [eagerOut_eq, Except.ok.injEq, Prod.mk.injEq, Option.some.injEq] at hb
        obtain ⟨hnl, hp⟩ := hb
        subst hp
        -- the written host text reads back as the cached raw host
        have hreads : ∃ rh, Reads (StrTotal.rebracket (mem 91 (rpartition 64 pt.netloc).2.2) host1) rh ∧
            (rh = [] → netloc ≠ []) := by
          cases hnh : np.host with
          | some h0 =>
            rw [hnh] at hgh hho
            simp only [hostOr, pure, Except.pure, Except.ok.injEq] at hho
            subst hho
            obtain ⟨rh, hrne, hr⟩ := host_reads e.o pt.netloc np h0 host1 hsp hnh hgh henc
            exact ⟨rh, hr, fun h => absurd h hrne⟩
          | none =>
            rw [hnh] at hgh hho
            have h0 : host0 = [] := by
              simp only [hostOr] at hho
              split at hho
              · cases hho
              · cases hho; rfl
            subst h0
            rw [encodeHost_nil] at henc
            cases henc
            refine ⟨[], nil_reads _, fun _ => ?_⟩
            rw [← hnl]
            cases hbk : mem 91 (rpartition 64 pt.netloc).2.2 with
            | true =>
              apply makeNetloc_ne_nil_written
              simp [StrTotal.rebracket, mem]
            | false =>
              have : StrTotal.rebracket false [] = [] := by simp [StrTotal.rebracket]
              rw [this]
              apply makeNetloc_nil_host_ne_nil _ _ _ _ hUser
              rcases hgh with ⟨x, hx, hq⟩ | h | h
              · left
                have hxne : x ≠ [] := fun h0 => hune (by rw [hx, h0])
                have : cachedUser e np.user = some (q e Gen.REQUOTER x) :=
                  cachedUser_some.mpr ⟨x, hx, hxne, rfl, hq⟩
                rw [this]; simp
              · right; left; cases hh : np.password with
                | none => exact absurd hh h
                | some x => simp [requoteOpt]
              · right; right; exact h
        obtain ⟨rh, hr, hnn⟩ := hreads
        apply lazyNet_of_split e u _ (orNone rh)
        · simp only [hr.unbr]
          cases rh with
          | nil => simp [orNone, hu, isEmpty_false (hnn rfl)]
          | cons _ _ => rfl
        · rw [hu, ← hnl]
          exact roundtrip_reads e.o _ _ _ _ rh np.port hUser hr (fun p hp => hport p hp)
end EagerLemmas
end Yarl
