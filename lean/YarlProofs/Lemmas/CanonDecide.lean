/-
  CanonDecide.lean — Boolean checkers for the authority clause of "already canonical" (property C04, GAPS 2 of
  C04Headline.lean), with their soundness lemmas.  Used by YarlProofs/C04Decide.lean (`canonicalB`).

  `hostKindB h`     — "lower-case ASCII host of a supported kind", unbracketed text: a non-empty text of `hostChar`s
                      (visible ASCII, no upper-case letter, none of `/ ? # : @ [ ]`: reg-names, IPv4 literals), or the
                      compressed lower-case text of an IPv6 address (`ipv6ToStr (parseIPv6 a) = a`) optionally followed
                      by `%zone` (`textChar`s).  Sound for `HostFix o h`, every oracle `o`.
  `userInfoB`       — user non-empty and REQUOTER-canonical, password REQUOTER-canonical (`UserInfoOK`).
  `portB`           — port ≤ 65535 and not the scheme's default (`PortOK`).
  `netlocB scheme a`— the authority text `a` is empty, or reads (with the model's `split_netloc`, no oracle) as
                      `[user[:password]@]host[:port]` AND IS LITERALLY the text `authText user pw host port`
                      (resp. `authTextB …` for a bracketed non-IPv6 host, `bracketTextB`) of these pieces — so a port
                      with leading zeros, an empty user "@h", a superfluous ':' … are all rejected.
                      Sound for `CanonNetlocB e scheme a`, every `e`.
-/
import YarlModel
import YarlProofs.C04Bracket
set_option linter.unusedVariables false
set_option linter.unusedSimpArgs false
namespace Yarl
namespace R8
open FixLemmas NetShape HostLemmas NetlocLemmas BrHost ParseLemmas

/-- compressed lower-case IPv6 text (what `ipaddress` prints for the address it reads from the text), optionally
    followed by `%zone` (visible ASCII, none of `/ ? # @ [ ]`) -/
def v6B (h : Str) : Bool :=
  match parseIPv6 (partition 37 h).1 with
  | some h8 => decide (h8.length = 8) && h8.all (fun x => decide (x < 65536)) &&
      decide (ipv6ToStr h8 = (partition 37 h).1) && (partition 37 h).2.2.all textChar
  | none => false

/-- a host text of a supported kind, as it stands between '@' and ':port' without brackets: lower-case reg-name /
    IPv4 text (`hostChar`: visible ASCII, no upper-case letter, none of `/ ? # : @ [ ]`), or `v6B` -/
def hostKindB (h : Str) : Bool := (!h.isEmpty && h.all hostChar) || v6B h

theorem v6B_sound (o : Oracles) {h : Str} (hb : v6B h = true) : HostFix o h := by
  unfold v6B at hb
  split at hb
  · rename_i h8 hp
    simp only [Bool.and_eq_true, decide_eq_true_eq, List.all_eq_true] at hb
    obtain ⟨⟨⟨hl, hx⟩, hs⟩, hz⟩ := hb
    have hj := EagerLemmas.partition_join 37 h
    by_cases hsep : (partition 37 h).2.1 = true
    · rw [hsep, if_pos rfl, ← hs] at hj
      rw [hj]
      exact C03_hostFix_ipv6_zone o h8 hl hx _ hz
    · simp only [Bool.not_eq_true] at hsep
      rw [hsep] at hj
      simp only [Bool.false_eq_true, if_false, List.append_nil] at hj
      rw [hj, ← hs]
      exact hostFix_ipv6 o h8 hl hx
  · cases hb

theorem hostKindB_sound (o : Oracles) {h : Str} (hb : hostKindB h = true) : HostFix o h := by
  unfold hostKindB at hb
  rcases Bool.or_eq_true_iff.mp hb with hb | hb
  · simp only [Bool.and_eq_true, Bool.not_eq_true', List.isEmpty_eq_false_iff, List.all_eq_true] at hb
    exact C03_hostFix_lower o hb.1 hb.2
  · exact v6B_sound o hb

/-- `UserInfoOK` as a Boolean: the user (when present) non-empty, user and password canonical text of the REQUOTER
    (no literal ':' '@' '/' '?' '#' '[' ']', upper-case escapes of exactly the characters that must be escaped) -/
def userInfoB (user pw : Option Str) : Bool :=
  (match user with
   | none => true
   | some s => !s.isEmpty && isCanon (Gen.REQUOTER.tab .c) s) &&
  (match pw with
   | none => true
   | some s => isCanon (Gen.REQUOTER.tab .c) s)

theorem userInfoB_sound (b : Backend) {user pw : Option Str} (h : userInfoB user pw = true) : UserInfoOK b user pw := by
  unfold userInfoB at h
  rw [Bool.and_eq_true] at h
  obtain ⟨h1, h2⟩ := h
  constructor
  · intro s hs
    subst hs
    simp only [Bool.and_eq_true, Bool.not_eq_true', List.isEmpty_eq_false_iff] at h1
    rw [tab_eq_c _ rq_mem b]
    exact ⟨h1.1, isCanon_sound _ _ h1.2⟩
  · intro s hs
    subst hs
    rw [tab_eq_c _ rq_mem b]
    exact isCanon_sound _ _ h2

/-- `PortOK` as a Boolean: at most 65535 and not the scheme's default port -/
def portB (scheme : Str) (port : Option Nat) : Bool :=
  match port with
  | none => true
  | some p => decide (p ≤ 65535) && decide (some p ≠ defaultPort scheme)

theorem portB_sound {scheme : Str} {port : Option Nat} (h : portB scheme port = true) : PortOK scheme port := by
  unfold portB at h
  constructor
  · intro p hp; subst hp
    simp only [Bool.and_eq_true, decide_eq_true_eq] at h
    exact h.1
  · intro p hp; subst hp
    simp only [Bool.and_eq_true, decide_eq_true_eq] at h
    exact h.2

/-- the authority clause: empty, or `[user[:password]@]host[:port]` — read with `split_netloc` (no oracle: a non-ASCII
    port makes it fail) and REQUIRED to be literally `authText user pw host port` (host of `hostKindB`; brackets exactly
    around a host with ':') or `authTextB user pw host port` (host of `bracketTextB`, always in brackets) -/
def netlocB (scheme a : Str) : Bool :=
  a.isEmpty ||
  (match splitNetloc Oracles.empty a with
   | .ok np =>
     match np.host with
     | some h => userInfoB np.user np.password && portB scheme np.port &&
        ((hostKindB h && decide (authText np.user np.password h np.port = a)) ||
         (bracketTextB h && decide (authTextB np.user np.password h np.port = a)))
     | none => false
   | .error _ => false)

theorem netlocB_sound (e : Env) {scheme a : Str} (h : netlocB scheme a = true) : CanonNetlocB e scheme a := by
  unfold netlocB at h
  rcases Bool.or_eq_true_iff.mp h with h | h
  · exact .plain (.empty (List.isEmpty_iff.mp h))
  · split at h
    · rename_i np _
      split at h
      · rename_i hh _
        simp only [Bool.and_eq_true, Bool.or_eq_true, decide_eq_true_eq] at h
        obtain ⟨⟨hu, hp⟩, hk | hk⟩ := h
        · exact .plain (.auth _ _ hh _ hk.2.symm (userInfoB_sound e.b hu) (hostKindB_sound e.o hk.1) (portB_sound hp))
        · exact .brk _ _ hh _ hk.2.symm (userInfoB_sound e.b hu)
            (C03_bracket_hostFixB e.o (bracketTextB_sound hk.1)) (portB_sound hp)
      · cases h
    · cases h

/-- a canonical authority passes the bracket check of `split_url` and is ASCII (no NFKC oracle is consulted) -/
theorem canonNetlocB_parse (e : Env) {scheme a : Str} (h : CanonNetlocB e scheme a) :
    checkBrackets a = .ok () ∧ isAscii a = true := by
  have asc : ∀ {x : Str}, (∀ c ∈ x, 33 ≤ c ∧ c < 128 ∧ Rfc.isDelim3 c = false) → isAscii x = true := by
    intro x hx
    unfold isAscii
    rw [List.all_eq_true]
    intro c hc
    simpa using (hx c hc).2.1
  cases h with
  | plain h =>
    cases h with
    | empty hn => subst hn; exact ⟨rfl, rfl⟩
    | auth user pw host port hn hu hh hp =>
      subst hn
      exact ⟨checkBrackets_authText port hu hh, asc (authText_chars hu hh)⟩
  | brk user pw t port hn hu hh hp =>
    subst hn
    exact ⟨checkBrackets_authTextB port hu hh, asc (authTextB_chars hu hh)⟩

end R8
end Yarl
