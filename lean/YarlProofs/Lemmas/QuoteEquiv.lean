/-
  QuoteEquiv.lean — the compiled quoter and the pure-Python quoter compute the
  same function.
-/
import YarlProofs.Defs
import YarlProofs.Lemmas.Hex
namespace Yarl

namespace QuoteEquiv
open Yarl.Hex

/-! ### UTF-8 facts -/

theorem utf8_ascii {c : Nat} (h : c < 128) : utf8 c = [c] := by
  simp [utf8, h]

theorem utf8_high {c : Nat} (h : 128 ≤ c) : ∀ b ∈ utf8 c, 128 ≤ b := by
  intro b hb
  unfold utf8 at hb
  repeat' split at hb
  all_goals simp at hb
  all_goals omega

theorem utf8_length {c : Nat} (h : 128 ≤ c) (hp : c ≤ 0x10FFFF) (hs : isSurrogate c = false) :
    2 ≤ (utf8 c).length := by
  unfold utf8
  simp only [hs, Bool.false_eq_true, if_false]
  repeat' split
  all_goals simp
  all_goals omega

theorem utf8_ne_nil {c : Nat} (hp : c ≤ 0x10FFFF) (hs : isSurrogate c = false) :
    (utf8 c).isEmpty = false := by
  unfold utf8
  simp only [hs, Bool.false_eq_true, if_false]
  repeat' split
  all_goals simp
  all_goals omega

theorem utf8_surrogate {c : Nat} (hs : isSurrogate c = true) : utf8 c = [] := by
  have : 0xD800 ≤ c := by
    unfold isSurrogate at hs; simp at hs; omega
  unfold utf8
  simp only [hs, if_true]
  repeat' split
  all_goals first | rfl | omega

theorem utf8s_cons (c : Nat) (s : Str) : utf8s (c :: s) = utf8 c ++ utf8s s := by
  simp [utf8s]


/-! ### one-step unfolding lemmas -/

theorem cOut_esc (t : QTab) {rest rest' : Str} {v d1 d2 : Nat} (hr : t.requote = true)
    (h : takeEscape restoreCh rest = some (v, d1, d2, rest')) :
    cOut t (37 :: rest) = cEscOut t v ++ cOut t rest' := by
  rw [cOut]
  simp only [hr, and_self, if_true]
  split
  · rename_i h'
    rw [h] at h'
    cases h'
    rfl
  · rename_i h'
    rw [h] at h'
    cases h'

theorem cOut_noesc (t : QTab) {rest : Str} (hr : t.requote = true)
    (h : takeEscape restoreCh rest = none) :
    cOut t (37 :: rest) = cWriteOut t 37 ++ cOut t rest := by
  rw [cOut]
  simp only [hr, and_self, if_true]
  split
  · rename_i h'
    rw [h] at h'
    cases h'
  · rfl

theorem cOut_plain (t : QTab) {c : Nat} {rest : Str} (hc : ¬(c = 37 ∧ t.requote = true)) :
    cOut t (c :: rest) = cWriteOut t c ++ cOut t rest := by
  rw [cOut]
  simp only [hc, if_false]

theorem cChanged_esc (t : QTab) {rest rest' : Str} {v d1 d2 : Nat} (hr : t.requote = true)
    (h : takeEscape restoreCh rest = some (v, d1, d2, rest')) :
    cChanged t (37 :: rest) = (cEscChanged t v d1 d2 || cChanged t rest') := by
  rw [cChanged]
  simp only [hr, and_self, if_true]
  split
  · rename_i h'
    rw [h] at h'
    cases h'
    rfl
  · rename_i h'
    rw [h] at h'
    cases h'

theorem cChanged_noesc (t : QTab) {rest : Str} (hr : t.requote = true)
    (h : takeEscape restoreCh rest = none) :
    cChanged t (37 :: rest) = (cWriteChanged t 37 || cChanged t rest) := by
  rw [cChanged]
  simp only [hr, and_self, if_true]
  split
  · rename_i h'
    rw [h] at h'
    cases h'
  · rfl

theorem cChanged_plain (t : QTab) {c : Nat} {rest : Str} (hc : ¬(c = 37 ∧ t.requote = true)) :
    cChanged t (c :: rest) = (cWriteChanged t c || cChanged t rest) := by
  rw [cChanged]
  simp only [hc, if_false]

theorem pyLoop_esc (t : QTab) {rest rest' : List Nat} {v d1 d2 : Nat} (hr : t.requote = true)
    (h : takeEscape restorePy rest = some (v, d1, d2, rest')) :
    pyLoop t (37 :: rest) = emitEsc t v ++ pyLoop t rest' := by
  rw [pyLoop]
  simp only [hr, and_self, if_true]
  split
  · rename_i h'
    rw [h] at h'
    cases h'
    rfl
  · rename_i h'
    rw [h] at h'
    cases h'

theorem pyLoop_noesc (t : QTab) {rest : List Nat} (hr : t.requote = true)
    (h : takeEscape restorePy rest = none) :
    pyLoop t (37 :: rest) = pct 37 ++ pyLoop t rest := by
  rw [pyLoop]
  simp only [hr, and_self, if_true]
  split
  · rename_i h'
    rw [h] at h'
    cases h'
  · rfl

theorem pyLoop_plain (t : QTab) {b : Nat} {rest : List Nat} (hc : ¬(b = 37 ∧ t.requote = true)) :
    pyLoop t (b :: rest) =
      if t.qs = true ∧ b = 32 then 43 :: pyLoop t rest
      else if t.safe b then b :: pyLoop t rest
      else pct b ++ pyLoop t rest := by
  rw [pyLoop]
  simp only [hc, if_false]


theorem pyStr_tail {c : Nat} {s : Str} (h : PyStr (c :: s)) : PyStr s :=
  fun x hx => h x (List.mem_cons_of_mem _ hx)
theorem noSurr_tail {c : Nat} {s : Str} (h : NoSurrogate (c :: s)) : NoSurrogate s :=
  fun x hx => h x (List.mem_cons_of_mem _ hx)
theorem pyStr_tail2 {a b : Nat} {s : Str} (h : PyStr (a :: b :: s)) : PyStr s :=
  pyStr_tail (pyStr_tail h)
theorem noSurr_tail2 {a b : Nat} {s : Str} (h : NoSurrogate (a :: b :: s)) : NoSurrogate s :=
  noSurr_tail (noSurr_tail h)

end QuoteEquiv

/-- the `changed` flag is sound: when it stays unset the written text is the input -/
theorem cOut_eq_of_not_changed (t : QTab) (h : t.WF) (s : Str) (hs : PyStr s) (hn : NoSurrogate s) :
    cChanged t s = false → cOut t s = s := by
  fun_induction cOut t s with
  | case1 => intro _; rfl
  | case2 c rest hc v d1 d2 rest' he ih =>
    obtain ⟨rfl, hr⟩ := hc
    obtain ⟨rfl, hv⟩ := takeEscape_eq he
    intro hch
    rw [QuoteEquiv.cChanged_esc t hr he, Bool.or_eq_false_iff] at hch
    obtain ⟨h1, h2⟩ := hch
    rw [ih (QuoteEquiv.pyStr_tail2 (QuoteEquiv.pyStr_tail hs))
      (QuoteEquiv.noSurr_tail2 (QuoteEquiv.noSurr_tail hn)) h2]
    unfold cEscChanged at h1
    unfold cEscOut
    split at h1
    · cases h1
    · split at h1
      · cases h1
      · rename_i hp hsf
        rw [Bool.or_eq_false_iff] at h1
        simp only [hp, hsf, if_false]
        rw [Hex.pct_of_restoreCh hv h1.1 h1.2]
        rfl
  | case3 c rest hc he ih =>
    obtain ⟨rfl, hr⟩ := hc
    intro hch
    rw [QuoteEquiv.cChanged_noesc t hr he, Bool.or_eq_false_iff] at hch
    have : cWriteChanged t 37 = true := by
      simp [cWriteChanged, h.pct_unsafe, utf8]
    rw [this] at hch
    cases hch.1
  | case4 c rest hc ih =>
    intro hch
    rw [QuoteEquiv.cChanged_plain t hc, Bool.or_eq_false_iff] at hch
    obtain ⟨h1, h2⟩ := hch
    rw [ih (QuoteEquiv.pyStr_tail hs) (QuoteEquiv.noSurr_tail hn) h2]
    unfold cWriteChanged at h1
    unfold cWriteOut
    split at h1
    · cases h1
    · rename_i hq
      simp only [hq, if_false]
      split at h1
      · rename_i hsafe
        simp only [hsafe, and_self, if_true]
        rfl
      · rw [QuoteEquiv.utf8_ne_nil (hs c (List.mem_cons_self ..)) (hn c (List.mem_cons_self ..))] at h1
        cases h1

/-- the fast path is sound.  The hypothesis `hsp` (a query-string table has no literal-safe
    space) is necessary: with `qs = true` and `safe 32 = true`, `allSafe t [32] = true` but
    `cOut t [32] = [43]`. -/
theorem allSafe_cOut (t : QTab) (h : t.WF) (hsp : t.qs = true → t.safe 32 = false) (s : Str) :
    allSafe t s = true → cOut t s = s := by
  induction s with
  | nil => intro _; rw [cOut]
  | cons c rest ih =>
    intro ha
    simp only [allSafe, List.all_cons, Bool.and_eq_true, decide_eq_true_eq] at ha
    obtain ⟨⟨hc, hsafe⟩, hrest⟩ := ha
    have hne : ¬(c = 37 ∧ t.requote = true) := by
      rintro ⟨rfl, _⟩
      rw [h.pct_unsafe] at hsafe
      cases hsafe
    rw [QuoteEquiv.cOut_plain t hne, ih (by simpa [allSafe] using hrest)]
    have hq : ¬(t.qs = true ∧ c = 32) := by
      rintro ⟨hq, rfl⟩
      rw [hsp hq] at hsafe
      cases hsafe
    simp only [cWriteOut, hq, if_false, hc, hsafe, and_self, if_true]
    rfl

namespace QuoteEquiv

theorem pyStr_stripSurr {s : Str} (hs : PyStr s) : PyStr (stripSurr s) :=
  fun c hc => hs c (List.mem_filter.mp hc).1

theorem noSurr_stripSurr (s : Str) : NoSurrogate (stripSurr s) := by
  intro c hc
  have := (List.mem_filter.mp hc).2
  simpa using this

end QuoteEquiv

/-- so the compiled quoter is `cOut` after dropping lone surrogates -/
theorem quoteC_eq_cOut (t : QTab) (h : t.WF) (hsp : t.qs = true → t.safe 32 = false) (s : Str)
    (hs : PyStr s) : quoteC t s = cOut t (stripSurr s) := by
  simp only [quoteC]
  split
  · rename_i ha
    exact (allSafe_cOut t h hsp _ ha).symm
  · split
    · rfl
    · rename_i hc
      exact (cOut_eq_of_not_changed t h _ (QuoteEquiv.pyStr_stripSurr hs)
        (QuoteEquiv.noSurr_stripSurr s) (by simpa using hc)).symm

theorem utf8s_stripSurr (s : Str) : utf8s (stripSurr s) = utf8s s := by
  induction s with
  | nil => rfl
  | cons c rest ih =>
    rw [QuoteEquiv.utf8s_cons, stripSurr, List.filter_cons]
    cases hc : isSurrogate c
    · simp only [Bool.not_false, if_true]
      rw [QuoteEquiv.utf8s_cons]
      rw [← ih]; rfl
    · simp only [Bool.not_true, Bool.false_eq_true, if_false]
      rw [QuoteEquiv.utf8_surrogate hc, List.nil_append, ← ih]; rfl

namespace QuoteEquiv
open Yarl.Hex

theorem emitEsc_eq (t : QTab) (h : t.WF) (v : Nat) : emitEsc t v = cEscOut t v := by
  unfold emitEsc cEscOut
  cases hp : t.prot v
  · cases hsf : t.safe v
    · simp
    · simp [h.safe_ascii v hsf]
  · simp [h.safe_ascii v (h.prot_safe v hp)]

theorem cWriteOut_pct (t : QTab) (h : t.WF) : cWriteOut t 37 = pct 37 := by
  simp [cWriteOut, h.pct_unsafe, writeUtf8, utf8]

/-- bytes ≥ 0x80 are each written as an escape by the byte loop -/
theorem pyLoop_high (t : QTab) (h : t.WF) (bs tail : List Nat) (hb : ∀ b ∈ bs, 128 ≤ b) :
    pyLoop t (bs ++ tail) = bs.flatMap pct ++ pyLoop t tail := by
  induction bs with
  | nil => rfl
  | cons b bs ih =>
    have hb128 : 128 ≤ b := hb b (List.mem_cons_self ..)
    have h1 : ¬(b = 37 ∧ t.requote = true) := by omega
    have h2 : ¬(t.qs = true ∧ b = 32) := by omega
    have h3 : t.safe b = false := by
      cases hsf : t.safe b
      · rfl
      · have := h.safe_ascii b hsf; omega
    rw [List.cons_append, pyLoop_plain t h1]
    simp only [h2, h3, if_false, Bool.false_eq_true]
    rw [ih (fun x hx => hb x (List.mem_cons_of_mem _ hx))]
    simp [List.flatMap_cons]

/-- one ordinary character: the byte loop over its UTF-8 form writes what `_write` writes -/
theorem pyLoop_char (t : QTab) (h : t.WF) (c : Nat) (tail : List Nat)
    (hc : ¬(c = 37 ∧ t.requote = true)) :
    pyLoop t (utf8 c ++ tail) = cWriteOut t c ++ pyLoop t tail := by
  by_cases hlt : c < 128
  · rw [utf8_ascii hlt, List.singleton_append, pyLoop_plain t hc]
    unfold cWriteOut
    by_cases hq : t.qs = true ∧ c = 32
    · simp only [hq, and_self, if_true]; rfl
    · simp only [hq, if_false]
      cases hsf : t.safe c
      · simp [hlt, writeUtf8, utf8_ascii]
      · simp [hlt]
  · have hge : 128 ≤ c := by omega
    rw [pyLoop_high t h _ _ (utf8_high hge)]
    have hq : ¬(t.qs = true ∧ c = 32) := by omega
    simp only [cWriteOut, hq, if_false, hlt, false_and, writeUtf8]

theorem utf8_head_high {c : Nat} (h : 128 ≤ c) (hp : c ≤ 0x10FFFF) (hs : isSurrogate c = false) :
    ∃ b tl, utf8 c = b :: tl ∧ 128 ≤ b := by
  have hne := utf8_ne_nil hp hs
  have hh := utf8_high h
  cases hu : utf8 c with
  | nil => rw [hu] at hne; cases hne
  | cons b tl => exact ⟨b, tl, rfl, hh b (by rw [hu]; exact List.mem_cons_self ..)⟩

theorem takeEscapePy_none_first {b : Nat} (l : List Nat) (hb : 128 ≤ b) :
    takeEscape restorePy (b :: l) = none := by
  cases l with
  | nil => rfl
  | cons b2 r =>
    simp only [takeEscape, restorePy_eq_restoreCh,
      restoreCh_none_left b2 (fromHex_none_of_ge hb)]

theorem takeEscapePy_none_second (d1 : Nat) {b : Nat} (l : List Nat) (hb : 128 ≤ b) :
    takeEscape restorePy (d1 :: b :: l) = none := by
  simp only [takeEscape, restorePy_eq_restoreCh,
    restoreCh_none_right d1 (fromHex_none_of_ge hb)]

theorem takeEscape_utf8s_some {rest rest' : Str} {v d1 d2 : Nat}
    (he : takeEscape restoreCh rest = some (v, d1, d2, rest')) :
    takeEscape restorePy (utf8s rest) = some (v, d1, d2, utf8s rest') := by
  obtain ⟨rfl, hv⟩ := takeEscape_eq he
  obtain ⟨h1, h2⟩ := restoreCh_ascii hv
  rw [utf8s_cons, utf8s_cons, utf8_ascii h1, utf8_ascii h2]
  simp only [List.singleton_append, takeEscape, restorePy_eq_restoreCh, hv]

theorem takeEscape_utf8s_none {rest : Str} (hs : PyStr rest) (hn : NoSurrogate rest)
    (he : takeEscape restoreCh rest = none) :
    takeEscape restorePy (utf8s rest) = none := by
  match rest, hs, hn, he with
  | [], _, _, _ => rfl
  | d1 :: r, hs, hn, he =>
    rw [utf8s_cons]
    by_cases h1 : d1 < 128
    · rw [utf8_ascii h1, List.singleton_append]
      match r, hs, hn, he with
      | [], _, _, _ => rfl
      | d2 :: r', hs, hn, he =>
        rw [utf8s_cons]
        by_cases h2 : d2 < 128
        · rw [utf8_ascii h2, List.singleton_append]
          simp only [takeEscape] at he ⊢
          rw [restorePy_eq_restoreCh]
          cases hrc : restoreCh d1 d2 with
          | none => rfl
          | some v => rw [hrc] at he; cases he
        · obtain ⟨b, tl, hu, hb⟩ := utf8_head_high (Nat.le_of_not_lt h2)
            (hs d2 (by simp)) (hn d2 (by simp))
          rw [hu, List.cons_append]
          exact takeEscapePy_none_second d1 _ hb
    · obtain ⟨b, tl, hu, hb⟩ := utf8_head_high (Nat.le_of_not_lt h1)
        (hs d1 (by simp)) (hn d1 (by simp))
      rw [hu, List.cons_append]
      exact takeEscapePy_none_first _ hb

end QuoteEquiv

/-- byte loop over the UTF-8 form = code-point loop -/
theorem pyLoop_utf8s_eq_cOut (t : QTab) (h : t.WF) (s : Str) (hs : PyStr s) (hn : NoSurrogate s) :
    pyLoop t (utf8s s) = cOut t s := by
  fun_induction cOut t s with
  | case1 => rw [utf8s, List.flatMap_nil, pyLoop]
  | case2 c rest hc v d1 d2 rest' he ih =>
    obtain ⟨rfl, hr⟩ := hc
    have hrest := takeEscape_eq he
    rw [QuoteEquiv.utf8s_cons, QuoteEquiv.utf8_ascii (by omega : 37 < 128), List.singleton_append,
      QuoteEquiv.pyLoop_esc t hr (QuoteEquiv.takeEscape_utf8s_some he),
      QuoteEquiv.emitEsc_eq t h]
    obtain ⟨rfl, _⟩ := hrest
    rw [ih (QuoteEquiv.pyStr_tail2 (QuoteEquiv.pyStr_tail hs))
      (QuoteEquiv.noSurr_tail2 (QuoteEquiv.noSurr_tail hn))]
  | case3 c rest hc he ih =>
    obtain ⟨rfl, hr⟩ := hc
    rw [QuoteEquiv.utf8s_cons, QuoteEquiv.utf8_ascii (by omega : 37 < 128), List.singleton_append,
      QuoteEquiv.pyLoop_noesc t hr (QuoteEquiv.takeEscape_utf8s_none (QuoteEquiv.pyStr_tail hs)
        (QuoteEquiv.noSurr_tail hn) he),
      QuoteEquiv.cWriteOut_pct t h,
      ih (QuoteEquiv.pyStr_tail hs) (QuoteEquiv.noSurr_tail hn)]
  | case4 c rest hc ih =>
    rw [QuoteEquiv.utf8s_cons, QuoteEquiv.pyLoop_char t h c _ hc,
      ih (QuoteEquiv.pyStr_tail hs) (QuoteEquiv.noSurr_tail hn)]

/-- the two backends agree on every Python string.  (`hsp` is needed: see `allSafe_cOut`.) -/
theorem quotePy_eq_quoteC (t : QTab) (h : t.WF) (hsp : t.qs = true → t.safe 32 = false) (s : Str)
    (hs : PyStr s) : quotePy t s = quoteC t s := by
  rw [quoteC_eq_cOut t h hsp s hs, quotePy, ← utf8s_stripSurr,
    pyLoop_utf8s_eq_cOut t h _ (QuoteEquiv.pyStr_stripSurr hs) (QuoteEquiv.noSurr_stripSurr s)]

end Yarl
