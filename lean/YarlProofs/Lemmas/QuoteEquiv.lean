/-
  QuoteEquiv.lean — the compiled quoter and the pure-Python quoter compute the
  same function (statements; proofs below).
-/
import YarlProofs.Defs
namespace Yarl

/-- the `changed` flag is sound: when it stays unset the written text is the input -/
theorem cOut_eq_of_not_changed (t : QTab) (h : t.WF) (s : Str) (hs : PyStr s) (hn : NoSurrogate s) :
    cChanged t s = false → cOut t s = s := by
  sorry

/-- the fast path is sound -/
theorem allSafe_cOut (t : QTab) (h : t.WF) (s : Str) : allSafe t s = true → cOut t s = s := by
  sorry

/-- so the compiled quoter is `cOut` after dropping lone surrogates -/
theorem quoteC_eq_cOut (t : QTab) (h : t.WF) (s : Str) (hs : PyStr s) :
    quoteC t s = cOut t (stripSurr s) := by
  sorry

/-- byte loop over the UTF-8 form = code-point loop -/
theorem pyLoop_utf8s_eq_cOut (t : QTab) (h : t.WF) (s : Str) (hs : PyStr s) (hn : NoSurrogate s) :
    pyLoop t (utf8s s) = cOut t s := by
  sorry

theorem utf8s_stripSurr (s : Str) : utf8s (stripSurr s) = utf8s s := by
  sorry

theorem quotePy_eq_quoteC (t : QTab) (h : t.WF) (s : Str) (hs : PyStr s) :
    quotePy t s = quoteC t s := by
  sorry

end Yarl
