/-
  UnquoteEquiv.lean — the compiled unquoter and the pure-Python unquoter compute
  the same function.
-/
import YarlProofs.Lemmas.QuoteEquiv
namespace Yarl

namespace UnquoteEquiv

theorem fromHex_lt {c v : Nat} (h : fromHex c = some v) : v < 16 := by
  unfold fromHex at h
  split at h
  · simp only [Option.some.injEq] at h; omega
  · split at h
    · simp only [Option.some.injEq] at h; omega
    · split at h
      · simp only [Option.some.injEq] at h; omega
      · simp at h

theorem restoreCh_lt {d1 d2 v : Nat} (h : restoreCh d1 d2 = some v) : v < 256 := by
  unfold restoreCh at h
  split at h
  · rename_i a b ha hb
    have := fromHex_lt ha
    have := fromHex_lt hb
    simp only [Option.some.injEq] at h
    omega
  · simp at h

theorem isCont_iff {b : Nat} : isCont b = true ↔ 0x80 ≤ b ∧ b < 0xC0 := by
  simp [isCont]

end UnquoteEquiv

open UnquoteEquiv

theorem decodeBuf_char_le (bs : List Nat) (hb : ∀ b ∈ bs, b < 256) (c : Nat) :
    decodeBuf bs = .char c → c ≤ 0x10FFFF := by
  intro h
  match bs, hb, h with
  | [b0], hb, h =>
    have h0 : b0 < 256 := hb b0 (by simp)
    simp only [decodeBuf] at h
    repeat' split at h
    all_goals first | (simp at h; done) | (simp only [DecRes.char.injEq] at h; omega)
  | [b0, b1], hb, h =>
    have h0 : b0 < 256 := hb b0 (by simp)
    have h1 : b1 < 256 := hb b1 (by simp)
    simp only [decodeBuf] at h
    repeat' split at h
    all_goals first | (simp at h; done) | (simp only [DecRes.char.injEq] at h; simp only [isCont_iff] at *; omega)
  | [b0, b1, b2], hb, h =>
    have h0 : b0 < 256 := hb b0 (by simp)
    have h1 : b1 < 256 := hb b1 (by simp)
    have h2 : b2 < 256 := hb b2 (by simp)
    simp only [decodeBuf] at h
    repeat' split at h
    all_goals first | (simp at h; done) | (simp only [DecRes.char.injEq] at h; simp [isCont] at *; omega)
  | [b0, b1, b2, b3], hb, h =>
    have h0 : b0 < 256 := hb b0 (by simp)
    have h1 : b1 < 256 := hb b1 (by simp)
    have h2 : b2 < 256 := hb b2 (by simp)
    have h3 : b3 < 256 := hb b3 (by simp)
    simp only [decodeBuf] at h
    repeat' split at h
    all_goals first | (simp at h; done) | (simp only [DecRes.char.injEq] at h; simp [isCont] at *; omega)
  | [], _, h => simp [decodeBuf] at h
  | _ :: _ :: _ :: _ :: _ :: _, _, h => simp [decodeBuf] at h

namespace UnquoteEquiv

/-- Everything the backend-equivalence proof needs to know about the two inner
    quoters of an `_Unquoter`.  If `quotePy_eq_quoteC` gains a hypothesis (e.g.
    `t.qs = true → t.safe 32 = false`): add one field per quoter here, pass them
    in `quote_single`, and add the same hypotheses to the anonymous constructor
    `⟨hq, hqq⟩` in `uqLoop_backend` / to `unquotePy_eq_unquoteC`.  Nothing else
    in this file looks inside `Hyps`. -/
structure Hyps (u : UTab) : Prop where
  hq : u.quoter.WF
  hqq : u.qsQuoter.WF
  hsp : u.quoter.qs = true → u.quoter.safe 32 = false
  hspq : u.qsQuoter.qs = true → u.qsQuoter.safe 32 = false

/-- the only place where the quoter equivalence is used -/
theorem quote_single {u : UTab} (H : Hyps u) (ch : Nat) (hc : ch ≤ 0x10FFFF) :
    quote .py u.quoter [ch] = quote .c u.quoter [ch] ∧
    quote .py u.qsQuoter [ch] = quote .c u.qsQuoter [ch] := by
  have hs : PyStr [ch] := by
    intro c hc'
    simp only [List.mem_singleton] at hc'
    subst hc'; exact hc
  exact ⟨quotePy_eq_quoteC u.quoter H.hq H.hsp [ch] hs, quotePy_eq_quoteC u.qsQuoter H.hqq H.hspq [ch] hs⟩

theorem uqEmit_backend {u : UTab} (H : Hyps u) (ch : Nat) (hc : ch ≤ 0x10FFFF) :
    uqEmit .py u ch = uqEmit .c u ch := by
  obtain ⟨h1, h2⟩ := quote_single H ch hc
  unfold uqEmit
  rw [h1, h2]

theorem uqLoop_backend_aux {u : UTab} (H : Hyps u) :
    ∀ (n : Nat) (s : Str), s.length ≤ n → ∀ (pend : List Nat), (∀ b ∈ pend, b < 256) → ∀ ptxt : Str,
      uqLoop .py u pend ptxt s = uqLoop .c u pend ptxt s := by
  intro n
  induction n with
  | zero =>
    intro s hs pend hp ptxt
    match s, hs with
    | [], _ => simp only [uqLoop]
  | succ n ih =>
    intro s hs pend hp ptxt
    match s, hs with
    | [], _ => simp only [uqLoop]
    | c :: rest, hs =>
      have hr : rest.length ≤ n := by simp only [List.length_cons] at hs; omega
      simp only [uqLoop]
      split
      · split
        · rename_i v d1 d2 rest' h
          have hl := takeEscape_length h
          have hv : v < 256 := restoreCh_lt (takeEscape_eq h).2
          have hr' : rest'.length ≤ n := by omega
          have hpv : ∀ b ∈ pend ++ [v], b < 256 := by
            intro b hb
            simp only [List.mem_append, List.mem_singleton] at hb
            rcases hb with hb | hb
            · exact hp b hb
            · omega
          have hv1 : ∀ b ∈ [v], b < 256 := by
            intro b hb
            simp only [List.mem_singleton] at hb
            omega
          have hnil : ∀ b ∈ ([] : List Nat), b < 256 := by simp
          split
          · rw [ih rest' hr' _ hpv]
          · rename_i ch hch
            rw [ih rest' hr' _ hnil, uqEmit_backend H ch (decodeBuf_char_le _ hpv ch hch)]
          · split
            · rw [ih rest' hr' _ hv1]
            · rename_i ch hch
              rw [ih rest' hr' _ hnil, uqEmit_backend H ch (decodeBuf_char_le _ hv1 ch hch)]
            · rw [ih rest' hr' _ hnil]
        · rw [ih rest hr _ (by simp)]
      · rw [ih rest hr _ (by simp)]

end UnquoteEquiv

theorem uqLoop_backend (u : UTab) (hq : u.quoter.WF) (hqq : u.qsQuoter.WF)
    (hsp : u.quoter.qs = true → u.quoter.safe 32 = false)
    (hspq : u.qsQuoter.qs = true → u.qsQuoter.safe 32 = false) (pend : List Nat)
    (hp : ∀ b ∈ pend, b < 256) (ptxt s : Str) :
    uqLoop .py u pend ptxt s = uqLoop .c u pend ptxt s :=
  uqLoop_backend_aux ⟨hq, hqq, hsp, hspq⟩ s.length s (Nat.le_refl _) pend hp ptxt

theorem uqLoop_id_of_not_changed (b : Backend) (u : UTab) (s : Str) :
    cUnqChanged u s = false → uqLoop b u [] [] s = s := by
  induction s with
  | nil => intro _; simp only [uqLoop]
  | cons c rest ih =>
    intro h
    simp only [cUnqChanged] at h
    simp only [uqLoop]
    split at h
    · rename_i hc
      subst hc
      split at h
      · simp at h
      · rename_i hte
        simp only [Bool.or_eq_false_iff] at h
        obtain ⟨⟨_, hm⟩, hrest⟩ := h
        simp only [↓reduceIte]
        rw [ih hrest]
        simp [uqPlain, hm]
    · rename_i hc
      simp only [hc, ↓reduceIte]
      split at h
      · rename_i hc43
        subst hc43
        simp only [Bool.or_eq_false_iff] at h
        obtain ⟨hm, hrest⟩ := h
        rw [ih hrest]
        simp only [Bool.not_eq_false', decide_eq_true_eq] at hm
        simp [uqPlain, hm]
      · rename_i hc43
        simp only [Bool.or_eq_false_iff] at h
        obtain ⟨hm, hrest⟩ := h
        rw [ih hrest]
        simp [uqPlain, hm, hc43]

theorem unquotePy_eq_unquoteC (u : UTab) (hq : u.quoter.WF) (hqq : u.qsQuoter.WF)
    (hsp : u.quoter.qs = true → u.quoter.safe 32 = false)
    (hspq : u.qsQuoter.qs = true → u.qsQuoter.safe 32 = false) (s : Str) :
    unquotePy u s = unquoteC u s := by
  unfold unquotePy unquoteC
  split
  · exact uqLoop_backend u hq hqq hsp hspq [] (by simp) [] s
  · rename_i h
    exact uqLoop_id_of_not_changed .py u s (by simpa using h)

end Yarl
