import YarlModel
/-
  WriterLemmas.lean — the C output buffer (`YarlModel/Writer.lean`):
  growth steps are invisible, allocation failure gives MemoryError and nothing
  else, the heap block is released exactly once, the static buffer never, and
  the number of bytes held never exceeds the capacity.
-/
namespace Yarl.WriterLemmas
open Yarl Yarl.Writer

/-- The generalised invariant over the intermediate writer state (buffer size `n`):
    * `cap`   — no write past the end of the buffer;
    * `pos`   — the capacity is positive;
    * `freed`/`sf` — nothing is freed while writing (only `release` frees);
    * `fresh` — every live block id is below the allocation counter (so the id
                handed out next is new: a block is never made live twice);
    * `shape` — either the buffer is still the static one (capacity `n`, no heap
                block live) or it is a heap block and that block is the only live one. -/
structure Inv (n : Nat) (w : St) : Prop where
  cap : w.data.length ≤ w.size
  pos : 0 < w.size
  freed : w.freed = []
  sf : w.staticFreed = false
  fresh : ∀ id ∈ w.live, id < w.allocs
  shape : (w.buf = .static ∧ w.size = n ∧ w.live = []) ∨ (∃ id, w.buf = .heap id ∧ w.live = [id])

theorem inv_init (n : Nat) (hn : 0 < n) : Inv n (init n) := by
  refine ⟨?_, ?_, rfl, rfl, ?_, Or.inl ⟨rfl, rfl, rfl⟩⟩
  · simp [init]
  · simpa [init] using hn
  · simp [init]

/-- a successful `_write_char` appends exactly the character -/
theorem writeChar_data {n : Nat} {f : Nat → Bool} {w w' : St} {c : Nat}
    (h : writeChar n f w c = some w') : w'.data = w.data ++ [c] := by
  simp only [writeChar] at h
  split at h
  · split at h
    · simp at h
    · split at h <;> (simp only [Option.some.injEq] at h; subst h; rfl)
  · simp only [Option.some.injEq] at h; subst h; rfl

/-- `_write_char` fails only when the buffer is full and the allocation request fails -/
theorem writeChar_none {n : Nat} {f : Nat → Bool} {w : St} {c : Nat}
    (h : writeChar n f w c = none) : w.data.length = w.size ∧ f w.allocs = true := by
  simp only [writeChar] at h
  split at h
  · rename_i hfull
    split at h
    · rename_i hf; exact ⟨hfull, hf⟩
    · split at h <;> simp at h
  · simp at h

/-- without faults `_write_char` never fails -/
theorem writeChar_nofault (n : Nat) (w : St) (c : Nat) :
    ∃ w', writeChar n (fun _ => false) w c = some w' := by
  cases h : writeChar n (fun _ => false) w c with
  | some w' => exact ⟨w', rfl⟩
  | none => have := (writeChar_none h).2; simp at this

/-- while there is room, `_write_char` makes no allocation request at all -/
theorem writeChar_room (n : Nat) (f : Nat → Bool) (w : St) (c : Nat) (h : w.data.length < w.size) :
    writeChar n f w c = some { w with data := w.data ++ [c] } := by
  have : ¬ w.data.length = w.size := by omega
  simp [writeChar, this]

/-- the invariant is preserved by `_write_char` -/
theorem writeChar_inv {n : Nat} (hn : 0 < n) {f : Nat → Bool} {w w' : St} {c : Nat}
    (hi : Inv n w) (h : writeChar n f w c = some w') : Inv n w' := by
  obtain ⟨cap, pos, fr, sf, fresh, shape⟩ := hi
  simp only [writeChar] at h
  split at h
  · rename_i hfull
    split at h
    · simp at h
    · split at h
      · rename_i hb
        simp only [Option.some.injEq] at h; subst h
        rcases shape with ⟨_, _, hl⟩ | ⟨id, hb', _⟩
        · refine ⟨?_, ?_, fr, sf, ?_, Or.inr ⟨w.allocs, rfl, ?_⟩⟩
          · simp; omega
          · simp; omega
          · simp [hl]
          · simp [hl]
        · rw [hb] at hb'; cases hb'
      · rename_i old hb
        simp only [Option.some.injEq] at h; subst h
        rcases shape with ⟨hb', _, _⟩ | ⟨id, hb', hl⟩
        · rw [hb] at hb'; cases hb'
        · rw [hb] at hb'; cases hb'
          refine ⟨?_, ?_, fr, sf, ?_, Or.inr ⟨w.allocs, rfl, ?_⟩⟩
          · simp; omega
          · simp; omega
          · simp [hl]
          · simp [hl]
  · rename_i hne
    simp only [Option.some.injEq] at h; subst h
    refine ⟨?_, pos, fr, sf, fresh, shape⟩
    simp; omega

/-- generalised statement about `writeAll` from an arbitrary intermediate state -/
theorem writeAll_spec {n : Nat} (hn : 0 < n) (f : Nat → Bool) (cs : List Nat) (w : St) (hi : Inv n w) :
    Inv n (writeAll n f w cs).1 ∧
    ((writeAll n f w cs).2 = true → (writeAll n f w cs).1.data = w.data ++ cs) := by
  induction cs generalizing w with
  | nil => simp [writeAll, hi]
  | cons c cs ih =>
    simp only [writeAll]
    cases h : writeChar n f w c with
    | none => simp [hi]
    | some w' =>
      simp only
      obtain ⟨h1, h2⟩ := ih w' (writeChar_inv hn hi h)
      refine ⟨h1, fun hok => ?_⟩
      rw [h2 hok, writeChar_data h]; simp

/-- the data part needs no invariant (and no positivity of the buffer size) -/
theorem writeAll_data (n : Nat) (f : Nat → Bool) (cs : List Nat) (w : St) :
    (writeAll n f w cs).2 = true → (writeAll n f w cs).1.data = w.data ++ cs := by
  induction cs generalizing w with
  | nil => simp [writeAll]
  | cons c cs ih =>
    simp only [writeAll]
    cases h : writeChar n f w c with
    | none => simp
    | some w' =>
      simp only
      intro hok
      rw [ih w' hok, writeChar_data h]; simp

/-- without faults all writes succeed -/
theorem writeAll_nofault (n : Nat) (cs : List Nat) (w : St) :
    (writeAll n (fun _ => false) w cs).2 = true := by
  induction cs generalizing w with
  | nil => simp [writeAll]
  | cons c cs ih =>
    obtain ⟨w', h⟩ := writeChar_nofault n w c
    simp only [writeAll, h]
    exact ih w'

/-- while everything fits, no allocation request is made: every field except `data` is untouched -/
theorem writeAll_room (n : Nat) (f : Nat → Bool) (cs : List Nat) (w : St)
    (h : w.data.length + cs.length ≤ w.size) :
    writeAll n f w cs = ({ w with data := w.data ++ cs }, true) := by
  induction cs generalizing w with
  | nil => simp [writeAll]
  | cons c cs ih =>
    simp only [List.length_cons] at h
    rw [writeAll, writeChar_room n f w c (by omega)]
    simp only
    rw [ih]
    · simp
    · simp; omega

/-- `_release_writer` from a state satisfying the invariant -/
theorem release_inv {n : Nat} {w : St} (hi : Inv n w) :
    (release w).live = [] ∧ (release w).freed.Nodup ∧ (release w).staticFreed = false ∧
    (release w).freed.length ≤ 1 ∧
    ((w.buf = .static ∧ (release w).freed = []) ∨ (∃ id, w.live = [id] ∧ (release w).freed = [id])) := by
  obtain ⟨_, _, fr, sf, _, shape⟩ := hi
  rcases shape with ⟨hb, _, hl⟩ | ⟨id, hb, hl⟩
  · simp [release, hb, hl, fr, sf]
  · simp [release, hb, hl, fr, sf]

theorem run_fst (n : Nat) (f : Nat → Bool) (cs : List Nat) :
    (run n f cs).1 = if (writeAll n f (init n) cs).2 then .ok (writeAll n f (init n) cs).1.data
                     else .error .memoryError := rfl

theorem run_snd (n : Nat) (f : Nat → Bool) (cs : List Nat) :
    (run n f cs).2 = release (writeAll n f (init n) cs).1 := rfl

end Yarl.WriterLemmas

namespace Yarl.Writer
open Yarl.WriterLemmas

-- some hypotheses of the requested statements (`hn`, `f1`, `cs1`) are not needed by the proofs
set_option linter.unusedVariables false

/-- without allocation failures the writer is just "append": growth steps are invisible -/
theorem run_ok (n : Nat) (hn : 0 < n) (cs : List Nat) : (run n (fun _ => false) cs).1 = .ok cs := by
  have hok := writeAll_nofault n cs (init n)
  rw [run_fst, hok, writeAll_data n _ cs (init n) hok]
  simp [init]

/-- with arbitrary failures a call either returns exactly the bytes written or raises
    MemoryError — never a truncated or corrupted result -/
theorem run_faults (n : Nat) (hn : 0 < n) (faults : Nat → Bool) (cs : List Nat) :
    (run n faults cs).1 = .ok cs ∨ (run n faults cs).1 = .error .memoryError := by
  rw [run_fst]
  cases hok : (writeAll n faults (init n) cs).2 with
  | true =>
    left
    rw [writeAll_data n _ cs (init n) hok]
    simp [init]
  | false => right; simp

/-- MemoryError happens exactly when some allocation request that is actually made fails:
    if the output fits the static buffer no fault matters -/
theorem run_small_never_fails (n : Nat) (faults : Nat → Bool) (cs : List Nat) (h : cs.length ≤ n) :
    (run n faults cs).1 = .ok cs := by
  rw [run_fst, writeAll_room n faults cs (init n) (by simpa [init] using h)]
  simp [init]

/-- if the output fits the static buffer, no allocation request is made and nothing is freed -/
theorem run_small_state (n : Nat) (faults : Nat → Bool) (cs : List Nat) (h : cs.length ≤ n) :
    (run n faults cs).2 = { init n with data := cs } := by
  rw [run_snd, writeAll_room n faults cs (init n) (by simpa [init] using h)]
  simp [init, release]

/-- no leak, no double free, static buffer never freed -/
theorem run_release (n : Nat) (hn : 0 < n) (faults : Nat → Bool) (cs : List Nat) :
    (run n faults cs).2.live = [] ∧ (run n faults cs).2.freed.Nodup ∧
    (run n faults cs).2.staticFreed = false ∧ (run n faults cs).2.freed.length ≤ 1 := by
  rw [run_snd]
  have hi := (writeAll_spec hn faults cs (init n) (inv_init n hn)).1
  obtain ⟨h1, h2, h3, h4, _⟩ := release_inv hi
  exact ⟨h1, h2, h3, h4⟩

/-- sharper form of `run_release`: what is freed is exactly the block that was live when the
    writing stopped (normally or by MemoryError) — or nothing if the buffer is still static -/
theorem run_release_exact (n : Nat) (hn : 0 < n) (faults : Nat → Bool) (cs : List Nat) :
    let w := (writeAll n faults (init n) cs).1
    (w.buf = .static ∧ w.live = [] ∧ (run n faults cs).2.freed = []) ∨
    (∃ id, w.buf = .heap id ∧ w.live = [id] ∧ id < w.allocs ∧ (run n faults cs).2.freed = [id]) := by
  intro w
  rw [run_snd]
  have hi : Inv n w := (writeAll_spec hn faults cs (init n) (inv_init n hn)).1
  rcases hi.shape with ⟨hb, _, hl⟩ | ⟨id, hb, hl⟩
  · left
    refine ⟨hb, hl, ?_⟩
    show (release w).freed = []
    simp [release, hb, hi.freed]
  · right
    refine ⟨id, hb, hl, hi.fresh id (by simp [hl]), ?_⟩
    show (release w).freed = [id]
    simp [release, hb, hi.freed]

/-- the invariant holds in every state reached by `writeAll` from `init` -/
theorem writeAll_inv (n : Nat) (hn : 0 < n) (faults : Nat → Bool) (cs : List Nat) :
    Inv n (writeAll n faults (init n) cs).1 :=
  (writeAll_spec hn faults cs (init n) (inv_init n hn)).1

/-- capacity invariant: the number of bytes held never exceeds the capacity -/
theorem writeAll_capacity (n : Nat) (hn : 0 < n) (faults : Nat → Bool) (cs : List Nat) :
    let w := (writeAll n faults (init n) cs).1; w.data.length ≤ w.size :=
  (writeAll_inv n hn faults cs).cap

/-- each call starts from `init`: a failed first call leaves the second unaffected -/
theorem run_after_failure (n : Nat) (hn : 0 < n) (f1 : Nat → Bool) (cs1 cs2 : List Nat) :
    (run n (fun _ => false) cs2).1 = .ok cs2 :=
  run_ok n hn cs2

/-! non-vacuity checks with a tiny buffer -/

/-- `Except` has no `DecidableEq` in core; needed only for the `decide` checks below -/
local instance {ε α : Type} [DecidableEq ε] [DecidableEq α] : DecidableEq (Except ε α)
  | .ok a, .ok b => if h : a = b then isTrue (by rw [h]) else isFalse (by intro h'; cases h'; exact h rfl)
  | .error a, .error b => if h : a = b then isTrue (by rw [h]) else isFalse (by intro h'; cases h'; exact h rfl)
  | .ok _, .error _ => isFalse (by intro h; cases h)
  | .error _, .ok _ => isFalse (by intro h; cases h)

-- n = 2, five bytes, the second allocation request (the realloc) fails:
-- MemoryError, nothing live, block 0 freed once
example : (run 2 (fun k => k == 1) [10, 20, 30, 40, 50]).1 = .error .memoryError := by decide
example : (run 2 (fun k => k == 1) [10, 20, 30, 40, 50]).2.live = [] ∧
          (run 2 (fun k => k == 1) [10, 20, 30, 40, 50]).2.freed = [0] ∧
          (run 2 (fun k => k == 1) [10, 20, 30, 40, 50]).2.staticFreed = false := by decide
-- same input without faults: two growth steps (malloc, realloc), only the last block is freed
example : (run 2 (fun _ => false) [10, 20, 30, 40, 50]).1 = .ok [10, 20, 30, 40, 50] ∧
          (run 2 (fun _ => false) [10, 20, 30, 40, 50]).2.live = [] ∧
          (run 2 (fun _ => false) [10, 20, 30, 40, 50]).2.freed = [1] ∧
          (run 2 (fun _ => false) [10, 20, 30, 40, 50]).2.allocs = 2 := by decide
-- the very first allocation fails: the buffer is still static, nothing is freed
example : (run 2 (fun _ => true) [10, 20, 30]).1 = .error .memoryError ∧
          (run 2 (fun _ => true) [10, 20, 30]).2.freed = [] ∧
          (run 2 (fun _ => true) [10, 20, 30]).2.buf = .static := by decide
-- fits the static buffer: faults are irrelevant
example : (run 2 (fun _ => true) [10, 20]).1 = .ok [10, 20] := by decide

end Yarl.Writer
