import YarlProofs.C16
/-!
# RFC 5952 §4 as an independent specification, and its equivalence with the model's `ipv6ToStr`

`Yarl.Rfc5952.format` is a 20-line specification of the recommended text form written WITHOUT looking at the
scanning loop of CPython's `_compress_hextets` (which `bestZeroRun` models): it is phrased with "number of
zero fields starting here", "maximum over all positions", "first position reaching the maximum".
-/
namespace Yarl
namespace Rfc5952
/-- §4.3: one hexadecimal digit, lower case -/
def digit (d : Nat) : Nat := if d < 10 then 48 + d else 87 + d
/-- §4.1: a 16-bit field is its four hex digits with the leading zeros removed, the last digit always kept -/
def field (x : Nat) : Str :=
  ([x / 4096 % 16, x / 256 % 16, x / 16 % 16].dropWhile (· == 0) ++ [x % 16]).map digit
/-- fields separated by single colons -/
def fields : List Nat → Str
  | [] => []
  | [x] => field x
  | x :: y :: r => field x ++ 58 :: fields (y :: r)
/-- how many consecutive zero fields start at the head of the list -/
def zerosAt (l : List Nat) : Nat := (l.takeWhile (· == 0)).length
/-- §4.2.3: the length of the longest run of consecutive zero fields (maximum over all start positions) -/
def longest : List Nat → Nat
  | [] => 0
  | x :: r => max (zerosAt (x :: r)) (longest r)
/-- §4.2.3: the first position at which at least `n` consecutive zero fields start -/
def firstAt (n : Nat) : List Nat → Nat
  | [] => 0
  | x :: r => if n ≤ zerosAt (x :: r) then 0 else firstAt n r + 1
/-- §4.2: "::" replaces the first longest run of zero fields, provided it has at least two fields (§4.2.2) -/
def format (l : List Nat) : Str :=
  if longest l < 2 then fields l
  else fields (l.take (firstAt (longest l) l)) ++ [58, 58] ++ fields (l.drop (firstAt (longest l) l + longest l))
/-- number of (possibly overlapping) occurrences of "::" in a text -/
def countDC : Str → Nat
  | [] => 0
  | c :: r => (if c = 58 ∧ r.head? = some 58 then 1 else 0) + countDC r
end Rfc5952
namespace V6More
open Rfc5952

theorem zerosAt_nil : zerosAt [] = 0 := rfl
theorem zerosAt_cons_zero (r : List Nat) : zerosAt (0 :: r) = zerosAt r + 1 := by simp [zerosAt]
theorem zerosAt_cons_ne {x : Nat} (r : List Nat) (h : x ≠ 0) : zerosAt (x :: r) = 0 := by simp [zerosAt, h]
theorem zerosAt_le_longest (l : List Nat) : zerosAt l ≤ longest l := by
  cases l with
  | nil => simp [zerosAt, longest]
  | cons x r => simp only [longest]; omega
theorem firstAt_of_le {n : Nat} {l : List Nat} (h : n ≤ zerosAt l) : firstAt n l = 0 := by
  cases l with
  | nil => rfl
  | cons x r => simp [firstAt, h]

theorem go_eq (xs : List Nat) : ∀ (idx cs cl bs bl : Nat), cl ≤ bl →
    bestZeroRun.go xs idx cs cl bs bl =
      (if max (cl + zerosAt xs) (longest xs) ≤ bl then bs
       else if longest xs ≤ cl + zerosAt xs then (if cl = 0 then idx else cs)
       else idx + firstAt (longest xs) xs,
       max bl (max (cl + zerosAt xs) (longest xs))) := by
  induction xs with
  | nil =>
    intro idx cs cl bs bl h
    simp only [bestZeroRun.go, zerosAt_nil, longest, Nat.add_zero]
    have : max cl 0 ≤ bl := by omega
    simp only [this, if_true]
    congr 1; omega
  | cons x xs ih =>
    intro idx cs cl bs bl h
    have hz := zerosAt_le_longest xs
    unfold bestZeroRun.go
    by_cases h0 : x = 0
    · subst h0
      simp only [if_true, zerosAt_cons_zero, longest]
      have hf : firstAt (max (zerosAt xs + 1) (longest xs)) (0 :: xs) =
          if longest xs ≤ zerosAt xs + 1 then 0 else firstAt (longest xs) xs + 1 := by
        by_cases hL : longest xs ≤ zerosAt xs + 1
        · rw [Nat.max_eq_left hL]; simp [firstAt, zerosAt_cons_zero, hL]
        · rw [Nat.max_eq_right (by omega)]; simp [firstAt, zerosAt_cons_zero, hL]
      rw [hf]
      by_cases hgt : cl + 1 > bl
      · simp only [hgt, if_true]
        rw [ih _ _ _ _ _ (Nat.le_refl _)]
        refine Prod.ext ?_ ?_
        · simp only
          repeat' split
          all_goals omega
        · simp only; omega
      · simp only [hgt, if_false]
        rw [ih _ _ _ _ _ (by omega)]
        refine Prod.ext ?_ ?_
        · simp only
          repeat' split
          all_goals omega
        · simp only; omega
    · simp only [h0, if_false, zerosAt_cons_ne xs h0, longest, Nat.add_zero, Nat.zero_max]
      rw [ih _ _ _ _ _ (Nat.zero_le _)]
      simp only [Nat.zero_add, ↓reduceIte]
      have hf1 : longest xs = 0 → firstAt (longest xs) (x :: xs) = 0 := by
        intro h; simp [firstAt, zerosAt_cons_ne xs h0, h]
      have hf2 : longest xs ≠ 0 → firstAt (longest xs) (x :: xs) = firstAt (longest xs) xs + 1 := by
        intro h; simp [firstAt, zerosAt_cons_ne xs h0, h]
      have hfz : longest xs ≤ zerosAt xs → firstAt (longest xs) xs = 0 := firstAt_of_le
      refine Prod.ext ?_ ?_
      · simp only
        by_cases hL : longest xs = 0
        · have := hf1 hL
          repeat' split
          all_goals omega
        · have := hf2 hL
          repeat' split
          all_goals omega
      · simp only; omega

theorem bestZeroRun_eq (l : List Nat) : bestZeroRun l = (firstAt (longest l) l, longest l) := by
  unfold bestZeroRun
  rw [go_eq l 0 0 0 0 0 (Nat.le_refl _)]
  have hz := zerosAt_le_longest l
  have hfz : longest l ≤ zerosAt l → firstAt (longest l) l = 0 := firstAt_of_le
  refine Prod.ext ?_ ?_
  · simp only
    repeat' split
    all_goals omega
  · simp only; omega

open HostLemmas in
theorem field_eq_hexLower {x : Nat} (hx : x < 65536) : hexLower x = field x := by
  rw [hexLower_eq]
  unfold field
  have hd : ∀ k, hexDigitN k = digit k := fun _ => rfl
  by_cases h1 : x < 16
  · have a : x / 4096 % 16 = 0 := by omega
    have b : x / 256 % 16 = 0 := by omega
    have c : x / 16 % 16 = 0 := by omega
    have d : x % 16 = x := by omega
    simp [hexAuxN, h1, a, b, c, d, hd]
  · by_cases h2 : x / 16 < 16
    · have a : x / 4096 % 16 = 0 := by omega
      have b : x / 256 % 16 = 0 := by omega
      have c : x / 16 % 16 = x / 16 := by omega
      have c' : ¬ x / 16 = 0 := by omega
      simp [hexAuxN, h1, h2, a, b, c, c', hd]
    · by_cases h3 : x / 16 / 16 < 16
      · have a : x / 4096 % 16 = 0 := by omega
        have b : x / 256 % 16 = x / 16 / 16 := by omega
        have b' : ¬ x / 16 / 16 = 0 := by omega
        simp [hexAuxN, h1, h2, h3, a, b, b', hd]
      · have h4 : x / 16 / 16 / 16 < 16 := by omega
        have a : x / 4096 % 16 = x / 16 / 16 / 16 := by omega
        have a' : ¬ x / 16 / 16 / 16 = 0 := by omega
        have b : x / 256 % 16 = x / 16 / 16 % 16 := by omega
        simp [hexAuxN, h1, h2, h3, h4, a, a', b, hd]

/-! ### the colon-joined text -/

open HostLemmas

theorem fields_eq_joinC (l : List Nat) : fields l = joinC 58 (l.map field) := by
  induction l with
  | nil => rfl
  | cons x r ih =>
    cases r with
    | nil => simp [fields, joinC_cons]
    | cons y r' =>
      rw [fields, ih, List.map_cons, joinC_cons, List.map_cons, joinC_cons]
      simp

theorem map_hexLower_eq (l : List Nat) (hx : ∀ x ∈ l, x < 65536) : l.map hexLower = l.map field :=
  List.map_congr_left (fun x h => field_eq_hexLower (hx x h))

theorem joinC_hexLower (l : List Nat) (hx : ∀ x ∈ l, x < 65536) : joinC 58 (l.map hexLower) = fields l := by
  rw [map_hexLower_eq l hx, fields_eq_joinC]

/-- the list `_compress_hextets` hands to `":".join` -/
theorem joinC_compressed (A B : List Str) :
    joinC 58 (if A = [] then [] :: (A ++ [[]] ++ B ++ (if B = [] then [[]] else []))
              else (A ++ [[]] ++ B ++ (if B = [] then [[]] else []))) = joinC 58 A ++ [58, 58] ++ joinC 58 B := by
  cases A with
  | nil =>
    cases B with
    | nil => simp [joinC_cons]
    | cons b B' => simp [joinC_cons]
  | cons a A' =>
    cases B with
    | nil => simp [joinC_cons, flatC_append]
    | cons b B' => simp [joinC_cons, flatC_append]

/-! ### facts about the specification -/

theorem take_zeros {l : List Nat} : ∀ {n : Nat}, n ≤ zerosAt l → l.take n = List.replicate n 0 := by
  induction l with
  | nil => intro n h; simp [zerosAt] at h; subst h; rfl
  | cons x r ih =>
    intro n h
    cases n with
    | zero => rfl
    | succ k =>
      by_cases h0 : x = 0
      · subst h0
        rw [zerosAt_cons_zero] at h
        simp [List.replicate_succ, ih (show k ≤ zerosAt r by omega)]
      · rw [zerosAt_cons_ne r h0] at h; omega

theorem zerosAt_le_length (l : List Nat) : zerosAt l ≤ l.length := by
  unfold zerosAt; exact (List.takeWhile_sublist _).length_le

theorem zerosAt_replicate_append (m : Nat) (b : List Nat) : m ≤ zerosAt (List.replicate m 0 ++ b) := by
  induction m with
  | zero => omega
  | succ k ih => simp only [List.replicate_succ, List.cons_append, zerosAt_cons_zero]; omega

theorem longest_cons_ge (x : Nat) (r : List Nat) : longest r ≤ longest (x :: r) := by
  simp only [longest]; omega

theorem firstAt_spec {n : Nat} {l : List Nat} (h : n ≤ longest l) :
    firstAt n l ≤ l.length ∧ n ≤ zerosAt (l.drop (firstAt n l)) := by
  induction l with
  | nil => simp [longest] at h; subst h; simp [firstAt, zerosAt]
  | cons x r ih =>
    by_cases hz : n ≤ zerosAt (x :: r)
    · simp [firstAt, hz]
    · have : n ≤ longest r := by simp only [longest] at h; omega
      have := ih this
      simp only [firstAt, hz, if_false, List.drop_succ_cons, List.length_cons]
      omega

/-- the run the specification selects: where it is, that it consists of zeros, that it fits -/
theorem chosen_run (l : List Nat) :
    firstAt (longest l) l + longest l ≤ l.length ∧
    l = l.take (firstAt (longest l) l) ++ List.replicate (longest l) 0 ++ l.drop (firstAt (longest l) l + longest l) := by
  obtain ⟨h1, h2⟩ := firstAt_spec (Nat.le_refl (longest l))
  have h3 := zerosAt_le_length (l.drop (firstAt (longest l) l))
  have h4 := take_zeros h2
  refine ⟨by simp at h3; omega, ?_⟩
  rw [← h4, List.append_assoc, ← List.drop_drop, List.take_append_drop, List.take_append_drop]

/-- §4.2.3 "longest": no run of zero fields anywhere is longer -/
theorem longest_max {l a b : List Nat} {m : Nat} (h : l = a ++ List.replicate m 0 ++ b) : m ≤ longest l := by
  subst h
  induction a with
  | nil => exact Nat.le_trans (zerosAt_replicate_append m b) (zerosAt_le_longest _)
  | cons x a' ih => exact Nat.le_trans ih (longest_cons_ge _ _)

/-- §4.2.3 "first": no run of at least that length starts earlier -/
theorem firstAt_min {l a b : List Nat} {m n : Nat} (h : l = a ++ List.replicate m 0 ++ b) (hn : n ≤ m) :
    firstAt n l ≤ a.length := by
  subst h
  induction a with
  | nil => rw [firstAt_of_le (Nat.le_trans hn (by simpa using zerosAt_replicate_append m b))]; omega
  | cons x a' ih =>
    simp only [List.cons_append, firstAt, List.length_cons]
    split
    · omega
    · simp only [List.append_assoc] at ih ⊢; omega

/-- §4.2.1 "as much as possible": the selected run cannot be extended on either side -/
theorem chosen_run_maximal (l : List Nat) :
    (l.drop (firstAt (longest l) l + longest l)).head? ≠ some 0 ∧
    (l.take (firstAt (longest l) l)).getLast? ≠ some 0 := by
  obtain ⟨_, hdec⟩ := chosen_run l
  constructor
  · intro hh
    cases hd : l.drop (firstAt (longest l) l + longest l) with
    | nil => rw [hd] at hh; cases hh
    | cons y b' =>
      rw [hd] at hh hdec
      simp only [List.head?_cons, Option.some.injEq] at hh
      subst hh
      have : l = l.take (firstAt (longest l) l) ++ List.replicate (longest l + 1) 0 ++ b' := by
        rw [List.replicate_succ']
        simpa using hdec
      have := longest_max this
      omega
  · intro hh
    obtain ⟨a', ha'⟩ := List.getLast?_eq_some_iff.mp hh
    rw [ha'] at hdec
    have : l = a' ++ List.replicate (longest l + 1) 0 ++ l.drop (firstAt (longest l) l + longest l) := by
      rw [List.replicate_succ]
      simpa using hdec
    have := longest_max this
    omega

/-! ### `ipv6ToStr` is the specification -/

theorem ipv6ToStr_eq_format (l : List Nat) (hx : ∀ x ∈ l, x < 65536) : ipv6ToStr l = format l := by
  rw [ipv6ToStr_eq, bestZeroRun_eq]
  simp only
  unfold format
  by_cases h2 : longest l < 2
  · rw [if_neg (by omega), if_pos h2, joinC_hexLower l hx]
  · rw [if_pos (by omega), if_neg h2]
    obtain ⟨hle, hdec⟩ := chosen_run l
    generalize firstAt (longest l) l = i at hle hdec ⊢
    generalize hn : longest l = n at hle hdec h2 ⊢
    rw [← List.map_take, ← List.map_drop]
    have hA : (List.take i l = []) ↔ i = 0 := by
      constructor
      · intro h
        have := congrArg List.length h
        simp only [List.length_take, List.length_nil] at this
        omega
      · intro h; subst h; rfl
    have hB : (List.drop (i + n) l = []) ↔ i + n = (List.map hexLower l).length := by
      simp only [List.drop_eq_nil_iff, List.length_map]; omega
    have hA' : (List.map hexLower (List.take i l) = []) ↔ i = 0 := by simpa using hA
    have hB' : (List.map hexLower (List.drop (i + n) l) = []) ↔ i + n = (List.map hexLower l).length := by
      simpa using hB
    have := joinC_compressed (List.map hexLower (List.take i l)) (List.map hexLower (List.drop (i + n) l))
    simp only [hA', hB'] at this
    rw [joinC_hexLower _ (fun x h => hx x (List.mem_of_mem_take h)),
      joinC_hexLower _ (fun x h => hx x (List.mem_of_mem_drop h))] at this
    rw [← this]

/-! ### §4.1 / §4.3: the fields -/

theorem field_digits (x : Nat) : ∃ ds : List Nat, field x = ds.map digit ∧ (∀ d ∈ ds, d < 16) ∧
    1 ≤ ds.length ∧ ds.length ≤ 4 ∧ (ds.head? = some 0 → ds = [0]) := by
  refine ⟨[x / 4096 % 16, x / 256 % 16, x / 16 % 16].dropWhile (· == 0) ++ [x % 16], rfl, ?_, ?_, ?_, ?_⟩
  · intro d hd
    rcases List.mem_append.1 hd with hd | hd
    · have := (List.dropWhile_sublist _).subset hd
      simp only [List.mem_cons, List.not_mem_nil, or_false] at this
      omega
    · simp only [List.mem_cons, List.not_mem_nil, or_false] at hd; omega
  · simp
  · have := (List.dropWhile_sublist (· == 0) (l := [x / 4096 % 16, x / 256 % 16, x / 16 % 16])).length_le
    simp only [List.length_append, List.length_cons, List.length_nil] at this ⊢
    omega
  · intro hh
    cases hD : [x / 4096 % 16, x / 256 % 16, x / 16 % 16].dropWhile (· == 0) with
    | nil => rw [hD] at hh; simpa using hh
    | cons y D' =>
      exfalso
      have hnot := List.head?_dropWhile_not (· == 0) [x / 4096 % 16, x / 256 % 16, x / 16 % 16]
      rw [hD] at hnot hh
      simp only [List.cons_append, List.head?_cons, Option.some.injEq] at hh
      subst hh
      simp at hnot

theorem digit_lowerHex {d : Nat} (h : d < 16) : isLowerHexC (digit d) := hexDigitN_lower h

theorem digit_eq_48 {d : Nat} (h : d < 16) : digit d = 48 ↔ d = 0 := by
  unfold digit; split <;> omega

/-- §4.3 + §4.1: lower-case hex digits only, one to four of them, no leading zero (a zero field is the single digit "0") -/
theorem field_spec (x : Nat) :
    (∀ c ∈ field x, isLowerHexC c) ∧ 1 ≤ (field x).length ∧ (field x).length ≤ 4 ∧
    ((field x).head? = some 48 → field x = [48]) := by
  obtain ⟨ds, e, h16, h1, h4, hz⟩ := field_digits x
  rw [e]
  refine ⟨?_, by simpa using h1, by simpa using h4, ?_⟩
  · intro c hc
    obtain ⟨d, hd, rfl⟩ := List.mem_map.1 hc
    exact digit_lowerHex (h16 d hd)
  · intro hh
    cases ds with
    | nil => simp at h1
    | cons d ds' =>
      simp only [List.map_cons, List.head?_cons, Option.some.injEq] at hh
      have : d = 0 := (digit_eq_48 (h16 d List.mem_cons_self)).1 hh
      subst this
      rw [hz rfl]; rfl

theorem field_no58 (x : Nat) : 58 ∉ field x := fun h =>
  not_lowerHex_of (Or.inr (Or.inr rfl)) ((field_spec x).1 58 h)

theorem field_ne_nil (x : Nat) : field x ≠ [] := by
  have := (field_spec x).2.1
  intro h; rw [h] at this; simp at this

/-! ### counting "::" -/

theorem countDC_no58 {s : Str} (h : 58 ∉ s) : countDC s = 0 := by
  induction s with
  | nil => rfl
  | cons c r ih =>
    have hc : c ≠ 58 := fun e => h (by simp [e])
    simp only [countDC, hc, false_and, if_false, Nat.zero_add]
    exact ih (fun hm => h (List.mem_cons_of_mem _ hm))

theorem countDC_append_left {A : Str} (R : Str) (h0 : countDC A = 0) (hl : A.getLast? ≠ some 58) :
    countDC (A ++ R) = countDC R := by
  induction A with
  | nil => rfl
  | cons a A' ih =>
    cases A' with
    | nil =>
      have ha : a ≠ 58 := by simpa using hl
      simp [countDC, ha]
    | cons b A'' =>
      simp only [countDC, List.head?_cons, Option.some.injEq] at h0
      have hl' : (b :: A'').getLast? ≠ some 58 := by simpa [List.getLast?_cons_cons] using hl
      have := ih (by simp only [countDC]; omega) hl'
      simp only [List.cons_append, countDC, List.head?_cons, Option.some.injEq] at this ⊢
      omega

theorem countDC_dc {B : Str} (hh : B.head? ≠ some 58) : countDC ([58, 58] ++ B) = 1 + countDC B := by
  simp [countDC, hh]

/-- colon-joined fields: no "::", no colon at either end -/
theorem fields_good (l : List Nat) :
    countDC (fields l) = 0 ∧ (fields l).head? ≠ some 58 ∧ (fields l).getLast? ≠ some 58 ∧ (l ≠ [] → fields l ≠ []) := by
  induction l with
  | nil => simp [fields, countDC]
  | cons x r ih =>
    have hf := field_no58 x
    have hne := field_ne_nil x
    have hhead : (field x).head? ≠ some 58 := fun h => hf (List.mem_of_head? h)
    have hlast : (field x).getLast? ≠ some 58 := fun h => hf (List.mem_of_getLast? h)
    cases r with
    | nil => exact ⟨countDC_no58 hf, hhead, hlast, fun _ => hne⟩
    | cons y r' =>
      obtain ⟨i1, i2, i3, i4⟩ := ih
      have hFne := i4 (by simp)
      simp only [fields]
      refine ⟨?_, ?_, ?_, fun _ => by simp⟩
      · rw [countDC_append_left _ (countDC_no58 hf) hlast]
        simp only [countDC, i1, Nat.add_zero]
        simp [i2]
      · cases hfx : field x with
        | nil => exact absurd hfx hne
        | cons c t => rw [hfx] at hhead; simpa using hhead
      · rw [List.getLast?_append]
        cases hF : fields (y :: r') with
        | nil => exact absurd hF hFne
        | cons c t =>
          rw [hF] at i3
          simp only [List.getLast?_cons_cons]
          intro h
          apply i3
          simpa [List.getLast?_cons] using h

/-- §4.2: in the recommended form "::" occurs at most once — exactly once iff there is a run of two zero fields -/
theorem countDC_format (l : List Nat) : countDC (format l) = if longest l < 2 then 0 else 1 := by
  unfold format
  split
  · exact (fields_good l).1
  · obtain ⟨a1, _, a3, _⟩ := fields_good (l.take (firstAt (longest l) l))
    obtain ⟨b1, b2, _, _⟩ := fields_good (l.drop (firstAt (longest l) l + longest l))
    rw [List.append_assoc, countDC_append_left _ a1 a3, countDC_dc b2, b1]
end V6More
end Yarl
