/-
  MdLemmas.lean — list algebra of the `MultiDict.update` model (`replaceFrom`, `mdUpdateLoop`, `mdDropTails`).
-/
import YarlModel
namespace Yarl

universe u

def keysOf {V : Type u} (l : List (Str × V)) : List Str := l.map (·.1)

namespace MdLemmas
variable {V : Type u}

/-! ### `replaceFrom` as a list decomposition -/

theorem rf_some (k : Str) (v : V) : ∀ (l : List (Str × V)) (idx start : Nat) (l' : List (Str × V)) (p : Nat),
    replaceFrom k v l idx start = some (l', p) →
    ∃ a b v0, l = a ++ (k, v0) :: b ∧ l' = a ++ (k, v) :: b ∧ p = idx + a.length + 1 ∧
      start ≤ idx + a.length ∧ ∀ x ∈ a.drop (start - idx), x.1 ≠ k := by
  intro l
  induction l with
  | nil => intro idx start l' p h; simp [replaceFrom] at h
  | cons hd rest ih =>
    intro idx start l' p h
    obtain ⟨k', v'⟩ := hd
    unfold replaceFrom at h
    split at h
    · rename_i hc
      simp only [Option.some.injEq, Prod.mk.injEq] at h
      refine ⟨[], rest, v', ?_, ?_, ?_, ?_, ?_⟩
      · simp [hc.2]
      · simp [h.1]
      · simp [h.2]
      · simpa using hc.1
      · simp
    · rename_i hc
      split at h
      · rename_i l2 p2 hrec
        simp only [Option.some.injEq, Prod.mk.injEq] at h
        obtain ⟨a, b, v0, h1, h2, h3, h4, h5⟩ := ih _ _ _ _ hrec
        refine ⟨(k', v') :: a, b, v0, ?_, ?_, ?_, ?_, ?_⟩
        · simp [h1]
        · simp [← h.1, h2]
        · simp [← h.2, h3]; omega
        · simp; omega
        · intro x hx
          by_cases hs : start ≤ idx
          · have h0 : start - idx = 0 := by omega
            have h0' : start - (idx + 1) = 0 := by omega
            rw [h0] at hx
            rw [h0'] at h5
            simp only [List.drop_zero, List.mem_cons] at hx h5
            rcases hx with hx | hx
            · subst hx
              intro hk
              exact hc ⟨hs, hk⟩
            · exact h5 x hx
          · have : start - idx = (start - (idx + 1)) + 1 := by omega
            rw [this, List.drop_succ_cons] at hx
            exact h5 x hx
      · simp at h

theorem rf_none (k : Str) (v : V) : ∀ (l : List (Str × V)) (idx start : Nat),
    replaceFrom k v l idx start = none → ∀ x ∈ l.drop (start - idx), x.1 ≠ k := by
  intro l
  induction l with
  | nil => intro idx start _ x hx; simp at hx
  | cons hd rest ih =>
    intro idx start h x hx
    obtain ⟨k', v'⟩ := hd
    unfold replaceFrom at h
    split at h
    · simp at h
    · rename_i hc
      split at h
      · simp at h
      · rename_i hrec
        have h5 := ih _ _ hrec
        by_cases hs : start ≤ idx
        · have h0 : start - idx = 0 := by omega
          have h0' : start - (idx + 1) = 0 := by omega
          rw [h0] at hx
          rw [h0'] at h5
          simp only [List.drop_zero, List.mem_cons] at hx h5
          rcases hx with hx | hx
          · subst hx
            intro hk
            exact hc ⟨hs, hk⟩
          · exact h5 x hx
        · have : start - idx = (start - (idx + 1)) + 1 := by omega
          rw [this, List.drop_succ_cons] at hx
          exact h5 x hx

/-! ### the `used` table -/

theorem usedGet_nil (k : Str) : usedGet [] k = none := rfl

theorem usedGet_set_self (used : List (Str × Nat)) (k : Str) (p : Nat) : usedGet (usedSet used k p) k = some p := by
  simp [usedGet, usedSet]

theorem find?_filter_of_imp {α} (q r : α → Bool) (hqr : ∀ x, q x = true → r x = true) :
    ∀ l : List α, (l.filter r).find? q = l.find? q := by
  intro l
  induction l with
  | nil => rfl
  | cons hd tl ih =>
    rw [List.filter_cons]
    by_cases hr : r hd = true
    · rw [if_pos hr, List.find?_cons, List.find?_cons, ih]
    · rw [if_neg hr, List.find?_cons, ih]
      have : q hd = false := by
        cases hq : q hd
        · rfl
        · exact absurd (hqr hd hq) hr
      rw [this]

theorem usedGet_set_other (used : List (Str × Nat)) (k k' : Str) (p : Nat) (h : k' ≠ k) :
    usedGet (usedSet used k p) k' = usedGet used k' := by
  have hk : ¬ k = k' := fun e => h e.symm
  simp only [usedGet, usedSet, List.find?_cons, hk, decide_false]
  congr 1
  apply find?_filter_of_imp
  intro x hx
  simp only [decide_eq_true_eq] at hx
  simp only [ne_eq, decide_not, Bool.not_eq_eq_eq_not, Bool.not_true, decide_eq_false_iff_not]
  rw [hx]; exact h

/-! ### one step of the first loop -/

/-- what one iteration of the first loop does to the item list: `items = a ++ c`, and either `c` is empty (append)
    or `c` starts with the first entry of key `k` at or after `start` (replace) -/
def Shape (items items' : List (Str × V)) (k : Str) (v : V) (p start : Nat) : Prop :=
  ∃ a c b, items = a ++ c ∧ items' = a ++ (k, v) :: b ∧ p = a.length + 1 ∧
    ((c = [] ∧ b = []) ∨ (∃ v0, c = (k, v0) :: b ∧ start ≤ a.length)) ∧ (∀ x ∈ a.drop start, x.1 ≠ k)

theorem loop_cons (items : List (Str × V)) (used : List (Str × Nat)) (k : Str) (v : V) (rest : List (Str × V)) :
    ∃ items' p, mdUpdateLoop items used ((k, v) :: rest) = mdUpdateLoop items' (usedSet used k p) rest ∧
      Shape items items' k v p ((usedGet used k).getD 0) := by
  simp only [mdUpdateLoop]
  split
  · rename_i items' p hrf
    refine ⟨items', p, rfl, ?_⟩
    obtain ⟨a, b, v0, h1, h2, h3, h4, h5⟩ := rf_some k v _ _ _ _ _ hrf
    refine ⟨a, (k, v0) :: b, b, h1, h2, by omega, Or.inr ⟨v0, rfl, by omega⟩, ?_⟩
    simpa using h5
  · rename_i hrf
    refine ⟨items ++ [(k, v)], (items ++ [(k, v)]).length, rfl, ?_⟩
    have h5 := rf_none k v _ _ _ hrf
    refine ⟨items, [], [], by simp, rfl, by simp, Or.inl ⟨rfl, rfl⟩, ?_⟩
    simpa using h5

theorem filter_nil_of_forall_ne {l : List (Str × V)} {k : Str} (h : ∀ x ∈ l, x.1 ≠ k) :
    l.filter (fun p => p.1 = k) = [] := by
  simp only [List.filter_eq_nil_iff, decide_eq_true_eq]
  exact h

theorem filter_take_of_drop_ne (a : List (Str × V)) (k : Str) (s : Nat) (h : ∀ x ∈ a.drop s, x.1 ≠ k) :
    a.filter (fun p => p.1 = k) = (a.take s).filter (fun p => p.1 = k) := by
  conv => lhs; rw [← List.take_append_drop s a]
  rw [List.filter_append, filter_nil_of_forall_ne h, List.append_nil]

section shape
variable {items items' : List (Str × V)} {k : Str} {v : V} {p start : Nat}

theorem Shape.keys (h : Shape items items' k v p start) : ∃ ext, keysOf items' = keysOf items ++ ext := by
  obtain ⟨a, c, b, h1, h2, _, h4, _⟩ := h
  rcases h4 with ⟨hc, hb⟩ | ⟨v0, hc, _⟩
  · exact ⟨[k], by simp [keysOf, h1, h2, hc, hb]⟩
  · exact ⟨[], by simp [keysOf, h1, h2, hc]⟩

theorem Shape.filter_other (h : Shape items items' k v p start) (f : Str → Bool) (hf : f k = false) :
    items'.filter (fun x => f x.1) = items.filter (fun x => f x.1) := by
  obtain ⟨a, c, b, h1, h2, _, h4, _⟩ := h
  rcases h4 with ⟨hc, hb⟩ | ⟨v0, hc, _⟩
  · simp [h1, h2, hc, hb, hf]
  · simp [h1, h2, hc, hf]

theorem Shape.take_other (h : Shape items items' k v p start) (k' : Str) (hk : k' ≠ k) (n : Nat) :
    (items'.take n).filter (fun x => x.1 = k') = (items.take n).filter (fun x => x.1 = k') := by
  obtain ⟨a, c, b, h1, h2, _, h4, _⟩ := h
  have hk' : ¬ k = k' := fun e => hk e.symm
  rcases h4 with ⟨hc, hb⟩ | ⟨v0, hc, _⟩
  · subst h1 h2 hc hb
    simp only [List.take_append, List.filter_append, List.append_nil]
    cases (n - a.length) <;> simp [hk']
  · subst h1 h2 hc
    simp only [List.take_append, List.filter_append]
    cases (n - a.length) <;> simp [hk']

theorem Shape.drop_other (h : Shape items items' k v p start) (k' : Str) (hk : k' ≠ k) (n : Nat) :
    (items'.drop n).filter (fun x => x.1 = k') = (items.drop n).filter (fun x => x.1 = k') := by
  obtain ⟨a, c, b, h1, h2, _, h4, _⟩ := h
  have hk' : ¬ k = k' := fun e => hk e.symm
  rcases h4 with ⟨hc, hb⟩ | ⟨v0, hc, _⟩
  · subst h1 h2 hc hb
    simp only [List.drop_append, List.filter_append, List.append_nil]
    cases (n - a.length) <;> simp [hk']
  · subst h1 h2 hc
    simp only [List.drop_append, List.filter_append]
    cases (n - a.length) <;> simp [hk']

theorem Shape.take_self (h : Shape items items' k v p start) :
    (items'.take p).filter (fun x => x.1 = k) = (items.take start).filter (fun x => x.1 = k) ++ [(k, v)] := by
  obtain ⟨a, c, b, h1, h2, h3, h4, h5⟩ := h
  have ha := filter_take_of_drop_ne a k start h5
  have e1 : (items'.take p).filter (fun x => x.1 = k) = a.filter (fun x => x.1 = k) ++ [(k, v)] := by
    subst h2 h3
    have : List.take (a.length + 1) a = a := List.take_of_length_le (by omega)
    simp [List.take_append, this]
  rw [e1, ha]
  congr 2
  rcases h4 with ⟨hc, hb⟩ | ⟨v0, hc, hs⟩
  · simp [h1, hc]
  · rw [h1, List.take_append_of_le_length hs]

theorem Shape.drop_self (h : Shape items items' k v p start) :
    ((items'.drop p).filter (fun x => x.1 = k)).map (·.2) =
      (((items.drop start).filter (fun x => x.1 = k)).map (·.2)).tail := by
  obtain ⟨a, c, b, h1, h2, h3, h4, h5⟩ := h
  have ha := filter_nil_of_forall_ne h5
  have e1 : (items'.drop p) = b := by
    subst h2 h3
    simp [List.drop_append]
  rw [e1]
  rcases h4 with ⟨hc, hb⟩ | ⟨v0, hc, hs⟩
  · subst h1 hc hb
    simp [ha]
  · subst h1 hc
    have : start - a.length = 0 := by omega
    simp [List.drop_append, List.filter_append, ha, this]

end shape

/-! ### the first loop -/

def pos (used : List (Str × Nat)) (k : Str) : Nat := (usedGet used k).getD 0
def valsOf (k : Str) (l : List (Str × V)) : List V := (l.filter (fun x => x.1 = k)).map (·.2)

theorem valsOf_cons_self (k : Str) (v : V) (l : List (Str × V)) : valsOf k ((k, v) :: l) = v :: valsOf k l := by
  simp [valsOf]
theorem valsOf_cons_other (k k0 : Str) (v : V) (l : List (Str × V)) (h : k ≠ k0) : valsOf k ((k0, v) :: l) = valsOf k l := by
  have : ¬ k0 = k := fun e => h e.symm
  simp [valsOf, this]

theorem loop_vals (new : List (Str × V)) : ∀ (items : List (Str × V)) (used : List (Str × Nat)) (k : Str),
    valsOf k ((mdUpdateLoop items used new).1.take (pos (mdUpdateLoop items used new).2 k)) =
        valsOf k (items.take (pos used k)) ++ valsOf k new ∧
    valsOf k ((mdUpdateLoop items used new).1.drop (pos (mdUpdateLoop items used new).2 k)) =
        (valsOf k (items.drop (pos used k))).drop (valsOf k new).length := by
  induction new with
  | nil => intro items used k; simp [mdUpdateLoop, valsOf]
  | cons hd rest ih =>
    intro items used k
    obtain ⟨k0, v⟩ := hd
    obtain ⟨items', p, heq, hsh⟩ := loop_cons items used k0 v rest
    rw [heq]
    obtain ⟨ih1, ih2⟩ := ih items' (usedSet used k0 p) k
    rw [ih1, ih2]
    by_cases hk : k = k0
    · subst hk
      have hp : pos (usedSet used k p) k = p := by simp [pos, usedGet_set_self]
      rw [hp, valsOf_cons_self]
      constructor
      · have := hsh.take_self
        simp only [valsOf, pos] at *
        rw [this]
        simp
      · have := hsh.drop_self
        simp only [valsOf, pos] at *
        rw [this]
        simp
    · have hp : pos (usedSet used k0 p) k = pos used k := by simp [pos, usedGet_set_other _ _ _ _ hk]
      rw [hp, valsOf_cons_other _ _ _ _ hk]
      simp only [valsOf]
      rw [hsh.take_other k hk, hsh.drop_other k hk]
      exact ⟨rfl, rfl⟩

theorem loop_used (new : List (Str × V)) : ∀ (items : List (Str × V)) (used : List (Str × Nat)) (k : Str),
    (k ∈ keysOf new → ∃ p, usedGet (mdUpdateLoop items used new).2 k = some p) ∧
    (k ∉ keysOf new → usedGet (mdUpdateLoop items used new).2 k = usedGet used k) := by
  induction new with
  | nil => intro items used k; simp [mdUpdateLoop, keysOf]
  | cons hd rest ih =>
    intro items used k
    obtain ⟨k0, v⟩ := hd
    obtain ⟨items', p, heq, _⟩ := loop_cons items used k0 v rest
    rw [heq]
    obtain ⟨ih1, ih2⟩ := ih items' (usedSet used k0 p) k
    constructor
    · intro hk
      by_cases hr : k ∈ keysOf rest
      · exact ih1 hr
      · have : k = k0 := by
          simp only [keysOf, List.map_cons, List.mem_cons] at hk hr
          rcases hk with hk | hk
          · exact hk
          · exact absurd hk hr
        subst this
        exact ⟨p, by rw [ih2 hr, usedGet_set_self]⟩
    · intro hk
      simp only [keysOf, List.map_cons, List.mem_cons, not_or] at hk
      rw [ih2 hk.2, usedGet_set_other _ _ _ _ hk.1]

theorem loop_filter_other (f : Str → Bool) (new : List (Str × V)) : ∀ (items : List (Str × V)) (used : List (Str × Nat)),
    (∀ k ∈ keysOf new, f k = false) →
    (mdUpdateLoop items used new).1.filter (fun x => f x.1) = items.filter (fun x => f x.1) := by
  induction new with
  | nil => intro items used _; simp [mdUpdateLoop]
  | cons hd rest ih =>
    intro items used hf
    obtain ⟨k0, v⟩ := hd
    obtain ⟨items', p, heq, hsh⟩ := loop_cons items used k0 v rest
    rw [heq, ih items' _ (fun k hk => hf k (by simp only [keysOf, List.map_cons, List.mem_cons]; exact Or.inr hk))]
    exact hsh.filter_other f (hf k0 (by simp [keysOf]))

theorem loop_keys (new : List (Str × V)) : ∀ (items : List (Str × V)) (used : List (Str × Nat)),
    ∃ ext, keysOf (mdUpdateLoop items used new).1 = keysOf items ++ ext := by
  induction new with
  | nil => intro items used; exact ⟨[], by simp [mdUpdateLoop]⟩
  | cons hd rest ih =>
    intro items used
    obtain ⟨k0, v⟩ := hd
    obtain ⟨items', p, heq, hsh⟩ := loop_cons items used k0 v rest
    obtain ⟨e1, h1⟩ := hsh.keys
    obtain ⟨e2, h2⟩ := ih items' (usedSet used k0 p)
    exact ⟨e1 ++ e2, by rw [heq, h2, h1, List.append_assoc]⟩

/-! ### the second loop -/

theorem dt_nil (used : List (Str × Nat)) (i : Nat) : mdDropTails used ([] : List (Str × V)) i = [] := rfl

theorem dt_cons_none (used : List (Str × Nat)) (k : Str) (v : V) (rest : List (Str × V)) (i : Nat)
    (h : usedGet used k = none) : mdDropTails used ((k, v) :: rest) i = (k, v) :: mdDropTails used rest (i + 1) := by
  rw [mdDropTails]; simp only [h]

theorem dt_cons_del (used : List (Str × Nat)) (k : Str) (v : V) (rest : List (Str × V)) (i p : Nat)
    (h : usedGet used k = some p) (hp : p ≤ i) : mdDropTails used ((k, v) :: rest) i = mdDropTails used rest i := by
  rw [mdDropTails]; simp only [h, ge_iff_le, hp, ↓reduceIte]

theorem dt_cons_keep (used : List (Str × Nat)) (k : Str) (v : V) (rest : List (Str × V)) (i p : Nat)
    (h : usedGet used k = some p) (hp : i < p) :
    mdDropTails used ((k, v) :: rest) i = (k, v) :: mdDropTails used rest (i + 1) := by
  have : ¬ p ≤ i := by omega
  rw [mdDropTails]; simp only [h, ge_iff_le, this, ↓reduceIte]

/-- case analysis on the head of the second loop -/
theorem dt_cases (used : List (Str × Nat)) (k : Str) (v : V) (rest : List (Str × V)) (i : Nat) :
    (mdDropTails used ((k, v) :: rest) i = (k, v) :: mdDropTails used rest (i + 1) ∧ ∀ p, usedGet used k = some p → i < p) ∨
    (mdDropTails used ((k, v) :: rest) i = mdDropTails used rest i ∧ ∃ p, usedGet used k = some p ∧ p ≤ i) := by
  cases h : usedGet used k with
  | none => exact Or.inl ⟨dt_cons_none _ _ _ _ _ h, by simp⟩
  | some p =>
    by_cases hp : p ≤ i
    · exact Or.inr ⟨dt_cons_del _ _ _ _ _ _ h hp, p, rfl, hp⟩
    · refine Or.inl ⟨dt_cons_keep _ _ _ _ _ _ h (by omega), ?_⟩
      intro p' hp'
      simp only [Option.some.injEq] at hp'
      omega

theorem dt_sublist (used : List (Str × Nat)) : ∀ (l : List (Str × V)) (i : Nat), (mdDropTails used l i).Sublist l := by
  intro l
  induction l with
  | nil => intro i; simp [mdDropTails]
  | cons hd rest ih =>
    intro i
    obtain ⟨k, v⟩ := hd
    rcases dt_cases used k v rest i with ⟨h, _⟩ | ⟨h, _⟩
    · rw [h]; exact (ih _).cons_cons _
    · rw [h]; exact (ih _).cons _

theorem dt_keep_unused (used : List (Str × Nat)) (f : Str → Bool) (hf : ∀ x, f x = true → usedGet used x = none) :
    ∀ (l : List (Str × V)) (i : Nat), (mdDropTails used l i).filter (fun x => f x.1) = l.filter (fun x => f x.1) := by
  intro l
  induction l with
  | nil => intro i; simp [mdDropTails]
  | cons hd rest ih =>
    intro i
    obtain ⟨k, v⟩ := hd
    rcases dt_cases used k v rest i with ⟨h, _⟩ | ⟨h, p, hp, _⟩
    · rw [h]; simp only [List.filter_cons, ih]
    · have hfk : f k = false := by
        cases h : f k
        · rfl
        · rw [hf k h] at hp; simp at hp
      rw [h]; simp only [List.filter_cons, ih, hfk]; simp

theorem dt_append (used : List (Str × Nat)) : ∀ (x z : List (Str × V)) (i : Nat),
    mdDropTails used (x ++ z) i = mdDropTails used x i ++ mdDropTails used z (i + (mdDropTails used x i).length) := by
  intro x
  induction x with
  | nil => intro z i; simp [mdDropTails]
  | cons hd rest ih =>
    intro z i
    obtain ⟨k, v⟩ := hd
    simp only [List.cons_append]
    cases h : usedGet used k with
    | none =>
      rw [dt_cons_none _ _ _ _ _ h, dt_cons_none _ _ _ _ _ h, ih, List.cons_append, List.length_cons]
      congr 3; omega
    | some p =>
      by_cases hp : p ≤ i
      · rw [dt_cons_del _ _ _ _ _ _ h hp, dt_cons_del _ _ _ _ _ _ h hp, ih]
      · rw [dt_cons_keep _ _ _ _ _ _ h (by omega), dt_cons_keep _ _ _ _ _ _ h (by omega), ih, List.cons_append,
          List.length_cons]
        congr 3; omega

theorem filter_cons_self (k : Str) (v : V) (l : List (Str × V)) :
    ((k, v) :: l).filter (fun x => x.1 = k) = (k, v) :: l.filter (fun x => x.1 = k) := by simp
theorem filter_cons_other (k k' : Str) (v : V) (l : List (Str × V)) (h : k' ≠ k) :
    ((k', v) :: l).filter (fun x => x.1 = k) = l.filter (fun x => x.1 = k) := by simp [h]

/-- `l` is the not yet visited part of the list, `i` the running index of the second loop and `j ≥ i` the index the
    head of `l` had before any deletion.  The entries of key `k` before the recorded position `p` all survive;
    of those at or after `p` only a sublist is deleted. -/
theorem dt_split (used : List (Str × Nat)) (k : Str) (p : Nat) (h : usedGet used k = some p) :
    ∀ (l : List (Str × V)) (i j : Nat), i ≤ j →
    ∃ S, (mdDropTails used l i).filter (fun x => x.1 = k) = (l.take (p - j)).filter (fun x => x.1 = k) ++ S ∧
         S.Sublist ((l.drop (p - j)).filter (fun x => x.1 = k)) := by
  intro l
  induction l with
  | nil => intro i j _; exact ⟨[], by simp [mdDropTails]⟩
  | cons hd rest ih =>
    intro i j hij
    by_cases hpj : p ≤ j
    · have h0 : p - j = 0 := by omega
      rw [h0]
      exact ⟨_, by simp, (dt_sublist used _ i).filter _⟩
    · have hm : p - j = (p - (j + 1)) + 1 := by omega
      obtain ⟨k', v'⟩ := hd
      rw [hm, List.take_succ_cons, List.drop_succ_cons]
      rcases dt_cases used k' v' rest i with ⟨he, _⟩ | ⟨he, p', hp', hle⟩
      · obtain ⟨S, hS1, hS2⟩ := ih (i + 1) (j + 1) (by omega)
        refine ⟨S, ?_, hS2⟩
        rw [he]
        by_cases hk : k' = k
        · subst hk
          rw [filter_cons_self, filter_cons_self, hS1, List.cons_append]
        · rw [filter_cons_other _ _ _ _ hk, filter_cons_other _ _ _ _ hk, hS1]
      · have hk : k' ≠ k := by
          intro e
          subst e
          rw [h] at hp'
          simp only [Option.some.injEq] at hp'
          omega
        obtain ⟨S, hS1, hS2⟩ := ih i (j + 1) (by omega)
        refine ⟨S, ?_, hS2⟩
        rw [he, filter_cons_other _ _ _ _ hk, hS1]

/-- if no other updated key has entries at or after its recorded position, the index shift caused by deletions is
    harmless and exactly the entries of `k` before `p` survive -/
theorem dt_exact (used : List (Str × Nat)) (k : Str) (p : Nat) (h : usedGet used k = some p) :
    ∀ (l : List (Str × V)) (i j : Nat), i ≤ j → (i = j ∨ p ≤ i) →
    (∀ k' p', k' ≠ k → usedGet used k' = some p' → ∀ x ∈ l.drop (p' - j), x.1 ≠ k') →
    (mdDropTails used l i).filter (fun x => x.1 = k) = (l.take (p - j)).filter (fun x => x.1 = k) := by
  intro l
  induction l with
  | nil => intro i j _ _ _; simp [mdDropTails]
  | cons hd rest ih =>
    intro i j hij hinv hother
    obtain ⟨k', v'⟩ := hd
    have hother' : ∀ k'' p', k'' ≠ k → usedGet used k'' = some p' → ∀ x ∈ rest.drop (p' - (j + 1)), x.1 ≠ k'' := by
      intro k'' p' hne hu x hx
      apply hother k'' p' hne hu x
      by_cases hp : p' ≤ j
      · have h0 : p' - j = 0 := by omega
        rw [h0, List.drop_zero]
        exact List.mem_cons_of_mem _ (List.mem_of_mem_drop hx)
      · have hm : p' - j = (p' - (j + 1)) + 1 := by omega
        rw [hm, List.drop_succ_cons]
        exact hx
    rcases dt_cases used k' v' rest i with ⟨he, hlt⟩ | ⟨he, p', hp', hle⟩
    · rw [he]
      by_cases hk : k' = k
      · subst hk
        have := hlt p h
        have hm : p - j = (p - (j + 1)) + 1 := by omega
        rw [hm, List.take_succ_cons, filter_cons_self, filter_cons_self,
          ih (i + 1) (j + 1) (by omega) (by omega) hother']
      · rw [filter_cons_other _ _ _ _ hk, ih (i + 1) (j + 1) (by omega) (by omega) hother']
        by_cases hpj : p ≤ j
        · have h0 : p - j = 0 := by omega
          have h1 : p - (j + 1) = 0 := by omega
          rw [h0, h1]; simp
        · have hm : p - j = (p - (j + 1)) + 1 := by omega
          rw [hm, List.take_succ_cons, filter_cons_other _ _ _ _ hk]
    · rw [he]
      by_cases hk : k' = k
      · subst hk
        rw [h] at hp'
        simp only [Option.some.injEq] at hp'
        subst hp'
        have h0 : p - j = 0 := by omega
        have h1 : p - (j + 1) = 0 := by omega
        rw [ih i (j + 1) (by omega) (by omega) hother', h0, h1]; simp
      · exfalso
        have h0 : p' - j = 0 := by omega
        have := hother k' p' hk hp' (k', v') (by rw [h0]; simp)
        exact this rfl

/-! ### positions -/

theorem rf_none_of_not_mem (k : Str) (v : V) : ∀ (l : List (Str × V)) (idx start : Nat),
    (∀ x ∈ l, x.1 ≠ k) → replaceFrom k v l idx start = none := by
  intro l
  induction l with
  | nil => intro idx start _; rfl
  | cons hd rest ih =>
    intro idx start h
    obtain ⟨k', v'⟩ := hd
    have hk : ¬ k' = k := h (k', v') (by simp)
    rw [replaceFrom]
    simp only [hk, and_false, ↓reduceIte, ih (idx + 1) start (fun x hx => h x (List.mem_cons_of_mem _ hx))]

/-- nothing is deleted from a segment all of whose updated entries lie before the recorded position of their key -/
theorem dt_id (used : List (Str × Nat)) : ∀ (l : List (Str × V)) (i : Nat),
    (∀ (t : Nat) (ht : t < l.length) (p : Nat), usedGet used (l[t]).1 = some p → i + t < p) →
    mdDropTails used l i = l := by
  intro l
  induction l with
  | nil => intro i _; rfl
  | cons hd rest ih =>
    intro i h
    obtain ⟨k, v⟩ := hd
    have hrest : mdDropTails used rest (i + 1) = rest := by
      apply ih
      intro t ht p hp
      have := h (t + 1) (by simp; omega) p (by simpa using hp)
      omega
    rcases dt_cases used k v rest i with ⟨he, _⟩ | ⟨_, p, hp, hle⟩
    · rw [he, hrest]
    · have := h 0 (by simp) p (by simpa using hp)
      omega

theorem valsOf_append (k : Str) (a b : List (Str × V)) : valsOf k (a ++ b) = valsOf k a ++ valsOf k b := by
  simp [valsOf]

theorem valsOf_nil_of_not_mem (k : Str) (l : List (Str × V)) (h : k ∉ keysOf l) : valsOf k l = [] := by
  simp only [valsOf, List.map_eq_nil_iff]
  apply filter_nil_of_forall_ne
  intro x hx e
  exact h (by simp only [keysOf, List.mem_map]; exact ⟨x, hx, e⟩)

theorem valsOf_ne_nil_of_mem (k : Str) (l : List (Str × V)) (h : k ∈ keysOf l) : valsOf k l ≠ [] := by
  simp only [keysOf, List.mem_map] at h
  obtain ⟨x, hx, e⟩ := h
  have : x.2 ∈ valsOf k l := by
    simp only [valsOf, List.mem_map, List.mem_filter, decide_eq_true_eq]
    exact ⟨x, ⟨hx, e⟩, rfl⟩
  exact List.ne_nil_of_mem this

theorem not_mem_keysOf_take (k : Str) (l : List (Str × V)) (n : Nat) (h : k ∉ keysOf l) : k ∉ keysOf (l.take n) := by
  intro hm
  apply h
  simp only [keysOf, List.mem_map] at hm ⊢
  obtain ⟨x, hx, e⟩ := hm
  exact ⟨x, List.mem_of_mem_take hx, e⟩

/-- after the first loop the recorded position of an updated key lies behind the first entry of that key, and that
    entry carries the first new value -/
theorem pos_gt_first (old new : List (Str × V)) (k : Str) (hk : k ∈ keysOf new) (X Y : List (Str × V)) (w : V)
    (hitems : (mdUpdateLoop old [] new).1 = X ++ (k, w) :: Y) (hX : k ∉ keysOf X) (p : Nat)
    (hp : usedGet (mdUpdateLoop old [] new).2 k = some p) : X.length < p ∧ (valsOf k new).head? = some w := by
  have h1 := (loop_vals new old [] k).1
  have hpos : pos (mdUpdateLoop old [] new).2 k = p := by simp [pos, hp]
  have hp0 : pos [] k = 0 := rfl
  rw [hpos, hp0, hitems] at h1
  simp only [List.take_zero] at h1
  have h0 : valsOf k ([] : List (Str × V)) = [] := rfl
  rw [h0, List.nil_append] at h1
  have hlt : X.length < p := by
    by_cases hlt : X.length < p
    · exact hlt
    · exfalso
      rw [List.take_append_of_le_length (by omega), valsOf_nil_of_not_mem k _ (not_mem_keysOf_take k X p hX)] at h1
      exact valsOf_ne_nil_of_mem k new hk h1.symm
  refine ⟨hlt, ?_⟩
  have hm : p - X.length = (p - X.length - 1) + 1 := by omega
  rw [List.take_append, hm, List.take_succ_cons, List.take_of_length_le (by omega), valsOf_append,
    valsOf_nil_of_not_mem k X hX, List.nil_append, valsOf_cons_self] at h1
  rw [← h1]; rfl

theorem keysOf_append (a b : List (Str × V)) : keysOf (a ++ b) = keysOf a ++ keysOf b := by simp [keysOf]

/-- the result of `mdUpdate` around the first entry of an updated key that already existed -/
theorem update_first_split (A B : List (Str × V)) (k : Str) (v0 : V) (new : List (Str × V))
    (hk : k ∈ keysOf new) (_hA : k ∉ keysOf A) :
    ∃ X Y v1, (mdUpdateLoop (A ++ (k, v0) :: B) [] new).1 = X ++ (k, v1) :: Y ∧ keysOf X = keysOf A ∧
      mdUpdate (A ++ (k, v0) :: B) new =
        mdDropTails (mdUpdateLoop (A ++ (k, v0) :: B) [] new).2 X 0 ++ (k, v1) ::
          mdDropTails (mdUpdateLoop (A ++ (k, v0) :: B) [] new).2 Y
            ((mdDropTails (mdUpdateLoop (A ++ (k, v0) :: B) [] new).2 X 0).length + 1) ∧
      (valsOf k new).head? = some v1 := by
  obtain ⟨ext, hext⟩ := loop_keys new (A ++ (k, v0) :: B) []
  have hne : new ≠ [] := by intro e; subst e; simp [keysOf] at hk
  rw [keysOf_append, List.append_assoc] at hext
  simp only [keysOf] at hext
  obtain ⟨X, Z, hXZ, hXk, hZ⟩ := List.map_eq_append_iff.mp hext
  simp only [List.map_cons, List.cons_append] at hZ
  obtain ⟨hd, Y, hZ', hhd, _⟩ := List.map_eq_cons_iff.mp hZ
  obtain ⟨k1, v1⟩ := hd
  simp only at hhd
  subst hhd
  subst hZ'
  obtain ⟨p, hp⟩ := (loop_used new (A ++ (k1, v0) :: B) [] k1).1 hk
  have hXA : k1 ∉ keysOf X := by simpa only [keysOf, hXk] using _hA
  obtain ⟨hlt, hhead⟩ := pos_gt_first _ new k1 hk X Y v1 hXZ hXA p hp
  refine ⟨X, Y, v1, hXZ, hXk, ?_, hhead⟩
  have hmd : mdUpdate (A ++ (k1, v0) :: B) new =
      mdDropTails (mdUpdateLoop (A ++ (k1, v0) :: B) [] new).2 (mdUpdateLoop (A ++ (k1, v0) :: B) [] new).1 0 := by
    unfold mdUpdate
    cases new with
    | nil => exact absurd rfl hne
    | cons a b => simp
  rw [hmd, hXZ, dt_append, Nat.zero_add]
  have hle := (dt_sublist (mdUpdateLoop (A ++ (k1, v0) :: B) [] new).2 X 0).length_le
  have hXl : X.length = A.length := by
    have := congrArg List.length hXk
    simpa using this
  rw [dt_cons_keep _ _ _ _ _ p hp (by omega)]

/-! ### the argument gate: which errors the query-string builders can raise -/

def ErrKind (e : PyErr) : Prop := e = .typeError ∨ e = .valueError

theorem mapM_error {α β : Type} (f : α → R β) (P : PyErr → Prop) (hf : ∀ x e, f x = .error e → P e) :
    ∀ (l : List α) (e : PyErr), l.mapM f = .error e → P e := by
  intro l
  induction l with
  | nil => intro e h; simp [pure, Except.pure] at h
  | cons x xs ih =>
    intro e h
    rw [List.mapM_cons] at h
    cases hx : f x with
    | error e1 =>
      rw [hx] at h
      simp only [bind, Except.bind] at h
      cases h
      exact hf x e hx
    | ok y =>
      rw [hx] at h
      cases hxs : xs.mapM f with
      | error e2 =>
        rw [hxs] at h
        simp only [bind, Except.bind] at h
        cases h
        exact ih e hxs
      | ok ys =>
        rw [hxs] at h
        simp [bind, Except.bind, pure, Except.pure] at h

theorem bind_pure_error {α β : Type} (x : R α) (g : α → β) (e : PyErr)
    (h : (x >>= fun a => pure (g a)) = .error e) : x = .error e := by
  cases x with
  | error e1 => simp only [bind, Except.bind] at h; cases h; rfl
  | ok a => simp [bind, Except.bind, pure, Except.pure] at h

theorem queryVar_error (v : QVal) (e : PyErr) (h : queryVar v = .error e) : ErrKind e := by
  cases v <;> simp [queryVar] at h
  · split at h <;> simp at h
    exact Or.inr h.symm
  all_goals exact Or.inl h.symm

theorem pairStr_error (b : Backend) (k : Str) (v : QVal) (e : PyErr) (h : pairStr b k v = .error e) : ErrKind e := by
  unfold pairStr at h
  cases hq : queryVar v with
  | error e1 =>
    rw [hq] at h
    simp only [bind, Except.bind] at h
    cases h
    exact queryVar_error v e hq
  | ok s =>
    rw [hq] at h
    simp [bind, Except.bind, pure, Except.pure] at h

theorem seq_error (b : Backend) (items : List (Str × QItem)) (e : PyErr)
    (h : strQueryFromSeqIterable b items = .error e) : ErrKind e := by
  unfold strQueryFromSeqIterable at h
  have hm := bind_pure_error _ _ _ h
  · refine mapM_error _ ErrKind ?_ items e hm
    intro x e2 hx
    obtain ⟨k, it⟩ := x
    cases it with
    | one v =>
      simp only at hx
      cases hp : pairStr b k v with
      | error e3 =>
        rw [hp] at hx
        simp only [bind, Except.bind] at hx
        cases hx
        exact pairStr_error b k v _ hp
      | ok s => rw [hp] at hx; simp [bind, Except.bind, pure, Except.pure] at hx
    | many vs =>
      simp only at hx
      exact mapM_error _ ErrKind (fun v e3 => pairStr_error b k v e3) vs e2 hx

theorem iter_error (b : Backend) (items : List (Str × QItem)) (e : PyErr)
    (h : strQueryFromIterable b items = .error e) : ErrKind e := by
  unfold strQueryFromIterable at h
  have hm := bind_pure_error _ _ _ h
  · refine mapM_error _ ErrKind ?_ items e hm
    intro x e2 hx
    obtain ⟨k, it⟩ := x
    cases it with
    | one v => exact pairStr_error b k v _ hx
    | many vs =>
      simp only at hx
      cases hx
      exact Or.inl rfl

theorem getStrQuery_error (b : Backend) (a : QArg) (e : PyErr) (h : getStrQuery b a = .error e) : ErrKind e := by
  cases a with
  | none => simp [getStrQuery] at h
  | str s => simp only [getStrQuery] at h; split at h <;> simp at h
  | mapping items =>
    simp only [getStrQuery] at h
    split at h
    · simp at h
    · cases hs : strQueryFromSeqIterable b items with
      | error e1 => rw [hs] at h; simp [Except.map] at h; subst h; exact seq_error b items _ hs
      | ok s => rw [hs] at h; simp [Except.map] at h
  | pairs items =>
    simp only [getStrQuery] at h
    split at h
    · simp at h
    · cases hs : strQueryFromIterable b items with
      | error e1 => rw [hs] at h; simp [Except.map] at h; subst h; exact iter_error b items _ hs
      | ok s => rw [hs] at h; simp [Except.map] at h
  | bytes empty =>
    simp only [getStrQuery] at h
    split at h
    · simp at h
    · cases h; exact Or.inl rfl
  | other => simp only [getStrQuery] at h; cases h; exact Or.inl rfl
  | noArgs => simp only [getStrQuery] at h; cases h; exact Or.inr rfl


/-! ### the first offending value of a mapping argument -/

/-- the values of a mapping slot -/
def itemVals : QItem → List QVal
  | .one v => [v]
  | .many vs => vs

/-- all values of a mapping argument in iteration order -/
def flatVals (items : List (Str × QItem)) : List QVal := items.flatMap (fun p => itemVals p.2)

/-- the error raised by the first value that `query_var` rejects -/
def firstErr : List QVal → Option PyErr
  | [] => none
  | v :: vs => match queryVar v with
    | .error e => some e
    | .ok _ => firstErr vs

theorem firstErr_append (a b : List QVal) : firstErr (a ++ b) = (firstErr a).or (firstErr b) := by
  induction a with
  | nil => simp [firstErr]
  | cons v vs ih =>
    simp only [List.cons_append, firstErr]
    cases queryVar v <;> simp [ih]

theorem firstErr_none_iff (vs : List QVal) : firstErr vs = none ↔ ∀ v ∈ vs, ∃ s, queryVar v = .ok s := by
  induction vs with
  | nil => simp [firstErr]
  | cons v vs ih =>
    simp only [firstErr, List.mem_cons, forall_eq_or_imp]
    cases hq : queryVar v with
    | error e => simp
    | ok s => simp [ih]

theorem bind_pure_ok {α β : Type} (x : R α) (g : α → β) (s : β)
    (h : (x >>= fun a => pure (g a)) = .ok s) : ∃ a, x = .ok a := by
  cases x with
  | error e1 => simp [bind, Except.bind] at h
  | ok a => exact ⟨a, rfl⟩

theorem pairStr_of_error (b : Backend) (k : Str) (v : QVal) (e : PyErr) (h : queryVar v = .error e) :
    pairStr b k v = .error e := by
  simp [pairStr, h, bind, Except.bind]

theorem pairStr_of_ok (b : Backend) (k : Str) (v : QVal) (s : Str) (h : queryVar v = .ok s) :
    ∃ r, pairStr b k v = .ok r := by
  simp [pairStr, h, bind, Except.bind, pure, Except.pure]

theorem many_firstErr (b : Backend) (k : Str) : ∀ vs : List QVal,
    (∀ e, firstErr vs = some e → vs.mapM (pairStr b k) = .error e) ∧
    (firstErr vs = none → ∃ ys, vs.mapM (pairStr b k) = .ok ys) := by
  intro vs
  induction vs with
  | nil => exact ⟨by simp [firstErr], fun _ => ⟨[], rfl⟩⟩
  | cons v vs ih =>
    rw [List.mapM_cons]
    simp only [firstErr]
    cases hq : queryVar v with
    | error e1 =>
      simp only [Option.some.injEq, reduceCtorEq, false_implies, and_true]
      intro e he; subst he
      simp [pairStr_of_error b k v e1 hq, bind, Except.bind]
    | ok s =>
      obtain ⟨r, hr⟩ := pairStr_of_ok b k v s hq
      simp only [hr]
      constructor
      · intro e he
        simp [ih.1 e he, bind, Except.bind]
      · intro hn
        obtain ⟨ys, hys⟩ := ih.2 hn
        exact ⟨r :: ys, by simp [hys, bind, Except.bind, pure, Except.pure]⟩

theorem mapM_firstErr_gen {α β : Type} (val : α → List QVal) (f : α → R β)
    (hf : ∀ x, (∀ e, firstErr (val x) = some e → f x = .error e) ∧ (firstErr (val x) = none → ∃ y, f x = .ok y)) :
    ∀ l : List α, (∀ e, firstErr (l.flatMap val) = some e → l.mapM f = .error e) ∧
      (firstErr (l.flatMap val) = none → ∃ ys, l.mapM f = .ok ys) := by
  intro l
  induction l with
  | nil => exact ⟨by simp [firstErr], fun _ => ⟨[], rfl⟩⟩
  | cons x xs ih =>
    rw [List.mapM_cons, List.flatMap_cons, firstErr_append]
    cases hfe : firstErr (val x) with
    | some e1 =>
      simp only [Option.some_or, Option.some.injEq, reduceCtorEq, false_implies, and_true]
      intro e he; subst he
      simp only [(hf x).1 e1 hfe, bind, Except.bind]
    | none =>
      obtain ⟨y, hy⟩ := (hf x).2 hfe
      simp only [Option.none_or, hy]
      constructor
      · intro e he
        simp only [ih.1 e he, bind, Except.bind]
      · intro hn
        obtain ⟨ys, hys⟩ := ih.2 hn
        exact ⟨y :: ys, by simp only [hys, bind, Except.bind, pure, Except.pure]⟩

theorem bind_pure_firstErr {α : Type} (o : Option PyErr) (x : R α) (g : α → Str)
    (h : (∀ e, o = some e → x = .error e) ∧ (o = none → ∃ y, x = .ok y)) :
    (∀ e, o = some e → (x >>= fun a => pure (g a)) = .error e) ∧
    (o = none → ∃ s, (x >>= fun a => pure (g a)) = .ok s) := by
  constructor
  · intro e he; rw [h.1 e he]; rfl
  · intro hn; obtain ⟨y, hy⟩ := h.2 hn; rw [hy]; exact ⟨_, rfl⟩

theorem seq_firstErr (b : Backend) (items : List (Str × QItem)) :
    (∀ e, firstErr (flatVals items) = some e → strQueryFromSeqIterable b items = .error e) ∧
    (firstErr (flatVals items) = none → ∃ s, strQueryFromSeqIterable b items = .ok s) := by
  unfold strQueryFromSeqIterable flatVals
  apply bind_pure_firstErr
  apply mapM_firstErr_gen (fun p : Str × QItem => itemVals p.2)
  intro x
  obtain ⟨k, it⟩ := x
  cases it with
  | many vs => exact many_firstErr b k vs
  | one v =>
    have := many_firstErr b k [v]
    rw [List.mapM_cons] at this
    simp only [itemVals]
    constructor
    · intro e he
      have h1 := this.1 e he
      cases hp : pairStr b k v with
      | error e1 => rw [hp] at h1; simpa [bind, Except.bind] using h1
      | ok r => rw [hp] at h1; simp [bind, Except.bind, pure, Except.pure] at h1
    · intro hn
      obtain ⟨ys, h1⟩ := this.2 hn
      cases hp : pairStr b k v with
      | error e1 => rw [hp] at h1; simp [bind, Except.bind] at h1
      | ok r => exact ⟨[r], by simp [bind, Except.bind, pure, Except.pure]⟩


end MdLemmas
end Yarl
