/-
  UnsplitLemmas.lean — the three Appendix-B stages (`Rfc.schemeOf`, `authOf`, `tailOf`) computed on
  a string that is written as `scheme ":" "//" authority path "?" query "#" fragment`, and conversely the
  re-assembly of a string from its three stages.  Used by C07Recompose.lean.
-/
import YarlModel
import YarlProofs.Lemmas.ParseLemmas
import YarlProofs.C07
namespace Yarl.UnsplitLemmas
open Yarl Yarl.ParseLemmas

/-! ### "empty or starts with a character satisfying P" -/

/-- `b` is empty or its first character satisfies `P` -/
def HeadP (P : Nat → Prop) (b : Str) : Prop := ∀ x, b.head? = some x → P x

theorem headP_nil (P : Nat → Prop) : HeadP P [] := by intro x h; simp at h

theorem headP_cons {P : Nat → Prop} {x : Nat} (t : Str) (h : P x) : HeadP P (x :: t) := by
  intro y hy; simp at hy; subst hy; exact h

theorem headP_mono {P Q : Nat → Prop} {b : Str} (hPQ : ∀ x, P x → Q x) (h : HeadP P b) : HeadP Q b :=
  fun x hx => hPQ x (h x hx)

theorem headP_append {P : Nat → Prop} {a b : Str} (ha : HeadP P a) (hb : HeadP P b) : HeadP P (a ++ b) := by
  cases a with
  | nil => simpa using hb
  | cons x t => intro y hy; exact ha y (by simpa using hy)

theorem takeWhile_stop (p : Nat → Bool) (a b : Str) (ha : ∀ c ∈ a, p c = true)
    (hb : HeadP (fun x => p x = false) b) : (a ++ b).takeWhile p = a := by
  rw [List.takeWhile_append_of_pos ha]
  cases b with
  | nil => simp
  | cons x t =>
    have := hb x rfl
    simp [this]

theorem dropWhile_stop (p : Nat → Bool) (a b : Str) (ha : ∀ c ∈ a, p c = true)
    (hb : HeadP (fun x => p x = false) b) : (a ++ b).dropWhile p = b := by
  rw [List.dropWhile_append_of_pos ha]
  cases b with
  | nil => simp
  | cons x t =>
    have := hb x rfl
    simp [this]

/-! ### the written form -/

/-- `"?" query "#" fragment`, each written only when non-empty -/
def tailStr (q f : Str) : Str :=
  (if !q.isEmpty then 63 :: q else []) ++ (if !f.isEmpty then 35 :: f else [])

/-- the first stage of `unsplit_result` (everything before the query) -/
def unsplitHead (scheme netloc url : Str) : Str :=
  if !netloc.isEmpty || (!scheme.isEmpty && Gen.usesAuthority.contains scheme) || url.take 2 = [47, 47] then
    if !url.isEmpty && url.take 1 ≠ [47] then
      if !scheme.isEmpty then scheme ++ [58, 47, 47] ++ netloc ++ [47] ++ url
      else scheme ++ [58] ++ url
    else
      if !scheme.isEmpty then scheme ++ [58, 47, 47] ++ netloc ++ url
      else [47, 47] ++ netloc ++ url
  else if !scheme.isEmpty then scheme ++ [58] ++ url
  else url

theorem unsplit_shape (sc n pa q f : Str) :
    unsplitResult sc n pa q f = unsplitHead sc n pa ++ tailStr q f := by
  unfold unsplitResult unsplitHead tailStr
  simp only
  generalize (if (!n.isEmpty || (!sc.isEmpty && Gen.usesAuthority.contains sc) || pa.take 2 = [47, 47]) = true then _ else _ : Str) = H
  cases q <;> cases f <;> simp

theorem tailStr_head (q f : Str) : HeadP (fun x => x = 63 ∨ x = 35) (tailStr q f) := by
  unfold tailStr
  cases q <;> cases f <;> intro x hx <;> simp at hx <;> omega

/-- scheme prefix `scheme ":"` (nothing for an empty scheme) -/
def schemeStr (sc : Str) : Str := if sc.isEmpty then [] else sc ++ [58]

/-- `pa` is empty or starts with '/' -/
def RootedOrEmpty (pa : Str) : Prop := pa = [] ∨ pa.head? = some 47

/-- whether `unsplit_result` writes the `//` marker -/
def marker (sc n pa : Str) : Bool :=
  !n.isEmpty || (!sc.isEmpty && Gen.usesAuthority.contains sc) || pa.take 2 = [47, 47]

theorem rooted_of_take2 {pa : Str} (h : pa.take 2 = [47, 47]) : RootedOrEmpty pa := by
  right
  match pa, h with
  | a :: b :: t, h => simp at h; simp [h.1]

/-- with a rooted-or-empty path under the marker, the head is `scheme ":" ["//" netloc] path` -/
theorem unsplitHead_eq (sc n pa : Str) (hr : marker sc n pa = true → RootedOrEmpty pa) :
    unsplitHead sc n pa = schemeStr sc ++ (if marker sc n pa then 47 :: 47 :: n else []) ++ pa := by
  unfold unsplitHead schemeStr
  by_cases hm : marker sc n pa = true
  · have hm' := hm
    unfold marker at hm'
    rw [if_pos hm', if_pos hm]
    have hroot : ¬ ((!pa.isEmpty && decide (pa.take 1 ≠ [47])) = true) := by
      rcases hr hm with h | h
      · subst h; simp
      · cases pa with
        | nil => simp
        | cons a t => simp at h; subst h; simp
    rw [if_neg hroot]
    cases sc <;> simp
  · have hm' := hm
    unfold marker at hm'
    rw [if_neg hm', if_neg hm]
    cases sc <;> simp

/-! ### the tail stage -/

theorem qpart_no35 (q : Str) (hq : 35 ∉ q) : ∀ c ∈ (if !q.isEmpty then 63 :: q else []), c ≠ 35 := by
  intro c hc
  cases q with
  | nil => simp at hc
  | cons a t =>
    simp only [List.isEmpty_cons, Bool.not_false, ↓reduceIte] at hc
    rcases List.mem_cons.1 hc with rfl | hc
    · simp
    · exact fun e => hq (e ▸ hc)

theorem tailOf_compose (pa q f : Str) (hpa : ∀ c ∈ pa, c ≠ 63 ∧ c ≠ 35) (hq : 35 ∉ q) :
    tailOf (pa ++ tailStr q f) = (pa, q, f) := by
  rw [tailOf_eq]
  unfold tailStr
  -- the part before the first '#'
  have h1 : ((pa ++ ((if !q.isEmpty then 63 :: q else []) ++ (if !f.isEmpty then 35 :: f else []))).takeWhile (· ≠ 35))
      = pa ++ (if !q.isEmpty then 63 :: q else []) := by
    rw [← List.append_assoc]
    apply takeWhile_stop
    · intro c hc
      rcases List.mem_append.1 hc with hc | hc
      · simpa using (hpa c hc).2
      · simpa using qpart_no35 q hq c hc
    · cases f with
      | nil => exact headP_nil _
      | cons a t => exact headP_cons _ (by simp)
  have h2 : ((pa ++ ((if !q.isEmpty then 63 :: q else []) ++ (if !f.isEmpty then 35 :: f else []))).dropWhile (· ≠ 35))
      = (if !f.isEmpty then 35 :: f else []) := by
    rw [← List.append_assoc]
    apply dropWhile_stop
    · intro c hc
      rcases List.mem_append.1 hc with hc | hc
      · simpa using (hpa c hc).2
      · simpa using qpart_no35 q hq c hc
    · cases f with
      | nil => exact headP_nil _
      | cons a t => exact headP_cons _ (by simp)
  rw [h1, h2]
  have h3 : (pa ++ (if !q.isEmpty then 63 :: q else [])).takeWhile (· ≠ 63) = pa := by
    apply takeWhile_stop
    · intro c hc; simpa using (hpa c hc).1
    · cases q with
      | nil => exact headP_nil _
      | cons a t => exact headP_cons _ (by simp)
  have h4 : (pa ++ (if !q.isEmpty then 63 :: q else [])).dropWhile (· ≠ 63) = (if !q.isEmpty then 63 :: q else []) := by
    apply dropWhile_stop
    · intro c hc; simpa using (hpa c hc).1
    · cases q with
      | nil => exact headP_nil _
      | cons a t => exact headP_cons _ (by simp)
  rw [h3, h4]
  cases q <;> cases f <;> simp

/-! ### the authority stage -/

theorem authOf_compose (n rest : Str) (hn : ∀ c ∈ n, c ≠ 47 ∧ c ≠ 63 ∧ c ≠ 35)
    (hrest : HeadP (fun x => x = 47 ∨ x = 63 ∨ x = 35) rest) :
    authOf (47 :: 47 :: n ++ rest) = (n, rest) := by
  have ha : ∀ c ∈ n, (!Rfc.isDelim3 c) = true := by
    intro c hc
    obtain ⟨h1, h2, h3⟩ := hn c hc
    simp [Rfc.isDelim3, h1, h2, h3]
  have hb : HeadP (fun x => (!Rfc.isDelim3 x) = false) rest := by
    refine headP_mono (fun x hx => ?_) hrest
    simp only [Rfc.isDelim3, Bool.not_eq_eq_eq_not, Bool.not_false, Bool.or_eq_true, decide_eq_true_eq]
    omega
  show (List.takeWhile (fun c => !Rfc.isDelim3 c) (n ++ rest), List.dropWhile (fun c => !Rfc.isDelim3 c) (n ++ rest)) = _
  rw [takeWhile_stop _ _ _ ha hb, dropWhile_stop _ _ _ ha hb]

theorem authOf_none (r1 : Str) (h : r1.take 2 ≠ [47, 47]) : authOf r1 = ([], r1) := by
  rw [authOf_eq, if_neg h]

/-- appending a tail that does not start with '/' cannot create a leading "//" -/
theorem take2_append {pa T : Str} (hT : HeadP (fun x => x ≠ 47) T) (h : (pa ++ T).take 2 = [47, 47]) :
    pa.take 2 = [47, 47] := by
  match pa, h with
  | [], h =>
    match T, hT, h with
    | a :: t, hT, h =>
      have := hT a rfl
      cases t <;> simp at h <;> omega
  | [a], h =>
    match T, hT, h with
    | b :: t, hT, h =>
      have := hT b rfl
      simp at h; omega
  | a :: b :: t, h => simpa using h

/-! ### the scheme stage -/

theorem schemeChars_no_delims : ∀ c ∈ Gen.schemeChars, c ≠ 58 ∧ c ≠ 47 ∧ c ≠ 63 ∧ c ≠ 35 := by decide

theorem schemeChars_gt32 : ∀ c ∈ Gen.schemeChars, 32 < c := by decide

theorem schemeOf_compose (sc rest : Str) (hne : sc ≠ [])
    (hall : sc.all (fun c => mem c Gen.schemeChars) = true) (hlow : lower sc = sc) :
    Rfc.schemeOf Gen.schemeChars (sc ++ 58 :: rest) = (sc, rest) := by
  have hmemc : ∀ c ∈ sc, c ∈ Gen.schemeChars := by
    intro c hc
    have := List.all_eq_true.1 hall c hc
    simpa [mem_eq] using this
  have ha : ∀ c ∈ sc, (decide (c ≠ 58)) = true := by
    intro c hc
    simpa using (schemeChars_no_delims c (hmemc c hc)).1
  have hb : HeadP (fun x => (decide (x ≠ 58)) = false) (58 :: rest) := headP_cons _ (by simp)
  unfold Rfc.schemeOf
  rw [takeWhile_stop _ _ _ ha hb, dropWhile_stop _ _ _ ha hb]
  have hall' : sc.all (fun c => Gen.schemeChars.contains c) = true := hall
  have : sc.isEmpty = false := by cases sc <;> simp at hne ⊢
  have hc : (!sc.isEmpty && sc.all (fun c => Gen.schemeChars.contains c)) = true := by rw [this, hall']; rfl
  simp only [hc, ↓reduceIte, hlow]

/-- no scheme is recognised when the text before the first ':' is empty or contains a non-scheme character -/
theorem schemeOf_none (s : Str)
    (h : 58 ∈ s → (s.takeWhile (· ≠ 58) = [] ∨ (s.takeWhile (· ≠ 58)).all (fun c => mem c Gen.schemeChars) = false)) :
    Rfc.schemeOf Gen.schemeChars s = ([], s) := by
  unfold Rfc.schemeOf
  rcases dropWhile_ne_cases 58 s with ⟨_, hd⟩ | ⟨hm, hd⟩
  · rw [hd]
  · rw [hd]
    simp only
    rcases h hm with h | h
    · rw [h]; simp
    · have h' : (s.takeWhile (· ≠ 58)).all (fun c => Gen.schemeChars.contains c) = false := h
      rw [h']; simp

/-- a bad character before the first ':' -/
theorem schemeOf_none_of_bad (s : Str) (x : Nat) (hx : x ∈ s.takeWhile (· ≠ 58)) (hbad : x ∉ Gen.schemeChars) :
    Rfc.schemeOf Gen.schemeChars s = ([], s) := by
  apply schemeOf_none
  intro _
  right
  rw [List.all_eq_false]
  exact ⟨x, hx, by simpa [mem_eq] using hbad⟩

theorem takeWhile_of_mem_left {c : Nat} {a : Str} (b : Str) (h : c ∈ a) :
    (a ++ b).takeWhile (· ≠ c) = a.takeWhile (· ≠ c) := by
  induction a with
  | nil => simp at h
  | cons x t ih =>
    by_cases hx : x = c
    · subst hx; simp
    · have : c ∈ t := by
        rcases List.mem_cons.1 h with e | e
        · exact absurd e.symm hx
        · exact e
      have hd : decide (x ≠ c) = true := by simpa using hx
      simp only [List.cons_append, List.takeWhile_cons, hd, ↓reduceIte]
      rw [ih this]

/-- the condition on the path alone suffices for `path ++ tail` -/
theorem schemeOf_none_path (pa q f : Str)
    (h : 58 ∈ pa → (pa.takeWhile (· ≠ 58) = [] ∨ (pa.takeWhile (· ≠ 58)).all (fun c => mem c Gen.schemeChars) = false)) :
    Rfc.schemeOf Gen.schemeChars (pa ++ tailStr q f) = ([], pa ++ tailStr q f) := by
  by_cases hp : 58 ∈ pa
  · apply schemeOf_none
    intro _
    rw [takeWhile_of_mem_left _ hp]
    exact h hp
  · by_cases hT : tailStr q f = []
    · rw [hT, List.append_nil]
      apply schemeOf_none
      intro hm; exact absurd hm hp
    · -- the tail starts with '?' or '#', which precedes any ':'
      obtain ⟨x, t, hxt⟩ : ∃ x t, tailStr q f = x :: t := by
        cases hh : tailStr q f with
        | nil => exact absurd hh hT
        | cons x t => exact ⟨x, t, rfl⟩
      have hx := tailStr_head q f x (by rw [hxt]; rfl)
      apply schemeOf_none_of_bad _ x
      · have ha : ∀ c ∈ pa, (decide (c ≠ 58)) = true := by
          intro c hc
          have : c ≠ 58 := fun e => hp (e ▸ hc)
          simpa using this
        rw [List.takeWhile_append_of_pos ha, hxt]
        have : x ≠ 58 := by omega
        simp [this]
      · intro hm
        have := schemeChars_no_delims x hm
        omega

/-! ### cleaning is the identity on a clean string -/

theorem cleanUrl_id (s : Str) (h1 : HeadP (fun c => 32 < c) s) (h2 : ∀ c ∈ s, c ≠ 9 ∧ c ≠ 10 ∧ c ≠ 13) :
    cleanUrl s = s := by
  rw [C07_clean_spec]
  have : s.dropWhile (fun c => decide (c ≤ 32)) = s := by
    cases s with
    | nil => rfl
    | cons a t =>
      have := h1 a rfl
      have : ¬ a ≤ 32 := by omega
      simp [this]
  rw [this, List.filter_eq_self]
  intro c hc
  simpa using h2 c hc

/-! ### the other direction: a string is the concatenation of its three stages -/

theorem headP_dropWhile (p : Nat → Bool) (l : Str) : HeadP (fun x => p x = false) (l.dropWhile p) := by
  induction l with
  | nil => exact headP_nil _
  | cons a t ih =>
    by_cases h : p a = true
    · simpa [List.dropWhile_cons, h] using ih
    · have h' : p a = false := by simpa using h
      rw [List.dropWhile_cons, if_neg h]
      exact headP_cons _ h'

/-- stage 1: either no scheme (and nothing consumed) or `pre ":"` consumed with `pre` made of scheme characters -/
theorem schemeOf_decomp (c : Str) :
    ((Rfc.schemeOf Gen.schemeChars c).1 = [] ∧ (Rfc.schemeOf Gen.schemeChars c).2 = c) ∨
    (∃ pre, pre ≠ [] ∧ (∀ x ∈ pre, x ∈ Gen.schemeChars) ∧ c = pre ++ 58 :: (Rfc.schemeOf Gen.schemeChars c).2 ∧
      (Rfc.schemeOf Gen.schemeChars c).1 = lower pre) := by
  unfold Rfc.schemeOf
  rcases dropWhile_ne_cases 58 c with ⟨_, hd⟩ | ⟨_, hd⟩
  · rw [hd]; exact Or.inl ⟨rfl, rfl⟩
  · have hc := List.takeWhile_append_dropWhile (p := (· ≠ 58)) (l := c)
    rw [hd] at hc
    rw [hd]
    simp only
    split
    · rename_i hcond
      simp only [Bool.and_eq_true] at hcond
      right
      refine ⟨c.takeWhile (· ≠ 58), ?_, ?_, hc.symm, rfl⟩
      · intro e; rw [e] at hcond; simp at hcond
      · intro x hx
        have := List.all_eq_true.1 hcond.2 x hx
        simpa using this
    · exact Or.inl ⟨rfl, rfl⟩

/-- stage 2 -/
theorem authOf_decomp (r1 : Str) :
    (r1.take 2 = [47, 47] ∧ r1 = 47 :: 47 :: ((authOf r1).1 ++ (authOf r1).2) ∧
      HeadP (fun x => x = 47 ∨ x = 63 ∨ x = 35) (authOf r1).2 ∧
      ∀ c ∈ (authOf r1).1, c ≠ 47 ∧ c ≠ 63 ∧ c ≠ 35) ∨
    (r1.take 2 ≠ [47, 47] ∧ authOf r1 = ([], r1)) := by
  rw [authOf_eq]
  by_cases h : r1.take 2 = [47, 47]
  · left
    rw [if_pos h]
    refine ⟨h, ?_, ?_, ?_⟩
    · simp only [List.takeWhile_append_dropWhile]
      conv => lhs; rw [← List.take_append_drop 2 r1, h]
      rfl
    · refine headP_mono (fun x hx => ?_) (headP_dropWhile _ _)
      simp only [Rfc.isDelim3, Bool.not_eq_eq_eq_not, Bool.not_false, Bool.or_eq_true, decide_eq_true_eq] at hx
      omega
    · intro c hc
      have := mem_takeWhile_imp _ _ _ hc
      simp only [Rfc.isDelim3, Bool.not_eq_eq_eq_not, Bool.not_true, Bool.or_eq_false_iff, decide_eq_false_iff_not] at this
      omega
  · right
    rw [if_neg h]
    exact ⟨h, rfl⟩

theorem mem_takeWhile_ne {x c : Nat} {s : Str} (h : x ∈ s.takeWhile (· ≠ c)) : x ≠ c := by
  have := mem_takeWhile_imp _ _ _ h
  simpa using this

/-- stage 3: the tail is its three pieces, provided no empty query / fragment delimiter is present -/
theorem tailOf_recompose (r2 : Str)
    (hq : 63 ∈ r2.takeWhile (· ≠ 35) → (tailOf r2).2.1 ≠ [])
    (hf : 35 ∈ r2 → (tailOf r2).2.2 ≠ []) :
    r2 = (tailOf r2).1 ++ tailStr (tailOf r2).2.1 (tailOf r2).2.2 := by
  rw [tailOf_eq] at hq hf ⊢
  simp only at hq hf ⊢
  unfold tailStr
  have e1 : (if (!((r2.dropWhile (· ≠ 35)).drop 1).isEmpty) = true then 35 :: (r2.dropWhile (· ≠ 35)).drop 1 else [])
      = r2.dropWhile (· ≠ 35) := by
    rcases dropWhile_ne_cases 35 r2 with ⟨_, hd⟩ | ⟨hm, hd⟩
    · rw [hd]; rfl
    · have := hf hm
      have hne : (!((r2.dropWhile (· ≠ 35)).drop 1).isEmpty) = true := by
        cases hh : (r2.dropWhile (· ≠ 35)).drop 1 with
        | nil => exact absurd hh this
        | cons a t => rfl
      rw [if_pos hne]
      exact hd.symm
  have e2 : (if (!(((r2.takeWhile (· ≠ 35)).dropWhile (· ≠ 63)).drop 1).isEmpty) = true
        then 63 :: ((r2.takeWhile (· ≠ 35)).dropWhile (· ≠ 63)).drop 1 else [])
      = (r2.takeWhile (· ≠ 35)).dropWhile (· ≠ 63) := by
    rcases dropWhile_ne_cases 63 (r2.takeWhile (· ≠ 35)) with ⟨_, hd⟩ | ⟨hm, hd⟩
    · rw [hd]; rfl
    · have := hq hm
      have hne : (!(((r2.takeWhile (· ≠ 35)).dropWhile (· ≠ 63)).drop 1).isEmpty) = true := by
        cases hh : ((r2.takeWhile (· ≠ 35)).dropWhile (· ≠ 63)).drop 1 with
        | nil => exact absurd hh this
        | cons a t => rfl
      rw [if_pos hne]
      exact hd.symm
  rw [e1, e2, ← List.append_assoc, List.takeWhile_append_dropWhile, List.takeWhile_append_dropWhile]

theorem tailOf_path_prefix (r2 : Str) : ∃ X, r2 = (tailOf r2).1 ++ X := by
  rw [tailOf_eq]
  refine ⟨(r2.takeWhile (· ≠ 35)).dropWhile (· ≠ 63) ++ r2.dropWhile (· ≠ 35), ?_⟩
  rw [← List.append_assoc, List.takeWhile_append_dropWhile, List.takeWhile_append_dropWhile]

theorem tailOf_path_rooted (r2 : Str) (h : HeadP (fun x => x = 47 ∨ x = 63 ∨ x = 35) r2) :
    RootedOrEmpty (tailOf r2).1 := by
  rw [tailOf_eq]
  cases r2 with
  | nil => left; rfl
  | cons a t =>
    rcases h a rfl with rfl | rfl | rfl
    · right; simp
    · left; simp
    · left; simp

theorem take2_of_prefix {pa X : Str} (h : pa.take 2 = [47, 47]) : (pa ++ X).take 2 = [47, 47] := by
  match pa, h with
  | a :: b :: t, h => simpa using h

theorem schemeStr_nil : schemeStr [] = [] := rfl

theorem schemeStr_ne {sc : Str} (h : sc ≠ []) : schemeStr sc = sc ++ [58] := by
  cases sc with
  | nil => exact absurd rfl h
  | cons a t => rfl

theorem marker_true_iff (sc n pa : Str) : marker sc n pa = true ↔
    (n ≠ [] ∨ (sc ≠ [] ∧ Gen.usesAuthority.contains sc = true) ∨ pa.take 2 = [47, 47]) := by
  unfold marker
  simp only [Bool.or_eq_true, Bool.and_eq_true, decide_eq_true_eq, or_assoc]
  have a : ∀ l : Str, (!l.isEmpty) = true ↔ l ≠ [] := by intro l; cases l <;> simp
  rw [a, a]

/-- the core of the re-composition: stated on the three stages of an arbitrary (cleaned) string -/
theorem recompose_core (c : Str)
    (hq : 63 ∈ c.takeWhile (· ≠ 35) → (Rfc.appendixB Gen.schemeChars c).query ≠ [])
    (hf : 35 ∈ c → (Rfc.appendixB Gen.schemeChars c).fragment ≠ [])
    (hm : (Rfc.schemeOf Gen.schemeChars c).2.take 2 = [47, 47] → (Rfc.appendixB Gen.schemeChars c).authority = [] →
      ((Rfc.appendixB Gen.schemeChars c).scheme ≠ [] ∧
          Gen.usesAuthority.contains (Rfc.appendixB Gen.schemeChars c).scheme = true) ∨
        (Rfc.appendixB Gen.schemeChars c).path.take 2 = [47, 47])
    (hs : (Rfc.appendixB Gen.schemeChars c).scheme ≠ [] →
      Gen.usesAuthority.contains (Rfc.appendixB Gen.schemeChars c).scheme = true →
      (Rfc.schemeOf Gen.schemeChars c).2.take 2 = [47, 47]) :
    unsplitResult (Rfc.appendixB Gen.schemeChars c).scheme (Rfc.appendixB Gen.schemeChars c).authority
        (Rfc.appendixB Gen.schemeChars c).path (Rfc.appendixB Gen.schemeChars c).query
        (Rfc.appendixB Gen.schemeChars c).fragment =
      (if (Rfc.schemeOf Gen.schemeChars c).1 = [] then c
       else (Rfc.schemeOf Gen.schemeChars c).1 ++ 58 :: (Rfc.schemeOf Gen.schemeChars c).2) := by
  rw [appendixB_eq] at hq hf hm hs ⊢
  simp only at hq hf hm hs ⊢
  generalize hsc : (Rfc.schemeOf Gen.schemeChars c).1 = sc at *
  generalize hr1 : (Rfc.schemeOf Gen.schemeChars c).2 = r1 at *
  -- stage 1: c = P0 ++ r1
  have h1 : ∃ P0, c = P0 ++ r1 ∧ 35 ∉ P0 ∧ 63 ∉ P0 ∧ (sc = [] → r1 = c) := by
    rcases schemeOf_decomp c with ⟨a, b⟩ | ⟨pre, hne, hall, hc, hl⟩
    · rw [hsc] at a; rw [hr1] at b
      exact ⟨[], by simp [b], by simp, by simp, fun _ => b⟩
    · rw [hr1] at hc; rw [hsc] at hl
      refine ⟨pre ++ [58], by rw [hc]; simp, ?_, ?_, ?_⟩
      · intro hm
        rcases List.mem_append.1 hm with hm | hm
        · exact (schemeChars_no_delims _ (hall _ hm)).2.2.2 rfl
        · simp at hm
      · intro hm
        rcases List.mem_append.1 hm with hm | hm
        · exact (schemeChars_no_delims _ (hall _ hm)).2.2.1 rfl
        · simp at hm
      · intro e
        rw [e] at hl
        cases pre with
        | nil => exact absurd rfl hne
        | cons a t => simp [lower] at hl
  obtain ⟨P0, hc0, h35P0, h63P0, hscnil⟩ := h1
  generalize hau : (authOf r1).1 = au at *
  generalize hr2 : (authOf r1).2 = r2 at *
  -- stage 2: r1 = P1 ++ r2
  have h2 : (r1.take 2 = [47, 47] ∧ r1 = 47 :: 47 :: (au ++ r2) ∧
        HeadP (fun x => x = 47 ∨ x = 63 ∨ x = 35) r2 ∧ ∀ c ∈ au, c ≠ 47 ∧ c ≠ 63 ∧ c ≠ 35) ∨
      (r1.take 2 ≠ [47, 47] ∧ au = [] ∧ r2 = r1) := by
    rcases authOf_decomp r1 with ⟨a, b, c', d⟩ | ⟨a, b⟩
    · rw [hau, hr2] at b; rw [hr2] at c'; rw [hau] at d
      exact Or.inl ⟨a, b, c', d⟩
    · right
      rw [b] at hau hr2
      exact ⟨a, hau.symm, hr2.symm⟩
  -- the tail
  have hpre : ∃ P, c = P ++ r2 ∧ 35 ∉ P ∧ 63 ∉ P := by
    rcases h2 with ⟨_, b, _, d⟩ | ⟨_, _, b⟩
    · refine ⟨P0 ++ 47 :: 47 :: au, by rw [hc0, b]; simp, ?_, ?_⟩
      · intro hm
        rcases List.mem_append.1 hm with hm | hm
        · exact h35P0 hm
        · simp only [List.mem_cons] at hm
          rcases hm with hm | hm | hm
          · omega
          · omega
          · exact (d _ hm).2.2 rfl
      · intro hm
        rcases List.mem_append.1 hm with hm | hm
        · exact h63P0 hm
        · simp only [List.mem_cons] at hm
          rcases hm with hm | hm | hm
          · omega
          · omega
          · exact (d _ hm).2.1 rfl
    · exact ⟨P0, by rw [hc0, b], h35P0, h63P0⟩
  obtain ⟨P, hcP, h35P, h63P⟩ := hpre
  have htw : c.takeWhile (· ≠ 35) = P ++ r2.takeWhile (· ≠ 35) := by
    rw [hcP]
    apply List.takeWhile_append_of_pos
    intro x hx
    have : x ≠ 35 := fun e => h35P (e ▸ hx)
    simpa using this
  have h3 := tailOf_recompose r2
    (fun hm => hq (by rw [htw]; exact List.mem_append_right _ hm))
    (fun hm => hf (by rw [hcP]; exact List.mem_append_right _ hm))
  generalize hpa : (tailOf r2).1 = pa at *
  generalize hqq : (tailOf r2).2.1 = q at *
  generalize hff : (tailOf r2).2.2 = f at *
  have hpfx : ∃ X, r2 = pa ++ X := by rw [← hpa]; exact tailOf_path_prefix r2
  -- the marker is written exactly when it was read
  have hroot : marker sc au pa = true → RootedOrEmpty pa := by
    intro hmk
    rcases (marker_true_iff _ _ _).1 hmk with hn | ⟨ha, hb⟩ | ht
    · rcases h2 with ⟨_, _, c', _⟩ | ⟨_, b, _⟩
      · rw [← hpa]; exact tailOf_path_rooted r2 c'
      · exact absurd b hn
    · have := hs ha hb
      rcases h2 with ⟨_, _, c', _⟩ | ⟨a, _, _⟩
      · rw [← hpa]; exact tailOf_path_rooted r2 c'
      · exact absurd this a
    · exact rooted_of_take2 ht
  have hmid : (if marker sc au pa then 47 :: 47 :: au else []) ++ r2 = r1 := by
    rcases h2 with ⟨a, b, _, _⟩ | ⟨a, b, c'⟩
    · have : marker sc au pa = true := by
        rw [marker_true_iff]
        by_cases hau' : au = []
        · exact Or.inr (hm a hau')
        · exact Or.inl hau'
      rw [if_pos this, b]; simp
    · have : ¬ marker sc au pa = true := by
        rw [marker_true_iff]
        rintro (hn | ⟨ha, hb⟩ | ht)
        · exact hn b
        · exact a (hs ha hb)
        · obtain ⟨X, hX⟩ := hpfx
          apply a
          rw [← c', hX]
          exact take2_of_prefix ht
      rw [if_neg this, c']; rfl
  rw [unsplit_shape, unsplitHead_eq _ _ _ hroot, List.append_assoc, ← h3, List.append_assoc, hmid]
  by_cases hsn : sc = []
  · rw [if_pos hsn, hsn, schemeStr_nil, List.nil_append]
    exact hscnil hsn
  · rw [if_neg hsn, schemeStr_ne hsn]; simp

/-! ### facts about the output of each stage (for "parsed parts are well-formed") -/

theorem schemeChars_lower_closed : ∀ x ∈ Gen.schemeChars, lowerC x ∈ Gen.schemeChars := by decide

theorem lowerC_idem (x : Nat) : lowerC (lowerC x) = lowerC x := by
  unfold lowerC
  by_cases h : 65 ≤ x ∧ x ≤ 90
  · have : ¬ (65 ≤ x + 32 ∧ x + 32 ≤ 90) := by omega
    simp only [h, and_self, ↓reduceIte, this]
  · simp only [h, ↓reduceIte]

theorem schemeOf_scheme_ok (c : Str) :
    (Rfc.schemeOf Gen.schemeChars c).1 = [] ∨
    (((Rfc.schemeOf Gen.schemeChars c).1).all (fun x => mem x Gen.schemeChars) = true ∧
      lower (Rfc.schemeOf Gen.schemeChars c).1 = (Rfc.schemeOf Gen.schemeChars c).1) := by
  rcases schemeOf_decomp c with ⟨a, _⟩ | ⟨pre, _, hall, _, hl⟩
  · exact Or.inl a
  · right
    rw [hl]
    constructor
    · rw [List.all_eq_true]
      intro x hx
      unfold lower at hx
      obtain ⟨y, hy, rfl⟩ := List.mem_map.1 hx
      have := schemeChars_lower_closed y (hall y hy)
      simpa [mem_eq] using this
    · unfold lower
      rw [List.map_map]
      apply List.map_congr_left
      intro x _
      exact lowerC_idem x

theorem schemeOf_nil_imp (c : Str) (h : (Rfc.schemeOf Gen.schemeChars c).1 = []) (hm : 58 ∈ c) :
    c.takeWhile (· ≠ 58) = [] ∨ (c.takeWhile (· ≠ 58)).all (fun x => mem x Gen.schemeChars) = false := by
  unfold Rfc.schemeOf at h
  rcases dropWhile_ne_cases 58 c with ⟨hn, _⟩ | ⟨_, hd⟩
  · exact absurd hm hn
  · rw [hd] at h
    simp only at h
    split at h
    · rename_i hcond
      simp only [Bool.and_eq_true] at hcond
      simp only [lower, List.map_eq_nil_iff] at h
      rw [h] at hcond
      simp at hcond
    · rename_i hcond
      cases hp : c.takeWhile (· ≠ 58) with
      | nil => exact Or.inl rfl
      | cons a t =>
        right
        rw [hp] at hcond
        simp only [List.isEmpty_cons, Bool.not_false, Bool.true_and, Bool.not_eq_true] at hcond
        exact hcond

theorem cleanUrl_head (s : Str) : HeadP (fun x => 32 < x) (cleanUrl s) := by
  rw [C07_clean_spec]
  have hd := headP_dropWhile (fun c => decide (c ≤ 32)) s
  cases hh : s.dropWhile (fun c => decide (c ≤ 32)) with
  | nil => exact headP_nil _
  | cons a t =>
    rw [hh] at hd
    have ha : 32 < a := by
      have := hd a rfl
      simp only [decide_eq_false_iff_not] at this
      omega
    have hpass : decide (a ≠ 9 ∧ a ≠ 10 ∧ a ≠ 13) = true := by
      simp only [decide_eq_true_eq]; omega
    rw [List.filter_cons, if_pos hpass]
    exact headP_cons _ ha

theorem cleanUrl_no_tab (s : Str) : ∀ c ∈ cleanUrl s, c ≠ 9 ∧ c ≠ 10 ∧ c ≠ 13 := by
  intro c hc
  rw [C07_clean_spec] at hc
  have := (List.mem_filter.1 hc).2
  simpa using this

theorem tailOf_mem (r2 : Str) :
    (∀ x ∈ (tailOf r2).1, x ∈ r2 ∧ x ≠ 63 ∧ x ≠ 35) ∧ (∀ x ∈ (tailOf r2).2.1, x ∈ r2 ∧ x ≠ 35) ∧
      (∀ x ∈ (tailOf r2).2.2, x ∈ r2) := by
  rw [tailOf_eq]
  refine ⟨?_, ?_, ?_⟩
  · intro x hx
    have h1 := List.IsPrefix.mem hx (List.takeWhile_prefix _)
    exact ⟨List.IsPrefix.mem h1 (List.takeWhile_prefix _), mem_takeWhile_ne hx, mem_takeWhile_ne h1⟩
  · intro x hx
    have h1 := List.mem_of_mem_drop hx
    have h2 := (List.dropWhile_suffix _).mem h1
    exact ⟨List.IsPrefix.mem h2 (List.takeWhile_prefix _), mem_takeWhile_ne h2⟩
  · intro x hx
    exact (List.dropWhile_suffix _).mem (List.mem_of_mem_drop hx)

end Yarl.UnsplitLemmas
