/-
  Readback.lean — a decoded text supplied to a non-requoting quoter reads back
  unchanged through the unquoter.
-/
import YarlProofs.Defs
import YarlProofs.Lemmas.Utf8Round
namespace Yarl
namespace Readback

/-! ### hex digits -/

theorem fromHex_toHex (v : Nat) (h : v < 16) : fromHex (toHex v) = some v := by
  unfold toHex
  split
  · have a : 0x30 ≤ v + 0x30 ∧ v + 0x30 ≤ 0x39 := by omega
    simp only [fromHex, a, and_self, if_true, Option.some.injEq]; omega
  · have a : ¬ (0x30 ≤ v + 0x41 - 10 ∧ v + 0x41 - 10 ≤ 0x39) := by omega
    have b : 0x41 ≤ v + 0x41 - 10 ∧ v + 0x41 - 10 ≤ 0x46 := by omega
    simp only [fromHex, a, b, and_self, if_true, if_false, Option.some.injEq]; omega

theorem restoreCh_toHex (x : Nat) (h : x < 256) :
    restoreCh (toHex (x / 16)) (toHex (x % 16)) = some x := by
  have a := fromHex_toHex (x / 16) (by omega)
  have b := fromHex_toHex (x % 16) (by omega)
  simp only [restoreCh, a, b, Option.some.injEq]; omega

theorem takeEscape_toHex (x : Nat) (h : x < 256) (r : Str) :
    takeEscape restoreCh (toHex (x / 16) :: toHex (x % 16) :: r)
      = some (x, toHex (x / 16), toHex (x % 16), r) := by
  simp only [takeEscape, restoreCh_toHex x h]

theorem pct_append (x : Nat) (r : Str) :
    pct x ++ r = 37 :: toHex (x / 16) :: toHex (x % 16) :: r := by
  simp [pct]

/-! ### one escape through `uqLoop` -/

theorem uqLoop_pct_incomplete (b : Backend) (u : UTab) (pend : List Nat) (ptxt : Str) (x : Nat)
    (hx : x < 256) (r : Str) (hd : decodeBuf (pend ++ [x]) = .incomplete) :
    uqLoop b u pend ptxt (pct x ++ r) = uqLoop b u (pend ++ [x]) (ptxt ++ pct x) r := by
  rw [pct_append, uqLoop]
  simp only [if_true]
  split
  · rename_i v d1 d2 rest' h
    rw [takeEscape_toHex x hx] at h
    simp only [Option.some.injEq, Prod.mk.injEq] at h
    obtain ⟨rfl, rfl, rfl, rfl⟩ := h
    rw [hd]
    simp [pct]
  · rename_i h
    rw [takeEscape_toHex x hx] at h
    simp at h

theorem uqLoop_pct_char (b : Backend) (u : UTab) (pend : List Nat) (ptxt : Str) (x ch : Nat)
    (hx : x < 256) (r : Str) (hd : decodeBuf (pend ++ [x]) = .char ch) :
    uqLoop b u pend ptxt (pct x ++ r) = uqEmit b u ch ++ uqLoop b u [] [] r := by
  rw [pct_append, uqLoop]
  simp only [if_true]
  split
  · rename_i v d1 d2 rest' h
    rw [takeEscape_toHex x hx] at h
    simp only [Option.some.injEq, Prod.mk.injEq] at h
    obtain ⟨rfl, rfl, rfl, rfl⟩ := h
    rw [hd]
  · rename_i h
    rw [takeEscape_toHex x hx] at h
    simp at h

theorem uqLoop_plain (b : Backend) (u : UTab) (c : Nat) (hc : c ≠ 37) (r : Str) :
    uqLoop b u [] [] (c :: r) = uqPlain u c ++ uqLoop b u [] [] r := by
  rw [uqLoop]
  simp [hc]

/-! ### all escapes of one character -/

/-- with the first `k` bytes of `utf8 c` pending, the escapes of the remaining
    bytes complete the character -/
theorem uqLoop_utf8_from (b : Backend) (u : UTab) (c : Nat) (hc : c ≤ 0x10FFFF)
    (hs : isSurrogate c = false) (rest : Str) :
    ∀ (n k : Nat) (ptxt : Str), k + n + 1 = (utf8 c).length →
      uqLoop b u ((utf8 c).take k) ptxt (((utf8 c).drop k).flatMap pct ++ rest)
        = uqEmit b u c ++ uqLoop b u [] [] rest := by
  intro n
  induction n with
  | zero =>
    intro k ptxt hk
    have hlt : k < (utf8 c).length := by omega
    have hdrop : (utf8 c).drop k = [(utf8 c)[k]] := by
      rw [List.drop_eq_getElem_cons hlt, List.drop_of_length_le (by omega)]
    have htake : (utf8 c).take k ++ [(utf8 c)[k]] = utf8 c := by
      rw [← List.take_succ_eq_append_getElem hlt, List.take_of_length_le (by omega)]
    rw [hdrop]
    simp only [List.flatMap_cons, List.flatMap_nil, List.append_nil]
    apply uqLoop_pct_char
    · exact utf8_byte_lt c hc _ (List.getElem_mem hlt)
    · rw [htake]; exact decodeBuf_utf8 c hc hs
  | succ n ih =>
    intro k ptxt hk
    have hlt : k < (utf8 c).length := by omega
    have hdrop : (utf8 c).drop k = (utf8 c)[k] :: (utf8 c).drop (k + 1) :=
      List.drop_eq_getElem_cons hlt
    have htake : (utf8 c).take k ++ [(utf8 c)[k]] = (utf8 c).take (k + 1) :=
      (List.take_succ_eq_append_getElem hlt).symm
    rw [hdrop]
    simp only [List.flatMap_cons, List.append_assoc]
    rw [uqLoop_pct_incomplete]
    · rw [htake]
      exact ih (k + 1) _ (by omega)
    · exact utf8_byte_lt c hc _ (List.getElem_mem hlt)
    · rw [htake]
      exact decodeBuf_utf8_prefix c hc hs (k + 1) (by omega) (by omega)

theorem uqLoop_writeUtf8 (b : Backend) (u : UTab) (c : Nat) (hc : c ≤ 0x10FFFF)
    (hs : isSurrogate c = false) (rest : Str) :
    uqLoop b u [] [] (writeUtf8 c ++ rest) = uqEmit b u c ++ uqLoop b u [] [] rest := by
  have hpos := utf8_length_pos c hc hs
  have := uqLoop_utf8_from b u c hc hs rest ((utf8 c).length - 1) 0 [] (by omega)
  simpa [writeUtf8] using this

/-! ### the C `changed` flag of the unquoter -/

theorem uqLoop_of_not_changed (b : Backend) (u : UTab) (s : Str) :
    cUnqChanged u s = false → uqLoop b u [] [] s = s := by
  induction s with
  | nil => intro _; rw [uqLoop]
  | cons c rest ih =>
    intro h
    rw [cUnqChanged] at h
    by_cases h37 : c = 37
    · subst h37
      simp only [if_true] at h
      split at h
      · simp at h
      · rename_i hte
        simp only [Bool.or_eq_false_iff, decide_eq_false_iff_not] at h
        obtain ⟨⟨_, hm⟩, hr⟩ := h
        rw [uqLoop]
        simp only [if_true]
        split
        · rename_i hte'
          rw [hte] at hte'
          simp at hte'
        · have : uqPlain u 37 = [37] := by
            simp [uqPlain, hm]
          rw [this, ih hr]
          simp
    · simp only [h37, if_false] at h
      rw [uqLoop_plain b u c h37]
      by_cases h43 : c = 43
      · subst h43
        simp only [if_true, Bool.or_eq_false_iff, Bool.not_eq_false'] at h
        obtain ⟨hm, hr⟩ := h
        have hm' : u.qs = false ∨ mem 43 u.unsafeS = true := by simpa using hm
        have : uqPlain u 43 = [43] := by
          simp only [uqPlain, if_true, hm']
        rw [this, ih hr]
        simp
      · simp only [h43, if_false, Bool.or_eq_false_iff] at h
        obtain ⟨hm, hr⟩ := h
        have : uqPlain u c = [c] := by
          simp [uqPlain, h43, hm]
        rw [this, ih hr]
        simp

end Readback

open Readback

/-- unquoting what a non-requoting quoter wrote gives the text back -/
theorem uqLoop_cOut (b : Backend) (q : QTab) (u : UTab) (hq : q.WF) (hnr : q.requote = false)
    (hlit : ∀ c, q.safe c = true → c ≠ 37 → ¬(q.qs = true ∧ c = 32) → uqPlain u c = [c])
    (hqs : q.qs = true → uqPlain u 43 = [32])
    (hemit : ∀ c, c ≤ 0x10FFFF → (q.safe c = false ∨ 128 ≤ c) → ¬(q.qs = true ∧ c = 32) →
      uqEmit b u c = [c])
    (t : Str) (ht : PyStr t) (hn : NoSurrogate t) :
    uqLoop b u [] [] (cOut q t) = t := by
  induction t with
  | nil => rw [cOut, uqLoop]
  | cons c rest ih =>
    have hc : c ≤ 0x10FFFF := ht c (by simp)
    have hs : isSurrogate c = false := hn c (by simp)
    have ih' := ih (fun x hx => ht x (by simp [hx])) (fun x hx => hn x (by simp [hx]))
    rw [cOut]
    simp only [hnr, Bool.false_eq_true, and_false, if_false]
    unfold cWriteOut
    by_cases h1 : q.qs = true ∧ c = 32
    · simp only [h1, and_self, if_true]
      rw [List.singleton_append, uqLoop_plain b u 43 (by decide), hqs h1.1, ih']
      rfl
    · simp only [h1, if_false]
      by_cases h2 : c < 128 ∧ q.safe c = true
      · have h37 : c ≠ 37 := by
          rintro rfl
          have := hq.pct_unsafe
          rw [h2.2] at this
          exact absurd this (by decide)
        simp only [h2, and_self, if_true]
        rw [List.singleton_append, uqLoop_plain b u c h37, hlit c h2.2 h37 h1, ih']
        rfl
      · simp only [h2, if_false]
        have h3 : q.safe c = false ∨ 128 ≤ c := by
          by_cases h : q.safe c = true
          · right
            by_cases h' : c < 128
            · exact absurd ⟨h', h⟩ h2
            · omega
          · left; simpa using h
        rw [uqLoop_writeUtf8 b u c hc hs, hemit c hc h3 h1, ih']
        rfl

theorem unquote_cOut (b : Backend) (q : QTab) (u : UTab) (hq : q.WF) (hnr : q.requote = false)
    (hlit : ∀ c, q.safe c = true → c ≠ 37 → ¬(q.qs = true ∧ c = 32) → uqPlain u c = [c])
    (hqs : q.qs = true → uqPlain u 43 = [32])
    (hemit : ∀ c, c ≤ 0x10FFFF → (q.safe c = false ∨ 128 ≤ c) → ¬(q.qs = true ∧ c = 32) →
      uqEmit b u c = [c])
    (t : Str) (ht : PyStr t) (hn : NoSurrogate t) :
    unquote b u (cOut q t) = t := by
  have main := uqLoop_cOut b q u hq hnr hlit hqs hemit t ht hn
  cases b with
  | py => exact main
  | c =>
    show unquoteC u (cOut q t) = t
    unfold unquoteC
    by_cases hch : cUnqChanged u (cOut q t) = true
    · simp only [hch, if_true]; exact main
    · have hch' : cUnqChanged u (cOut q t) = false := by simpa using hch
      simp only [hch', Bool.false_eq_true, if_false]
      rw [← uqLoop_of_not_changed .c u _ hch']
      exact main

end Yarl
