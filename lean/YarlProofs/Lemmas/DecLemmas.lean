/-
  DecLemmas.lean — helper lemmas for C05 (backend interchangeability) and C06
  (decoded views / read-back).
-/
import YarlProofs.Defs
import YarlProofs.Lemmas.QuoteEquiv
import YarlProofs.Lemmas.UnquoteEquiv
import YarlProofs.Lemmas.GenTabs
import YarlProofs.Lemmas.Readback
import YarlProofs.Lemmas.ParseLemmas
import YarlProofs.C07
import YarlProofs.C12Readback
import YarlProofs.Lemmas.OutLang
namespace Yarl
namespace DecLemmas
open Yarl.ParseLemmas

/-! ### backend independence of one quoter / unquoter call -/

theorem qrun_backend (a : QArgs) (ha : a ∈ Gen.allQuoters) (s : Str) (hs : PyStr s) :
    a.run .py s = a.run .c s := by
  show quotePy a.tabPy s = quoteC a.tabC s
  rw [← gen_tab_backend_eq a ha]
  exact quotePy_eq_quoteC a.tabPy (gen_tab_wf a ha .py) (fun _ => gen_space_unsafe a ha .py) s hs

theorem utab_backend (a : UArgs) : a.tab .py = a.tab .c := by
  unfold UArgs.tab
  show UTab.mk _ _ _ defaultQuoterArgs.tabPy defaultQsQuoterArgs.tabPy =
    UTab.mk _ _ _ defaultQuoterArgs.tabC defaultQsQuoterArgs.tabC
  rw [default_tab_backend_eq.1, default_tab_backend_eq.2]

theorem uqrun_backend (a : UArgs) (s : Str) : a.run .py s = a.run .c s := by
  show unquotePy (a.tab .py) s = unquoteC (a.tab .c) s
  rw [← utab_backend a]
  exact unquotePy_eq_unquoteC (a.tab .py) (default_tabs_wf .py).1 (default_tabs_wf .py).2
    (fun _ => (default_space_unsafe .py).1) (fun _ => (default_space_unsafe .py).2) s

theorem q_backend (o : Oracles) (a : QArgs) (ha : a ∈ Gen.allQuoters) (s : Str) (hs : PyStr s) :
    q { b := .py, o := o } a s = q { b := .c, o := o } a s := qrun_backend a ha s hs

theorem uq_backend (o : Oracles) (a : UArgs) (s : Str) :
    uq { b := .py, o := o } a s = uq { b := .c, o := o } a s := uqrun_backend a s

/-! ### the pieces cut out of a Python string are Python strings -/

theorem pyStr_of_subset {s t : Str} (h : ∀ c ∈ t, c ∈ s) (hs : PyStr s) : PyStr t :=
  fun c hc => hs c (h c hc)

theorem pyStr_of_sublist {s t : Str} (h : t.Sublist s) (hs : PyStr s) : PyStr t :=
  fun c hc => hs c (h.subset hc)

theorem pyStr_takeWhile (p : Nat → Bool) {s : Str} (hs : PyStr s) : PyStr (s.takeWhile p) :=
  pyStr_of_sublist (List.takeWhile_sublist p) hs

theorem pyStr_dropWhile (p : Nat → Bool) {s : Str} (hs : PyStr s) : PyStr (s.dropWhile p) :=
  pyStr_of_sublist (List.dropWhile_sublist p) hs

theorem pyStr_drop (n : Nat) {s : Str} (hs : PyStr s) : PyStr (s.drop n) :=
  pyStr_of_sublist (List.drop_sublist n s) hs

theorem pyStr_take (n : Nat) {s : Str} (hs : PyStr s) : PyStr (s.take n) :=
  pyStr_of_sublist (List.take_sublist n s) hs

theorem pyStr_filter (p : Nat → Bool) {s : Str} (hs : PyStr s) : PyStr (s.filter p) :=
  pyStr_of_sublist List.filter_sublist hs

theorem pyStr_reverse {s : Str} (hs : PyStr s) : PyStr s.reverse :=
  fun c hc => hs c (List.mem_reverse.1 hc)

theorem pyStr_nil : PyStr [] := fun _ h => by simp at h

theorem pyStr_cleanUrl {s : Str} (hs : PyStr s) : PyStr (cleanUrl s) := by
  unfold cleanUrl
  rw [lstripSet_eq]
  exact pyStr_filter _ (pyStr_dropWhile _ hs)

theorem pyStr_partition_fst (c : Nat) {s : Str} (hs : PyStr s) : PyStr (partition c s).1 := by
  rw [partition_eq]; exact pyStr_takeWhile _ hs

theorem pyStr_partition_snd (c : Nat) {s : Str} (hs : PyStr s) : PyStr (partition c s).2.2 := by
  rw [partition_eq]; exact pyStr_drop 1 (pyStr_dropWhile _ hs)

theorem pyStr_rpartition_fst (c : Nat) {s : Str} (hs : PyStr s) : PyStr (rpartition c s).1 := by
  unfold rpartition
  simp only
  split
  · exact pyStr_reverse (pyStr_partition_snd c (pyStr_reverse hs))
  · exact pyStr_nil

theorem pyStr_schemeOf_rest (sc : Str) {s : Str} (hs : PyStr s) : PyStr (Rfc.schemeOf sc s).2 := by
  unfold Rfc.schemeOf
  simp only
  split
  · rename_i rest hpost
    split
    · have := pyStr_dropWhile (· ≠ 58) hs
      rw [hpost] at this
      exact fun c hc => this c (List.mem_cons_of_mem _ hc)
    · exact hs
  · exact hs

theorem pyStr_authOf {r : Str} (hr : PyStr r) : PyStr (authOf r).1 ∧ PyStr (authOf r).2 := by
  rw [authOf_eq]
  split
  · exact ⟨pyStr_takeWhile _ (pyStr_drop 2 hr), pyStr_dropWhile _ (pyStr_drop 2 hr)⟩
  · exact ⟨pyStr_nil, hr⟩

theorem pyStr_tailOf {r : Str} (hr : PyStr r) :
    PyStr (tailOf r).1 ∧ PyStr (tailOf r).2.1 ∧ PyStr (tailOf r).2.2 := by
  rw [tailOf_eq]
  exact ⟨pyStr_takeWhile _ (pyStr_takeWhile _ hr),
    pyStr_drop 1 (pyStr_dropWhile _ (pyStr_takeWhile _ hr)),
    pyStr_drop 1 (pyStr_dropWhile _ hr)⟩

/-- every part cut out by `split_url` (other than the lower-cased scheme) is made of characters of the input -/
theorem pyStr_splitUrl (o : Oracles) (s : Str) (hs : PyStr s) (p : Parts) (h : splitUrl o s = .ok p) :
    PyStr p.netloc ∧ PyStr p.path ∧ PyStr p.query ∧ PyStr p.fragment := by
  have h5 := C07_split o s p h
  rw [appendixB_eq] at h5
  have hc := pyStr_cleanUrl hs
  have h1 := pyStr_schemeOf_rest Gen.schemeChars hc
  have h2 := pyStr_authOf h1
  have h3 := pyStr_tailOf h2.2
  simp only [toParts5, Rfc.Parts5.mk.injEq] at h5
  obtain ⟨_, e1, e2, e3, e4⟩ := h5
  rw [e1, e2, e3, e4]
  exact ⟨h2.1, h3.1, h3.2.1, h3.2.2⟩

theorem pyStr_orNone {s : Str} (hs : PyStr s) : ∀ t, orNone s = some t → PyStr t := by
  intro t ht
  unfold orNone at ht
  split at ht
  · cases ht
  · cases ht; exact hs

/-- user and password cut out by `split_netloc` are made of characters of the netloc -/
theorem pyStr_splitNetloc (o : Oracles) (n : Str) (hn : PyStr n) (r : NetlocParts)
    (h : splitNetloc o n = .ok r) :
    (∀ t, r.user = some t → PyStr t) ∧ (∀ t, r.password = some t → PyStr t) := by
  rw [splitNetloc_eq] at h
  obtain ⟨h1, h2, _⟩ := netlocRest_shape _ _ _ _ _ _ h
  rw [h1, h2]
  unfold userTriple
  split
  · simp
  · have hu := pyStr_rpartition_fst 64 hn
    constructor
    · intro t ht
      simp only [Option.bind_some] at ht
      exact pyStr_orNone (pyStr_partition_fst 58 hu) t ht
    · intro t ht
      simp only at ht
      split at ht
      · cases ht; exact pyStr_partition_snd 58 hu
      · cases ht

/-! ### URL-level congruences -/

theorem requoteOpt_backend (o : Oracles) (x : Option Str) (hx : ∀ t, x = some t → PyStr t) :
    requoteOpt { b := .py, o := o } x = requoteOpt { b := .c, o := o } x := by
  cases x with
  | none => rfl
  | some t =>
    simp only [requoteOpt, Option.map_some]
    split
    · rfl
    · rw [q_backend o Gen.REQUOTER (by decide) t (hx t rfl)]

/-- with `encode = False` the quoter argument of `make_netloc` is never called -/
theorem makeNetloc_noenc (f g : Str → Str) (u p h : Option Str) (port : Option Nat) :
    makeNetloc f u p h port false = makeNetloc g u p h port false := by
  unfold makeNetloc
  cases h with
  | none => rfl
  | some h =>
    simp only
    cases u <;> cases p <;> simp

/-! ### unquoting in general -/

open Readback

/-- the C `changed` flag is an optimisation only: both backends return the loop's result -/
theorem unquote_eq_uqLoop (b : Backend) (u : UTab) (s : Str) : unquote b u s = uqLoop b u [] [] s := by
  cases b with
  | py => rfl
  | c =>
    show unquoteC u s = _
    unfold unquoteC
    split
    · rfl
    · rename_i h
      exact (uqLoop_id_of_not_changed .c u s (by simpa using h)).symm

theorem uqLoop_nil (b : Backend) (u : UTab) (pend : List Nat) (ptxt : Str) :
    uqLoop b u pend ptxt [] = ptxt := by
  rw [uqLoop]

theorem uqLoop_pct_invalid (b : Backend) (u : UTab) (pend : List Nat) (ptxt : Str) (x : Nat)
    (hx : x < 256) (r : Str) (hd : decodeBuf (pend ++ [x]) = .invalid) (hd1 : decodeBuf [x] = .invalid) :
    uqLoop b u pend ptxt (pct x ++ r) = ptxt ++ pct x ++ uqLoop b u [] [] r := by
  rw [pct_append, uqLoop]
  simp only [if_true]
  split
  · rename_i v d1 d2 rest' h
    rw [takeEscape_toHex x hx] at h
    simp only [Option.some.injEq, Prod.mk.injEq] at h
    obtain ⟨rfl, rfl, rfl, rfl⟩ := h
    rw [hd, hd1]
    simp [pct]
  · rename_i h
    rw [takeEscape_toHex x hx] at h
    simp at h

theorem uqLoop_pct_invalid_char (b : Backend) (u : UTab) (pend : List Nat) (ptxt : Str) (x ch : Nat)
    (hx : x < 256) (r : Str) (hd : decodeBuf (pend ++ [x]) = .invalid) (hd1 : decodeBuf [x] = .char ch) :
    uqLoop b u pend ptxt (pct x ++ r) = ptxt ++ uqEmit b u ch ++ uqLoop b u [] [] r := by
  rw [pct_append, uqLoop]
  simp only [if_true]
  split
  · rename_i v d1 d2 rest' h
    rw [takeEscape_toHex x hx] at h
    simp only [Option.some.injEq, Prod.mk.injEq] at h
    obtain ⟨rfl, rfl, rfl, rfl⟩ := h
    rw [hd, hd1]
    simp
  · rename_i h
    rw [takeEscape_toHex x hx] at h
    simp at h

/-- an ASCII byte never continues a pending sequence -/
theorem decodeBuf_pend_ascii (pend : List Nat) (hp : pend ≠ []) (x : Nat) (hx : x < 128) :
    decodeBuf (pend ++ [x]) = .invalid := by
  have hc : isCont x = false := by simp [isCont]; omega
  match pend, hp with
  | [a], _ =>
    simp only [List.cons_append, List.nil_append, decodeBuf, hc]
    repeat' split
    all_goals first | rfl | simp_all
  | [a, a1], _ =>
    simp only [List.cons_append, List.nil_append, decodeBuf, hc]
    repeat' split
    all_goals first | rfl | simp_all
  | [a, a1, a2], _ =>
    simp only [List.cons_append, List.nil_append, decodeBuf, hc]
    repeat' split
    all_goals first | rfl | simp_all
  | _ :: _ :: _ :: _ :: _, _ => simp [decodeBuf]

/-- unquoting what a non-requoting, non-query quoter wrote, for ANY unquoter: character by character -/
theorem uqLoop_cOut_gen (b : Backend) (q : QTab) (u : UTab) (hq : q.WF) (hnr : q.requote = false)
    (hqs : q.qs = false) (t : Str) (ht : PyStr t) (hn : NoSurrogate t) :
    uqLoop b u [] [] (cOut q t) =
      t.flatMap (fun c => if c < 128 ∧ q.safe c = true then uqPlain u c else uqEmit b u c) := by
  induction t with
  | nil => rw [cOut, uqLoop]; rfl
  | cons c rest ih =>
    have hc : c ≤ 0x10FFFF := ht c (by simp)
    have hs : isSurrogate c = false := hn c (by simp)
    have ih' := ih (fun x hx => ht x (by simp [hx])) (fun x hx => hn x (by simp [hx]))
    rw [cOut]
    simp only [hnr, Bool.false_eq_true, and_false, if_false]
    unfold cWriteOut
    simp only [hqs, Bool.false_eq_true, false_and, if_false, List.flatMap_cons]
    by_cases h2 : c < 128 ∧ q.safe c = true
    · have h37 : c ≠ 37 := by
        rintro rfl
        have := hq.pct_unsafe
        rw [h2.2] at this
        exact absurd this (by decide)
      simp only [h2, and_self, if_true]
      rw [List.singleton_append, uqLoop_plain b u c h37, ih']
    · simp only [h2, if_false]
      rw [uqLoop_writeUtf8 b u c hc hs, ih']

theorem uqPlain_id (u : UTab) (hqs : u.qs = false) (hun : ∀ x ∈ u.unsafeS, x = 43) (c : Nat) :
    uqPlain u c = [c] := by
  unfold uqPlain
  split
  · rename_i h; subst h; simp [hqs]
  · rename_i h
    have : mem c u.unsafeS = false := by
      cases hm : mem c u.unsafeS with
      | false => rfl
      | true => exact absurd (hun c (GenTabs.mem_iff.mp hm)) h
    simp [this]

theorem uqEmit_id (b : Backend) (u : UTab) (hqs : u.qs = false) (c : Nat)
    (h1 : mem c u.unsafeS = false) (h2 : mem c u.ignoreS = false) : uqEmit b u c = [c] := by
  unfold uqEmit
  simp [hqs, h1, h2]

/-- Read-back for a pairing of a generated non-requoting non-query quoter `qa`
    with an unquoter `ua` whose re-escaped characters (`unsafe`, `ignore`) are all
    literal-safe for `qa` (so `qa` never writes them as escapes). -/
theorem readback_pair (qa : QArgs) (hqa : qa ∈ Gen.allQuoters) (ua : UArgs) (b : Backend)
    (hnr : qa.requote = false) (hqs : qa.qs = false) (huqs : ua.qs = false)
    (hun : ∀ x ∈ ua.unsafeS, x = 43)
    (hsafe : ∀ x ∈ ua.unsafeS ++ ua.ignoreS, x < 128 ∧ (qa.tab b).safe x = true)
    (t : Str) (ht : PyStr t) (hn : NoSurrogate t) :
    ua.run b (qa.run b t) = t := by
  rw [QsLemmas.run_eq_cOut qa hqa b t ht, QsLemmas.stripSurr_id t hn]
  show unquote b (ua.tab b) _ = t
  apply unquote_cOut b (qa.tab b) (ua.tab b) (gen_tab_wf qa hqa b)
  · cases b <;> exact hnr
  · intro c _ _ _
    exact uqPlain_id (ua.tab b) huqs hun c
  · intro h
    have : (qa.tab b).qs = qa.qs := by cases b <;> rfl
    rw [this, hqs] at h
    exact absurd h (by decide)
  · intro c _ hc _
    have hnm : ∀ l : Str, (∀ x ∈ l, x ∈ ua.unsafeS ++ ua.ignoreS) → mem c l = false := by
      intro l hl
      cases hm : mem c l with
      | false => rfl
      | true =>
        have := hsafe c (hl c (GenTabs.mem_iff.mp hm))
        rcases hc with hc | hc
        · rw [this.2] at hc; exact absurd hc (by decide)
        · omega
    exact uqEmit_id b (ua.tab b) huqs c (hnm ua.unsafeS (fun x hx => List.mem_append_left _ hx))
      (hnm ua.ignoreS (fun x hx => List.mem_append_right _ hx))
  · exact ht
  · exact hn

/-! ### what the inner quoters of an unquoter write for one re-escaped character -/

theorem quote_wf_eq_cOut (b : Backend) (q : QTab) (hq : q.WF) (hsp : q.qs = true → q.safe 32 = false)
    (s : Str) (hs : PyStr s) : quote b q s = cOut q (stripSurr s) := by
  cases b with
  | py =>
    show quotePy q s = _
    rw [quotePy_eq_quoteC q hq hsp s hs, quoteC_eq_cOut q hq hsp s hs]
  | c => exact quoteC_eq_cOut q hq hsp s hs

theorem quote_single_esc (b : Backend) (q : QTab) (hq : q.WF) (hsp : q.qs = true → q.safe 32 = false)
    (c : Nat) (hc : c < 128) (hs : q.safe c = false) (h32 : ¬(q.qs = true ∧ c = 32)) :
    quote b q [c] = pct c := by
  have hpy : PyStr [c] := by
    intro x hx; simp only [List.mem_singleton] at hx; subst hx; omega
  have hsur : stripSurr [c] = [c] := by
    apply QsLemmas.stripSurr_id
    intro x hx; simp only [List.mem_singleton] at hx; subst hx
    simp [isSurrogate]; omega
  have hw : cWriteOut q c = pct c := by
    simp [cWriteOut, h32, hs, writeUtf8, QuoteEquiv.utf8_ascii hc]
  rw [quote_wf_eq_cOut b q hq hsp [c] hpy, hsur]
  by_cases h : c = 37 ∧ q.requote = true
  · obtain ⟨rfl, hr⟩ := h
    rw [QuoteEquiv.cOut_noesc q hr (by simp [takeEscape]), hw, cOut]; simp
  · rw [QuoteEquiv.cOut_plain q h, hw, cOut]; simp

theorem utab_quoter (ua : UArgs) (b : Backend) : (ua.tab b).quoter = defaultQuoterArgs.tab b := rfl

/-- a character of `ignore` / `unsafe` that decodes out of an escape is written back as an escape
    (given that the default quoter does not keep it literal) -/
theorem uqEmit_reescape (ua : UArgs) (b : Backend) (huqs : ua.qs = false) (c : Nat) (hc : c < 128)
    (hm : mem c ua.unsafeS = true ∨ mem c ua.ignoreS = true)
    (hs : (defaultQuoterArgs.tab b).safe c = false) : uqEmit b (ua.tab b) c = pct c := by
  have h1 : (ua.tab b).qs = false := huqs
  have h2 : mem c (ua.tab b).unsafeS = true ∨ mem c (ua.tab b).ignoreS = true := hm
  unfold uqEmit
  simp only [h1, Bool.false_eq_true, false_and, if_false, h2, if_true, utab_quoter]
  have hqs : (defaultQuoterArgs.tab b).qs = false := by cases b <;> rfl
  exact quote_single_esc b _ (default_tabs_wf b).1 (fun _ => (default_space_unsafe b).1) c hc hs
    (by simp [hqs])

theorem uqPlain_id' (ua : UArgs) (b : Backend) (hqs : ua.qs = false) (hun : ∀ x ∈ ua.unsafeS, x = 43)
    (c : Nat) : uqPlain (ua.tab b) c = [c] := uqPlain_id (ua.tab b) hqs hun c

theorem uqEmit_id' (ua : UArgs) (b : Backend) (hqs : ua.qs = false) (c : Nat)
    (h1 : mem c ua.unsafeS = false) (h2 : mem c ua.ignoreS = false) : uqEmit b (ua.tab b) c = [c] :=
  uqEmit_id b (ua.tab b) hqs c h1 h2

/-! ### query arguments made of Python strings -/

def QValPy : QVal → Prop
  | .str s => PyStr s
  | .float txt _ => PyStr txt
  | _ => True

def QItemPy : QItem → Prop
  | .one v => QValPy v
  | .many vs => ∀ v ∈ vs, QValPy v

def QArgPy : QArg → Prop
  | .str s => PyStr s
  | .mapping items => ∀ p ∈ items, PyStr p.1 ∧ QItemPy p.2
  | .pairs items => ∀ p ∈ items, PyStr p.1 ∧ QItemPy p.2
  | _ => True

theorem queryVar_pyStr (v : QVal) (hv : QValPy v) (s : Str) (h : queryVar v = .ok s) : PyStr s := by
  cases v with
  | str t => simp only [queryVar, Except.ok.injEq] at h; subst h; exact hv
  | int n =>
    simp only [queryVar, Except.ok.injEq] at h; subst h
    exact (QsLemmas.pyStr_of_ascii _ (QsLemmas.intToStr_ascii n)).1
  | float txt kind =>
    simp only [queryVar] at h
    split at h
    · simp only [Except.ok.injEq] at h; subst h; exact hv
    · cases h
  | bool => cases h
  | none => cases h
  | other => cases h

theorem pairStr_backend (k : Str) (hk : PyStr k) (v : QVal) (hv : QValPy v) :
    pairStr .py k v = pairStr .c k v := by
  unfold pairStr
  cases h : queryVar v with
  | error e => rfl
  | ok vs =>
    simp only [bind, Except.bind, pure, Except.pure]
    rw [qrun_backend Gen.QUERY_PART_QUOTER (by decide) k hk,
      qrun_backend Gen.QUERY_PART_QUOTER (by decide) vs (queryVar_pyStr v hv vs h)]

theorem mapM_congr_mem {α β : Type} (f g : α → R β) (l : List α) (h : ∀ x ∈ l, f x = g x) :
    l.mapM f = l.mapM g := by
  induction l with
  | nil => rfl
  | cons a t ih =>
    rw [List.mapM_cons, List.mapM_cons, h a (by simp), ih (fun x hx => h x (by simp [hx]))]

theorem getStrQuery_backend (a : QArg) (ha : QArgPy a) : getStrQuery .py a = getStrQuery .c a := by
  cases a with
  | none => rfl
  | str s =>
    simp only [getStrQuery]
    rw [qrun_backend Gen.QUERY_QUOTER (by decide) s ha]
  | mapping items =>
    simp only [getStrQuery, strQueryFromSeqIterable]
    rw [mapM_congr_mem _ (fun (x : Str × QItem) => (match x.snd with
            | .one v => do pure [← pairStr .c x.fst v]
            | .many vs => vs.mapM (pairStr .c x.fst) : R (List Str))) items]
    · rfl
    · intro p hp
      obtain ⟨hk, hi⟩ := ha p hp
      obtain ⟨k, it⟩ := p
      cases it with
      | one v => simp only; rw [pairStr_backend k hk v hi]
      | many vs =>
        simp only
        exact mapM_congr_mem _ _ vs (fun v hv => pairStr_backend k hk v (hi v hv))
  | pairs items =>
    simp only [getStrQuery, strQueryFromIterable]
    rw [mapM_congr_mem _ (fun (x : Str × QItem) => (match x.snd with
            | .one v => pairStr .c x.fst v
            | .many _ => .error .typeError : R Str)) items]
    · rfl
    · intro p hp
      obtain ⟨hk, hi⟩ := ha p hp
      obtain ⟨k, it⟩ := p
      cases it with
      | one v => simp only; rw [pairStr_backend k hk v hi]
      | many vs => rfl
  | bytes e => rfl
  | other => rfl
  | noArgs => rfl

theorem makeNetloc_congr (f g : Str → Str) (u p h : Option Str) (port : Option Nat) (enc : Bool)
    (hu : ∀ t, u = some t → f t = g t) (hp : ∀ t, p = some t → f t = g t) :
    makeNetloc f u p h port enc = makeNetloc g u p h port enc := by
  unfold makeNetloc
  cases h with
  | none => rfl
  | some h =>
    cases u with
    | none =>
      cases p with
      | none => rfl
      | some pw => simp only [hp pw rfl]
    | some us =>
      cases p with
      | none => simp only [hu us rfl]
      | some pw => simp only [hu us rfl, hp pw rfl]

/-! ### UTF-8 is a prefix code; the unquoter loop decodes valid escaped UTF-8 -/

def Cont (x : Nat) : Prop := 0x80 ≤ x ∧ x < 0xC0

theorem utf8_cases (c : Nat) (hc : c ≤ 0x10FFFF) (hs : isSurrogate c = false) :
    (c < 0x80 ∧ utf8 c = [c]) ∨
    (∃ b0 b1, utf8 c = [b0, b1] ∧ 0xC0 ≤ b0 ∧ b0 < 0xE0 ∧ Cont b1) ∨
    (∃ b0 b1 b2, utf8 c = [b0, b1, b2] ∧ 0xE0 ≤ b0 ∧ b0 < 0xF0 ∧ Cont b1 ∧ Cont b2) ∨
    (∃ b0 b1 b2 b3, utf8 c = [b0, b1, b2, b3] ∧ 0xF0 ≤ b0 ∧ b0 < 0xF8 ∧ Cont b1 ∧ Cont b2 ∧ Cont b3) := by
  by_cases h1 : c < 0x80
  · exact Or.inl ⟨h1, utf8_1 c h1⟩
  by_cases h2 : c < 0x800
  · refine Or.inr (Or.inl ⟨_, _, utf8_2 c (by omega) h2, ?_, ?_, ?_⟩) <;> (try unfold Cont) <;> omega
  by_cases h3 : c < 0x10000
  · refine Or.inr (Or.inr (Or.inl ⟨_, _, _, utf8_3 c (by omega) h3 hs, ?_, ?_, ?_, ?_⟩)) <;> (try unfold Cont) <;> omega
  · refine Or.inr (Or.inr (Or.inr ⟨_, _, _, _, utf8_4 c (by omega) hc, ?_, ?_, ?_, ?_, ?_⟩)) <;> (try unfold Cont) <;> omega

/-- UTF-8 is a prefix code -/
theorem utf8_prefix_free (c c' : Nat) (hc : c ≤ 0x10FFFF) (hs : isSurrogate c = false)
    (hc' : c' ≤ 0x10FFFF) (hs' : isSurrogate c' = false) (X Y : List Nat)
    (h : utf8 c ++ X = utf8 c' ++ Y) : c = c' ∧ X = Y := by
  have key : utf8 c = utf8 c' ∧ X = Y := by
    rcases utf8_cases c hc hs with ⟨a, e⟩ | ⟨b0, b1, e, r⟩ | ⟨b0, b1, b2, e, r⟩ | ⟨b0, b1, b2, b3, e, r⟩ <;>
    rcases utf8_cases c' hc' hs' with ⟨a', e'⟩ | ⟨d0, d1, e', r'⟩ | ⟨d0, d1, d2, e', r'⟩ | ⟨d0, d1, d2, d3, e', r'⟩ <;>
    rw [e, e'] at h <;> simp only [List.cons_append, List.nil_append, List.cons.injEq] at h <;>
    first
      | (rw [e, e']; obtain ⟨rfl, h⟩ := h; first | exact ⟨rfl, h⟩ | (obtain ⟨rfl, h⟩ := h; first | exact ⟨rfl, h⟩ | (obtain ⟨rfl, h⟩ := h; first | exact ⟨rfl, h⟩ | (obtain ⟨rfl, h⟩ := h; exact ⟨rfl, h⟩))))
      | (exfalso; unfold Cont at *; omega)
  refine ⟨?_, key.2⟩
  have h1 := decodeBuf_utf8 c hc hs
  rw [key.1, decodeBuf_utf8 c' hc' hs'] at h1
  cases h1; rfl


theorem utf8_tail_cont (c : Nat) (hc : c ≤ 0x10FFFF) (hs : isSurrogate c = false) (k : Nat) (hk : 0 < k)
    (x : Nat) (r : List Nat) (h : (utf8 c).drop k = x :: r) : Cont x := by
  rcases utf8_cases c hc hs with ⟨a, e⟩ | ⟨b0, b1, e, r1⟩ | ⟨b0, b1, b2, e, r1⟩ | ⟨b0, b1, b2, b3, e, r1⟩ <;>
    rw [e] at h
  · match k, hk with
    | k + 1, _ => simp at h
  · match k, hk with
    | 1, _ => simp at h; rw [← h.1]; exact r1.2.2
    | k + 2, _ => simp at h
  · match k, hk with
    | 1, _ => simp at h; rw [← h.1]; exact r1.2.2.1
    | 2, _ => simp at h; rw [← h.1]; exact r1.2.2.2
    | k + 3, _ => simp at h
  · match k, hk with
    | 1, _ => simp at h; rw [← h.1]; exact r1.2.2.1
    | 2, _ => simp at h; rw [← h.1]; exact r1.2.2.2.1
    | 3, _ => simp at h; rw [← h.1]; exact r1.2.2.2.2
    | k + 4, _ => simp at h

theorem utf8_head_not_cont (c : Nat) (hc : c ≤ 0x10FFFF) (hs : isSurrogate c = false) :
    ∃ x r, utf8 c = x :: r ∧ ¬ Cont x := by
  rcases utf8_cases c hc hs with ⟨a, e⟩ | ⟨b0, b1, e, r1⟩ | ⟨b0, b1, b2, e, r1⟩ | ⟨b0, b1, b2, b3, e, r1⟩
  · exact ⟨_, _, e, by unfold Cont; omega⟩
  · exact ⟨_, _, e, by unfold Cont; omega⟩
  · exact ⟨_, _, e, by unfold Cont; omega⟩
  · exact ⟨_, _, e, by unfold Cont; omega⟩

/-! ### `pctDecode`, one step -/

theorem pctDecode_plain (c : Nat) (rest : Str) (hc : c ≠ 37) :
    pctDecode (c :: rest) = utf8 c ++ pctDecode rest := by
  rw [pctDecode]; simp [hc]

theorem pctDecode_noesc (rest : Str) (h : takeEscape restoreCh rest = none) :
    pctDecode (37 :: rest) = 37 :: pctDecode rest := by
  rw [pctDecode]
  simp only [if_true]
  split
  · rename_i h'; rw [h] at h'; cases h'
  · rfl

theorem pctDecode_esc (rest rest' : Str) (v d1 d2 : Nat)
    (h : takeEscape restoreCh rest = some (v, d1, d2, rest')) :
    pctDecode (37 :: rest) = v :: pctDecode rest' := by
  rw [pctDecode]
  simp only [if_true]
  split
  · rename_i h'; rw [h] at h'; cases h'; rfl
  · rename_i h'; rw [h] at h'; cases h'

theorem uqLoop_noesc (b : Backend) (u : UTab) (ptxt rest : Str) (pend : List Nat)
    (h : takeEscape restoreCh rest = none) :
    uqLoop b u pend ptxt (37 :: rest) = ptxt ++ uqPlain u 37 ++ uqLoop b u [] [] rest := by
  rw [uqLoop]
  simp only [if_true]
  split
  · rename_i h'; rw [h] at h'; cases h'
  · rfl

theorem uqLoop_plain' (b : Backend) (u : UTab) (pend : List Nat) (ptxt : Str) (c : Nat) (hc : c ≠ 37)
    (r : Str) : uqLoop b u pend ptxt (c :: r) = ptxt ++ uqPlain u c ++ uqLoop b u [] [] r := by
  rw [uqLoop]
  simp [hc]

theorem uqLoop_esc_incomplete (b : Backend) (u : UTab) (pend : List Nat) (ptxt rest rest' : Str)
    (v d1 d2 : Nat) (h : takeEscape restoreCh rest = some (v, d1, d2, rest'))
    (hd : decodeBuf (pend ++ [v]) = .incomplete) :
    uqLoop b u pend ptxt (37 :: rest) = uqLoop b u (pend ++ [v]) (ptxt ++ [37, d1, d2]) rest' := by
  rw [uqLoop]
  simp only [if_true]
  split
  · rename_i h'; rw [h] at h'; cases h'; rw [hd]
  · rename_i h'; rw [h] at h'; cases h'

theorem uqLoop_esc_char (b : Backend) (u : UTab) (pend : List Nat) (ptxt rest rest' : Str)
    (v d1 d2 ch : Nat) (h : takeEscape restoreCh rest = some (v, d1, d2, rest'))
    (hd : decodeBuf (pend ++ [v]) = .char ch) :
    uqLoop b u pend ptxt (37 :: rest) = uqEmit b u ch ++ uqLoop b u [] [] rest' := by
  rw [uqLoop]
  simp only [if_true]
  split
  · rename_i h'; rw [h] at h'; cases h'; rw [hd]
  · rename_i h'; rw [h] at h'; cases h'

theorem utf8s_eq_nil (t : Str) (ht : PyStr t) (hn : NoSurrogate t) (h : utf8s t = []) : t = [] := by
  cases t with
  | nil => rfl
  | cons c r =>
    rw [QuoteEquiv.utf8s_cons] at h
    have := utf8_length_pos c (ht c (by simp)) (hn c (by simp))
    have h2 := (List.append_eq_nil_iff.mp h).1
    rw [h2] at this
    simp at this

/-- the loop state between two escapes of one multi-byte character -/
def PendInv (pend : List Nat) (ptxt t : Str) : Prop :=
  (pend = [] ∧ ptxt = []) ∨
  ∃ c' t' k, t = c' :: t' ∧ 0 < k ∧ k < (utf8 c').length ∧ pend = (utf8 c').take k

theorem uqLoop_decodes_aux (b : Backend) (u : UTab) (hplain : ∀ c, uqPlain u c = [c])
    (hemit : ∀ c, c ≤ 0x10FFFF → isSurrogate c = false → uqEmit b u c = [c]) :
    ∀ n (s : Str), s.length ≤ n → PyStr s → NoSurrogate s → ∀ t : Str, PyStr t → NoSurrogate t →
      ∀ (pend : List Nat) (ptxt : Str), PendInv pend ptxt t → pend ++ pctDecode s = utf8s t →
      uqLoop b u pend ptxt s = t := by
  intro n
  induction n with
  | zero =>
    intro s hl _ _ t ht htn pend ptxt hinv heq
    have : s = [] := List.eq_nil_of_length_eq_zero (by omega)
    subst this
    rw [uqLoop_nil]
    rw [pctDecode, List.append_nil] at heq
    rcases hinv with ⟨rfl, rfl⟩ | ⟨c', t', k, rfl, hk0, hk, rfl⟩
    · exact (utf8s_eq_nil t ht htn heq.symm).symm
    · exfalso
      rw [QuoteEquiv.utf8s_cons] at heq
      have := congrArg List.length heq
      simp at this
      omega
  | succ n ih =>
    intro s hl hs hsn t ht htn pend ptxt hinv heq
    match s, hl, hs, hsn, heq with
    | [], _, _, _, heq =>
      rw [uqLoop_nil]
      rw [pctDecode, List.append_nil] at heq
      rcases hinv with ⟨rfl, rfl⟩ | ⟨c', t', k, rfl, hk0, hk, rfl⟩
      · exact (utf8s_eq_nil t ht htn heq.symm).symm
      · exfalso
        rw [QuoteEquiv.utf8s_cons] at heq
        have := congrArg List.length heq
        simp at this
        omega
    | c :: rest, hl, hs, hsn, heq =>
      have hrl : rest.length ≤ n := by simp at hl; omega
      have hrs : PyStr rest := fun x hx => hs x (by simp [hx])
      have hrn : NoSurrogate rest := fun x hx => hsn x (by simp [hx])
      have hcv : c ≤ 0x10FFFF := hs c (by simp)
      have hcs : isSurrogate c = false := hsn c (by simp)
      -- a literal character (including a '%' that starts no escape)
      have literal : pctDecode (c :: rest) = utf8 c ++ pctDecode rest →
          uqLoop b u pend ptxt (c :: rest) = ptxt ++ [c] ++ uqLoop b u [] [] rest →
          uqLoop b u pend ptxt (c :: rest) = t := by
        intro hpd hloop
        rw [hpd] at heq
        rcases hinv with ⟨rfl, rfl⟩ | ⟨c', t', k, rfl, hk0, hk, rfl⟩
        · rw [List.nil_append] at heq
          cases t with
          | nil =>
            exfalso
            have := utf8_length_pos c hcv hcs
            have h2 : utf8 c ++ pctDecode rest = [] := heq
            rw [(List.append_eq_nil_iff.mp h2).1] at this
            simp at this
          | cons c' t' =>
            rw [QuoteEquiv.utf8s_cons] at heq
            have hc'v : c' ≤ 0x10FFFF := ht c' (by simp)
            have hc's : isSurrogate c' = false := htn c' (by simp)
            obtain ⟨rfl, hX⟩ := utf8_prefix_free c c' hcv hcs hc'v hc's _ _ heq
            rw [hloop, ih rest hrl hrs hrn t' (fun x hx => ht x (by simp [hx]))
              (fun x hx => htn x (by simp [hx])) [] [] (Or.inl ⟨rfl, rfl⟩) (by simpa using hX)]
            rfl
        · exfalso
          have hc'v : c' ≤ 0x10FFFF := ht c' (by simp)
          have hc's : isSurrogate c' = false := htn c' (by simp)
          rw [QuoteEquiv.utf8s_cons] at heq
          obtain ⟨x, r, hx, hnc⟩ := utf8_head_not_cont c hcv hcs
          rw [hx] at heq
          conv at heq => rhs; rw [← List.take_append_drop k (utf8 c')]
          simp only [List.append_assoc] at heq
          have heq' := List.append_cancel_left heq
          have hdl : ((utf8 c').drop k).length = (utf8 c').length - k := List.length_drop
          cases hd : (utf8 c').drop k with
          | nil => rw [hd] at hdl; simp at hdl; omega
          | cons y r' =>
            rw [hd] at heq'
            simp only [List.cons_append, List.cons.injEq] at heq'
            have := utf8_tail_cont c' hc'v hc's k hk0 y r' hd
            rw [← heq'.1] at this
            exact hnc this
      by_cases h37 : c = 37
      · subst h37
        cases hte : takeEscape restoreCh rest with
        | none =>
          apply literal
          · rw [pctDecode_noesc rest hte]; rfl
          · rw [uqLoop_noesc b u ptxt rest pend hte, hplain]
        | some val =>
          obtain ⟨v, d1, d2, rest'⟩ := val
          have hlen := takeEscape_length hte
          have hv : v < 256 := UnquoteEquiv.restoreCh_lt (takeEscape_eq hte).2
          have hr'l : rest'.length ≤ n := by omega
          have hr'eq := (takeEscape_eq hte).1
          have hr's : PyStr rest' := fun x hx => hrs x (by rw [hr'eq]; simp [hx])
          have hr'n : NoSurrogate rest' := fun x hx => hrn x (by rw [hr'eq]; simp [hx])
          rw [pctDecode_esc rest rest' v d1 d2 hte] at heq
          -- common step: `pend` is the first `k` bytes of the next character
          have step : ∀ (c' : Nat) (t' : Str) (k : Nat), t = c' :: t' → k < (utf8 c').length →
              pend = (utf8 c').take k → uqLoop b u pend ptxt (37 :: rest) = t := by
            intro c' t' k htt hk hp
            subst htt
            have hc'v : c' ≤ 0x10FFFF := ht c' (by simp)
            have hc's : isSurrogate c' = false := htn c' (by simp)
            have ht'p : PyStr t' := fun x hx => ht x (by simp [hx])
            have ht'n : NoSurrogate t' := fun x hx => htn x (by simp [hx])
            rw [QuoteEquiv.utf8s_cons, hp] at heq
            conv at heq => rhs; rw [← List.take_append_drop k (utf8 c')]
            rw [List.append_assoc] at heq
            have heq' := List.append_cancel_left heq
            have hdrop : (utf8 c').drop k = (utf8 c')[k] :: (utf8 c').drop (k + 1) :=
              List.drop_eq_getElem_cons hk
            rw [hdrop] at heq'
            simp only [List.cons_append, List.cons.injEq] at heq'
            obtain ⟨hvk, hX⟩ := heq'
            have htake : (utf8 c').take (k + 1) = (utf8 c').take k ++ [v] := by
              rw [List.take_succ_eq_append_getElem hk, hvk]
            by_cases hfull : k + 1 = (utf8 c').length
            · have hall : (utf8 c').take k ++ [v] = utf8 c' := by
                rw [← htake, hfull, List.take_length]
              have hdn : (utf8 c').drop (k + 1) = [] := List.drop_of_length_le (by omega)
              rw [hdn, List.nil_append] at hX
              rw [hp, uqLoop_esc_char b u _ ptxt rest rest' v d1 d2 c' hte
                (by rw [hall]; exact decodeBuf_utf8 c' hc'v hc's), hemit c' hc'v hc's,
                ih rest' hr'l hr's hr'n t' ht'p ht'n [] [] (Or.inl ⟨rfl, rfl⟩) (by simpa using hX)]
              rfl
            · have hinc : decodeBuf ((utf8 c').take k ++ [v]) = .incomplete := by
                rw [← htake]
                exact decodeBuf_utf8_prefix c' hc'v hc's (k + 1) (by omega) (by omega)
              rw [hp, uqLoop_esc_incomplete b u _ ptxt rest rest' v d1 d2 hte hinc, ← htake]
              apply ih rest' hr'l hr's hr'n (c' :: t') ht htn
              · exact Or.inr ⟨c', t', k + 1, rfl, by omega, by omega, rfl⟩
              · rw [QuoteEquiv.utf8s_cons, hX]
                conv => rhs; rw [← List.take_append_drop (k + 1) (utf8 c')]
                rw [List.append_assoc]
          rcases hinv with ⟨rfl, rfl⟩ | ⟨c', t', k, rfl, hk0, hk, rfl⟩
          · cases t with
            | nil => simp [utf8s] at heq
            | cons c' t' =>
              exact step c' t' 0 rfl (utf8_length_pos c' (ht c' (by simp)) (htn c' (by simp))) (by simp)
          · exact step c' t' k rfl hk rfl
      · apply literal
        · exact pctDecode_plain c rest h37
        · rw [uqLoop_plain' b u pend ptxt c h37, hplain]


theorem quote_single_lit (b : Backend) (q : QTab) (hq : q.WF) (hsp : q.qs = true → q.safe 32 = false)
    (c : Nat) (hc : c < 128) (hs : q.safe c = true) (h32 : ¬(q.qs = true ∧ c = 32)) :
    quote b q [c] = [c] := by
  have hpy : PyStr [c] := by
    intro x hx; simp only [List.mem_singleton] at hx; subst hx; omega
  have hsur : stripSurr [c] = [c] := by
    apply QsLemmas.stripSurr_id
    intro x hx; simp only [List.mem_singleton] at hx; subst hx
    simp [isSurrogate]; omega
  have h37 : c ≠ 37 := by
    rintro rfl
    have := hq.pct_unsafe
    rw [hs] at this; exact absurd this (by decide)
  have hw : cWriteOut q c = [c] := by
    simp [cWriteOut, h32, hs, hc]
  rw [quote_wf_eq_cOut b q hq hsp [c] hpy, hsur, QuoteEquiv.cOut_plain q (by simp [h37]), hw, cOut]
  rfl

/-- a character of `unsafe` / `ignore` that the default quoter keeps literal is emitted as itself -/
theorem uqEmit_literal (ua : UArgs) (b : Backend) (huqs : ua.qs = false) (c : Nat) (hc : c < 128)
    (hs : (defaultQuoterArgs.tab b).safe c = true) : uqEmit b (ua.tab b) c = [c] := by
  have h1 : (ua.tab b).qs = false := huqs
  unfold uqEmit
  simp only [h1, Bool.false_eq_true, false_and, if_false, utab_quoter]
  split
  · have hqs : (defaultQuoterArgs.tab b).qs = false := by cases b <;> rfl
    exact quote_single_lit b _ (default_tabs_wf b).1 (fun _ => (default_space_unsafe b).1) c hc hs
      (by simp [hqs])
  · rfl

theorem quoter_no_colon (b : Backend) (s : Str) (hs : PyStr s) : 58 ∉ Gen.QUOTER.run b s := by
  have hmem : Gen.QUOTER ∈ Gen.allQuoters := by decide
  have hwf := gen_tab_wf _ hmem b
  rw [QsLemmas.run_eq_cOut _ hmem b s hs]
  have hall := outLang_allowed _ hwf (cOut_outLang _ hwf (stripSurr s) (QuoteEquiv.pyStr_stripSurr hs))
  have h58 : (Gen.QUOTER.tab b).safe 58 = false := by cases b <;> decide
  intro hm
  rcases hall 58 hm with h | h | h | h
  · rw [h58] at h; exact absurd h (by decide)
  · exact absurd h (by decide)
  · exact absurd h (by decide)
  · exact absurd h.2 (by decide)

theorem bind_ok {α β : Type} {x : R α} {f : α → R β} {v : β} (h : (x >>= f) = .ok v) :
    ∃ a, x = .ok a ∧ f a = .ok v := by
  cases x with
  | error e => cases h
  | ok a => exact ⟨a, rfl, h⟩

theorem ite_err' {α : Type} {c : Prop} [Decidable c] {err : PyErr} {x : R α} {v : α}
    (h : (if c then .error err else x) = .ok v) : x = .ok v := by
  split at h
  · cases h
  · exact h

end DecLemmas
end Yarl
