/-
  CanonConverse.lean — the Prop-level core of the CONVERSE of C04 (GAPS 5 of C04Headline.lean): a string that
  `str(URL(s))` returns unchanged is canonical.  Used by YarlProofs/C04DecideConverse.lean.

  `render`        — what `str` writes for a URL with `CanonUrl` and `NetlocCanonB`: `unsplit_result` of the scheme, a
                    canonical authority `N` without default port, the path `C07_strPath u`, the query, the fragment.
  `fixed_parts`   — if that text is the INPUT `s` again, the five parts `split_url` read from `s` are exactly these
                    five (the two recorded exclusions of C03 — `C03Guards` — cannot occur at a fixed point), and
                    they satisfy `CanonStringB` and `PartsOK`.
-/
import YarlModel
import YarlProofs.Lemmas.CanonComplete
set_option linter.unusedVariables false
set_option linter.unusedSimpArgs false
namespace Yarl
namespace R8
open ReachFix FixLemmas NetShape HostLemmas NetlocLemmas BrHost ParseLemmas UnsplitLemmas IdGen

/-- the authority `str` writes is canonical and has no default port -/
theorem render (e : Env) (u : Url) (hnet : NetlocCanonB e u) :
    ∃ N, str e u = .ok (unsplitResult u.scheme N (C07_strPath u) u.query u.fragment) ∧
      CanonNetlocB e u.scheme N ∧ (N = [] ↔ u.netloc = []) := by
  cases hnet with
  | plain hnet =>
    cases hnet with
    | empty hn hpre =>
      have hN := net_empty e u hn hpre
      have hep : explicitPort e u = .ok none := by unfold explicitPort; rw [hN]; rfl
      have hstr := C07_str_recompose e u none hep (by intro p hp; cases hp)
      refine ⟨[], ?_, .plain (.empty rfl), by simp [hn]⟩
      rw [hstr]
      unfold C07_strPath
      rw [hn]
    | auth user pw host port hn hu hh hp hpre =>
      have hN := net_auth e u user pw host port hn hu hh hp hpre
      have hstr := str_auth e u user pw host port hn hN
      have hne : u.netloc ≠ [] := by rw [hn]; exact makeNetloc_ne_nil id user pw hh.ok.1 port
      have hne' : authText user pw host (strPort u.scheme port) ≠ [] := makeNetloc_ne_nil id user pw hh.ok.1 _
      refine ⟨_, hstr, .plain (.auth user pw host _ rfl hu hh
        ⟨strPort_range u.scheme port hp, strPort_notDefault u.scheme port⟩), ?_⟩
      constructor
      · intro h; exact absurd h hne'
      · intro h; exact absurd h hne
  | brk user pw t port hn hu hh hp hpre =>
    have hN := net_authB e u user pw t port hn hu hh.ok hp hpre
    have hstr := str_authB e u user pw t port hn hN
    have hne : u.netloc ≠ [] := by rw [hn]; exact authTextB_ne_nil _ _ _ _
    refine ⟨_, hstr, ?_, ?_⟩
    · by_cases h58 : 58 ∈ t
      · rw [strAuthB_colon user pw port h58]
        exact .brk user pw t _ rfl hu hh ⟨strPort_range u.scheme port hp, strPort_notDefault u.scheme port⟩
      · cases port with
        | none => exact .brk user pw t none rfl hu hh (portOK_none _)
        | some p =>
          by_cases hd : some p = defaultPort u.scheme
          · rw [strAuthB_default user pw t hd]
            exact .plain (.auth user pw t none rfl hu (hostFix_of_no_colon hh h58) (portOK_none _))
          · rw [strAuthB_other user pw t (by intro p' hp'; cases hp'; exact hd)]
            exact .brk user pw t _ rfl hu hh ⟨hp, by intro p' hp'; cases hp'; exact hd⟩
    · constructor
      · intro h
        exfalso
        revert h
        cases port with
        | none => exact authTextB_ne_nil _ _ _ _
        | some p =>
          by_cases hd : some p = defaultPort u.scheme
          · rw [strAuthB_default user pw t hd]
            exact makeNetloc_ne_nil id user pw hh.ok.1 none
          · rw [strAuthB_other user pw t (by intro p' hp'; cases hp'; exact hd)]
            exact authTextB_ne_nil _ _ _ _
      · intro h; exact absurd h hne

theorem canonNetlocB_chars (e : Env) {scheme a : Str} (h : CanonNetlocB e scheme a) :
    ∀ c ∈ a, 33 ≤ c ∧ c < 128 ∧ Rfc.isDelim3 c = false := by
  cases h with
  | plain h =>
    cases h with
    | empty hn => subst hn; intro c hc; cases hc
    | auth user pw host port hn hu hh hp => subst hn; exact authText_chars hu hh
  | brk user pw t port hn hu hh hp => subst hn; exact authTextB_chars hu hh

/-- `unsplit_result` of visible parts is visible -/
theorem visible_unsplit {sc n pa q f : Str} (h1 : Visible sc) (h2 : Visible n) (h3 : Visible pa) (h4 : Visible q)
    (h5 : Visible f) : Visible (unsplitResult sc n pa q f) := by
  have k1 : Visible [58, 47, 47] := by decide
  have k2 : Visible [47] := by decide
  have k3 : Visible [58] := by decide
  have k4 : Visible [47, 47] := by decide
  have k5 : Visible [63] := by decide
  have k6 : Visible [35] := by decide
  unfold unsplitResult
  simp only
  repeat' split
  all_goals
    repeat' apply visible_append
  all_goals assumption

/-- for a scheme in `uses_authority` without authority, a rootless path and the same path behind a "/" are written
    alike ("file:a" and "file:/a" both give "file:///a") -/
theorem unsplit_rootless {sc P : Str} (Q F : Str) (hne : sc ≠ []) (huse : Gen.usesAuthority.contains sc = true)
    (hP : P ≠ []) (hroot : P.head? ≠ some 47) :
    unsplitResult sc [] P Q F = unsplitResult sc [] (47 :: P) Q F := by
  have h1 : sc.isEmpty = false := isEmpty_false hne
  have h2 : P.isEmpty = false := isEmpty_false hP
  have h3 : P.take 1 ≠ [47] := by
    cases P with
    | nil => exact absurd rfl hP
    | cons a r => simp at hroot ⊢; exact hroot
  have hm : sc ∈ Gen.usesAuthority := by simpa using huse
  unfold unsplitResult
  simp [h1, h2, h3, hm]

/-- MAIN (Prop level).  If `str(URL(s))` is `s` again — for a Python string `s` whose authority names a host of a
    supported kind (`AuthInputB`: any letter case, any IPv6 spelling, …) — then the five parts `split_url` reads from
    `s` are canonical (`CanonStringB`), well-formed (`PartsOK`), and `s` is what `unsplit_result` writes from them. -/
theorem fixed_parts (e : Env) (s : Str) (p : Parts) (u : Url) (hs : PyStr s)
    (hp : splitUrl e.o s = .ok p) (ha : AuthInputB e.o p.netloc)
    (h1 : encodeUrl e s = .ok u) (h2 : str e u = .ok s) :
    CanonStringB e p.scheme p.netloc p.path p.query p.fragment ∧ PartsOK p ∧
    unsplitResult p.scheme p.netloc p.path p.query p.fragment = s := by
  have hc := C03_encodeUrl_canon e s hs u h1
  have hn := C03_bracket_encodeUrl_netlocCanonB e s u p hs h1 hp ha
  have hsch := C03_encodeUrl_scheme e s u hs h1
  obtain ⟨p', netloc, pre, hp', hn0, hu⟩ := encodeUrl_inv e s u h1
  rw [hp] at hp'
  cases hp'
  have hus : u.scheme = p.scheme := by rw [hu]; rfl
  have hupath : u.path = encPath e u.netloc p.path := by rw [hu]; rfl
  obtain ⟨N, hstr, hN, hNe⟩ := render e u hn
  rw [hstr] at h2
  have hW : unsplitResult u.scheme N (C07_strPath u) u.query u.fragment = s := by injection h2
  obtain ⟨hPc, hPd, hPr⟩ := strPath_canon e.b u hc
  have hNch := canonNetlocB_chars e hN
  have hbr := (canonNetlocB_parse e hN).1
  have hvis : Visible s := by
    rw [← hW]
    apply visible_unsplit
    · intro c hc'
      rcases hsch with h | h
      · rw [h] at hc'; cases hc'
      · exact schemeChars_visible c (h.2 c hc').1
    · exact fun c hc' => (hNch c hc').1
    · exact fun c hc' => (canon_path_chars hPc c hc').1
    · exact fun c hc' => (canon_query_chars hc.query c hc').1
    · exact fun c hc' => canon_fragment_chars hc.fragment c hc'
  have hclean := cleanUrl_visible hvis
  have hB := C07_split e.o s p hp
  rw [hclean] at hB
  -- the first recorded exclusion of C03 cannot occur at a fixed point
  have gA : u.scheme ≠ [] → Gen.usesAuthority.contains u.scheme = true → RootedP (C07_strPath u) := by
    intro hne huse
    by_cases hNn : N = []
    · have hun : u.netloc = [] := hNe.1 hNn
      rw [strPath_of_no_netloc u hun] at hW ⊢
      by_cases hroot : RootedP u.path
      · exact hroot
      · exfalso
        have hP : u.path ≠ [] := fun h => hroot (Or.inl h)
        have hh : u.path.head? ≠ some 47 := fun h => hroot (Or.inr h)
        have hcan : Canon (Gen.PATH_REQUOTER.tab e.b) (47 :: u.path) := canon_cons (path_lit47 e.b) hc.path
        have hok' := partsOK_build e.b u.scheme [] (47 :: u.path) u.query u.fragment hsch
          (fun c hc' => by cases hc') rfl hcan hc.query hc.fragment
          (fun h => absurd rfl h) (fun _ _ => rootedP_cons _) (fun h => absurd h hne)
        have hsplit := C07_split_unsplit e.o _ hok'
        simp only at hsplit
        rw [← unsplit_rootless u.query u.fragment hne huse hP hh, ← hNn, hW, hp] at hsplit
        have hpp : p.path = 47 :: u.path := by
          injection hsplit with h
          rw [h]
        rw [hun, hpp, encPath_fixed' e [] _ hcan (fun h => absurd rfl h)] at hupath
        have := congrArg List.length hupath
        simp at this
    · exact hPr (fun h => hNn (hNe.2 h))
  -- … nor the second
  have gB : u.scheme = [] → N = [] → 58 ∈ C07_strPath u →
      ((C07_strPath u).takeWhile (· ≠ 58) = [] ∨
        ((C07_strPath u).takeWhile (· ≠ 58)).all (fun c => mem c Gen.schemeChars) = false) := by
    intro hse hNn h58
    by_cases h2 : (C07_strPath u).take 2 = [47, 47]
    · right
      generalize C07_strPath u = P at h2 h58 ⊢
      match P, h2 with
      | a :: b :: t, h2 =>
        simp at h2
        obtain ⟨rfl, rfl⟩ := h2
        simp [List.takeWhile]
        intro h
        exact absurd h (by decide)
    · rw [hse, hNn] at hW
      have hrel := canonText_relative (C07_strPath u) u.query u.fragment h2
      unfold canonText at hrel
      rw [hrel, List.append_assoc] at hW
      have hnil : (Rfc.schemeOf Gen.schemeChars s).1 = [] := by
        have := congrArg Rfc.Parts5.scheme hB
        rw [appendixB_eq] at this
        simp only [toParts5] at this
        rw [← this, ← hus, hse]
      have hs58 : 58 ∈ s := by rw [← hW]; exact List.mem_append_left _ h58
      have := schemeOf_nil_imp s hnil hs58
      rw [← hW, takeWhile_of_mem_left _ h58] at this
      exact this
  have hok := partsOK_build e.b u.scheme N (C07_strPath u) u.query u.fragment hsch hNch hbr hPc hc.query
    hc.fragment (fun hne => hPr (fun h => hne (hNe.2 h))) gA gB
  have hsplit := C07_split_unsplit e.o _ hok
  simp only at hsplit
  rw [hW, hp] at hsplit
  have hpe : p = { scheme := u.scheme, netloc := N, path := C07_strPath u, query := u.query, fragment := u.fragment } := by
    injection hsplit
  have hnonempty : N ≠ [] → C07_strPath u = [] → u.query = [] ∧ u.fragment = [] := by
    intro hne hpe'
    have hun : u.netloc ≠ [] := fun h => hne (hNe.2 h)
    unfold C07_strPath at hpe'
    split at hpe'
    · cases hpe'
    · rename_i hcnd
      rw [hpe'] at hcnd
      simp only [List.isEmpty_nil, Bool.true_and, isEmpty_false hun, Bool.not_false, Bool.or_eq_true,
        Bool.not_eq_true', List.isEmpty_eq_false_iff, not_or, Decidable.not_not] at hcnd
      exact hcnd
  rw [hpe]
  refine ⟨⟨hsch, hN, hPc, hc.query, hc.fragment, fun hne => hPr (fun h => hne (hNe.2 h)),
    fun hne => hPd (fun h => hne (hNe.2 h)), hnonempty, gB, fun h1 h2 _ => gA h1 h2⟩, hok, hW⟩

/-! ### what `unsplit_result` writes from well-formed parts is `Recomposable`, clean, and has its scheme in lower case -/

/-- stage 1 of reading `written p` back: the scheme and what follows it -/
theorem schemeOf_written {p : Parts} (h : PartsOKg p) :
    Rfc.schemeOf Gen.schemeChars (written p) =
      (p.scheme, (if marker p.scheme p.netloc p.path then 47 :: 47 :: p.netloc else []) ++
        (p.path ++ tailStr p.query p.fragment)) := by
  unfold written
  by_cases hs : p.scheme = []
  · rw [hs]
    simp only [schemeStr, List.isEmpty_nil, ↓reduceIte, List.nil_append]
    by_cases hm : marker [] p.netloc p.path = true
    · rw [if_pos hm]
      exact schemeOf_none_of_bad _ 47 (by simp) (by decide)
    · rw [if_neg hm, List.nil_append]
      have hn := (marker_false hm).1
      exact schemeOf_none_path _ _ _ (h.rootless_first_segment hs hn)
  · obtain ⟨ha, hl, _⟩ := scheme_facts h hs
    have : p.scheme.isEmpty = false := by cases hp : p.scheme <;> simp_all
    simp only [schemeStr, this, Bool.false_eq_true, ↓reduceIte, List.append_assoc, List.singleton_append]
    exact UnsplitLemmas.schemeOf_compose _ _ hs ha hl

/-- everything `unsplit_result` writes in front of the query: no '?', no '#' -/
theorem written_head_chars {p : Parts} (h : PartsOKg p) :
    ∀ c ∈ schemeStr p.scheme ++ ((if marker p.scheme p.netloc p.path then 47 :: 47 :: p.netloc else []) ++ p.path),
      c ≠ 63 ∧ c ≠ 35 := by
  intro c hc
  rcases List.mem_append.1 hc with hc | hc
  · unfold schemeStr at hc
    split at hc
    · cases hc
    · rename_i hne
      have hs : p.scheme ≠ [] := by intro e; rw [e] at hne; simp at hne
      rcases List.mem_append.1 hc with hc | hc
      · have := schemeChars_no_delims c ((scheme_facts h hs).2.2 c hc)
        exact ⟨this.2.2.1, this.2.2.2⟩
      · simp at hc; omega
  · rcases List.mem_append.1 hc with hc | hc
    · split at hc
      · simp only [List.mem_cons] at hc
        rcases hc with rfl | rfl | hc
        · omega
        · omega
        · exact ⟨(h.netloc_ok c hc).2.1, (h.netloc_ok c hc).2.2⟩
      · cases hc
    · exact h.path_ok c hc

theorem recomposable_written {p : Parts} (h : PartsOKg p) : Recomposable (written p) := by
  have hcl := written_clean h
  have hB := appendixB_written h
  have hS := schemeOf_written h
  have hhead := written_head_chars h
  have hw : written p = (schemeStr p.scheme ++ ((if marker p.scheme p.netloc p.path then 47 :: 47 :: p.netloc else []) ++
      p.path)) ++ tailStr p.query p.fragment := by
    unfold written; simp only [List.append_assoc]
  refine ⟨?_, ?_, ?_, ?_⟩
  · -- query_delim
    rw [hcl, hB]
    intro h63 hq
    simp only at hq
    rw [hw, hq] at h63
    have hstop : HeadP (fun x => (fun c => decide (c ≠ 35)) x = false) (tailStr [] p.fragment) := by
      unfold tailStr
      cases p.fragment <;> intro x hx <;> simp at hx ⊢
      exact hx.symm
    rw [takeWhile_stop (fun c => decide (c ≠ 35)) _ _ (fun c hc => by simpa using (hhead c hc).2) hstop] at h63
    exact (hhead 63 h63).1 rfl
  · -- fragment_delim
    rw [hcl, hB]
    intro h35 hf
    simp only at hf
    rw [hw, hf] at h35
    rcases List.mem_append.1 h35 with h35 | h35
    · exact (hhead 35 h35).2 rfl
    · unfold tailStr at h35
      simp only [List.isEmpty_nil, Bool.not_true, Bool.false_eq_true, if_false, List.append_nil] at h35
      split at h35
      · rcases List.mem_cons.1 h35 with h' | h'
        · omega
        · exact h.query_ok h'
      · cases h35
  · -- authority_marker
    unfold C07_afterScheme
    rw [hcl, hB, splitScheme_eq, hS]
    simp only
    intro h2 hn
    by_cases hm : marker p.scheme p.netloc p.path = true
    · rcases marker_cases hm with hne | hsu | h2'
      · exact absurd hn hne
      · exact Or.inl hsu
      · exact Or.inr h2'
    · rw [if_neg hm, List.nil_append] at h2
      right
      exact take2_append (headP_mono (fun x hx => by omega) (tailStr_head p.query p.fragment)) h2
  · -- authority_scheme
    unfold C07_afterScheme
    rw [hcl, hB, splitScheme_eq, hS]
    simp only
    intro hs hu
    have hm : marker p.scheme p.netloc p.path = true := by
      unfold marker
      rw [isEmpty_false hs, hu]
      simp
    rw [if_pos hm]
    rfl

/-- the scheme of what `unsplit_result` writes is written in lower case -/
theorem lower_written {p : Parts} (h : PartsOKg p) :
    (splitScheme (written p)).1 = [] ∨
      lower ((written p).takeWhile (· ≠ 58)) = (written p).takeWhile (· ≠ 58) := by
  by_cases hs : p.scheme = []
  · left
    rw [splitScheme_eq, schemeOf_written h]
    exact hs
  · right
    obtain ⟨_, hl, hc⟩ := scheme_facts h hs
    have htw : (written p).takeWhile (· ≠ 58) = p.scheme := by
      unfold written schemeStr
      rw [isEmpty_false hs]
      simp only [Bool.false_eq_true, if_false, List.append_assoc]
      apply takeWhile_stop
      · intro x hx
        have := (schemeChars_no_delims x (hc x hx)).1
        simpa using this
      · exact headP_cons _ (by simp)
    rw [htw, hl]

end R8
end Yarl
