/-
  HumanLemmas.lean — `human_quote` character by character, and what a requoting
  `_Quoter` makes of its output.
-/
import YarlProofs.Defs
import YarlProofs.Lemmas.Canon
import YarlProofs.Lemmas.Utf8Round
import YarlProofs.Lemmas.GenTabs
import YarlProofs.C12Readback
import YarlProofs.C07
import YarlProofs.C11
import YarlProofs.C13
import YarlProofs.C16
set_option linter.unusedVariables false
namespace Yarl
namespace HumanLemmas

open OutLangLemmas QsLemmas

/-- equality of results is decidable (core has no such instance); needed to state
    "`isPrintableChar o c = .ok false`" inside an `if`, and for the `decide` checks -/
instance instDecEqExcept {ε α : Type} [DecidableEq ε] [DecidableEq α] : DecidableEq (Except ε α)
  | .ok a, .ok b => if h : a = b then isTrue (h ▸ rfl) else isFalse (fun e => h (Except.ok.inj e))
  | .error a, .error b =>
    if h : a = b then isTrue (h ▸ rfl) else isFalse (fun e => h (Except.error.inj e))
  | .ok _, .error _ => isFalse (fun e => nomatch e)
  | .error _, .ok _ => isFalse (fun e => nomatch e)

/-- what `human_quote` does with one character -/
def hqChar (o : Oracles) (uns : Str) (c : Nat) : R Str := do
  if c = 37 || mem c uns then pure (pct c)
  else if ← isPrintableChar o c then pure [c]
  else if isSurrogate c then .error .valueError
  else pure ((utf8 c).flatMap pct)

theorem humanQuote_eq (o : Oracles) (s uns : Str) :
    humanQuote o s uns = (do let parts ← s.mapM (hqChar o uns); pure parts.flatten) := rfl

theorem humanQuote_nil (o : Oracles) (uns : Str) : humanQuote o [] uns = .ok [] := rfl

theorem humanQuote_cons (o : Oracles) (uns : Str) (c : Nat) (s r : Str) :
    humanQuote o (c :: s) uns = .ok r ↔
      ∃ p r', hqChar o uns c = .ok p ∧ humanQuote o s uns = .ok r' ∧ r = p ++ r' := by
  rw [humanQuote_eq, humanQuote_eq, List.mapM_cons]
  cases h1 : hqChar o uns c with
  | error e => simp [bind, Except.bind]
  | ok p =>
    cases h2 : List.mapM (hqChar o uns) s with
    | error e => simp [bind, Except.bind]
    | ok ps =>
      simp only [bind, Except.bind, pure, Except.pure, List.flatten_cons, Except.ok.injEq]
      constructor
      · intro h; exact ⟨p, ps.flatten, rfl, rfl, h.symm⟩
      · rintro ⟨p', r', rfl, rfl, rfl⟩; rfl

/-- the three ways a character comes out -/
inductive Piece (o : Oracles) (uns : Str) (c : Nat) (p : Str) : Prop
  | esc : (c = 37 ∨ mem c uns = true) → p = pct c → Piece o uns c p
  | shown : c ≠ 37 → mem c uns = false → isPrintableChar o c = .ok true → p = [c] → Piece o uns c p
  | hidden : c ≠ 37 → mem c uns = false → isPrintableChar o c = .ok false → isSurrogate c = false →
      p = (utf8 c).flatMap pct → Piece o uns c p

theorem hqChar_ok {o : Oracles} {uns : Str} {c : Nat} {p : Str} (h : hqChar o uns c = .ok p) :
    Piece o uns c p := by
  unfold hqChar at h
  by_cases h1 : c = 37 ∨ mem c uns = true
  · have : (c = 37 || mem c uns) = true := by simpa using h1
    simp only [this, if_true, pure, Except.pure, Except.ok.injEq] at h
    exact .esc h1 h.symm
  · have hf : (c = 37 || mem c uns) = false := by simpa using h1
    have h37 : c ≠ 37 := fun e => h1 (Or.inl e)
    have hm : mem c uns = false := by
      cases hx : mem c uns with
      | false => rfl
      | true => exact absurd (Or.inr hx) h1
    simp only [hf, Bool.false_eq_true, if_false] at h
    cases hp : isPrintableChar o c with
    | error e => rw [hp] at h; simp [bind, Except.bind] at h
    | ok b =>
      rw [hp] at h
      cases b with
      | true =>
        simp only [bind, Except.bind, if_true, pure, Except.pure, Except.ok.injEq] at h
        exact .shown h37 hm hp h.symm
      | false =>
        simp only [bind, Except.bind, Bool.false_eq_true, if_false] at h
        cases hs : isSurrogate c with
        | true => rw [hs] at h; simp at h
        | false =>
          rw [hs] at h
          simp only [Bool.false_eq_true, if_false, pure, Except.pure, Except.ok.injEq] at h
          exact .hidden h37 hm hp hs h.symm

/-- induction principle for successful runs of `human_quote` -/
theorem humanQuote_induction {o : Oracles} {uns : Str} (P : Str → Str → Prop)
    (nil : P [] [])
    (cons : ∀ c s p r, Piece o uns c p → humanQuote o s uns = .ok r → P s r → P (c :: s) (p ++ r)) :
    ∀ s r, humanQuote o s uns = .ok r → P s r := by
  intro s
  induction s with
  | nil =>
    intro r h
    rw [humanQuote_nil] at h
    cases h
    exact nil
  | cons c s ih =>
    intro r h
    obtain ⟨p, r', hp, hr', rfl⟩ := (humanQuote_cons o uns c s r).mp h
    exact cons c s p r' (hqChar_ok hp) hr' (ih r' hr')

/-! ### printable ASCII -/

theorem isPrintableChar_ascii (o : Oracles) {c : Nat} (h : c < 128) :
    isPrintableChar o c = .ok (decide (32 ≤ c) && decide (c < 127)) := by
  unfold isPrintableChar
  rw [if_pos h]; rfl

theorem isPrintableChar_high (o : Oracles) {c : Nat} (h : 128 ≤ c) :
    isPrintableChar o c = ask "isPrintableU" [c] (o.isPrintableU c) := by
  unfold isPrintableChar
  rw [if_neg (by omega)]

/-! ### the requoter on escapes of UTF-8 bytes -/

theorem cOut_flatMap_pct_high (t : QTab) (ht : t.WF) (hreq : t.requote = true) (bs : List Nat)
    (hb : ∀ b ∈ bs, 128 ≤ b ∧ b < 256) (r : Str) :
    cOut t (bs.flatMap pct ++ r) = bs.flatMap pct ++ cOut t r := by
  induction bs with
  | nil => simp
  | cons b bs ih =>
    have hb0 := hb b (by simp)
    rw [List.flatMap_cons, List.append_assoc, cOut_pct t hreq hb0.2,
      cEscOut_eq_pct t ht (Or.inl hb0.1), ih (fun x hx => hb x (by simp [hx])), List.append_assoc]

theorem cOut_writeUtf8_high (t : QTab) (ht : t.WF) (hreq : t.requote = true) {c : Nat}
    (hc : 128 ≤ c) (hp : c ≤ 0x10FFFF) (r : Str) :
    cOut t ((utf8 c).flatMap pct ++ r) = (utf8 c).flatMap pct ++ cOut t r :=
  cOut_flatMap_pct_high t ht hreq _
    (fun b hb => ⟨utf8_ge128 hc b hb, utf8_byte_lt c hp b hb⟩) r

theorem cWriteOut_high (t : QTab) (ht : t.WF) {c : Nat} (hc : 128 ≤ c) :
    cWriteOut t c = (utf8 c).flatMap pct := by
  unfold cWriteOut writeUtf8
  rw [if_neg (by omega), if_neg (by omega)]

/-! ### compatibility of a (requoter, quoter) pair with an `unsafe` list -/

/-- the ASCII characters other than '%' that `human_quote` escapes -/
def escapedAscii (uns : Str) (c : Nat) : Bool := mem c uns || decide (c < 32) || decide (c = 127)

/-- Everything the round trip through `human_quote` needs from the requoting table `t`, the
    non-requoting table `t'` and the `unsafe` list, character by character (decidable). -/
structure HumanCompat (t t' : QTab) (uns : Str) : Prop where
  ascii : ∀ c ∈ uns, c < 128
  esc : ∀ c, c < 128 → c ≠ 37 → escapedAscii uns c = true → cEscOut t c = cWriteOut t' c
  lit : ∀ c, c < 128 → c ≠ 37 → escapedAscii uns c = false → cWriteOut t c = cWriteOut t' c

instance (t t' : QTab) (uns : Str) : Decidable (HumanCompat t t' uns) :=
  if h : (∀ c ∈ uns, c < 128) ∧
      (∀ c, c < 128 → c ≠ 37 → escapedAscii uns c = true → cEscOut t c = cWriteOut t' c) ∧
      (∀ c, c < 128 → c ≠ 37 → escapedAscii uns c = false → cWriteOut t c = cWriteOut t' c) then
    isTrue ⟨h.1, h.2.1, h.2.2⟩
  else isFalse (fun k => h ⟨k.ascii, k.esc, k.lit⟩)

theorem cEscOut_37 (t : QTab) (ht : t.WF) : cEscOut t 37 = pct 37 :=
  cEscOut_eq_pct t ht (Or.inr (Or.inl ht.pct_unsafe))

theorem cWriteOut_37 (t : QTab) (ht : t.WF) : cWriteOut t 37 = pct 37 := by
  unfold cWriteOut writeUtf8
  rw [if_neg (by omega), if_neg (by rw [ht.pct_unsafe]; simp)]
  rfl

theorem printable_not_escaped {o : Oracles} {uns : Str} {c : Nat} (hc : c < 128)
    (hm : mem c uns = false) (hp : isPrintableChar o c = .ok true) : escapedAscii uns c = false := by
  rw [isPrintableChar_ascii o hc] at hp
  simp only [Except.ok.injEq, Bool.and_eq_true, decide_eq_true_eq] at hp
  unfold escapedAscii
  rw [hm]
  simp only [Bool.false_or, Bool.or_eq_false_iff, decide_eq_false_iff_not]
  omega

theorem hidden_escaped {o : Oracles} {uns : Str} {c : Nat} (hc : c < 128)
    (hp : isPrintableChar o c = .ok false) : escapedAscii uns c = true := by
  rw [isPrintableChar_ascii o hc] at hp
  simp only [Except.ok.injEq, Bool.and_eq_false_iff, decide_eq_false_iff_not] at hp
  unfold escapedAscii
  simp only [Bool.or_eq_true, decide_eq_true_eq]
  omega

/-- one piece through the requoter equals the character through the quoter -/
theorem cOut_piece (o : Oracles) (t t' : QTab) (ht : t.WF) (ht' : t'.WF) (hreq : t.requote = true)
    (uns : Str) (k : HumanCompat t t' uns) {c : Nat} (hc : c ≤ 0x10FFFF) {p : Str}
    (hp : Piece o uns c p) (r : Str) : cOut t (p ++ r) = cWriteOut t' c ++ cOut t r := by
  cases hp with
  | esc h hp =>
    subst hp
    have hlt : c < 128 := by
      rcases h with rfl | h
      · omega
      · exact k.ascii c (GenTabs.mem_iff.mp h)
    rw [cOut_pct t hreq (by omega)]
    by_cases h37 : c = 37
    · subst h37
      rw [cEscOut_37 t ht, cWriteOut_37 t' ht']
    · have hm : mem c uns = true := by
        rcases h with h | h
        · exact absurd h h37
        · exact h
      rw [k.esc c hlt h37 (by unfold escapedAscii; rw [hm]; rfl)]
  | shown h37 hm hpr hp =>
    subst hp
    rw [List.singleton_append, cOut_cons_ne t h37]
    by_cases hlt : c < 128
    · rw [k.lit c hlt h37 (printable_not_escaped hlt hm hpr)]
    · rw [cWriteOut_high t ht (by omega), cWriteOut_high t' ht' (by omega)]
  | hidden h37 hm hpr hsur hp =>
    subst hp
    by_cases hlt : c < 128
    · rw [utf8_ascii hlt]
      simp only [List.flatMap_cons, List.flatMap_nil, List.append_nil]
      rw [cOut_pct t hreq (by omega), k.esc c hlt h37 (hidden_escaped hlt hpr)]
    · rw [cOut_writeUtf8_high t ht hreq (by omega) hc, cWriteOut_high t' ht' (by omega)]

/-- elements of the human form are characters of the text or ASCII -/
theorem humanQuote_mem (o : Oracles) (uns : Str) (hu : ∀ c ∈ uns, c < 128) (s r : Str)
    (hs : PyStr s) (h : humanQuote o s uns = .ok r) : ∀ x ∈ r, x ∈ s ∨ x < 128 := by
  revert hs
  refine humanQuote_induction (o := o) (uns := uns) (fun s r => PyStr s → ∀ x ∈ r, x ∈ s ∨ x < 128)
    ?_ ?_ s r h
  · intro _ x hx; simp at hx
  · intro c s p r hp hr ih hs x hx
    rw [List.mem_append] at hx
    rcases hx with hx | hx
    · have hpct : ∀ b, b < 256 → ∀ y ∈ pct b, y < 128 := by
        intro b hb y hy
        simp only [pct, List.mem_cons, List.not_mem_nil, or_false] at hy
        rcases hy with rfl | rfl | rfl
        · omega
        · exact toHex_lt128 (by omega)
        · exact toHex_lt128 (by omega)
      cases hp with
      | esc h hp =>
        subst hp
        have hlt : c < 128 := by
          rcases h with rfl | h
          · omega
          · exact hu c (GenTabs.mem_iff.mp h)
        exact Or.inr (hpct c (by omega) x hx)
      | shown _ _ _ hp =>
        subst hp
        simp only [List.mem_cons, List.not_mem_nil, or_false] at hx
        subst hx
        exact Or.inl (by simp)
      | hidden _ _ _ _ hp =>
        subst hp
        rw [List.mem_flatMap] at hx
        obtain ⟨b, hb, hx⟩ := hx
        exact Or.inr (hpct b (utf8_byte_lt c (hs c (by simp)) b hb) x hx)
    · rcases ih (fun y hy => hs y (by simp [hy])) x hx with h | h
      · exact Or.inl (by simp [h])
      · exact Or.inr h

/-! ### unquoter after quoter -/

theorem tab_requote (a : QArgs) (b : Backend) : (a.tab b).requote = a.requote := by
  cases b <;> rfl

theorem tab_qs (a : QArgs) (b : Backend) : (a.tab b).qs = a.qs := by cases b <;> rfl

/-- decidable side conditions for "unquoter ∘ quoter = id" -/
structure ReadOk (a : QArgs) (ua : UArgs) (b : Backend) : Prop where
  nr : a.requote = false
  qs : a.qs = false
  uqs : ua.qs = false
  lit : ∀ c, c < 128 → (a.tab b).safe c = true → c ≠ 37 → uqPlain (ua.tab b) c = [c]
  emit : ∀ c ∈ ua.unsafeS ++ ua.ignoreS, c < 128 ∧ (a.tab b).safe c = true

instance (a : QArgs) (ua : UArgs) (b : Backend) : Decidable (ReadOk a ua b) :=
  if h : a.requote = false ∧ a.qs = false ∧ ua.qs = false ∧
      (∀ c, c < 128 → (a.tab b).safe c = true → c ≠ 37 → uqPlain (ua.tab b) c = [c]) ∧
      (∀ c ∈ ua.unsafeS ++ ua.ignoreS, c < 128 ∧ (a.tab b).safe c = true) then
    isTrue ⟨h.1, h.2.1, h.2.2.1, h.2.2.2.1, h.2.2.2.2⟩
  else isFalse (fun k => h ⟨k.nr, k.qs, k.uqs, k.lit, k.emit⟩)

theorem run_readback (a : QArgs) (ua : UArgs) (ha : a ∈ Gen.allQuoters) (b : Backend)
    (k : ReadOk a ua b) (t : Str) (ht : PyStr t) (hn : NoSurrogate t) :
    ua.run b (a.run b t) = t := by
  rw [run_eq_cOut a ha b t ht, stripSurr_id t hn]
  show unquote b (ua.tab b) (cOut (a.tab b) t) = t
  have hwf := gen_tab_wf a ha b
  apply unquote_cOut b _ _ hwf (by rw [tab_requote]; exact k.nr) ?_ ?_ ?_ t ht hn
  · intro c hs h37 _
    exact k.lit c (hwf.safe_ascii c hs) hs h37
  · intro hq
    rw [tab_qs, k.qs] at hq
    cases hq
  · intro c _ hc _
    unfold uqEmit
    have hq : (ua.tab b).qs = false := k.uqs
    rw [if_neg (by simp [hq])]
    rw [if_neg]
    rintro (hm | hm)
    · have := k.emit c (List.mem_append.mpr (Or.inl (GenTabs.mem_iff.mp hm)))
      rcases hc with hc | hc
      · rw [this.2] at hc; cases hc
      · omega
    · have := k.emit c (List.mem_append.mpr (Or.inr (GenTabs.mem_iff.mp hm)))
      rcases hc with hc | hc
      · rw [this.2] at hc; cases hc
      · omega

theorem path_readback (e : Env) (t : Str) (ht : PyStr t) (hn : NoSurrogate t) :
    uq e Gen.PATH_UNQUOTER (q e Gen.PATH_QUOTER t) = t :=
  run_readback Gen.PATH_QUOTER Gen.PATH_UNQUOTER (by decide) e.b
    (by cases e.b <;> decide +kernel) t ht hn

theorem fragment_readback (e : Env) (t : Str) (ht : PyStr t) (hn : NoSurrogate t) :
    uq e Gen.UNQUOTER (q e Gen.FRAGMENT_QUOTER t) = t :=
  run_readback Gen.FRAGMENT_QUOTER Gen.UNQUOTER (by decide) e.b
    (by cases e.b <;> decide +kernel) t ht hn


/-! ### which characters appear in the human form -/

/-- every character of the human form is '%', an upper-case hex digit, or a character of the
    text that is shown (not '%', not unsafe, printable) -/
theorem humanQuote_mem_cases (o : Oracles) (uns : Str) (hu : ∀ c ∈ uns, c < 128) (s r : Str)
    (hs : PyStr s) (h : humanQuote o s uns = .ok r) :
    ∀ x ∈ r, x = 37 ∨ isUpperHexDigit x = true ∨
      (x ∈ s ∧ x ≠ 37 ∧ mem x uns = false ∧ isPrintableChar o x = .ok true) := by
  revert hs
  refine humanQuote_induction (o := o) (uns := uns) (fun s r => PyStr s → ∀ x ∈ r, x = 37 ∨ isUpperHexDigit x = true ∨
      (x ∈ s ∧ x ≠ 37 ∧ mem x uns = false ∧ isPrintableChar o x = .ok true)) ?_ ?_ s r h
  · intro _ x hx; simp at hx
  · intro c s p r hp hr ih hs x hx
    have hpct : ∀ b, b < 256 → ∀ y ∈ pct b, y = 37 ∨ isUpperHexDigit y = true := by
      intro b hb y hy
      simp only [pct, List.mem_cons, List.not_mem_nil, or_false] at hy
      rcases hy with rfl | rfl | rfl
      · exact Or.inl rfl
      · exact Or.inr (toHex_upper (Nat.div_lt_of_lt_mul (by omega)))
      · exact Or.inr (toHex_upper (by omega))
    rw [List.mem_append] at hx
    rcases hx with hx | hx
    · cases hp with
      | esc h hp =>
        subst hp
        have hlt : c < 128 := by
          rcases h with rfl | h
          · omega
          · exact hu c (GenTabs.mem_iff.mp h)
        rcases hpct c (by omega) x hx with h | h
        · exact Or.inl h
        · exact Or.inr (Or.inl h)
      | shown h37 hm hpr hp =>
        subst hp
        simp only [List.mem_cons, List.not_mem_nil, or_false] at hx
        subst hx
        exact Or.inr (Or.inr ⟨by simp, h37, hm, hpr⟩)
      | hidden _ _ _ _ hp =>
        subst hp
        rw [List.mem_flatMap] at hx
        obtain ⟨b, hb, hx⟩ := hx
        rcases hpct b (utf8_byte_lt c (hs c (by simp)) b hb) x hx with h | h
        · exact Or.inl h
        · exact Or.inr (Or.inl h)
    · rcases ih (fun y hy => hs y (by simp [hy])) x hx with h | h | ⟨h1, h2⟩
      · exact Or.inl h
      · exact Or.inr (Or.inl h)
      · exact Or.inr (Or.inr ⟨by simp [h1], h2⟩)

/-- a character that is unsafe in its position, or not printable, never appears literally -/
theorem humanQuote_avoid (o : Oracles) (uns : Str) (hu : ∀ c ∈ uns, c < 128) (s r : Str)
    (hs : PyStr s) (h : humanQuote o s uns = .ok r) (d : Nat) (hd : d < 128) (h37 : d ≠ 37)
    (hx : isUpperHexDigit d = false) (hbad : mem d uns = true ∨ d < 32 ∨ d = 127) : d ∉ r := by
  intro hm
  rcases humanQuote_mem_cases o uns hu s r hs h d hm with h1 | h1 | ⟨_, _, h3, h4⟩
  · exact h37 h1
  · rw [hx] at h1; cases h1
  · rcases hbad with hb | hb
    · rw [h3] at hb; cases hb
    · rw [isPrintableChar_ascii o hd] at h4
      simp only [Except.ok.injEq, Bool.and_eq_true, decide_eq_true_eq] at h4
      omega

theorem humanQuote_eq_nil (o : Oracles) (uns r : Str) (h : humanQuote o [] uns = .ok r) : r = [] := by
  rw [humanQuote_nil] at h; cases h; rfl

theorem humanQuote_ne_nil (o : Oracles) (uns : Str) (s r : Str) (hs : PyStr s) (h0 : s ≠ [])
    (h : humanQuote o s uns = .ok r) : r ≠ [] := by
  obtain ⟨c, s', rfl⟩ := List.exists_cons_of_ne_nil h0
  obtain ⟨p, r', hp, _, rfl⟩ := (humanQuote_cons o uns c s' r).mp h
  have hc := hs c (by simp)
  intro hnil
  have hp0 : p = [] := (List.append_eq_nil_iff.mp hnil).1
  subst hp0
  cases hqChar_ok hp with
  | esc _ hp => simp [pct] at hp
  | shown _ _ _ hp => simp at hp
  | hidden _ _ _ hsur hp =>
    have := QuoteEquiv.utf8_ne_nil hc hsur
    cases hu : utf8 c with
    | nil => rw [hu] at this; cases this
    | cons b bs => rw [hu] at hp; simp [pct] at hp

/-- a leading character that is shown stays in front -/
theorem humanQuote_cons_shown (o : Oracles) (uns : Str) (c : Nat) (s r : Str)
    (hc : hqChar o uns c = .ok [c]) (h : humanQuote o (c :: s) uns = .ok r) :
    ∃ r', humanQuote o s uns = .ok r' ∧ r = c :: r' := by
  obtain ⟨p, r', hp, hr', rfl⟩ := (humanQuote_cons o uns c s r).mp h
  rw [hc] at hp; cases hp
  exact ⟨r', hr', rfl⟩

theorem hqChar_slash_path (o : Oracles) : hqChar o (humanUnsafeOf "path") 47 = .ok [47] := by
  unfold hqChar isPrintableChar
  rfl

/-! ## URL level: the family "scheme, plain host, rooted path, fragment" -/

open HostLemmas NetlocLemmas

/-- a plain registered name: ASCII, lower case, accepted by the host validation, not an IP literal -/
structure PlainHost (h : Str) : Prop where
  ne : h ≠ []
  ascii : isAscii h = true
  low : lower h = h
  reg : notRegName h = false
  noip : parseIP (partition 37 h).1 = none

instance (h : Str) : Decidable (PlainHost h) :=
  if k : h ≠ [] ∧ isAscii h = true ∧ lower h = h ∧ notRegName h = false ∧
      parseIP (partition 37 h).1 = none then isTrue ⟨k.1, k.2.1, k.2.2.1, k.2.2.2.1, k.2.2.2.2⟩
  else isFalse (fun p => k ⟨p.ne, p.ascii, p.low, p.reg, p.noip⟩)

theorem encodeHost_plain (o : Oracles) (h : Str) (v : Bool) (ph : PlainHost h) :
    encodeHost o h v = .ok h := by
  obtain ⟨b, hb⟩ := looksIP_ascii o h ph.ascii
  rw [encodeHost_eq, hb]
  have hr : ipRes h = none := by simp [ipRes, ph.noip]
  simp only [bind, Except.bind, hr, ite_self, regPath, ph.ascii, ↓reduceIte, ph.low, ph.reg,
    Bool.and_false]
  rfl

theorem regName_tab : ∀ d ∈ [9, 10, 13, 35, 47, 58, 63, 64, 91, 93],
    d ≠ 37 ∧ mem d Gen.regNameChars = false := by decide

theorem plain_avoid {h : Str} (ph : PlainHost h) {d : Nat}
    (hd : d ∈ [9, 10, 13, 35, 47, 58, 63, 64, 91, 93]) : d ∉ h := by
  intro hm
  have := regName_tab d hd
  rcases notRegName_false ph.reg d hm with h1 | h1
  · exact this.1 h1
  · rw [this.2] at h1; cases h1

theorem plain_hostOK {h : Str} (ph : PlainHost h) : HostOK h :=
  ⟨ph.ne, plain_avoid ph (by decide), plain_avoid ph (by decide), plain_avoid ph (by decide)⟩

theorem plain_bracket {h : Str} (ph : PlainHost h) : bracket h = h := by
  unfold bracket
  rw [if_neg]
  rw [NetlocLemmas.mem_iff]
  exact plain_avoid ph (by decide)

theorem plain_netloc (qf : Str → Str) {h : Str} (ph : PlainHost h) :
    makeNetloc qf none none (some (bracket h)) none false = h := by
  rw [plain_bracket ph]; rfl

theorem host_plain (e : Env) (u : Url) (h : Str) (ph : PlainHost h)
    (hraw : rawHost e u = .ok (some h)) (hidna : e.o.idnaDec h = some (some h)) :
    host e u = .ok (some h) := by
  unfold host
  rw [hraw]
  simp only [bind, Except.bind]
  obtain ⟨l, hl⟩ : ∃ l, h.getLast? = some l := by
    cases hx : h.getLast? with
    | none => exact absurd (List.getLast?_eq_none_iff.mp hx) ph.ne
    | some l => exact ⟨l, rfl⟩
  have hlt : l < 128 := by
    have := List.mem_of_getLast? hl
    have ha := ph.ascii
    simp only [isAscii, List.all_eq_true, decide_eq_true_eq] at ha
    exact ha l this
  have h58 : mem 58 h = false := NetlocLemmas.mem_false_iff.mpr (plain_avoid ph (by decide))
  rw [hl]
  simp only [isDigitChar, hlt, ↓reduceIte, pure, Except.pure, h58, Bool.or_false]
  -- `raw[-1].isdigit() and "xn--" not in raw`: either way the answer is `h` (the decoder maps `h` to itself)
  cases (isDigitC l && !hasSub [120, 110, 45, 45] h) with
  | true => rfl
  | false =>
    simp only [Bool.false_eq_true, ↓reduceIte, idnaDecode, ph.ascii, Bool.not_true, hidna, ask,
      bind, Except.bind, pure, Except.pure]


/-! ### `URL.build` for the family -/

theorem isEmpty_false {s : Str} (h : s ≠ []) : s.isEmpty = false := by
  cases s with
  | nil => exact absurd rfl h
  | cons _ _ => rfl

theorem q_path_cons_slash (e : Env) (p : Str) (hp : PyStr (47 :: p)) (hn : NoSurrogate (47 :: p)) :
    q e Gen.PATH_QUOTER (47 :: p) = 47 :: q e Gen.PATH_QUOTER p := by
  have hp' : PyStr p := fun x hx => hp x (by simp [hx])
  have hn' : NoSurrogate p := fun x hx => hn x (by simp [hx])
  unfold q
  rw [run_eq_cOut _ (by decide) e.b _ hp, run_eq_cOut _ (by decide) e.b _ hp', stripSurr_id _ hn,
    stripSurr_id _ hn', cOut_nr_cons _ (by rw [tab_requote]; rfl)]
  have : cWriteOut (Gen.PATH_QUOTER.tab e.b) 47 = [47] := by cases e.b <;> decide
  rw [this]; rfl

/-- the URL built from decoded components -/
def builtUrl (e : Env) (sc h p f : Str) : Url :=
  fromParts sc h (q e Gen.PATH_QUOTER p) [] (if f.isEmpty then f else q e Gen.FRAGMENT_QUOTER f)

/-- `build` stores the LOWERED scheme `sc'` (fix e21485a); for an ASCII `sc` that is `lower sc`, otherwise
    the oracle's answer -/
theorem build_family (e : Env) (sc sc' h p f : Str) (hl : lowerAny e sc = .ok sc') (ph : PlainHost h)
    (hp : PyStr (47 :: p)) (hn : NoSurrogate (47 :: p)) (hdot : 46 ∉ p) :
    build e { scheme := sc, host := h, path := 47 :: p, fragment := f } =
      .ok (builtUrl e sc' h (47 :: p) f) := by
  have hne := isEmpty_false ph.ne
  have hq := q_path_cons_slash e p hp hn
  have hd : mem 46 (q e Gen.PATH_QUOTER (47 :: p)) = false := by
    rw [NetlocLemmas.mem_false_iff]
    exact C13_path_quoter_no_dot e _ hp (by simp [hdot])
  rw [hq] at hd
  unfold build builtUrl
  simp only [List.isEmpty_nil, Bool.not_true, Bool.false_and, Bool.false_eq_true, ↓reduceIte,
    ne_eq, not_true_eq_false, qargTruthy, hne, Bool.not_false, Bool.and_false,
    Option.map_none, Option.isNone_none, Bool.and_self, encodeHost_plain e.o h true ph, bind,
    Except.bind, pure, Except.pure, List.isEmpty_cons, hq, hd, fromParts, hl]

/-! ### `human_repr` of the built URL -/

theorem run_ne_nil (a : QArgs) (ha : a ∈ Gen.allQuoters) (hnr : a.requote = false) (b : Backend)
    (t : Str) (ht : PyStr t) (hn : NoSurrogate t) (h0 : t ≠ []) : a.run b t ≠ [] := by
  obtain ⟨c, r, rfl⟩ := List.exists_cons_of_ne_nil h0
  rw [run_eq_cOut a ha b _ ht, stripSurr_id _ hn, cOut_nr_cons _ (by rw [tab_requote]; exact hnr)]
  intro h
  exact PathAlg.cWriteOut_ne_nil _ c (ht c (by simp)) (hn c (by simp)) (List.append_eq_nil_iff.mp h).1

theorem built_as_std (e : Env) (sc h p f : Str) (ph : PlainHost h) :
    builtUrl e sc h p f = fromParts sc (makeNetloc id none none (some (bracket h)) none false)
      (q e Gen.PATH_QUOTER p) [] (if f.isEmpty then f else q e Gen.FRAGMENT_QUOTER f) := by
  rw [plain_netloc id ph]; rfl

theorem pathDecoded_built (e : Env) (sc h p f : Str)
    (hp : PyStr (47 :: p)) (hn : NoSurrogate (47 :: p)) :
    pathDecoded e (builtUrl e sc h (47 :: p) f) = 47 :: p := by
  unfold pathDecoded builtUrl fromParts
  simp only [q_path_cons_slash e p hp hn, List.isEmpty_cons, Bool.not_false, ↓reduceIte]
  rw [← q_path_cons_slash e p hp hn]
  exact path_readback e _ hp hn

theorem fragmentDecoded_built (e : Env) (sc h p f : Str) (hf : PyStr f) (hfn : NoSurrogate f) :
    fragmentDecoded e (builtUrl e sc h p f) = f := by
  unfold fragmentDecoded builtUrl fromParts
  cases f with
  | nil => rfl
  | cons c r =>
    have hne : q e Gen.FRAGMENT_QUOTER (c :: r) ≠ [] :=
      run_ne_nil Gen.FRAGMENT_QUOTER (by decide) rfl e.b _ hf hfn (by simp)
    simp only [List.isEmpty_cons, Bool.false_eq_true, ↓reduceIte, isEmpty_false hne, Bool.not_false]
    exact fragment_readback e _ hf hfn

theorem humanRepr_family (e : Env) (sc h p f : Str) (ph : PlainHost h)
    (hidna : e.o.idnaDec h = some (some h))
    (hp : PyStr (47 :: p)) (hn : NoSurrogate (47 :: p)) (hf : PyStr f) (hfn : NoSurrogate f) :
    humanRepr e (builtUrl e sc h (47 :: p) f) =
      (humanQuote e.o (47 :: p) (humanUnsafeOf "path") >>= fun rp =>
        humanQuote e.o f (humanUnsafeOf "fragment") >>= fun rf =>
          pure (unsplitResult sc h rp [] rf)) := by
  have hok := plain_hostOK ph
  have huk : UserOK none := by intro s hs; cases hs
  have hpk : ∀ p, (none : Option Nat) = some p → p ≤ 65535 := by intro p hp; cases hp
  have hU : rawUser e (builtUrl e sc h (47 :: p) f) = .ok none := by
    rw [built_as_std e sc h _ f ph]; exact rawUser_std e id none none h none _ _ _ _ huk hok hpk
  have hP : rawPassword e (builtUrl e sc h (47 :: p) f) = .ok none := by
    rw [built_as_std e sc h _ f ph]; exact rawPassword_std e id none none h none _ _ _ _ huk hok hpk
  have hH : rawHost e (builtUrl e sc h (47 :: p) f) = .ok (some h) := by
    rw [built_as_std e sc h _ f ph]; exact rawHost_std e id none none h none _ _ _ _ huk hok hpk
  have hE : explicitPort e (builtUrl e sc h (47 :: p) f) = .ok none := by
    rw [built_as_std e sc h _ f ph]; exact explicitPort_std e id none none h none _ _ _ _ huk hok hpk
  have hHost := host_plain e _ h ph hH hidna
  have h58 : mem 58 h = false := NetlocLemmas.mem_false_iff.mpr (plain_avoid ph (by decide))
  have hq : queryPairs (builtUrl e sc h (47 :: p) f) = [] := rfl
  unfold humanRepr user password
  rw [hU, hP, hHost, hE, pathDecoded_built e sc h p f hp hn, fragmentDecoded_built e sc h _ f hf hfn,
    hq]
  simp only [bind, Except.bind, pure, Except.pure, Option.map_none, humanQuoteOpt, Option.map_some,
    h58, Bool.and_false, Bool.false_eq_true, ↓reduceIte, List.mapM_nil]
  cases humanQuote e.o (47 :: p) (humanUnsafeOf "path") with
  | error err => rfl
  | ok rp =>
    cases humanQuote e.o f (humanUnsafeOf "fragment") with
    | error err => rfl
    | ok rf => rfl

/-! ### parsing the human form back -/

/-- a scheme as `split_url` reads it back: non-empty, scheme characters, lower case -/
structure ValidScheme (sc : Str) : Prop where
  ne : sc ≠ []
  chars : ∀ c ∈ sc, mem c Gen.schemeChars = true
  low : lower sc = sc

instance (sc : Str) : Decidable (ValidScheme sc) :=
  if k : sc ≠ [] ∧ (∀ c ∈ sc, mem c Gen.schemeChars = true) ∧ lower sc = sc then
    isTrue ⟨k.1, k.2.1, k.2.2⟩
  else isFalse (fun p => k ⟨p.ne, p.chars, p.low⟩)

theorem schemeChars_ascii : ∀ c ∈ Gen.schemeChars, c < 128 := by decide

/-- a valid (lower-case, scheme-character) scheme is stored as it is by `build` / `with_scheme` -/
theorem ValidScheme.lowerAny_eq {sc : Str} (vs : ValidScheme sc) (e : Env) : lowerAny e sc = .ok sc := by
  have ha : isAscii sc = true := by
    unfold isAscii
    rw [List.all_eq_true]
    intro c hc
    simpa using schemeChars_ascii c (GenTabs.mem_iff.mp (vs.chars c hc))
  unfold lowerAny
  rw [if_pos ha, vs.low]; rfl

def fragTail (rf : Str) : Str := if rf.isEmpty then [] else 35 :: rf

theorem unsplit_family (sc h rp rf : Str) (hsc : sc ≠ []) (hh : h ≠ []) :
    unsplitResult sc h (47 :: rp) [] rf = sc ++ 58 :: 47 :: 47 :: (h ++ (47 :: rp ++ fragTail rf)) := by
  unfold unsplitResult fragTail
  simp only [isEmpty_false hsc, isEmpty_false hh, Bool.not_false, Bool.true_or, ↓reduceIte,
    List.isEmpty_cons, List.take_succ_cons, List.take_zero, ne_eq, not_true_eq_false, decide_false,
    Bool.and_false, Bool.false_eq_true, List.isEmpty_nil, Bool.not_true]
  cases rf <;> simp

def Clean (s : Str) : Prop := ∀ c ∈ s, c ≠ 9 ∧ c ≠ 10 ∧ c ≠ 13

theorem schemeChars_tab : ∀ c ∈ Gen.schemeChars, 32 < c ∧ c ≠ 58 := by decide

theorem cleanUrl_family (sc rest : Str) (vs : ValidScheme sc) (hc : Clean rest) :
    cleanUrl (sc ++ rest) = sc ++ rest := by
  have hsc : ∀ c ∈ sc, 32 < c ∧ c ≠ 58 := fun c hc =>
    schemeChars_tab c (GenTabs.mem_iff.mp (vs.chars c hc))
  unfold cleanUrl
  obtain ⟨c, r, rfl⟩ := List.exists_cons_of_ne_nil vs.ne
  have h1 : lstripSet Gen.stripSet (c :: r ++ rest) = c :: r ++ rest := by
    rw [ParseLemmas.lstripSet_eq, List.cons_append, List.dropWhile_cons_of_neg]
    rw [ParseLemmas.mem_stripSet]
    have := (hsc c (by simp)).1
    simp only [decide_eq_true_eq]; omega
  rw [h1, List.filter_eq_self]
  intro x hx
  rw [ParseLemmas.mem_removeSet]
  simp only [decide_eq_true_eq]
  rcases List.mem_append.mp hx with hx | hx
  · have := (hsc x hx).1
    omega
  · exact hc x hx

theorem schemeOf_family (sc rest : Str) (vs : ValidScheme sc) :
    Rfc.schemeOf Gen.schemeChars (sc ++ 58 :: rest) = (sc, rest) := by
  have hsc : ∀ c ∈ sc, 32 < c ∧ c ≠ 58 := fun c hc =>
    schemeChars_tab c (GenTabs.mem_iff.mp (vs.chars c hc))
  have hall : ∀ a ∈ sc, (decide (a ≠ 58)) = true := fun a ha => by simp [(hsc a ha).2]
  unfold Rfc.schemeOf
  rw [List.takeWhile_append_of_pos hall, List.dropWhile_append_of_pos hall]
  simp only [ne_eq, decide_not, List.takeWhile_cons, decide_true, Bool.not_true, Bool.false_eq_true,
    ↓reduceIte, List.append_nil, List.dropWhile_cons, isEmpty_false vs.ne, Bool.not_false, Bool.true_and]
  have : sc.all (fun c => Gen.schemeChars.contains c) = true := by
    rw [List.all_eq_true]; exact vs.chars
  rw [this, vs.low]
  rfl

theorem tail_family (rp rf : Str) (h35 : 35 ∉ rp) (h63 : 63 ∉ rp) :
    ParseLemmas.tailOf (rp ++ fragTail rf) = (rp, [], rf) := by
  rw [ParseLemmas.tailOf_eq]
  have a35 : ∀ a ∈ rp, decide (a ≠ 35) = true := fun a ha => by
    simp only [decide_eq_true_eq]; rintro rfl; exact h35 ha
  have t63 : rp.takeWhile (· ≠ 63) = rp := ParseLemmas.takeWhile_ne_of_not_mem h63
  have d63 : rp.dropWhile (· ≠ 63) = [] := ParseLemmas.dropWhile_ne_of_not_mem h63
  unfold fragTail
  cases rf with
  | nil =>
    simp only [List.isEmpty_nil, ↓reduceIte, List.append_nil,
      ParseLemmas.takeWhile_ne_of_not_mem h35, ParseLemmas.dropWhile_ne_of_not_mem h35, t63, d63,
      List.drop_nil]
  | cons c r =>
    simp only [List.isEmpty_cons, Bool.false_eq_true, ↓reduceIte]
    rw [List.takeWhile_append_of_pos a35, List.dropWhile_append_of_pos a35]
    simp only [ne_eq, decide_not, List.takeWhile_cons, decide_true, Bool.not_true, Bool.false_eq_true,
      ↓reduceIte, List.append_nil, List.dropWhile_cons, List.drop_succ_cons, List.drop_zero]
    have t63' : rp.takeWhile (fun x => !decide (x = 63)) = rp := by
      have := t63; simpa using this
    have d63' : rp.dropWhile (fun x => !decide (x = 63)) = [] := by
      have := d63; simpa using this
    rw [t63', d63']
    rfl

/-- what the parser needs from the authority of the human form -/
structure AuthOK (o : Oracles) (nl : Str) : Prop where
  chars : ∀ a ∈ nl, a ≠ 47 ∧ a ≠ 63 ∧ a ≠ 35 ∧ a ≠ 9 ∧ a ≠ 10 ∧ a ≠ 13 ∧ a ≠ 91 ∧ a ≠ 93
  /-- the NFKC check of `split_url` (only run on a non-ASCII authority) -/
  nfkc : isAscii nl = false → checkNetloc o nl = .ok ()

theorem appendixB_auth (sc nl rp rf : Str) (vs : ValidScheme sc)
    (hnl : ∀ a ∈ nl, a ≠ 47 ∧ a ≠ 63 ∧ a ≠ 35)
    (h35 : 35 ∉ rp) (h63 : 63 ∉ rp) :
    Rfc.appendixB Gen.schemeChars (sc ++ 58 :: 47 :: 47 :: (nl ++ (47 :: rp ++ fragTail rf))) =
      { scheme := sc, authority := nl, path := 47 :: rp, query := [], fragment := rf } := by
  have hd : ∀ a ∈ nl, (!Rfc.isDelim3 a) = true := by
    intro a ha
    obtain ⟨h1, h2, h3⟩ := hnl a ha
    simp [Rfc.isDelim3, h1, h2, h3]
  have hauth : ParseLemmas.authOf (47 :: 47 :: (nl ++ (47 :: rp ++ fragTail rf))) =
      (nl, 47 :: rp ++ fragTail rf) := by
    unfold ParseLemmas.authOf
    simp only
    rw [List.takeWhile_append_of_pos hd, List.dropWhile_append_of_pos hd]
    have : Rfc.isDelim3 47 = true := by decide
    simp [this]
  have htail := tail_family (47 :: rp) rf (by simp [h35]) (by simp [h63])
  rw [ParseLemmas.appendixB_eq, schemeOf_family sc _ vs]
  simp only [hauth, htail]

theorem splitUrl_auth (o : Oracles) (sc nl rp rf : Str) (vs : ValidScheme sc) (ha : AuthOK o nl)
    (h35 : 35 ∉ rp) (h63 : 63 ∉ rp) (hc1 : Clean rp) (hc2 : Clean rf) :
    splitUrl o (sc ++ 58 :: 47 :: 47 :: (nl ++ (47 :: rp ++ fragTail rf))) =
      .ok { scheme := sc, netloc := nl, path := 47 :: rp, query := [], fragment := rf } := by
  have hclean : Clean (58 :: 47 :: 47 :: (nl ++ (47 :: rp ++ fragTail rf))) := by
    intro c hc
    simp only [List.mem_cons, List.mem_append] at hc
    rcases hc with rfl | rfl | rfl | hc | (rfl | hc) | hc
    · omega
    · omega
    · omega
    · have := ha.chars c hc; omega
    · omega
    · exact hc1 c hc
    · unfold fragTail at hc
      split at hc
      · cases hc
      · rcases List.mem_cons.mp hc with rfl | hc
        · omega
        · exact hc2 c hc
  have h91 : mem 91 nl = false := NetlocLemmas.mem_false_iff.mpr
    (fun hm => (ha.chars 91 hm).2.2.2.2.2.2.1 rfl)
  have h93 : mem 93 nl = false := NetlocLemmas.mem_false_iff.mpr
    (fun hm => (ha.chars 93 hm).2.2.2.2.2.2.2 rfl)
  have hcb : checkBrackets nl = .ok () := by
    unfold checkBrackets
    simp [h91, h93]
  rw [ParseLemmas.splitUrl_eq]
  unfold ParseLemmas.splitUrlNF
  rw [cleanUrl_family sc _ vs hclean,
    appendixB_auth sc nl rp rf vs (fun a h => ⟨(ha.chars a h).1, (ha.chars a h).2.1, (ha.chars a h).2.2.1⟩)
      h35 h63]
  simp only [hcb]
  cases hasc : isAscii nl with
  | true => simp [pure, Except.pure]
  | false =>
    cases hne : nl.isEmpty with
    | true => simp [pure, Except.pure]
    | false => simp [ha.nfkc hasc]

theorem authOK_plain (o : Oracles) {h : Str} (ph : PlainHost h) : AuthOK o h where
  chars := fun a ha =>
    ⟨fun e => plain_avoid ph (d := 47) (by decide) (e ▸ ha),
     fun e => plain_avoid ph (d := 63) (by decide) (e ▸ ha),
     fun e => plain_avoid ph (d := 35) (by decide) (e ▸ ha),
     fun e => plain_avoid ph (d := 9) (by decide) (e ▸ ha),
     fun e => plain_avoid ph (d := 10) (by decide) (e ▸ ha),
     fun e => plain_avoid ph (d := 13) (by decide) (e ▸ ha),
     fun e => plain_avoid ph (d := 91) (by decide) (e ▸ ha),
     fun e => plain_avoid ph (d := 93) (by decide) (e ▸ ha)⟩
  nfkc := fun hf => by rw [ph.ascii] at hf; cases hf

theorem splitUrl_family (o : Oracles) (sc h rp rf : Str) (vs : ValidScheme sc) (ph : PlainHost h)
    (h35 : 35 ∉ rp) (h63 : 63 ∉ rp) (hc1 : Clean rp) (hc2 : Clean rf) :
    splitUrl o (sc ++ 58 :: 47 :: 47 :: (h ++ (47 :: rp ++ fragTail rf))) =
      .ok { scheme := sc, netloc := h, path := 47 :: rp, query := [], fragment := rf } :=
  splitUrl_auth o sc h rp rf vs (authOK_plain o ph) h35 h63 hc1 hc2

theorem encodeUrl_family (e : Env) (sc h rp rf : Str) (vs : ValidScheme sc) (ph : PlainHost h)
    (h35 : 35 ∉ rp) (h63 : 63 ∉ rp) (hc1 : Clean rp) (hc2 : Clean rf) :
    encodeUrl e (sc ++ 58 :: 47 :: 47 :: (h ++ (47 :: rp ++ fragTail rf))) =
      .ok { scheme := sc, netloc := h,
            path := if mem 46 (q e Gen.PATH_REQUOTER (47 :: rp)) then
                normalizePath (q e Gen.PATH_REQUOTER (47 :: rp)) else q e Gen.PATH_REQUOTER (47 :: rp),
            query := [],
            fragment := if rf.isEmpty then rf else q e Gen.FRAGMENT_REQUOTER rf,
            pre := some { rawHost := some h, explicitPort := none, rawUser := none, rawPassword := none } } := by
  have hne := isEmpty_false ph.ne
  have h58 : mem 58 h = false := NetlocLemmas.mem_false_iff.mpr (plain_avoid ph (by decide))
  have h64 : mem 64 h = false := NetlocLemmas.mem_false_iff.mpr (plain_avoid ph (by decide))
  have h91 : mem 91 h = false := NetlocLemmas.mem_false_iff.mpr (plain_avoid ph (by decide))
  unfold encodeUrl
  rw [splitUrl_family e.o sc h rp rf vs ph h35 h63 hc1 hc2]
  simp only [bind, Except.bind, pure, Except.pure, hne, Bool.false_eq_true, ↓reduceIte, h58, h64, h91,
    Bool.or_self, encodeHost_plain e.o h false ph, Option.isNone_none, Bool.and_self,
    List.isEmpty_cons, Bool.not_false, Bool.true_and, Bool.false_and, List.isEmpty_nil,
    ParseLemmas.rpartition_snd_snd_of_mem_false h64]

/-! ## URL level with user / password -/

theorem q_nil (e : Env) (a : QArgs) : q e a [] = [] := by
  unfold q QArgs.run quote
  cases e.b
  · simp only [quotePy, utf8s, List.flatMap_nil]; rw [pyLoop]
  · simp [quoteC, stripSurr, allSafe]

/-- `make_netloc(..., encode=True)` is `make_netloc(..., encode=False)` on the quoted parts -/
theorem makeNetloc_encode (qf : Str → Str) (hq0 : qf [] = []) (user pw : Option Str) (H : Str)
    (port : Option Nat) :
    makeNetloc qf user pw (some H) port true = makeNetloc qf (user.map qf) (pw.map qf) (some H) port false := by
  unfold makeNetloc
  cases user with
  | none => cases pw <;> simp
  | some u =>
    cases pw with
    | none =>
      cases u with
      | nil => simp [hq0]
      | cons c r => simp
    | some w =>
      cases u with
      | nil => simp [hq0]
      | cons c r =>
        by_cases h : (qf (c :: r)).isEmpty = true
        · have : qf (c :: r) = [] := List.isEmpty_iff.mp h
          simp [this]
        · simp [h]

theorem quoter_avoid (e : Env) (s : Str) (hs : PyStr s) (d : Nat)
    (hd : ∀ b, (Gen.QUOTER.tab b).safe d = false) (h37 : d ≠ 37) (hx : isUpperHexDigit d = false) :
    d ∉ q e Gen.QUOTER s := by
  have hwf := gen_tab_wf Gen.QUOTER (by decide) e.b
  unfold q
  rw [run_eq_cOut _ (by decide) e.b s hs]
  have hall := outLang_allowed _ hwf (cOut_outLang _ hwf (stripSurr s) (QuoteEquiv.pyStr_stripSurr hs))
  intro hm
  rcases hall d hm with h | h | h | h
  · rw [hd] at h; cases h
  · exact h37 h
  · rw [hx] at h; cases h
  · rw [tab_qs] at h; exact absurd h.1 (by decide)

theorem quoter_unsafe_tab : ∀ b, (Gen.QUOTER.tab b).safe 58 = false := by
  intro b; cases b <;> decide

theorem user_readback (e : Env) (t : Str) (ht : PyStr t) (hn : NoSurrogate t) :
    uq e Gen.UNQUOTER (q e Gen.QUOTER t) = t :=
  run_readback Gen.QUOTER Gen.UNQUOTER (by decide) e.b (by cases e.b <;> decide +kernel) t ht hn

/-- what `URL.build` stores for the family with user / password -/
def builtUrlU (e : Env) (sc : Str) (user pw : Option Str) (h p f : Str) : Url :=
  fromParts sc (makeNetloc (q e Gen.QUOTER) user pw (some h) none true) (q e Gen.PATH_QUOTER p) []
    (if f.isEmpty then f else q e Gen.FRAGMENT_QUOTER f)

theorem build_userinfo (e : Env) (sc sc' : Str) (hl : lowerAny e sc = .ok sc') (user pw : Option Str)
    (h p f : Str) (ph : PlainHost h)
    (hp : PyStr (47 :: p)) (hn : NoSurrogate (47 :: p)) (hdot : 46 ∉ p) :
    build e { scheme := sc, user := user, password := pw, host := h, path := 47 :: p, fragment := f } =
      .ok (builtUrlU e sc' user pw h (47 :: p) f) := by
  have hne := isEmpty_false ph.ne
  have hq := q_path_cons_slash e p hp hn
  have hd : mem 46 (q e Gen.PATH_QUOTER (47 :: p)) = false := by
    rw [NetlocLemmas.mem_false_iff]
    exact C13_path_quoter_no_dot e _ hp (by simp [hdot])
  have hnl : (makeNetloc (q e Gen.QUOTER) user pw (some h) none true).isEmpty = false := by
    rw [makeNetloc_encode _ (q_nil e _), ← plain_bracket ph]
    exact isEmpty_false (makeNetloc_ne_nil _ _ _ ph.ne none)
  have hnet : (if user.isNone && pw.isNone then (Except.ok h : R Str)
      else Except.ok (makeNetloc (q e Gen.QUOTER) user pw (some h) none true)) =
      Except.ok (makeNetloc (q e Gen.QUOTER) user pw (some h) none true) := by
    cases user <;> cases pw <;> rfl
  rw [hq] at hd
  unfold build builtUrlU
  simp only [List.isEmpty_nil, Bool.not_true, Bool.false_and, Bool.false_eq_true, ↓reduceIte,
    ne_eq, not_true_eq_false, qargTruthy, hne, Bool.not_false, Bool.and_false,
    Option.map_none, encodeHost_plain e.o h true ph, bind,
    Except.bind, pure, Except.pure, hnet, hnl, Bool.and_true, List.isEmpty_cons, hq, hd, fromParts, hl]

/-- the decoded texts given to `build` -/
def UText (x : Option Str) : Prop := ∀ s, x = some s → PyStr s ∧ NoSurrogate s

theorem builtU_as_std (e : Env) (sc : Str) (user pw : Option Str) (h p f : Str) (ph : PlainHost h) :
    builtUrlU e sc user pw h p f =
      fromParts sc (makeNetloc id (user.map (q e Gen.QUOTER)) (pw.map (q e Gen.QUOTER))
        (some (bracket h)) none false) (q e Gen.PATH_QUOTER p) []
        (if f.isEmpty then f else q e Gen.FRAGMENT_QUOTER f) := by
  unfold builtUrlU
  rw [makeNetloc_encode _ (q_nil e _), makeNetloc_qf (q e Gen.QUOTER) id, plain_bracket ph]

theorem userOK_quoted (e : Env) (user : Option Str) (hu : UText user) (hune : ∀ s, user = some s → s ≠ []) :
    UserOK (user.map (q e Gen.QUOTER)) := by
  intro s hs
  cases user with
  | none => cases hs
  | some us =>
    simp only [Option.map_some, Option.some.injEq] at hs
    subst hs
    obtain ⟨h1, h2⟩ := hu us rfl
    exact ⟨run_ne_nil Gen.QUOTER (by decide) rfl e.b us h1 h2 (hune us rfl),
      quoter_avoid e us h1 58 quoter_unsafe_tab (by omega) (by decide)⟩

theorem map_readback (e : Env) (x : Option Str) (hx : UText x) :
    (x.map (q e Gen.QUOTER)).map (uq e Gen.UNQUOTER) = x := by
  cases x with
  | none => rfl
  | some s =>
    obtain ⟨h1, h2⟩ := hx s rfl
    simp only [Option.map_some, user_readback e s h1 h2]

theorem pathDecoded_of (e : Env) (u : Url) (p : Str) (hu : u.path = q e Gen.PATH_QUOTER (47 :: p))
    (hp : PyStr (47 :: p)) (hn : NoSurrogate (47 :: p)) : pathDecoded e u = 47 :: p := by
  unfold pathDecoded
  rw [hu]
  simp only [q_path_cons_slash e p hp hn, List.isEmpty_cons, Bool.not_false, ↓reduceIte]
  rw [← q_path_cons_slash e p hp hn]
  exact path_readback e _ hp hn

theorem fragmentDecoded_of (e : Env) (u : Url) (f : Str)
    (hu : u.fragment = if f.isEmpty then f else q e Gen.FRAGMENT_QUOTER f)
    (hf : PyStr f) (hfn : NoSurrogate f) : fragmentDecoded e u = f := by
  unfold fragmentDecoded
  rw [hu]
  cases f with
  | nil => rfl
  | cons c r =>
    have hne : q e Gen.FRAGMENT_QUOTER (c :: r) ≠ [] :=
      run_ne_nil Gen.FRAGMENT_QUOTER (by decide) rfl e.b _ hf hfn (by simp)
    simp only [List.isEmpty_cons, Bool.false_eq_true, ↓reduceIte, isEmpty_false hne, Bool.not_false]
    exact fragment_readback e _ hf hfn

theorem humanRepr_userinfo (e : Env) (sc : Str) (user pw : Option Str) (h p f : Str) (ph : PlainHost h)
    (hidna : e.o.idnaDec h = some (some h))
    (hu : UText user) (hune : ∀ s, user = some s → s ≠ []) (hw : UText pw)
    (hp : PyStr (47 :: p)) (hn : NoSurrogate (47 :: p)) (hf : PyStr f) (hfn : NoSurrogate f) :
    humanRepr e (builtUrlU e sc user pw h (47 :: p) f) =
      (humanQuoteOpt e.o user (humanUnsafeOf "user") >>= fun usr =>
        humanQuoteOpt e.o pw (humanUnsafeOf "password") >>= fun pw' =>
        humanQuote e.o (47 :: p) (humanUnsafeOf "path") >>= fun rp =>
        humanQuote e.o f (humanUnsafeOf "fragment") >>= fun rf =>
          pure (unsplitResult sc (makeNetloc (q e Gen.QUOTER) usr pw' (some h) none false) rp [] rf)) := by
  have hok := plain_hostOK ph
  have huk := userOK_quoted e user hu hune
  have hpk : ∀ p, (none : Option Nat) = some p → p ≤ 65535 := by intro p hp; cases hp
  have hU : rawUser e (builtUrlU e sc user pw h (47 :: p) f) = .ok (user.map (q e Gen.QUOTER)) := by
    rw [builtU_as_std e sc user pw h _ f ph]; exact rawUser_std e id _ _ h none _ _ _ _ huk hok hpk
  have hP : rawPassword e (builtUrlU e sc user pw h (47 :: p) f) = .ok (pw.map (q e Gen.QUOTER)) := by
    rw [builtU_as_std e sc user pw h _ f ph]; exact rawPassword_std e id _ _ h none _ _ _ _ huk hok hpk
  have hH : rawHost e (builtUrlU e sc user pw h (47 :: p) f) = .ok (some h) := by
    rw [builtU_as_std e sc user pw h _ f ph]; exact rawHost_std e id _ _ h none _ _ _ _ huk hok hpk
  have hE : explicitPort e (builtUrlU e sc user pw h (47 :: p) f) = .ok none := by
    rw [builtU_as_std e sc user pw h _ f ph]; exact explicitPort_std e id _ _ h none _ _ _ _ huk hok hpk
  have hHost := host_plain e _ h ph hH hidna
  have h58 : mem 58 h = false := NetlocLemmas.mem_false_iff.mpr (plain_avoid ph (by decide))
  have hq : queryPairs (builtUrlU e sc user pw h (47 :: p) f) = [] := rfl
  unfold humanRepr Yarl.user password
  rw [hU, hP, hHost, hE, pathDecoded_of e _ p rfl hp hn, fragmentDecoded_of e _ f rfl hf hfn, hq]
  simp only [bind, Except.bind, pure, Except.pure, map_readback e user hu, map_readback e pw hw,
    Option.map_some, h58, Bool.and_false, Bool.false_eq_true, ↓reduceIte, List.mapM_nil]
  cases humanQuoteOpt e.o user (humanUnsafeOf "user") with
  | error err => rfl
  | ok usr =>
    cases humanQuoteOpt e.o pw (humanUnsafeOf "password") with
    | error err => rfl
    | ok pw' =>
      cases humanQuote e.o (47 :: p) (humanUnsafeOf "path") with
      | error err => rfl
      | ok rp =>
        cases humanQuote e.o f (humanUnsafeOf "fragment") with
        | error err => rfl
        | ok rf => rfl

/-! ### the authority of the human form -/

theorem humanQuoteOpt_ok {o : Oracles} {x y : Option Str} {L : Str} (h : humanQuoteOpt o x L = .ok y) :
    (x = none ∧ y = none) ∨ ∃ s r, x = some s ∧ y = some r ∧ humanQuote o s L = .ok r := by
  cases x with
  | none => left; cases h; exact ⟨rfl, rfl⟩
  | some s =>
    right
    cases hq : humanQuote o s L with
    | error err => simp only [humanQuoteOpt, hq, bind, Except.bind] at h; cases h
    | ok r =>
      simp only [humanQuoteOpt, hq, bind, Except.bind, pure, Except.pure, Except.ok.injEq] at h
      exact ⟨s, r, rfl, h.symm, hq⟩

/-- the characters that never appear literally in the human form of user and password -/
def userBad : List Nat := [9, 10, 13, 35, 47, 58, 63, 64, 91, 93]

theorem userBad_tab : ∀ d ∈ userBad, d < 128 ∧ d ≠ 37 ∧ isUpperHexDigit d = false ∧
    (mem d (humanUnsafeOf "user") = true ∨ d < 32 ∨ d = 127) := by decide

theorem user_unsafe_ascii : ∀ c ∈ humanUnsafeOf "user", c < 128 := by decide

/-- a human form of a user or password -/
def HumanPart (y : Option Str) : Prop := ∀ r, y = some r → ∀ d ∈ userBad, d ∉ r

theorem humanPart_of {o : Oracles} {x y : Option Str} (hx : UText x)
    (h : humanQuoteOpt o x (humanUnsafeOf "user") = .ok y) : HumanPart y := by
  intro r hr d hd
  rcases humanQuoteOpt_ok h with ⟨_, rfl⟩ | ⟨s, r', rfl, rfl, hq⟩
  · cases hr
  · cases hr
    obtain ⟨h1, h2, h3, h4⟩ := userBad_tab d hd
    exact humanQuote_avoid o _ user_unsafe_ascii s r (hx s rfl).1 hq d h1 h2 h3 h4

theorem humanPart_ne_nil {o : Oracles} {x y : Option Str} {L : Str} (hx : UText x)
    (hne : ∀ s, x = some s → s ≠ []) (h : humanQuoteOpt o x L = .ok y) : ∀ r, y = some r → r ≠ [] := by
  intro r hr
  rcases humanQuoteOpt_ok h with ⟨_, rfl⟩ | ⟨s, r', rfl, rfl, hq⟩
  · cases hr
  · cases hr
    exact humanQuote_ne_nil o _ s r (hx s rfl).1 (hne s rfl) hq

/-- the authority `user:password@host` of the human form, as a concatenation -/
theorem netloc_human (qf : Str → Str) (usr pw' : Option Str) {h : Str} (ph : PlainHost h) :
    makeNetloc qf usr pw' (some h) none false =
      match usr, pw' with
      | none, none => h
      | _, some w => usr.getD [] ++ 58 :: w ++ 64 :: h
      | some u, none => if u.isEmpty then h else u ++ 64 :: h := by
  unfold makeNetloc
  cases usr with
  | none => cases pw' <;> simp
  | some u =>
    cases pw' with
    | none => simp
    | some w => cases u <;> simp

theorem auth_chars_human (qf : Str → Str) (usr pw' : Option Str) {h : Str} (ph : PlainHost h)
    (h1 : HumanPart usr) (h2 : HumanPart pw') :
    ∀ a ∈ makeNetloc qf usr pw' (some h) none false,
      a ≠ 47 ∧ a ≠ 63 ∧ a ≠ 35 ∧ a ≠ 9 ∧ a ≠ 10 ∧ a ≠ 13 ∧ a ≠ 91 ∧ a ≠ 93 := by
  have hh := (authOK_plain Oracles.empty ph).chars
  have hp : ∀ (y : Option Str), HumanPart y → ∀ r, y = some r → ∀ a ∈ r,
      a ≠ 47 ∧ a ≠ 63 ∧ a ≠ 35 ∧ a ≠ 9 ∧ a ≠ 10 ∧ a ≠ 13 ∧ a ≠ 91 ∧ a ≠ 93 := by
    intro y hy r hr a ha
    have k := hy r hr
    refine ⟨?_, ?_, ?_, ?_, ?_, ?_, ?_, ?_⟩ <;> (intro e; subst e; exact k _ (by decide) ha)
  rw [netloc_human qf usr pw' ph]
  intro a ha
  cases usr with
  | none =>
    cases pw' with
    | none => exact hh a ha
    | some w =>
      simp only [Option.getD_none, List.nil_append, List.mem_cons, List.mem_append] at ha
      rcases ha with (rfl | ha) | rfl | ha
      · omega
      · exact hp _ h2 w rfl a ha
      · omega
      · exact hh a ha
  | some u =>
    cases pw' with
    | none =>
      simp only at ha
      split at ha
      · exact hh a ha
      · simp only [List.mem_cons, List.mem_append] at ha
        rcases ha with ha | rfl | ha
        · exact hp _ h1 u rfl a ha
        · omega
        · exact hh a ha
    | some w =>
      simp only [Option.getD_some, List.mem_cons, List.mem_append] at ha
      rcases ha with (ha | rfl | ha) | rfl | ha
      · exact hp _ h1 u rfl a ha
      · omega
      · exact hp _ h2 w rfl a ha
      · omega
      · exact hh a ha

theorem authOK_human (o : Oracles) (qf : Str → Str) (usr pw' : Option Str) {h : Str} (ph : PlainHost h)
    (h1 : HumanPart usr) (h2 : HumanPart pw')
    (hnfkc : isAscii (makeNetloc qf usr pw' (some h) none false) = false →
      checkNetloc o (makeNetloc qf usr pw' (some h) none false) = .ok ()) :
    AuthOK o (makeNetloc qf usr pw' (some h) none false) :=
  ⟨auth_chars_human qf usr pw' ph h1 h2, hnfkc⟩

theorem mem64_human (qf : Str → Str) (usr pw' : Option Str) {h : Str} (ph : PlainHost h)
    (hne : ∀ r, usr = some r → r ≠ []) (hsome : usr.isSome = true ∨ pw'.isSome = true) :
    mem 64 (makeNetloc qf usr pw' (some h) none false) = true := by
  rw [netloc_human qf usr pw' ph, NetlocLemmas.mem_iff]
  cases usr with
  | none =>
    cases pw' with
    | none => simp at hsome
    | some w => simp
  | some u =>
    cases pw' with
    | none => simp [isEmpty_false (hne u rfl)]
    | some w => simp

theorem isSome_human {o : Oracles} {x y : Option Str} {L : Str} (h : humanQuoteOpt o x L = .ok y) :
    y.isSome = x.isSome := by
  rcases humanQuoteOpt_ok h with ⟨rfl, rfl⟩ | ⟨s, r, rfl, rfl, _⟩ <;> rfl

end HumanLemmas
end Yarl
