/-
  NetlocLemmas.lean — `split_netloc (make_netloc …)` round trip, decimal port
  rendering parses back.
-/
import YarlModel
namespace Yarl

/-- an encoded user as the quoter leaves it: non-empty and without ':' -/
def UserOK (u : Option Str) : Prop := ∀ s, u = some s → s ≠ [] ∧ 58 ∉ s

/-- a stored host: non-empty, no '@', no '[' / ']' (an IPv6-style host contains ':'
    and is bracketed when written) -/
def HostOK (h : Str) : Prop := h ≠ [] ∧ 64 ∉ h ∧ 91 ∉ h ∧ 93 ∉ h

def bracket (h : Str) : Str := if mem 58 h then [91] ++ h ++ [93] else h

instance (u : Option Str) : Decidable (UserOK u) := by
  unfold UserOK
  cases u with
  | none => exact isTrue (by intro s h; cases h)
  | some s =>
    exact decidable_of_iff (s ≠ [] ∧ 58 ∉ s)
      ⟨fun h t ht => by cases ht; exact h, fun h => h s rfl⟩
instance (h : Str) : Decidable (HostOK h) := by unfold HostOK; infer_instance

namespace NetlocLemmas

theorem mem_iff {c : Nat} {l : Str} : mem c l = true ↔ c ∈ l := by
  unfold mem; exact List.contains_iff_mem

theorem mem_false_iff {c : Nat} {l : Str} : mem c l = false ↔ c ∉ l := by
  rw [← mem_iff]; cases mem c l <;> simp

theorem partition_found (c : Nat) (a b : Str) (h : c ∉ a) :
    partition c (a ++ c :: b) = (a, true, b) := by
  induction a with
  | nil => simp [partition]
  | cons x xs ih =>
    have hx : x ≠ c := fun e => h (by simp [e])
    have hxs : c ∉ xs := fun e => h (by simp [e])
    simp [partition, hx, ih hxs]

theorem partition_notFound (c : Nat) (a : Str) (h : c ∉ a) :
    partition c a = (a, false, []) := by
  induction a with
  | nil => simp [partition]
  | cons x xs ih =>
    have hx : x ≠ c := fun e => h (by simp [e])
    have hxs : c ∉ xs := fun e => h (by simp [e])
    simp [partition, hx, ih hxs]

theorem rpartition_found (c : Nat) (a b : Str) (h : c ∉ b) :
    rpartition c (a ++ c :: b) = (a, true, b) := by
  unfold rpartition
  have : (a ++ c :: b).reverse = b.reverse ++ c :: a.reverse := by simp
  rw [this, partition_found c b.reverse a.reverse (by simpa using h)]
  simp

/-! ### decimal rendering -/

theorem natToStrAux_digits (fuel n : Nat) :
    natToStrAux fuel n ≠ [] ∧ ∀ c ∈ natToStrAux fuel n, isDigitC c = true := by
  induction fuel generalizing n with
  | zero =>
    simp only [natToStrAux]
    refine ⟨by simp, ?_⟩
    intro c hc
    simp at hc; subst hc; unfold isDigitC; simp; omega
  | succ f ih =>
    simp only [natToStrAux]
    split
    · refine ⟨by simp, ?_⟩
      intro c hc
      simp at hc; subst hc; unfold isDigitC; simp; omega
    · refine ⟨by simp, ?_⟩
      intro c hc
      simp at hc
      rcases hc with hc | hc
      · exact (ih (n / 10)).2 c hc
      · subst hc; unfold isDigitC; simp; omega

/-- value of a digit string, accumulating -/
def dv (a : Nat) (ds : Str) : Nat := ds.foldl (fun a c => a * 10 + (c - 48)) a

theorem dv_natToStrAux (fuel n : Nat) (h : n ≤ fuel) : dv 0 (natToStrAux fuel n) = n := by
  induction fuel generalizing n with
  | zero =>
    have : n = 0 := by omega
    subst this; simp [natToStrAux, dv]
  | succ f ih =>
    simp only [natToStrAux]
    split
    · simp [dv]
    · have := ih (n / 10) (by omega)
      unfold dv at this ⊢
      rw [List.foldl_append, this]
      simp; omega

theorem digitsUnderscore_some (ds : Str) (a : Nat) (h : ∀ c ∈ ds, isDigitC c = true) :
    digitsUnderscore ds (some a) false = some (dv a ds) := by
  induction ds generalizing a with
  | nil => simp [digitsUnderscore, dv]
  | cons c cs ih =>
    have hc : isDigitC c = true := h c (by simp)
    simp only [digitsUnderscore, hc, if_true]
    rw [ih _ (fun x hx => h x (by simp [hx]))]
    simp [dv]

theorem digitsUnderscore_none (ds : Str) (hne : ds ≠ []) (h : ∀ c ∈ ds, isDigitC c = true) :
    digitsUnderscore ds none false = some (dv 0 ds) := by
  cases ds with
  | nil => exact absurd rfl hne
  | cons c cs =>
    have hc : isDigitC c = true := h c (by simp)
    simp only [digitsUnderscore, hc, if_true]
    rw [digitsUnderscore_some _ _ (fun x hx => h x (by simp [hx]))]
    simp [dv]

theorem lstripSet_id (ws s : Str) (h : ∀ c ∈ s, mem c ws = false) : lstripSet ws s = s := by
  cases s with
  | nil => rfl
  | cons x xs => simp [lstripSet, h x (by simp)]

theorem digit_not_space (c : Nat) (h : isDigitC c = true) :
    mem c ((List.range 128).filter isPySpaceC) = false := by
  rw [mem_false_iff]
  intro hm
  simp only [List.mem_filter] at hm
  have := hm.2
  unfold isPySpaceC at this
  unfold isDigitC at h
  simp at this h
  omega

theorem pyIntAscii_digits (ds : Str) (hne : ds ≠ []) (h : ∀ c ∈ ds, isDigitC c = true) :
    pyIntAscii ds = some (Int.ofNat (dv 0 ds)) := by
  unfold pyIntAscii
  have h1 : lstripSet ((List.range 128).filter isPySpaceC) ds = ds :=
    lstripSet_id _ _ (fun c hc => digit_not_space c (h c hc))
  have h2 : lstripSet ((List.range 128).filter isPySpaceC) ds.reverse = ds.reverse :=
    lstripSet_id _ _ (fun c hc => digit_not_space c (h c (by simpa using hc)))
  simp only [h1, h2, List.reverse_reverse]
  cases ds with
  | nil => exact absurd rfl hne
  | cons c cs =>
    have hc : isDigitC c = true := h c (by simp)
    have hc' : 48 ≤ c ∧ c ≤ 57 := by unfold isDigitC at hc; simpa using hc
    split
    · rename_i heq; cases heq
    · rename_i heq; cases heq; omega
    · rename_i heq; cases heq; omega
    · rw [digitsUnderscore_none _ hne h]; rfl

end NetlocLemmas

open NetlocLemmas in
theorem natToStr_digits (p : Nat) : (natToStr p) ≠ [] ∧ ∀ c ∈ natToStr p, isDigitC c = true :=
  natToStrAux_digits p p

open NetlocLemmas in
theorem natToStr_roundtrip (p : Nat) : pyIntAscii (natToStr p) = some (Int.ofNat p) := by
  rw [pyIntAscii_digits _ (natToStr_digits p).1 (natToStr_digits p).2]
  unfold natToStr
  rw [dv_natToStrAux p p (Nat.le_refl p)]

namespace NetlocLemmas

/-! ### `splitNetloc` in two stages -/

/-- the host/port half of `split_netloc` -/
def hostPort (hostinfo : Str) : Str × Str :=
  if mem 91 hostinfo then
    let bracketed := (partition 91 hostinfo).2.2
    let (hostname, _, afterB) := partition 93 bracketed
    (hostname, (partition 58 afterB).2.2)
  else
    let (hostname, _, p) := partition 58 hostinfo
    (hostname, p)

/-- the userinfo half of `split_netloc` -/
def userSplit (netloc : Str) : Option Str × Option Str × Str :=
  if !mem 64 netloc then ((none : Option Str), (none : Option Str), netloc)
  else
    let (userinfo, _, hostinfo) := rpartition 64 netloc
    let (u, havePw, pw) := partition 58 userinfo
    (some u, if havePw then some pw else none, hostinfo)

/-- everything after the userinfo split -/
def finish (o : Oracles) (username password : Option Str) (hostinfo : Str) : R NetlocParts := do
  let (hostname, portStr) := hostPort hostinfo
  let user := username.bind orNone
  if portStr.isEmpty then
    pure { user := user, password := password, host := orNone hostname, port := none }
  else
    match ← pyInt o portStr with
    | none => .error .valueError
    | some p =>
      if 0 ≤ p ∧ p ≤ 65535 then
        pure { user := user, password := password, host := orNone hostname, port := some p.toNat }
      else .error .valueError

theorem splitNetloc_eq (o : Oracles) (netloc : Str) :
    splitNetloc o netloc =
      finish o (userSplit netloc).1 (userSplit netloc).2.1 (userSplit netloc).2.2 := by
  rfl

theorem userSplit_noAt (n : Str) (h : 64 ∉ n) : userSplit n = (none, none, n) := by
  unfold userSplit; simp [mem_false_iff.mpr h]

theorem userSplit_at (ui hi : Str) (h : 64 ∉ hi) :
    userSplit (ui ++ 64 :: hi) =
      (some (partition 58 ui).1,
       if (partition 58 ui).2.1 then some (partition 58 ui).2.2 else none, hi) := by
  have hm : mem 64 (ui ++ 64 :: hi) = true := mem_iff.mpr (by simp)
  unfold userSplit
  simp [hm, rpartition_found 64 ui hi h]

theorem digit_ne {c d : Nat} (h : isDigitC c = true) (hd : d < 48 ∨ 57 < d) : c ≠ d := by
  unfold isDigitC at h; simp at h; omega

theorem notMem_digits {ds : Str} (h : ∀ c ∈ ds, isDigitC c = true) (d : Nat) (hd : d < 48 ∨ 57 < d) :
    d ∉ ds := fun hm => digit_ne (h d hm) hd rfl

theorem hostPort_plain (h : Str) (h91 : 91 ∉ h) (h93 : 93 ∉ h) : hostPort (bracket h) = (h, []) := by
  unfold hostPort bracket
  by_cases h58 : 58 ∈ h
  · have e1 : mem 58 h = true := mem_iff.mpr h58
    have e2 : mem 91 ([91] ++ h ++ [93]) = true := mem_iff.mpr (by simp)
    simp only [e1, e2, if_true]
    have e3 : partition 91 ([91] ++ h ++ [93]) = ([], true, h ++ [93]) := by
      simpa using partition_found 91 [] (h ++ [93]) (by simp)
    have e4 : partition 93 (h ++ [93]) = (h, true, []) := by
      simpa using partition_found 93 h [] h93
    simp [e4, partition]
  · have e1 : mem 58 h = false := mem_false_iff.mpr h58
    have e2 : mem 91 h = false := mem_false_iff.mpr h91
    simp [e1, e2, partition_notFound 58 h h58]

theorem hostPort_port (h ds : Str) (h91 : 91 ∉ h) (h93 : 93 ∉ h) (d91 : 91 ∉ ds) :
    hostPort (bracket h ++ [58] ++ ds) = (h, ds) := by
  unfold hostPort bracket
  by_cases h58 : 58 ∈ h
  · have e1 : mem 58 h = true := mem_iff.mpr h58
    have e2 : mem 91 (91 :: (h ++ 93 :: 58 :: ds)) = true := mem_iff.mpr (by simp)
    have e3 : partition 91 (91 :: (h ++ 93 :: 58 :: ds)) = ([], true, h ++ 93 :: 58 :: ds) :=
      partition_found 91 [] (h ++ 93 :: 58 :: ds) (by simp)
    have e4 : partition 93 (h ++ 93 :: 58 :: ds) = (h, true, 58 :: ds) :=
      partition_found 93 h (58 :: ds) h93
    simp [e1, e2, e3, e4, partition]
  · have e1 : mem 58 h = false := mem_false_iff.mpr h58
    have e2 : mem 91 (h ++ 58 :: ds) = false := mem_false_iff.mpr (by simp [h91, d91])
    have e3 : partition 58 (h ++ 58 :: ds) = (h, true, ds) :=
      partition_found 58 h ds h58
    simp [e1, e2, e3]

/-- `host ++ (":" ++ port)?` as `make_netloc` writes it -/
def hostPortStr (hb : Str) (port : Option Nat) : Str :=
  match port with
  | some p => hb ++ [58] ++ natToStr p
  | none => hb

theorem isAscii_natToStr (p : Nat) : isAscii (natToStr p) = true := by
  unfold isAscii
  rw [List.all_eq_true]
  intro c hc
  have := (natToStrAux_digits p p).2 c hc
  unfold isDigitC at this; simp at this ⊢; omega

theorem finish_hostPortStr (o : Oracles) (U P : Option Str) (h : Str) (port : Option Nat)
    (h91 : 91 ∉ h) (h93 : 93 ∉ h) (hp : ∀ p, port = some p → p ≤ 65535) :
    finish o U P (hostPortStr (bracket h) port) =
      .ok { user := U.bind orNone, password := P, host := orNone h, port := port } := by
  cases port with
  | none =>
    simp only [hostPortStr]
    unfold finish
    rw [hostPort_plain h h91 h93]
    rfl
  | some p =>
    have hd := natToStrAux_digits p p
    simp only [hostPortStr]
    unfold finish
    rw [hostPort_port h (natToStr p) h91 h93 (notMem_digits hd.2 91 (by omega))]
    have hne : (natToStr p).isEmpty = false := by
      cases hh : natToStr p with
      | nil => exact absurd hh hd.1
      | cons _ _ => rfl
    have hi : pyInt o (natToStr p) = .ok (some (Int.ofNat p)) := by
      unfold pyInt
      rw [isAscii_natToStr, natToStr_roundtrip]
      rfl
    have hle := hp p rfl
    have hr : (0 : Int) ≤ Int.ofNat p ∧ Int.ofNat p ≤ 65535 := by
      constructor
      · exact Int.natCast_nonneg p
      · exact Int.ofNat_le.mpr hle
    simp only [hne, hi, bind, Except.bind, if_pos hr]
    simp [pure, Except.pure]

theorem notMem_bracket {h : Str} {c : Nat} (hc : c ∉ h) (h1 : c ≠ 91) (h2 : c ≠ 93) : c ∉ bracket h := by
  unfold bracket; split <;> simp [hc, h1, h2]

theorem notMem_hostPortStr {h : Str} (port : Option Nat) (h64 : 64 ∉ h) :
    64 ∉ hostPortStr (bracket h) port := by
  have hb := notMem_bracket h64 (by decide) (by decide)
  cases port with
  | none => simpa [hostPortStr] using hb
  | some p =>
    have := notMem_digits (natToStrAux_digits p p).2 64 (by omega)
    simp only [hostPortStr, List.mem_append, not_or]
    exact ⟨⟨hb, by simp⟩, this⟩

/-- `make_netloc` without encoding, as a concatenation -/
theorem makeNetloc_eq (qf : Str → Str) (user pw : Option Str) (hb : Str) (port : Option Nat) :
    makeNetloc qf user pw (some hb) port false =
      match user, pw with
      | none, none => hostPortStr hb port
      | _, some pw => user.getD [] ++ 58 :: pw ++ 64 :: hostPortStr hb port
      | some u, none => if u.isEmpty then hostPortStr hb port else u ++ 64 :: hostPortStr hb port := by
  unfold makeNetloc hostPortStr
  cases user with
  | none => cases pw <;> cases port <;> simp
  | some u =>
    cases pw with
    | none => cases port <;> simp
    | some w =>
      cases port <;> cases u <;> simp

/-- the round trip with a possibly empty host -/
theorem roundtrip_gen (o : Oracles) (qf : Str → Str) (user pw : Option Str) (h : Str) (port : Option Nat)
    (hu : UserOK user) (h64 : 64 ∉ h) (h91 : 91 ∉ h) (h93 : 93 ∉ h)
    (hp : ∀ p, port = some p → p ≤ 65535) :
    splitNetloc o (makeNetloc qf user pw (some (bracket h)) port false) =
      .ok { user := user, password := pw, host := orNone h, port := port } := by
  have hret := notMem_hostPortStr port h64
  have hfin := fun U P => finish_hostPortStr o U P h port h91 h93 hp
  rw [splitNetloc_eq, makeNetloc_eq]
  cases user with
  | none =>
    cases pw with
    | none =>
      simp only [userSplit_noAt _ hret, hfin]; rfl
    | some w =>
      have e : (none : Option Str).getD [] ++ 58 :: w ++ 64 :: hostPortStr (bracket h) port
          = (58 :: w) ++ 64 :: hostPortStr (bracket h) port := by simp
      simp only [e, userSplit_at _ _ hret, hfin]
      simp [partition, orNone]
  | some u =>
    have ⟨hne, h58⟩ := hu u rfl
    have hemp : u.isEmpty = false := by cases u with
      | nil => exact absurd rfl hne
      | cons _ _ => rfl
    have hor : orNone u = some u := by simp [orNone, hemp]
    cases pw with
    | none =>
      simp only [hemp, Bool.false_eq_true, if_false]
      rw [userSplit_at u _ hret]
      simp only [hfin, partition_notFound 58 u h58]
      simp [hor]
    | some w =>
      have e : (some u).getD [] ++ 58 :: w ++ 64 :: hostPortStr (bracket h) port
          = (u ++ 58 :: w) ++ 64 :: hostPortStr (bracket h) port := by simp
      simp only [e, userSplit_at _ _ hret, hfin, partition_found 58 u w h58]
      simp [hor]

/-- without `encode` the quoter argument of `make_netloc` is irrelevant -/
theorem makeNetloc_qf (qf qf' : Str → Str) (user pw host : Option Str) (port : Option Nat) :
    makeNetloc qf user pw host port false = makeNetloc qf' user pw host port false := by
  cases host with
  | none => rfl
  | some hb => rw [makeNetloc_eq, makeNetloc_eq]

theorem bracket_ne_nil {h : Str} (hne : h ≠ []) : bracket h ≠ [] := by
  unfold bracket; split
  · simp
  · exact hne

theorem hostPortStr_ne_nil {hb : Str} (hne : hb ≠ []) (port : Option Nat) : hostPortStr hb port ≠ [] := by
  cases port <;> simp [hostPortStr, hne]

theorem makeNetloc_ne_nil (qf : Str → Str) (user pw : Option Str) {h : Str} (hne : h ≠ []) (port : Option Nat) :
    makeNetloc qf user pw (some (bracket h)) port false ≠ [] := by
  have hr := hostPortStr_ne_nil (bracket_ne_nil hne) port
  rw [makeNetloc_eq]
  cases user with
  | none => cases pw <;> simp [hr]
  | some u =>
    cases pw with
    | none => simp only; split <;> simp [hr]
    | some w => simp

/-- whatever `split_netloc` accepts has a port in range -/
theorem splitNetloc_port_range (o : Oracles) (n : Str) (np : NetlocParts) (p : Nat)
    (h : splitNetloc o n = .ok np) (hp : np.port = some p) : p ≤ 65535 := by
  rw [splitNetloc_eq] at h
  unfold finish at h
  simp only at h
  split at h
  · cases h; cases hp
  · cases hi : pyInt o (hostPort (userSplit n).2.2).2 with
    | error err => simp [hi, bind, Except.bind] at h
    | ok v =>
      cases v with
      | none => simp [hi, bind, Except.bind] at h
      | some i =>
        simp only [hi, bind, Except.bind] at h
        split at h
        · rename_i hr
          cases h
          simp at hp
          omega
        · cases h

end NetlocLemmas

open NetlocLemmas

theorem netloc_roundtrip (o : Oracles) (qf : Str → Str) (user pw : Option Str) (h : Str) (port : Option Nat)
    (hu : UserOK user) (hh : HostOK h) (hp : ∀ p, port = some p → p ≤ 65535) :
    splitNetloc o (makeNetloc qf user pw (some (bracket h)) port false) =
      .ok { user := user, password := pw, host := some h, port := port } := by
  obtain ⟨hne, h64, h91, h93⟩ := hh
  rw [roundtrip_gen o qf user pw h port hu h64 h91 h93 hp]
  have : orNone h = some h := by
    cases h with
    | nil => exact absurd rfl hne
    | cons _ _ => rfl
  rw [this]

/-- a URL whose netloc has an EMPTY host ("//:80", "//u@"): the host reads back as `none`
    (the accessor layer `lazyNet` then maps it to `some []`) -/
theorem netloc_roundtrip_empty_host (o : Oracles) (qf : Str → Str) (user pw : Option Str) (port : Option Nat)
    (hu : UserOK user) (hp : ∀ p, port = some p → p ≤ 65535) :
    splitNetloc o (makeNetloc qf user pw (some []) port false) =
      .ok { user := user, password := pw, host := none, port := port } := by
  have := roundtrip_gen o qf user pw [] port hu (by simp) (by simp) (by simp) hp
  simpa [bracket, mem, orNone] using this

/-! ### accessors of a URL whose netloc was written by `make_netloc` -/

namespace NetlocLemmas

theorem net_std (e : Env) (qf : Str → Str) (user pw : Option Str) (h : Str) (port : Option Nat)
    (scheme path query fragment : Str)
    (hu : UserOK user) (hh : HostOK h) (hp : ∀ p, port = some p → p ≤ 65535) :
    net e (fromParts scheme (makeNetloc qf user pw (some (bracket h)) port false) path query fragment) =
      .ok { rawHost := some h, explicitPort := port, rawUser := user, rawPassword := pw } := by
  unfold net fromParts lazyNet
  simp only [netloc_roundtrip e.o qf user pw h port hu hh hp]
  rfl

section std
variable (e : Env) (qf : Str → Str) (user pw : Option Str) (h : Str) (port : Option Nat)
  (scheme path query fragment : Str)
  (hu : UserOK user) (hh : HostOK h) (hp : ∀ p, port = some p → p ≤ 65535)
include hu hh hp

theorem rawUser_std :
    rawUser e (fromParts scheme (makeNetloc qf user pw (some (bracket h)) port false) path query fragment) = .ok user := by
  unfold rawUser; rw [net_std e qf user pw h port scheme path query fragment hu hh hp]; rfl

theorem rawPassword_std :
    rawPassword e (fromParts scheme (makeNetloc qf user pw (some (bracket h)) port false) path query fragment) = .ok pw := by
  unfold rawPassword; rw [net_std e qf user pw h port scheme path query fragment hu hh hp]; rfl

theorem rawHost_std :
    rawHost e (fromParts scheme (makeNetloc qf user pw (some (bracket h)) port false) path query fragment) = .ok (some h) := by
  unfold rawHost; rw [net_std e qf user pw h port scheme path query fragment hu hh hp]; rfl

theorem explicitPort_std :
    explicitPort e (fromParts scheme (makeNetloc qf user pw (some (bracket h)) port false) path query fragment) = .ok port := by
  unfold explicitPort; rw [net_std e qf user pw h port scheme path query fragment hu hh hp]; rfl

theorem hostSubcomponent_std :
    hostSubcomponent e (fromParts scheme (makeNetloc qf user pw (some (bracket h)) port false) path query fragment)
      = .ok (some (bracket h)) := by
  unfold hostSubcomponent; rw [rawHost_std e qf user pw h port scheme path query fragment hu hh hp]; rfl

end std

end NetlocLemmas

/-! ### non-vacuity and necessity of the hypotheses -/

section checks
-- the hypotheses hold for non-trivial inputs: '@' in user and password, ':' in the password, IPv6 host
example : UserOK (some "us@er".toStr) ∧ UserOK none ∧ HostOK "::1".toStr ∧ HostOK "example.com".toStr := by decide
example : makeNetloc id (some "us@er".toStr) (some "p:w@".toStr) (some (bracket "::1".toStr)) (some 8080) false
    = "us@er:p:w@@[::1]:8080".toStr := by decide
example : splitNetloc Oracles.empty "us@er:p:w@@[::1]:8080".toStr =
    .ok { user := some "us@er".toStr, password := some "p:w@".toStr, host := some "::1".toStr, port := some 8080 } := rfl
example : splitNetloc Oracles.empty (makeNetloc id none (some "x".toStr) (some (bracket "h".toStr)) (some 0) false) =
    .ok { user := none, password := some "x".toStr, host := some "h".toStr, port := some 0 } := rfl
-- each hypothesis is needed
example : ¬ UserOK (some []) ∧ ¬ UserOK (some "a:b".toStr) ∧ ¬ HostOK [] ∧ ¬ HostOK "a@b".toStr ∧
    ¬ HostOK "a[b".toStr ∧ ¬ HostOK "a:]b".toStr := by decide
/-- `user = some ""` reads back as `none` -/
example : splitNetloc Oracles.empty (makeNetloc id (some []) (some "x".toStr) (some (bracket "h".toStr)) none false) =
    .ok { user := none, password := some "x".toStr, host := some "h".toStr, port := none } := rfl
/-- a ':' in the user moves the split -/
example : splitNetloc Oracles.empty (makeNetloc id (some "a:b".toStr) none (some (bracket "h".toStr)) none false) =
    .ok { user := some "a".toStr, password := some "b".toStr, host := some "h".toStr, port := none } := rfl
/-- an '@' in the host moves the split -/
example : splitNetloc Oracles.empty (makeNetloc id (some "u".toStr) none (some (bracket "a@b".toStr)) none false) =
    .ok { user := some "u@a".toStr, password := none, host := some "b".toStr, port := none } := rfl
/-- '[' in an un-bracketed host -/
example : splitNetloc Oracles.empty (makeNetloc id none none (some (bracket "a[b".toStr)) none false) =
    .ok { user := none, password := none, host := some "b".toStr, port := none } := rfl
/-- ']' in a bracketed host -/
example : splitNetloc Oracles.empty (makeNetloc id none none (some (bracket "a:]b".toStr)) none false) =
    .ok { user := none, password := none, host := some "a:".toStr, port := none } := rfl
/-- a port above 65535 is written but rejected when read -/
example : splitNetloc Oracles.empty (makeNetloc id none none (some (bracket "h".toStr)) (some 65536) false) =
    .error .valueError := rfl
/-- empty host: "//u@:80" -/
example : splitNetloc Oracles.empty (makeNetloc id (some "u".toStr) none (some []) (some 80) false) =
    .ok { user := some "u".toStr, password := none, host := none, port := some 80 } := rfl
end checks

end Yarl
