/-
  Canon.lean — canonical (fixed-point) texts of a requoting table.

  `Canon t s`: `s` consists of literal characters that `t` keeps literal and of
  `%XY` escapes (upper-case hex) that `t` keeps escaped.  A requoting `t` maps
  such a text to itself (`cOut_fixed_on_canon`), and everything written by a
  compatible table `t'` is such a text (`cOut_in_canon`).  Together: requoting
  already-quoted text changes nothing — the heart of `str(URL(str(u))) == str(u)`.
-/
import YarlProofs.Lemmas.OutLang
set_option linter.unusedVariables false
namespace Yarl

inductive Canon (t : QTab) : Str → Prop
  | nil : Canon t []
  | lit (c : Nat) (r : Str) : t.safe c = true → c ≠ 37 → ¬ (t.qs = true ∧ c = 32) →
      Canon t r → Canon t (c :: r)
  | esc (b : Nat) (r : Str) : b < 256 → (128 ≤ b ∨ t.safe b = false ∨ t.prot b = true) →
      Canon t r → Canon t (pct b ++ r)

namespace OutLangLemmas

/-! ### hex round trip -/

theorem fromHex_toHex {x : Nat} (h : x < 16) : fromHex (toHex x) = some x := by
  unfold toHex
  split
  · unfold fromHex
    rw [if_pos (by omega)]
    congr 1 <;> omega
  · unfold fromHex
    rw [if_neg (by omega), if_pos (by omega)]
    congr 1 <;> omega

theorem isLowerHex_toHex {x : Nat} (h : x < 16) : isLowerHex (toHex x) = false := by
  unfold isLowerHex toHex
  split <;> simp <;> omega

theorem restoreCh_toHex {b : Nat} (h : b < 256) :
    restoreCh (toHex (b / 16)) (toHex (b % 16)) = some b := by
  unfold restoreCh
  rw [fromHex_toHex (by omega), fromHex_toHex (by omega)]
  simp only
  congr 1 <;> omega

theorem takeEscape_pct {b : Nat} (h : b < 256) (r : Str) :
    takeEscape restoreCh (toHex (b / 16) :: toHex (b % 16) :: r)
      = some (b, toHex (b / 16), toHex (b % 16), r) := by
  simp only [takeEscape, restoreCh_toHex h]

/-! ### one-step unfoldings of `cOut` -/

theorem cOut_cons_esc (t : QTab) (hreq : t.requote = true) {rest rest' : Str} {v d1 d2 : Nat}
    (hm : takeEscape restoreCh rest = some (v, d1, d2, rest')) :
    cOut t (37 :: rest) = cEscOut t v ++ cOut t rest' := by
  rw [cOut]
  simp only [hreq, and_self, if_true]
  split
  · rename_i v' a b rest'' heq
    rw [hm] at heq
    simp only [Option.some.injEq, Prod.mk.injEq] at heq
    obtain ⟨rfl, _, _, rfl⟩ := heq
    rfl
  · rename_i heq
    rw [hm] at heq
    exact absurd heq (by simp)

theorem cOut_cons_ne (t : QTab) {c : Nat} (hc : c ≠ 37) (rest : Str) :
    cOut t (c :: rest) = cWriteOut t c ++ cOut t rest := by
  rw [cOut]
  simp only [hc, false_and, if_false]

theorem cOut_pct (t : QTab) (hreq : t.requote = true) {b : Nat} (hb : b < 256) (r : Str) :
    cOut t (pct b ++ r) = cEscOut t b ++ cOut t r := by
  simp only [pct, List.cons_append, List.nil_append]
  exact cOut_cons_esc t hreq (takeEscape_pct hb r)

theorem cEscOut_eq_pct (t : QTab) (h : t.WF) {b : Nat}
    (hb : 128 ≤ b ∨ t.safe b = false ∨ t.prot b = true) : cEscOut t b = pct b := by
  unfold cEscOut
  split
  · rfl
  · rename_i h1
    split
    · rename_i h2
      rcases hb with hb | hb | hb
      · omega
      · rw [h2.2] at hb; exact Bool.noConfusion hb
      · exact absurd ⟨h2.1, hb⟩ h1
    · rfl

theorem cWriteOut_lit (t : QTab) (h : t.WF) {c : Nat} (hs : t.safe c = true)
    (hq : ¬ (t.qs = true ∧ c = 32)) : cWriteOut t c = [c] := by
  unfold cWriteOut
  rw [if_neg hq, if_pos ⟨h.safe_ascii c hs, hs⟩]

/-! ### UTF-8 bytes of a non-ASCII code point are non-ASCII -/

theorem utf8_ascii {c : Nat} (h : c < 128) : utf8 c = [c] := by
  unfold utf8
  rw [if_pos h]

theorem utf8_ge128 {c : Nat} (hc : 128 ≤ c) : ∀ b ∈ utf8 c, 128 ≤ b := by
  intro b hb
  unfold utf8 at hb
  split at hb
  · omega
  · split at hb
    · simp at hb; omega
    · split at hb
      · simp at hb
      · split at hb
        · simp at hb; omega
        · split at hb
          · simp at hb; omega
          · simp at hb

/-! ### what a compatible table writes is canonical -/

theorem flatMap_pct_canon (t : QTab) (bs : List Nat) {r : Str}
    (hb : ∀ b ∈ bs, b < 256 ∧ (128 ≤ b ∨ t.safe b = false ∨ t.prot b = true))
    (hr : Canon t r) : Canon t (bs.flatMap pct ++ r) := by
  induction bs with
  | nil => simpa using hr
  | cons b bs ih =>
    rw [List.flatMap_cons, List.append_assoc]
    have hb0 := hb b (by simp)
    exact Canon.esc b _ hb0.1 hb0.2 (ih (fun x hx => hb x (by simp [hx])))

/-- the compatibility of the producing table `t'` with the requoting table `t` -/
structure Compat (t t' : QTab) : Prop where
  qs : t'.qs = t.qs
  sub : ∀ c, t'.safe c = true → t.safe c = true
  esc : ∀ c, t.safe c = true → t.prot c = false → t'.safe c = true
  prot : ∀ c, t'.prot c = true → t.prot c = true
  plus : t.qs = true → t.safe 43 = true
  sp : t.safe 32 = false

theorem Compat.ne32 {t t' : QTab} (k : Compat t t') {c : Nat} (hs : t'.safe c = true) : c ≠ 32 := by
  intro e
  subst e
  have := k.sub 32 hs
  rw [k.sp] at this
  exact Bool.noConfusion this

/-- a character that `t'` does not keep literal is one `t` keeps escaped -/
theorem Compat.notLiteral {t t' : QTab} (k : Compat t t') {c : Nat} (hs : t'.safe c = false) :
    t.safe c = false ∨ t.prot c = true := by
  cases h1 : t.safe c
  · exact Or.inl rfl
  · cases h2 : t.prot c
    · have := k.esc c h1 h2
      rw [hs] at this
      exact Bool.noConfusion this
    · exact Or.inr rfl

theorem canon_lit_of_safe' {t t' : QTab} (ht' : t'.WF) (k : Compat t t') {c : Nat} {r : Str}
    (hs : t'.safe c = true) (hr : Canon t r) : Canon t (c :: r) :=
  Canon.lit c r (k.sub c hs) (safe_ne37 ht' hs) (fun hq => k.ne32 hs hq.2) hr

theorem canon_cEscOut {t t' : QTab} (ht' : t'.WF) (k : Compat t t') {v : Nat} {r : Str}
    (hv : v < 256) (hr : Canon t r) : Canon t (cEscOut t' v ++ r) := by
  unfold cEscOut
  split
  · rename_i h1
    exact Canon.esc v r hv (Or.inr (Or.inr (k.prot v h1.2))) hr
  · rename_i h1
    split
    · rename_i h2
      exact canon_lit_of_safe' ht' k h2.2 hr
    · rename_i h2
      refine Canon.esc v r hv ?_ hr
      by_cases h128 : v < 128
      · have hs : t'.safe v = false := by
          cases hsv : t'.safe v
          · rfl
          · exact absurd ⟨h128, hsv⟩ h2
        exact Or.inr (k.notLiteral hs)
      · exact Or.inl (by omega)

theorem canon_cWriteOut {t t' : QTab} (ht' : t'.WF) (k : Compat t t') {c : Nat} {r : Str}
    (hc : c ≤ 0x10FFFF) (hr : Canon t r) : Canon t (cWriteOut t' c ++ r) := by
  unfold cWriteOut
  split
  · rename_i h1
    have hq : t.qs = true := by rw [← k.qs]; exact h1.1
    exact Canon.lit 43 r (k.plus hq) (by decide) (fun h => absurd h.2 (by decide)) hr
  · rename_i h1
    split
    · rename_i h2
      exact canon_lit_of_safe' ht' k h2.2 hr
    · rename_i h2
      refine flatMap_pct_canon t _ ?_ hr
      intro b hb
      refine ⟨utf8_lt256 hc b hb, ?_⟩
      by_cases h128 : c < 128
      · rw [utf8_ascii h128] at hb
        have hbc : b = c := by simpa using hb
        subst hbc
        have hs : t'.safe b = false := by
          cases hsv : t'.safe b
          · rfl
          · exact absurd ⟨h128, hsv⟩ h2
        exact Or.inr (k.notLiteral hs)
      · exact Or.inl (utf8_ge128 (by omega) b hb)

theorem cOut_canon_of_compat {t t' : QTab} (ht' : t'.WF) (k : Compat t t') (s : Str) (hs : PyStr s) :
    Canon t (cOut t' s) := by
  fun_induction cOut t' s with
  | case1 => exact Canon.nil
  | case2 c rest hc v d1 d2 rest' hm ih =>
    have hrest : PyStr rest' := by
      intro x hx
      have := (takeEscape_eq hm).1
      exact hs x (by simp [this, hx])
    exact canon_cEscOut ht' k (restoreCh_lt (takeEscape_eq hm).2) (ih hrest)
  | case3 c rest hc hm ih =>
    have hrest : PyStr rest := fun x hx => hs x (by simp [hx])
    exact canon_cWriteOut ht' k (by decide) (ih hrest)
  | case4 c rest hc ih =>
    have hrest : PyStr rest := fun x hx => hs x (by simp [hx])
    exact canon_cWriteOut ht' k (hs c (by simp)) (ih hrest)

end OutLangLemmas

open OutLangLemmas

/-- a requoting table leaves canonical text alone -/
theorem cOut_fixed_on_canon (t : QTab) (h : t.WF) (hreq : t.requote = true) {s : Str} :
    Canon t s → cOut t s = s := by
  intro hs
  induction hs with
  | nil => rw [cOut]
  | lit c r hsafe hc hq _ ih =>
    rw [cOut_cons_ne t hc r, cWriteOut_lit t h hsafe hq, ih]
    rfl
  | esc b r hb hk _ ih =>
    rw [cOut_pct t hreq hb r, cEscOut_eq_pct t h hk, ih]

/-- what a compatible table `t'` writes is canonical for the requoting table `t` -/
theorem cOut_in_canon (t t' : QTab) (ht : t.WF) (ht' : t'.WF) (hqs : t'.qs = t.qs)
    (hsub : ∀ c, t'.safe c = true → t.safe c = true)
    (hesc : ∀ c, t.safe c = true → t.prot c = false → t'.safe c = true)
    (hprot : ∀ c, t'.prot c = true → t.prot c = true)
    (hplus : t.qs = true → t.safe 43 = true) (hsp : t.safe 32 = false)
    (s : Str) (hs : PyStr s) : Canon t (cOut t' s) :=
  cOut_canon_of_compat ht' ⟨hqs, hsub, hesc, hprot, hplus, hsp⟩ s hs

/-- requoting the output of a compatible table changes nothing -/
theorem cOut_requote_fixed (t t' : QTab) (ht : t.WF) (ht' : t'.WF) (hqs : t'.qs = t.qs)
    (hsub : ∀ c, t'.safe c = true → t.safe c = true)
    (hesc : ∀ c, t.safe c = true → t.prot c = false → t'.safe c = true)
    (hprot : ∀ c, t'.prot c = true → t.prot c = true)
    (hplus : t.qs = true → t.safe 43 = true) (hsp : t.safe 32 = false)
    (hreq : t.requote = true)
    (s : Str) (hs : PyStr s) : cOut t (cOut t' s) = cOut t' s :=
  cOut_fixed_on_canon t ht hreq (cOut_in_canon t t' ht ht' hqs hsub hesc hprot hplus hsp s hs)

/-- a requoting table is idempotent -/
theorem cOut_idem (t : QTab) (h : t.WF) (hreq : t.requote = true)
    (hplus : t.qs = true → t.safe 43 = true) (hsp : t.safe 32 = false)
    (s : Str) (hs : PyStr s) : cOut t (cOut t s) = cOut t s :=
  cOut_requote_fixed t t h h rfl (fun _ hc => hc) (fun _ hc _ => hc) (fun _ hc => hc)
    hplus hsp hreq s hs

end Yarl
