/-
  Lemmas/Regex.lean — a small GENERIC regular-expression engine with capture groups and the standard BACKTRACKING
  (Perl / Python `re` / ECMAScript) semantics, written independently of the yarl model (imports only `Str`).

  * `Re`        — the abstract syntax: character sets (finite list, optionally negated), `.`, concatenation, ordered
                  alternation `|`, greedy `?` `*` `+`, numbered capture groups.
  * `matchK`    — the textbook continuation-passing backtracking matcher: `matchK r s caps k` matches `r` at the front of
                  `s` and calls `k` on the remaining text and the updated captures; when `k` fails the matcher backtracks
                  into `r` (greedy quantifiers try "one more iteration" before "stop", `a|b` tries `a` before `b`, `a?`
                  tries `a` before skipping it).  The first success is the result, exactly as in a backtracking engine.
  * `regexGroups r s` — `re.match(r, s).groups()`: anchored at the START only; `none` = no match, otherwise the list
                  of groups 1..n, each `none` (the group did not take part: Python `None`, "undefined" in RFC 3986
                  Appendix B) or `some text`.
  * `parseRe`   — a parser for the usual concrete syntax (`[...]`, `[^...]`, `.`, `\c`, `(`, `)`, `|`, `?`, `*`, `+`),
                  numbering the groups by their opening parenthesis, so that a regular expression can be quoted as TEXT.

  Nothing in this file knows about URLs.
-/
import YarlModel.Str
namespace Yarl.Regex

/-- regular expressions over code points -/
inductive Re where
  /-- the empty expression -/
  | eps : Re
  /-- `[abc]` (`neg = false`) or `[^abc]` (`neg = true`) -/
  | set (neg : Bool) (l : Str) : Re
  /-- `.` — any code point (DOTALL; see `dotNoNewline` for Python's default `.`) -/
  | any : Re
  | seq (a b : Re) : Re
  /-- `a|b`, ordered -/
  | alt (a b : Re) : Re
  /-- `a?`, greedy -/
  | opt (a : Re) : Re
  /-- `a*`, greedy -/
  | star (a : Re) : Re
  /-- `a+`, greedy -/
  | plus (a : Re) : Re
  /-- `(a)`, capture group number `n` -/
  | group (n : Nat) (a : Re) : Re
  deriving Repr, DecidableEq, Inhabited

/-- a literal character -/
def Re.chr (c : Nat) : Re := .set false [c]
/-- Python's default `.`: anything but a newline -/
def Re.dotNoNewline : Re := .set true [10]

/-- does a code point belong to `[l]` / `[^l]` -/
def inSet (neg : Bool) (l : Str) (c : Nat) : Bool := if neg then !l.contains c else l.contains c

/-- captures: an association list, most recent binding first (a group that matched several times reports its LAST match) -/
abbrev Caps := List (Nat × Str)
/-- continuations: what to do with the rest of the text -/
abbrev K := Str → Caps → Option Caps

/-- the text consumed between `s` and its suffix `s'` -/
def consumed (s s' : Str) : Str := s.take (s.length - s'.length)

/-- greedy iteration of a matcher `m`: try one more iteration (which must consume something, as in ECMAScript /
    Python: an empty iteration is not repeated), and only when everything after it fails, stop here.  `fuel` bounds the
    number of iterations; `s.length + 1` is never exhausted (`starK_fuel`). -/
def starK (m : Str → Caps → K → Option Caps) : Nat → Str → Caps → K → Option Caps
  | 0, s, c, k => k s c
  | fuel + 1, s, c, k =>
    (m s c (fun s' c' => if s'.length < s.length then starK m fuel s' c' k else none)).orElse (fun _ => k s c)

/-- the backtracking matcher -/
def matchK : Re → Str → Caps → K → Option Caps
  | .eps, s, c, k => k s c
  | .set neg l, s, c, k =>
    match s with
    | x :: r => if inSet neg l x then k r c else none
    | [] => none
  | .any, s, c, k =>
    match s with
    | _ :: r => k r c
    | [] => none
  | .seq a b, s, c, k => matchK a s c (fun s' c' => matchK b s' c' k)
  | .alt a b, s, c, k => (matchK a s c k).orElse (fun _ => matchK b s c k)
  | .opt a, s, c, k => (matchK a s c k).orElse (fun _ => k s c)
  | .star a, s, c, k => starK (fun s c k => matchK a s c k) (s.length + 1) s c k
  | .plus a, s, c, k =>
    matchK a s c (fun s' c' => starK (fun s c k => matchK a s c k) (s'.length + 1) s' c' k)
  | .group n a, s, c, k => matchK a s c (fun s' c' => k s' ((n, consumed s s') :: c'))

/-- the largest group number -/
def Re.ngroups : Re → Nat
  | .eps | .set _ _ | .any => 0
  | .seq a b | .alt a b => max a.ngroups b.ngroups
  | .opt a | .star a | .plus a => a.ngroups
  | .group n a => max n a.ngroups

/-- the group numbers in the order of their opening parentheses -/
def Re.groupList : Re → List Nat
  | .eps | .set _ _ | .any => []
  | .seq a b | .alt a b => a.groupList ++ b.groupList
  | .opt a | .star a | .plus a => a.groupList
  | .group n a => n :: a.groupList

/-- groups are numbered 1, 2, 3, … by their opening parenthesis -/
def Re.wellNumbered (r : Re) : Bool := r.groupList == (List.range r.groupList.length).map (· + 1)

/-- `re.match(r, s)`: anchored at the start only; the captures of the first (highest-priority) match -/
def regexMatch (r : Re) (s : Str) : Option Caps := matchK r s [] (fun _ c => some c)

/-- `m.groups()` -/
def groupsOf (n : Nat) (c : Caps) : List (Option Str) := (List.range n).map (fun i => c.lookup (i + 1))

/-- `re.match(r, s).groups()` (`none`: no match) -/
def regexGroups (r : Re) (s : Str) : Option (List (Option Str)) := (regexMatch r s).map (groupsOf r.ngroups)

/-! ## concrete syntax -/

/-- one parsing step of a character set body `…]` -/
def parseSet : Nat → Str → Str → Option (Str × Str)
  | 0, _, _ => none
  | _ + 1, _, [] => none
  | _ + 1, acc, 93 :: r => some (acc.reverse, r)                        -- ]
  | fuel + 1, acc, 92 :: x :: r => parseSet fuel (x :: acc) r           -- \x
  | fuel + 1, acc, x :: r => parseSet fuel (x :: acc) r

/-- postfix quantifiers -/
def parsePost : Nat → Re → Str → Re × Str
  | 0, a, s => (a, s)
  | fuel + 1, a, 63 :: r => parsePost fuel (.opt a) r                   -- ?
  | fuel + 1, a, 42 :: r => parsePost fuel (.star a) r                  -- *
  | fuel + 1, a, 43 :: r => parsePost fuel (.plus a) r                  -- +
  | _ + 1, a, s => (a, s)

def seqOf : List Re → Re
  | [] => .eps
  | [a] => a
  | a :: rest => .seq a (seqOf rest)

/-- `parseAlt fuel next s`: an alternation up to `)` or the end of the text; `next` is the number of the next group.
    Returns the expression, the next free group number and the rest of the text.
    `items` collects the current concatenation in reverse. -/
def parseAlt : Nat → Nat → List Re → Str → Option (Re × Nat × Str)
  | 0, _, _, _ => none
  | _ + 1, next, items, [] => some (seqOf items.reverse, next, [])
  | _ + 1, next, items, 41 :: r => some (seqOf items.reverse, next, 41 :: r)          -- ) : the caller consumes it
  | fuel + 1, next, items, 124 :: r =>                                                -- |
    match parseAlt fuel next [] r with
    | some (b, next', r') => some (.alt (seqOf items.reverse) b, next', r')
    | none => none
  | fuel + 1, next, items, 40 :: r =>                                                 -- (
    match parseAlt fuel (next + 1) [] r with
    | some (a, next', 41 :: r') =>
      let (q, r'') := parsePost fuel (.group next a) r'
      parseAlt fuel next' (q :: items) r''
    | _ => none
  | fuel + 1, next, items, 91 :: 94 :: r =>                                           -- [^
    match parseSet fuel [] r with
    | some (l, r') => let (q, r'') := parsePost fuel (.set true l) r'; parseAlt fuel next (q :: items) r''
    | none => none
  | fuel + 1, next, items, 91 :: r =>                                                 -- [
    match parseSet fuel [] r with
    | some (l, r') => let (q, r'') := parsePost fuel (.set false l) r'; parseAlt fuel next (q :: items) r''
    | none => none
  | fuel + 1, next, items, 46 :: r =>                                                 -- .
    let (q, r') := parsePost fuel .any r; parseAlt fuel next (q :: items) r'
  | fuel + 1, next, items, 92 :: x :: r =>                                            -- \x
    let (q, r') := parsePost fuel (.chr x) r; parseAlt fuel next (q :: items) r'
  | fuel + 1, next, items, x :: r =>
    let (q, r') := parsePost fuel (.chr x) r; parseAlt fuel next (q :: items) r'

/-- parse the concrete syntax, numbering the groups from `first` (a leading `^` is accepted and means what `re.match`
    does anyway) -/
def parseReFrom (first : Nat) (text : String) : Option Re :=
  let s := match text.toStr with
    | 94 :: r => r
    | s => s
  match parseAlt (2 * s.length + 2) first [] s with
  | some (r, _, []) => some r
  | _ => none

/-- parse the concrete syntax, groups numbered 1, 2, 3, … -/
def parseRe (text : String) : Option Re := parseReFrom 1 text

/-! ## generic facts about the matcher -/

theorem orElse_none' {α} (x : Option α) : x.orElse (fun _ => none) = x := by cases x <;> rfl

/-- the fuel of `starK` is immaterial once it exceeds the length of the text -/
theorem starK_fuel (m : Str → Caps → K → Option Caps) (f1 f2 : Nat) (s : Str) (c : Caps) (k : K)
    (h1 : s.length < f1) (h2 : s.length < f2) : starK m f1 s c k = starK m f2 s c k := by
  induction f1 generalizing f2 s c with
  | zero => omega
  | succ f1 ih =>
    cases f2 with
    | zero => omega
    | succ f2 =>
      simp only [starK]
      have : (fun s' c' => if s'.length < s.length then starK m f1 s' c' k else none) =
          (fun s' c' => if s'.length < s.length then starK m f2 s' c' k else none) := by
        funext s' c'
        split
        · exact ih f2 s' c' (by omega) (by omega)
        · rfl
      rw [this]

/-- the defining equation of greedy `*`: one more iteration (which must consume something) first, otherwise stop -/
theorem matchK_star (a : Re) (s : Str) (c : Caps) (k : K) :
    matchK (.star a) s c k =
      (matchK a s c (fun s' c' => if s'.length < s.length then matchK (.star a) s' c' k else none)).orElse
        (fun _ => k s c) := by
  have e : ∀ s c k, matchK (.star a) s c k = starK (fun s c k => matchK a s c k) (s.length + 1) s c k :=
    fun _ _ _ => by rw [matchK]
  simp only [e]
  rw [starK]
  congr 2
  funext s' c'
  split
  · exact starK_fuel _ _ _ _ _ _ (by omega) (by omega)
  · rfl

/-- `a+` is `aa*` -/
theorem matchK_plus (a : Re) (s : Str) (c : Caps) (k : K) :
    matchK (.plus a) s c k = matchK (.seq a (.star a)) s c k := by
  simp only [matchK]

/-- one-character matchers -/
def isCls : Re → Option (Nat → Bool)
  | .set neg l => some (inSet neg l)
  | .any => some (fun _ => true)
  | _ => none

theorem matchK_cls {a : Re} {p : Nat → Bool} (h : isCls a = some p) (s : Str) (c : Caps) (k : K) :
    matchK a s c k = match s with
      | x :: r => if p x then k r c else none
      | [] => none := by
  cases a <;> simp only [isCls, Option.some.injEq, reduceCtorEq] at h
  · subst h; cases s <;> simp only [matchK]
  · subst h; cases s <;> simp [matchK]

/-- `[…]*` on a non-empty text -/
theorem star_cls_cons {a : Re} {p : Nat → Bool} (h : isCls a = some p) (x : Nat) (t : Str) (c : Caps) (k : K) :
    matchK (.star a) (x :: t) c k =
      if p x then (matchK (.star a) t c k).orElse (fun _ => k (x :: t) c) else k (x :: t) c := by
  rw [matchK_star, matchK_cls h]
  by_cases hp : p x = true <;> simp [hp]

theorem star_cls_nil {a : Re} {p : Nat → Bool} (h : isCls a = some p) (c : Caps) (k : K) :
    matchK (.star a) [] c k = k [] c := by
  rw [matchK_star, matchK_cls h]; rfl

/-- greedy: when the continuation accepts the LONGEST run, that is the match -/
theorem star_cls_greedy {a : Re} {p : Nat → Bool} (h : isCls a = some p) (s : Str) (c : Caps) (k : K) (r : Caps)
    (hk : k (s.dropWhile p) c = some r) : matchK (.star a) s c k = some r := by
  induction s with
  | nil => rw [star_cls_nil h]; simpa using hk
  | cons x t ih =>
    rw [star_cls_cons h]
    by_cases hp : p x = true
    · simp only [hp, ↓reduceIte]
      rw [ih (by simpa [List.dropWhile_cons, hp] using hk)]; rfl
    · simp only [hp, Bool.false_eq_true, ↓reduceIte]
      simpa [List.dropWhile_cons, hp] using hk

/-- when the continuation rejects every text that starts inside the class, only the longest run is ever tried
    successfully: the result is the continuation on the longest run (backtracking cannot help) -/
theorem star_cls_stop {a : Re} {p : Nat → Bool} (h : isCls a = some p) (s : Str) (c : Caps) (k : K)
    (hk : ∀ x r, p x = true → k (x :: r) c = none) : matchK (.star a) s c k = k (s.dropWhile p) c := by
  induction s with
  | nil => rw [star_cls_nil h]; rfl
  | cons x t ih =>
    rw [star_cls_cons h]
    by_cases hp : p x = true
    · simp only [hp, ↓reduceIte, List.dropWhile_cons]
      rw [ih, hk x t hp, orElse_none']
    · simp only [hp, Bool.false_eq_true, ↓reduceIte, List.dropWhile_cons]

/-- the exact value of `[class]*` under an ARBITRARY continuation: the longest run first, then ever shorter ones -/
def starSpec (p : Nat → Bool) (k : K) (c : Caps) : Str → Option Caps
  | [] => k [] c
  | x :: t => if p x then (starSpec p k c t).orElse (fun _ => k (x :: t) c) else k (x :: t) c

theorem star_cls_spec {a : Re} {p : Nat → Bool} (h : isCls a = some p) (s : Str) (c : Caps) (k : K) :
    matchK (.star a) s c k = starSpec p k c s := by
  induction s with
  | nil => rw [star_cls_nil h]; rfl
  | cons x t ih => rw [star_cls_cons h, ih]; rfl

theorem consumed_dropWhile (p : Nat → Bool) (s : Str) : consumed s (s.dropWhile p) = s.takeWhile p := by
  unfold consumed
  induction s with
  | nil => rfl
  | cons x t ih =>
    by_cases hp : p x = true
    · simp only [List.dropWhile_cons, hp, ↓reduceIte, List.takeWhile_cons, List.length_cons]
      have hl : (t.dropWhile p).length ≤ t.length := by
        have h2 := congrArg List.length (List.takeWhile_append_dropWhile (p := p) (l := t))
        simp only [List.length_append] at h2
        omega
      rw [show t.length + 1 - (t.dropWhile p).length = (t.length - (t.dropWhile p).length) + 1 by omega]
      simp only [List.take_succ_cons, ih]
    · simp [hp]

theorem consumed_self (s : Str) : consumed s s = [] := by simp [consumed]
theorem consumed_nil (s : Str) : consumed s [] = s := by simp [consumed]
theorem consumed_cons_dropWhile (p : Nat → Bool) (x : Nat) (s : Str) :
    consumed (x :: s) (s.dropWhile p) = x :: s.takeWhile p := by
  have hl : (s.dropWhile p).length ≤ s.length := by
    have h2 := congrArg List.length (List.takeWhile_append_dropWhile (p := p) (l := s))
    simp only [List.length_append] at h2
    omega
  have := consumed_dropWhile p s
  unfold consumed at *
  rw [List.length_cons, show s.length + 1 - (s.dropWhile p).length = (s.length - (s.dropWhile p).length) + 1 by omega]
  simp only [List.take_succ_cons, this]

end Yarl.Regex
