import YarlModel
import YarlProofs.Lemmas.PathLemmas
import Lean.Elab.Tactic
import Lean.Meta.Tactic.Split
/-
  ErrLemmas.lean — a small "error-kind" logic for the `Except PyErr` monad:
  `Errs P x` says "if `x` fails, the error satisfies `P`".  It is compositional
  over `pure`, `bind`, `map`, `if`, `match` and `List.mapM`, so the C19 proofs
  are a syntactic walk over each model function.
-/
namespace Yarl

/-- the exception kinds a public entry point may raise (`oracleMiss` is the driver
    asking the harness for a table entry, not a Python exception) -/
def Allowed (e : PyErr) : Prop := e = .valueError ∨ e = .typeError ∨ ∃ f a, e = .oracleMiss f a

namespace ErrLemmas

/-- ValueError or an oracle request -/
def VO (e : PyErr) : Prop := e = .valueError ∨ ∃ f a, e = .oracleMiss f a
/-- TypeError or ValueError -/
def TV (e : PyErr) : Prop := e = .typeError ∨ e = .valueError
/-- nothing: the computation is total -/
def Never (_ : PyErr) : Prop := False

/-- `Errs P x`: a failure of `x` satisfies `P` -/
def Errs {α} (P : PyErr → Prop) : R α → Prop
  | .ok _ => True
  | .error e => P e

theorem Errs.iff {α} {P : PyErr → Prop} {x : R α} : Errs P x ↔ ∀ err, x = .error err → P err := by
  cases x with
  | ok a => simp [Errs]
  | error e => simp [Errs]

theorem Errs.elim {α} {P : PyErr → Prop} {x : R α} (h : Errs P x) {err} (hx : x = .error err) : P err :=
  Errs.iff.1 h err hx

theorem Errs.total {α} {x : R α} (h : Errs Never x) : ∃ a, x = .ok a := by
  cases x with
  | ok a => exact ⟨a, rfl⟩
  | error e => exact absurd h (by simp [Errs, Never])

theorem Errs.mono {α} {P Q : PyErr → Prop} {x : R α} (hPQ : ∀ e, P e → Q e) (h : Errs P x) : Errs Q x := by
  cases x with
  | ok a => trivial
  | error e => exact hPQ e h

theorem Errs.pure {α} {P : PyErr → Prop} (a : α) : Errs P (Pure.pure a : R α) := trivial
theorem Errs.ok {α} {P : PyErr → Prop} (a : α) : Errs P (.ok a : R α) := trivial
theorem Errs.error {α} {P : PyErr → Prop} {e : PyErr} (h : P e) : Errs P (.error e : R α) := h

theorem Errs.bind {α β} {P : PyErr → Prop} {x : R α} {f : α → R β}
    (hx : Errs P x) (hf : ∀ a, Errs P (f a)) : Errs P (x >>= f) := by
  cases x with
  | ok a => exact hf a
  | error e => exact hx

theorem Errs.map {α β} {P : PyErr → Prop} {x : R α} {f : α → β}
    (hx : Errs P x) : Errs P (Except.map f x) := by
  cases x with
  | ok a => trivial
  | error e => exact hx

theorem Errs.fmap {α β} {P : PyErr → Prop} {x : R α} {f : α → β}
    (hx : Errs P x) : Errs P (f <$> x) := Errs.map hx

theorem Errs.mapM {α β} {P : PyErr → Prop} {f : α → R β} (hf : ∀ a, Errs P (f a)) :
    ∀ l : List α, Errs P (l.mapM f)
  | [] => by simp only [List.mapM_nil]; exact Errs.pure _
  | a :: l => by
    simp only [List.mapM_cons]
    exact Errs.bind (hf a) (fun b => Errs.bind (Errs.mapM hf l) (fun bs => Errs.pure _))

theorem Errs.ite {α} {P : PyErr → Prop} {c : Prop} [Decidable c] {x y : R α}
    (hx : c → Errs P x) (hy : ¬c → Errs P y) : Errs P (if c then x else y) := by
  split
  · exact hx ‹_›
  · exact hy ‹_›

/-- the `bind_err` form suggested in the task -/
theorem bind_err {α β} {x : R α} {f : α → R β} {P : PyErr → Prop}
    (hx : ∀ err, x = .error err → P err) (hf : ∀ a err, f a = .error err → P err) :
    ∀ err, (x >>= f) = .error err → P err :=
  Errs.iff.1 (Errs.bind (Errs.iff.2 hx) (fun a => Errs.iff.2 (hf a)))

/-- inclusion of error-kind predicates, found by instance search -/
class Sub (P Q : PyErr → Prop) : Prop where
  sub : ∀ e, P e → Q e

instance : Sub VO VO := ⟨fun _ h => h⟩
instance : Sub TV TV := ⟨fun _ h => h⟩
instance : Sub Allowed Allowed := ⟨fun _ h => h⟩
instance : Sub VO Allowed := ⟨fun _ h => h.elim Or.inl (fun h => Or.inr (Or.inr h))⟩
instance : Sub TV Allowed := ⟨fun _ h => h.elim (fun h => Or.inr (Or.inl h)) Or.inl⟩
instance {P} : Sub Never P := ⟨fun _ h => h.elim⟩

theorem Errs.sub {α} {P Q : PyErr → Prop} [Sub P Q] {x : R α} (h : Errs P x) : Errs Q x :=
  Errs.mono Sub.sub h

theorem vo_value {Q} [Sub VO Q] : Q .valueError := Sub.sub (P := VO) _ (Or.inl rfl)
theorem vo_oracle {Q} [Sub VO Q] (f a) : Q (.oracleMiss f a) := Sub.sub (P := VO) _ (Or.inr ⟨f, a, rfl⟩)
theorem tv_value {Q} [Sub TV Q] : Q .valueError := Sub.sub (P := TV) _ (Or.inr rfl)
theorem tv_type {Q} [Sub TV Q] : Q .typeError := Sub.sub (P := TV) _ (Or.inl rfl)

theorem Errs.ask {α} {Q} [Sub VO Q] (fn : String) (arg : Str) (o : Option α) : Errs Q (ask fn arg o) := by
  cases o with
  | none => exact vo_oracle _ _
  | some a => trivial

/-- leaves of the walk; extended by `macro_rules` as callee lemmas become available -/
syntax "errs_leaf" : tactic
macro_rules | `(tactic| errs_leaf) => `(tactic| with_reducible exact Errs.pure _)
macro_rules | `(tactic| errs_leaf) => `(tactic| with_reducible exact Errs.ok _)
macro_rules | `(tactic| errs_leaf) => `(tactic| with_reducible exact Errs.error vo_value)
macro_rules | `(tactic| errs_leaf) => `(tactic| with_reducible exact Errs.error tv_value)
macro_rules | `(tactic| errs_leaf) => `(tactic| with_reducible exact Errs.error tv_type)
macro_rules | `(tactic| errs_leaf) => `(tactic| with_reducible exact Errs.ask _ _ _)
macro_rules | `(tactic| errs_leaf) => `(tactic| assumption)

open Lean Elab Tactic Meta in
/-- split the `match` at the head of the computation in an `Errs P (match …)` goal
    (plain `split` may pick a `match` nested in a pure sub-term instead) -/
elab "split_head" : tactic => liftMetaTactic fun g => do
  let t ← instantiateMVars (← g.getType)
  unless t.isAppOfArity ``Yarl.ErrLemmas.Errs 3 do throwError "split_head: not an Errs goal"
  let x := t.appArg!
  unless (← isMatcherApp x) do throwError "split_head: no match at the head"
  Split.splitMatch g x

/-- one step of the walk -/
syntax "errs_step" : tactic
macro_rules | `(tactic| errs_step) => `(tactic| first
  | errs_leaf
  | with_reducible apply Errs.bind
  | with_reducible apply Errs.map
  | with_reducible apply Errs.fmap
  | with_reducible apply Errs.mapM
  | intro _
  | with_reducible apply Errs.ite
  | split_head
  | dsimp only)

/-- the whole walk -/
macro "errs" : tactic => `(tactic| repeat' errs_step)

end ErrLemmas
end Yarl

