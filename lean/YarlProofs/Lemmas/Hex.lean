import YarlProofs.Defs
namespace Yarl.Hex
open Yarl

theorem fromHex_of_not_az (c : Nat) (h : isAZ09 (upperAZ c) = false) : fromHex c = none := by
  unfold isAZ09 upperAZ at h
  unfold fromHex
  split at h <;> simp at h <;> (repeat' split) <;> first | rfl | omega

theorem hexValUpper_upper (c : Nat) (h : isAZ09 (upperAZ c) = true) :
    hexValUpper (upperAZ c) = fromHex c := by
  unfold isAZ09 upperAZ at h
  unfold fromHex hexValUpper upperAZ
  split at h <;> simp at h <;> (repeat' split) <;> first | rfl | omega | (congr 1; omega)

theorem restorePy_eq_restoreCh (b1 b2 : Nat) : restorePy b1 b2 = restoreCh b1 b2 := by
  simp only [restorePy, restoreCh]
  cases h1 : isAZ09 (upperAZ b1) <;> cases h2 : isAZ09 (upperAZ b2) <;>
    simp only [Bool.and_self, Bool.and_true, Bool.and_false, Bool.false_eq_true, if_false, if_true]
  · rw [fromHex_of_not_az _ h1]
  · rw [fromHex_of_not_az _ h1]
  · rw [fromHex_of_not_az _ h2]; split <;> simp_all
  · rw [hexValUpper_upper _ h1, hexValUpper_upper _ h2]


theorem fromHex_lt {d a : Nat} (h : fromHex d = some a) : a < 16 := by
  unfold fromHex at h
  repeat' split at h
  all_goals simp at h
  all_goals omega

theorem toHex_fromHex {d a : Nat} (h : fromHex d = some a) (hl : isLowerHex d = false) :
    toHex a = d := by
  unfold fromHex at h
  unfold isLowerHex at hl
  unfold toHex
  simp at hl
  repeat' split at h
  all_goals simp at h
  all_goals split <;> omega

theorem fromHex_none_of_ge {b : Nat} (h : 128 ≤ b) : fromHex b = none := by
  unfold fromHex
  repeat' split
  all_goals first | rfl | omega

theorem restoreCh_none_left {b1 : Nat} (b2 : Nat) (h : fromHex b1 = none) : restoreCh b1 b2 = none := by
  simp [restoreCh, h]

theorem restoreCh_none_right (b1 : Nat) {b2 : Nat} (h : fromHex b2 = none) : restoreCh b1 b2 = none := by
  unfold restoreCh
  split <;> simp_all

theorem restoreCh_some {d1 d2 v : Nat} (h : restoreCh d1 d2 = some v) :
    ∃ a b, fromHex d1 = some a ∧ fromHex d2 = some b ∧ v = a * 16 + b := by
  unfold restoreCh at h
  split at h
  · rename_i a b ha hb
    simp at h
    exact ⟨a, b, ha, hb, h.symm⟩
  · simp at h

theorem pct_of_restoreCh {d1 d2 v : Nat} (h : restoreCh d1 d2 = some v)
    (h1 : isLowerHex d1 = false) (h2 : isLowerHex d2 = false) : pct v = [37, d1, d2] := by
  obtain ⟨a, b, ha, hb, rfl⟩ := restoreCh_some h
  have := fromHex_lt ha
  have := fromHex_lt hb
  have e1 : (a * 16 + b) / 16 = a := by omega
  have e2 : (a * 16 + b) % 16 = b := by omega
  simp only [pct, e1, e2, toHex_fromHex ha h1, toHex_fromHex hb h2]

theorem restoreCh_lt {d1 d2 v : Nat} (h : restoreCh d1 d2 = some v) : v < 256 := by
  obtain ⟨a, b, ha, hb, rfl⟩ := restoreCh_some h
  have := fromHex_lt ha
  have := fromHex_lt hb
  omega

theorem restoreCh_ascii {d1 d2 v : Nat} (h : restoreCh d1 d2 = some v) : d1 < 128 ∧ d2 < 128 := by
  obtain ⟨a, b, ha, hb, rfl⟩ := restoreCh_some h
  refine ⟨?_, ?_⟩
  · apply Nat.lt_of_not_le; intro hge; rw [fromHex_none_of_ge hge] at ha; cases ha
  · apply Nat.lt_of_not_le; intro hge; rw [fromHex_none_of_ge hge] at hb; cases hb

end Yarl.Hex
