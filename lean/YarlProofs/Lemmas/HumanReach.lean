/-
  HumanReach.lean — helper lemmas for C18Reach.lean: every modifier of the public API, applied with DECODED
  arguments to a URL object that stores the encodings of decoded components (`HumanMore.Stores`), gives a URL
  object that stores the encodings of the (updated) decoded components.
-/
import YarlProofs.C18More
import YarlProofs.C13More
import YarlProofs.C12Url
import YarlProofs.C01Reach
set_option linter.unusedVariables false
set_option linter.unusedSimpArgs false
set_option linter.unusedSectionVars false
namespace Yarl
namespace HumanReach

open HumanLemmas HumanFull HumanMore QueryUrl QsLemmas NetlocLemmas PathAlg PathLemmas PathMore

/-! ## the netloc accessors of a URL that stores encodings -/

section net
variable (e : Env) (u : Url) (user pw : Option Str) (H : Str) (port : Option Nat)
  (p : Str) (kvs : List (Str × Str)) (f : Str) (st : Stores e u user pw H port p kvs f)
  (hu : UText user) (hune : ∀ s, user = some s → s ≠ []) (hH : HostOK H)
  (hport : ∀ x, port = some x → x ≤ 65535)
include st hu hune hH hport

theorem acc :
    rawUser e u = .ok (user.map (q e Gen.QUOTER)) ∧ rawPassword e u = .ok (pw.map (q e Gen.QUOTER)) ∧
    hostSubcomponent e u = .ok (some (bracket H)) ∧ explicitPort e u = .ok port ∧ u.netloc.isEmpty = false := by
  have hnet := net_of_stores e u user pw H port p kvs f st (userOK_quoted e user hu hune) hH hport
  refine ⟨?_, ?_, ?_, ?_, ?_⟩
  · unfold rawUser; rw [hnet]; rfl
  · unfold rawPassword; rw [hnet]; rfl
  · unfold hostSubcomponent rawHost; rw [hnet]; rfl
  · unfold explicitPort; rw [hnet]; rfl
  · rw [st.netloc]; exact HumanLemmas.isEmpty_false (authText_ne_nil _ _ hH.1 _)

/-- `with_password(pw')` (`None` removes the password, `""` stores the empty password) -/
theorem stores_withPassword (pw' : Option Str) :
    ∃ v, withPassword e u pw' = .ok v ∧ v.scheme = u.scheme ∧ Stores e v user pw' H port p kvs f := by
  obtain ⟨hU, hP, hHs, hE, hnl⟩ := acc e u user pw H port p kvs f st hu hune hH hport
  refine ⟨fromParts u.scheme (authText (user.map (q e Gen.QUOTER)) (pw'.map (q e Gen.QUOTER)) H port)
    u.path u.query u.fragment, ?_, rfl, ⟨rfl, fun pr h => (by cases h), st.path, st.query, st.fragment⟩⟩
  unfold withPassword
  simp only [hnl, hHs, hE, hU, bind, Except.bind, pure, Except.pure, Bool.false_eq_true, if_false,
    Option.getD_some, authText, makeNetloc_qf (q e Gen.QUOTER) id]

/-- `with_host(h')` for a host `h'` that `_encode_host` stores as `H'` -/
theorem stores_withHost (h' H' : Str) (hne : h' ≠ []) (henc : encodeHost e.o h' true = .ok (bracket H')) :
    ∃ v, withHost e u h' = .ok v ∧ v.scheme = u.scheme ∧ Stores e v user pw H' port p kvs f := by
  obtain ⟨hU, hP, hHs, hE, hnl⟩ := acc e u user pw H port p kvs f st hu hune hH hport
  refine ⟨fromParts u.scheme (authText (user.map (q e Gen.QUOTER)) (pw.map (q e Gen.QUOTER)) H' port)
    u.path u.query u.fragment, ?_, rfl, ⟨rfl, fun pr h => (by cases h), st.path, st.query, st.fragment⟩⟩
  unfold withHost
  simp only [hnl, HumanLemmas.isEmpty_false hne, henc, hE, hU, hP, bind, Except.bind, pure, Except.pure,
    Bool.false_eq_true, if_false, authText, makeNetloc_qf (q e Gen.QUOTER) id]

/-- `with_port(port')`: the port given is stored AS IS (also the scheme's default port, also 0); `None` removes it -/
theorem stores_withPort (port' : Option Nat) (hr : ∀ x, port' = some x → x ≤ 65535) :
    ∃ v, withPort e u (port'.map Int.ofNat) 0 = .ok v ∧ v.scheme = u.scheme ∧
      Stores e v user pw H port' p kvs f := by
  obtain ⟨hU, hP, hHs, hE, hnl⟩ := acc e u user pw H port p kvs f st hu hune hH hport
  refine ⟨fromParts u.scheme (authText (user.map (q e Gen.QUOTER)) (pw.map (q e Gen.QUOTER)) H port')
    u.path u.query u.fragment, ?_, rfl, ⟨rfl, fun pr h => (by cases h), st.path, st.query, st.fragment⟩⟩
  unfold withPort
  cases port' with
  | none =>
    simp only [hnl, hHs, hU, hP, bind, Except.bind, pure, Except.pure, Bool.false_eq_true, if_false,
      Option.getD_some, authText, makeNetloc_qf (q e Gen.QUOTER) id, Option.map_none, ne_eq, not_true_eq_false]
  | some n =>
    have hrange : ((0 : Int) ≤ Int.ofNat n ∧ Int.ofNat n ≤ 65535) :=
      ⟨Int.natCast_nonneg n, Int.ofNat_le.mpr (hr n rfl)⟩
    have htn : (Int.ofNat n).toNat = n := rfl
    simp only [hnl, hHs, hU, hP, bind, Except.bind, pure, Except.pure, Bool.false_eq_true, if_false,
      Option.getD_some, authText, makeNetloc_qf (q e Gen.QUOTER) id, Option.map_some, ne_eq, not_true_eq_false,
      hrange, decide_true, Bool.not_true, htn, and_self]

/-- `origin()`: user, password, path, query and fragment are dropped; host and port are kept -/
theorem stores_origin (hsc : u.scheme ≠ []) :
    ∃ v, origin e u = .ok v ∧ v.scheme = u.scheme ∧ Stores e v none none H port [] [] [] := by
  obtain ⟨hU, hP, hHs, hE, hnl⟩ := acc e u user pw H port p kvs f st hu hune hH hport
  have hsc' := HumanLemmas.isEmpty_false hsc
  unfold origin
  simp only [hnl, hsc', Bool.false_eq_true, if_false]
  by_cases h64 : mem 64 u.netloc = true
  · refine ⟨fromParts u.scheme (authText none none H port) [] [] [], ?_, rfl,
      ⟨rfl, fun pr h => (by cases h), Or.inr ⟨rfl, rfl⟩, rfl, rfl⟩⟩
    simp only [h64, if_true, hHs, hE, bind, Except.bind, pure, Except.pure, authText,
      makeNetloc_qf (q e Gen.QUOTER) id]
  · -- no '@' in the netloc: there is neither a user nor a password
    have hnone : user = none ∧ pw = none := by
      have h64' : 64 ∉ u.netloc := by
        rw [ParseLemmas.mem_eq] at h64; simpa using h64
      rw [st.netloc, FixLemmas.authText_eq] at h64'
      have hpre : 64 ∉ FixLemmas.userPrefix (user.map (q e Gen.QUOTER)) (pw.map (q e Gen.QUOTER)) :=
        fun hm => h64' (List.mem_append_left _ hm)
      cases user with
      | none =>
        cases pw with
        | none => exact ⟨rfl, rfl⟩
        | some w => exact absurd (by simp [FixLemmas.userPrefix]) hpre
      | some us =>
        exfalso
        cases pw with
        | some w => exact hpre (by simp [FixLemmas.userPrefix])
        | none =>
          have hne : (q e Gen.QUOTER us).isEmpty = false :=
            HumanLemmas.isEmpty_false (quoter_ne_nil e us (hu us rfl).1 (hu us rfl).2 (hune us rfl))
          exact hpre (by simp [FixLemmas.userPrefix, hne])
    obtain ⟨rfl, rfl⟩ := hnone
    simp only [h64, if_false, Bool.false_eq_true]
    split
    · rename_i hall
      simp only [Bool.and_eq_true, List.isEmpty_iff] at hall
      refine ⟨u, rfl, rfl, ⟨st.netloc, st.pre, Or.inr ⟨hall.1.1, rfl⟩, hall.1.2, hall.2⟩⟩
    · exact ⟨fromParts u.scheme u.netloc [] [] [], rfl, rfl,
        ⟨st.netloc, fun pr h => (by cases h), Or.inr ⟨rfl, rfl⟩, rfl, rfl⟩⟩

end net

/-! ## scheme, path, query -/

section mods
variable (e : Env) (u : Url) (user pw : Option Str) (H : Str) (port : Option Nat)
  (p : Str) (kvs : List (Str × Str)) (f : Str) (st : Stores e u user pw H port p kvs f) (hH : H ≠ [])
include st hH

theorem netloc_ne : u.netloc.isEmpty = false := by
  rw [st.netloc]; exact HumanLemmas.isEmpty_false (authText_ne_nil _ _ hH _)

/-- `with_scheme(SC)` for a scheme text in any case: stored lower-case; the netloc — also a port that is the
    default of the NEW scheme — is kept as it is -/
theorem stores_withScheme (SC : Str) (hSC : SchemeText SC) :
    ∃ v, withScheme e u SC = .ok v ∧ v.scheme = lower SC ∧ Stores e v user pw H port p kvs f := by
  have hnl := netloc_ne e u user pw H port p kvs f st hH
  refine ⟨fromParts (lower SC) u.netloc u.path u.query u.fragment, ?_, rfl,
    ⟨st.netloc, fun pr h => (by cases h), st.path, st.query, st.fragment⟩⟩
  unfold withScheme
  simp only [lowerAny_schemeText e hSC, hnl, bind, Except.bind, Bool.false_and, Bool.false_eq_true, if_false]
  rfl

/-- the decoded path (without the leading "/") that `with_path(s)` stores: `s` made rooted, dot segments removed -/
def pathArgTail : Str → Str
  | [] => []
  | 47 :: r => normTail r
  | c :: r => normTail (c :: r)

theorem pathArgTail_good {s : Str} (hs : PyStr s) (hn : NoSurrogate s) :
    PyStr (47 :: pathArgTail s) ∧ NoSurrogate (47 :: pathArgTail s) ∧
      normalizePath (47 :: pathArgTail s) = 47 :: pathArgTail s := by
  have h47 : PyStr (47 :: s) ∧ NoSurrogate (47 :: s) := by
    refine ⟨fun c hc => ?_, fun c hc => ?_⟩
    · rcases List.mem_cons.mp hc with rfl | hc
      · decide
      · exact hs c hc
    · rcases List.mem_cons.mp hc with rfl | hc
      · decide
      · exact hn c hc
  unfold pathArgTail
  split
  · exact ⟨by decide, by decide, by decide⟩
  · exact ⟨(good_normalizePath hs hn).1, (good_normalizePath hs hn).2, normTail_normal _⟩
  · exact ⟨(good_normalizePath h47.1 h47.2).1, (good_normalizePath h47.1 h47.2).2, normTail_normal _⟩

/-- `with_path(s)` (`encoded=False`) for ANY decoded text `s` — empty, rooted or not, dot segments allowed;
    `keep_query` / `keep_fragment` keep or drop query and fragment -/
theorem stores_withPath (s : Str) (hs : PyStr s) (hn : NoSurrogate s) (kq kf : Bool) :
    Stores e (withPath e u s false kq kf) user pw H port (pathArgTail s)
      (if kq then kvs else []) (if kf then f else []) := by
  have hnl := netloc_ne e u user pw H port p kvs f st hH
  have hq : (if kq then u.query else []) = qtext e.b (if kq then kvs else []) := by
    cases kq
    · rfl
    · exact st.query
  have hfr : (if kf then u.fragment else []) =
      (if (if kf then f else []).isEmpty then (if kf then f else []) else
        q e Gen.FRAGMENT_QUOTER (if kf then f else [])) := by
    cases kf
    · rfl
    · exact st.fragment
  cases s with
  | nil =>
    refine ⟨st.netloc, fun pr h => (by cases h), Or.inr ⟨?_, rfl⟩, hq, hfr⟩
    simp [withPath, q_nil, fromParts, mem]
  | cons c r =>
    by_cases hc : c = 47
    · subst hc
      refine ⟨st.netloc, fun pr h => (by cases h), Or.inl ?_, hq, hfr⟩
      have h1 := stored_path e r hs hn
      have h2 := q_path_cons_slash e r hs hn
      have h3 := q_path_cons_slash e (normTail r) (good_normalizePath hs hn).1 (good_normalizePath hs hn).2
      rw [normalizePath_rooted] at h1
      show (withPath e u (47 :: r) false kq kf).path = q e Gen.PATH_QUOTER (47 :: normTail r)
      simp only [withPath, fromParts, hnl, Bool.not_false, Bool.true_and, Bool.not_true, Bool.false_eq_true,
        if_false, h2]
      rw [h2] at h1
      rw [h1, h3]
      simp
    · have h47 : PyStr (47 :: c :: r) ∧ NoSurrogate (47 :: c :: r) := by
        refine ⟨fun x hx => ?_, fun x hx => ?_⟩
        · rcases List.mem_cons.mp hx with rfl | hx
          · decide
          · exact hs x hx
        · rcases List.mem_cons.mp hx with rfl | hx
          · decide
          · exact hn x hx
      refine ⟨st.netloc, fun pr h => (by cases h), Or.inl ?_, hq, hfr⟩
      have hhead := PathMore.q_path_head e (c :: r) hs hn (by simpa using hc)
      have h1 := stored_path e (c :: r) h47.1 h47.2
      have h2 := q_path_cons_slash e (c :: r) h47.1 h47.2
      have h3 := q_path_cons_slash e (normTail (c :: r)) (good_normalizePath h47.1 h47.2).1
        (good_normalizePath h47.1 h47.2).2
      rw [normalizePath_rooted, h2] at h1
      have hpt : pathArgTail (c :: r) = normTail (c :: r) := by
        unfold pathArgTail
        split
        · rename_i heq; cases heq
        · rename_i heq; cases heq; exact absurd rfl hc
        · rename_i heq; cases heq; rfl
      rw [hpt]
      show (withPath e u (c :: r) false kq kf).path = q e Gen.PATH_QUOTER (47 :: normTail (c :: r))
      have hm : mem 46 (47 :: q e Gen.PATH_QUOTER (c :: r)) = mem 46 (q e Gen.PATH_QUOTER (c :: r)) := by
        simp [mem]
      rw [hm] at h1
      generalize hQ : q e Gen.PATH_QUOTER (c :: r) = Q at h1 hhead
      simp only [withPath, fromParts, hnl, Bool.not_false, Bool.true_and, Bool.not_true, Bool.false_eq_true,
        if_false, hQ]
      cases Q with
      | nil =>
        exact absurd hQ (C13_path_quoter_nonempty e (c :: r) hs hn (by simp))
      | cons x xs =>
        have hx : x ≠ 47 := by simpa using hhead
        by_cases hm46 : mem 46 (x :: xs) = true
        · simp only [hm46, if_true] at h1 ⊢
          simp [hx, h1, h3]
        · simp only [hm46, if_false, Bool.false_eq_true] at h1 ⊢
          rw [← h1]
          simp [hx]

end mods

/-! ## the query modifiers -/

theorem joinC_append_gen (c : Nat) (A B : List Str) (hA : A ≠ []) (hB : B ≠ []) :
    joinC c (A ++ B) = joinC c A ++ c :: joinC c B := by
  obtain ⟨a, A', rfl⟩ := List.exists_cons_of_ne_nil hA
  rw [List.cons_append, HostLemmas.joinC_cons, HostLemmas.joinC_cons, HostLemmas.flatC_append,
    HostLemmas.flatC_eq_joinC c B hB, List.append_assoc]

theorem qtext_append (b : Backend) (A B : List (Str × Str)) (hA : A ≠ []) (hB : B ≠ []) :
    qtext b (A ++ B) = qtext b A ++ [38] ++ qtext b B := by
  unfold qtext
  rw [List.map_append, joinC_append_gen 38 _ _ (by simpa using hA) (by simpa using hB)]
  simp

theorem getLast?_append_ne {α : Type} (a b : List α) (h : b ≠ []) : (a ++ b).getLast? = b.getLast? := by
  rw [List.getLast?_append]
  cases hb : b.getLast? with
  | none => simp_all
  | some x => simp

theorem qtext_last (b : Backend) (A : List (Str × Str)) (hg : GoodPairs A) : (qtext b A).getLast? ≠ some 38 := by
  rcases List.eq_nil_or_concat A with rfl | ⟨init, x, rfl⟩
  · simp [qtext]
  · rw [List.concat_eq_append] at hg ⊢
    have hx : 38 ∉ pairText b x := pairText_no_amp b x (hg x (by simp)).1.1 (hg x (by simp)).2.1
    have hne : pairText b x ≠ [] := by simp [pairText]
    have hlast : (qtext b (init ++ [x])).getLast? = (pairText b x).getLast? := by
      by_cases hi : init = []
      · subst hi; simp [qtext, joinC, joinSep]
      · rw [qtext_append b init [x] hi (by simp)]
        have : qtext b [x] = pairText b x := by simp [qtext, joinC, joinSep]
        rw [this, getLast?_append_ne _ _ hne]
    rw [hlast]
    intro h
    exact hx (List.mem_of_getLast? h)

section qmods
variable (e : Env) (u : Url) (user pw : Option Str) (H : Str) (port : Option Nat)
  (p : Str) (kvs : List (Str × Str)) (f : Str) (st : Stores e u user pw H port p kvs f) (hg : GoodPairs kvs)
include st hg

/-- `extend_query(a)` for an argument that renders to the text of the pairs `kvs'`: they are appended -/
theorem stores_extendQuery (a : QArg) (kvs' : List (Str × Str))
    (ha : getStrQuery e.b a = .ok (some (qtext e.b kvs'))) :
    ∃ v, extendQuery e u a = .ok v ∧ v.scheme = u.scheme ∧ Stores e v user pw H port p (kvs ++ kvs') f := by
  by_cases hk' : kvs' = []
  · subst hk'
    refine ⟨u, ?_, rfl, by simpa using st⟩
    unfold extendQuery
    rw [ha]
    rfl
  · refine ⟨_, extendQuery_of e u a _ ha (qtext_ne_nil e.b kvs' hk'), rfl,
      ⟨st.netloc, fun pr h => (by cases h), st.path, ?_, st.fragment⟩⟩
    show (if (!u.query.isEmpty) = true then _ else _) = _
    rw [st.query]
    by_cases hk : kvs = []
    · subst hk; simp [qtext]
    · have hne := HumanLemmas.isEmpty_false (qtext_ne_nil e.b kvs hk)
      simp only [hne, Bool.not_false, if_true, if_neg (qtext_last e.b kvs hg)]
      exact (qtext_append e.b kvs kvs' hk hk').symm

/-- `update_query(pairs)`: `MultiDict(old pairs).update(new pairs)` -/
theorem stores_updateQuery (kvs' : List (Str × Str)) (hg' : GoodPairs kvs') :
    ∃ v, updateQuery e u (.pairs (strItems kvs')) = .ok v ∧ v.scheme = u.scheme ∧
      Stores e v user pw H port p (mdUpdate kvs kvs') f := by
  have hqp : queryPairs u = kvs := by
    unfold queryPairs; rw [st.query]; exact parse_qtext e.b kvs hg
  cases kvs' with
  | nil =>
    refine ⟨fromParts u.scheme u.netloc u.path u.query u.fragment, rfl, rfl,
      ⟨st.netloc, fun pr h => (by cases h), st.path, ?_, st.fragment⟩⟩
    rw [C12_update_nil]; exact st.query
  | cons x xs =>
    obtain ⟨hs2, h2⟩ := expand_mdUpdate (queryPairs u) (x :: xs) (strItems (x :: xs))
      (singleValued_strItems _) (expandItems_strItems _)
    rw [C12_update_query_pairs e u (strItems (x :: xs)) (by simp [strItems]), iter_render e.b _ _ hs2 h2, hqp]
    exact ⟨_, rfl, rfl, ⟨st.netloc, fun pr h => (by cases h), st.path, rfl, st.fragment⟩⟩

/-- `without_query_params(*names)`: the pairs whose key is named are removed -/
theorem stores_withoutQueryParams (names : List Str) :
    ∃ v, withoutQueryParams e u names = .ok v ∧ v.scheme = u.scheme ∧
      Stores e v user pw H port p (kvs.filter (fun kv => !names.contains kv.1)) f := by
  have hqp : queryPairs u = kvs := by
    unfold queryPairs; rw [st.query]; exact parse_qtext e.b kvs hg
  rw [C12_without_query_params_removes, hqp]
  split
  · rename_i hemp
    have hnil : names.filter (fun n => kvs.any (·.1 = n)) = [] := by
      cases hf : names.filter (fun n => kvs.any (·.1 = n)) with
      | nil => rfl
      | cons a b => rw [hf] at hemp; simp at hemp
    rw [List.filter_eq_nil_iff] at hnil
    have hself : kvs.filter (fun kv => !names.contains kv.1) = kvs := by
      rw [List.filter_eq_self]
      intro kv hkv
      by_cases hn : kv.1 ∈ names
      · exact absurd (by simp only [List.any_eq_true, decide_eq_true_eq]; exact ⟨kv, hkv, rfl⟩) (hnil kv.1 hn)
      · simp [hn]
    rw [hself]
    exact ⟨u, rfl, rfl, st⟩
  · exact ⟨_, withQuery_of e u _ _ (getStrQuery_strItems e.b _), rfl,
      ⟨st.netloc, fun pr h => (by cases h), st.path, rfl, st.fragment⟩⟩

end qmods

/-! ## the path modifiers: `with_name`, `with_suffix`, `parent`, `joinpath` -/

/-- PATH_QUOTER as a character map -/
abbrev G (e : Env) (s : Str) : Str := s.flatMap (wq (Gen.PATH_QUOTER.tab e.b))

theorem good_of_mem {s : Str} (h : ∀ c ∈ s, c ≤ 0x10FFFF ∧ isSurrogate c = false) : PyStr s ∧ NoSurrogate s :=
  ⟨fun c hc => (h c hc).1, fun c hc => (h c hc).2⟩

theorem good_47 : (47 : Nat) ≤ 0x10FFFF ∧ isSurrogate 47 = false := by decide

theorem withRawName_pre (u : Url) (nm : Str) (kq kf : Bool) (v : Url) (h : withRawName u nm kq kf = .ok v) :
    v.pre = none := by
  unfold withRawName at h
  obtain ⟨x, _, h⟩ := DecLemmas.bind_ok h
  cases h; rfl

theorem withRawName_total (u : Url) (nm : Str) (kq kf : Bool) (hnl : u.netloc.isEmpty = false) :
    ∃ v, withRawName u nm kq kf = .ok v := by
  unfold withRawName
  simp only [hnl, Bool.not_false, if_true, bind, Except.bind, pure, Except.pure]
  exact ⟨_, rfl⟩

/-- the decoded path (without the leading "/") after `with_name(nm)`: the last segment is replaced -/
def nameTail (p nm : Str) : Str := joinC 47 ((splitOn 47 p).dropLast ++ [nm])

/-- the last segment of the decoded path: the decoded `name` -/
def lastSeg (p : Str) : Str := ((splitOn 47 p).getLast?).getD []

/-- the name without its suffix -/
def stem (nm : Str) : Str := nm.take (nm.length - (sfx nm).length)

/-- the decoded path (without the leading "/") after `parent` -/
def parentTail (p : Str) : Str := joinC 47 (splitOn 47 p).dropLast

theorem stem_sub (nm : Str) : ∀ c ∈ stem nm, c ∈ nm := fun c hc => List.mem_of_mem_take hc

theorem segs_nameList (p nm : Str) (h47 : 47 ∉ nm) : Segs ((splitOn 47 p).dropLast ++ [nm]) :=
  segs_append (segs_dropLast (segs_splitOn p)) (segs_single h47)

theorem nameTail_mem (p nm : Str) : ∀ c ∈ nameTail p nm, c = 47 ∨ c ∈ p ∨ c ∈ nm := by
  intro c hc
  rcases HostLemmas.mem_joinC hc with rfl | ⟨seg, hseg, hcs⟩
  · exact Or.inl rfl
  · rcases List.mem_append.mp hseg with h | h
    · exact Or.inr (Or.inl (splitOn_sub 47 p seg (List.dropLast_subset _ h) c hcs))
    · simp only [List.mem_singleton] at h; subst h; exact Or.inr (Or.inr hcs)

theorem noDots_tail_of_norm {p : Str} (hnorm : normalizePath (47 :: p) = 47 :: p) : NoDots (splitOn 47 p) := by
  have := EntryLemmas.noDotSegments_normalizePath (47 :: p)
  rw [hnorm] at this
  intro s hs
  exact this s (by simp [splitOn, hs])

theorem norm_of_noDots {p : Str} (h : NoDots (splitOn 47 p)) : normalizePath (47 :: p) = 47 :: p := by
  apply FixLemmas.normalizePath_noDotSegs
  intro s hs
  simp only [splitOn, if_true, List.mem_cons] at hs
  rcases hs with rfl | hs
  · simp [dot, dotdot]
  · exact h s hs

theorem nameTail_norm (p nm : Str) (hnorm : normalizePath (47 :: p) = 47 :: p) (h47 : 47 ∉ nm)
    (hd : nm ≠ dot ∧ nm ≠ dotdot) : normalizePath (47 :: nameTail p nm) = 47 :: nameTail p nm := by
  apply norm_of_noDots
  unfold nameTail
  rw [splitOn_joinC _ (by simp) (segs_nameList p nm h47)]
  intro s hs
  rcases List.mem_append.mp hs with h | h
  · exact noDots_tail_of_norm hnorm s (List.dropLast_subset _ h)
  · simp only [List.mem_singleton] at h; subst h; exact hd

theorem parentTail_mem (p : Str) : ∀ c ∈ parentTail p, c = 47 ∨ c ∈ p := by
  intro c hc
  rcases HostLemmas.mem_joinC hc with rfl | ⟨seg, hseg, hcs⟩
  · exact Or.inl rfl
  · exact Or.inr (splitOn_sub 47 p seg (List.dropLast_subset _ hseg) c hcs)

theorem parentTail_norm (p : Str) (hnorm : normalizePath (47 :: p) = 47 :: p) :
    normalizePath (47 :: parentTail p) = 47 :: parentTail p := by
  apply norm_of_noDots
  unfold parentTail
  by_cases hne : (splitOn 47 p).dropLast = []
  · rw [hne]; intro s hs; simp [joinC, joinSep, splitOn] at hs; subst hs; simp [dot, dotdot]
  · rw [splitOn_joinC _ hne (segs_dropLast (segs_splitOn p))]
    intro s hs
    exact noDots_tail_of_norm hnorm s (List.dropLast_subset _ hs)

theorem lastSeg_mem (p : Str) : lastSeg p ∈ splitOn 47 p := by
  unfold lastSeg
  obtain ⟨init, l, h⟩ : ∃ init l, splitOn 47 p = init ++ [l] := by
    rcases List.eq_nil_or_concat (splitOn 47 p) with h | ⟨a, b, h⟩
    · exact absurd h (PathLemmas.splitOn_ne_nil 47 p)
    · exact ⟨a, b, by simpa using h⟩
  rw [h]; simp

section sfxmap
variable {f : Nat → Str} (hf : SepMap f)
include hf

theorem dot_mem_flatMap (s : Str) : 46 ∈ s.flatMap f ↔ 46 ∈ s := by
  constructor
  · intro h
    obtain ⟨c, hc, h46⟩ := List.mem_flatMap.mp h
    by_cases h1 : c = 46
    · exact h1 ▸ hc
    · by_cases h2 : c = 47
      · subst h2; rw [hf.slash] at h46; simp at h46
      · exact absurd h46 (hf.other c h2 h1).2.1
  · intro h
    exact List.mem_flatMap.mpr ⟨46, h, by rw [hf.dot]; simp⟩

/-- the raw suffix of the encoded name is the encoding of the suffix of the decoded name -/
theorem sfx_flatMap (nm : Str) : sfx (nm.flatMap f) = (sfx nm).flatMap f := by
  by_cases hm : 46 ∈ nm
  · obtain ⟨a, t, rfl, ht⟩ := exists_last 46 nm hm
    have ht' : 46 ∉ t.flatMap f := fun h => ht ((dot_mem_flatMap hf t).mp h)
    have e1 : (a ++ 46 :: t).flatMap f = a.flatMap f ++ 46 :: t.flatMap f := by
      simp [List.flatMap_append, List.flatMap_cons, hf.dot]
    rw [e1, sfx_last _ _ ht', sfx_last _ _ ht]
    by_cases hc : a ≠ [] ∧ t ≠ []
    · have hc' : a.flatMap f ≠ [] ∧ t.flatMap f ≠ [] :=
        ⟨fun h => hc.1 ((flatMap_eq_nil hf a).mp h), fun h => hc.2 ((flatMap_eq_nil hf t).mp h)⟩
      rw [if_pos hc, if_pos hc']
      simp [List.flatMap_cons, hf.dot]
    · have hc' : ¬ (a.flatMap f ≠ [] ∧ t.flatMap f ≠ []) := by
        intro h
        exact hc ⟨fun h0 => h.1 (by rw [h0]; rfl), fun h0 => h.2 (by rw [h0]; rfl)⟩
      rw [if_neg hc, if_neg hc']
      rfl
  · have hm' : 46 ∉ nm.flatMap f := fun h => hm ((dot_mem_flatMap hf nm).mp h)
    rw [sfx_no_dot _ hm, sfx_no_dot _ hm']
    rfl

theorem stem_flatMap (nm : Str) :
    (nm.flatMap f).take ((nm.flatMap f).length - (sfx (nm.flatMap f)).length) = (stem nm).flatMap f := by
  have h1 := stem_append_sfx (nm.flatMap f)
  have h2 : (stem nm).flatMap f ++ (sfx nm).flatMap f = nm.flatMap f := by
    rw [← List.flatMap_append]; unfold stem; rw [stem_append_sfx]
  rw [sfx_flatMap hf] at h1 ⊢
  exact List.append_cancel_right (h1.trans h2.symm)

theorem fixRoot_flatMap (x : Str) : fixRoot (x.flatMap f) = (fixRoot x).flatMap f := by
  cases x with
  | nil => rfl
  | cons c r =>
    by_cases hc : c = 47
    · subst hc
      simp [fixRoot, List.flatMap_cons, hf.slash]
    · have hne := sep_ne_nil hf c
      have h47 := sep_no47 hf c hc
      obtain ⟨y, ys, hy⟩ := List.exists_cons_of_ne_nil hne
      have hy47 : y ≠ 47 := fun h => h47 (by rw [hy, h]; simp)
      have e1 : fixRoot (c :: r) = 47 :: c :: r := by
        unfold fixRoot
        split
        · rename_i heq; cases heq
        · rename_i heq; cases heq; exact absurd rfl hc
        · rfl
      rw [e1]
      simp only [List.flatMap_cons, hf.slash, hy, List.cons_append, List.singleton_append, List.nil_append]
      unfold fixRoot
      split
      · rename_i heq; cases heq
      · rename_i heq; cases heq; exact absurd rfl hy47
      · rfl

theorem stripTrail_map' (l : List Str) :
    stripTrail (l.map (fun s => s.flatMap f)) = (stripTrail l).map (fun s => s.flatMap f) :=
  stripTrail_map _ (fun x => flatMap_eq_nil hf x) l

theorem base_map (u d : Url) (hp : u.path = d.path.flatMap f) :
    base u = (base d).map (fun s => s.flatMap f) := by
  unfold base
  have he : u.path.isEmpty = d.path.isEmpty := by
    rw [hp]
    cases hd : d.path with
    | nil => rfl
    | cons c r =>
      have : (c :: r).flatMap f ≠ [] := fun h => by simpa using (flatMap_eq_nil hf (c :: r)).mp h
      rw [HumanLemmas.isEmpty_false this]; rfl
  rw [he]
  split
  · rfl
  · rw [hp, splitOn_flatMap hf, stripTrail_map' hf]

theorem root_map (n n' : Str) (hn : n.isEmpty = n'.isEmpty) (L : List Str) :
    root n (L.map (fun s => s.flatMap f)) = (root n' L).map (fun s => s.flatMap f) := by
  unfold root
  have h1 : (L.map (fun s => s.flatMap f)).isEmpty = L.isEmpty := by cases L <;> rfl
  have h2 : decide ((L.map (fun s => s.flatMap f)).head? ≠ some []) = decide (L.head? ≠ some []) := by
    cases L with
    | nil => rfl
    | cons a r =>
      simp only [List.map_cons, List.head?_cons, ne_eq, Option.some.injEq, flatMap_eq_nil hf]
  rw [hn, h1, h2]
  split <;> simp

/-- `_make_child` on encoded segments is the encoding of `_make_child` on the decoded segments -/
theorem childOf_path_map (u d : Url) (hn : u.netloc.isEmpty = d.netloc.isEmpty)
    (hp : u.path = d.path.flatMap f) (X : List Str) (nn : Bool) :
    (childOf u (X.map (fun s => s.flatMap f)) nn).path = ((childOf d X nn).path).flatMap f := by
  have hM : root u.netloc (base u ++ X.map (fun s => s.flatMap f)) =
      (root d.netloc (base d ++ X)).map (fun s => s.flatMap f) := by
    rw [base_map hf u d hp, ← List.map_append, root_map hf _ _ hn]
  unfold childOf
  simp only [hM, hn]
  split
  · simp only [fromParts, joinC_map hf]
  · simp only [fromParts, normalizePathSegments_map hf, joinC_map hf, fixRoot_flatMap hf]

end sfxmap

theorem parent_pre (u : Url) : (parent u).pre = none ∨ parent u = u := by
  unfold parent
  split
  · split
    · exact Or.inl rfl
    · exact Or.inr rfl
  · exact Or.inl rfl

/-! ### `joinpath(*ps)` on decoded segments -/

/-- the decoded segments contributed by the arguments of `joinpath`: every argument split at "/", a trailing empty
    segment of a non-last argument dropped -/
def decSegs : List Str → List Str
  | [] => []
  | [a] => splitOn 47 a
  | a :: r :: rest => stripTrail (splitOn 47 a) ++ decSegs (r :: rest)

theorem decSegs_eq (e : Env) : ∀ ps : List Str, decSegs ps = argSegs e true ps := by
  intro ps
  induction ps with
  | nil => rfl
  | cons a ps ih =>
    cases ps with
    | nil => rfl
    | cons b r => rw [decSegs, argSegs, ih]; rfl

/-- a URL object with an authority and the DECODED path `P`: `joinpath` is computed on it -/
def twin (P : Str) : Url := fromParts [] [47] P [] []

/-- the decoded path of `u.joinpath(*ps)` for a URL with decoded path `P` ("" or rooted) -/
def joinPathD (P : Str) (ps : List Str) : Str :=
  (childOf (twin P) (decSegs ps) (ps.any (fun a => mem 46 a))).path

theorem argSegs_false_map (e : Env) : ∀ ps : List Str, (∀ a ∈ ps, PyStr a ∧ NoSurrogate a) →
    argSegs e false ps = (decSegs ps).map (fun s => s.flatMap (wq (Gen.PATH_QUOTER.tab e.b))) := by
  have hf := sepMap_wq e.b
  intro ps
  induction ps with
  | nil => intro _; rfl
  | cons a ps ih =>
    intro hg
    have ha := hg a (by simp)
    have hq : argText e false a = a.flatMap (wq (Gen.PATH_QUOTER.tab e.b)) := by
      simp only [argText, Bool.false_eq_true, if_false]
      exact q_path_flatMap e a ha.1 ha.2
    cases ps with
    | nil => simp only [argSegs, decSegs, hq, splitOn_flatMap hf]
    | cons b r =>
      rw [argSegs, decSegs, hq, splitOn_flatMap hf, stripTrail_map' hf,
        ih (fun x hx => hg x (List.mem_cons_of_mem _ hx)), List.map_append]

theorem argDots_false_eq (e : Env) (ps : List Str) (hg : ∀ a ∈ ps, PyStr a ∧ NoSurrogate a) :
    argDots e false ps = ps.any (fun a => mem 46 a) := by
  have hf := sepMap_wq e.b
  unfold argDots
  have key : ∀ l : List Str, (∀ a ∈ l, PyStr a ∧ NoSurrogate a) →
      l.any (fun p => mem 46 (argText e false p)) = l.any (fun a => mem 46 a) := by
    intro l
    induction l with
    | nil => intro _; rfl
    | cons a l ih =>
      intro hl
      have ha := hl a (by simp)
      have h1 : mem 46 (argText e false a) = mem 46 a := by
        simp only [argText, Bool.false_eq_true, if_false]
        rw [q_path_flatMap e a ha.1 ha.2, Bool.eq_iff_iff, ParseLemmas.mem_eq, ParseLemmas.mem_eq]
        simp only [decide_eq_true_eq]
        exact dot_mem_flatMap hf a
      simp only [List.any_cons, h1, ih (fun x hx => hl x (List.mem_cons_of_mem _ hx))]
  exact key ps hg

theorem childOf_fields (u : Url) (X : List Str) (nn : Bool) :
    (childOf u X nn).scheme = u.scheme ∧ (childOf u X nn).netloc = u.netloc ∧ (childOf u X nn).query = [] ∧
      (childOf u X nn).fragment = [] ∧ (childOf u X nn).pre = none := by
  unfold childOf
  split <;> exact ⟨rfl, rfl, rfl, rfl, rfl⟩

theorem twin_netloc (P : Str) : (twin P).netloc.isEmpty = false := rfl

/-- the decoded path of the child is "" or rooted -/
theorem joinPathD_shape (P : Str) (ps : List Str) (hne : ps ≠ []) :
    joinPathD P ps = [] ∨ ∃ t, joinPathD P ps = 47 :: t := by
  have hX : decSegs ps ≠ [] := by rw [decSegs_eq ⟨.py, Oracles.empty⟩]; exact argSegs_ne_nil _ _ ps hne
  have hL : base (twin P) ++ decSegs ps ≠ [] := by simp [hX]
  obtain ⟨R, hR⟩ := root_head (twin P).netloc _ (twin_netloc P) hL
  unfold joinPathD childOf
  simp only [hR, twin_netloc, Bool.false_or]
  split
  · simp only [fromParts]
    cases R with
    | nil => left; simp [joinC, joinSep]
    | cons b r => right; exact ⟨_, by rw [joinC_cons_cons]; rfl⟩
  · simp only [fromParts]
    generalize joinC 47 (normalizePathSegments ([] :: R)) = y
    cases y with
    | nil => left; rfl
    | cons c r =>
      right
      by_cases hc : c = 47
      · subst hc; exact ⟨r, by simp [fixRoot]⟩
      · refine ⟨c :: r, ?_⟩
        unfold fixRoot
        split
        · rename_i heq; cases heq
        · rename_i heq; cases heq; exact absurd rfl hc
        · rfl

theorem mem_decSegs (ps : List Str) (x : Str) (hx : x ∈ decSegs ps) : ∃ a ∈ ps, x ∈ splitOn 47 a := by
  rw [decSegs_eq ⟨.py, Oracles.empty⟩] at hx
  obtain ⟨a, ha, h⟩ := mem_argSegs _ _ ps x hx
  exact ⟨a, ha, by simpa [argText] using h⟩

theorem segs_decSegs (ps : List Str) : Segs (decSegs ps) := by
  rw [decSegs_eq ⟨.py, Oracles.empty⟩]; exact segs_argSegs _ _ ps

theorem mem_fixRoot {x : Str} {c : Nat} (h : c ∈ fixRoot x) : c = 47 ∨ c ∈ x := by
  unfold fixRoot at h
  split at h
  · exact Or.inr h
  · exact Or.inr h
  · rcases List.mem_cons.mp h with rfl | h
    · exact Or.inl rfl
    · exact Or.inr h

/-- the characters of the child's decoded path come from the old path and the arguments -/
theorem joinPathD_mem (P : Str) (ps : List Str) :
    ∀ c ∈ joinPathD P ps, c = 47 ∨ c ∈ P ∨ ∃ a ∈ ps, c ∈ a := by
  have hM : ∀ s ∈ root (twin P).netloc (base (twin P) ++ decSegs ps), ∀ c ∈ s, c ∈ P ∨ ∃ a ∈ ps, c ∈ a := by
    intro s hs c hc
    rcases mem_root hs with rfl | hs
    · cases hc
    · rcases List.mem_append.mp hs with h | h
      · exact Or.inl (splitOn_sub 47 _ s (mem_base h) c hc)
      · obtain ⟨a, ha, hsa⟩ := mem_decSegs ps s h
        exact Or.inr ⟨a, ha, splitOn_sub 47 a s hsa c hc⟩
  intro c hc
  unfold joinPathD childOf at hc
  simp only [twin_netloc, Bool.false_or] at hc
  split at hc
  · simp only [fromParts] at hc
    rcases HostLemmas.mem_joinC hc with rfl | ⟨s, hs, hcs⟩
    · exact Or.inl rfl
    · exact Or.inr (hM s hs c hcs)
  · simp only [fromParts] at hc
    rcases mem_fixRoot hc with rfl | hc
    · exact Or.inl rfl
    · rcases HostLemmas.mem_joinC hc with rfl | ⟨s, hs, hcs⟩
      · exact Or.inl rfl
      · rcases WfLemmas.mem_normalizePathSegments hs with hs | rfl
        · exact Or.inr (hM s hs c hcs)
        · cases hcs

/-- the child's decoded path has no dot segments -/
theorem joinPathD_noDots (P : Str) (ps : List Str) (hP : NoDotSegments P) : NoDotSegments (joinPathD P ps) := by
  have hsegs : Segs (root (twin P).netloc (base (twin P) ++ decSegs ps)) :=
    segs_root _ (segs_append (segs_base _) (segs_decSegs ps))
  unfold joinPathD childOf
  simp only [twin_netloc, Bool.false_or]
  split
  · rename_i hnn
    simp only [fromParts]
    apply EntryLemmas.noDotSegments_joinC _ hsegs
    apply EntryLemmas.noDots_root
    apply noDots_append (EntryLemmas.noDots_base (twin P) hP)
    intro s hs
    obtain ⟨a, ha, hsa⟩ := mem_decSegs ps s hs
    have h46 : mem 46 a = false := by
      have : ps.any (fun a => mem 46 a) = false := by simpa using hnn
      rw [List.any_eq_false] at this
      simpa using this a ha
    exact EntryLemmas.noDots_of_no46 (fun hm => mem_false_iff.mp h46 (splitOn_sub 47 a s hsa 46 hm))
  · simp only [fromParts]
    exact EntryLemmas.noDotSegments_fixRoot (EntryLemmas.noDotSegments_joinC _
      (normalizePathSegments_no_sep _ hsegs) (noDots_normalizePathSegments _))

/-- the decoded stored path: "" when the stored path is empty, `"/" ++ p` otherwise -/
def pathD (u : Url) (p : Str) : Str := if u.path.isEmpty then [] else 47 :: p

theorem joinPathD_good (P : Str) (ps : List Str) (hne : ps ≠ []) (hP : PyStr P ∧ NoSurrogate P)
    (hPd : NoDotSegments P) (hg : ∀ a ∈ ps, PyStr a ∧ NoSurrogate a) :
    PyStr (47 :: (joinPathD P ps).drop 1) ∧ NoSurrogate (47 :: (joinPathD P ps).drop 1) ∧
      normalizePath (47 :: (joinPathD P ps).drop 1) = 47 :: (joinPathD P ps).drop 1 := by
  have hmem : ∀ c ∈ joinPathD P ps, c ≤ 0x10FFFF ∧ isSurrogate c = false := by
    intro c hc
    rcases joinPathD_mem P ps c hc with rfl | h | ⟨a, ha, h⟩
    · exact good_47
    · exact ⟨hP.1 c h, hP.2 c h⟩
    · exact ⟨(hg a ha).1 c h, (hg a ha).2 c h⟩
  have hgood : PyStr (47 :: (joinPathD P ps).drop 1) ∧ NoSurrogate (47 :: (joinPathD P ps).drop 1) := by
    apply good_of_mem
    intro c hc
    rcases List.mem_cons.mp hc with rfl | hc
    · exact good_47
    · exact hmem c (List.mem_of_mem_drop hc)
  refine ⟨hgood.1, hgood.2, ?_⟩
  rcases joinPathD_shape P ps hne with h | ⟨t, h⟩
  · rw [h]; decide
  · have := joinPathD_noDots P ps hPd
    rw [h] at this ⊢
    exact FixLemmas.normalizePath_noDotSegs this

section pmods
variable (e : Env) (u : Url) (user pw : Option Str) (H : Str) (port : Option Nat)
  (p : Str) (kvs : List (Str × Str)) (f : Str) (st : Stores e u user pw H port p kvs f) (hH : H ≠ [])
  (hp : PyStr (47 :: p)) (hn : NoSurrogate (47 :: p))
include st hH hp hn

/-- the stored path, as the encoding of the decoded path `"/" ++ p` or of `""` -/
theorem path_shape : (u.path = 47 :: G e p) ∨ (u.path = [] ∧ p = []) := by
  rcases st.path with h | h
  · left
    rw [h, q_path_cons_slash e p hp hn, q_path_flatMap e p (pyStr_cons hp) (noSurr_cons hn)]
  · exact Or.inr h

theorem nameTail_good (nm : Str) (hnm : PyStr nm) (hnn : NoSurrogate nm) :
    PyStr (47 :: nameTail p nm) ∧ NoSurrogate (47 :: nameTail p nm) := by
  apply good_of_mem
  intro c hc
  rcases List.mem_cons.mp hc with rfl | hc
  · exact good_47
  · rcases nameTail_mem p nm c hc with rfl | h | h
    · exact good_47
    · exact ⟨hp c (by simp [h]), hn c (by simp [h])⟩
    · exact ⟨hnm c h, hnn c h⟩

/-- `_with_raw_name` with the encoding of a decoded name -/
theorem stores_withRawName (nm : Str) (hnm : PyStr nm) (hnn : NoSurrogate nm) (h47 : 47 ∉ nm) (kq kf : Bool)
    (v : Url) (h : withRawName u (q e Gen.PATH_QUOTER nm) kq kf = .ok v) :
    v.scheme = u.scheme ∧
      Stores e v user pw H port (nameTail p nm) (if kq then kvs else []) (if kf then f else []) := by
  have hf := sepMap_wq e.b
  have hnl := netloc_ne e u user pw H port p kvs f st hH
  have hnl' : u.netloc ≠ [] := fun h0 => by rw [h0] at hnl; cases hnl
  have hq47 : 47 ∉ q e Gen.PATH_QUOTER nm := C13_path_quoter_no_slash e nm hnm h47
  obtain ⟨_, hsc, hnet, hqy, hfr⟩ := withRawName_spec u _ kq kf v hq47 h
  obtain ⟨_, _, hp0, hp1, _⟩ := withRawName_path u _ kq kf v hq47 h
  have hpre := withRawName_pre u _ kq kf v h
  have hg := nameTail_good e u user pw H port p kvs f st hH hp hn nm hnm hnn
  refine ⟨hsc, ⟨hnet.trans st.netloc, fun pr h' => (by rw [hpre] at h'; cases h'), Or.inl ?_, ?_, ?_⟩⟩
  · rw [q_path_cons_slash e _ hg.1 hg.2, q_path_flatMap e _ (pyStr_cons hg.1) (noSurr_cons hg.2)]
    rcases path_shape e u user pw H port p kvs f st hH hp hn with hs | ⟨hs, rfl⟩
    · rw [hp1 _ hs, splitOn_flatMap hf, ← List.map_dropLast, q_path_flatMap e nm hnm hnn]
      have : [nm.flatMap (wq (Gen.PATH_QUOTER.tab e.b))] = [nm].map (fun s => s.flatMap (wq (Gen.PATH_QUOTER.tab e.b))) := rfl
      rw [this, ← List.map_append, joinC_map hf]
      rfl
    · rw [hp0 hs, if_neg hnl', q_path_flatMap e nm hnm hnn]
      simp [nameTail, splitOn, joinC, joinSep]
  · rw [hqy]
    cases kq
    · rfl
    · exact st.query
  · rw [hfr]
    cases kf
    · rfl
    · exact st.fragment

/-- `with_name(nm)` for a decoded name without "/" that is not "." or ".." -/
theorem stores_withName (nm : Str) (hnm : PyStr nm) (hnn : NoSurrogate nm) (h47 : 47 ∉ nm)
    (hd : nm ≠ dot ∧ nm ≠ dotdot) (kq kf : Bool) :
    ∃ v, withName e u nm kq kf = .ok v ∧ v.scheme = u.scheme ∧
      Stores e v user pw H port (nameTail p nm) (if kq then kvs else []) (if kf then f else []) := by
  have hf := sepMap_wq e.b
  have hnl := netloc_ne e u user pw H port p kvs f st hH
  obtain ⟨v, hv⟩ := withRawName_total u (q e Gen.PATH_QUOTER nm) kq kf hnl
  refine ⟨v, ?_, stores_withRawName e u user pw H port p kvs f st hH hp hn nm hnm hnn h47 kq kf v hv⟩
  unfold withName
  have h1 : mem 47 nm = false := mem_false_iff.mpr h47
  have h2 : ¬ (q e Gen.PATH_QUOTER nm = dot ∨ q e Gen.PATH_QUOTER nm = dotdot) := by
    rw [q_path_flatMap e nm hnm hnn, flatMap_eq_dot hf, flatMap_eq_dotdot hf]
    exact fun h => h.elim hd.1 hd.2
  simp only [h1, Bool.false_eq_true, if_false, if_neg h2]
  exact hv

/-- `raw_name` is the encoding of the last segment of the decoded path -/
theorem rawName_stores : rawName u = .ok (G e (lastSeg p)) := by
  have hf := sepMap_wq e.b
  have hnl := netloc_ne e u user pw H port p kvs f st hH
  unfold rawName rawParts
  simp only [hnl, Bool.not_false, if_true, Bool.false_eq_true, if_false]
  rcases path_shape e u user pw H port p kvs f st hH hp hn with hs | ⟨hs, rfl⟩
  · rw [hs]
    simp only [List.isEmpty_cons, Bool.not_false, if_true, List.drop_succ_cons, List.drop_zero,
      splitOn_flatMap hf, List.getLast?_map, lastSeg]
    obtain ⟨init, l, h⟩ : ∃ init l, splitOn 47 p = init ++ [l] := by
      rcases List.eq_nil_or_concat (splitOn 47 p) with h | ⟨a, b, h⟩
      · exact absurd h (PathLemmas.splitOn_ne_nil 47 p)
      · exact ⟨a, b, by simpa using h⟩
    rw [h]; simp [pure, Except.pure]
  · rw [hs]
    simp [lastSeg, splitOn, pure, Except.pure]

theorem lastSeg_good : PyStr (lastSeg p) ∧ NoSurrogate (lastSeg p) ∧ 47 ∉ lastSeg p := by
  have hm := lastSeg_mem p
  refine ⟨fun c hc => hp c ?_, fun c hc => hn c ?_, splitOn_no_sep 47 p _ hm⟩
  · exact List.mem_cons_of_mem _ (splitOn_sub 47 p _ hm c hc)
  · exact List.mem_cons_of_mem _ (splitOn_sub 47 p _ hm c hc)

/-- `with_suffix(x)`: the new name is the stem of the decoded name followed by the decoded suffix `x` -/
theorem stores_withSuffix (x : Str) (hx : PyStr x) (hxn : NoSurrogate x) (kq kf : Bool)
    (v : Url) (h : withSuffix e u x kq kf = .ok v) :
    v.scheme = u.scheme ∧
      Stores e v user pw H port (nameTail p (stem (lastSeg p) ++ x)) (if kq then kvs else [])
        (if kf then f else []) ∧
      47 ∉ stem (lastSeg p) ++ x ∧ stem (lastSeg p) ++ x ≠ dot ∧ stem (lastSeg p) ++ x ≠ dotdot := by
  have hf := sepMap_wq e.b
  have hname := rawName_stores e u user pw H port p kvs f st hH hp hn
  obtain ⟨g1, g2, g3⟩ := lastSeg_good e u user pw H port p kvs f st hH hp hn
  have ho : rawSuffix u = .ok (sfx (G e (lastSeg p))) := by rw [rawSuffix_eq, hname]; rfl
  have hnew : PyStr (stem (lastSeg p) ++ x) ∧ NoSurrogate (stem (lastSeg p) ++ x) := by
    apply good_of_mem
    intro c hc
    rcases List.mem_append.mp hc with hc | hc
    · exact ⟨g1 c (stem_sub _ c hc), g2 c (stem_sub _ c hc)⟩
    · exact ⟨hx c hc, hxn c hc⟩
  have hqnew : List.take ((G e (lastSeg p)).length - (sfx (G e (lastSeg p))).length) (G e (lastSeg p)) ++
      q e Gen.PATH_QUOTER x = q e Gen.PATH_QUOTER (stem (lastSeg p) ++ x) := by
    rw [stem_flatMap hf, q_path_flatMap e x hx hxn, q_path_flatMap e _ hnew.1 hnew.2, List.flatMap_append]
  unfold withSuffix at h
  split at h
  · cases h
  · simp only [hname, ho, bind, Except.bind] at h
    split at h
    · cases h
    · split at h
      · cases h
      · rename_i h47
        have hx47 : 47 ∉ x := mem_false_iff.mp (by simpa using h47)
        have e1 : (if (sfx (G e (lastSeg p))).isEmpty = true then G e (lastSeg p) ++ q e Gen.PATH_QUOTER x
              else List.take ((G e (lastSeg p)).length - (sfx (G e (lastSeg p))).length) (G e (lastSeg p)) ++
                q e Gen.PATH_QUOTER x)
            = q e Gen.PATH_QUOTER (stem (lastSeg p) ++ x) := by
          rw [← hqnew]
          split
          · rename_i ho0
            have : sfx (G e (lastSeg p)) = [] := by simpa using ho0
            rw [this, List.length_nil, Nat.sub_zero, List.take_length]
          · rfl
        simp only [e1] at h
        split at h
        · cases h
        · rename_i hnd
          have h47' : 47 ∉ stem (lastSeg p) ++ x := by
            intro hm
            rcases List.mem_append.mp hm with hm | hm
            · exact g3 (stem_sub _ _ hm)
            · exact hx47 hm
          rw [q_path_flatMap e _ hnew.1 hnew.2, flatMap_eq_dot hf, flatMap_eq_dotdot hf] at hnd
          obtain ⟨a, b⟩ := stores_withRawName e u user pw H port p kvs f st hH hp hn _ hnew.1 hnew.2 h47' kq kf v h
          exact ⟨a, b, h47', fun h0 => hnd (Or.inl h0), fun h0 => hnd (Or.inr h0)⟩

/-- `with_suffix(x)` succeeds: `x` is "" or starts with '.', is not ".", has no "/"; the decoded name is not empty;
    the new name is not "." or ".." -/
theorem withSuffix_total (x : Str) (hx : PyStr x) (hxn : NoSurrogate x) (kq kf : Bool)
    (hhead : x = [] ∨ x.head? = some 46) (hne : x ≠ [46]) (h47 : 47 ∉ x) (hnm : lastSeg p ≠ [])
    (hd : stem (lastSeg p) ++ x ≠ dot ∧ stem (lastSeg p) ++ x ≠ dotdot) :
    ∃ v, withSuffix e u x kq kf = .ok v := by
  have hf := sepMap_wq e.b
  have hnl := netloc_ne e u user pw H port p kvs f st hH
  have hname := rawName_stores e u user pw H port p kvs f st hH hp hn
  obtain ⟨g1, g2, g3⟩ := lastSeg_good e u user pw H port p kvs f st hH hp hn
  have ho : rawSuffix u = .ok (sfx (G e (lastSeg p))) := by rw [rawSuffix_eq, hname]; rfl
  have hnew : PyStr (stem (lastSeg p) ++ x) ∧ NoSurrogate (stem (lastSeg p) ++ x) := by
    apply good_of_mem
    intro c hc
    rcases List.mem_append.mp hc with hc | hc
    · exact ⟨g1 c (stem_sub _ c hc), g2 c (stem_sub _ c hc)⟩
    · exact ⟨hx c hc, hxn c hc⟩
  have hqnew : List.take ((G e (lastSeg p)).length - (sfx (G e (lastSeg p))).length) (G e (lastSeg p)) ++
      q e Gen.PATH_QUOTER x = q e Gen.PATH_QUOTER (stem (lastSeg p) ++ x) := by
    rw [stem_flatMap hf, q_path_flatMap e x hx hxn, q_path_flatMap e _ hnew.1 hnew.2, List.flatMap_append]
  have e1 : (if (sfx (G e (lastSeg p))).isEmpty = true then G e (lastSeg p) ++ q e Gen.PATH_QUOTER x
        else List.take ((G e (lastSeg p)).length - (sfx (G e (lastSeg p))).length) (G e (lastSeg p)) ++
          q e Gen.PATH_QUOTER x)
      = q e Gen.PATH_QUOTER (stem (lastSeg p) ++ x) := by
    rw [← hqnew]
    split
    · rename_i ho0
      have : sfx (G e (lastSeg p)) = [] := by simpa using ho0
      rw [this, List.length_nil, Nat.sub_zero, List.take_length]
    · rfl
  have c1 : ((!x.isEmpty && decide (x.head? ≠ some 46)) || decide (x = [46])) = false := by
    rcases hhead with rfl | hh
    · rfl
    · simp [hh, hne]
  have c2 : (G e (lastSeg p)).isEmpty = false :=
    HumanLemmas.isEmpty_false (fun h0 => hnm ((flatMap_eq_nil hf _).mp h0))
  have c3 : mem 47 x = false := mem_false_iff.mpr h47
  have c4 : ¬ (q e Gen.PATH_QUOTER (stem (lastSeg p) ++ x) = dot ∨
      q e Gen.PATH_QUOTER (stem (lastSeg p) ++ x) = dotdot) := by
    rw [q_path_flatMap e _ hnew.1 hnew.2, flatMap_eq_dot hf, flatMap_eq_dotdot hf]
    exact fun h => h.elim hd.1 hd.2
  obtain ⟨v, hv⟩ := withRawName_total u (q e Gen.PATH_QUOTER (stem (lastSeg p) ++ x)) kq kf hnl
  refine ⟨v, ?_⟩
  unfold withSuffix
  simp only [c1, Bool.false_eq_true, if_false, hname, ho, bind, Except.bind, c2, c3, e1, if_neg c4]
  exact hv

theorem parentTail_good : PyStr (47 :: parentTail p) ∧ NoSurrogate (47 :: parentTail p) := by
  apply good_of_mem
  intro c hc
  rcases List.mem_cons.mp hc with rfl | hc
  · exact good_47
  · rcases parentTail_mem p c hc with rfl | h
    · exact good_47
    · exact ⟨hp c (by simp [h]), hn c (by simp [h])⟩

/-- `parent`: the last segment of the decoded path is removed; query and fragment are dropped -/
theorem stores_parent :
    (parent u).scheme = u.scheme ∧ Stores e (parent u) user pw H port (parentTail p) [] [] := by
  have hf := sepMap_wq e.b
  have hnl := netloc_ne e u user pw H port p kvs f st hH
  have hnl' : u.netloc ≠ [] := fun h0 => by rw [h0] at hnl; cases hnl
  have heq := parent_eq u
  have h1 : (parent u).scheme = u.scheme := by have := congrArg Url.scheme heq; exact this
  have h2 : (parent u).netloc = u.netloc := by have := congrArg Url.netloc heq; exact this
  have h3 : (parent u).path = parentPath u.path := by
    have := congrArg Url.path heq
    simp only [pickleTwin, fromParts, parentPathN, rootFix_auth _ _ hnl'] at this
    exact this
  have h4 : (parent u).query = [] := by have := congrArg Url.query heq; exact this
  have h5 : (parent u).fragment = [] := by have := congrArg Url.fragment heq; exact this
  have hg := parentTail_good e u user pw H port p kvs f st hH hp hn
  refine ⟨h1, ⟨h2.trans st.netloc, ?_, ?_, h4, h5⟩⟩
  · intro pr hpr
    rcases parent_pre u with h0 | h0
    · rw [h0] at hpr; cases hpr
    · rw [h0] at hpr; exact st.pre pr hpr
  · rw [h3]
    rcases path_shape e u user pw H port p kvs f st hH hp hn with hs | ⟨hs, rfl⟩
    · by_cases hp0 : p = []
      · subst hp0
        left
        rw [hs]
        simp only [G, List.flatMap_nil, parentPath, or_true, if_true]
        have : parentTail [] = [] := by simp [parentTail, splitOn, joinC, joinSep]
        rw [this, q_path_root]
      · have hGp : G e p ≠ [] := fun h0 => hp0 ((flatMap_eq_nil hf p).mp h0)
        have hne1 : ¬ (u.path = [] ∨ u.path = [47]) := by
          rw [hs]; simp [hGp]
        unfold parentPath
        rw [if_neg hne1, hs]
        have e1 : splitOn 47 (47 :: G e p) = [] :: (splitOn 47 p).map (fun s => s.flatMap (wq (Gen.PATH_QUOTER.tab e.b))) := by
          simp only [splitOn, if_true]
          rw [splitOn_flatMap hf]
        have hne2 : (splitOn 47 p).map (fun s => s.flatMap (wq (Gen.PATH_QUOTER.tab e.b))) ≠ [] := by
          simp [PathLemmas.splitOn_ne_nil]
        rw [e1, List.dropLast_cons_of_ne_nil hne2, ← List.map_dropLast]
        by_cases hL : (splitOn 47 p).dropLast = []
        · right
          unfold parentTail
          rw [hL]
          simp [joinC, joinSep]
        · left
          obtain ⟨b, r, hbr⟩ := List.exists_cons_of_ne_nil hL
          rw [q_path_cons_slash e _ hg.1 hg.2, q_path_flatMap e _ (pyStr_cons hg.1) (noSurr_cons hg.2)]
          unfold parentTail
          rw [hbr, List.map_cons, joinC_cons_cons, List.nil_append, ← List.map_cons, joinC_map hf]
    · right
      rw [hs]
      simp [parentPath, parentTail, splitOn, joinC, joinSep]

theorem pathD_spec : u.path = G e (pathD u p) ∧ (pathD u p = [] ∨ pathD u p = 47 :: p) := by
  have hf := sepMap_wq e.b
  unfold pathD
  rcases path_shape e u user pw H port p kvs f st hH hp hn with hs | ⟨hs, rfl⟩
  · rw [hs]
    simp [G, List.flatMap_cons, hf.slash]
  · rw [hs]; simp

theorem pathD_good (hnorm : normalizePath (47 :: p) = 47 :: p) :
    (PyStr (pathD u p) ∧ NoSurrogate (pathD u p)) ∧ NoDotSegments (pathD u p) := by
  rcases (pathD_spec e u user pw H port p kvs f st hH hp hn).2 with h | h
  · rw [h]; exact ⟨⟨by decide, by decide⟩, EntryLemmas.noDotSegments_nil⟩
  · rw [h]
    refine ⟨⟨hp, hn⟩, ?_⟩
    have := EntryLemmas.noDotSegments_normalizePath (47 :: p)
    rw [hnorm] at this
    exact this

/-- `u.joinpath(*ps)` / `u / s` (`encoded=False`) for ANY decoded segments not starting with "/" ("/" inside and
    dot segments allowed): the new path is the encoding of the decoded child path; query and fragment are dropped -/
theorem stores_joinpath (ps : List Str) (hne : ps ≠ []) (hg : ∀ a ∈ ps, PyStr a ∧ NoSurrogate a)
    (hh : ∀ a ∈ ps, a.head? ≠ some 47) (hnorm : normalizePath (47 :: p) = 47 :: p) :
    ∃ v, makeChild e u ps false = .ok v ∧ v.scheme = u.scheme ∧
      Stores e v user pw H port ((joinPathD (pathD u p) ps).drop 1) [] [] := by
  have hf := sepMap_wq e.b
  have hnl := netloc_ne e u user pw H port p kvs f st hH
  obtain ⟨hpath, _⟩ := pathD_spec e u user pw H port p kvs f st hH hp hn
  obtain ⟨hPg, hPd⟩ := pathD_good e u user pw H port p kvs f st hH hp hn hnorm
  obtain ⟨g1, g2, _⟩ := joinPathD_good (pathD u p) ps hne hPg hPd hg
  refine ⟨_, makeChild_n e u ps false hne hh, (childOf_fields u _ _).1, ?_⟩
  have hpth : (childOf u (argSegs e false ps) (argDots e false ps)).path = G e (joinPathD (pathD u p) ps) := by
    rw [argSegs_false_map e ps hg, argDots_false_eq e ps hg]
    exact childOf_path_map hf u (twin (pathD u p)) hnl hpath _ _
  obtain ⟨_, c2, c3, c4, c5⟩ := childOf_fields u (argSegs e false ps) (argDots e false ps)
  refine ⟨c2.trans st.netloc, fun pr h => (by rw [c5] at h; cases h), ?_, c3, c4⟩
  rw [hpth]
  rcases joinPathD_shape (pathD u p) ps hne with h | ⟨t, h⟩
  · right; rw [h]; exact ⟨rfl, rfl⟩
  · left
    rw [h] at g1 g2 ⊢
    simp only [List.drop_succ_cons, List.drop_zero] at g1 g2 ⊢
    rw [q_path_flatMap e _ g1 g2]

end pmods

/-! ## `URL.build(authority=…)` for an authority text assembled from DECODED pieces -/

theorem no64_hostPort {D : Str} (hD : HostOK D) (port : Option Nat) : 64 ∉ hostPortStr (bracket D) port := by
  have hb : 64 ∉ bracket D := by
    unfold bracket; split
    · simp [hD.2.1]
    · exact hD.2.1
  have hd : 64 ∉ natToStr (port.getD 0) := fun hm => by
    have := (natToStr_digits (port.getD 0)).2 64 hm
    simp [isDigitC] at this
  cases port with
  | none => exact hb
  | some n =>
    simp only [hostPortStr, List.mem_append, List.mem_singleton, not_or]
    exact ⟨⟨hb, by decide⟩, hd⟩

theorem rpart_authText (user pw : Option Str) {D : Str} (hD : HostOK D) (port : Option Nat) :
    (rpartition 64 (authText user pw D port)).2.2 = hostPortStr (bracket D) port := by
  have h64 := no64_hostPort hD port
  rw [FixLemmas.authText_eq]
  unfold FixLemmas.userPrefix
  cases user with
  | none =>
    cases pw with
    | none => simp only [List.nil_append]; rw [ParseLemmas.rpartition_not_mem h64]
    | some w =>
      have : (none : Option Str).getD [] ++ 58 :: w ++ [64] ++ hostPortStr (bracket D) port =
          (58 :: w) ++ 64 :: hostPortStr (bracket D) port := by simp
      rw [this, rpartition_found 64 _ _ h64]
  | some u =>
    cases pw with
    | none =>
      simp only
      split
      · simp only [List.nil_append]; rw [ParseLemmas.rpartition_not_mem h64]
      · have : u ++ [64] ++ hostPortStr (bracket D) port = u ++ 64 :: hostPortStr (bracket D) port := by simp
        rw [this, rpartition_found 64 _ _ h64]
    | some w =>
      have : (some u).getD [] ++ 58 :: w ++ [64] ++ hostPortStr (bracket D) port =
          (u ++ 58 :: w) ++ 64 :: hostPortStr (bracket D) port := by simp
      rw [this, rpartition_found 64 _ _ h64]

theorem keep_brackets {H D : Str} (user pw : Option Str) (port : Option Nat) (hD : HostOK D)
    (hcol : 58 ∈ D → 58 ∈ H) :
    (if mem 91 (rpartition 64 (authText user pw D port)).2.2 && !mem 91 (bracket H)
      then [91] ++ bracket H ++ [93] else bracket H) = bracket H := by
  by_cases h58 : 58 ∈ H
  · have : mem 91 (bracket H) = true := by
      unfold bracket; rw [if_pos (mem_iff.mpr h58)]; exact mem_iff.mpr (by simp)
    simp [this]
  · have h58D : 58 ∉ D := fun h => h58 (hcol h)
    have : mem 91 (rpartition 64 (authText user pw D port)).2.2 = false := by
      rw [rpart_authText user pw hD port, mem_false_iff]
      have hb : bracket D = D := by unfold bracket; rw [if_neg (by simpa using mem_false_iff.mpr h58D)]
      rw [hb]
      have hd : 91 ∉ natToStr (port.getD 0) := fun hm => by
        have := (natToStr_digits (port.getD 0)).2 91 hm
        simp [isDigitC] at this
      cases port with
      | none => exact hD.2.2.1
      | some n =>
        simp only [hostPortStr, List.mem_append, List.mem_singleton, not_or]
        exact ⟨⟨hD.2.2.1, by decide⟩, hd⟩
    simp [this]

theorem effPort_match (sc : Str) (port : Option Nat) : (match port with
    | some p => if some p = defaultPort sc then none else some p
    | none => none) = effPort sc port := rfl

/-- `URL.build(scheme=sc, authority=A, path=…, query=…, fragment=…)` where `A` is the text
    `[user[:password]@]host[:port]` made of the DECODED user and password (the user not "" and without ':') and the
    SHOWN host `D` (in brackets iff it contains ':'): user and password are encoded, the host is stored as `H`, the
    default port of the scheme is dropped.  When `A` is not ASCII the NFKC check must accept it (`hnf`). -/
theorem build_authority (e : Env) (sc sc' : Str) (hl : lowerAny e sc = .ok sc') (user pw : Option Str) (h H D : Str) (port : Option Nat)
    (path : Str) (qa : QArg) (qs Q : Str) (f : Str)
    (hrt : HostRT e h H D) (huo : UserOK user)
    (hport : ∀ x, port = some x → x ≤ 65535)
    (hnf : isAscii (authText user pw D port) = false → checkNetloc e.o (authText user pw D port) = .ok ())
    (hpath : path = [] ∨ ∃ p, path = 47 :: p ∧ PyStr (47 :: p) ∧ NoSurrogate (47 :: p))
    (hq1 : qargTruthy qa = true → qs = [] ∧ getStrQuery e.b qa = .ok (some Q))
    (hq2 : qargTruthy qa = false → Q = if qs.isEmpty then qs else q e Gen.QUERY_QUOTER qs) :
    build e { scheme := sc, authority := authText user pw D port, path := path, query := qa, queryString := qs,
              fragment := f } =
      .ok (fromParts sc' (authText (user.map (q e Gen.QUOTER)) (pw.map (q e Gen.QUOTER)) H (effPort sc' port))
        (storedPath e path) Q (if f.isEmpty then f else q e Gen.FRAGMENT_QUOTER f)) := by
  have hD := hrt.disp.ok
  have hH := hrt.okH.1
  have hneA : (authText user pw D port).isEmpty = false := HumanLemmas.isEmpty_false (authText_ne_nil _ _ hD.1 _)
  have hnlA := fun pt => HumanLemmas.isEmpty_false
    (authText_ne_nil (user.map (q e Gen.QUOTER)) (pw.map (q e Gen.QUOTER)) hH pt)
  have hsplit : splitNetloc e.o (authText user pw D port) =
      .ok { user := user, password := pw, host := some D, port := port } :=
    netloc_roundtrip e.o id user pw D port huo hD hport
  have hkeep := keep_brackets (H := H) user pw port hD hrt.colon
  have hchk : (if (!isAscii (authText user pw D port)) = true then checkNetloc e.o (authText user pw D port)
      else pure ()) = .ok () := by
    cases ha : isAscii (authText user pw D port) with
    | true => rfl
    | false => simpa using hnf ha
  have hqs : (if (!qs.isEmpty) = true then q e Gen.QUERY_QUOTER qs else qs) =
      (if qs.isEmpty then qs else q e Gen.QUERY_QUOTER qs) := by cases qs <;> rfl
  have hq := fun p hp hn => q_path_cons_slash e p hp hn
  have hd : ∀ p, PyStr (47 :: p) → NoSurrogate (47 :: p) →
      (if mem 46 (47 :: q e Gen.PATH_QUOTER p) = true then normalizePath (47 :: q e Gen.PATH_QUOTER p)
        else 47 :: q e Gen.PATH_QUOTER p) = q e Gen.PATH_QUOTER (normalizePath (47 :: p)) := by
    intro p hp hn
    have := stored_path e p hp hn
    rw [q_path_cons_slash e p hp hn] at this
    exact this
  have hnet : ∀ pt : Option Nat,
      (if (user.isNone && pw.isNone) = true then
          (match pt with | none => bracket H | some p => bracket H ++ [58] ++ natToStr p)
        else makeNetloc (q e Gen.QUOTER) user pw (some (bracket H)) pt true) =
      authText (user.map (q e Gen.QUOTER)) (pw.map (q e Gen.QUOTER)) H pt := netloc_build e user pw H
  have hport' := effPort_match sc' port
  have hpcases : storedPath e path = [] ∧ path = [] ∨
      ∃ p, path = 47 :: p ∧ storedPath e path = q e Gen.PATH_QUOTER (normalizePath (47 :: p)) ∧
        PyStr (47 :: p) ∧ NoSurrogate (47 :: p) := by
    rcases hpath with rfl | ⟨p, rfl, hp, hn⟩
    · exact Or.inl ⟨rfl, rfl⟩
    · exact Or.inr ⟨p, rfl, rfl, hp, hn⟩
  -- the query part
  have hquery : ∃ Q0, (if qargTruthy qa = true then (getStrQuery e.b qa).bind (fun r => pure (r.getD []))
        else pure qs : R Str) = .ok Q0 ∧
      (if (!qargTruthy qa && !Q0.isEmpty) = true then q e Gen.QUERY_QUOTER Q0 else Q0) = Q := by
    cases hT : qargTruthy qa with
    | true =>
      obtain ⟨rfl, hg⟩ := hq1 hT
      exact ⟨Q, by simp [hg, Except.bind, pure, Except.pure], by simp⟩
    | false =>
      refine ⟨qs, by simp [pure, Except.pure], ?_⟩
      rw [hq2 hT]; cases qs <;> rfl
  obtain ⟨Q0, hQ0, hQ0'⟩ := hquery
  have hasc : (if (!isAscii (authText user pw D port)) = true then checkNetloc e.o (authText user pw D port)
      else pure ()) = .ok () := hchk
  have hnoq : (qargTruthy qa && !qs.isEmpty) = false := by
    cases hT : qargTruthy qa with
    | true => rw [(hq1 hT).1]; rfl
    | false => rfl
  unfold build
  simp only [hneA, Bool.not_false, Bool.true_and, Option.any_none, List.isEmpty_nil, Bool.not_true, Bool.or_self,
    Bool.false_eq_true, if_false, ne_eq, not_true_eq_false, Bool.false_and, Bool.and_false, hnoq]
  simp only [bind, Except.bind] at hQ0 ⊢
  rw [hQ0]
  simp only [hl, pure, Except.pure]
  cases ha : isAscii (authText user pw D port) with
  | true =>
    simp only [Bool.not_true, Bool.false_eq_true, if_false, hsplit, hrt.enc, hkeep]
    cases port with
    | none =>
      simp only [ite_ok, ↓reduceIte, netloc_build_none, netloc_build_some, effPort]
      rcases hpcases with ⟨h1, rfl⟩ | ⟨p, rfl, h1, hp, hn⟩
      · simp only [h1, netloc_build_none, netloc_build_some, ↓reduceIte, List.isEmpty_nil, Bool.not_true, Bool.false_and, Bool.false_eq_true, if_false, hQ0']
      · simp only [h1, netloc_build_none, netloc_build_some, Bool.true_and, ↓reduceIte, Bool.false_eq_true, hq _ hp hn, List.isEmpty_cons, Bool.not_false, hnlA, Bool.and_self, if_true, hd _ hp hn, hQ0']
    | some n =>
      by_cases hdp : some n = defaultPort sc'
      · simp only [hdp, if_true, ite_ok, ↓reduceIte, netloc_build_none, netloc_build_some, effPort]
        rcases hpcases with ⟨h1, rfl⟩ | ⟨p, rfl, h1, hp, hn⟩
        · simp only [h1, netloc_build_none, netloc_build_some, ↓reduceIte, List.isEmpty_nil, Bool.not_true, Bool.false_and, Bool.false_eq_true, if_false, hQ0']
        · simp only [h1, netloc_build_none, netloc_build_some, Bool.true_and, ↓reduceIte, Bool.false_eq_true, hq _ hp hn, List.isEmpty_cons, Bool.not_false, hnlA,
            Bool.and_self, if_true, hd _ hp hn, hQ0']
      · simp only [hdp, if_false, ite_ok, ↓reduceIte, netloc_build_none, netloc_build_some, effPort]
        rcases hpcases with ⟨h1, rfl⟩ | ⟨p, rfl, h1, hp, hn⟩
        · simp only [h1, netloc_build_none, netloc_build_some, ↓reduceIte, List.isEmpty_nil, Bool.not_true, Bool.false_and, Bool.false_eq_true, if_false, hQ0']
        · simp only [h1, netloc_build_none, netloc_build_some, Bool.true_and, ↓reduceIte, Bool.false_eq_true, hq _ hp hn, List.isEmpty_cons, Bool.not_false, hnlA,
            Bool.and_self, if_true, hd _ hp hn, hQ0']
  | false =>
    have hck := hnf ha
    simp only [Bool.not_false, if_true, hck, hsplit, hrt.enc, hkeep]
    cases port with
    | none =>
      simp only [ite_ok, ↓reduceIte, netloc_build_none, netloc_build_some, effPort]
      rcases hpcases with ⟨h1, rfl⟩ | ⟨p, rfl, h1, hp, hn⟩
      · simp only [h1, netloc_build_none, netloc_build_some, ↓reduceIte, List.isEmpty_nil, Bool.not_true, Bool.false_and, Bool.false_eq_true, if_false, hQ0']
      · simp only [h1, netloc_build_none, netloc_build_some, Bool.true_and, ↓reduceIte, Bool.false_eq_true, hq _ hp hn, List.isEmpty_cons, Bool.not_false, hnlA, Bool.and_self, if_true, hd _ hp hn, hQ0']
    | some n =>
      by_cases hdp : some n = defaultPort sc'
      · simp only [hdp, if_true, ite_ok, ↓reduceIte, netloc_build_none, netloc_build_some, effPort]
        rcases hpcases with ⟨h1, rfl⟩ | ⟨p, rfl, h1, hp, hn⟩
        · simp only [h1, netloc_build_none, netloc_build_some, ↓reduceIte, List.isEmpty_nil, Bool.not_true, Bool.false_and, Bool.false_eq_true, if_false, hQ0']
        · simp only [h1, netloc_build_none, netloc_build_some, Bool.true_and, ↓reduceIte, Bool.false_eq_true, hq _ hp hn, List.isEmpty_cons, Bool.not_false, hnlA,
            Bool.and_self, if_true, hd _ hp hn, hQ0']
      · simp only [hdp, if_false, ite_ok, ↓reduceIte, netloc_build_none, netloc_build_some, effPort]
        rcases hpcases with ⟨h1, rfl⟩ | ⟨p, rfl, h1, hp, hn⟩
        · simp only [h1, netloc_build_none, netloc_build_some, ↓reduceIte, List.isEmpty_nil, Bool.not_true, Bool.false_and, Bool.false_eq_true, if_false, hQ0']
        · simp only [h1, netloc_build_none, netloc_build_some, Bool.true_and, ↓reduceIte, Bool.false_eq_true, hq _ hp hn, List.isEmpty_cons, Bool.not_false, hnlA,
            Bool.and_self, if_true, hd _ hp hn, hQ0']

end HumanReach
end Yarl
