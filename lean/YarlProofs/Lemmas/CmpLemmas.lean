/-
  CmpLemmas.lean — order facts for `ltStr` (Python's `str.__lt__` on code-point lists)
  and their lift through `ltParts` (5-tuple lexicographic comparison).
-/
import YarlModel
namespace Yarl.CmpLemmas
open Yarl

/-! ### `ltStr` is a strict total order on `List Nat` -/

theorem ltStr_irrefl (a : Str) : ltStr a a = false := by
  induction a with
  | nil => rfl
  | cons x xs ih => simp [ltStr, ih]

theorem ltStr_asymm : ∀ (a b : Str), ltStr a b = true → ltStr b a = false
  | [], [], h => by simp [ltStr] at h
  | [], _ :: _, _ => by simp [ltStr]
  | _ :: _, [], h => by simp [ltStr] at h
  | x :: xs, y :: ys, h => by
    simp only [ltStr] at h ⊢
    by_cases h1 : x < y
    · have h2 : ¬ y < x := by omega
      simp [h2, h1]
    · by_cases h2 : y < x
      · simp [h1, h2] at h
      · simp only [h1, h2, if_false] at h ⊢
        exact ltStr_asymm xs ys h

theorem ltStr_total : ∀ (a b : Str), ltStr a b = true ∨ a = b ∨ ltStr b a = true
  | [], [] => by simp
  | [], _ :: _ => by simp [ltStr]
  | _ :: _, [] => by simp [ltStr]
  | x :: xs, y :: ys => by
    simp only [ltStr]
    by_cases h1 : x < y
    · simp [h1]
    · by_cases h2 : y < x
      · simp [h2]
      · have : x = y := by omega
        subst this
        simp only [h1, if_false, List.cons.injEq, true_and]
        exact ltStr_total xs ys

theorem ltStr_trans : ∀ (a b c : Str), ltStr a b = true → ltStr b c = true → ltStr a c = true
  | [], [], _, h, _ => by simp [ltStr] at h
  | [], _ :: _, [], _, h => by simp [ltStr] at h
  | [], _ :: _, _ :: _, _, _ => by simp [ltStr]
  | _ :: _, [], _, h, _ => by simp [ltStr] at h
  | _ :: _, _ :: _, [], _, h => by simp [ltStr] at h
  | x :: xs, y :: ys, z :: zs, h1, h2 => by
    simp only [ltStr] at h1 h2 ⊢
    by_cases hxy : x < y
    · by_cases hyz : y < z
      · have : x < z := by omega
        simp [this]
      · by_cases hzy : z < y
        · simp [hyz, hzy] at h2
        · have : y = z := by omega
          subst this
          simp [hxy]
    · by_cases hyx : y < x
      · simp [hxy, hyx] at h1
      · have : x = y := by omega
        subst this
        simp only [hxy, if_false] at h1
        by_cases hxz : x < z
        · simp [hxz]
        · by_cases hzx : z < x
          · simp [hxz, hzx] at h2
          · simp only [hxz, hzx, if_false] at h2 ⊢
            exact ltStr_trans xs ys zs h1 h2

theorem ltStr_ne {a b : Str} (h : ltStr a b = true) : a ≠ b := by
  intro e; subst e; rw [ltStr_irrefl] at h; cases h

/-- exactly one of `a < b`, `a = b`, `b < a` -/
theorem ltStr_trichotomy (a b : Str) :
    (ltStr a b = true ∧ a ≠ b ∧ ltStr b a = false) ∨
    (ltStr a b = false ∧ a = b ∧ ltStr b a = false) ∨
    (ltStr a b = false ∧ a ≠ b ∧ ltStr b a = true) := by
  rcases ltStr_total a b with h | h | h
  · exact .inl ⟨h, ltStr_ne h, ltStr_asymm _ _ h⟩
  · subst h; exact .inr (.inl ⟨ltStr_irrefl _, rfl, ltStr_irrefl _⟩)
  · exact .inr (.inr ⟨ltStr_asymm _ _ h, (ltStr_ne h).symm, h⟩)

theorem parts_ext {a b : Parts} (h1 : a.scheme = b.scheme) (h2 : a.netloc = b.netloc)
    (h3 : a.path = b.path) (h4 : a.query = b.query) (h5 : a.fragment = b.fragment) : a = b := by
  cases a; cases b; simp_all

/-! ### `ltParts` is a strict total order on `Parts` -/

theorem ltParts_irrefl (a : Parts) : ltParts a a = false := by
  simp [ltParts, ltStr_irrefl]

theorem ltParts_total (a b : Parts) : ltParts a b = true ∨ a = b ∨ ltParts b a = true := by
  unfold ltParts
  by_cases h1 : a.scheme = b.scheme
  · by_cases h2 : a.netloc = b.netloc
    · by_cases h3 : a.path = b.path
      · by_cases h4 : a.query = b.query
        · simp only [h1, h2, h3, h4, ne_eq, not_true_eq_false, if_false]
          rcases ltStr_total a.fragment b.fragment with h | h | h
          · exact .inl h
          · exact .inr (.inl (parts_ext h1 h2 h3 h4 h))
          · exact .inr (.inr h)
        · have h4' : ¬ b.query = a.query := fun e => h4 e.symm
          simp only [h1, h2, h3, h4, h4', ne_eq, not_true_eq_false, not_false_eq_true, if_false, if_true]
          rcases ltStr_total a.query b.query with h | h | h
          · exact .inl h
          · exact absurd h h4
          · exact .inr (.inr h)
      · have h3' : ¬ b.path = a.path := fun e => h3 e.symm
        simp only [h1, h2, h3, h3', ne_eq, not_true_eq_false, not_false_eq_true, if_false, if_true]
        rcases ltStr_total a.path b.path with h | h | h
        · exact .inl h
        · exact absurd h h3
        · exact .inr (.inr h)
    · have h2' : ¬ b.netloc = a.netloc := fun e => h2 e.symm
      simp only [h1, h2, h2', ne_eq, not_true_eq_false, not_false_eq_true, if_false, if_true]
      rcases ltStr_total a.netloc b.netloc with h | h | h
      · exact .inl h
      · exact absurd h h2
      · exact .inr (.inr h)
  · have h1' : ¬ b.scheme = a.scheme := fun e => h1 e.symm
    simp only [h1, h1', ne_eq, not_false_eq_true, if_true]
    rcases ltStr_total a.scheme b.scheme with h | h | h
    · exact .inl h
    · exact absurd h h1
    · exact .inr (.inr h)

theorem ltParts_asymm (a b : Parts) (h : ltParts a b = true) : ltParts b a = false := by
  unfold ltParts at h ⊢
  by_cases h1 : a.scheme = b.scheme
  · by_cases h2 : a.netloc = b.netloc
    · by_cases h3 : a.path = b.path
      · by_cases h4 : a.query = b.query
        · simp only [h1, h2, h3, h4, ne_eq, not_true_eq_false, if_false] at h ⊢
          exact ltStr_asymm _ _ h
        · have h4' : ¬ b.query = a.query := fun e => h4 e.symm
          simp only [h1, h2, h3, h4, h4', ne_eq, not_true_eq_false, not_false_eq_true, if_false, if_true] at h ⊢
          exact ltStr_asymm _ _ h
      · have h3' : ¬ b.path = a.path := fun e => h3 e.symm
        simp only [h1, h2, h3, h3', ne_eq, not_true_eq_false, not_false_eq_true, if_false, if_true] at h ⊢
        exact ltStr_asymm _ _ h
    · have h2' : ¬ b.netloc = a.netloc := fun e => h2 e.symm
      simp only [h1, h2, h2', ne_eq, not_true_eq_false, not_false_eq_true, if_false, if_true] at h ⊢
      exact ltStr_asymm _ _ h
  · have h1' : ¬ b.scheme = a.scheme := fun e => h1 e.symm
    simp only [h1, h1', ne_eq, not_false_eq_true, if_true] at h ⊢
    exact ltStr_asymm _ _ h

/-- one lexicographic level, as a relation on pairs (key, rest-comparison result) -/
theorem lex_trans {x y z : Str} {r1 r2 r3 : Bool}
    (hrest : x = y → y = z → r1 = true → r2 = true → r3 = true)
    (h1 : (if x ≠ y then ltStr x y else r1) = true)
    (h2 : (if y ≠ z then ltStr y z else r2) = true) :
    (if x ≠ z then ltStr x z else r3) = true := by
  by_cases hxy : x = y
  · subst hxy
    by_cases hyz : x = z
    · subst hyz
      simp only [ne_eq, not_true_eq_false, if_false] at h1 h2 ⊢
      exact hrest rfl rfl h1 h2
    · simp only [ne_eq, hyz, not_false_eq_true, if_true] at h2 ⊢
      exact h2
  · simp only [ne_eq, hxy, not_false_eq_true, if_true] at h1
    by_cases hyz : y = z
    · subst hyz
      simp only [ne_eq, hxy, not_false_eq_true, if_true]
      exact h1
    · simp only [ne_eq, hyz, not_false_eq_true, if_true] at h2
      have h3 := ltStr_trans _ _ _ h1 h2
      have : x ≠ z := ltStr_ne h3
      simp only [ne_eq, this, not_false_eq_true, if_true]
      exact h3

theorem ltParts_trans (a b c : Parts) (h1 : ltParts a b = true) (h2 : ltParts b c = true) :
    ltParts a c = true := by
  unfold ltParts at h1 h2 ⊢
  refine lex_trans (fun _ _ h1 h2 => ?_) h1 h2
  refine lex_trans (fun _ _ h1 h2 => ?_) h1 h2
  refine lex_trans (fun _ _ h1 h2 => ?_) h1 h2
  refine lex_trans (fun _ _ h1 h2 => ?_) h1 h2
  exact ltStr_trans _ _ _ h1 h2

theorem ltParts_ne {a b : Parts} (h : ltParts a b = true) : a ≠ b := by
  intro e; subst e; rw [ltParts_irrefl] at h; cases h

end Yarl.CmpLemmas
