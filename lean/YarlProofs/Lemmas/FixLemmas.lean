/-
  FixLemmas.lean — helper lemmas for C04 (already-canonical URLs are left
  untouched) and C03 (the canonical string is a fixed point of parsing).

  Part 1: characters of canonical component texts (`Canon t s`), the generated
          requoters on canonical text, compatibility of quoter / requoter pairs.
  Part 2: the Appendix B decomposition of a composed string.
  Part 3: `encodeUrl` / `str` in two stages (parse, authority block, components).
-/
import YarlModel
import YarlProofs.Lemmas.Canon
import YarlProofs.Lemmas.GenTabs
import YarlProofs.C12Readback
import YarlProofs.C15
import YarlProofs.C07
import YarlProofs.C16
import YarlProofs.Lemmas.NetlocLemmas
import YarlProofs.C17
import YarlProofs.C11
set_option linter.unusedVariables false
namespace Yarl
namespace FixLemmas
open OutLangLemmas ParseLemmas HostLemmas

/-- decidable equality of results, for closed examples -/
instance exceptDecEq {ε α : Type} [DecidableEq ε] [DecidableEq α] : DecidableEq (Except ε α)
  | .ok a, .ok b => if h : a = b then isTrue (by rw [h]) else isFalse (fun e => h (by cases e; rfl))
  | .error a, .error b => if h : a = b then isTrue (by rw [h]) else isFalse (fun e => h (by cases e; rfl))
  | .ok _, .error _ => isFalse (fun e => by cases e)
  | .error _, .ok _ => isFalse (fun e => by cases e)

/-! ## Part 1 — canonical component texts -/

theorem toHex_hex {x : Nat} (h : x < 16) : isUpperHexDigit (toHex x) = true := toHex_upper h

/-- every character of a canonical text is a safe literal, `%`, or an upper-case hex digit -/
theorem canon_chars {t : QTab} {s : Str} (h : Canon t s) :
    ∀ c ∈ s, (t.safe c = true ∧ c ≠ 37) ∨ c = 37 ∨ isUpperHexDigit c = true := by
  induction h with
  | nil => intro c hc; simp at hc
  | lit c r hs hc hq _ ih =>
    intro x hx
    rcases List.mem_cons.1 hx with rfl | hx
    · exact Or.inl ⟨hs, hc⟩
    · exact ih x hx
  | esc b r hb hk _ ih =>
    intro x hx
    simp only [pct, List.cons_append, List.nil_append, List.mem_cons] at hx
    rcases hx with rfl | rfl | rfl | hx
    · exact Or.inr (Or.inl rfl)
    · exact Or.inr (Or.inr (toHex_upper (by omega)))
    · exact Or.inr (Or.inr (toHex_upper (by omega)))
    · exact ih x hx

theorem upperHex_range {c : Nat} (h : isUpperHexDigit c = true) : (48 ≤ c ∧ c ≤ 57) ∨ (65 ≤ c ∧ c ≤ 70) := by
  unfold isUpperHexDigit at h
  simp at h
  omega

theorem canon_ascii {t : QTab} (ht : t.WF) {s : Str} (h : Canon t s) : ∀ c ∈ s, c < 128 := by
  intro c hc
  rcases canon_chars h c hc with h1 | rfl | h1
  · exact ht.safe_ascii c h1.1
  · omega
  · have := upperHex_range h1; omega

theorem canon_pyStr {t : QTab} (ht : t.WF) {s : Str} (h : Canon t s) : PyStr s := by
  intro c hc
  have := canon_ascii ht h c hc
  omega

theorem canon_noSurr {t : QTab} (ht : t.WF) {s : Str} (h : Canon t s) : stripSurr s = s := by
  apply QsLemmas.stripSurr_id
  intro c hc
  have := canon_ascii ht h c hc
  unfold isSurrogate
  simp
  omega

/-- a character that is neither safe, nor `%`, nor an upper-case hex digit does not occur -/
theorem canon_not_mem {t : QTab} {s : Str} (h : Canon t s) {c : Nat} (h1 : t.safe c = false)
    (h2 : c ≠ 37) (h3 : isUpperHexDigit c = false) : c ∉ s := by
  intro hc
  rcases canon_chars h c hc with h | h | h
  · rw [h1] at h; exact Bool.noConfusion h.1
  · exact h2 h
  · rw [h3] at h; exact Bool.noConfusion h

theorem canon_append {t : QTab} {a b : Str} (ha : Canon t a) (hb : Canon t b) : Canon t (a ++ b) := by
  induction ha with
  | nil => simpa using hb
  | lit c r hs hc hq _ ih => exact Canon.lit c _ hs hc hq ih
  | esc x r hx hk _ ih =>
    rw [List.append_assoc]
    exact Canon.esc x _ hx hk ih

theorem tab_qs (a : QArgs) (b : Backend) : (a.tab b).qs = a.qs := by cases b <;> rfl
theorem tab_requote (a : QArgs) (b : Backend) : (a.tab b).requote = a.requote := by cases b <;> rfl

/-- both backends use the same tables (for the generated configurations) -/
theorem tab_eq_c (a : QArgs) (ha : a ∈ Gen.allQuoters) (b : Backend) : a.tab b = a.tab .c := by
  cases b with
  | py => exact gen_tab_backend_eq a ha
  | c => rfl

/-- a generated requoter computes `cOut` -/
theorem run_cOut (a : QArgs) (ha : a ∈ Gen.allQuoters) (b : Backend) (s : Str) (hs : PyStr s) :
    a.run b s = cOut (a.tab b) (stripSurr s) := QsLemmas.run_eq_cOut a ha b s hs

theorem run_fixed (b : Backend) (a : QArgs) (ha : a ∈ Gen.allQuoters) (hreq : a.requote = true)
    {s : Str} (h : Canon (a.tab b) s) : a.run b s = s := by
  have hwf := gen_tab_wf a ha b
  rw [run_cOut a ha b s (canon_pyStr hwf h), canon_noSurr hwf h]
  exact cOut_fixed_on_canon _ hwf (by rw [tab_requote]; exact hreq) h

/-- the output of a generated requoter is canonical for it -/
theorem run_canon (b : Backend) (a : QArgs) (ha : a ∈ Gen.allQuoters) (hreq : a.requote = true)
    (s : Str) (hs : PyStr s) : Canon (a.tab b) (a.run b s) := by
  have hwf := gen_tab_wf a ha b
  rw [run_cOut a ha b s hs]
  exact cOut_in_canon _ _ hwf hwf rfl (fun _ h => h) (fun _ h _ => h) (fun _ h => h)
    (fun hq => gen_qs_plus_safe_requoters a ha hreq (by rw [← tab_qs a b]; exact hq) b)
    (gen_space_unsafe a ha b) _ (QuoteEquiv.pyStr_stripSurr hs)

/-! ### compatibility of a quoter with its requoting partner, decidable on the ASCII range -/

/-- the side conditions of `cOut_requote_fixed`, restricted to `c < 128` -/
def CompatLt (t t' : QTab) : Prop :=
  t'.qs = t.qs ∧ (∀ c, c < 128 → t'.safe c = true → t.safe c = true) ∧
  (∀ c, c < 128 → t.safe c = true → t.prot c = false → t'.safe c = true) ∧
  (∀ c, c < 128 → t'.prot c = true → t.prot c = true) ∧
  (t.qs = true → t.safe 43 = true) ∧ t.safe 32 = false

instance (t t' : QTab) : Decidable (CompatLt t t') := by unfold CompatLt; infer_instance

theorem compat_of_lt {t t' : QTab} (ht : t.WF) (ht' : t'.WF) (k : CompatLt t t') : Compat t t' where
  qs := k.1
  sub := fun c h => k.2.1 c (ht'.safe_ascii c h) h
  esc := fun c h h2 => k.2.2.1 c (ht.safe_ascii c h) h h2
  prot := fun c h => k.2.2.2.1 c (ht'.safe_ascii c (ht'.prot_safe c h)) h
  plus := k.2.2.2.2.1
  sp := k.2.2.2.2.2

theorem partner_fixed (b : Backend) (r a : QArgs) (hr : r ∈ Gen.allQuoters) (ha : a ∈ Gen.allQuoters)
    (hreq : r.requote = true) (k : CompatLt (r.tab b) (a.tab b)) (s : Str) (hs : PyStr s) :
    Canon (r.tab b) (a.run b s) ∧ r.run b (a.run b s) = a.run b s := by
  have hwr := gen_tab_wf r hr b
  have hwa := gen_tab_wf a ha b
  have hc : Canon (r.tab b) (a.run b s) := by
    rw [run_cOut a ha b s hs]
    exact cOut_canon_of_compat hwa (compat_of_lt hwr hwa k) _ (QuoteEquiv.pyStr_stripSurr hs)
  exact ⟨hc, run_fixed b r hr hreq hc⟩

end FixLemmas

/-! ## Part 2 — composing a URL string and reading it back (Appendix B) -/

/-- `"?" ++ query` unless empty -/
def qPart (query : Str) : Str := if query.isEmpty then [] else 63 :: query
/-- `"#" ++ fragment` unless empty -/
def fPart (fragment : Str) : Str := if fragment.isEmpty then [] else 35 :: fragment

/-- `scheme ++ "://" ++ authority ++ path ++ ("?" ++ query)? ++ ("#" ++ fragment)?` -/
def composeUrl (scheme auth path query fragment : Str) : Str :=
  scheme ++ [58, 47, 47] ++ auth ++ path ++ qPart query ++ fPart fragment

/-- every character is a visible ASCII-or-above character (no C0 control, no space) -/
def Visible (s : Str) : Prop := ∀ c ∈ s, 33 ≤ c

/-- a non-empty string of lower-case scheme characters (`split_url` does not insist on a leading
    letter: `url[0] in scheme_chars`) -/
def SchemeOK (scheme : Str) : Prop :=
  scheme ≠ [] ∧ ∀ c ∈ scheme, mem c Gen.schemeChars = true ∧ ¬ (65 ≤ c ∧ c ≤ 90)

/-- empty or starting with "/" -/
def Rooted (path : Str) : Prop := path = [] ∨ ∃ r, path = 47 :: r

instance (s : Str) : Decidable (Visible s) := by unfold Visible; infer_instance
instance (s : Str) : Decidable (SchemeOK s) := by unfold SchemeOK; infer_instance
instance (s : Str) : Decidable (Rooted s) := by
  unfold Rooted
  have : Decidable (∃ r, s = 47 :: r) :=
    match s with
    | [] => isFalse (by rintro ⟨r, h⟩; cases h)
    | a :: r => decidable_of_iff (a = 47)
        ⟨fun h => ⟨r, by rw [h]⟩, by rintro ⟨r', h⟩; cases h; rfl⟩
  infer_instance

namespace FixLemmas
open OutLangLemmas ParseLemmas HostLemmas

theorem takeWhile_append_stop (p : Nat → Bool) (a b : Str) (ha : ∀ x ∈ a, p x = true)
    (hb : ∀ y ∈ b.head?, p y = false) :
    (a ++ b).takeWhile p = a ∧ (a ++ b).dropWhile p = b := by
  induction a with
  | nil =>
    cases b with
    | nil => simp
    | cons y r =>
      have := hb y (by simp)
      simp [this]
  | cons x xs ih =>
    have hx := ha x (by simp)
    have := ih (fun y hy => ha y (by simp [hy]))
    simp [hx, this.1, this.2]

theorem head_qPart (q : Str) : ∀ y ∈ (qPart q).head?, y = 63 := by
  unfold qPart; split <;> simp
theorem head_fPart (f : Str) : ∀ y ∈ (fPart f).head?, y = 35 := by
  unfold fPart; split <;> simp
theorem drop_qPart (q : Str) : (qPart q).drop 1 = q := by
  unfold qPart; split
  · rename_i h; simp at h; simp [h]
  · simp
theorem drop_fPart (f : Str) : (fPart f).drop 1 = f := by
  unfold fPart; split
  · rename_i h; simp at h; simp [h]
  · simp

theorem head?_append_of (a b : Str) (P : Nat → Prop) (ha : ∀ y ∈ a.head?, P y) (hb : ∀ y ∈ b.head?, P y) :
    ∀ y ∈ (a ++ b).head?, P y := by
  cases a with
  | nil => simpa using hb
  | cons x xs => simpa using ha

theorem head_rooted {p : Str} (h : Rooted p) : ∀ y ∈ p.head?, y = 47 := by
  rcases h with rfl | ⟨r, rfl⟩ <;> simp

/-- the `([^?#]*)(\?([^#]*))?(#(.*))?` groups of a composed tail -/
theorem tailOf_compose (path query fragment : Str) (hp : ∀ c ∈ path, c ≠ 63 ∧ c ≠ 35)
    (hq : ∀ c ∈ query, c ≠ 35) :
    tailOf (path ++ (qPart query ++ fPart fragment)) = (path, query, fragment) := by
  rw [tailOf_eq, ← List.append_assoc]
  have h35 : ∀ x ∈ path ++ qPart query, (fun x => decide (x ≠ 35)) x = true := by
    intro x hx
    rcases List.mem_append.1 hx with h | h
    · simpa using (hp x h).2
    · unfold qPart at h
      split at h
      · simp at h
      · rcases List.mem_cons.1 h with rfl | h
        · simp
        · simpa using hq x h
  have hf : ∀ y ∈ (fPart fragment).head?, (fun x => decide (x ≠ 35)) y = false := by
    intro y hy; simp [head_fPart fragment y hy]
  obtain ⟨e1, e2⟩ := takeWhile_append_stop (fun x => decide (x ≠ 35)) _ _ h35 hf
  rw [e1, e2]
  have h63 : ∀ x ∈ path, (fun x => decide (x ≠ 63)) x = true := by
    intro x hx; simpa using (hp x hx).1
  have hq' : ∀ y ∈ (qPart query).head?, (fun x => decide (x ≠ 63)) y = false := by
    intro y hy; simp [head_qPart query y hy]
  obtain ⟨e3, e4⟩ := takeWhile_append_stop (fun x => decide (x ≠ 63)) _ _ h63 hq'
  rw [e3, e4, drop_qPart, drop_fPart]

/-- the `(//([^/?#]*))?` group -/
theorem authOf_compose (auth tail : Str) (ha : ∀ c ∈ auth, Rfc.isDelim3 c = false)
    (ht : ∀ y ∈ tail.head?, Rfc.isDelim3 y = true) :
    authOf (47 :: 47 :: (auth ++ tail)) = (auth, tail) := by
  unfold authOf
  obtain ⟨e1, e2⟩ := takeWhile_append_stop (fun c => !Rfc.isDelim3 c) auth tail
    (fun x hx => by simp [ha x hx]) (fun y hy => by simp [ht y hy])
  simp only [e1, e2]

theorem schemeChars_no_colon : ∀ c, mem c Gen.schemeChars = true → c ≠ 58 := by
  intro c h e
  subst e
  revert h
  decide

theorem lower_of_no_upper {s : Str} (h : ∀ c ∈ s, ¬ (65 ≤ c ∧ c ≤ 90)) : lower s = s := by
  induction s with
  | nil => rfl
  | cons x xs ih =>
    have hx := h x (by simp)
    simp only [lower, List.map_cons, List.cons.injEq]
    refine ⟨?_, ih (fun c hc => h c (by simp [hc]))⟩
    unfold lowerC; rw [if_neg hx]

theorem schemeOf_compose (scheme rest : Str) (hs : SchemeOK scheme) :
    Rfc.schemeOf Gen.schemeChars (scheme ++ 58 :: rest) = (scheme, rest) := by
  unfold Rfc.schemeOf
  obtain ⟨hscheme, hc⟩ := hs
  obtain ⟨e1, e2⟩ := takeWhile_append_stop (fun x => decide (x ≠ 58)) scheme (58 :: rest)
    (fun x hx => by simpa using schemeChars_no_colon x (hc x hx).1) (fun y hy => by simp at hy; simp [← hy])
  simp only [e1, e2]
  have h1 : scheme.isEmpty = false := by cases scheme with
    | nil => exact absurd rfl hscheme
    | cons _ _ => rfl
  have h2 : scheme.all (fun c => Gen.schemeChars.contains c) = true := by
    rw [List.all_eq_true]; intro x hx; exact (hc x hx).1
  simp only [h1, h2, Bool.not_false, Bool.and_self, if_true]
  rw [lower_of_no_upper (fun c hx => (hc c hx).2)]

theorem composeUrl_eq (scheme auth path query fragment : Str) :
    composeUrl scheme auth path query fragment =
      scheme ++ 58 :: 47 :: 47 :: (auth ++ (path ++ (qPart query ++ fPart fragment))) := by
  simp [composeUrl]

theorem appendixB_compose (scheme auth path query fragment : Str) (hs : SchemeOK scheme)
    (ha : ∀ c ∈ auth, Rfc.isDelim3 c = false) (hr : Rooted path)
    (hp : ∀ c ∈ path, c ≠ 63 ∧ c ≠ 35) (hq : ∀ c ∈ query, c ≠ 35) :
    Rfc.appendixB Gen.schemeChars (composeUrl scheme auth path query fragment) =
      { scheme := scheme, authority := auth, path := path, query := query, fragment := fragment } := by
  rw [appendixB_eq, composeUrl_eq, schemeOf_compose _ _ hs]
  simp only
  have ht : ∀ y ∈ (path ++ (qPart query ++ fPart fragment)).head?, Rfc.isDelim3 y = true := by
    apply head?_append_of _ _ (fun y => Rfc.isDelim3 y = true)
    · intro y hy; rw [head_rooted hr y hy]; rfl
    · apply head?_append_of _ _ (fun y => Rfc.isDelim3 y = true)
      · intro y hy; rw [head_qPart _ y hy]; rfl
      · intro y hy; rw [head_fPart _ y hy]; rfl
  rw [authOf_compose auth _ ha ht]
  simp only [tailOf_compose path query fragment hp hq]

theorem cleanUrl_visible {s : Str} (h : Visible s) : cleanUrl s = s := by
  rw [C07_clean_spec]
  have e1 : s.dropWhile (fun c => decide (c ≤ 32)) = s := by
    cases s with
    | nil => rfl
    | cons x xs =>
      have := h x (by simp)
      rw [List.dropWhile_cons]
      simp only [decide_eq_true_eq]
      rw [if_neg (by omega)]
  rw [e1]
  apply List.filter_eq_self.mpr
  intro c hc
  have := h c hc
  simp only [ne_eq, decide_eq_true_eq]
  omega

theorem visible_append {a b : Str} (ha : Visible a) (hb : Visible b) : Visible (a ++ b) := by
  intro c hc
  rcases List.mem_append.1 hc with h | h
  · exact ha c h
  · exact hb c h

theorem visible_qPart {q : Str} (h : Visible q) : Visible (qPart q) := by
  unfold qPart; split
  · intro c hc; simp at hc
  · intro c hc
    rcases List.mem_cons.1 hc with rfl | hc
    · omega
    · exact h c hc

theorem visible_fPart {q : Str} (h : Visible q) : Visible (fPart q) := by
  unfold fPart; split
  · intro c hc; simp at hc
  · intro c hc
    rcases List.mem_cons.1 hc with rfl | hc
    · omega
    · exact h c hc

theorem schemeChars_visible : ∀ c, mem c Gen.schemeChars = true → 33 ≤ c := by
  intro c h
  have : ∀ x ∈ Gen.schemeChars, 33 ≤ x := by decide
  exact this c (GenTabs.mem_iff.mp h)

theorem visible_compose {scheme auth path query fragment : Str} (hs : SchemeOK scheme) (ha : Visible auth)
    (hp : Visible path) (hq : Visible query) (hf : Visible fragment) :
    Visible (composeUrl scheme auth path query fragment) := by
  unfold composeUrl
  refine visible_append (visible_append (visible_append (visible_append (visible_append ?_ ?_) ha) hp)
    (visible_qPart hq)) (visible_fPart hf)
  · intro c hc; exact schemeChars_visible c (hs.2 c hc).1
  · intro c hc; simp at hc; omega

/-- parsing a composed string gives back its five parts -/
theorem splitUrl_compose (o : Oracles) (scheme auth path query fragment : Str) (hs : SchemeOK scheme)
    (ha : ∀ c ∈ auth, 33 ≤ c ∧ c < 128 ∧ Rfc.isDelim3 c = false) (hb : checkBrackets auth = .ok ())
    (hr : Rooted path) (hp : ∀ c ∈ path, 33 ≤ c ∧ c ≠ 63 ∧ c ≠ 35) (hq : ∀ c ∈ query, 33 ≤ c ∧ c ≠ 35)
    (hf : Visible fragment) :
    splitUrl o (composeUrl scheme auth path query fragment) =
      .ok { scheme := scheme, netloc := auth, path := path, query := query, fragment := fragment } := by
  rw [splitUrl_eq]
  unfold splitUrlNF
  rw [cleanUrl_visible (visible_compose hs (fun c hc => (ha c hc).1) (fun c hc => (hp c hc).1)
    (fun c hc => (hq c hc).1) hf)]
  rw [appendixB_compose scheme auth path query fragment hs (fun c hc => (ha c hc).2.2) hr
    (fun c hc => (hp c hc).2) (fun c hc => (hq c hc).2)]
  simp only [hb]
  have hascii : isAscii auth = true := by
    unfold isAscii; rw [List.all_eq_true]; intro c hc; simpa using (ha c hc).2.1
  simp [hascii, pure, Except.pure]

/-! ## Part 3 — `encodeUrl` in stages -/

/-- the authority block of `encode_url`: `(netloc, cache pre-fill)` -/
def netBlock (e : Env) (scheme netloc0 : Str) : R (Str × Option NetPre) :=
    (if netloc0.isEmpty then pure (([] : Str), (none : Option NetPre))
    else do
      let np ← (if mem 58 netloc0 || mem 64 netloc0 || mem 91 netloc0 then splitNetloc e.o netloc0
                else pure { user := none, password := none, host := some netloc0, port := none } : R NetlocParts)
      let host0 ← (match np.host with
        | some h => pure h
        | none => if Gen.schemeRequiresHost.contains scheme then .error .valueError else pure [] : R Str)
      let host1 ← encodeHost e.o host0 false
      -- a bracketed host that is not an IPv6 address keeps the brackets the input had
      let host := if mem 91 (rpartition 64 netloc0).2.2 && !mem 91 host1 then [91] ++ host1 ++ [93] else host1
      let rawHost := if mem 91 host then (host.drop 1).dropLast else host
      if np.password.isNone && np.user.isNone then
        let netloc := match np.port with
          | none => host
          | some pt => host ++ [58] ++ natToStr pt
        pure (netloc, some { rawHost := some rawHost, explicitPort := np.port, rawUser := none, rawPassword := none })
      else
        -- `(REQUOTER(username) or None)`: a user that requotes to "" is no user (commit 2fdb38c)
        let ru := (requoteOpt e np.user).bind (fun s => if s.isEmpty then none else some s)
        let rp := requoteOpt e np.password
        let netloc := makeNetloc (q e Gen.QUOTER) ru rp (some host) np.port false
        pure (netloc, some { rawHost := some rawHost, explicitPort := np.port, rawUser := ru, rawPassword := rp })
     : R (Str × Option NetPre))

/-- the path as `encode_url` stores it -/
def encPath (e : Env) (netloc path : Str) : Str :=
  if path.isEmpty then path
  else
    let p1 := q e Gen.PATH_REQUOTER path
    if !netloc.isEmpty && mem 46 p1 then normalizePath p1 else p1

def encQuery (e : Env) (query : Str) : Str := if query.isEmpty then query else q e Gen.QUERY_REQUOTER query
def encFragment (e : Env) (f : Str) : Str := if f.isEmpty then f else q e Gen.FRAGMENT_REQUOTER f

def finishUrl (e : Env) (p : Parts) (netloc : Str) (pre : Option NetPre) : Url :=
  { scheme := p.scheme, netloc := netloc, path := encPath e netloc p.path, query := encQuery e p.query,
    fragment := encFragment e p.fragment, pre := pre }

theorem encodeUrl_eq (e : Env) (s : Str) :
    encodeUrl e s = (splitUrl e.o s >>= fun p => netBlock e p.scheme p.netloc >>= fun r =>
      pure (finishUrl e p r.1 r.2)) := by
  unfold encodeUrl netBlock
  rfl

theorem encodeUrl_of (e : Env) (s : Str) (p : Parts) (netloc : Str) (pre : Option NetPre)
    (hp : splitUrl e.o s = .ok p) (hn : netBlock e p.scheme p.netloc = .ok (netloc, pre)) :
    encodeUrl e s = .ok (finishUrl e p netloc pre) := by
  rw [encodeUrl_eq, hp]
  simp only [bind, Except.bind, hn]
  rfl

theorem encodeUrl_inv (e : Env) (s : Str) (u : Url) (h : encodeUrl e s = .ok u) :
    ∃ p netloc pre, splitUrl e.o s = .ok p ∧ netBlock e p.scheme p.netloc = .ok (netloc, pre) ∧
      u = finishUrl e p netloc pre := by
  rw [encodeUrl_eq] at h
  cases hp : splitUrl e.o s with
  | error err => rw [hp] at h; cases h
  | ok p =>
    rw [hp] at h
    simp only [bind, Except.bind] at h
    cases hn : netBlock e p.scheme p.netloc with
    | error err => rw [hn] at h; cases h
    | ok r =>
      rw [hn] at h
      simp only [pure, Except.pure, Except.ok.injEq] at h
      obtain ⟨r1, r2⟩ := r
      exact ⟨p, r1, r2, rfl, hn, h.symm⟩

/-! ### component conditions and the general identity theorem -/

theorem canon_forall {t : QTab} (ht : t.WF) (P : Nat → Prop) (hsafe : ∀ c, c < 128 → t.safe c = true → P c)
    (h37 : P 37) (hhex : ∀ c, (48 ≤ c ∧ c ≤ 57) ∨ (65 ≤ c ∧ c ≤ 70) → P c) {s : Str} (h : Canon t s) :
    ∀ c ∈ s, P c := by
  intro c hc
  rcases canon_chars h c hc with h1 | rfl | h1
  · exact hsafe c (ht.safe_ascii c h1.1) h1.1
  · exact h37
  · exact hhex c (upperHex_range h1)

theorem path_tab_chars : ∀ b : Backend, ∀ c, c < 128 → (Gen.PATH_REQUOTER.tab b).safe c = true →
    33 ≤ c ∧ c ≠ 63 ∧ c ≠ 35 := by
  intro b; rw [tab_eq_c Gen.PATH_REQUOTER (by decide) b]; decide +kernel
theorem query_tab_chars : ∀ b : Backend, ∀ c, c < 128 → (Gen.QUERY_REQUOTER.tab b).safe c = true →
    33 ≤ c ∧ c ≠ 35 := by
  intro b; rw [tab_eq_c Gen.QUERY_REQUOTER (by decide) b]; decide +kernel
theorem fragment_tab_chars : ∀ b : Backend, ∀ c, c < 128 → (Gen.FRAGMENT_REQUOTER.tab b).safe c = true →
    33 ≤ c := by
  intro b; rw [tab_eq_c Gen.FRAGMENT_REQUOTER (by decide) b]; decide +kernel

theorem pr_mem : Gen.PATH_REQUOTER ∈ Gen.allQuoters := by decide
theorem qr_mem : Gen.QUERY_REQUOTER ∈ Gen.allQuoters := by decide
theorem fr_mem : Gen.FRAGMENT_REQUOTER ∈ Gen.allQuoters := by decide
theorem rq_mem : Gen.REQUOTER ∈ Gen.allQuoters := by decide

theorem canon_path_chars {b : Backend} {p : Str} (h : Canon (Gen.PATH_REQUOTER.tab b) p) :
    ∀ c ∈ p, 33 ≤ c ∧ c ≠ 63 ∧ c ≠ 35 :=
  canon_forall (gen_tab_wf _ pr_mem b) _ (path_tab_chars b) (by omega) (fun c hc => by omega) h

theorem canon_query_chars {b : Backend} {p : Str} (h : Canon (Gen.QUERY_REQUOTER.tab b) p) :
    ∀ c ∈ p, 33 ≤ c ∧ c ≠ 35 :=
  canon_forall (gen_tab_wf _ qr_mem b) _ (query_tab_chars b) (by omega) (fun c hc => by omega) h

theorem canon_fragment_chars {b : Backend} {p : Str} (h : Canon (Gen.FRAGMENT_REQUOTER.tab b) p) :
    ∀ c ∈ p, 33 ≤ c :=
  canon_forall (gen_tab_wf _ fr_mem b) _ (fragment_tab_chars b) (by omega) (fun c hc => by omega) h

end FixLemmas

/-- the conditions on path, query and fragment of an already-canonical URL with an authority -/
structure CompOK (b : Backend) (path query fragment : Str) : Prop where
  rooted : Rooted path
  pathC : Canon (Gen.PATH_REQUOTER.tab b) path
  /-- no dot segments (stated through the code's normaliser; see `normalizePath_noDotSegs`) -/
  norm : 46 ∈ path → normalizePath path = path
  /-- `str` writes "/" for an empty path in front of a query or fragment -/
  nonempty : path = [] → query = [] ∧ fragment = []
  queryC : Canon (Gen.QUERY_REQUOTER.tab b) query
  fragmentC : Canon (Gen.FRAGMENT_REQUOTER.tab b) fragment

/-- the URL object `encode_url` builds for five parts and a netloc cache pre-fill -/
abbrev urlOf (scheme auth path query fragment : Str) (pre : NetPre) : Url :=
  { scheme := scheme, netloc := auth, path := path, query := query, fragment := fragment, pre := some pre }

namespace FixLemmas
open OutLangLemmas ParseLemmas HostLemmas

theorem isEmpty_false {s : Str} (h : s ≠ []) : s.isEmpty = false := by
  cases s with
  | nil => exact absurd rfl h
  | cons _ _ => rfl

theorem encPath_fixed (e : Env) (auth path query fragment : Str) (hc : CompOK e.b path query fragment) :
    encPath e auth path = path := by
  unfold encPath
  split
  · rfl
  · have hq : q e Gen.PATH_REQUOTER path = path := run_fixed e.b _ pr_mem rfl hc.pathC
    simp only [hq]
    split
    · rename_i h
      simp only [Bool.and_eq_true] at h
      exact hc.norm (GenTabs.mem_iff.mp h.2)
    · rfl

theorem encQuery_fixed (e : Env) {query : Str} (h : Canon (Gen.QUERY_REQUOTER.tab e.b) query) :
    encQuery e query = query := by
  unfold encQuery
  split
  · rfl
  · exact run_fixed e.b _ qr_mem rfl h

theorem encFragment_fixed (e : Env) {f : Str} (h : Canon (Gen.FRAGMENT_REQUOTER.tab e.b) f) :
    encFragment e f = f := by
  unfold encFragment
  split
  · rfl
  · exact run_fixed e.b _ fr_mem rfl h

/-- `unsplit_result` with a non-empty authority, a scheme and a rooted path is the composition -/
theorem unsplit_compose (scheme auth path query fragment : Str) (hs : scheme ≠ []) (ha : auth ≠ [])
    (hr : Rooted path) :
    unsplitResult scheme auth path query fragment = composeUrl scheme auth path query fragment := by
  unfold unsplitResult composeUrl qPart fPart
  have h1 : auth.isEmpty = false := isEmpty_false ha
  have h2 : scheme.isEmpty = false := isEmpty_false hs
  simp only [h1, h2, Bool.not_false, Bool.true_or, if_true]
  rcases hr with rfl | ⟨r, rfl⟩ <;> cases query <;> cases fragment <;> simp

/-- `str` of a URL whose cached explicit port is absent or not the scheme's default -/
theorem str_compose (e : Env) (scheme auth path query fragment : Str) (pre : NetPre)
    (hs : scheme ≠ []) (ha : auth ≠ []) (hr : Rooted path)
    (hne : path = [] → query = [] ∧ fragment = [])
    (hport : ∀ p, pre.explicitPort = some p → some p ≠ defaultPort scheme) :
    str e (urlOf scheme auth path query fragment pre)
      = .ok (composeUrl scheme auth path query fragment) := by
  unfold str
  have hep : explicitPort e (urlOf scheme auth path query fragment pre) = .ok pre.explicitPort := rfl
  simp only [hep, bind, Except.bind]
  have hpath : (if (path.isEmpty && !auth.isEmpty && (!query.isEmpty || !fragment.isEmpty)) = true then [47] else path)
      = path := by
    split
    · rename_i h
      simp only [Bool.and_eq_true, Bool.or_eq_true, List.isEmpty_iff] at h
      obtain ⟨hq, hf⟩ := hne h.1.1
      subst hq hf
      simp at h
    · rfl
  rw [hpath]
  cases hpe : pre.explicitPort with
  | none =>
    simp only [pure, Except.pure]
    rw [unsplit_compose scheme auth path query fragment hs ha hr]
  | some p =>
    simp only
    rw [if_neg (hport p hpe)]
    simp only [pure, Except.pure]
    rw [unsplit_compose scheme auth path query fragment hs ha hr]

theorem schemeOK_ne {scheme : Str} (h : SchemeOK scheme) : scheme ≠ [] := h.1

/-- the general identity theorem: whatever the authority family, if the authority block returns the
    authority text unchanged and the cached port is not the default one, the URL is a fixed point -/
theorem identity_core (e : Env) (scheme auth path query fragment : Str) (pre : NetPre)
    (hs : SchemeOK scheme)
    (ha : ∀ c ∈ auth, 33 ≤ c ∧ c < 128 ∧ Rfc.isDelim3 c = false) (hne : auth ≠ [])
    (hb : checkBrackets auth = .ok ())
    (hn : netBlock e scheme auth = .ok (auth, some pre))
    (hport : ∀ p, pre.explicitPort = some p → some p ≠ defaultPort scheme)
    (hc : CompOK e.b path query fragment) :
    encodeUrl e (composeUrl scheme auth path query fragment) =
      .ok (urlOf scheme auth path query fragment pre) ∧
    str e (urlOf scheme auth path query fragment pre)
      = .ok (composeUrl scheme auth path query fragment) := by
  constructor
  · have hsplit := splitUrl_compose e.o scheme auth path query fragment hs ha hb hc.rooted
      (canon_path_chars hc.pathC) (canon_query_chars hc.queryC) (canon_fragment_chars hc.fragmentC)
    rw [encodeUrl_of e _ _ auth (some pre) hsplit hn]
    simp only [finishUrl, encPath_fixed e auth path query fragment hc, encQuery_fixed e hc.queryC,
      encFragment_fixed e hc.fragmentC]
  · exact str_compose e scheme auth path query fragment pre (schemeOK_ne hs) hne hc.rooted hc.nonempty hport

end FixLemmas

/-! ## Part 4 — the basic authority family: a plain lower-case registered name -/

/-- characters of a plain host: visible ASCII, not upper-case, none of `/ ? # : @ [ ]` -/
def hostChar (c : Nat) : Bool :=
  decide (33 ≤ c) && decide (c < 128) && !(decide (65 ≤ c) && decide (c ≤ 90)) &&
    !(c == 47 || c == 63 || c == 35 || c == 58 || c == 64 || c == 91 || c == 93)

/-- a non-empty plain host that does not end in a digit (so that it cannot be taken for an IP literal) -/
def HostBasic (h : Str) : Prop :=
  h ≠ [] ∧ (∀ c ∈ h, hostChar c = true) ∧ ∀ l, h.getLast? = some l → isDigitC l = false

instance (h : Str) : Decidable (HostBasic h) := by
  unfold HostBasic
  have : Decidable (∀ l, h.getLast? = some l → isDigitC l = false) :=
    match hl : h.getLast? with
    | none => isTrue (by intro l h; cases h)
    | some l => decidable_of_iff (isDigitC l = false)
        ⟨fun h l' hl' => by cases hl'; exact h, fun h => h l rfl⟩
  infer_instance

/-- the cache pre-fill for a host without userinfo and port -/
abbrev preHost (host : Str) : NetPre :=
  { rawHost := some host, explicitPort := none, rawUser := none, rawPassword := none }

namespace FixLemmas
open OutLangLemmas ParseLemmas HostLemmas

theorem hostChar_spec {c : Nat} (h : hostChar c = true) :
    33 ≤ c ∧ c < 128 ∧ ¬ (65 ≤ c ∧ c ≤ 90) ∧ c ≠ 47 ∧ c ≠ 63 ∧ c ≠ 35 ∧ c ≠ 58 ∧ c ≠ 64 ∧ c ≠ 91 ∧ c ≠ 93 := by
  unfold hostChar at h
  simp at h
  omega

/-- every pct-free RFC reg-name character in lower case is a plain host character -/
theorem regNameChars_hostChar : ∀ c ∈ Gen.regNameChars, hostChar c = true := by decide

theorem hostBasic_auth {h : Str} (hh : HostBasic h) :
    ∀ c ∈ h, 33 ≤ c ∧ c < 128 ∧ Rfc.isDelim3 c = false := by
  intro c hc
  have := hostChar_spec (hh.2.1 c hc)
  refine ⟨this.1, this.2.1, ?_⟩
  simp [Rfc.isDelim3]
  omega

theorem hostBasic_notMem {h : Str} (hh : HostBasic h) {c : Nat} (hc : hostChar c = false) : mem c h = false := by
  rw [NetlocLemmas.mem_false_iff]
  intro hm
  rw [hh.2.1 c hm] at hc
  exact Bool.noConfusion hc

theorem checkBrackets_plain {n : Str} (h1 : mem 91 n = false) (h2 : mem 93 n = false) :
    checkBrackets n = .ok () := by
  unfold checkBrackets
  simp [h1, h2]

theorem encodeHost_basic (o : Oracles) {h : Str} (hh : HostBasic h) (v : Bool) (hv : v = false) :
    encodeHost o h v = .ok h := by
  subst hv
  have hascii : isAscii h = true := by
    unfold isAscii; rw [List.all_eq_true]; intro c hc; simpa using (hostChar_spec (hh.2.1 c hc)).2.1
  have hlow : lower h = h := lower_of_no_upper (fun c hc => (hostChar_spec (hh.2.1 c hc)).2.2.1)
  have hlook : looksIP o h = .ok false := by
    unfold looksIP
    cases hl : h.getLast? with
    | none => rfl
    | some l =>
      have hm := List.mem_of_getLast? hl
      have h58 : mem 58 h = false := hostBasic_notMem hh (by decide)
      have hl128 : l < 128 := (hostChar_spec (hh.2.1 l hm)).2.1
      simp only [h58, isDigitChar, hl128, if_true, hh.2.2 l hl]
      rfl
  rw [encodeHost_eq, hlook]
  simp only [bind, Except.bind, regPath, hascii, if_true, hlow]
  rfl

theorem netBlock_basic (e : Env) (scheme : Str) {h : Str} (hh : HostBasic h) :
    netBlock e scheme h = .ok (h, some (preHost h)) := by
  unfold netBlock
  have h58 : mem 58 h = false := hostBasic_notMem hh (by decide)
  have h64 : mem 64 h = false := hostBasic_notMem hh (by decide)
  have h91 : mem 91 h = false := hostBasic_notMem hh (by decide)
  simp only [isEmpty_false hh.1, h58, h64, h91, Bool.or_self, Bool.false_eq_true, if_false, bind, Except.bind,
    pure, Except.pure, encodeHost_basic e.o hh false rfl,
    ParseLemmas.rpartition_snd_snd_of_mem_false h64]
  simp [h91]

/-! ### dot segments -/

/-- no segment of the path is "." or ".." -/
def NoDotSegs (p : Str) : Prop := ∀ s ∈ splitOn 47 p, s ≠ dot ∧ s ≠ dotdot

instance (p : Str) : Decidable (NoDotSegs p) := by unfold NoDotSegs; infer_instance

/-- `normalize_path` leaves a path without dot segments alone -/
theorem normalizePath_noDotSegs {p : Str} (h : NoDotSegs p) : normalizePath p = p := by
  have key : ∀ q : Str, PathLemmas.NoDots (splitOn 47 q) → joinC 47 (normalizePathSegments (splitOn 47 q)) = q := by
    intro q hq
    rw [PathLemmas.normalizePathSegments_noDots _ hq, PathLemmas.joinC_splitOn]
  unfold normalizePath
  split
  · rename_i rest
    have : PathLemmas.NoDots (splitOn 47 rest) := by
      intro s hs
      apply h s
      simp [splitOn, hs]
    rw [key rest this]
  · exact key p h

theorem noDotSegs_of_no_dot {p : Str} (h : 46 ∉ p) : NoDotSegs p := by
  intro s hs
  have hsub := PathLemmas.splitOn_sub 47 p s hs
  constructor
  · rintro rfl; exact h (hsub 46 (by simp [dot]))
  · rintro rfl; exact h (hsub 46 (by simp [dotdot]))

/-! ### a Boolean checker for `Canon` -/

def hexv (c : Nat) : Nat := if c ≤ 57 then c - 48 else c - 55

/-- `Canon t s`, decided -/
def isCanon (t : QTab) : Str → Bool
  | [] => true
  | 37 :: a :: b :: r =>
    isUpperHexDigit a && isUpperHexDigit b &&
      (decide (128 ≤ hexv a * 16 + hexv b) || !t.safe (hexv a * 16 + hexv b) || t.prot (hexv a * 16 + hexv b)) &&
      isCanon t r
  | c :: r => c != 37 && t.safe c && !(t.qs && c == 32) && isCanon t r

theorem toHex_hexv {a : Nat} (h : isUpperHexDigit a = true) : hexv a < 16 ∧ toHex (hexv a) = a := by
  have := upperHex_range h
  unfold hexv toHex
  constructor
  · split <;> omega
  · split <;> split <;> omega

theorem isCanon_sound (t : QTab) (s : Str) : isCanon t s = true → Canon t s := by
  fun_induction isCanon t s with
  | case1 => intro _; exact Canon.nil
  | case2 a b r ih =>
    intro h
    simp only [Bool.and_eq_true, Bool.or_eq_true, decide_eq_true_eq, Bool.not_eq_true'] at h
    obtain ⟨⟨⟨ha, hb⟩, hk⟩, hr⟩ := h
    obtain ⟨ha1, ha2⟩ := toHex_hexv ha
    obtain ⟨hb1, hb2⟩ := toHex_hexv hb
    have hp : pct (hexv a * 16 + hexv b) = [37, a, b] := by
      unfold pct
      have e1 : (hexv a * 16 + hexv b) / 16 = hexv a := by omega
      have e2 : (hexv a * 16 + hexv b) % 16 = hexv b := by omega
      rw [e1, e2, ha2, hb2]
    have := Canon.esc (hexv a * 16 + hexv b) r (by omega)
      (by rcases hk with (hk | hk) | hk
          · exact Or.inl hk
          · exact Or.inr (Or.inl hk)
          · exact Or.inr (Or.inr hk)) (ih hr)
    rw [hp] at this
    exact this
  | case3 c r hne ih =>
    intro h
    simp only [Bool.and_eq_true, bne_iff_ne, ne_eq, Bool.not_eq_true', Bool.and_eq_false_iff, beq_eq_false_iff_ne] at h
    obtain ⟨⟨⟨h37, hs⟩, hq⟩, hr⟩ := h
    refine Canon.lit c r hs h37 ?_ (ih hr)
    rintro ⟨h1, h2⟩
    rcases hq with hq | hq
    · rw [h1] at hq; exact Bool.noConfusion hq
    · exact hq h2

/-! ## Part 5 — what `encode_url` produces (for C03) -/

/-! ### canonical text and '/'-segments -/

theorem toHex_ne47 {x : Nat} (h : x < 16) : toHex x ≠ 47 := by
  have := upperHex_range (toHex_upper h); omega

theorem canon_splitOn {t : QTab} {s : Str} (h : Canon t s) : ∀ seg ∈ splitOn 47 s, Canon t seg := by
  induction h with
  | nil =>
    intro seg hs
    simp only [splitOn, List.mem_cons, List.not_mem_nil, or_false] at hs
    subst hs; exact Canon.nil
  | lit c r hsafe hc hq _ ih =>
    by_cases h47 : c = 47
    · subst h47
      intro seg hs
      simp only [splitOn, if_true, List.mem_cons] at hs
      rcases hs with rfl | hs
      · exact Canon.nil
      · exact ih seg hs
    · obtain ⟨p, ps, e⟩ := List.exists_cons_of_ne_nil (PathLemmas.splitOn_ne_nil 47 r)
      rw [PathLemmas.splitOn_cons_ne 47 c r h47 e]
      rw [e] at ih
      intro seg hs
      rcases List.mem_cons.1 hs with rfl | hs
      · exact Canon.lit c p hsafe hc hq (ih p List.mem_cons_self)
      · exact ih seg (List.mem_cons_of_mem _ hs)
  | esc b r hb hk _ ih =>
    obtain ⟨p, ps, e⟩ := List.exists_cons_of_ne_nil (PathLemmas.splitOn_ne_nil 47 r)
    have e3 : splitOn 47 (pct b ++ r) = (pct b ++ p) :: ps := by
      simp only [pct, List.cons_append, List.nil_append]
      exact PathLemmas.splitOn_cons_ne 47 37 _ (by decide)
        (PathLemmas.splitOn_cons_ne 47 _ _ (toHex_ne47 (by omega))
          (PathLemmas.splitOn_cons_ne 47 _ _ (toHex_ne47 (by omega)) e))
    rw [e3]
    rw [e] at ih
    intro seg hs
    rcases List.mem_cons.1 hs with rfl | hs
    · exact Canon.esc b p hb hk (ih p List.mem_cons_self)
    · exact ih seg (List.mem_cons_of_mem _ hs)

theorem canon_flatF {t : QTab} (h47 : t.safe 47 = true) {l : List Str} (h : ∀ seg ∈ l, Canon t seg) :
    Canon t (PathLemmas.flatF l) := by
  induction l with
  | nil => exact Canon.nil
  | cons p ps ih =>
    rw [PathLemmas.flatF_cons]
    exact Canon.lit 47 _ h47 (by decide) (fun hq => absurd hq.2 (by decide))
      (canon_append (h p List.mem_cons_self) (ih (fun seg hs => h seg (List.mem_cons_of_mem _ hs))))

theorem canon_joinC {t : QTab} (h47 : t.safe 47 = true) {l : List Str} (h : ∀ seg ∈ l, Canon t seg) :
    Canon t (joinC 47 l) := by
  cases l with
  | nil => exact Canon.nil
  | cons p ps =>
    rw [PathLemmas.joinC_cons]
    exact canon_append (h p List.mem_cons_self) (canon_flatF h47 (fun seg hs => h seg (List.mem_cons_of_mem _ hs)))

theorem normalizePathSegments_forall (P : Str → Prop) (h0 : P []) (segs : List Str) (h : ∀ p ∈ segs, P p) :
    ∀ p ∈ normalizePathSegments segs, P p := by
  intro s hs
  have key : s ∈ normLoop [] segs ∨ s = [] := by
    unfold normalizePathSegments at hs
    split at hs
    · split at hs
      · rcases List.mem_append.1 hs with h | h
        · exact Or.inl h
        · exact Or.inr (by simpa using h)
      · exact Or.inl hs
    · exact Or.inl hs
  rcases key with h' | rfl
  · rcases PathLemmas.normLoop_mem [] segs s h' with h' | ⟨h', _⟩
    · simp at h'
    · exact h s h'
  · exact h0

/-- dot-segment removal keeps a rooted canonical path canonical -/
theorem canon_normalizePath {t : QTab} (h47 : t.safe 47 = true) {r : Str} (h : Canon t (47 :: r)) :
    Canon t (normalizePath (47 :: r)) := by
  have hsegs : ∀ seg ∈ splitOn 47 r, Canon t seg := by
    intro seg hs
    apply canon_splitOn h seg
    simp [splitOn, hs]
  simp only [normalizePath]
  exact Canon.lit 47 _ h47 (by decide) (fun hq => absurd hq.2 (by decide))
    (canon_joinC h47 (normalizePathSegments_forall _ Canon.nil _ hsegs))

/-! ### the path requoter keeps the leading "/" -/

theorem path_safe47 (b : Backend) : (Gen.PATH_REQUOTER.tab b).safe 47 = true := by cases b <;> decide

theorem stripSurr_cons47 (r : Str) : stripSurr (47 :: r) = 47 :: stripSurr r := by
  simp [stripSurr, isSurrogate]

theorem run_path_rooted (b : Backend) (r : Str) (hs : PyStr (47 :: r)) :
    ∃ r', Gen.PATH_REQUOTER.run b (47 :: r) = 47 :: r' := by
  have hwf := gen_tab_wf _ pr_mem b
  rw [run_cOut _ pr_mem b _ hs, stripSurr_cons47, cOut_cons_ne _ (by decide),
    cWriteOut_lit _ hwf (path_safe47 b) (fun hq => absurd hq.2 (by decide))]
  exact ⟨_, rfl⟩

/-- the stored path of a URL with an authority: rooted, canonical, and a fixed point of the normaliser -/
theorem encPath_props (e : Env) (netloc path : Str) (hn : netloc ≠ []) (hr : Rooted path) (hs : PyStr path) :
    Rooted (encPath e netloc path) ∧ Canon (Gen.PATH_REQUOTER.tab e.b) (encPath e netloc path) ∧
      (46 ∈ encPath e netloc path → normalizePath (encPath e netloc path) = encPath e netloc path) := by
  unfold encPath
  split
  · rename_i h
    simp only [List.isEmpty_iff] at h
    subst h
    exact ⟨Or.inl rfl, Canon.nil, fun h => by simp at h⟩
  · rename_i hne
    rcases hr with rfl | ⟨r, rfl⟩
    · simp at hne
    · obtain ⟨r', hr'⟩ := run_path_rooted e.b r hs
      have hc : Canon (Gen.PATH_REQUOTER.tab e.b) (q e Gen.PATH_REQUOTER (47 :: r)) :=
        run_canon e.b _ pr_mem rfl _ hs
      have hq : q e Gen.PATH_REQUOTER (47 :: r) = 47 :: r' := hr'
      simp only [hq] at hc ⊢
      simp only [isEmpty_false hn, Bool.not_false, Bool.true_and]
      split
      · refine ⟨Or.inr ⟨_, rfl⟩, canon_normalizePath (path_safe47 e.b) hc, fun _ => C15_idem r'⟩
      · rename_i h46
        refine ⟨Or.inr ⟨_, rfl⟩, hc, fun h => ?_⟩
        exact absurd (GenTabs.mem_iff.mpr h) h46

theorem encQuery_canon (e : Env) (query : Str) (hs : PyStr query) :
    Canon (Gen.QUERY_REQUOTER.tab e.b) (encQuery e query) := by
  unfold encQuery
  split
  · rename_i h; simp only [List.isEmpty_iff] at h; subst h; exact Canon.nil
  · exact run_canon e.b _ qr_mem rfl _ hs

theorem encFragment_canon (e : Env) (f : Str) (hs : PyStr f) :
    Canon (Gen.FRAGMENT_REQUOTER.tab e.b) (encFragment e f) := by
  unfold encFragment
  split
  · rename_i h; simp only [List.isEmpty_iff] at h; subst h; exact Canon.nil
  · exact run_canon e.b _ fr_mem rfl _ hs

/-! ### facts about the Appendix B decomposition -/

theorem schemeChars_lower : ∀ c ∈ Gen.schemeChars,
    mem (lowerC c) Gen.schemeChars = true ∧ ¬ (65 ≤ lowerC c ∧ lowerC c ≤ 90) := by decide

theorem schemeOf_scheme (s : Str) :
    (Rfc.schemeOf Gen.schemeChars s).1 = [] ∨ SchemeOK (Rfc.schemeOf Gen.schemeChars s).1 := by
  unfold Rfc.schemeOf
  simp only
  split
  · split
    · rename_i h
      right
      simp only [Bool.and_eq_true, Bool.not_eq_true', List.all_eq_true] at h
      constructor
      · intro hl
        have : (s.takeWhile (· ≠ 58)) = [] := by
          simpa [lower] using hl
        rw [this] at h; simp at h
      · intro c hc
        simp only [lower, List.mem_map] at hc
        obtain ⟨x, hx, rfl⟩ := hc
        exact schemeChars_lower x (List.contains_iff_mem.mp (h.2 x hx))
    · exact Or.inl rfl
  · exact Or.inl rfl

theorem schemeOf_sub (sc s : Str) : ∀ c ∈ (Rfc.schemeOf sc s).2, c ∈ s := by
  unfold Rfc.schemeOf
  simp only
  intro c
  split
  · rename_i rest hpost
    split
    · intro hc
      have h1 : c ∈ s.dropWhile (· ≠ 58) := by rw [hpost]; exact List.mem_cons_of_mem _ hc
      exact (List.dropWhile_sublist _).subset h1
    · exact id
  · exact id

theorem authOf_sub (r1 : Str) : ∀ c ∈ (authOf r1).2, c ∈ r1 := by
  unfold authOf
  intro c
  split
  · intro hc
    exact List.mem_cons_of_mem _ (List.mem_cons_of_mem _ ((List.dropWhile_sublist _).subset hc))
  · exact id

theorem tailOf_sub (r2 : Str) : (∀ c ∈ (tailOf r2).1, c ∈ r2) ∧ (∀ c ∈ (tailOf r2).2.1, c ∈ r2) ∧
    (∀ c ∈ (tailOf r2).2.2, c ∈ r2) := by
  rw [tailOf_eq]
  refine ⟨fun c hc => ?_, fun c hc => ?_, fun c hc => ?_⟩
  · exact (List.takeWhile_sublist _).subset ((List.takeWhile_sublist _).subset hc)
  · exact (List.takeWhile_sublist _).subset ((List.dropWhile_sublist _).subset ((List.drop_sublist _ _).subset hc))
  · exact (List.dropWhile_sublist _).subset ((List.drop_sublist _ _).subset hc)

theorem cleanUrl_sub (s : Str) : ∀ c ∈ cleanUrl s, c ∈ s := by
  intro c hc
  unfold cleanUrl at hc
  rw [lstripSet_eq] at hc
  exact (List.dropWhile_sublist _).subset (List.filter_sublist.subset hc)

/-- the path after a non-empty authority is empty or rooted -/
theorem tailOf_authOf_rooted (r1 : Str) (h : (authOf r1).1 ≠ []) : Rooted (tailOf (authOf r1).2).1 := by
  unfold authOf at h ⊢
  split at h
  · rename_i r
    simp only
    unfold tailOf
    simp only
    cases hd : r.dropWhile (fun c => !Rfc.isDelim3 c) with
    | nil => exact Or.inl rfl
    | cons y d =>
      have hy : Rfc.isDelim3 y = true := by
        have := List.head?_dropWhile_not (fun c => !Rfc.isDelim3 c) r
        rw [hd] at this
        simpa using this
      by_cases h47 : y = 47
      · subst h47
        right
        exact ⟨d.takeWhile (fun c => !Rfc.isDelim2 c), by simp [Rfc.isDelim2]⟩
      · left
        have : Rfc.isDelim2 y = true := by
          simp only [Rfc.isDelim3, Rfc.isDelim2, Bool.or_eq_true, decide_eq_true_eq] at hy ⊢
          rcases hy with (hy | hy) | hy
          · exact absurd hy h47
          · exact Or.inl hy
          · exact Or.inr hy
        simp [this]
  · exact absurd rfl h

/-- what a successful parse provides (for a Python string) -/
theorem splitUrl_facts (o : Oracles) (s : Str) (p : Parts) (hs : PyStr s) (h : splitUrl o s = .ok p) :
    (p.scheme = [] ∨ SchemeOK p.scheme) ∧ (p.netloc ≠ [] → Rooted p.path) ∧
      PyStr p.path ∧ PyStr p.query ∧ PyStr p.fragment := by
  have hB := C07_split o s p h
  rw [appendixB_eq] at hB
  simp only [toParts5, Rfc.Parts5.mk.injEq] at hB
  obtain ⟨h1, h2, h3, h4, h5⟩ := hB
  have hsub : ∀ c ∈ (authOf (Rfc.schemeOf Gen.schemeChars (cleanUrl s)).2).2, c ≤ 0x10FFFF := by
    intro c hc
    exact hs c (cleanUrl_sub s c (schemeOf_sub _ _ c (authOf_sub _ c hc)))
  obtain ⟨t1, t2, t3⟩ := tailOf_sub (authOf (Rfc.schemeOf Gen.schemeChars (cleanUrl s)).2).2
  refine ⟨?_, ?_, ?_, ?_, ?_⟩
  · rw [h1]; exact schemeOf_scheme _
  · intro hn
    rw [h3]
    exact tailOf_authOf_rooted _ (by rw [← h2]; exact hn)
  · rw [h3]; exact fun c hc => hsub c (t1 c hc)
  · rw [h4]; exact fun c hc => hsub c (t2 c hc)
  · rw [h5]; exact fun c hc => hsub c (t3 c hc)

/-! ### the authority block when the stored netloc has no ':' -/

theorem mem58_hostPortStr (hb : Str) (p : Nat) : 58 ∈ NetlocLemmas.hostPortStr hb (some p) := by
  simp [NetlocLemmas.hostPortStr]

theorem mem58_makeNetloc (qf : Str → Str) (user pw : Option Str) (hb : Str) (p : Nat) :
    58 ∈ makeNetloc qf user pw (some hb) (some p) false := by
  rw [NetlocLemmas.makeNetloc_eq]
  have := mem58_hostPortStr hb p
  cases user with
  | none => cases pw <;> simp [this]
  | some u =>
    cases pw with
    | none => simp only; split <;> simp [this]
    | some w => simp

theorem netBlock_no_colon (e : Env) (scheme n0 netloc : Str) (pre : Option NetPre)
    (h : netBlock e scheme n0 = .ok (netloc, pre)) (hne : netloc ≠ []) (h58 : 58 ∉ netloc) :
    ∃ pr, pre = some pr ∧ pr.explicitPort = none := by
  unfold netBlock at h
  split at h
  · simp only [pure, Except.pure, Except.ok.injEq, Prod.mk.injEq] at h
    exact absurd h.1.symm hne
  · simp only [bind, Except.bind] at h
    split at h
    · cases h
    · rename_i np _
      split at h
      · cases h
      · rename_i host0 _
        split at h
        · cases h
        · rename_i host _
          split at h
          · simp only [pure, Except.pure, Except.ok.injEq, Prod.mk.injEq] at h
            obtain ⟨h1, h2⟩ := h
            cases hp : np.port with
            | none => exact ⟨_, h2.symm, hp⟩
            | some pt =>
              rw [hp] at h1
              exfalso; apply h58; rw [← h1]; simp
          · simp only [pure, Except.pure, Except.ok.injEq, Prod.mk.injEq] at h
            obtain ⟨h1, h2⟩ := h
            cases hp : np.port with
            | none => exact ⟨_, h2.symm, hp⟩
            | some pt =>
              rw [hp] at h1
              exfalso; apply h58; rw [← h1]; exact mem58_makeNetloc _ _ _ _ _

theorem netBlock_nil (e : Env) (scheme : Str) : netBlock e scheme [] = .ok ([], none) := rfl

/-- the path as `str` writes it after a non-empty authority -/
def strPathOf (path query fragment : Str) : Str :=
  if path.isEmpty && (!query.isEmpty || !fragment.isEmpty) then [47] else path

/-- `str` in general (authority present, cached port absent or not the default) -/
theorem str_compose_gen (e : Env) (scheme auth path query fragment : Str) (pre : NetPre)
    (hs : scheme ≠ []) (ha : auth ≠ []) (hr : Rooted path)
    (hport : ∀ p, pre.explicitPort = some p → some p ≠ defaultPort scheme) :
    str e (urlOf scheme auth path query fragment pre)
      = .ok (composeUrl scheme auth (strPathOf path query fragment) query fragment) := by
  unfold str
  have hep : explicitPort e (urlOf scheme auth path query fragment pre) = .ok pre.explicitPort := rfl
  simp only [hep, bind, Except.bind]
  have hpath : (if (path.isEmpty && !auth.isEmpty && (!query.isEmpty || !fragment.isEmpty)) = true then [47] else path)
      = strPathOf path query fragment := by
    unfold strPathOf
    simp [isEmpty_false ha]
  have hr' : Rooted (strPathOf path query fragment) := by
    unfold strPathOf; split
    · exact Or.inr ⟨[], rfl⟩
    · exact hr
  rw [hpath]
  cases hpe : pre.explicitPort with
  | none =>
    simp only [pure, Except.pure]
    rw [unsplit_compose scheme auth _ query fragment hs ha hr']
  | some p =>
    simp only
    rw [if_neg (hport p hpe)]
    simp only [pure, Except.pure]
    rw [unsplit_compose scheme auth _ query fragment hs ha hr']

theorem compOK_strPath {b : Backend} {path query fragment : Str} (hr : Rooted path)
    (hc : Canon (Gen.PATH_REQUOTER.tab b) path) (hn : 46 ∈ path → normalizePath path = path)
    (hq : Canon (Gen.QUERY_REQUOTER.tab b) query) (hf : Canon (Gen.FRAGMENT_REQUOTER.tab b) fragment) :
    CompOK b (strPathOf path query fragment) query fragment := by
  unfold strPathOf
  split
  · exact ⟨Or.inr ⟨[], rfl⟩,
      Canon.lit 47 [] (path_safe47 b) (by decide) (fun h => absurd h.2 (by decide)) Canon.nil,
      fun h => (by simp at h), fun h => (by cases h), hq, hf⟩
  · rename_i hcond
    refine ⟨hr, hc, hn, fun hp => ?_, hq, hf⟩
    subst hp
    simp only [List.isEmpty_nil, Bool.true_and, Bool.or_eq_true, Bool.not_eq_true', not_or,
      Bool.not_eq_false, List.isEmpty_iff] at hcond
    exact hcond

end FixLemmas

/-! ## Part 6 — the general authority: `[user[:password]@]host[:port]` -/

/-- the authority text; the host is bracketed iff it contains ':' -/
def authText (user pw : Option Str) (h : Str) (port : Option Nat) : Str :=
  makeNetloc id user pw (some (bracket h)) port false

/-- user and password are canonical texts of the REQUOTER (so contain none of `: @ / ? # [ ]`
    literally); the user, when present, is non-empty -/
structure UserInfoOK (b : Backend) (user pw : Option Str) : Prop where
  user : ∀ s, user = some s → s ≠ [] ∧ Canon (Gen.REQUOTER.tab b) s
  pw : ∀ s, pw = some s → Canon (Gen.REQUOTER.tab b) s

/-- a stored host that `_encode_host` gives back unchanged (in brackets when it contains ':') -/
structure HostFix (o : Oracles) (h : Str) : Prop where
  ok : HostOK h
  chars : ∀ c ∈ h, 33 ≤ c ∧ c < 128 ∧ Rfc.isDelim3 c = false
  notV : 58 ∈ h → h.head? ≠ some 118
  enc : encodeHost o h false = .ok (bracket h)

/-- an explicit port is in range and is not the scheme's default port -/
structure PortOK (scheme : Str) (port : Option Nat) : Prop where
  range : ∀ p, port = some p → p ≤ 65535
  notDefault : ∀ p, port = some p → some p ≠ defaultPort scheme

/-- the cache pre-fill of `encode_url` for such an authority -/
abbrev preOf (user pw : Option Str) (h : Str) (port : Option Nat) : NetPre :=
  { rawHost := some h, explicitPort := port, rawUser := user, rawPassword := pw }

namespace FixLemmas
open OutLangLemmas ParseLemmas HostLemmas NetlocLemmas

theorem requoter_tab_chars : ∀ b : Backend, ∀ c, c < 128 → (Gen.REQUOTER.tab b).safe c = true →
    33 ≤ c ∧ c ≠ 47 ∧ c ≠ 63 ∧ c ≠ 35 ∧ c ≠ 58 ∧ c ≠ 64 ∧ c ≠ 91 ∧ c ≠ 93 := by
  intro b; rw [tab_eq_c Gen.REQUOTER (by decide) b]; decide +kernel

theorem canon_user_chars {b : Backend} {p : Str} (h : Canon (Gen.REQUOTER.tab b) p) :
    ∀ c ∈ p, 33 ≤ c ∧ c < 128 ∧ c ≠ 47 ∧ c ≠ 63 ∧ c ≠ 35 ∧ c ≠ 58 ∧ c ≠ 64 ∧ c ≠ 91 ∧ c ≠ 93 := by
  intro c hc
  have h1 := canon_ascii (gen_tab_wf _ rq_mem b) h c hc
  have h2 := canon_forall (gen_tab_wf _ rq_mem b)
    (fun c => 33 ≤ c ∧ c ≠ 47 ∧ c ≠ 63 ∧ c ≠ 35 ∧ c ≠ 58 ∧ c ≠ 64 ∧ c ≠ 91 ∧ c ≠ 93)
    (requoter_tab_chars b) (by omega) (fun c hc => by omega) h c hc
  exact ⟨h2.1, h1, h2.2⟩

theorem userOK_of {b : Backend} {user pw : Option Str} (h : UserInfoOK b user pw) : UserOK user := by
  intro s hs
  obtain ⟨h1, h2⟩ := h.user s hs
  exact ⟨h1, fun hm => (canon_user_chars h2 58 hm).2.2.2.2.2.1 rfl⟩

/-- a predicate on characters that holds on every part holds on the whole authority text -/
theorem authText_forall (P : Nat → Prop) (user pw : Option Str) (h : Str) (port : Option Nat)
    (hu : ∀ s, user = some s → ∀ c ∈ s, P c) (hw : ∀ s, pw = some s → ∀ c ∈ s, P c)
    (hh : ∀ c ∈ h, P c) (hd : ∀ c, isDigitC c = true → P c)
    (h58 : P 58) (h64 : P 64) (h91 : 58 ∈ h → P 91) (h93 : 58 ∈ h → P 93) :
    ∀ c ∈ authText user pw h port, P c := by
  have hb : ∀ c ∈ bracket h, P c := by
    intro c hc
    unfold bracket at hc
    split at hc
    · rename_i hm
      have hm' := mem_iff.mp hm
      simp only [List.mem_append, List.mem_cons, List.not_mem_nil, or_false] at hc
      rcases hc with (rfl | hc) | rfl
      · exact h91 hm'
      · exact hh c hc
      · exact h93 hm'
    · exact hh c hc
  have hhp : ∀ c ∈ hostPortStr (bracket h) port, P c := by
    intro c hc
    cases port with
    | none => exact hb c hc
    | some p =>
      simp only [hostPortStr, List.mem_append, List.mem_cons, List.not_mem_nil, or_false] at hc
      rcases hc with (hc | rfl) | hc
      · exact hb c hc
      · exact h58
      · exact hd c ((natToStrAux_digits p p).2 c hc)
  intro c hc
  unfold authText at hc
  rw [makeNetloc_eq] at hc
  cases user with
  | none =>
    cases pw with
    | none => exact hhp c hc
    | some w =>
      simp only [Option.getD_none, List.nil_append, List.cons_append, List.mem_cons, List.mem_append] at hc
      rcases hc with rfl | hc | rfl | hc
      · exact h58
      · exact hw w rfl c hc
      · exact h64
      · exact hhp c hc
  | some u =>
    cases pw with
    | none =>
      simp only at hc
      split at hc
      · exact hhp c hc
      · simp only [List.mem_append, List.mem_cons] at hc
        rcases hc with hc | rfl | hc
        · exact hu u rfl c hc
        · exact h64
        · exact hhp c hc
    | some w =>
      simp only [Option.getD_some, List.cons_append, List.mem_cons, List.mem_append, List.append_assoc] at hc
      rcases hc with hc | rfl | hc | rfl | hc
      · exact hu u rfl c hc
      · exact h58
      · exact hw w rfl c hc
      · exact h64
      · exact hhp c hc

theorem authText_chars {e : Env} {user pw : Option Str} {h : Str} {port : Option Nat}
    (hu : UserInfoOK e.b user pw) (hh : HostFix e.o h) :
    ∀ c ∈ authText user pw h port, 33 ≤ c ∧ c < 128 ∧ Rfc.isDelim3 c = false := by
  apply authText_forall (fun c => 33 ≤ c ∧ c < 128 ∧ Rfc.isDelim3 c = false)
  · intro s hs c hc
    have := canon_user_chars (hu.user s hs).2 c hc
    refine ⟨this.1, this.2.1, ?_⟩
    simp [Rfc.isDelim3]; omega
  · intro s hs c hc
    have := canon_user_chars (hu.pw s hs) c hc
    refine ⟨this.1, this.2.1, ?_⟩
    simp [Rfc.isDelim3]; omega
  · exact hh.chars
  · intro c hc
    simp [isDigitC] at hc
    refine ⟨by omega, by omega, ?_⟩
    simp [Rfc.isDelim3]; omega
  · decide
  · decide
  · intro _; decide
  · intro _; decide

/-- the `user[:password]@` prefix that `make_netloc` writes -/
def userPrefix (user pw : Option Str) : Str :=
  match user, pw with
  | none, none => []
  | _, some w => user.getD [] ++ 58 :: w ++ [64]
  | some u, none => if u.isEmpty then [] else u ++ [64]

theorem authText_eq (user pw : Option Str) (h : Str) (port : Option Nat) :
    authText user pw h port = userPrefix user pw ++ hostPortStr (bracket h) port := by
  unfold authText userPrefix
  rw [makeNetloc_eq]
  cases user with
  | none => cases pw <;> simp
  | some u =>
    cases pw with
    | none => simp only; split <;> simp
    | some w => simp

theorem userPrefix_forall (P : Nat → Prop) (user pw : Option Str)
    (hu : ∀ s, user = some s → ∀ c ∈ s, P c) (hw : ∀ s, pw = some s → ∀ c ∈ s, P c)
    (h58 : P 58) (h64 : P 64) : ∀ c ∈ userPrefix user pw, P c := by
  intro c hc
  unfold userPrefix at hc
  cases user with
  | none =>
    cases pw with
    | none => simp at hc
    | some w =>
      simp only [Option.getD_none, List.nil_append, List.cons_append, List.mem_cons, List.mem_append,
        List.not_mem_nil, or_false] at hc
      rcases hc with rfl | hc | rfl
      · exact h58
      · exact hw w rfl c hc
      · exact h64
  | some u =>
    cases pw with
    | none =>
      simp only at hc
      split at hc
      · simp at hc
      · simp only [List.mem_append, List.mem_cons, List.not_mem_nil, or_false] at hc
        rcases hc with hc | rfl
        · exact hu u rfl c hc
        · exact h64
    | some w =>
      simp only [Option.getD_some, List.cons_append, List.mem_cons, List.mem_append, List.append_assoc,
        List.not_mem_nil, or_false] at hc
      rcases hc with hc | rfl | hc | rfl
      · exact hu u rfl c hc
      · exact h58
      · exact hw w rfl c hc
      · exact h64

theorem checkBrackets_authText {e : Env} {user pw : Option Str} {h : Str} (port : Option Nat)
    (hu : UserInfoOK e.b user pw) (hh : HostFix e.o h) :
    checkBrackets (authText user pw h port) = .ok () := by
  by_cases h58 : 58 ∈ h
  · -- bracketed host
    have hpre : ∀ c ∈ userPrefix user pw, c ≠ 91 :=
      userPrefix_forall (fun c => c ≠ 91) user pw
        (fun s hs c hc => (canon_user_chars (hu.user s hs).2 c hc).2.2.2.2.2.2.2.1)
        (fun s hs c hc => (canon_user_chars (hu.pw s hs) c hc).2.2.2.2.2.2.2.1) (by decide) (by decide)
    obtain ⟨tail, htail⟩ : ∃ tail, hostPortStr (bracket h) port = 91 :: (h ++ 93 :: tail) := by
      have hb : bracket h = 91 :: (h ++ [93]) := by
        unfold bracket; rw [if_pos (mem_iff.mpr h58)]; simp
      cases port with
      | none => exact ⟨[], by simp [hostPortStr, hb]⟩
      | some p => exact ⟨58 :: natToStr p, by simp [hostPortStr, hb]⟩
    have hA : authText user pw h port = userPrefix user pw ++ 91 :: (h ++ 93 :: tail) := by
      rw [authText_eq, htail]
    have e1 : partition 91 (authText user pw h port) = (userPrefix user pw, true, h ++ 93 :: tail) := by
      rw [hA]; exact partition_found 91 _ _ (fun hm => hpre 91 hm rfl)
    have e2 : partition 93 (h ++ 93 :: tail) = (h, true, tail) := partition_found 93 h tail hh.ok.2.2.2
    have m1 : mem 91 (authText user pw h port) = true := mem_iff.mpr (by rw [hA]; simp)
    have m2 : mem 93 (authText user pw h port) = true := mem_iff.mpr (by rw [hA]; simp)
    unfold checkBrackets
    simp only [m1, m2, e1, e2, Bool.not_true, Bool.and_false, Bool.or_self, Bool.false_eq_true, if_false, if_true]
    have hv : ¬ (h.take 1 = [118]) := by
      intro ht
      apply hh.notV h58
      cases h with
      | nil => simp at ht
      | cons x xs => simp at ht; simp [ht]
    rw [if_neg hv]
    simp [mem_iff.mpr h58]
  · -- no bracket anywhere
    have hall : ∀ c ∈ authText user pw h port, c ≠ 91 ∧ c ≠ 93 := by
      apply authText_forall (fun c => c ≠ 91 ∧ c ≠ 93)
      · intro s hs c hc
        have := canon_user_chars (hu.user s hs).2 c hc; omega
      · intro s hs c hc
        have := canon_user_chars (hu.pw s hs) c hc; omega
      · intro c hc
        constructor
        · rintro rfl; exact hh.ok.2.2.1 hc
        · rintro rfl; exact hh.ok.2.2.2 hc
      · intro c hc; simp [isDigitC] at hc; omega
      · decide
      · decide
      · intro hm; exact absurd hm h58
      · intro hm; exact absurd hm h58
    exact checkBrackets_plain (mem_false_iff.mpr (fun hm => (hall 91 hm).1 rfl))
      (mem_false_iff.mpr (fun hm => (hall 93 hm).2 rfl))

/-- the authority text contains '[' only when the host is bracketed -/
theorem authText_no91 {e : Env} {user pw : Option Str} {h : Str} (port : Option Nat)
    (hu : UserInfoOK e.b user pw) (hh : HostFix e.o h) (h58 : 58 ∉ h) : 91 ∉ authText user pw h port := by
  intro hm
  have hall : ∀ c ∈ authText user pw h port, c ≠ 91 := by
    apply authText_forall (fun c => c ≠ 91)
    · intro s hs c hc
      have := canon_user_chars (hu.user s hs).2 c hc; omega
    · intro s hs c hc
      have := canon_user_chars (hu.pw s hs) c hc; omega
    · intro c hc
      rintro rfl; exact hh.ok.2.2.1 hc
    · intro c hc; simp [isDigitC] at hc; omega
    · decide
    · decide
    · intro hm; exact absurd hm h58
    · intro hm; exact absurd hm h58
  exact hall 91 hm rfl

/-- when the authority text has none of `: @ [` it is just the host -/
theorem authText_plain {user pw : Option Str} {h : Str} {port : Option Nat} (hu : UserOK user)
    (h58 : mem 58 (authText user pw h port) = false) (h64 : mem 64 (authText user pw h port) = false)
    (h91 : mem 91 (authText user pw h port) = false) :
    user = none ∧ pw = none ∧ port = none ∧ authText user pw h port = h ∧ bracket h = h := by
  rw [mem_false_iff] at h58 h64 h91
  rw [authText_eq] at h58 h64 h91 ⊢
  have hpw : pw = none := by
    cases pw with
    | none => rfl
    | some w => exfalso; apply h58; simp [userPrefix]
  subst hpw
  have hus : user = none := by
    cases user with
    | none => rfl
    | some u =>
      exfalso; apply h64
      have := (hu u rfl).1
      simp [userPrefix, isEmpty_false this]
  subst hus
  have hpt : port = none := by
    cases port with
    | none => rfl
    | some p => exfalso; apply h58; simp [hostPortStr]
  subst hpt
  have hb : bracket h = h := by
    unfold bracket
    split
    · exfalso; apply h91
      rename_i hm
      simp [userPrefix, hostPortStr, bracket, hm]
    · rfl
  refine ⟨rfl, rfl, rfl, ?_, hb⟩
  simp [userPrefix, hostPortStr, hb]

/-- the `":" in netloc or "@" in netloc or "[" in netloc` gate in front of `split_netloc` -/
def gateNp (o : Oracles) (n0 : Str) : R NetlocParts :=
  if mem 58 n0 || mem 64 n0 || mem 91 n0 then splitNetloc o n0
  else pure { user := none, password := none, host := some n0, port := none }

/-- the authority block after the split -/
def netRest (e : Env) (scheme netloc0 : Str) (np : NetlocParts) : R (Str × Option NetPre) := do
  let host0 ← (match np.host with
    | some h => pure h
    | none => if Gen.schemeRequiresHost.contains scheme then .error .valueError else pure [] : R Str)
  let host1 ← encodeHost e.o host0 false
  let host := if mem 91 (rpartition 64 netloc0).2.2 && !mem 91 host1 then [91] ++ host1 ++ [93] else host1
  let rawHost := if mem 91 host then (host.drop 1).dropLast else host
  if np.password.isNone && np.user.isNone then
    let netloc := match np.port with
      | none => host
      | some pt => host ++ [58] ++ natToStr pt
    pure (netloc, some { rawHost := some rawHost, explicitPort := np.port, rawUser := none, rawPassword := none })
  else
    let ru := (requoteOpt e np.user).bind (fun s => if s.isEmpty then none else some s)
    let rp := requoteOpt e np.password
    let netloc := makeNetloc (q e Gen.QUOTER) ru rp (some host) np.port false
    pure (netloc, some { rawHost := some rawHost, explicitPort := np.port, rawUser := ru, rawPassword := rp })

theorem netBlock_eq (e : Env) (scheme n0 : Str) :
    netBlock e scheme n0 =
      if n0.isEmpty then pure (([] : Str), (none : Option NetPre)) else gateNp e.o n0 >>= netRest e scheme n0 := by
  unfold netBlock gateNp netRest
  rfl

theorem requoteOpt_user {e : Env} {user : Option Str}
    (h : ∀ s, user = some s → Canon (Gen.REQUOTER.tab e.b) s) : requoteOpt e user = user := by
  cases user with
  | none => rfl
  | some s =>
    simp only [requoteOpt, Option.map_some, Option.some.injEq]
    split
    · rfl
    · exact run_fixed e.b _ rq_mem rfl (h s rfl)

/-- the authority block of `encode_url` returns such an authority unchanged -/
theorem netBlock_authority (e : Env) (scheme : Str) {user pw : Option Str} {h : Str} {port : Option Nat}
    (hu : UserInfoOK e.b user pw) (hh : HostFix e.o h) (hp : ∀ p, port = some p → p ≤ 65535) :
    netBlock e scheme (authText user pw h port) =
      .ok (authText user pw h port, some (preOf user pw h port)) := by
  have huo := userOK_of hu
  have hne : (authText user pw h port).isEmpty = false :=
    isEmpty_false (makeNetloc_ne_nil id user pw hh.ok.1 port)
  have hnp : gateNp e.o (authText user pw h port) =
      .ok { user := user, password := pw, host := some h, port := port } := by
    unfold gateNp
    split
    · exact netloc_roundtrip e.o id user pw h port huo hh.ok hp
    · rename_i hg
      simp only [Bool.or_eq_true, not_or, Bool.not_eq_true] at hg
      obtain ⟨rfl, rfl, rfl, hA, _⟩ := authText_plain huo hg.1.1 hg.1.2 hg.2
      rw [hA]; rfl
  have hraw : (if mem 91 (bracket h) then ((bracket h).drop 1).dropLast else bracket h) = h :=
    unbracket_bracket h hh.ok
  have hkeep : (if mem 91 (rpartition 64 (authText user pw h port)).2.2 && !mem 91 (bracket h) then [91] ++ bracket h ++ [93]
      else bracket h) = bracket h := by
    by_cases h58 : 58 ∈ h
    · have : mem 91 (bracket h) = true := by
        unfold bracket; rw [if_pos (mem_iff.mpr h58)]; exact mem_iff.mpr (by simp)
      simp [this]
    · have : mem 91 (rpartition 64 (authText user pw h port)).2.2 = false :=
        ParseLemmas.mem_rpartition_snd_snd_false (mem_false_iff.mpr (authText_no91 port hu hh h58))
      simp [this]
  rw [netBlock_eq, hne, hnp]
  simp only [Bool.false_eq_true, if_false, bind, Except.bind, netRest, pure, Except.pure, hh.enc, hkeep, hraw]
  cases user with
  | none =>
    cases pw with
    | none =>
      simp only [Option.isNone_none, Bool.and_self, if_true]
      cases port <;> simp [authText, makeNetloc, preOf]
    | some w =>
      simp only [Option.isNone_some, Option.isNone_none, Bool.false_and, Bool.false_eq_true, if_false]
      rw [requoteOpt_user (fun s hs => hu.pw s hs)]
      simp only [requoteOpt, Option.map_none, Option.bind_none, authText, makeNetloc_qf (q e Gen.QUOTER) id]
  | some u =>
    have hru : (requoteOpt e (some u)).bind (fun s => if s.isEmpty then none else some s) = some u := by
      rw [requoteOpt_user (fun s hs => (hu.user s hs).2)]
      cases u with
      | nil => exact absurd rfl (hu.user [] rfl).1
      | cons _ _ => rfl
    have hrp : requoteOpt e pw = pw := requoteOpt_user (fun s hs => hu.pw s hs)
    simp only [Option.isNone_some, Bool.and_false, Bool.false_eq_true, if_false, hru, hrp, authText,
      makeNetloc_qf (q e Gen.QUOTER) id]

/-- the general identity theorem for an authority `[user[:password]@]host[:port]` -/
theorem identity_authority (e : Env) (scheme : Str) (user pw : Option Str) (h : Str) (port : Option Nat)
    (path query fragment : Str) (hs : SchemeOK scheme) (hu : UserInfoOK e.b user pw) (hh : HostFix e.o h)
    (hp : PortOK scheme port) (hc : CompOK e.b path query fragment) :
    encodeUrl e (composeUrl scheme (authText user pw h port) path query fragment) =
      .ok (urlOf scheme (authText user pw h port) path query fragment (preOf user pw h port)) ∧
    str e (urlOf scheme (authText user pw h port) path query fragment (preOf user pw h port)) =
      .ok (composeUrl scheme (authText user pw h port) path query fragment) :=
  identity_core e scheme _ path query fragment (preOf user pw h port) hs (authText_chars hu hh)
    (makeNetloc_ne_nil id user pw hh.ok.1 port) (checkBrackets_authText port hu hh)
    (netBlock_authority e scheme hu hh hp.range) hp.notDefault hc

/-! ### the three host families -/

theorem bracket_of_no_colon {h : Str} (h58 : 58 ∉ h) : bracket h = h := by
  unfold bracket; rw [if_neg (by rw [mem_iff]; exact h58)]

theorem hostFix_basic (o : Oracles) {h : Str} (hh : HostBasic h) : HostFix o h := by
  have n (c : Nat) (hc : hostChar c = false) : c ∉ h := mem_false_iff.mp (hostBasic_notMem hh hc)
  refine ⟨⟨hh.1, n 64 (by decide), n 91 (by decide), n 93 (by decide)⟩, hostBasic_auth hh,
    fun h58 => absurd h58 (n 58 (by decide)), ?_⟩
  rw [bracket_of_no_colon (n 58 (by decide))]
  exact encodeHost_basic o hh false rfl

theorem hostFix_ipv4 (o : Oracles) {s : Str} {o4 : List Nat} (h : parseIPv4 s = some o4) : HostFix o s := by
  have hch := parseIPv4_chars h
  have n (c : Nat) (h1 : c ≠ 46) (h2 : isDigitC c = false) : c ∉ s := by
    intro hm
    rcases hch c hm with h | h
    · exact h1 h
    · rw [h2] at h; exact Bool.noConfusion h
  have hne : s ≠ [] := by
    rintro rfl
    simp [parseIPv4, mem] at h
  refine ⟨⟨hne, n 64 (by decide) (by decide), n 91 (by decide) (by decide), n 93 (by decide) (by decide)⟩,
    ?_, fun h58 => absurd h58 (n 58 (by decide) (by decide)), ?_⟩
  · intro c hc
    rcases hch c hc with rfl | hd
    · decide
    · simp [isDigitC] at hd
      refine ⟨by omega, by omega, ?_⟩
      simp [Rfc.isDelim3]; omega
  · rw [bracket_of_no_colon (n 58 (by decide) (by decide))]
    exact C16_ipv4_kept o s false o4 h (n 37 (by decide) (by decide))

theorem hostFix_ipv6 (o : Oracles) (h8 : List Nat) (hl : h8.length = 8) (hx : ∀ x ∈ h8, x < 65536) :
    HostFix o (ipv6ToStr h8) := by
  have hrt := C16_ipv6_roundtrip h8 hl hx
  have hch := C16_ipv6_text_lower h8
  obtain ⟨n37, n46⟩ := C16_ipv6_text_no_pct_dot h8
  have hcolon : 58 ∈ ipv6ToStr h8 := parseIPv6_colon hrt
  have n (c : Nat) (h1 : c ≠ 58) (h2 : isDigitC c = false) (h3 : ¬ (97 ≤ c ∧ c ≤ 102)) : c ∉ ipv6ToStr h8 := by
    intro hm
    rcases hch c hm with h | h | h
    · exact h1 h
    · rw [h2] at h; exact Bool.noConfusion h
    · exact h3 h
  have hne : ipv6ToStr h8 ≠ [] := by
    intro h; rw [h] at hcolon; simp at hcolon
  refine ⟨⟨hne, n 64 (by decide) (by decide) (by omega), n 91 (by decide) (by decide) (by omega),
    n 93 (by decide) (by decide) (by omega)⟩, ?_, ?_, ?_⟩
  · intro c hc
    rcases hch c hc with rfl | hd | hd
    · decide
    · simp [isDigitC] at hd
      refine ⟨by omega, by omega, ?_⟩
      simp [Rfc.isDelim3]; omega
    · refine ⟨by omega, by omega, ?_⟩
      simp [Rfc.isDelim3]; omega
  · intro _ hv
    have hm : 118 ∈ ipv6ToStr h8 := by
      cases hs : ipv6ToStr h8 with
      | nil => rw [hs] at hv; simp at hv
      | cons x xs => rw [hs] at hv; simp at hv; simp [hv]
    exact n 118 (by decide) (by decide) (by omega) hm
  · have hp := partition_not_mem 37 _ n37
    have h4 : parseIPv4 (ipv6ToStr h8) = none := parseIPv4_none_of_no_dot _ n46
    have hlook : looksIP o (ipv6ToStr h8) = .ok true := by
      unfold looksIP
      cases hlast : (ipv6ToStr h8).getLast? with
      | none =>
        rw [List.getLast?_eq_none_iff] at hlast
        exact absurd hlast hne
      | some l =>
        have : mem 58 (ipv6ToStr h8) = true := mem_iff.mpr hcolon
        simp only [this, if_true]; rfl
    have hres : ipRes (ipv6ToStr h8) = some ([91] ++ ipv6ToStr h8 ++ [93]) := by
      simp [ipRes, hp, parseIP, h4, hrt]
    have hb : bracket (ipv6ToStr h8) = [91] ++ ipv6ToStr h8 ++ [93] := by
      unfold bracket; rw [if_pos (mem_iff.mpr hcolon)]
    rw [encodeHost_eq, hlook, hb]
    simp only [bind, Except.bind, if_true, hres, pure, Except.pure, zoneBad_false, Bool.false_eq_true, if_false]

/-! ## Part 7 — re-parsing the string of a URL made by `encode_url` -/

theorem netBlock_pre_some (e : Env) (scheme n0 netloc : Str) (pre : Option NetPre)
    (h : netBlock e scheme n0 = .ok (netloc, pre)) (hne : netloc ≠ []) : ∃ pr, pre = some pr := by
  unfold netBlock at h
  split at h
  · simp only [pure, Except.pure, Except.ok.injEq, Prod.mk.injEq] at h
    exact absurd h.1.symm hne
  · simp only [bind, Except.bind] at h
    split at h
    · cases h
    · split at h
      · cases h
      · split at h
        · cases h
        · split at h
          · simp only [pure, Except.pure, Except.ok.injEq, Prod.mk.injEq] at h
            exact ⟨_, h.2.symm⟩
          · simp only [pure, Except.pure, Except.ok.injEq, Prod.mk.injEq] at h
            exact ⟨_, h.2.symm⟩

/-- the core of C03: if the authority block maps the stored netloc to itself (with cache pre-fill
    `pre'`), and neither the cached nor the re-read explicit port is the default one, then re-parsing
    `str u` gives the same string, the same scheme / netloc / query / fragment, and the path as written -/
theorem reparse_core (e : Env) (s : Str) (u : Url) (hs : PyStr s) (h : encodeUrl e s = .ok u)
    (hsch : u.scheme ≠ []) (hne : u.netloc ≠ [])
    (hport : ∀ p, explicitPort e u = .ok (some p) → some p ≠ defaultPort u.scheme)
    (pre' : NetPre)
    (ha : ∀ c ∈ u.netloc, 33 ≤ c ∧ c < 128 ∧ Rfc.isDelim3 c = false)
    (hb : checkBrackets u.netloc = .ok ())
    (hn : netBlock e u.scheme u.netloc = .ok (u.netloc, some pre'))
    (hport' : ∀ p, pre'.explicitPort = some p → some p ≠ defaultPort u.scheme) :
    ∃ u', (str e u >>= encodeUrl e) = .ok u' ∧ str e u' = str e u ∧
      u'.scheme = u.scheme ∧ u'.netloc = u.netloc ∧ u'.path = strPathOf u.path u.query u.fragment ∧
      u'.query = u.query ∧ u'.fragment = u.fragment ∧ u'.pre = some pre' ∧
      eqKey u' = eqKey u ∧ rawPath u' = rawPath u := by
  obtain ⟨p, netloc, pre, hp, hn0, rfl⟩ := encodeUrl_inv e s u h
  simp only [finishUrl] at hsch hne hport ha hb hn hport'
  obtain ⟨f1, f2, f3, f4, f5⟩ := splitUrl_facts e.o s p hs hp
  have hscheme : SchemeOK p.scheme := f1.resolve_left hsch
  have hpn : p.netloc ≠ [] := by
    intro hnil
    rw [hnil, netBlock_nil] at hn0
    cases hn0
    exact hne rfl
  obtain ⟨pr, rfl⟩ := netBlock_pre_some e p.scheme p.netloc netloc pre hn0 hne
  obtain ⟨g1, g2, g3⟩ := encPath_props e netloc p.path hne (f2 hpn) f3
  have hq := encQuery_canon e p.query f4
  have hf := encFragment_canon e p.fragment f5
  have hstr : str e (finishUrl e p netloc (some pr)) =
      .ok (composeUrl p.scheme netloc
        (strPathOf (encPath e netloc p.path) (encQuery e p.query) (encFragment e p.fragment))
        (encQuery e p.query) (encFragment e p.fragment)) :=
    str_compose_gen e p.scheme netloc _ _ _ pr hsch hne g1 (fun x hx => hport x (by rw [← hx]; rfl))
  have hc := compOK_strPath g1 g2 g3 hq hf
  obtain ⟨i1, i2⟩ := identity_core e p.scheme netloc _ _ _ pre' hscheme ha hne hb hn hport' hc
  refine ⟨urlOf p.scheme netloc
    (strPathOf (encPath e netloc p.path) (encQuery e p.query) (encFragment e p.fragment))
    (encQuery e p.query) (encFragment e p.fragment) pre', ?_, ?_, rfl, rfl, rfl, rfl, rfl, rfl, ?_, ?_⟩
  · rw [hstr]; exact i1
  · rw [hstr]; exact i2
  · have hne' : netloc.isEmpty = false := isEmpty_false hne
    simp only [eqKey, finishUrl, strPathOf, hne', Bool.not_false, Bool.and_true]
    cases encPath e netloc p.path <;> cases encQuery e p.query <;> cases encFragment e p.fragment <;> simp
  · have hne' : netloc.isEmpty = false := isEmpty_false hne
    simp only [rawPath, finishUrl, strPathOf, hne']
    cases encPath e netloc p.path <;> cases encQuery e p.query <;> cases encFragment e p.fragment <;> simp

end FixLemmas
end Yarl
