/-
  ReachFix.lean — helper lemmas for C03Reach: the canonical-form invariant `CanonUrl` of every
  URL the auto-encoding API can produce, one preservation lemma per operation.
-/
import YarlModel
import YarlProofs.C01Reach
import YarlProofs.C03
import YarlProofs.C04
import YarlProofs.C07Recompose
import YarlProofs.C15Entry
set_option linter.unusedVariables false
namespace Yarl

/-- the invariant: each stored component is canonical text of its REQUOTER; under an authority the
    path has no dot segment and is empty or starts with '/' -/
structure CanonUrl (b : Backend) (u : Url) : Prop where
  path : Canon (Gen.PATH_REQUOTER.tab b) u.path
  query : Canon (Gen.QUERY_REQUOTER.tab b) u.query
  fragment : Canon (Gen.FRAGMENT_REQUOTER.tab b) u.fragment
  nodots : u.netloc ≠ [] → NoDotSegments u.path
  rooted : u.netloc ≠ [] → (u.path = [] ∨ u.path.head? = some 47)

namespace ReachFix
open OutLangLemmas

/-! ### generic facts about canonical text -/

/-- `d` may stand as a literal in canonical text of `t` -/
def LitOK (t : QTab) (d : Nat) : Prop := t.safe d = true ∧ d ≠ 37 ∧ ¬ (t.qs = true ∧ d = 32)

theorem canon_cons {t : QTab} {d : Nat} {r : Str} (h : LitOK t d) (hr : Canon t r) : Canon t (d :: r) :=
  Canon.lit d r h.1 h.2.1 h.2.2 hr

theorem canon_singleton {t : QTab} {d : Nat} (h : LitOK t d) : Canon t [d] := canon_cons h Canon.nil

theorem toHex_ne_of_not_hex {d x : Nat} (hd : isUpperHexDigit d = false) (hx : x < 16) : toHex x ≠ d := by
  intro e
  have := toHex_upper hx
  rw [e, hd] at this
  exact Bool.noConfusion this

theorem canon_splitOn_gen {t : QTab} (d : Nat) (hd37 : d ≠ 37) (hdhex : isUpperHexDigit d = false) {s : Str}
    (h : Canon t s) : ∀ seg ∈ splitOn d s, Canon t seg := by
  induction h with
  | nil =>
    intro seg hs
    simp only [splitOn, List.mem_cons, List.not_mem_nil, or_false] at hs
    subst hs; exact Canon.nil
  | lit c r hsafe hc hq _ ih =>
    by_cases hcd : c = d
    · subst hcd
      intro seg hs
      simp only [splitOn, if_true, List.mem_cons] at hs
      rcases hs with rfl | hs
      · exact Canon.nil
      · exact ih seg hs
    · obtain ⟨p, ps, e⟩ := List.exists_cons_of_ne_nil (PathLemmas.splitOn_ne_nil d r)
      rw [PathLemmas.splitOn_cons_ne d c r hcd e]
      rw [e] at ih
      intro seg hs
      rcases List.mem_cons.1 hs with rfl | hs
      · exact Canon.lit c p hsafe hc hq (ih p List.mem_cons_self)
      · exact ih seg (List.mem_cons_of_mem _ hs)
  | esc b r hb hk _ ih =>
    obtain ⟨p, ps, e⟩ := List.exists_cons_of_ne_nil (PathLemmas.splitOn_ne_nil d r)
    have e3 : splitOn d (pct b ++ r) = (pct b ++ p) :: ps := by
      simp only [pct, List.cons_append, List.nil_append]
      exact PathLemmas.splitOn_cons_ne d 37 _ (Ne.symm hd37)
        (PathLemmas.splitOn_cons_ne d _ _ (toHex_ne_of_not_hex hdhex (by omega))
          (PathLemmas.splitOn_cons_ne d _ _ (toHex_ne_of_not_hex hdhex (by omega)) e))
    rw [e3]
    rw [e] at ih
    intro seg hs
    rcases List.mem_cons.1 hs with rfl | hs
    · exact Canon.esc b p hb hk (ih p List.mem_cons_self)
    · exact ih seg (List.mem_cons_of_mem _ hs)

theorem canon_joinC_gen {t : QTab} (d : Nat) (hd : LitOK t d) (segs : List Str)
    (h : ∀ seg ∈ segs, Canon t seg) : Canon t (joinC d segs) := by
  induction segs with
  | nil => exact Canon.nil
  | cons p ps ih =>
    cases ps with
    | nil => simpa [joinC, joinSep] using h p (by simp)
    | cons p2 ps2 =>
      have : joinC d (p :: p2 :: ps2) = p ++ ([d] ++ joinC d (p2 :: ps2)) := by
        simp [joinC, joinSep]
      rw [this]
      exact FixLemmas.canon_append (h p (by simp))
        (FixLemmas.canon_append (canon_singleton hd) (ih (fun s hs => h s (by simp [hs]))))

/-- the Canon analogue of `outLang_joinC_iff` -/
theorem canon_joinC_iff {t : QTab} (d : Nat) (hd : LitOK t d) (hdhex : isUpperHexDigit d = false)
    (segs : List Str) (hne : segs ≠ []) (hsep : ∀ p ∈ segs, d ∉ p) :
    Canon t (joinC d segs) ↔ ∀ seg ∈ segs, Canon t seg := by
  constructor
  · intro h seg hseg
    have := canon_splitOn_gen d hd.2.1 hdhex h seg
    rw [QsLemmas.splitOn_joinC d segs hne hsep] at this
    exact this hseg
  · exact canon_joinC_gen d hd segs

theorem canon_cut {t : QTab} (d : Nat) (hd : LitOK t d) (hdhex : isUpperHexDigit d = false) {a b : Str}
    (h : Canon t (a ++ d :: b)) : Canon t a ∧ Canon t b := by
  have hsegs := canon_splitOn_gen d hd.2.1 hdhex h
  rw [QsLemmas.splitOn_append] at hsegs
  constructor
  · rw [← PathAlg.joinC_splitOn_gen d a]
    exact canon_joinC_gen d hd _ (fun s hs => hsegs s (by simp [hs]))
  · rw [← PathAlg.joinC_splitOn_gen d b]
    exact canon_joinC_gen d hd _ (fun s hs => hsegs s (by simp [hs]))

theorem toHex_ne37' {x : Nat} (h : x < 16) : toHex x ≠ 37 := toHex_ne_of_not_hex (by decide) h

theorem canon_tail {t : QTab} (hhex : ∀ c, isUpperHexDigit c = true → LitOK t c) {c : Nat} {r : Str}
    (h : Canon t (c :: r)) : Canon t r := by
  generalize hs : c :: r = s at h
  cases h with
  | nil => cases hs
  | lit c' r' hc h37 hq hr => cases hs; exact hr
  | esc b r' hb hk hr =>
    simp only [pct, List.cons_append, List.nil_append, List.cons.injEq] at hs
    obtain ⟨_, rfl⟩ := hs
    exact canon_cons (hhex _ (toHex_upper (by omega))) (canon_cons (hhex _ (toHex_upper (by omega))) hr)

theorem canon_drop1 {t : QTab} (hhex : ∀ c, isUpperHexDigit c = true → LitOK t c) {s : Str}
    (h : Canon t s) : Canon t (s.drop 1) := by
  cases s with
  | nil => exact h
  | cons c r => exact canon_tail hhex h

theorem canon_normalizePathSegments {t : QTab} {segs : List Str} (h : ∀ s ∈ segs, Canon t s) :
    ∀ s ∈ normalizePathSegments segs, Canon t s :=
  FixLemmas.normalizePathSegments_forall _ Canon.nil _ h

/-- dot-segment removal keeps ANY canonical path canonical (rooted or not) -/
theorem canon_normalizePath {t : QTab} (h47 : LitOK t 47) {p : Str} (hp : Canon t p) :
    Canon t (normalizePath p) := by
  have hsegs := canon_splitOn_gen (t := t) 47 (by decide) (by decide) hp
  unfold normalizePath
  split
  · rename_i rest
    have hsegs' : ∀ seg ∈ splitOn 47 rest, Canon t seg := by
      intro seg hseg
      apply hsegs seg
      simp only [splitOn, if_true, List.mem_cons]
      exact Or.inr hseg
    exact canon_cons h47 (canon_joinC_gen 47 h47 _ (canon_normalizePathSegments hsegs'))
  · exact canon_joinC_gen 47 h47 _ (canon_normalizePathSegments hsegs)


/-! ### the generated tables -/

open WfLemmas FixLemmas in
theorem path_lit47 (b : Backend) : LitOK (Gen.PATH_REQUOTER.tab b) 47 := by
  cases b <;> exact ⟨by decide, by decide, by decide⟩

theorem path_lit46 (b : Backend) : LitOK (Gen.PATH_REQUOTER.tab b) 46 := by
  cases b <;> exact ⟨by decide, by decide, by decide⟩

theorem path_hex_lit (b : Backend) : ∀ c, isUpperHexDigit c = true → LitOK (Gen.PATH_REQUOTER.tab b) c := by
  intro c hc
  refine ⟨WfLemmas.path_hex_safe b c hc, ?_, ?_⟩
  · have := FixLemmas.upperHex_range hc; omega
  · have := FixLemmas.upperHex_range hc; omega

theorem query_lit61 (b : Backend) : LitOK (Gen.QUERY_REQUOTER.tab b) 61 := by
  cases b <;> exact ⟨by decide, by decide, by decide⟩

theorem query_lit38 (b : Backend) : LitOK (Gen.QUERY_REQUOTER.tab b) 38 := by
  cases b <;> exact ⟨by decide, by decide, by decide⟩

/-! ### what the quoters write -/

theorem q_path_requoter_canon (e : Env) (s : Str) (hs : PyStr s) :
    Canon (Gen.PATH_REQUOTER.tab e.b) (q e Gen.PATH_REQUOTER s) :=
  FixLemmas.run_canon e.b _ FixLemmas.pr_mem rfl s hs

theorem q_path_quoter_canon (e : Env) (s : Str) (hs : PyStr s) :
    Canon (Gen.PATH_REQUOTER.tab e.b) (q e Gen.PATH_QUOTER s) := (C04_partner_canon e.b s hs).2.1

theorem q_query_quoter_canon (b : Backend) (s : Str) (hs : PyStr s) :
    Canon (Gen.QUERY_REQUOTER.tab b) (Gen.QUERY_QUOTER.run b s) := (C04_partner_canon b s hs).2.2.1

theorem q_query_part_canon (b : Backend) (s : Str) (hs : PyStr s) :
    Canon (Gen.QUERY_REQUOTER.tab b) (Gen.QUERY_PART_QUOTER.run b s) := (C04_partner_canon b s hs).2.2.2.1

theorem q_fragment_quoter_canon (e : Env) (s : Str) (hs : PyStr s) :
    Canon (Gen.FRAGMENT_REQUOTER.tab e.b) (q e Gen.FRAGMENT_QUOTER s) := (C04_partner_canon e.b s hs).2.2.2.2

/-- canonical text is in the output language -/
theorem canon_outLang {t : QTab} {s : Str} (h : Canon t s) : OutLang t s := by
  induction h with
  | nil => exact OutLang.nil
  | lit c r hs hc _ _ ih => exact OutLang.lit c r hs hc ih
  | esc b r hb _ _ ih => exact OutLang.esc b r hb ih

theorem CanonUrl.wf {b : Backend} {u : Url} (h : CanonUrl b u) : WFUrl b u :=
  ⟨canon_outLang h.path, canon_outLang h.query, canon_outLang h.fragment⟩

theorem canon_pyStr_path {b : Backend} {s : Str} (h : Canon (Gen.PATH_REQUOTER.tab b) s) : PyStr s :=
  FixLemmas.canon_pyStr (gen_tab_wf _ FixLemmas.pr_mem b) h

theorem canon_pyStr_query {b : Backend} {s : Str} (h : Canon (Gen.QUERY_REQUOTER.tab b) s) : PyStr s :=
  FixLemmas.canon_pyStr (gen_tab_wf _ FixLemmas.qr_mem b) h

/-! ### rooted paths -/

/-- empty or starting with '/' -/
def RootedP (p : Str) : Prop := p = [] ∨ p.head? = some 47

instance (p : Str) : Decidable (RootedP p) := by unfold RootedP; infer_instance

theorem rootedP_of_rooted {p : Str} (h : Rooted p) : RootedP p := by
  rcases h with rfl | ⟨r, rfl⟩
  · exact Or.inl rfl
  · exact Or.inr rfl

theorem rooted_of_rootedP {p : Str} (h : RootedP p) : Rooted p := by
  rcases h with rfl | h
  · exact Or.inl rfl
  · cases p with
    | nil => exact Or.inl rfl
    | cons a r => simp at h; subst h; exact Or.inr ⟨r, rfl⟩

theorem rootedP_cons (r : Str) : RootedP (47 :: r) := Or.inr rfl

theorem rootedP_flatF (l : List Str) : RootedP (PathLemmas.flatF l) := by
  rcases PathLemmas.flatF_head l with h | ⟨r, h⟩
  · exact Or.inl h
  · rw [h]; exact rootedP_cons r

/-- joining a segment list whose first segment is empty gives a rooted path -/
theorem rootedP_joinC_nil (l : List Str) : RootedP (joinC 47 ([] :: l)) := by
  rw [PathLemmas.joinC_cons]
  exact rootedP_flatF l

theorem rootedP_normalizePath {p : Str} (h : RootedP p) : RootedP (normalizePath p) := by
  rcases h with rfl | h
  · left; decide
  · cases p with
    | nil => left; decide
    | cons a r =>
      simp at h; subst h
      obtain ⟨q, hq⟩ := C15_rooted r
      rw [hq]; exact rootedP_cons q

theorem rootedP_guard {p : Str} (h : RootedP p) :
    RootedP (if mem 46 p = true then normalizePath p else p) := by
  split
  · exact rootedP_normalizePath h
  · exact h

theorem rootedP_ensure_slash (p1 : Str) :
    RootedP (match p1 with
      | [] => p1
      | 47 :: _ => p1
      | _ => 47 :: p1) := by
  split
  · exact Or.inl rfl
  · exact rootedP_cons _
  · exact rootedP_cons _

theorem rootedP_fixRoot (p : Str) : RootedP (PathAlg.fixRoot p) := by
  unfold PathAlg.fixRoot
  exact rootedP_ensure_slash p

theorem canon_ensure_slash (b : Backend) (p1 : Str) : Canon (Gen.PATH_REQUOTER.tab b) p1 →
    Canon (Gen.PATH_REQUOTER.tab b) (match p1 with
      | [] => p1
      | 47 :: _ => p1
      | _ => 47 :: p1) := by
  intro h
  split
  · exact h
  · exact h
  · exact canon_cons (path_lit47 b) h

theorem canon_guard (b : Backend) (p : Str) (hp : Canon (Gen.PATH_REQUOTER.tab b) p) :
    Canon (Gen.PATH_REQUOTER.tab b) (if mem 46 p = true then normalizePath p else p) := by
  split
  · exact canon_normalizePath (path_lit47 b) hp
  · exact hp

theorem canon_rooted (b : Backend) (p : Str) (hp : Canon (Gen.PATH_REQUOTER.tab b) p) :
    Canon (Gen.PATH_REQUOTER.tab b) (rooted p) := by
  unfold rooted
  split
  · exact hp
  · exact canon_cons (path_lit47 b) hp

/-- `with_path` since fix 7cae68c: the guard, then `normalize_path` of the rooted path -/
theorem canon_guard_rooted (b : Backend) (p : Str) (hp : Canon (Gen.PATH_REQUOTER.tab b) p) (c : Bool) :
    Canon (Gen.PATH_REQUOTER.tab b) (if c = true then normalizePath (rooted p) else p) := by
  split
  · exact canon_normalizePath (path_lit47 b) (canon_rooted b p hp)
  · exact hp

theorem ne_nil_of_not_isEmpty {s : Str} (h : s ≠ []) : (!s.isEmpty) = true := by
  cases s with
  | nil => exact absurd rfl h
  | cons a t => rfl

/-! ### the constructor -/

theorem encPath_canon (e : Env) (netloc path : Str) (hs : PyStr path) :
    Canon (Gen.PATH_REQUOTER.tab e.b) (FixLemmas.encPath e netloc path) := by
  unfold FixLemmas.encPath
  split
  · rename_i h; rw [WfLemmas.isEmpty_eq_nil h]; exact Canon.nil
  · simp only
    split
    · exact canon_normalizePath (path_lit47 e.b) (q_path_requoter_canon e _ hs)
    · exact q_path_requoter_canon e _ hs

theorem encodeUrl_canon (e : Env) (s : Str) (hs : PyStr s) (u : Url) (h : encodeUrl e s = .ok u) :
    CanonUrl e.b u := by
  have hnd := C15_entry_encodeUrl e s u h
  obtain ⟨p, netloc, pre, hp, hn0, rfl⟩ := FixLemmas.encodeUrl_inv e s u h
  obtain ⟨_, f2, f3, f4, f5⟩ := FixLemmas.splitUrl_facts e.o s p hs hp
  refine ⟨encPath_canon e netloc p.path f3, FixLemmas.encQuery_canon e p.query f4,
    FixLemmas.encFragment_canon e p.fragment f5, hnd, ?_⟩
  intro hne
  simp only [FixLemmas.finishUrl] at hne ⊢
  have hpn : p.netloc ≠ [] := by
    intro hnil
    rw [hnil, FixLemmas.netBlock_nil] at hn0
    cases hn0
    exact hne rfl
  exact rootedP_of_rooted (FixLemmas.encPath_props e netloc p.path hne (f2 hpn) f3).1

/-! ### query strings -/

open WfLemmas in
theorem pairStr_canon (b : Backend) (k : Str) (v : QVal) (s : Str) (hk : PyStr k) (hv : QValPy v)
    (h : pairStr b k v = .ok s) : Canon (Gen.QUERY_REQUOTER.tab b) s := by
  unfold pairStr at h
  obtain ⟨vs, hvs, h⟩ := bind_ok h
  cases h
  exact FixLemmas.canon_append (FixLemmas.canon_append (q_query_part_canon b k hk)
    (canon_singleton (query_lit61 b))) (q_query_part_canon b vs (queryVar_pyStr v vs hvs hv))

open WfLemmas in
theorem strQueryFromIterable_canon (b : Backend) (items : List (Str × QItem)) (s : Str)
    (hi : QItemsPy items) (h : strQueryFromIterable b items = .ok s) :
    Canon (Gen.QUERY_REQUOTER.tab b) s := by
  unfold strQueryFromIterable at h
  obtain ⟨ps, hps, h⟩ := bind_ok h
  cases h
  apply canon_joinC_gen 38 (query_lit38 b)
  apply mapM_ok_forall _ (fun y => Canon (Gen.QUERY_REQUOTER.tab b) y) items ps hps
  intro x hx y hy
  obtain ⟨k, it⟩ := x
  cases it with
  | one v => exact pairStr_canon b k v y (hi _ hx).1 (hi _ hx).2 hy
  | many vs => cases hy

open WfLemmas in
theorem strQueryFromSeqIterable_canon (b : Backend) (items : List (Str × QItem)) (s : Str)
    (hi : QItemsPy items) (h : strQueryFromSeqIterable b items = .ok s) :
    Canon (Gen.QUERY_REQUOTER.tab b) s := by
  unfold strQueryFromSeqIterable at h
  obtain ⟨ps, hps, h⟩ := bind_ok h
  cases h
  apply canon_joinC_gen 38 (query_lit38 b)
  intro seg hseg
  obtain ⟨l, hl, hseg⟩ := List.mem_flatten.mp hseg
  have := mapM_ok_forall _ (fun l : List Str => ∀ y ∈ l, Canon (Gen.QUERY_REQUOTER.tab b) y) items ps hps
  refine this ?_ l hl seg hseg
  intro x hx y hy
  obtain ⟨k, it⟩ := x
  cases it with
  | one v =>
    simp only at hy
    obtain ⟨t, ht, hy⟩ := bind_ok hy
    cases hy
    intro z hz
    simp only [List.mem_singleton] at hz
    subst hz
    exact pairStr_canon b k v _ (hi _ hx).1 (hi _ hx).2 ht
  | many vs =>
    simp only at hy
    apply mapM_ok_forall _ (fun z => Canon (Gen.QUERY_REQUOTER.tab b) z) vs y hy
    intro v hv z hz
    exact pairStr_canon b k v z (hi _ hx).1 ((hi _ hx).2 v hv) hz

open WfLemmas in
theorem getStrQuery_canon (b : Backend) (a : QArg) (ha : QArgPy a) (r : Option Str)
    (h : getStrQuery b a = .ok r) : Canon (Gen.QUERY_REQUOTER.tab b) (r.getD []) := by
  cases a with
  | none => cases h; exact Canon.nil
  | str s =>
    simp only [getStrQuery] at h
    split at h
    · cases h; exact Canon.nil
    · cases h; exact q_query_quoter_canon b s ha
  | mapping items =>
    simp only [getStrQuery] at h
    split at h
    · cases h; exact Canon.nil
    · obtain ⟨t, ht, h⟩ := map_ok h
      subst h
      exact strQueryFromSeqIterable_canon b items t ha ht
  | pairs items =>
    simp only [getStrQuery] at h
    split at h
    · cases h; exact Canon.nil
    · obtain ⟨t, ht, h⟩ := map_ok h
      subst h
      exact strQueryFromIterable_canon b items t ha ht
  | bytes empty =>
    simp only [getStrQuery] at h
    split at h
    · cases h; exact Canon.nil
    · cases h
  | other => cases h
  | noArgs => cases h

/-! ### build -/

open WfLemmas in
theorem build_canon (e : Env) (a : BuildArgs) (u : Url) (henc : a.encoded = false)
    (hpy : PyStr a.path ∧ PyStr a.queryString ∧ PyStr a.fragment ∧ QArgPy a.query)
    (h : build e a = .ok u) : CanonUrl e.b u := by
  have hnd := C15_entry_build e a u henc h
  obtain ⟨hpath_py, hqs_py, hfrag_py, hq_py⟩ := hpy
  unfold build at h
  obtain ⟨_, h⟩ := ite_err_ok h
  obtain ⟨_, h⟩ := ite_err_ok h
  obtain ⟨_, h⟩ := ite_err_ok h
  obtain ⟨_, h⟩ := ite_err_ok h
  obtain ⟨_, h⟩ := ite_err_ok h
  obtain ⟨qs, hqs, h⟩ := bind_ok h
  rw [henc] at h
  rw [if_neg (by decide)] at h
  obtain ⟨sc, _, h⟩ := bind_ok h   -- the lowered scheme (fix e21485a)
  obtain ⟨netloc, hnl, h⟩ := bind_ok h
  obtain ⟨path, hpath, h⟩ := bind_ok h
  cases h
  have hp0 : Canon (Gen.PATH_REQUOTER.tab e.b)
      (if a.path.isEmpty = true then a.path else q e Gen.PATH_QUOTER a.path) := by
    split
    · rename_i hemp; rw [isEmpty_eq_nil hemp]; exact Canon.nil
    · exact q_path_quoter_canon e _ hpath_py
  refine ⟨?_, ?_, ?_, hnd, ?_⟩
  · simp only [fromParts]
    generalize (if a.path.isEmpty = true then a.path else q e Gen.PATH_QUOTER a.path) = path0 at hpath hp0
    split at hpath
    · split at hpath
      · cases hpath
        exact canon_guard e.b _ hp0
      · cases hpath
    · cases hpath; exact hp0
  · simp only [fromParts]
    by_cases ht : qargTruthy a.query = true
    · rw [if_pos ht] at hqs
      obtain ⟨r, hr, hqs⟩ := bind_ok hqs
      cases hqs
      have := getStrQuery_canon e.b a.query hq_py r hr
      simp only [ht, Bool.not_true, Bool.false_and, Bool.false_eq_true, if_false]
      exact this
    · rw [if_neg ht] at hqs
      cases hqs
      split
      · exact q_query_quoter_canon e.b _ hqs_py
      · rename_i hc
        simp only [ht, Bool.not_false, Bool.true_and, Bool.not_eq_true', Bool.not_eq_false] at hc
        rw [isEmpty_eq_nil hc]; exact Canon.nil
  · simp only [fromParts]
    split
    · rename_i hemp; rw [isEmpty_eq_nil hemp]; exact Canon.nil
    · exact q_fragment_quoter_canon e _ hfrag_py
  · intro hne
    simp only [fromParts] at hne ⊢
    generalize (if a.path.isEmpty = true then a.path else q e Gen.PATH_QUOTER a.path) = path0 at hpath
    split at hpath
    · split at hpath
      · cases hpath
        exact rootedP_guard (rootedP_cons _)
      · cases hpath
    · rename_i hc
      cases hpath
      simp only [ne_nil_of_not_isEmpty hne, Bool.and_true, Bool.not_eq_true', Bool.not_eq_false] at hc
      exact Or.inl (isEmpty_eq_nil hc)

/-! ### modifiers that keep path, query and fragment -/

open EntryLemmas in
theorem canonUrl_of_tail {b : Backend} {u v : Url} (ht : SameTail u v)
    (hn : v.netloc ≠ [] → u.netloc ≠ []) (hu : CanonUrl b u) : CanonUrl b v := by
  obtain ⟨h1, h2, h3⟩ := ht
  exact ⟨h1 ▸ hu.path, h2 ▸ hu.query, h3 ▸ hu.fragment, fun h => h1 ▸ hu.nodots (hn h),
    fun h => h1 ▸ hu.rooted (hn h)⟩

open WfLemmas EntryLemmas

theorem withScheme_canon (e : Env) (u : Url) (hu : CanonUrl e.b u) (s : Str) (v : Url)
    (h : withScheme e u s = .ok v) : CanonUrl e.b v := by
  refine canonUrl_of_tail (withScheme_tail e u s v h) ?_ hu
  unfold withScheme at h
  obtain ⟨l, _, h⟩ := bind_ok h
  split at h
  · cases h
  · cases h; exact id

theorem ne_nil_of_isEmpty_ne {s : Str} (h : ¬ s.isEmpty = true) : s ≠ [] := by
  intro e; subst e; exact h rfl

theorem withUser_canon (e : Env) (u : Url) (hu : CanonUrl e.b u) (s : Option Str) (v : Url)
    (h : withUser e u s = .ok v) : CanonUrl e.b v := by
  refine canonUrl_of_tail (withUser_tail e u s v h) (fun _ => ?_) hu
  unfold withUser at h
  obtain ⟨⟨usr', pw⟩, _, h⟩ := bind_ok h
  simp only at h
  split at h
  · cases h
  · exact ne_nil_of_isEmpty_ne ‹_›

theorem withPassword_canon (e : Env) (u : Url) (hu : CanonUrl e.b u) (s : Option Str) (v : Url)
    (h : withPassword e u s = .ok v) : CanonUrl e.b v := by
  refine canonUrl_of_tail (withPassword_tail e u s v h) (fun _ => ?_) hu
  unfold withPassword at h
  simp only at h
  split at h
  · cases h
  · exact ne_nil_of_isEmpty_ne ‹_›

theorem withHost_canon (e : Env) (u : Url) (hu : CanonUrl e.b u) (s : Str) (v : Url)
    (h : withHost e u s = .ok v) : CanonUrl e.b v := by
  refine canonUrl_of_tail (withHost_tail e u s v h) (fun _ => ?_) hu
  unfold withHost at h
  split at h
  · cases h
  · exact ne_nil_of_isEmpty_ne ‹_›

theorem withPort_canon (e : Env) (u : Url) (hu : CanonUrl e.b u) (p : Option Int) (k : Nat) (v : Url)
    (h : withPort e u p k = .ok v) : CanonUrl e.b v := by
  refine canonUrl_of_tail (withPort_tail e u p k v h) (fun _ => ?_) hu
  unfold withPort at h
  obtain ⟨_, h⟩ := ite_err_ok h
  obtain ⟨_, h⟩ := ite_err_ok h
  obtain ⟨hn, h⟩ := ite_err_ok h
  exact ne_nil_of_isEmpty_ne hn

theorem canonUrl_empty_path (b : Backend) (scheme netloc : Str) :
    CanonUrl b (fromParts scheme netloc [] [] []) :=
  ⟨Canon.nil, Canon.nil, Canon.nil, fun _ => noDotSegments_nil, fun _ => Or.inl rfl⟩

theorem origin_canon (e : Env) (u : Url) (hu : CanonUrl e.b u) (v : Url)
    (h : origin e u = .ok v) : CanonUrl e.b v := by
  unfold origin at h
  split at h
  · cases h
  · split at h
    · cases h
    · split at h
      · obtain ⟨hh, _, h⟩ := bind_ok h
        obtain ⟨p, _, h⟩ := bind_ok h
        cases h; exact canonUrl_empty_path _ _ _
      · split at h
        · cases h; exact hu
        · cases h; exact canonUrl_empty_path _ _ _

theorem relative_canon (b : Backend) (u : Url) (hu : CanonUrl b u) (v : Url)
    (h : relative u = .ok v) : CanonUrl b v := by
  unfold relative at h
  split at h
  · cases h
  · cases h
    exact ⟨hu.path, hu.query, hu.fragment, fun hn => absurd rfl hn, fun hn => absurd rfl hn⟩

theorem pickleTwin_canon (b : Backend) (u : Url) (hu : CanonUrl b u) : CanonUrl b (pickleTwin u) :=
  ⟨hu.path, hu.query, hu.fragment, hu.nodots, hu.rooted⟩

/-! ### with_path, with_fragment, the query modifiers -/

theorem withPath_canon (e : Env) (u : Url) (hu : CanonUrl e.b u) (path : Str) (hp : PyStr path)
    (kq kf : Bool) : CanonUrl e.b (withPath e u path false kq kf) := by
  have hnd := C15_entry_withPath e u path kq kf
  refine ⟨?_, ?_, ?_, hnd, ?_⟩
  · rw [withPath_eq]
    simp only [fromParts]
    apply canon_ensure_slash e.b
    exact canon_guard_rooted e.b _ (q_path_quoter_canon e _ hp) _
  · unfold withPath
    show Canon _ (if kq = true then u.query else [])
    split
    · exact hu.query
    · exact Canon.nil
  · unfold withPath
    show Canon _ (if kf = true then u.fragment else [])
    split
    · exact hu.fragment
    · exact Canon.nil
  · intro _
    unfold withPath
    simp only [fromParts]
    exact rootedP_ensure_slash _

theorem withFragment_canon (e : Env) (u : Url) (hu : CanonUrl e.b u) (f : Option Str)
    (hf : ∀ s, f = some s → PyStr s) : CanonUrl e.b (withFragment e u f) := by
  unfold withFragment
  cases f with
  | none =>
    simp only
    split
    · exact hu
    · exact ⟨hu.path, hu.query, Canon.nil, hu.nodots, hu.rooted⟩
  | some s =>
    simp only
    split
    · exact hu
    · exact ⟨hu.path, hu.query, q_fragment_quoter_canon e s (hf s rfl), hu.nodots, hu.rooted⟩

theorem withQuery_canon (e : Env) (u : Url) (hu : CanonUrl e.b u) (a : QArg) (ha : QArgPy a) (v : Url)
    (h : withQuery e u a = .ok v) : CanonUrl e.b v := by
  unfold withQuery at h
  obtain ⟨r, hr, h⟩ := bind_ok h
  cases h
  exact ⟨hu.path, getStrQuery_canon e.b a ha r hr, hu.fragment, hu.nodots, hu.rooted⟩

theorem extendQuery_canon (e : Env) (u : Url) (hu : CanonUrl e.b u) (a : QArg) (ha : QArgPy a) (v : Url)
    (h : extendQuery e u a = .ok v) : CanonUrl e.b v := by
  unfold extendQuery at h
  obtain ⟨r, hr, h⟩ := bind_ok h
  have hq := getStrQuery_canon e.b a ha r hr
  cases r with
  | none => cases h; exact hu
  | some nq =>
    simp only [Option.getD_some] at hq
    simp only at h
    split at h
    · cases h; exact hu
    · cases h
      refine ⟨hu.path, ?_, hu.fragment, hu.nodots, hu.rooted⟩
      simp only [fromParts]
      split
      · split
        · exact FixLemmas.canon_append hu.query hq
        · exact FixLemmas.canon_append (FixLemmas.canon_append hu.query
            (canon_singleton (query_lit38 e.b))) hq
      · exact hq

theorem queryPairs_py' (b : Backend) (u : Url) (hu : CanonUrl b u) : QItemsPy (strItems (queryPairs u)) :=
  strItems_py _ (parseQsl_pyStr _ (canon_pyStr_query hu.query))

theorem updateQuery_canon (e : Env) (u : Url) (hu : CanonUrl e.b u) (a : QArg) (ha : QArgPy a) (v : Url)
    (h : updateQuery e u a = .ok v) : CanonUrl e.b v := by
  unfold updateQuery at h
  obtain ⟨qy, hq, h⟩ := bind_ok h
  cases h
  refine ⟨hu.path, ?_, hu.fragment, hu.nodots, hu.rooted⟩
  simp only [fromParts]
  have hold := queryPairs_py' e.b u hu
  cases a with
  | none => cases hq; exact Canon.nil
  | str s =>
    simp only at hq
    split at hq
    · cases hq; exact hu.query
    · exact strQueryFromIterable_canon e.b _ qy
        (mdUpdate_py _ _ hold (strItems_py _ (parseQsl_pyStr s ha))) hq
  | mapping items =>
    simp only at hq
    split at hq
    · cases hq; exact hu.query
    · exact strQueryFromSeqIterable_canon e.b _ qy (mdUpdate_py _ _ hold ha) hq
  | pairs items =>
    simp only at hq
    split at hq
    · cases hq; exact hu.query
    · exact strQueryFromIterable_canon e.b _ qy (mdUpdate_py _ _ hold ha) hq
  | bytes empty =>
    simp only at hq
    split at hq
    · cases hq; exact hu.query
    · cases hq
  | other => cases hq
  | noArgs => cases hq

theorem withoutQueryParams_canon (e : Env) (u : Url) (hu : CanonUrl e.b u) (names : List Str) (v : Url)
    (h : withoutQueryParams e u names = .ok v) : CanonUrl e.b v := by
  unfold withoutQueryParams at h
  simp only [pure, Except.pure] at h
  split at h
  · cases h; exact hu
  · refine withQuery_canon e u hu _ ?_ v h
    apply strItems_py
    intro p hp
    exact parseQsl_pyStr _ (canon_pyStr_query hu.query) p (List.mem_filter.mp hp).1

/-! ### raw parts, with_name, with_suffix -/

theorem path_segs_canon (b : Backend) {p : Str} (h : Canon (Gen.PATH_REQUOTER.tab b) p) :
    ∀ seg ∈ splitOn 47 p, Canon (Gen.PATH_REQUOTER.tab b) seg :=
  canon_splitOn_gen 47 (by decide) (by decide) h

theorem path_join_canon (b : Backend) (segs : List Str)
    (h : ∀ seg ∈ segs, Canon (Gen.PATH_REQUOTER.tab b) seg) :
    Canon (Gen.PATH_REQUOTER.tab b) (joinC 47 segs) :=
  canon_joinC_gen 47 (path_lit47 b) segs h

theorem rawParts_canon (b : Backend) (u : Url) (hu : CanonUrl b u) :
    ∀ seg ∈ rawParts u, Canon (Gen.PATH_REQUOTER.tab b) seg := by
  have h47 : Canon (Gen.PATH_REQUOTER.tab b) [47] := canon_singleton (path_lit47 b)
  intro seg hseg
  unfold rawParts at hseg
  split at hseg
  · split at hseg
    · rcases List.mem_cons.mp hseg with rfl | hseg
      · exact h47
      · exact path_segs_canon b (canon_drop1 (path_hex_lit b) hu.path) seg hseg
    · simp only [List.mem_singleton] at hseg
      subst hseg; exact h47
  · split at hseg
    · rename_i rest hp
      rcases List.mem_cons.mp hseg with rfl | hseg
      · exact h47
      · have := hu.path
        rw [hp] at this
        exact path_segs_canon b (canon_tail (path_hex_lit b) this) seg hseg
    · exact path_segs_canon b hu.path seg hseg

/-- shape of the path `_with_raw_name` writes under an authority -/
theorem withRawName_auth (u : Url) (nm : Str) (kq kf : Bool) (v : Url) (hn : u.netloc ≠ [])
    (h : withRawName u nm kq kf = .ok v) :
    v.netloc = u.netloc ∧ ∃ X, v.path = joinC 47 ([] :: X) ∧
      ∀ x ∈ X, x = nm ∨ (u.path ≠ [] ∧ x ∈ splitOn 47 (u.path.drop 1)) := by
  have hn' : (!u.netloc.isEmpty) = true := ne_nil_of_not_isEmpty hn
  unfold withRawName at h
  simp only [hn', if_true, bind, Except.bind, pure, Except.pure, Except.ok.injEq] at h
  subst h
  refine ⟨rfl, ?_⟩
  simp only [fromParts]
  unfold rawParts
  simp only [hn', if_true]
  by_cases hp : u.path = []
  · refine ⟨[nm], ?_, ?_⟩
    · simp [hp]
    · intro x hx
      simp only [List.mem_singleton] at hx
      exact Or.inl hx
  · have hp' : (!u.path.isEmpty) = true := ne_nil_of_not_isEmpty hp
    obtain ⟨s0, S, hS⟩ := List.exists_cons_of_ne_nil (PathLemmas.splitOn_ne_nil 47 (u.path.drop 1))
    refine ⟨(s0 :: S).dropLast ++ [nm], ?_, ?_⟩
    · simp only [hp', if_true, hS]
      have e1 : ([47] :: s0 :: S).length ≠ 1 := by simp
      rw [if_neg e1]
      simp [List.dropLast]
    · intro x hx
      rcases List.mem_append.mp hx with hx | hx
      · right
        refine ⟨hp, ?_⟩
        rw [hS]
        exact List.dropLast_subset _ hx
      · simp only [List.mem_singleton] at hx
        exact Or.inl hx

/-- the segments after the root of a rooted path without dot segments -/
theorem nodots_drop1 {p : Str} (hr : RootedP p) (hp : p ≠ []) (hd : NoDotSegments p) :
    ∀ x ∈ splitOn 47 (p.drop 1), x ≠ dot ∧ x ≠ dotdot := by
  intro x hx
  rcases hr with rfl | hr
  · exact absurd rfl hp
  · cases p with
    | nil => exact absurd rfl hp
    | cons a r =>
      simp at hr; subst hr
      apply hd x
      simp only [splitOn, if_true, List.mem_cons]
      exact Or.inr hx

theorem withRawName_canon (b : Backend) (u : Url) (hu : CanonUrl b u) (nm : Str)
    (hnm : Canon (Gen.PATH_REQUOTER.tab b) nm) (h47 : 47 ∉ nm) (hnd : nm ≠ dot ∧ nm ≠ dotdot)
    (kq kf : Bool) (v : Url)
    (h : withRawName u nm kq kf = .ok v) : CanonUrl b v := by
  have hparts := rawParts_canon b u hu
  have hshape := withRawName_auth u nm kq kf v
  have hv : v.netloc = u.netloc := by
    unfold withRawName at h
    obtain ⟨parts', hp', h⟩ := bind_ok h
    cases h; rfl
  have hC : Canon (Gen.PATH_REQUOTER.tab b) v.path ∧ v.query = (if kq = true then u.query else []) ∧
      v.fragment = (if kf = true then u.fragment else []) := by
    unfold withRawName at h
    obtain ⟨parts', hp', h⟩ := bind_ok h
    cases h
    refine ⟨?_, rfl, rfl⟩
    have hseg : ∀ seg ∈ parts', Canon (Gen.PATH_REQUOTER.tab b) seg := by
      have hps1 : ∀ seg ∈ rawParts u ++ [nm], Canon (Gen.PATH_REQUOTER.tab b) seg := by
        intro seg hs
        rcases List.mem_append.mp hs with hs | hs
        · exact hparts seg hs
        · simp only [List.mem_singleton] at hs; subst hs; exact hnm
      have hps2 : ∀ seg ∈ (rawParts u).dropLast ++ [nm], Canon (Gen.PATH_REQUOTER.tab b) seg := by
        intro seg hs
        rcases List.mem_append.mp hs with hs | hs
        · exact hparts seg (List.dropLast_subset _ hs)
        · simp only [List.mem_singleton] at hs; subst hs; exact hnm
      split at hp'
      · cases hp'
        intro seg hs
        rcases List.mem_cons.mp hs with rfl | hs
        · exact Canon.nil
        · have hs := List.mem_of_mem_drop hs
          split at hs
          · exact hps1 seg hs
          · exact hps2 seg hs
      · split at hp'
        · cases hp'
        · cases hp'
          intro seg hs
          split at hs
          · rename_i r heq
            rcases List.mem_cons.mp hs with rfl | hs
            · exact Canon.nil
            · exact hps2 seg (by rw [heq]; simp [hs])
          · exact hps2 seg hs
    exact path_join_canon b _ hseg
  obtain ⟨hpC, hq, hf⟩ := hC
  refine ⟨hpC, ?_, ?_, ?_, ?_⟩
  · rw [hq]; split
    · exact hu.query
    · exact Canon.nil
  · rw [hf]; split
    · exact hu.fragment
    · exact Canon.nil
  · intro hvn
    have hun : u.netloc ≠ [] := hv ▸ hvn
    obtain ⟨_, X, hX, hmem⟩ := hshape hun h
    rw [hX]
    have hXfacts : ∀ x ∈ X, 47 ∉ x ∧ x ≠ dot ∧ x ≠ dotdot := by
      intro x hx
      rcases hmem x hx with rfl | ⟨hp, hx⟩
      · exact ⟨h47, hnd⟩
      · exact ⟨PathLemmas.splitOn_no_sep 47 _ x hx, nodots_drop1 (hu.rooted hun) hp (hu.nodots hun) x hx⟩
    apply noDotSegments_joinC
    · intro p hp
      rcases List.mem_cons.mp hp with rfl | hp
      · simp
      · exact (hXfacts p hp).1
    · intro p hp
      rcases List.mem_cons.mp hp with rfl | hp
      · simp [dot, dotdot]
      · exact (hXfacts p hp).2
  · intro hvn
    have hun : u.netloc ≠ [] := hv ▸ hvn
    obtain ⟨_, X, hX, _⟩ := hshape hun h
    rw [hX]
    exact rootedP_joinC_nil X

theorem rawName_canon (b : Backend) (u : Url) (hu : CanonUrl b u) (n : Str) (h : rawName u = .ok n) :
    Canon (Gen.PATH_REQUOTER.tab b) n := by
  have hparts := rawParts_canon b u hu
  unfold rawName at h
  simp only at h
  split at h
  · split at h
    · rename_i l hl
      cases h
      exact hparts _ (List.mem_of_getLast? hl)
    · cases h
  · split at h
    · rename_i l hl
      cases h
      exact hparts _ (List.mem_of_mem_drop (List.mem_of_getLast? hl))
    · cases h; exact Canon.nil

theorem withName_canon (e : Env) (u : Url) (hu : CanonUrl e.b u) (nm : Str) (hnm : PyStr nm)
    (kq kf : Bool) (v : Url) (h : withName e u nm kq kf = .ok v) : CanonUrl e.b v := by
  unfold withName at h
  split at h
  · cases h
  · rename_i h47
    simp only at h
    split at h
    · cases h
    · rename_i hdd
      have h47' : 47 ∉ nm := by
        intro hm; exact h47 (NetlocLemmas.mem_iff.mpr hm)
      exact withRawName_canon e.b u hu _ (q_path_quoter_canon e nm hnm)
        (PathAlg.q_path_avoid e nm hnm 47 (Or.inr rfl) h47') ⟨fun h1 => hdd (Or.inl h1), fun h2 => hdd (Or.inr h2)⟩ _ _ v h

theorem withSuffix_canon (e : Env) (u : Url) (hu : CanonUrl e.b u) (sfx : Str) (hsfx : PyStr sfx)
    (kq kf : Bool) (v : Url) (h : withSuffix e u sfx kq kf = .ok v) : CanonUrl e.b v := by
  unfold withSuffix at h
  split at h
  · cases h
  · obtain ⟨n, hn, h⟩ := bind_ok h
    have hnC := rawName_canon e.b u hu n hn
    have hn47 := PathAlg.rawName_no_slash u n hn
    split at h
    · cases h
    · split at h
      · cases h
      · rename_i hs47
        have hs47' : 47 ∉ sfx := fun hm => hs47 (NetlocLemmas.mem_iff.mpr hm)
        have hq47 := PathAlg.q_path_avoid e sfx hsfx 47 (Or.inr rfl) hs47'
        obtain ⟨old, hold, h⟩ := bind_ok h
        simp only at h
        have hs := q_path_quoter_canon e sfx hsfx
        have hn' : Canon (Gen.PATH_REQUOTER.tab e.b)
            (if old.isEmpty = true then n ++ q e Gen.PATH_QUOTER sfx
             else n.take (n.length - old.length) ++ q e Gen.PATH_QUOTER sfx) ∧
            47 ∉ (if old.isEmpty = true then n ++ q e Gen.PATH_QUOTER sfx
             else n.take (n.length - old.length) ++ q e Gen.PATH_QUOTER sfx) := by
          split
          · refine ⟨FixLemmas.canon_append hnC hs, ?_⟩
            intro hm
            rcases List.mem_append.mp hm with hm | hm
            · exact hn47 hm
            · exact hq47 hm
          · refine ⟨FixLemmas.canon_append ?_ hs, ?_⟩
            · -- the old suffix starts at the last '.', which is a literal
              unfold rawSuffix at hold
              rw [hn] at hold
              simp only [bind, Except.bind, pure, Except.pure] at hold
              split at hold
              · rename_i i hi
                split at hold
                · rename_i hcond
                  cases hold
                  obtain ⟨h1, h2, _⟩ := PathAlg.rfind_some 46 n i hi
                  have hlen : n.length - (n.drop i).length = i := by
                    simp only [List.length_drop]; omega
                  rw [hlen]
                  have hsplit : n = n.take i ++ 46 :: n.drop (i + 1) := by
                    conv => lhs; rw [← List.take_append_drop i n]
                    congr 1
                    rw [List.drop_eq_getElem_cons h1]
                    congr 1
                    rw [List.getElem?_eq_getElem h1] at h2
                    exact Option.some.inj h2
                  rw [hsplit] at hnC
                  exact (canon_cut 46 (path_lit46 e.b) (by decide) hnC).1
                · cases hold; exact absurd rfl ‹¬ _›
              · cases hold; exact absurd rfl ‹¬ _›
            · intro hm
              rcases List.mem_append.mp hm with hm | hm
              · exact hn47 (List.mem_of_mem_take hm)
              · exact hq47 hm
        generalize (if old.isEmpty = true then n ++ q e Gen.PATH_QUOTER sfx
             else n.take (n.length - old.length) ++ q e Gen.PATH_QUOTER sfx) = n' at h hn'
        split at h
        · cases h
        · rename_i hdd
          exact withRawName_canon e.b u hu _ hn'.1 hn'.2
            ⟨fun h1 => hdd (Or.inl h1), fun h2 => hdd (Or.inr h2)⟩ _ _ v h

/-! ### `/`, joinpath, parent -/

theorem go_canon (e : Env) : ∀ (paths : List Str) (last : Bool) (parsed : List Str) (nn : Bool)
    (r : List Str × Bool), (∀ p ∈ paths, PyStr p) →
    (∀ s ∈ parsed, Canon (Gen.PATH_REQUOTER.tab e.b) s) →
    makeChild.go e false paths last parsed nn = .ok r →
    ∀ s ∈ r.1, Canon (Gen.PATH_REQUOTER.tab e.b) s := by
  intro paths
  induction paths with
  | nil =>
    intro last parsed nn r _ hp h
    simp only [makeChild.go, pure, Except.pure] at h
    cases h
    exact hp
  | cons p rest ih =>
    intro last parsed nn r hpy hp h
    simp only [makeChild.go] at h
    split at h
    · cases h
    · refine ih _ _ _ r (fun x hx => hpy x (by simp [hx])) ?_ h
      intro s hs
      rcases List.mem_append.mp hs with hs | hs
      · exact hp s hs
      · have hsegs := path_segs_canon e.b (q_path_quoter_canon e p (hpy p (by simp)))
        simp only [Bool.false_eq_true, if_false] at hs
        split at hs
        · exact hsegs s (List.mem_reverse.mp (List.mem_of_mem_drop hs))
        · exact hsegs s (List.mem_reverse.mp hs)

theorem rootedP_joinC_root (n : Str) (hn : n ≠ []) (L : List Str) : RootedP (joinC 47 (PathAlg.root n L)) := by
  unfold PathAlg.root
  split
  · exact rootedP_joinC_nil L
  · rename_i hc
    cases L with
    | nil => left; rfl
    | cons l0 L' =>
      simp only [ne_nil_of_not_isEmpty hn, List.isEmpty_cons, Bool.not_false, Bool.true_and, List.head?_cons,
        decide_eq_true_eq, ne_eq, Option.some.injEq, Decidable.not_not] at hc
      subst hc
      exact rootedP_joinC_nil L'

theorem makeChild_canon (e : Env) (u : Url) (hu : CanonUrl e.b u) (paths : List Str)
    (hp : ∀ p ∈ paths, PyStr p) (v : Url) (h : makeChild e u paths false = .ok v) : CanonUrl e.b v := by
  have hnd := C15_entry_makeChild e u paths v h
  rw [PathAlg.makeChild_eq] at h
  obtain ⟨r, hr, h⟩ := map_ok h
  subst h
  have hX := go_canon e paths.reverse true [] false r (fun p hp' => hp p (List.mem_reverse.mp hp'))
    (fun s hs => by simp at hs) hr
  have hM : ∀ s ∈ PathAlg.root u.netloc (PathAlg.base u ++ r.1.reverse),
      Canon (Gen.PATH_REQUOTER.tab e.b) s := by
    intro s hs
    rcases PathAlg.mem_root hs with rfl | hs
    · exact Canon.nil
    · rcases List.mem_append.mp hs with hs | hs
      · exact path_segs_canon e.b hu.path s (PathAlg.mem_base hs)
      · exact hX s (List.mem_reverse.mp hs)
  have hvn : (PathAlg.childOf u r.1.reverse r.2).netloc = u.netloc := by
    unfold PathAlg.childOf; simp only; split <;> rfl
  refine ⟨?_, ?_, ?_, fun hn => hnd hn (hu.nodots (hvn ▸ hn)), ?_⟩
  · unfold PathAlg.childOf
    simp only
    split
    · exact path_join_canon e.b _ hM
    · exact canon_ensure_slash e.b _ (path_join_canon e.b _ (canon_normalizePathSegments hM))
  · unfold PathAlg.childOf; simp only; split <;> exact Canon.nil
  · unfold PathAlg.childOf; simp only; split <;> exact Canon.nil
  · intro hn
    have hun : u.netloc ≠ [] := hvn ▸ hn
    unfold PathAlg.childOf
    simp only
    split
    · exact rootedP_joinC_root u.netloc hun _
    · exact rootedP_fixRoot _

theorem parent_canon (b : Backend) (u : Url) (hu : CanonUrl b u) : CanonUrl b (parent u) := by
  unfold parent
  split
  · split
    · exact ⟨hu.path, Canon.nil, Canon.nil, hu.nodots, hu.rooted⟩
    · exact hu
  · rename_i hc
    simp only [Bool.or_eq_true, decide_eq_true_eq, not_or] at hc
    have hpne : u.path ≠ [] := fun e => hc.1 (by rw [e]; rfl)
    -- under an authority the root fix of 264b96e ("/name" → "/" WITHOUT an authority) does not apply
    have hfix : ∀ pp : Str, u.netloc ≠ [] →
        (if (pp.isEmpty && decide (u.path.head? = some 47) && u.netloc.isEmpty) = true then [47] else pp) = pp := by
      intro pp hn
      have : u.netloc.isEmpty = false := by simpa using hn
      rw [this, Bool.and_false]; rfl
    refine ⟨?_, Canon.nil, Canon.nil, ?_, ?_⟩
    · simp only [fromParts]
      split
      · exact Canon.lit 47 [] (path_safe47 b) (by decide) (fun h => absurd h.2 (by decide)) Canon.nil
      · exact path_join_canon b _ (fun s hs => path_segs_canon b hu.path s (List.dropLast_subset _ hs))
    · intro hn
      simp only [fromParts] at hn ⊢
      rw [hfix _ hn]
      apply noDotSegments_joinC
      · exact PathAlg.segs_dropLast (PathAlg.segs_splitOn _)
      · intro s hs
        exact hu.nodots hn s (List.dropLast_subset _ hs)
    · intro hn
      simp only [fromParts] at hn ⊢
      rw [hfix _ hn]
      rcases hu.rooted hn with h0 | h47
      · exact absurd h0 hpne
      · cases hp : u.path with
        | nil => exact absurd hp hpne
        | cons a r =>
          rw [hp] at h47
          simp at h47; subst h47
          obtain ⟨s0, S, hS⟩ := List.exists_cons_of_ne_nil (PathLemmas.splitOn_ne_nil 47 r)
          have : (splitOn 47 (47 :: r)).dropLast = [] :: (s0 :: S).dropLast := by
            simp [splitOn, hS]
          rw [this]
          exact rootedP_joinC_nil _

/-! ### join -/

theorem rootedP_append {a b : Str} (ha : RootedP a) (hne : a ≠ []) : RootedP (a ++ b) := by
  rcases ha with h | h
  · exact absurd h hne
  · cases a with
    | nil => exact absurd rfl hne
    | cons x r => simp at h; subst h; exact rootedP_cons _

/-- the merge of a rooted, non-empty base path with a reference path is rooted -/
theorem rootedP_merged (base : Url) (hn : base.netloc ≠ []) (rest rp : Str) (hp : base.path = 47 :: rest) :
    RootedP ((joinC 47 ((rawParts base).dropLast ++ [[]]) ++ rp).drop 1) := by
  have hrp : rawParts base = [47] :: splitOn 47 rest := by
    unfold rawParts
    simp [ne_nil_of_not_isEmpty hn, hp]
  rw [hrp]
  obtain ⟨s0, S, hS⟩ := List.exists_cons_of_ne_nil (PathLemmas.splitOn_ne_nil 47 rest)
  rw [hS]
  have e1 : ([47] :: s0 :: S).dropLast ++ [[]] = [47] :: ((s0 :: S).dropLast ++ [[]]) := by
    simp [List.dropLast]
  have e2 : (joinC 47 ([47] :: ((s0 :: S).dropLast ++ [[]])) ++ rp).drop 1
      = PathLemmas.flatF (s0 :: S).dropLast ++ (47 :: rp) := by
    rw [PathLemmas.joinC_cons, PathLemmas.flatF_append]
    simp [PathLemmas.flatF]
  rw [e1, e2]
  rcases PathLemmas.flatF_head ((s0 :: S).dropLast) with h0 | ⟨r, h0⟩
  · rw [h0]; exact rootedP_cons _
  · rw [h0]; exact rootedP_cons _

theorem join_canon (e : Env) (base ref : Url) (hb : CanonUrl e.b base) (hr : CanonUrl e.b ref) :
    CanonUrl e.b (join e base ref) := by
  have hm : Canon (Gen.PATH_REQUOTER.tab e.b)
      (joinC 47 ((rawParts base).dropLast ++ [[]]) ++ ref.path) := by
    refine FixLemmas.canon_append (path_join_canon e.b _ ?_) hr.path
    intro s hs
    rcases List.mem_append.mp hs with hs | hs
    · exact rawParts_canon e.b base hb s (List.dropLast_subset _ hs)
    · simp only [List.mem_singleton] at hs; subst hs; exact Canon.nil
  unfold join
  simp only
  generalize (if (!ref.scheme.isEmpty) = true then ref.scheme else base.scheme) = scheme
  split
  · exact hr
  · split
    · rename_i hc
      simp only [Bool.and_eq_true, Bool.not_eq_true', List.isEmpty_eq_false_iff] at hc
      exact ⟨hr.path, hr.query, hr.fragment, fun _ => hr.nodots hc.1, fun _ => hr.rooted hc.1⟩
    · refine ⟨?_, ?_, hr.fragment, ?_, ?_⟩
      · simp only [fromParts]
        split
        · apply canon_guard e.b
          repeat' split
          all_goals first
            | exact hr.path
            | exact canon_cons (path_lit47 e.b) hr.path
            | exact FixLemmas.canon_append hb.path hr.path
            | exact canon_drop1 (path_hex_lit e.b) hm
            | exact hm
        · exact hb.path
      · simp only [fromParts]
        split
        · exact hr.query
        · exact hb.query
      · intro hn
        simp only [fromParts] at hn ⊢
        split
        · exact noDotSegments_guard _
        · exact hb.nodots hn
      · intro hn
        simp only [fromParts] at hn ⊢
        split
        · apply rootedP_guard
          split
          · exact Or.inr ‹_›
          · split
            · simp only [ne_nil_of_not_isEmpty hn, if_true]
              exact rootedP_cons _
            · rename_i hbe
              have hbne : base.path ≠ [] := ne_nil_of_isEmpty_ne hbe
              split
              · exact rootedP_append (hb.rooted hn) hbne
              · rcases hb.rooted hn with h0 | h47
                · exact absurd h0 hbne
                · rw [if_pos h47]
                  cases hp : base.path with
                  | nil => exact absurd hp hbne
                  | cons a rest =>
                    rw [hp] at h47
                    simp at h47; subst h47
                    exact rootedP_merged base hn rest ref.path hp
        · exact hb.rooted hn

end ReachFix
end Yarl
