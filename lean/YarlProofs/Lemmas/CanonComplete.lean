/-
  CanonComplete.lean — COMPLETENESS of the Boolean checkers of Lemmas/CanonDecide.lean (property C04, GAPS 5 of
  C04Headline.lean: the converse).  `isCanon` decides `Canon`; a stored host that `_encode_host` maps to itself
  (`HostFix` / `HostFixB`) passes `hostKindB` / `bracketTextB` — except the one corner where `_encode_host` copies
  text verbatim: an IPv4 literal followed by a `%zone` (any letter case survives there); `netlocB` accepts every
  `CanonNetlocB` authority outside that corner.
-/
import YarlModel
import YarlProofs.Lemmas.CanonDecide
set_option linter.unusedVariables false
set_option linter.unusedSimpArgs false
namespace Yarl
namespace R8
open FixLemmas NetShape HostLemmas NetlocLemmas BrHost ParseLemmas

theorem hexv_toHex {x : Nat} (h : x < 16) : hexv (toHex x) = x := by
  unfold hexv toHex
  split <;> split <;> omega

theorem isCanon_complete (t : QTab) (s : Str) (h : Canon t s) : isCanon t s = true := by
  induction h with
  | nil => rfl
  | lit c r hs hc hq _ ih =>
    have : isCanon t (c :: r) = (c != 37 && t.safe c && !(t.qs && c == 32) && isCanon t r) := by
      rw [isCanon.eq_3]
      intro a' b' r' heq _
      exact hc heq
    rw [this, ih, hs]
    simp
    refine ⟨hc, ?_⟩
    by_cases hqs : t.qs = true
    · right; intro h32; exact hq ⟨hqs, h32⟩
    · left; simpa using hqs
  | esc b r hb hk _ ih =>
    have h1 : b / 16 < 16 := by omega
    have h2 : b % 16 < 16 := by omega
    show isCanon t (37 :: toHex (b / 16) :: toHex (b % 16) :: r) = true
    rw [isCanon.eq_2]
    rw [OutLangLemmas.toHex_upper h1, OutLangLemmas.toHex_upper h2, hexv_toHex h1, hexv_toHex h2, ih]
    have : b / 16 * 16 + b % 16 = b := by omega
    rw [this]
    rcases hk with hk | hk | hk
    · simp [hk]
    · simp [hk]
    · simp [hk]


theorem isAscii_of_chars {x : Str} (hx : ∀ c ∈ x, 33 ≤ c ∧ c < 128 ∧ Rfc.isDelim3 c = false) : isAscii x = true := by
  unfold isAscii
  rw [List.all_eq_true]
  intro c hc
  simpa using (hx c hc).2.1

theorem no_upper_of_lower_eq {s : Str} (h : lower s = s) : ∀ c ∈ s, ¬ (65 ≤ c ∧ c ≤ 90) := by
  induction s with
  | nil => intro c hc; cases hc
  | cons a r ih =>
    simp only [lower, List.map_cons, List.cons.injEq] at h
    intro c hc
    rcases List.mem_cons.1 hc with rfl | hc
    · intro hu
      have := h.1
      unfold lowerC at this
      rw [if_pos hu] at this
      omega
    · exact ih h.2 c hc

theorem lower_length (s : Str) : (lower s).length = s.length := by simp [lower]

theorem looksIP_colon (o : Oracles) {h : Str} (h58 : 58 ∈ h) : looksIP o h = .ok true := by
  unfold looksIP
  cases hl : h.getLast? with
  | none =>
    rw [List.getLast?_eq_none_iff] at hl
    subst hl
    cases h58
  | some l =>
    simp only [mem_iff.mpr h58, if_true]
    rfl

/-- what `_encode_host(h, validate_host=False)` returns for ASCII text: the IP branch, or the lower-cased text (and
    then, when the text contains ':', it is no IP literal) -/
theorem encodeHost_ascii_cases (o : Oracles) {h r : Str} (ha : isAscii h = true) (he : encodeHost o h false = .ok r) :
    ipRes h = some r ∨ (r = lower h ∧ (58 ∈ h → ipRes h = none)) := by
  rw [encodeHost_eq] at he
  obtain ⟨b, hb⟩ := looksIP_ascii o h ha
  rw [hb] at he
  simp only [bind, Except.bind] at he
  split at he
  · rename_i r' hr'
    rw [zoneBad_false] at he
    simp only [Bool.false_eq_true, if_false, pure, Except.pure, Except.ok.injEq] at he
    subst he
    left
    cases b with
    | false => simp at hr'
    | true => simpa using hr'
  · rename_i hnone
    right
    unfold regPath at he
    rw [ha] at he
    simp only [if_true, Bool.false_and, Bool.false_eq_true, if_false, pure, Except.pure, Except.ok.injEq] at he
    refine ⟨he.symm, ?_⟩
    intro h58
    rw [looksIP_colon o h58] at hb
    cases hb
    simpa using hnone

/-- the corner excluded from the converse: an IPv4 literal followed by `%zone` -/
def NoV4Zone (h : Str) : Prop := ∀ o4, parseIPv4 (partition 37 h).1 = some o4 → (partition 37 h).2.1 = false

instance (h : Str) : Decidable (NoV4Zone h) :=
  match hp : parseIPv4 (partition 37 h).1 with
  | none => isTrue (by intro o4 h4; rw [hp] at h4; cases h4)
  | some o4 => decidable_of_iff ((partition 37 h).2.1 = false) ⟨fun h _ _ => h, fun h => h o4 hp⟩

theorem textChar_of {h : Str} (hch : ∀ c ∈ h, 33 ≤ c ∧ c < 128 ∧ Rfc.isDelim3 c = false) (hok : HostOK h) :
    ∀ c ∈ h, textChar c = true := by
  intro c hc
  obtain ⟨h1, h2, h3⟩ := hch c hc
  simp only [Rfc.isDelim3, Bool.or_eq_false_iff, decide_eq_false_iff_not] at h3
  have n64 : c ≠ 64 := fun e => hok.2.1 (e ▸ hc)
  have n91 : c ≠ 91 := fun e => hok.2.2.1 (e ▸ hc)
  have n93 : c ≠ 93 := fun e => hok.2.2.2 (e ▸ hc)
  unfold textChar
  simp
  omega

theorem hostKindB_complete (o : Oracles) {h : Str} (hf : HostFix o h) (hz : NoV4Zone h) : hostKindB h = true := by
  have ha := isAscii_of_chars hf.chars
  have htext := textChar_of hf.chars hf.ok
  -- the text is lower-case reg-name / IPv4 text
  have plain : 58 ∉ h → (∀ c ∈ h, ¬ (65 ≤ c ∧ c ≤ 90)) → hostKindB h = true := by
    intro h58 hlow
    unfold hostKindB
    apply Bool.or_eq_true_iff.mpr
    left
    simp only [Bool.and_eq_true, Bool.not_eq_true', List.isEmpty_eq_false_iff, List.all_eq_true]
    refine ⟨hf.ok.1, ?_⟩
    intro c hc
    have ht := textChar_spec (htext c hc)
    have hl := hlow c hc
    have n58 : c ≠ 58 := fun e => h58 (e ▸ hc)
    unfold hostChar
    simp
    omega
  rcases encodeHost_ascii_cases o ha hf.enc with hip | ⟨hlo, _⟩
  · unfold ipRes at hip
    split at hip
    · -- IPv6
      rename_i h8 hp
      have h6 := (EagerLemmas.parseIP_v6 hp).2
      have hj := EagerLemmas.partition_join 37 h
      have h58 : 58 ∈ h := HostLemmas.partition_fst_sub 37 h 58 (parseIPv6_colon h6)
      obtain ⟨hl8, hx8⟩ := parseIPv6_shape h6
      rw [bracket_of_colon h58] at hip
      have heq : ipv6ToStr h8 = (partition 37 h).1 := by
        by_cases hsep : (partition 37 h).2.1 = true
        · rw [hsep] at hip hj
          simp only [if_true, Option.some.injEq, List.append_assoc, List.cons_append, List.nil_append,
            List.cons.injEq, true_and] at hip hj
          have h2 : ipv6ToStr h8 ++ 37 :: (partition 37 h).2.2 = h := by
            have := List.append_cancel_right (as := ipv6ToStr h8 ++ 37 :: (partition 37 h).2.2) (bs := [93]) (cs := h)
              (by simpa using hip)
            exact this
          exact List.append_cancel_right (h2.trans hj)
        · simp only [Bool.not_eq_true] at hsep
          rw [hsep] at hip hj
          simp only [Bool.false_eq_true, if_false, Option.some.injEq, List.append_assoc, List.cons_append,
            List.nil_append, List.cons.injEq, true_and, List.append_nil] at hip hj
          have h2 : ipv6ToStr h8 = h := List.append_cancel_right (bs := [93]) hip
          exact h2.trans hj
      unfold hostKindB
      apply Bool.or_eq_true_iff.mpr
      right
      unfold v6B
      rw [h6]
      simp only [Bool.and_eq_true, decide_eq_true_eq, List.all_eq_true]
      exact ⟨⟨⟨hl8, hx8⟩, heq⟩, fun c hc => htext c (EagerLemmas.partition_snd_sub 37 h c hc)⟩
    · -- IPv4
      rename_i o4 hp
      have h4 := EagerLemmas.parseIP_v4 hp
      have hsep := hz o4 h4
      have hj := EagerLemmas.partition_join 37 h
      rw [hsep] at hip hj
      simp only [Bool.false_eq_true, if_false, List.append_nil, Option.some.injEq] at hip hj
      rw [← hj] at h4
      have hfix := hostFix_ipv4 o h4
      have h58 : 58 ∉ h := parseIPv4_no_colon h4
      apply plain h58
      intro c hc
      rcases parseIPv4_chars h4 c hc with rfl | hd
      · omega
      · simp [isDigitC] at hd; omega
    · cases hip
  · by_cases h58 : 58 ∈ h
    · have hl := congrArg List.length hlo
      rw [bracket_of_colon h58, lower_length] at hl
      simp at hl
      omega
    · rw [bracket_of_no_colon h58] at hlo
      exact plain h58 (no_upper_of_lower_eq hlo.symm)

theorem bracketTextB_complete (o : Oracles) {t : Str} (hf : HostFixB o t) (hz : NoV4Zone t) :
    bracketTextB t = true := by
  have ha := isAscii_of_chars hf.chars
  have htext := textChar_of hf.chars hf.ok
  have h91 : 91 ∉ t := hf.ok.2.2.1
  have key : (∀ c ∈ t, ¬ (65 ≤ c ∧ c ≤ 90)) ∧ notV6B t = true := by
    rcases encodeHost_ascii_cases o ha hf.enc with hip | ⟨hlo, hnone⟩
    · exfalso
      unfold ipRes at hip
      split at hip
      · -- IPv6: the result starts with '['
        simp only [Option.some.injEq] at hip
        apply h91
        rw [← hip]
        split <;> simp
      · -- IPv4: no zone (corner excluded), so the text is a dotted quad — but the bracket check asks for ':' or 'v'
        rename_i o4 hp
        have h4 := EagerLemmas.parseIP_v4 hp
        have hsep := hz o4 h4
        have hj := EagerLemmas.partition_join 37 t
        rw [hsep] at hj
        simp only [Bool.false_eq_true, if_false, List.append_nil] at hj
        rw [← hj] at h4
        have hch := parseIPv4_chars h4
        have hck := hf.check
        unfold bracketCheck at hck
        split at hck
        · rename_i hv
          cases t with
          | nil => simp at hv
          | cons a r =>
            simp at hv
            rcases hch a (by simp) with h | h
            · omega
            · rw [hv] at h; simp [isDigitC] at h
        · exact parseIPv4_no_colon h4 (mem_iff.mp hck)
      · cases hip
    · refine ⟨no_upper_of_lower_eq hlo.symm, ?_⟩
      unfold notV6B
      split
      · rename_i h8 hp
        exfalso
        have h6 := (EagerLemmas.parseIP_v6 hp).2
        have h58 : 58 ∈ t := HostLemmas.partition_fst_sub 37 t 58 (parseIPv6_colon h6)
        have := hnone h58
        unfold ipRes at this
        rw [hp] at this
        cases this
      · rfl
  unfold bracketTextB bracketTextInB
  simp only [Bool.and_eq_true, List.all_eq_true, Bool.not_eq_true', Bool.and_eq_false_iff, decide_eq_false_iff_not]
  refine ⟨⟨⟨htext, hf.check⟩, key.2⟩, ?_⟩
  intro c hc
  have := key.1 c hc
  omega

theorem userInfoB_complete {b : Backend} {user pw : Option Str} (h : UserInfoOK b user pw) :
    userInfoB user pw = true := by
  unfold userInfoB
  rw [Bool.and_eq_true]
  constructor
  · cases user with
    | none => rfl
    | some s =>
      obtain ⟨h1, h2⟩ := h.user s rfl
      rw [tab_eq_c _ rq_mem b] at h2
      simp only [Bool.and_eq_true, Bool.not_eq_true', List.isEmpty_eq_false_iff]
      exact ⟨h1, isCanon_complete _ _ h2⟩
  · cases pw with
    | none => rfl
    | some s =>
      have h2 := h.pw s rfl
      rw [tab_eq_c _ rq_mem b] at h2
      exact isCanon_complete _ _ h2

theorem portB_complete {scheme : Str} {port : Option Nat} (h : PortOK scheme port) : portB scheme port = true := by
  unfold portB
  cases port with
  | none => rfl
  | some p =>
    simp only [Bool.and_eq_true, decide_eq_true_eq]
    exact ⟨h.range p rfl, h.notDefault p rfl⟩

/-- `netlocB` accepts every canonical authority whose host is outside the IPv4-with-zone corner -/
theorem netlocB_complete (e : Env) {scheme a : Str} (h : CanonNetlocB e scheme a)
    (hz : ∀ np hst, splitNetloc Oracles.empty a = .ok np → np.host = some hst → NoV4Zone hst) :
    netlocB scheme a = true := by
  unfold netlocB
  apply Bool.or_eq_true_iff.mpr
  cases h with
  | plain h =>
    cases h with
    | empty hn => left; subst hn; rfl
    | auth user pw host port hn hu hh hp =>
      right
      have hsp : splitNetloc Oracles.empty a = .ok { user := user, password := pw, host := some host, port := port } := by
        rw [hn]; exact netloc_roundtrip Oracles.empty id user pw host port (userOK_of hu) hh.ok hp.range
      rw [hsp]
      simp only [Bool.and_eq_true, Bool.or_eq_true, decide_eq_true_eq]
      exact ⟨⟨userInfoB_complete hu, portB_complete hp⟩,
        Or.inl ⟨hostKindB_complete e.o hh (hz _ _ hsp rfl), hn.symm⟩⟩
  | brk user pw t port hn hu hh hp =>
    right
    have hsp : splitNetloc Oracles.empty a = .ok { user := user, password := pw, host := some t, port := port } := by
      rw [hn]; exact splitNetloc_authTextB Oracles.empty port (userOK_of hu) hh.ok hp.range
    rw [hsp]
    simp only [Bool.and_eq_true, Bool.or_eq_true, decide_eq_true_eq]
    exact ⟨⟨userInfoB_complete hu, portB_complete hp⟩,
      Or.inr ⟨bracketTextB_complete e.o hh (hz _ _ hsp rfl), hn.symm⟩⟩

end R8
end Yarl
