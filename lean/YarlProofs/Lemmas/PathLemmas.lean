/-
  PathLemmas.lean — helper lemmas for C15 (dot-segment removal):
  split/join inverses, `normLoop` facts, and the simulation of RFC 3986 §5.2.4's
  buffer loop by the stack algorithm.
-/
import YarlModel
namespace Yarl.PathLemmas
open Yarl

/-- `"/" ++ s₁ ++ "/" ++ s₂ ++ …` : every segment preceded by a slash. -/
def flatF : List Str → Str
  | [] => []
  | s :: r => 47 :: s ++ flatF r

@[simp] theorem flatF_nil : flatF [] = [] := rfl
@[simp] theorem flatF_cons (s : Str) (r : List Str) : flatF (s :: r) = 47 :: (s ++ flatF r) := rfl

theorem flatF_append (a b : List Str) : flatF (a ++ b) = flatF a ++ flatF b := by
  induction a with
  | nil => rfl
  | cons s r ih => simp [ih]

theorem joinC_cons (s : Str) (rest : List Str) : joinC 47 (s :: rest) = s ++ flatF rest := by
  induction rest generalizing s with
  | nil => simp [joinC, joinSep]
  | cons s' r ih =>
    have := ih s'
    simp only [joinC] at this ⊢
    simp [joinSep, this]

theorem flatF_eq_joinC (l : List Str) (h : l ≠ []) : flatF l = 47 :: joinC 47 l := by
  cases l with
  | nil => exact absurd rfl h
  | cons s r => simp [joinC_cons]

/-! ### splitOn -/

theorem splitOn_ne_nil (c : Nat) (s : Str) : splitOn c s ≠ [] := by
  induction s with
  | nil => simp [splitOn]
  | cons x xs ih =>
    unfold splitOn
    split
    · simp
    · split <;> simp

theorem splitOn_cons_ne (c x : Nat) (xs : Str) (h : x ≠ c) {p : Str} {ps : List Str}
    (e : splitOn c xs = p :: ps) : splitOn c (x :: xs) = (x :: p) :: ps := by
  rw [splitOn.eq_2]
  simp [h, e]

theorem splitOn_no_sep (c : Nat) (s : Str) : ∀ p ∈ splitOn c s, c ∉ p := by
  induction s with
  | nil => simp [splitOn]
  | cons x xs ih =>
    by_cases h : x = c
    · subst h
      simp only [splitOn, ↓reduceIte, List.mem_cons]
      rintro p (rfl | hp)
      · simp
      · exact ih p hp
    · obtain ⟨q, qs, e⟩ := List.exists_cons_of_ne_nil (splitOn_ne_nil c xs)
      rw [splitOn_cons_ne c x xs h e]
      rw [e] at ih
      intro p hp
      rcases List.mem_cons.1 hp with rfl | hp
      · intro hm
        rcases List.mem_cons.1 hm with rfl | hm
        · exact h rfl
        · exact ih _ List.mem_cons_self hm
      · exact ih p (List.mem_cons_of_mem _ hp)

theorem splitOn_sub (c : Nat) (s : Str) : ∀ p ∈ splitOn c s, ∀ x ∈ p, x ∈ s := by
  induction s with
  | nil => simp [splitOn]
  | cons x xs ih =>
    by_cases h : x = c
    · subst h
      simp only [splitOn, ↓reduceIte, List.mem_cons]
      rintro p (rfl | hp) y hy
      · simp at hy
      · exact Or.inr (ih p hp y hy)
    · obtain ⟨q, qs, e⟩ := List.exists_cons_of_ne_nil (splitOn_ne_nil c xs)
      rw [splitOn_cons_ne c x xs h e]
      rw [e] at ih
      intro p hp y hy
      rcases List.mem_cons.1 hp with rfl | hp
      · rcases List.mem_cons.1 hy with rfl | hy
        · exact List.mem_cons_self
        · exact List.mem_cons_of_mem _ (ih _ List.mem_cons_self y hy)
      · exact List.mem_cons_of_mem _ (ih p (List.mem_cons_of_mem _ hp) y hy)

/-- splitting `s ++ "/" ++ r₁ ++ "/" ++ r₂ …` gives back the pieces -/
theorem splitOn_append_flatF (s : Str) (rest : List Str)
    (hs : 47 ∉ s) (hr : ∀ p ∈ rest, 47 ∉ p) :
    splitOn 47 (s ++ flatF rest) = s :: rest := by
  induction rest generalizing s with
  | nil =>
    induction s with
    | nil => simp [splitOn]
    | cons x xs ih =>
      have hx : x ≠ 47 := fun h => hs (h ▸ List.mem_cons_self)
      have hxs : 47 ∉ xs := fun h => hs (List.mem_cons_of_mem _ h)
      have := ih hxs
      simp only [flatF_nil, List.append_nil] at this ⊢
      simp [splitOn, hx, this]
  | cons r rs ih =>
    induction s with
    | nil =>
      have := ih r (hr r List.mem_cons_self) (fun p hp => hr p (List.mem_cons_of_mem _ hp))
      simp [splitOn, this]
    | cons x xs ih2 =>
      have hx : x ≠ 47 := fun h => hs (h ▸ List.mem_cons_self)
      have hxs : 47 ∉ xs := fun h => hs (List.mem_cons_of_mem _ h)
      have := ih2 hxs
      simp only [List.cons_append]
      exact splitOn_cons_ne 47 x _ hx this

theorem splitOn_joinC (segs : List Str) (hne : segs ≠ []) (h : ∀ p ∈ segs, 47 ∉ p) :
    splitOn 47 (joinC 47 segs) = segs := by
  cases segs with
  | nil => exact absurd rfl hne
  | cons s r =>
    rw [joinC_cons]
    exact splitOn_append_flatF s r (h s List.mem_cons_self) (fun p hp => h p (List.mem_cons_of_mem _ hp))

theorem joinC_splitOn (s : Str) : joinC 47 (splitOn 47 s) = s := by
  induction s with
  | nil => simp [splitOn, joinC, joinSep]
  | cons x xs ih =>
    by_cases h : x = 47
    · subst h
      simp only [splitOn, ↓reduceIte]
      rw [joinC_cons, flatF_eq_joinC _ (splitOn_ne_nil 47 xs), ih]
      rfl
    · obtain ⟨q, qs, e⟩ := List.exists_cons_of_ne_nil (splitOn_ne_nil 47 xs)
      rw [splitOn_cons_ne 47 x xs h e, joinC_cons]
      rw [e, joinC_cons] at ih
      simp [ih]

theorem flatF_splitOn (p : Str) : flatF (splitOn 47 p) = 47 :: p := by
  rw [flatF_eq_joinC _ (splitOn_ne_nil 47 p), joinC_splitOn]

/-! ### normLoop -/

def NoDots (l : List Str) : Prop := ∀ s ∈ l, s ≠ dot ∧ s ≠ dotdot

theorem normLoop_mem (acc segs : List Str) :
    ∀ s ∈ normLoop acc segs, s ∈ acc ∨ (s ∈ segs ∧ s ≠ dot ∧ s ≠ dotdot) := by
  induction segs generalizing acc with
  | nil => intro s hs; simp [normLoop] at hs; exact Or.inl hs
  | cons seg rest ih =>
    intro s hs
    unfold normLoop at hs
    split at hs
    · rcases ih _ s hs with h | ⟨h1, h2⟩
      · exact Or.inl (List.mem_of_mem_tail h)
      · exact Or.inr ⟨List.mem_cons_of_mem _ h1, h2⟩
    · split at hs
      · rcases ih _ s hs with h | ⟨h1, h2⟩
        · exact Or.inl h
        · exact Or.inr ⟨List.mem_cons_of_mem _ h1, h2⟩
      · rcases ih _ s hs with h | ⟨h1, h2⟩
        · rcases List.mem_cons.1 h with rfl | h
          · exact Or.inr ⟨List.mem_cons_self, by assumption, by assumption⟩
          · exact Or.inl h
        · exact Or.inr ⟨List.mem_cons_of_mem _ h1, h2⟩

theorem normLoop_noDots (acc segs : List Str) (h : NoDots segs) :
    normLoop acc segs = acc.reverse ++ segs := by
  induction segs generalizing acc with
  | nil => simp [normLoop]
  | cons seg rest ih =>
    have h1 := h seg List.mem_cons_self
    have h2 : NoDots rest := fun s hs => h s (List.mem_cons_of_mem _ hs)
    unfold normLoop
    simp [h1.1, h1.2, ih _ h2]

theorem normalizePathSegments_noDots (segs : List Str) (h : NoDots segs) :
    normalizePathSegments segs = segs := by
  unfold normalizePathSegments
  simp only [normLoop_noDots [] segs h, List.reverse_nil, List.nil_append]
  cases hl : segs.getLast? with
  | none => rfl
  | some l =>
    have hm : l ∈ segs := List.mem_of_getLast? hl
    have := h l hm
    simp [this.1, this.2]

theorem noDots_normalizePathSegments (segs : List Str) : NoDots (normalizePathSegments segs) := by
  intro s hs
  have key : s ∈ normLoop [] segs ∨ s = [] := by
    unfold normalizePathSegments at hs
    split at hs
    · split at hs
      · rcases List.mem_append.1 hs with h | h
        · exact Or.inl h
        · exact Or.inr (by simpa using h)
      · exact Or.inl hs
    · exact Or.inl hs
  rcases key with h | rfl
  · rcases normLoop_mem [] segs s h with h | ⟨_, h⟩
    · simp at h
    · exact h
  · simp [dot, dotdot]

theorem normalizePathSegments_no_sep (segs : List Str) (h : ∀ p ∈ segs, 47 ∉ p) :
    ∀ p ∈ normalizePathSegments segs, 47 ∉ p := by
  intro s hs
  have key : s ∈ normLoop [] segs ∨ s = [] := by
    unfold normalizePathSegments at hs
    split at hs
    · split at hs
      · rcases List.mem_append.1 hs with h | h
        · exact Or.inl h
        · exact Or.inr (by simpa using h)
      · exact Or.inl hs
    · exact Or.inl hs
  rcases key with h' | rfl
  · rcases normLoop_mem [] segs s h' with h' | ⟨h', _⟩
    · simp at h'
    · exact h s h'
  · simp

/-! ### RFC 3986 §5.2.4 -/
open Yarl.Rfc

theorem flatF_head (l : List Str) : flatF l = [] ∨ ∃ r, flatF l = 47 :: r := by
  cases l with
  | nil => exact Or.inl rfl
  | cons s r => exact Or.inr ⟨_, rfl⟩

theorem takeWhile_seg (s Y : Str) (hs : 47 ∉ s) (hY : Y = [] ∨ ∃ r, Y = 47 :: r) :
    (s ++ Y).takeWhile (· ≠ 47) = s := by
  induction s with
  | nil =>
    rcases hY with rfl | ⟨r, rfl⟩ <;> simp
  | cons x xs ih =>
    have hx : x ≠ 47 := fun h => hs (h ▸ List.mem_cons_self)
    have hxs : 47 ∉ xs := fun h => hs (List.mem_cons_of_mem _ h)
    have := ih hxs
    simp only [ne_eq, decide_not] at this
    simp [hx, this]

theorem dropWhile_seg (s Y : Str) (hs : 47 ∉ s) (hY : Y = [] ∨ ∃ r, Y = 47 :: r) :
    (s ++ Y).dropWhile (· ≠ 47) = Y := by
  induction s with
  | nil =>
    rcases hY with rfl | ⟨r, rfl⟩ <;> simp
  | cons x xs ih =>
    have hx : x ≠ 47 := fun h => hs (h ▸ List.mem_cons_self)
    have hxs : 47 ∉ xs := fun h => hs (List.mem_cons_of_mem _ h)
    have := ih hxs
    simp only [ne_eq, decide_not] at this
    simp [hx, this]

/-- a segment followed by a (possibly empty) "/…" tail is determined by the text -/
theorem seg_unique (s pre Y Z : Str) (hs : 47 ∉ s) (hp : 47 ∉ pre)
    (hY : Y = [] ∨ ∃ r, Y = 47 :: r) (hZ : Z = [] ∨ ∃ r, Z = 47 :: r)
    (e : s ++ Y = pre ++ Z) : s = pre := by
  have := congrArg (List.takeWhile (· ≠ 47)) e
  rwa [takeWhile_seg s Y hs hY, takeWhile_seg pre Z hp hZ] at this

theorem firstSegment_flatF (s : Str) (rest : List Str) (hs : 47 ∉ s) :
    firstSegment (flatF (s :: rest)) = (47 :: s, flatF rest) := by
  simp only [flatF_cons, firstSegment]
  rw [takeWhile_seg s _ hs (flatF_head rest), dropWhile_seg s _ hs (flatF_head rest)]

theorem rdsLoop_nil (fuel : Nat) (out : Str) : rdsLoop fuel [] out = out := by
  cases fuel <;> simp [rdsLoop]

/-- rule E fires when the input starts with "/" and rules B, C do not apply -/
theorem rdsLoop_E_gen (fuel : Nat) (t out : Str)
    (hB1 : ∀ r, t ≠ 46 :: 47 :: r) (hB2 : t ≠ [46])
    (hC1 : ∀ r, t ≠ 46 :: 46 :: 47 :: r) (hC2 : t ≠ [46, 46]) :
    rdsLoop (fuel + 1) (47 :: t) out
      = rdsLoop fuel (firstSegment (47 :: t)).2 (out ++ (firstSegment (47 :: t)).1) := by
  rw [rdsLoop]
  · simp
  · intro r h; simp at h
  · intro r h; simp at h
  · intro r h; exact hB1 r (List.cons.inj h).2
  · intro h; exact hB2 (List.cons.inj h).2
  · intro r h; exact hC1 r (List.cons.inj h).2
  · intro h; exact hC2 (List.cons.inj h).2
  · intro h; simp at h
  · intro h; simp at h

theorem rdsLoop_E (fuel : Nat) (s : Str) (rest : List Str) (out : Str)
    (hs : 47 ∉ s) (hd : s ≠ dot) (hdd : s ≠ dotdot) :
    rdsLoop (fuel + 1) (flatF (s :: rest)) out = rdsLoop fuel (flatF rest) (out ++ 47 :: s) := by
  have hf := firstSegment_flatF s rest hs
  rw [flatF_cons] at hf ⊢
  rw [rdsLoop_E_gen, hf]
  · intro r e
    exact hd (seg_unique s [46] (flatF rest) (47 :: r) hs (by simp) (flatF_head rest)
      (Or.inr ⟨r, rfl⟩) e)
  · intro e
    exact hd (seg_unique s [46] (flatF rest) [] hs (by simp) (flatF_head rest)
      (Or.inl rfl) (by simpa using e))
  · intro r e
    exact hdd (seg_unique s [46, 46] (flatF rest) (47 :: r) hs (by simp) (flatF_head rest)
      (Or.inr ⟨r, rfl⟩) e)
  · intro e
    exact hdd (seg_unique s [46, 46] (flatF rest) [] hs (by simp) (flatF_head rest)
      (Or.inl rfl) (by simpa using e))

theorem find_append (a X : Str) (h : 47 ∉ a) : find 47 (a ++ 47 :: X) = some a.length := by
  induction a with
  | nil => simp [find]
  | cons x xs ih =>
    have hx : x ≠ 47 := fun e => h (e ▸ List.mem_cons_self)
    have hxs : 47 ∉ xs := fun e => h (List.mem_cons_of_mem _ e)
    simp [find, hx, ih hxs]

theorem drop_seg (a X : Str) (n : Nat) (hn : n = a.length) : (a ++ 47 :: X).drop (n + 1) = X := by
  subst hn
  induction a with
  | nil => simp
  | cons x xs ih => simp

theorem removeLastSegment_flatF (acc : List Str) (h : ∀ p ∈ acc, 47 ∉ p) :
    removeLastSegment (flatF acc.reverse) = flatF acc.tail.reverse := by
  cases acc with
  | nil => simp [removeLastSegment, find]
  | cons a t =>
    have e : (flatF (a :: t).reverse).reverse = a.reverse ++ 47 :: (flatF t.reverse).reverse := by
      simp [flatF_append]
    have ha : 47 ∉ a.reverse := by simpa using h a List.mem_cons_self
    unfold removeLastSegment
    simp only [e, find_append _ _ ha]
    rw [drop_seg _ _ _ rfl]
    simp

/-- one iteration of the `for seg in segments` loop -/
def step (acc : List Str) (s : Str) : List Str :=
  if s = dotdot then acc.tail else if s = dot then acc else s :: acc

theorem step_dot (acc : List Str) : step acc dot = acc := by simp [step, dot, dotdot]
theorem step_dotdot (acc : List Str) : step acc dotdot = acc.tail := by simp [step]

theorem normLoop_cons (acc : List Str) (s : Str) (rest : List Str) :
    normLoop acc (s :: rest) = normLoop (step acc s) rest := by
  unfold step
  rw [normLoop]
  split
  · rfl
  · split <;> rfl

theorem step_no_sep (acc : List Str) (s : Str) (hs : 47 ∉ s) (hacc : ∀ p ∈ acc, 47 ∉ p) :
    ∀ p ∈ step acc s, 47 ∉ p := by
  unfold step
  intro p hp
  split at hp
  · exact hacc p (List.mem_of_mem_tail hp)
  · split at hp
    · exact hacc p hp
    · rcases List.mem_cons.1 hp with rfl | hp
      · exact hs
      · exact hacc p hp

/-- the extra empty segment (trailing slash) appended after the loop -/
def trail (segs : List Str) : List Str :=
  match segs.getLast? with
  | some l => if l = dot ∨ l = dotdot then [[]] else []
  | none => []

def G (acc segs : List Str) : List Str := normLoop acc segs ++ trail segs

theorem normalizePathSegments_eq_G (segs : List Str) : normalizePathSegments segs = G [] segs := by
  unfold normalizePathSegments G trail
  cases segs.getLast? with
  | none => simp
  | some l => by_cases h : l = dot ∨ l = dotdot <;> simp [h]

theorem G_cons (acc : List Str) (s s' : Str) (rest : List Str) :
    G acc (s :: s' :: rest) = G (step acc s) (s' :: rest) := by
  unfold G
  rw [normLoop_cons]
  simp [trail, List.getLast?_cons_cons]

theorem G_ne_nil (segs : List Str) : ∀ acc, segs ≠ [] → G acc segs ≠ [] := by
  induction segs with
  | nil => intro _ h; exact absurd rfl h
  | cons s rest ih =>
    intro acc _
    cases rest with
    | nil =>
      unfold G trail
      rw [normLoop_cons]
      by_cases h : s = dot ∨ s = dotdot
      · simp [h]
      · have h1 : s ≠ dotdot := fun e => h (Or.inr e)
        have h2 : s ≠ dot := fun e => h (Or.inl e)
        simp [step, h1, h2, normLoop]
    | cons s' r =>
      rw [G_cons]
      exact ih _ (by simp)

/-- one round of rules B / C / E = one `normLoop` step (non-final segment) -/
theorem rds_step (fuel : Nat) (s s' : Str) (rest acc : List Str)
    (hs : 47 ∉ s) (hacc : ∀ p ∈ acc, 47 ∉ p) :
    rdsLoop (fuel + 1) (flatF (s :: s' :: rest)) (flatF acc.reverse)
      = rdsLoop fuel (flatF (s' :: rest)) (flatF (step acc s).reverse) := by
  by_cases h1 : s = dotdot
  · subst h1
    rw [step_dotdot]
    simp only [flatF_cons, dotdot, List.cons_append, List.nil_append]
    rw [rdsLoop, removeLastSegment_flatF acc hacc]
  · by_cases h2 : s = dot
    · subst h2
      rw [step_dot]
      simp only [flatF_cons, dot, List.cons_append, List.nil_append]
      rw [rdsLoop]
    · rw [rdsLoop_E _ _ _ _ hs h2 h1]
      simp [step, h1, h2, flatF_append]

/-- the final segment -/
theorem rds_last (fuel : Nat) (s : Str) (acc : List Str)
    (hs : 47 ∉ s) (hacc : ∀ p ∈ acc, 47 ∉ p) :
    rdsLoop (fuel + 2) (flatF [s]) (flatF acc.reverse) = flatF (G acc [s]) := by
  have hE : ∀ out, rdsLoop (fuel + 1) [47] out = out ++ [47] := by
    intro out
    have := rdsLoop_E fuel [] [] out (by simp) (by simp [dot]) (by simp [dotdot])
    simpa [rdsLoop_nil] using this
  unfold G trail
  rw [normLoop_cons]
  by_cases h1 : s = dotdot
  · subst h1
    rw [step_dotdot]
    simp only [flatF_cons, dotdot, List.cons_append, List.nil_append, flatF_nil]
    rw [rdsLoop, hE, removeLastSegment_flatF acc hacc]
    simp [normLoop, flatF_append]
  · by_cases h2 : s = dot
    · subst h2
      rw [step_dot]
      simp only [flatF_cons, dot, List.cons_append, List.nil_append, flatF_nil]
      rw [rdsLoop, hE]
      simp [normLoop, flatF_append]
    · rw [rdsLoop_E _ _ _ _ hs h2 h1, flatF_nil, rdsLoop_nil]
      simp [step, h1, h2, normLoop, flatF_append]

/-- MAIN simulation: RFC loop on `"/" ++ "/".join(segs)` with the stack `acc` in the output
    buffer computes what the stack algorithm computes. -/
theorem rds_sim (segs : List Str) :
    ∀ (acc : List Str) (fuel : Nat), segs ≠ [] → (∀ p ∈ segs, 47 ∉ p) → (∀ p ∈ acc, 47 ∉ p) →
      (flatF segs).length < fuel →
      rdsLoop fuel (flatF segs) (flatF acc.reverse) = flatF (G acc segs) := by
  induction segs with
  | nil => intro _ _ h; exact absurd rfl h
  | cons s rest ih =>
    intro acc fuel _ hsegs hacc hfuel
    have hs : 47 ∉ s := hsegs s List.mem_cons_self
    cases rest with
    | nil =>
      simp only [flatF_cons, flatF_nil, List.length_cons, List.length_append] at hfuel
      obtain ⟨f, rfl⟩ : ∃ f, fuel = f + 2 := ⟨fuel - 2, by omega⟩
      exact rds_last f s acc hs hacc
    | cons s' r =>
      obtain ⟨f, rfl⟩ : ∃ f, fuel = f + 1 := ⟨fuel - 1, by omega⟩
      rw [rds_step f s s' r acc hs hacc, G_cons]
      apply ih (step acc s) f (by simp)
        (fun p hp => hsegs p (List.mem_cons_of_mem _ hp)) (step_no_sep acc s hs hacc)
      rw [flatF_cons] at hfuel
      simp only [List.length_cons, List.length_append] at hfuel
      omega

end Yarl.PathLemmas
