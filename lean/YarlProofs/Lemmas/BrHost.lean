/-
  BrHost.lean — bracketed hosts that are NOT IPv6 addresses (IPvFuture `[v1.a:b]`, other text with ':' such as
  `[g::1]`, `[a:b]`, `[1.2.3.4%a:b]`).  Since fix c17f18a the constructor keeps the brackets of such a host.

  `HostFix` (Lemmas/FixLemmas.lean) does not cover them (`HostFix.enc` asks `_encode_host` to ADD the brackets;
  here `_encode_host` only lower-cases and `encode_url` puts the brackets back).  This file provides the parallel
  vocabulary — `BracketText`, `HostFixB`, `authTextB` — and the lemmas about `checkBrackets`, `splitNetloc`,
  `netBlock` and `str` that the C03 / C04 / C09 theorems of C03Bracket.lean need.
-/
import YarlModel
import YarlProofs.C03Netloc
import YarlProofs.C04General
import YarlProofs.C09
set_option linter.unusedVariables false
set_option linter.unusedSimpArgs false
namespace Yarl
open ReachFix FixLemmas NetShape NetlocLemmas HostLemmas MiscLemmas

/-! ## vocabulary -/

/-- the check `split_url` applies to the text between '[' and ']' (`checkBrackets`, YarlModel/Parse.lean): a text
    that starts with a lower-case 'v' must be an IPvFuture literal `v<hex>+.<char>+`; any other text must
    contain ':' -/
def bracketCheck (t : Str) : Bool := if t.take 1 = [118] then ipvFutureOk t else mem 58 t

/-- what may stand between '[' and ']' of a bracketed host that is not an IPv6 address, INPUT side (any letter
    case): visible ASCII with none of `/ ? # @ [ ]` (`textChar`; ':' and '%' are allowed), accepted by the bracket
    check of `split_url`, and not an IPv6 literal (text before an optional `%zone`) -/
structure BracketTextIn (t : Str) : Prop where
  chars : ∀ c ∈ t, textChar c = true
  check : bracketCheck t = true
  notV6 : ∀ h8, parseIP (partition 37 t).1 ≠ some (.v6 h8)

/-- … STORED side: the same, in lower case (what `_encode_host` leaves unchanged) -/
structure BracketText (t : Str) : Prop extends BracketTextIn t where
  lower : ∀ c ∈ t, ¬ (65 ≤ c ∧ c ≤ 90)

/-- the abstract form (the counterpart of `HostFix`): a host text that is written in brackets whatever it
    contains, passes the bracket check, and that `_encode_host` returns unchanged (WITHOUT brackets) -/
structure HostFixB (o : Oracles) (t : Str) : Prop where
  ok : HostOK t
  chars : ∀ c ∈ t, 33 ≤ c ∧ c < 128 ∧ Rfc.isDelim3 c = false
  check : bracketCheck t = true
  enc : encodeHost o t false = .ok t

/-- the authority text `[user[:password]@][t][:port]` — the host is ALWAYS bracketed (compare `authText`,
    which brackets the host only when it contains ':') -/
def authTextB (user pw : Option Str) (t : Str) (port : Option Nat) : Str :=
  makeNetloc id user pw (some ([91] ++ t ++ [93])) port false

/-- the authority `str` writes for a URL whose stored authority is `authTextB user pw t port`: the stored text,
    unless the explicit port is the scheme's default — then `str` REBUILDS the authority from `host_subcomponent`,
    which brackets the host only when it contains ':' (`authText`), and drops the port -/
def strAuthB (scheme : Str) (user pw : Option Str) (t : Str) (port : Option Nat) : Str :=
  match port with
  | some p => if some p = defaultPort scheme then authText user pw t none else authTextB user pw t (some p)
  | none => authTextB user pw t none

/-- `host_port_subcomponent` of such a URL: trailing dots stripped, brackets only around a text with ':', the
    port unless absent or default -/
def hostPortSubB (scheme : Str) (t : Str) (port : Option Nat) : Str :=
  hostPortStr (bracket (if t.getLast? = some 46 then rstripC 46 t else t)) (strPort scheme port)

namespace BrHost

/-! ## basic facts -/

theorem bracketCheck_ne_nil {t : Str} (h : bracketCheck t = true) : t ≠ [] := by
  rintro rfl
  revert h
  decide

theorem bracketText_ne_nil {t : Str} (h : BracketTextIn t) : t ≠ [] := bracketCheck_ne_nil h.check

theorem bracketText_hostOK {t : Str} (h : BracketTextIn t) : HostOK t := by
  have n (c : Nat) (hc : textChar c = false) : c ∉ t := by
    intro hm; rw [h.chars c hm] at hc; exact Bool.noConfusion hc
  exact ⟨bracketText_ne_nil h, n 64 (by decide), n 91 (by decide), n 93 (by decide)⟩

theorem lower_of_bracketText {t : Str} (h : BracketText t) : lower t = t := lower_of_no_upper h.lower

/-- `_encode_host` (validation off) returns a lower-case ASCII text that is no IPv6 literal unchanged: it is
    lower-cased (reg-name route) or recognised as an IPv4 literal with a zone id, whose text is kept -/
theorem encodeHost_self (o : Oracles) {t : Str} (hasc : isAscii t = true) (hlow : lower t = t)
    (hv6 : ∀ h8, parseIP (partition 37 t).1 ≠ some (.v6 h8)) : encodeHost o t false = .ok t := by
  cases hp : parseIP (partition 37 t).1 with
  | none => rw [encodeHost_ascii_noip o hasc hp, hlow]
  | some ip =>
    cases ip with
    | v6 h8 => exact absurd hp (hv6 h8)
    | v4 o4 =>
      obtain ⟨r, hr⟩ : ∃ r, ipRes t = some r := by
        unfold ipRes; rw [hp]; exact ⟨_, rfl⟩
      have hrr := ipRes_v4_eq hp hr
      subst hrr
      obtain ⟨b, hb⟩ := looksIP_ascii o r hasc
      cases b with
      | true => exact encodeHost_ip hb hr (zoneBad_false r)
      | false =>
        rw [encodeHost_eq, hb]
        simp only [bind, Except.bind, Bool.false_eq_true, ↓reduceIte, regPath, hasc, Bool.false_and, hlow]
        rfl

/-- the syntactic family is an instance of the abstract one, for every oracle -/
theorem hostFixB_of_text (o : Oracles) {t : Str} (h : BracketText t) : HostFixB o t :=
  ⟨bracketText_hostOK h.toBracketTextIn, fun c hc => textChar_fix (h.chars c hc), h.check,
    encodeHost_self o (isAscii_of_text h.chars) (lower_of_bracketText h) h.notV6⟩

/-- without ':' a `HostFixB` host is also a `HostFix` host (the same text WITHOUT brackets is a reg-name) -/
theorem hostFix_of_no_colon {o : Oracles} {t : Str} (h : HostFixB o t) (h58 : 58 ∉ t) : HostFix o t :=
  ⟨h.ok, h.chars, fun hm => absurd hm h58, by rw [bracket_of_no_colon h58]; exact h.enc⟩

/-! ## the authority text -/

theorem authTextB_eq (user pw : Option Str) (t : Str) (port : Option Nat) :
    authTextB user pw t port = userPrefix user pw ++ hostPortStr ([91] ++ t ++ [93]) port := by
  unfold authTextB userPrefix
  rw [makeNetloc_eq]
  cases user with
  | none => cases pw <;> simp
  | some u =>
    cases pw with
    | none => simp only; split <;> simp
    | some w => simp

/-- with a ':' inside, `authTextB` is `authText` -/
theorem authTextB_colon (user pw : Option Str) {t : Str} (port : Option Nat) (h58 : 58 ∈ t) :
    authTextB user pw t port = authText user pw t port := by
  unfold authTextB authText
  rw [bracket_of_colon h58]

theorem authTextB_ne_nil (user pw : Option Str) (t : Str) (port : Option Nat) : authTextB user pw t port ≠ [] :=
  EagerLemmas.makeNetloc_ne_nil_written id user pw (by simp) port

theorem hostPortStrB_forall (P : Nat → Prop) (t : Str) (port : Option Nat) (hh : ∀ c ∈ t, P c)
    (hd : ∀ c, isDigitC c = true → P c) (h58 : P 58) (h91 : P 91) (h93 : P 93) :
    ∀ c ∈ hostPortStr ([91] ++ t ++ [93]) port, P c := by
  have hb : ∀ c ∈ [91] ++ t ++ [93], P c := by
    intro c hc
    simp only [List.mem_append, List.mem_cons, List.not_mem_nil, or_false] at hc
    rcases hc with (rfl | hc) | rfl
    · exact h91
    · exact hh c hc
    · exact h93
  intro c hc
  cases port with
  | none => exact hb c hc
  | some p =>
    simp only [hostPortStr, List.mem_append, List.mem_cons, List.not_mem_nil, or_false] at hc
    rcases hc with (hc | rfl) | hc
    · exact hb c (by simp only [List.mem_append, List.mem_cons, List.not_mem_nil, or_false]; exact hc)
    · exact h58
    · exact hd c ((natToStrAux_digits p p).2 c hc)

/-- a predicate on characters that holds on every part holds on the whole authority text -/
theorem authTextB_forall (P : Nat → Prop) (user pw : Option Str) (t : Str) (port : Option Nat)
    (hu : ∀ s, user = some s → ∀ c ∈ s, P c) (hw : ∀ s, pw = some s → ∀ c ∈ s, P c)
    (hh : ∀ c ∈ t, P c) (hd : ∀ c, isDigitC c = true → P c)
    (h58 : P 58) (h64 : P 64) (h91 : P 91) (h93 : P 93) :
    ∀ c ∈ authTextB user pw t port, P c := by
  intro c hc
  rw [authTextB_eq] at hc
  rcases List.mem_append.1 hc with hc | hc
  · exact userPrefix_forall P user pw hu hw h58 h64 c hc
  · exact hostPortStrB_forall P t port hh hd h58 h91 h93 c hc

theorem authTextB_chars {e : Env} {user pw : Option Str} {t : Str} {port : Option Nat}
    (hu : UserInfoOK e.b user pw) (hh : HostFixB e.o t) :
    ∀ c ∈ authTextB user pw t port, 33 ≤ c ∧ c < 128 ∧ Rfc.isDelim3 c = false := by
  apply authTextB_forall (fun c => 33 ≤ c ∧ c < 128 ∧ Rfc.isDelim3 c = false)
  · intro s hs c hc
    have := canon_user_chars (hu.user s hs).2 c hc
    refine ⟨this.1, this.2.1, ?_⟩
    simp [Rfc.isDelim3]; omega
  · intro s hs c hc
    have := canon_user_chars (hu.pw s hs) c hc
    refine ⟨this.1, this.2.1, ?_⟩
    simp [Rfc.isDelim3]; omega
  · exact hh.chars
  · intro c hc
    simp [isDigitC] at hc
    refine ⟨by omega, by omega, ?_⟩
    simp [Rfc.isDelim3]; omega
  all_goals decide

theorem userPrefix_no91 {b : Backend} {user pw : Option Str} (hu : UserInfoOK b user pw) :
    ∀ c ∈ userPrefix user pw, c ≠ 91 :=
  userPrefix_forall (fun c => c ≠ 91) user pw
    (fun s hs c hc => (canon_user_chars (hu.user s hs).2 c hc).2.2.2.2.2.2.2.1)
    (fun s hs c hc => (canon_user_chars (hu.pw s hs) c hc).2.2.2.2.2.2.2.1) (by decide) (by decide)

theorem hostPortStrB_shape (t : Str) (port : Option Nat) :
    ∃ tail, hostPortStr ([91] ++ t ++ [93]) port = 91 :: (t ++ 93 :: tail) ∧ 64 ∉ tail := by
  cases port with
  | none => exact ⟨[], by simp [hostPortStr], by simp⟩
  | some p =>
    refine ⟨58 :: natToStr p, by simp [hostPortStr], ?_⟩
    have := notMem_digits (natToStrAux_digits p p).2 64 (by omega)
    simp only [List.mem_cons, not_or]
    exact ⟨by decide, this⟩

/-- `split_url`'s bracket check accepts the authority text -/
theorem checkBrackets_authTextB {e : Env} {user pw : Option Str} {t : Str} (port : Option Nat)
    (hu : UserInfoOK e.b user pw) (hh : HostFixB e.o t) :
    checkBrackets (authTextB user pw t port) = .ok () := by
  obtain ⟨tail, htail, _⟩ := hostPortStrB_shape t port
  have hA : authTextB user pw t port = userPrefix user pw ++ 91 :: (t ++ 93 :: tail) := by
    rw [authTextB_eq, htail]
  have e1 : partition 91 (authTextB user pw t port) = (userPrefix user pw, true, t ++ 93 :: tail) := by
    rw [hA]; exact partition_found 91 _ _ (fun hm => userPrefix_no91 hu 91 hm rfl)
  have e2 : partition 93 (t ++ 93 :: tail) = (t, true, tail) := partition_found 93 t tail hh.ok.2.2.2
  have m1 : mem 91 (authTextB user pw t port) = true := mem_iff.mpr (by rw [hA]; simp)
  have m2 : mem 93 (authTextB user pw t port) = true := mem_iff.mpr (by rw [hA]; simp)
  have hc := hh.check
  unfold bracketCheck at hc
  unfold checkBrackets
  simp only [m1, m2, e1, e2, Bool.not_true, Bool.and_false, Bool.or_self, Bool.false_eq_true, if_false, if_true]
  by_cases hv : t.take 1 = [118]
  · rw [if_pos hv] at hc ⊢
    rw [hc]; rfl
  · rw [if_neg hv] at hc ⊢
    rw [hc]; rfl

/-- the text after the last '@' of the authority contains '[' -/
theorem authTextB_hostinfo {b : Backend} {user pw : Option Str} (t : Str) (port : Option Nat)
    (hu : UserInfoOK b user pw) (h64 : 64 ∉ t) :
    mem 91 (rpartition 64 (authTextB user pw t port)).2.2 = true := by
  have hw : 64 ∉ hostPortStr ([91] ++ t ++ [93]) port :=
    StrTotal.notMem_hostPortStr_written port (by simp [h64])
  have hm : 91 ∈ hostPortStr ([91] ++ t ++ [93]) port := by
    cases port <;> simp [hostPortStr]
  rw [authTextB_eq]
  by_cases hp : userPrefix user pw = []
  · rw [hp, List.nil_append, ParseLemmas.rpartition_not_mem hw]
    exact mem_iff.mpr hm
  · obtain ⟨ui, hui⟩ : ∃ ui, userPrefix user pw = ui ++ [64] := by
      unfold userPrefix at hp ⊢
      cases user with
      | none =>
        cases pw with
        | none => exact absurd rfl hp
        | some w => exact ⟨58 :: w, by simp⟩
      | some u =>
        cases pw with
        | none =>
          simp only at hp ⊢
          split
          · rename_i hemp; rw [if_pos hemp] at hp; exact absurd rfl hp
          · exact ⟨u, rfl⟩
        | some w => exact ⟨u ++ 58 :: w, by simp⟩
    rw [hui, List.append_assoc, List.singleton_append, rpartition_found 64 ui _ hw]
    exact mem_iff.mpr hm

/-- `split_netloc` reads the authority text back -/
theorem splitNetloc_authTextB (o : Oracles) {user pw : Option Str} {t : Str} (port : Option Nat)
    (hu : UserOK user) (hh : HostOK t) (hp : ∀ p, port = some p → p ≤ 65535) :
    splitNetloc o (authTextB user pw t port) = .ok { user := user, password := pw, host := some t, port := port } := by
  unfold authTextB
  rw [EagerLemmas.roundtrip_reads o id user pw _ t port hu (EagerLemmas.reads_bracketed t hh.2.1 hh.2.2.2) hp]
  have : orNone t = some t := by
    unfold orNone
    rw [isEmpty_false hh.1]; rfl
  rw [this]

/-- the authority block of `encode_url` returns such an authority unchanged, with `raw_host = t` -/
theorem netBlock_authTextB (e : Env) (scheme : Str) {user pw : Option Str} {t : Str} {port : Option Nat}
    (hu : UserInfoOK e.b user pw) (hh : HostFixB e.o t) (hp : ∀ p, port = some p → p ≤ 65535) :
    netBlock e scheme (authTextB user pw t port) =
      .ok (authTextB user pw t port, some (preOf user pw t port)) := by
  have huo := userOK_of hu
  have hne : (authTextB user pw t port).isEmpty = false := isEmpty_false (authTextB_ne_nil user pw t port)
  have hm91 : mem 91 (authTextB user pw t port) = true := by
    apply mem_iff.mpr
    rw [authTextB_eq]
    cases port <;> simp [hostPortStr]
  have hnp : gateNp e.o (authTextB user pw t port) =
      .ok { user := user, password := pw, host := some t, port := port } := by
    unfold gateNp
    rw [hm91]
    simp only [Bool.or_true, if_true]
    exact splitNetloc_authTextB e.o port huo hh.ok hp
  have h91 : mem 91 t = false := mem_false_iff.mpr hh.ok.2.2.1
  have hkeep : (if mem 91 (rpartition 64 (authTextB user pw t port)).2.2 && !mem 91 t then [91] ++ t ++ [93] else t)
      = [91] ++ t ++ [93] := by
    rw [authTextB_hostinfo t port hu hh.ok.2.1, h91]; rfl
  have hraw : (if mem 91 ([91] ++ t ++ [93]) then (([91] ++ t ++ [93]).drop 1).dropLast else [91] ++ t ++ [93]) = t := by
    have : mem 91 ([91] ++ t ++ [93]) = true := mem_iff.mpr (by simp)
    rw [if_pos this]; simp
  rw [netBlock_eq, hne, hnp]
  simp only [Bool.false_eq_true, if_false, bind, Except.bind, netRest, pure, Except.pure, hh.enc, hkeep, hraw]
  cases user with
  | none =>
    cases pw with
    | none =>
      simp only [Option.isNone_none, Bool.and_self, if_true]
      cases port <;> simp [authTextB, makeNetloc, preOf]
    | some w =>
      simp only [Option.isNone_some, Option.isNone_none, Bool.false_and, Bool.false_eq_true, if_false]
      rw [requoteOpt_user (fun s hs => hu.pw s hs)]
      simp only [requoteOpt, Option.map_none, Option.bind_none, authTextB, makeNetloc_qf (q e Gen.QUOTER) id]
  | some u =>
    have hru : (requoteOpt e (some u)).bind (fun s => if s.isEmpty then none else some s) = some u := by
      rw [requoteOpt_user (fun s hs => (hu.user s hs).2)]
      cases u with
      | nil => exact absurd rfl (hu.user [] rfl).1
      | cons _ _ => rfl
    have hrp : requoteOpt e pw = pw := requoteOpt_user (fun s hs => hu.pw s hs)
    simp only [Option.isNone_some, Bool.and_false, Bool.false_eq_true, if_false, hru, hrp, authTextB,
      makeNetloc_qf (q e Gen.QUOTER) id]

/-! ## cache, accessors, `str` -/

/-- the cache entries of a URL whose stored authority is `authTextB …` (eager or lazy) -/
theorem net_authB (e : Env) (u : Url) (user pw : Option Str) (t : Str) (port : Option Nat)
    (hnet : u.netloc = authTextB user pw t port) (hu : UserInfoOK e.b user pw) (hh : HostOK t)
    (hp : ∀ p, port = some p → p ≤ 65535) (hpre : u.pre = none ∨ u.pre = some (preOf user pw t port)) :
    net e u = .ok (preOf user pw t port) := by
  unfold net
  rcases hpre with h | h
  · rw [h]
    simp only
    unfold lazyNet
    rw [hnet, splitNetloc_authTextB e.o port (userOK_of hu) hh hp]
    rfl
  · rw [h]; rfl

theorem strPort_default {scheme : Str} {p : Nat} (h : some p = defaultPort scheme) : strPort scheme (some p) = none := by
  show (if some p = defaultPort scheme then none else some p) = none
  rw [if_pos h]

theorem strPort_other {scheme : Str} {port : Option Nat} (h : ∀ p, port = some p → some p ≠ defaultPort scheme) :
    strPort scheme port = port := by
  cases port with
  | none => rfl
  | some p => simp [strPort, h p rfl]

theorem strAuthB_other {scheme : Str} (user pw : Option Str) (t : Str) {port : Option Nat}
    (h : ∀ p, port = some p → some p ≠ defaultPort scheme) :
    strAuthB scheme user pw t port = authTextB user pw t port := by
  cases port with
  | none => rfl
  | some p => simp [strAuthB, h p rfl]

theorem strAuthB_default {scheme : Str} (user pw : Option Str) (t : Str) {p : Nat}
    (h : some p = defaultPort scheme) : strAuthB scheme user pw t (some p) = authText user pw t none := by
  simp [strAuthB, h]

/-- in every case but "default port and no ':' in the host" `str` writes the bracketed authority -/
theorem strAuthB_colon {scheme : Str} (user pw : Option Str) {t : Str} (port : Option Nat) (h58 : 58 ∈ t) :
    strAuthB scheme user pw t port = authTextB user pw t (strPort scheme port) := by
  cases port with
  | none => rfl
  | some p =>
    by_cases hd : some p = defaultPort scheme
    · rw [strAuthB_default user pw t hd, strPort_default hd, authTextB_colon user pw none h58]
    · simp [strAuthB, strPort, hd]

/-- `str` of a URL with authority `authTextB user pw t port` -/
theorem str_authB (e : Env) (u : Url) (user pw : Option Str) (t : Str) (port : Option Nat)
    (hnet : u.netloc = authTextB user pw t port) (hN : net e u = .ok (preOf user pw t port)) :
    str e u = .ok (unsplitResult u.scheme (strAuthB u.scheme user pw t port) (C07_strPath u) u.query u.fragment) := by
  have hep : explicitPort e u = .ok port := by unfold explicitPort; rw [hN]; rfl
  cases port with
  | none =>
    rw [C07_str_recompose e u none hep (by intro p hp; cases hp)]
    simp only [strAuthB, C07_strPath, hnet]
  | some p =>
    by_cases hd : some p = defaultPort u.scheme
    · have hhs : hostSubcomponent e u = .ok (some (bracket t)) := by
        unfold hostSubcomponent rawHost; rw [hN]; rfl
      have hru : rawUser e u = .ok user := by unfold rawUser; rw [hN]; rfl
      have hrp : rawPassword e u = .ok pw := by unfold rawPassword; rw [hN]; rfl
      unfold str
      rw [hep]
      simp only [bind, Except.bind]
      rw [if_pos hd]
      simp only [hhs, hru, hrp, pure, Except.pure, bind, Except.bind]
      rw [strAuthB_default user pw t hd, makeNetloc_qf (q e Gen.QUOTER) id]
      rfl
    · rw [C07_str_recompose e u (some p) hep (by intro p' hp'; cases hp'; exact hd)]
      simp only [strAuthB, hd, if_false, C07_strPath, hnet]

/-- the netloc-dependent accessors of such a URL -/
theorem accessors_authB (e : Env) (u : Url) (user pw : Option Str) (t : Str) (port : Option Nat)
    (hN : net e u = .ok (preOf user pw t port)) :
    rawHost e u = .ok (some t) ∧ explicitPort e u = .ok port ∧ rawUser e u = .ok user ∧
    rawPassword e u = .ok pw ∧ hostSubcomponent e u = .ok (some (bracket t)) ∧
    hostPortSubcomponent e u = .ok (some (hostPortSubB u.scheme t port)) ∧
    Yarl.port e u = .ok (port.or (defaultPort u.scheme)) := by
  have h1 : rawHost e u = .ok (some t) := by unfold rawHost; rw [hN]; rfl
  have h2 : explicitPort e u = .ok port := by unfold explicitPort; rw [hN]; rfl
  refine ⟨h1, h2, by unfold rawUser; rw [hN]; rfl, by unfold rawPassword; rw [hN]; rfl,
    by unfold hostSubcomponent; rw [h1]; rfl, ?_, ?_⟩
  · unfold hostPortSubcomponent hostPortSubB
    rw [h1]
    simp only [bind, Except.bind, h2]
    cases port with
    | none => simp [strPort, hostPortStr, bracket, pure, Except.pure]
    | some p =>
      by_cases hd : some p = defaultPort u.scheme
      · simp [strPort, hd, hostPortStr, bracket, pure, Except.pure]
      · simp [strPort, hd, hostPortStr, bracket, pure, Except.pure]
  · unfold Yarl.port
    rw [h2]
    cases port <;> rfl

/-! ## re-parsing what `str` wrote -/

/-- the generic step (the record version of `reparse_core`): if `str u` is the text with authority `N`, the
    authority block maps `N` to itself with cache `pre'`, and the cached port is not the default one, then
    parsing `str u` gives the record with authority `N`, whose `str` is the same text -/
theorem reparse_record (e : Env) (u : Url) (hc : CanonUrl e.b u) (hs : SchemeOK' u.scheme) (hune : u.netloc ≠ [])
    (N : Str) (pre' : NetPre) (hNne : N ≠ [])
    (hN : ∀ c ∈ N, 33 ≤ c ∧ c < 128 ∧ Rfc.isDelim3 c = false) (hbr : checkBrackets N = .ok ())
    (hnb : netBlock e u.scheme N = .ok (N, some pre'))
    (hport' : ∀ p, pre'.explicitPort = some p → some p ≠ defaultPort u.scheme) :
    encodeUrl e (unsplitResult u.scheme N (C07_strPath u) u.query u.fragment) =
      .ok (Url.mk u.scheme N (C07_strPath u) u.query u.fragment (some pre')) ∧
    str e (Url.mk u.scheme N (C07_strPath u) u.query u.fragment (some pre')) = .ok (unsplitResult u.scheme N (C07_strPath u) u.query u.fragment) ∧
    CanonUrl e.b (Url.mk u.scheme N (C07_strPath u) u.query u.fragment (some pre')) := by
  obtain ⟨hPc, hPd, hPr⟩ := strPath_canon e.b u hc
  have hok := partsOK_build e.b u.scheme N (C07_strPath u) u.query u.fragment hs hN hbr hPc hc.query hc.fragment
    (fun _ => hPr hune) (fun _ _ => hPr hune) (fun _ h2 => absurd h2 hNne)
  have henc := encode_unsplit e u.scheme N (C07_strPath u) u.query u.fragment (some pre') hok hnb hPc hc.query
    hc.fragment (fun _ => hPd hune)
  refine ⟨henc, ?_, ⟨hPc, hc.query, hc.fragment, fun _ => hPd hune, fun _ => hPr hune⟩⟩
  generalize hu' : Url.mk u.scheme N (C07_strPath u) u.query u.fragment (some pre') = u'
  have e1 : u'.scheme = u.scheme := by rw [← hu']
  have e2 : u'.netloc = N := by rw [← hu']
  have e3 : u'.path = C07_strPath u := by rw [← hu']
  have e4 : u'.query = u.query := by rw [← hu']
  have e5 : u'.fragment = u.fragment := by rw [← hu']
  have e6 : u'.pre = some pre' := by rw [← hu']
  have hep : explicitPort e u' = .ok pre'.explicitPort := by unfold explicitPort net; rw [e6]; rfl
  have hemp : u'.netloc.isEmpty = u.netloc.isEmpty := by rw [e2, isEmpty_false hNne, isEmpty_false hune]
  have := C07_str_recompose e u' pre'.explicitPort hep (by rw [e1]; exact hport')
  rw [this]
  have hsp := strPath_idem u u' e3 hemp e4 e5
  unfold C07_strPath at hsp
  rw [hsp, e1, e2, e4, e5]
  rfl

/-- what `str` writes as the authority is again an authority the authority block maps to itself, with the
    cache `raw_host = t`, port = the port `str` wrote; it is the bracketed text except when a default port was
    dropped from a host without ':' — then it is the plain `authText` of the reg-name `t` -/
theorem strAuthB_block (e : Env) (scheme : Str) {user pw : Option Str} {t : Str} {port : Option Nat}
    (hu : UserInfoOK e.b user pw) (hh : HostFixB e.o t) (hp : ∀ p, port = some p → p ≤ 65535) :
    strAuthB scheme user pw t port ≠ [] ∧
    (∀ c ∈ strAuthB scheme user pw t port, 33 ≤ c ∧ c < 128 ∧ Rfc.isDelim3 c = false) ∧
    checkBrackets (strAuthB scheme user pw t port) = .ok () ∧
    netBlock e scheme (strAuthB scheme user pw t port) =
      .ok (strAuthB scheme user pw t port, some (preOf user pw t (strPort scheme port))) ∧
    (strAuthB scheme user pw t port = authTextB user pw t (strPort scheme port) ∨
      (58 ∉ t ∧ HostFix e.o t ∧ strPort scheme port = none ∧
        (∃ p, port = some p ∧ some p = defaultPort scheme) ∧
        strAuthB scheme user pw t port = authText user pw t none)) := by
  have hr := strPort_range scheme port hp
  by_cases hcase : 58 ∈ t ∨ ∀ p, port = some p → some p ≠ defaultPort scheme
  · have hN : strAuthB scheme user pw t port = authTextB user pw t (strPort scheme port) := by
      rcases hcase with h | h
      · exact strAuthB_colon user pw port h
      · rw [strAuthB_other user pw t h, strPort_other h]
    rw [hN]
    exact ⟨authTextB_ne_nil _ _ _ _, authTextB_chars hu hh, checkBrackets_authTextB _ hu hh,
      netBlock_authTextB e scheme hu hh hr, Or.inl rfl⟩
  · simp only [not_or, Classical.not_forall, not_imp, Decidable.not_not] at hcase
    obtain ⟨h58, p, hpp, hd⟩ := hcase
    subst hpp
    have hf := hostFix_of_no_colon hh h58
    have hN : strAuthB scheme user pw t (some p) = authText user pw t none := strAuthB_default user pw t hd
    have hsp : strPort scheme (some p) = none := strPort_default hd
    rw [hN, hsp]
    exact ⟨makeNetloc_ne_nil id user pw hh.ok.1 none, authText_chars hu hf, checkBrackets_authText none hu hf,
      netBlock_authority e scheme hu hf (fun q hq => by cases hq), Or.inr ⟨h58, hf, rfl, ⟨p, rfl, hd⟩, rfl⟩⟩

theorem bracket_length_le (t : Str) : (bracket t).length ≤ t.length + 2 := by
  unfold bracket; split <;> simp

/-- the authority `str` writes is the stored one exactly when no explicit default port is stored -/
theorem strAuthB_eq_iff (scheme : Str) (user pw : Option Str) (t : Str) (port : Option Nat) :
    strAuthB scheme user pw t port = authTextB user pw t port ↔
      ∀ p, port = some p → some p ≠ defaultPort scheme := by
  constructor
  · intro h p hp hd
    subst hp
    rw [strAuthB_default user pw t hd, authText_eq, authTextB_eq] at h
    have h2 := congrArg List.length (List.append_cancel_left h)
    have := bracket_length_le t
    simp [hostPortStr] at h2
    omega
  · exact strAuthB_other user pw t

/-! ## the INPUT side: what the constructor makes of `[T]` in any letter case -/

theorem textChar_lowerC {c : Nat} (h : textChar c = true) : textChar (lowerC c) = true := by
  have := textChar_spec h
  unfold textChar lowerC
  split <;> simp <;> omega

theorem lowerC_ne_37 (c : Nat) : decide (lowerC c ≠ 37) = decide (c ≠ 37) := by
  unfold lowerC
  split
  · rename_i h
    have h1 : c + 32 ≠ 37 := by omega
    have h2 : c ≠ 37 := by omega
    simp [h1, h2]
  · rfl

theorem takeWhile_lower_37 (s : Str) :
    (lower s).takeWhile (fun x => decide (x ≠ 37)) = lower (s.takeWhile (fun x => decide (x ≠ 37))) := by
  induction s with
  | nil => rfl
  | cons x xs ih =>
    simp only [lower, List.map_cons, List.takeWhile_cons] at ih ⊢
    rw [lowerC_ne_37 x]
    split
    · simp only [List.map_cons, ih]
    · rfl

theorem partition37_lower (s : Str) : (partition 37 (lower s)).1 = lower (partition 37 s).1 := by
  rw [ParseLemmas.partition_eq, ParseLemmas.partition_eq]
  exact takeWhile_lower_37 s

theorem lowerC_digit_or_dot {c : Nat} (h : lowerC c = 46 ∨ isDigitC (lowerC c) = true) : lowerC c = c := by
  unfold lowerC at h ⊢
  split
  · rename_i hc
    rw [if_pos hc] at h
    simp [isDigitC] at h
    omega
  · rfl

/-- lower-casing cannot turn a text into an IPv6 literal -/
theorem notV6_lower {s : Str} (h : ∀ h8, parseIP s ≠ some (.v6 h8)) : ∀ h8, parseIP (lower s) ≠ some (.v6 h8) := by
  intro h8 hp
  obtain ⟨h4, h6⟩ := StrTotal.parseIP_v6 hp
  rw [parseIPv6_lower] at h6
  apply h h8
  unfold parseIP
  rw [parseIPv4_none_of_v6 h6, h6]
  rfl

theorem bracketTextIn_lower {T : Str} (hk : BracketTextIn T) (hlow : bracketCheck (lower T) = true) :
    BracketText (lower T) := by
  refine ⟨⟨?_, hlow, ?_⟩, ?_⟩
  · intro c hc
    obtain ⟨d, hd, rfl⟩ := List.mem_map.1 hc
    exact textChar_lowerC (hk.chars d hd)
  · rw [partition37_lower]
    exact notV6_lower hk.notV6
  · intro c hc
    obtain ⟨d, hd, rfl⟩ := List.mem_map.1 hc
    unfold lowerC
    split <;> omega

/-- `_encode_host` on a bracketed non-IPv6 text in any letter case: the lower-cased text, or — an IPv4 literal
    with a zone id that contains ':' ("1.2.3.4%A:b") — the text itself; either way a `HostFixB` text -/
theorem encodeHost_bracketIn (o : Oracles) {T : Str} (hk : BracketTextIn T) (hlow : bracketCheck (lower T) = true) :
    ∃ t, encodeHost o T false = .ok t ∧ HostFixB o t ∧ (t = lower T ∨ t = T) := by
  have hasc := isAscii_of_text hk.chars
  cases hp : parseIP (partition 37 T).1 with
  | none =>
    exact ⟨lower T, encodeHost_ascii_noip o hasc hp, hostFixB_of_text o (bracketTextIn_lower hk hlow), Or.inl rfl⟩
  | some ip =>
    cases ip with
    | v6 h8 => exact absurd hp (hk.notV6 h8)
    | v4 o4 =>
      obtain ⟨r, hr⟩ : ∃ r, ipRes T = some r := by
        unfold ipRes; rw [hp]; exact ⟨_, rfl⟩
      have hrr := ipRes_v4_eq hp hr
      subst hrr
      have h4 := StrTotal.parseIP_v4 hp
      have hfst : 58 ∉ (partition 37 r).1 := parseIPv4_no_colon h4
      have hv : ¬ (r.take 1 = [118]) := by
        intro ht
        have hne : r ≠ [] := bracketText_ne_nil hk
        cases r with
        | nil => exact hne rfl
        | cons x xs =>
          simp at ht
          subst ht
          have hm : 118 ∈ (partition 37 (118 :: xs)).1 := by
            rw [ParseLemmas.partition_eq]; simp
          have := parseIPv4_chars h4 118 hm
          simp [isDigitC] at this
      have h58 : 58 ∈ r := by
        have hc := hk.check
        unfold bracketCheck at hc
        rw [if_neg hv] at hc
        exact mem_iff.mp hc
      have hlook : looksIP o r = .ok true := by
        unfold looksIP
        cases hl : r.getLast? with
        | none =>
          rw [List.getLast?_eq_none_iff] at hl
          subst hl; simp at h58
        | some l =>
          simp only [mem_iff.mpr h58, if_true]; rfl
      have henc : encodeHost o r false = .ok r := encodeHost_ip hlook hr (zoneBad_false r)
      exact ⟨r, henc, ⟨bracketText_hostOK hk, fun c hc => textChar_fix (hk.chars c hc), hk.check, henc⟩, Or.inr rfl⟩

theorem authTextB_some_nil (pw : Option Str) (t : Str) (port : Option Nat) :
    authTextB (some []) pw t port = authTextB none pw t port := by
  unfold authTextB
  rw [makeNetloc_eq, makeNetloc_eq]
  cases pw <;> simp

/-- the authority block of `encode_url` after the split, on a bracketed non-IPv6 host text -/
theorem netRest_shapeB (e : Env) (scheme n0 : Str) (np : NetlocParts) (T : Str) (netloc : Str) (pre : Option NetPre)
    (hhost : np.host = some T) (hk : BracketTextIn T) (hlow : bracketCheck (lower T) = true)
    (hwrap : 91 ∈ (rpartition 64 n0).2.2)
    (hu : ∀ x, np.user = some x → PyStr x) (hp : ∀ x, np.password = some x → PyStr x)
    (hr : netRest e scheme n0 np = .ok (netloc, pre)) :
    ∃ user pw t, netloc = authTextB user pw t np.port ∧ UserInfoOK e.b user pw ∧ HostFixB e.o t ∧
      (t = lower T ∨ t = T) ∧ pre = some (preOf user pw t np.port) := by
  obtain ⟨t, he, hh, hor⟩ := encodeHost_bracketIn e.o hk hlow
  unfold netRest at hr
  rw [hhost] at hr
  simp only [pure, Except.pure, bind, Except.bind, he] at hr
  have h91 : mem 91 t = false := mem_false_iff.mpr hh.ok.2.2.1
  have hkeep : (if mem 91 (rpartition 64 n0).2.2 && !mem 91 t then [91] ++ t ++ [93] else t) = [91] ++ t ++ [93] := by
    rw [mem_iff.mpr hwrap, h91]; rfl
  have hraw : (if mem 91 ([91] ++ t ++ [93]) then (([91] ++ t ++ [93]).drop 1).dropLast else [91] ++ t ++ [93]) = t := by
    have : mem 91 ([91] ++ t ++ [93]) = true := mem_iff.mpr (by simp)
    rw [if_pos this]; simp
  rw [hkeep, hraw] at hr
  split at hr
  · simp only [Except.ok.injEq, Prod.mk.injEq] at hr
    obtain ⟨hr1, hr2⟩ := hr
    refine ⟨none, none, t, ?_, ⟨fun s h => (by cases h), fun s h => (by cases h)⟩, hh, hor, hr2.symm⟩
    rw [← hr1]
    cases np.port <;> simp [authTextB, makeNetloc]
  · simp only [Except.ok.injEq, Prod.mk.injEq] at hr
    obtain ⟨hr1, hr2⟩ := hr
    refine ⟨_, requoteOpt e np.password, t, ?_, ⟨?_, requoteOpt_canon e np.password hp⟩, hh, hor, hr2.symm⟩
    · rw [← hr1, makeNetloc_qf (Yarl.q e Gen.QUOTER) id]; rfl
    · intro x hx
      obtain ⟨h1, h2⟩ := WfLemmas.orNoneBind_some.mp hx
      exact ⟨h2, requoteOpt_canon e np.user hu x h1⟩

/-- the authority block of `encode_url` on an authority naming a bracketed non-IPv6 host -/
theorem netBlock_shapeB (e : Env) (scheme n0 : Str) (np : NetlocParts) (T : Str) (netloc : Str) (pre : Option NetPre)
    (hne : n0 ≠ []) (hpy : PyStr n0) (hsp : splitNetloc e.o n0 = .ok np)
    (hhost : np.host = some T) (hk : BracketTextIn T) (hlow : bracketCheck (lower T) = true)
    (hwrap : 91 ∈ (rpartition 64 n0).2.2)
    (h : netBlock e scheme n0 = .ok (netloc, pre)) :
    ∃ user pw t, netloc = authTextB user pw t np.port ∧ UserInfoOK e.b user pw ∧ HostFixB e.o t ∧
      (t = lower T ∨ t = T) ∧ pre = some (preOf user pw t np.port) := by
  rw [netBlock_eq, isEmpty_false hne, gateNp_eq e.o hne, hsp] at h
  simp only [Bool.false_eq_true, if_false, bind, Except.bind] at h
  obtain ⟨hu, hp⟩ := WfLemmas.splitNetloc_pyStr e.o n0 hpy np hsp
  exact netRest_shapeB e scheme n0 np T netloc pre hhost hk hlow hwrap hu hp h

/-! ## `build(authority=…)` -/

/-- `make_netloc` (no encoding) of canonical pieces around a bracketed host is an `authTextB`; a user "" is no user -/
theorem makeNetloc_authTextB (e : Env) (user pw : Option Str) (t : Str) (port : Option Nat)
    (hu : ∀ x, user = some x → Canon (Gen.REQUOTER.tab e.b) x) (hw : ∀ x, pw = some x → Canon (Gen.REQUOTER.tab e.b) x) :
    ∃ user', makeNetloc (Yarl.q e Gen.QUOTER) user pw (some ([91] ++ t ++ [93])) port false = authTextB user' pw t port ∧
      UserInfoOK e.b user' pw := by
  rw [makeNetloc_qf (Yarl.q e Gen.QUOTER) id]
  cases user with
  | none => exact ⟨none, rfl, ⟨fun s h => (by cases h), hw⟩⟩
  | some x =>
    by_cases hx : x = []
    · subst hx
      exact ⟨none, authTextB_some_nil pw t port, ⟨fun s h => (by cases h), hw⟩⟩
    · exact ⟨some x, rfl, ⟨fun s h => (by cases h; exact ⟨hx, hu x rfl⟩), hw⟩⟩

/-- the two forms in which `build` writes the authority, around a bracketed host -/
theorem build_forms_shapeB (e : Env) (U P : Option Str) (t : Str) (port : Option Nat) (netloc : Str)
    (hU : ∀ s, U = some s → PyStr s) (hP : ∀ s, P = some s → PyStr s)
    (hnl : (if (U.isNone && P.isNone) = true
        then (pure (match port with | none => [91] ++ t ++ [93] | some p => [91] ++ t ++ [93] ++ [58] ++ natToStr p) : R Str)
        else pure (makeNetloc (Yarl.q e Gen.QUOTER) U P (some ([91] ++ t ++ [93])) port true)) = .ok netloc) :
    ∃ user pw, netloc = authTextB user pw t port ∧ UserInfoOK e.b user pw := by
  split at hnl
  · simp only [pure, Except.pure, Except.ok.injEq] at hnl
    refine ⟨none, none, ?_, ⟨fun s h => (by cases h), fun s h => (by cases h)⟩⟩
    rw [← hnl]
    cases port <;> simp [authTextB, makeNetloc]
  · simp only [pure, Except.pure, Except.ok.injEq] at hnl
    rw [makeNetloc_encode] at hnl
    obtain ⟨user', heq, hui⟩ := makeNetloc_authTextB e _ (P.map (Yarl.q e Gen.QUOTER)) t port
      (quoted_user_canon e U hU) (quoted_canon e P hP)
    exact ⟨user', _, by rw [← hnl, heq], hui⟩

/-- the scheme and the authority `build(encoded=False, authority=…)` writes when the authority names a bracketed
    non-IPv6 host: the lowered scheme, `[user[:pw]@][t][:port]` with the default port of that scheme dropped -/
theorem build_shapeB (e : Env) (a : BuildArgs) (u : Url) (np : NetlocParts) (T : Str) (henc : a.encoded = false)
    (hpy : PyStr a.authority) (hsp : splitNetloc e.o a.authority = .ok np) (hhost : np.host = some T)
    (hwrap : 91 ∈ (rpartition 64 a.authority).2.2) (hk : BracketTextIn T) (hlow : bracketCheck (lower T) = true)
    (h : build e a = .ok u) :
    ∃ sc user pw t, lowerAny e a.scheme = .ok sc ∧ u.scheme = sc ∧
      u.netloc = authTextB user pw t (strPort sc np.port) ∧ UserInfoOK e.b user pw ∧ HostFixB e.o t ∧
      (t = lower T ∨ t = T) ∧ u.pre = none ∧ (∀ p, strPort sc np.port = some p → p ≤ 65535) := by
  have hane' : a.authority ≠ [] := by
    intro h0
    rw [h0] at hwrap
    exact absurd (ParseLemmas.mem_of_mem_rpartition_snd_snd hwrap) (by simp)
  unfold build at h
  obtain ⟨_, h⟩ := WfLemmas.ite_err_ok h
  obtain ⟨_, h⟩ := WfLemmas.ite_err_ok h
  obtain ⟨hrange, h⟩ := WfLemmas.ite_err_ok h
  obtain ⟨_, h⟩ := WfLemmas.ite_err_ok h
  obtain ⟨_, h⟩ := WfLemmas.ite_err_ok h
  obtain ⟨qs, hqs, h⟩ := WfLemmas.bind_ok h
  rw [henc] at h
  rw [if_neg (by decide)] at h
  obtain ⟨sc, hsc, h⟩ := WfLemmas.bind_ok h
  obtain ⟨netloc, hnl, h⟩ := WfLemmas.bind_ok h
  obtain ⟨path, hpath, h⟩ := WfLemmas.bind_ok h
  cases h
  simp only [fromParts]
  simp only [] at hnl
  rw [if_pos (by simp [hane'])] at hnl
  replace hnl := (BuildFix.screen_ok hnl).1
  rw [hsp] at hnl
  simp only [bind, Except.bind, hhost] at hnl
  obtain ⟨t, he, hh, hor⟩ := encodeHost_bracketIn e.o hk hlow
  rw [he] at hnl
  simp only at hnl
  have h91 : mem 91 t = false := mem_false_iff.mpr hh.ok.2.2.1
  have hkeep : (if mem 91 (rpartition 64 a.authority).2.2 && !mem 91 t then [91] ++ t ++ [93] else t) = [91] ++ t ++ [93] := by
    rw [mem_iff.mpr hwrap, h91]; rfl
  rw [hkeep] at hnl
  obtain ⟨hu, hp⟩ := WfLemmas.splitNetloc_pyStr e.o a.authority hpy np hsp
  obtain ⟨user, pw, heq, hui⟩ := build_forms_shapeB e np.user np.password t (strPort sc np.port) netloc hu hp hnl
  exact ⟨sc, user, pw, t, hsc, rfl, heq, hui, hh, hor, trivial,
    ReachFix.strPort_range sc np.port (fun p hp => splitNetloc_port_range e.o a.authority np p hsp hp)⟩

/-! ## an IPvFuture text is never an IP address -/

theorem parseHextet_bad_head {x : Nat} (p : Str) (hx : isHexC x = false) : parseHextet (x :: p) = none := by
  unfold parseHextet
  simp [hx]

theorem mapM_bad_head {hd : Str} (rest : List Str) (h : parseHextet hd = none) :
    (hd :: rest).mapM parseHextet = none := by
  simp [List.mapM_cons, h]

/-- `_ip_int_from_string` rejects a list of parts whose first part is non-empty and no hextet -/
theorem v6core_bad_head {hd : Str} (rest : List Str) (hne : hd ≠ []) (h : parseHextet hd = none) :
    v6core (hd :: rest) = none := by
  unfold v6core
  split; · rfl
  split
  · rfl
  · rename_i skip hs
    obtain ⟨h1, h2, _⟩ := findSkip_some hs
    have hfe : ((hd :: rest).headD [1]).isEmpty = false := by
      simp only [List.headD_cons]; exact isEmpty_false hne
    simp only [hfe, Bool.false_eq_true, false_and, if_false]
    obtain ⟨k, rfl⟩ : ∃ k, skip = k + 1 := ⟨skip - 1, by omega⟩
    rw [List.take_succ_cons, mapM_bad_head _ h]
    simp
  · split; · rfl
    split; · rfl
    split; · rfl
    exact mapM_bad_head rest h

/-- expanding a dotted-quad suffix keeps the first part (when there are at least two parts) -/
theorem v6expand_head (hd : Str) {ps : List Str} (hps : ps ≠ []) :
    v6expand (hd :: ps) = none ∨ ∃ rest, v6expand (hd :: ps) = some (hd :: rest) := by
  unfold v6expand
  have hlast : (hd :: ps).getLast? = ps.getLast? := by
    cases ps with
    | nil => exact absurd rfl hps
    | cons a b => simp [List.getLast?_cons_cons]
  have hdrop : (hd :: ps).dropLast = hd :: ps.dropLast := by
    cases ps with
    | nil => exact absurd rfl hps
    | cons a b => rfl
  rw [hlast, hdrop]
  cases hl : ps.getLast? with
  | none => exact Or.inl rfl
  | some l =>
    simp only
    split
    · split
      · exact Or.inr ⟨_, rfl⟩
      · exact Or.inl rfl
    · exact Or.inr ⟨_, rfl⟩

theorem parseIPv6_v (r : Str) : parseIPv6 (118 :: r) = none := by
  rw [parseIPv6_eq]
  split; · rfl
  split; · rfl
  split; · rfl
  rename_i hlen
  obtain ⟨p, ps, hsp⟩ := PathAlg.splitOn_head_nil 58 118 r (by decide)
  rw [hsp] at hlen ⊢
  have hbad : parseHextet (118 :: p) = none := parseHextet_bad_head p (by decide)
  have hps : ps ≠ [] := by
    intro h; rw [h] at hlen; simp at hlen
  rcases v6expand_head (118 :: p) hps with h | ⟨rest, h⟩
  · rw [h]
  · rw [h]
    exact v6core_bad_head rest (by simp) hbad

theorem parseIPv4_v (r : Str) : parseIPv4 (118 :: r) = none := by
  cases h : parseIPv4 (118 :: r) with
  | none => rfl
  | some o4 =>
    have := parseIPv4_chars h 118 (by simp)
    simp [isDigitC] at this

/-- a text that starts with 'v' is no IP literal: for an IPvFuture text the clause `notV6` of `BracketTextIn`
    is automatic -/
theorem notIP_of_v (r : Str) : parseIP (partition 37 (118 :: r)).1 = none := by
  have : (partition 37 (118 :: r)).1 = 118 :: (partition 37 r).1 := by
    rw [ParseLemmas.partition_eq, ParseLemmas.partition_eq]
    simp
  rw [this]
  unfold parseIP
  rw [parseIPv4_v, parseIPv6_v]
  rfl

/-- the IPvFuture family: `v<hex>+.<char>+` over lower-case `textChar`s -/
theorem bracketText_ipvFuture {t : Str} (hch : ∀ c ∈ t, textChar c = true) (hlow : ∀ c ∈ t, ¬ (65 ≤ c ∧ c ≤ 90))
    (hv : ipvFutureOk t = true) : BracketText t := by
  cases t with
  | nil => simp [ipvFutureOk] at hv
  | cons x r =>
    have hx : x = 118 := by
      unfold ipvFutureOk at hv
      split at hv
      · rename_i heq; cases heq; rfl
      · cases hv
    subst hx
    refine ⟨⟨hch, ?_, fun h8 hp => ?_⟩, hlow⟩
    · unfold bracketCheck
      simp [hv]
    · rw [notIP_of_v] at hp; cases hp

/-- the other family: lower-case `textChar`s with a ':', not starting with 'v', not an IPv6 literal -/
theorem bracketText_colon {t : Str} (hch : ∀ c ∈ t, textChar c = true) (hlow : ∀ c ∈ t, ¬ (65 ≤ c ∧ c ≤ 90))
    (h58 : 58 ∈ t) (hv : t.head? ≠ some 118) (h6 : ∀ h8, parseIP (partition 37 t).1 ≠ some (.v6 h8)) :
    BracketText t := by
  refine ⟨⟨hch, ?_, h6⟩, hlow⟩
  unfold bracketCheck
  have : ¬ (t.take 1 = [118]) := by
    intro ht
    apply hv
    cases t with
    | nil => simp at ht
    | cons x xs => simp at ht; simp [ht]
  rw [if_neg this]
  exact mem_iff.mpr h58

/-! ## the bracket check and lower-casing -/

theorem takeWhile_hex_lower (r : Str) : (lower r).takeWhile isHexC = lower (r.takeWhile isHexC) := by
  induction r with
  | nil => rfl
  | cons x xs ih =>
    simp only [lower, List.map_cons, List.takeWhile_cons] at ih ⊢
    rw [isHexC_lowerC x]
    split
    · simp only [List.map_cons, ih]
    · rfl

theorem dropWhile_hex_lower (r : Str) : (lower r).dropWhile isHexC = lower (r.dropWhile isHexC) := by
  induction r with
  | nil => rfl
  | cons x xs ih =>
    simp only [lower, List.map_cons, List.dropWhile_cons] at ih ⊢
    rw [isHexC_lowerC x]
    split
    · exact ih
    · rfl

theorem lower_isEmpty (s : Str) : (lower s).isEmpty = s.isEmpty := by cases s <;> rfl

theorem ipvFutureOk_lower (r : Str) : ipvFutureOk (118 :: lower r) = ipvFutureOk (118 :: r) := by
  unfold ipvFutureOk
  simp only [takeWhile_hex_lower, dropWhile_hex_lower]
  cases hd : r.dropWhile isHexC with
  | nil => rfl
  | cons y tl =>
    by_cases hy : y = 46
    · subst hy
      simp only [lower, List.map_cons]
      show (!(List.map lowerC (r.takeWhile isHexC)).isEmpty && !(List.map lowerC tl).isEmpty) = _
      simp
    · have hy' : lowerC y ≠ 46 := fun h => hy (by rw [← lowerC_digit_or_dot (Or.inl h)]; exact h)
      simp only [lower, List.map_cons]
      split
      · rename_i heq; simp only [List.cons.injEq] at heq; exact absurd heq.1 hy'
      · split
        · rename_i heq; simp only [List.cons.injEq] at heq; exact absurd heq.1 hy
        · rfl

/-- the bracket check survives lower-casing unless the text starts with an UPPER-CASE 'V' (then the lower-cased
    text starts with 'v' and must be an IPvFuture literal: `C03_bracket_upper_v_counterexample`) -/
theorem bracketCheck_lower {T : Str} (hV : T.head? ≠ some 86) (h : bracketCheck T = true) :
    bracketCheck (lower T) = true := by
  cases T with
  | nil => exact absurd h (by decide)
  | cons x r =>
    unfold bracketCheck at h ⊢
    by_cases hx : x = 118
    · subst hx
      have e1 : (118 :: r).take 1 = [118] := rfl
      have e2 : (lower (118 :: r)).take 1 = [118] := rfl
      rw [if_pos e1] at h
      rw [if_pos e2]
      show ipvFutureOk (118 :: lower r) = true
      rw [ipvFutureOk_lower]; exact h
    · have e1 : ¬ ((x :: r).take 1 = [118]) := by simp [hx]
      have hx86 : x ≠ 86 := fun h86 => hV (by simp [h86])
      have e2 : ¬ ((lower (x :: r)).take 1 = [118]) := by
        simp only [lower, List.map_cons, List.take_succ_cons, List.take_zero, List.cons.injEq, and_true]
        unfold lowerC
        split <;> omega
      rw [if_neg e1] at h
      rw [if_neg e2]
      have hm := mem_iff.mp h
      apply mem_iff.mpr
      exact List.mem_map.2 ⟨58, hm, rfl⟩

/-! ## a Boolean checker (for concrete instances) -/

def notV6B (t : Str) : Bool :=
  match parseIP (partition 37 t).1 with
  | some (.v6 _) => false
  | _ => true

theorem notV6B_sound {t : Str} (h : notV6B t = true) : ∀ h8, parseIP (partition 37 t).1 ≠ some (.v6 h8) := by
  intro h8 hp
  unfold notV6B at h
  rw [hp] at h
  cases h

/-- `BracketTextIn` as a Boolean -/
def bracketTextInB (t : Str) : Bool := t.all textChar && bracketCheck t && notV6B t

/-- `BracketText` as a Boolean -/
def bracketTextB (t : Str) : Bool := bracketTextInB t && t.all (fun c => !(decide (65 ≤ c) && decide (c ≤ 90)))

theorem bracketTextInB_sound {t : Str} (h : bracketTextInB t = true) : BracketTextIn t := by
  unfold bracketTextInB at h
  simp only [Bool.and_eq_true, List.all_eq_true] at h
  exact ⟨h.1.1, h.1.2, notV6B_sound h.2⟩

theorem bracketTextB_sound {t : Str} (h : bracketTextB t = true) : BracketText t := by
  unfold bracketTextB at h
  simp only [Bool.and_eq_true, List.all_eq_true, Bool.not_eq_true', Bool.and_eq_false_iff,
    decide_eq_false_iff_not] at h
  refine ⟨bracketTextInB_sound h.1, fun c hc hcc => ?_⟩
  rcases h.2 c hc with h' | h'
  · exact h' hcc.1
  · exact h' hcc.2

end BrHost
end Yarl
