/-
  EntryLemmas.lean — helper lemmas for C15Entry (no dot segment after any entry point)
  and C01Reach (well-formedness over all operation sequences).
-/
import YarlModel
import YarlProofs.Lemmas.PathLemmas
import YarlProofs.Lemmas.PathAlg
import YarlProofs.Lemmas.WfLemmas
import YarlProofs.C15
import YarlProofs.C07
import YarlProofs.Lemmas.Canon
import YarlProofs.Lemmas.JoinLemmas
namespace Yarl

/-- no segment of the '/'-split of `p` is "." or ".." -/
def NoDotSegments (p : Str) : Prop := ∀ s ∈ splitOn 47 p, s ≠ dot ∧ s ≠ dotdot

instance (p : Str) : Decidable (NoDotSegments p) := by unfold NoDotSegments; infer_instance

namespace EntryLemmas
open PathLemmas PathAlg WfLemmas

theorem noDotSegments_nil : NoDotSegments [] := by
  intro s hs
  simp only [splitOn, List.mem_singleton] at hs
  subst hs
  simp [dot, dotdot]

/-- a string without '.' has no dot segment -/
theorem noDotSegments_of_no_dot {p : Str} (h : 46 ∉ p) : NoDotSegments p := by
  intro s hs
  have hsub := splitOn_sub 47 p s hs
  constructor
  · rintro rfl; exact h (hsub 46 (by simp [dot]))
  · rintro rfl; exact h (hsub 46 (by simp [dotdot]))

theorem noDotSegments_of_mem_false {p : Str} (h : mem 46 p = false) : NoDotSegments p := by
  apply noDotSegments_of_no_dot
  rw [ParseLemmas.mem_eq] at h
  simpa using h

/-- joining dot-free, slash-free segments gives a path without dot segments -/
theorem noDotSegments_joinC (M : List Str) (hs : Segs M) (hd : NoDots M) : NoDotSegments (joinC 47 M) := by
  by_cases hM : M = []
  · subst hM
    exact noDotSegments_nil
  · intro s h
    rw [splitOn_joinC M hM hs] at h
    exact hd s h

/-- `normalize_path` output never has a dot segment, rooted or not -/
theorem noDotSegments_normalizePath (p : Str) : NoDotSegments (normalizePath p) := by
  unfold normalizePath
  split
  · rename_i rest
    exact C15_path_no_dot_segments rest
  · exact noDotSegments_joinC _ (normalizePathSegments_no_sep _ (splitOn_no_sep 47 p))
      (noDots_normalizePathSegments _)

/-- the `"." in path` guard followed by `normalize_path` -/
theorem noDotSegments_guard (p : Str) : NoDotSegments (if mem 46 p = true then normalizePath p else p) := by
  split
  · exact noDotSegments_normalizePath p
  · rename_i h
    exact noDotSegments_of_mem_false (by simpa using h)

/-- `with_path` since fix 7cae68c: the `"." in path` guard followed by `normalize_path` of the ROOTED path -/
theorem noDotSegments_guard_rooted (p : Str) :
    NoDotSegments (if mem 46 p = true then normalizePath (rooted p) else p) := by
  split
  · exact noDotSegments_normalizePath (rooted p)
  · rename_i h
    exact noDotSegments_of_mem_false (by simpa using h)

theorem noDotSegments_cons_slash {p : Str} (h : NoDotSegments p) : NoDotSegments (47 :: p) := by
  intro s hs
  simp only [splitOn, ↓reduceIte, List.mem_cons] at hs
  rcases hs with rfl | hs
  · simp [dot, dotdot]
  · exact h s hs

/-- `p if p is empty or starts with '/' else '/' + p` -/
theorem noDotSegments_fixRoot {p : Str} (h : NoDotSegments p) : NoDotSegments (fixRoot p) := by
  unfold fixRoot
  split
  · exact h
  · exact h
  · exact noDotSegments_cons_slash h

theorem noDotSegments_ensure_slash {p : Str} : NoDotSegments p →
    NoDotSegments (match p with
      | [] => p
      | 47 :: _ => p
      | _ => 47 :: p) := by
  intro h
  have := noDotSegments_fixRoot h
  unfold fixRoot at this
  exact this

/-! ### the success path of `encodeUrl`, with the stored netloc -/

theorem encodeUrl_path (e : Env) (s : Str) (u : Url) (h : encodeUrl e s = .ok u) :
    ∃ p : Parts, splitUrl e.o s = .ok p ∧
      u.path = (if p.path.isEmpty then p.path else
        if !u.netloc.isEmpty && mem 46 (q e Gen.PATH_REQUOTER p.path) then normalizePath (q e Gen.PATH_REQUOTER p.path)
        else q e Gen.PATH_REQUOTER p.path) ∧
      (p.netloc = [] → u.netloc = []) := by
  unfold encodeUrl at h
  obtain ⟨p, hp, h⟩ := bind_ok h
  obtain ⟨⟨netloc, pre⟩, hnp, h⟩ := bind_ok h
  simp only [pure, Except.pure, Except.ok.injEq] at h
  subst h
  refine ⟨p, hp, rfl, ?_⟩
  intro hpn
  rw [hpn] at hnp
  simp only [List.isEmpty_nil, if_true, pure, Except.pure, Except.ok.injEq, Prod.mk.injEq] at hnp
  exact hnp.1.symm

/-! ### rooted paths after an authority -/

open ParseLemmas in
/-- after an authority the Appendix B path is empty or starts with '/' -/
theorem splitUrl_path_rooted (o : Oracles) (s : Str) (p : Parts) (h : splitUrl o s = .ok p)
    (hn : p.netloc ≠ []) : p.path = [] ∨ ∃ r, p.path = 47 :: r := by
  have hB := C07_split o s p h
  rw [appendixB_eq] at hB
  have h1 : p.netloc = (authOf (Rfc.schemeOf Gen.schemeChars (cleanUrl s)).2).1 :=
    congrArg Rfc.Parts5.authority hB
  have h2 : p.path = (tailOf (authOf (Rfc.schemeOf Gen.schemeChars (cleanUrl s)).2).2).1 :=
    congrArg Rfc.Parts5.path hB
  generalize (Rfc.schemeOf Gen.schemeChars (cleanUrl s)).2 = r1 at h1 h2
  rw [h2]
  unfold authOf at h1 ⊢
  split
  · rename_i r
    simp only [tailOf]
    cases hD : List.dropWhile (fun c => !Rfc.isDelim3 c) r with
    | nil => left; rfl
    | cons c t =>
      have hc := List.head?_dropWhile_not (fun c => !Rfc.isDelim3 c) r
      rw [hD] at hc
      simp only [List.head?_cons, Bool.not_eq_false'] at hc
      by_cases h47 : c = 47
      · subst h47
        right
        refine ⟨t.takeWhile (fun c => !Rfc.isDelim2 c), ?_⟩
        simp [Rfc.isDelim2]
      · left
        have : Rfc.isDelim2 c = true := by
          simp only [Rfc.isDelim3, Bool.or_eq_true, decide_eq_true_eq] at hc
          simp only [Rfc.isDelim2, Bool.or_eq_true, decide_eq_true_eq]
          rcases hc with (hc | hc) | hc
          · exact absurd hc h47
          · exact Or.inl hc
          · exact Or.inr hc
        simp [this]
  · simp only at h1
    exact absurd h1 hn

/-- a literal-safe '/' at the front stays at the front, on both backends, for any input -/
theorem quote_rooted (b : Backend) (t : QTab) (hsafe : t.safe 47 = true) (hqs : t.qs = false) (r : Str) :
    ∃ r', quote b t (47 :: r) = 47 :: r' := by
  cases b with
  | py =>
    simp only [quote, quotePy, utf8s, List.flatMap_cons]
    have hu : utf8 47 = [47] := by decide
    rw [hu]
    simp only [List.cons_append, List.nil_append]
    rw [pyLoop]
    simp [hsafe, hqs]
  | c =>
    simp only [quote, quoteC]
    have hs : stripSurr (47 :: r) = 47 :: stripSurr r := by simp [stripSurr, isSurrogate]
    rw [hs]
    have hw : cWriteOut t 47 = [47] := by simp [cWriteOut, hsafe, hqs]
    by_cases ha : allSafe t (47 :: stripSurr r) = true
    · rw [if_pos ha]; exact ⟨_, rfl⟩
    · rw [if_neg ha]
      by_cases hc : cChanged t (47 :: stripSurr r) = true
      · rw [if_pos hc, OutLangLemmas.cOut_cons_ne _ (by decide), hw]
        exact ⟨_, rfl⟩
      · rw [if_neg hc]; exact ⟨_, rfl⟩

theorem q_path_requoter_rooted (e : Env) (r : Str) : ∃ r', q e Gen.PATH_REQUOTER (47 :: r) = 47 :: r' :=
  quote_rooted e.b _ (by cases e.b <;> decide) (by cases e.b <;> rfl) r

/-! ### the argument loop of `_make_child` -/

/-- every new segment is slash-free, and when the "needs normalising" flag stays off no new
    segment contains a '.' -/
theorem go_segs (e : Env) (enc : Bool) : ∀ (paths : List Str) (last : Bool) (parsed : List Str) (nn : Bool)
    (r : List Str × Bool), makeChild.go e enc paths last parsed nn = .ok r →
    (r.2 = false → nn = false) ∧
      ∀ s ∈ r.1, s ∈ parsed ∨ (47 ∉ s ∧ (r.2 = false → 46 ∉ s)) := by
  intro paths
  induction paths with
  | nil =>
    intro last parsed nn r h
    simp only [makeChild.go, pure, Except.pure] at h
    cases h
    exact ⟨id, fun s hs => Or.inl hs⟩
  | cons p rest ih =>
    intro last parsed nn r h
    simp only [makeChild.go] at h
    generalize (if enc = true then p else q e Gen.PATH_QUOTER p) = p' at h
    split at h
    · cases h
    · obtain ⟨h1, h2⟩ := ih _ _ _ r h
      constructor
      · intro hr
        have := h1 hr
        simp only [Bool.or_eq_false_iff] at this
        exact this.1
      · intro s hs
        rcases h2 s hs with hs | hs
        · rcases List.mem_append.mp hs with hs | hs
          · exact Or.inl hs
          · right
            have hseg : s ∈ splitOn 47 p' := by
              split at hs
              · exact List.mem_reverse.mp (List.mem_of_mem_drop hs)
              · exact List.mem_reverse.mp hs
            refine ⟨splitOn_no_sep 47 _ s hseg, ?_⟩
            intro hr
            have := h1 hr
            simp only [Bool.or_eq_false_iff] at this
            have h46 := this.2
            rw [ParseLemmas.mem_eq] at h46
            have h46' : 46 ∉ p' := by simpa using h46
            exact fun hm => h46' (splitOn_sub 47 _ s hseg 46 hm)
        · exact Or.inr hs

theorem noDots_of_no46 {s : Str} (h : 46 ∉ s) : s ≠ dot ∧ s ≠ dotdot := by
  constructor
  · rintro rfl; exact h (by simp [dot])
  · rintro rfl; exact h (by simp [dotdot])

theorem noDots_base (u : Url) (h : NoDotSegments u.path) : NoDots (base u) :=
  fun s hs => h s (mem_base hs)

theorem mem_root' {n : Str} {L : List Str} {s : Str} (h : s ∈ root n L) : s = [] ∨ s ∈ L := mem_root h

theorem noDots_root (n : Str) {L : List Str} (h : NoDots L) : NoDots (root n L) := by
  intro s hs
  rcases mem_root hs with rfl | hs
  · simp [dot, dotdot]
  · exact h s hs

end EntryLemmas
end Yarl
