/-
  Readback2.lean — helper lemmas for C06More2.lean (property C06, GAPS 3, 4, 6, 9, 10 remainders).
  Namespace `Yarl.R2`.
-/
import YarlModel
import YarlProofs.C06More
import YarlProofs.C11Ctor
import YarlProofs.C17Ctor
import YarlProofs.C03Netloc
import YarlProofs.C15Headline
set_option linter.unusedSimpArgs false
set_option linter.unusedVariables false
namespace Yarl
namespace R2
open NetlocLemmas HeadB EagerLemmas BuildMore DecLemmas

/-! ## with_user("") -/

theorem q_quoter_nil (e : Env) : q e Gen.QUOTER [] = [] := by
  show Gen.QUOTER.run e.b [] = []
  rw [QsLemmas.run_eq_cOut Gen.QUOTER (by decide) e.b [] pyStr_nil,
    QsLemmas.stripSurr_id [] (by intro c hc; simp at hc), cOut]

/-- `make_netloc` treats the user "" as no user -/
theorem makeNetloc_user_nil (qf : Str → Str) (pw : Option Str) (hb : Str) (port : Option Nat) :
    makeNetloc qf (some []) pw (some hb) port false = makeNetloc qf none pw (some hb) port false := by
  rw [makeNetloc_eq, makeNetloc_eq]
  cases pw <;> simp

theorem userOK_none : UserOK none := by intro t ht; cases ht


/-! ## `build(authority=…)` -/

open NetShape StrTotal MiscLemmas in
/-- the authority `build(authority=A, encoded=False)` stores, for an `A` whose split names a supported host text -/
theorem build_authority_netloc (e : Env) (a : BuildArgs) (v : Url) (h : build e a = .ok v)
    (henc : a.encoded = false) (np : NetlocParts) (h0 : Str)
    (hsp : splitNetloc e.o a.authority = .ok np) (hhost : np.host = some h0) (hk : HostTextOK h0)
    (hwrap : 58 ∉ h0 → 91 ∉ (rpartition 64 a.authority).2.2) :
    ∃ sc hs, lowerAny e a.scheme = .ok sc ∧ v.scheme = sc ∧ encodeHost e.o h0 false = .ok (bracket hs) ∧
      HostFix e.o hs ∧ (58 ∈ hs ↔ 58 ∈ h0) ∧ v.pre = none ∧
      v.netloc = makeNetloc id (encUser (q e Gen.QUOTER) np.user) (np.password.map (q e Gen.QUOTER))
        (some (bracket hs)) (strPort sc np.port) false := by
  obtain ⟨sc, hsc, hsch, hpre, hnl, _⟩ := build_parts e a v henc h
  have hane : a.authority ≠ [] := by
    intro h0'
    rw [h0'] at hsp
    have : splitNetloc e.o [] = .ok { user := none, password := none, host := none, port := none } := rfl
    rw [this] at hsp
    cases hsp
    cases hhost
  unfold buildNetloc at hnl
  simp only [isEmpty_false_of_ne hane, Bool.not_false, if_true] at hnl
  replace hnl := (BuildFix.screen_ok hnl).1
  rw [hsp] at hnl
  simp only [bind, Except.bind, hhost] at hnl
  cases he : encodeHost e.o h0 false with
  | error err => rw [he] at hnl; cases hnl
  | ok r =>
    rw [he] at hnl
    obtain ⟨hs, rfl, hfix, hiff⟩ := encodeHost_hostFix e.o hk he
    simp only at hnl
    rw [keep_bracket (fun h58 => hwrap (fun hm => h58 (hiff.2 hm)))] at hnl
    replace hnl : (if (np.user.isNone && np.password.isNone) = true
        then (pure (match strPort sc np.port with
          | none => bracket hs | some p => bracket hs ++ [58] ++ natToStr p) : R Str)
        else pure (makeNetloc (q e Gen.QUOTER) np.user np.password (some (bracket hs)) (strPort sc np.port) true))
        = .ok v.netloc := hnl
    refine ⟨sc, hs, hsc, hsch, rfl, hfix, hiff, hpre, ?_⟩
    split at hnl
    · rename_i hc
      simp only [Bool.and_eq_true, Option.isNone_iff_eq_none] at hc
      have := Except.ok.inj hnl
      rw [← this, hc.1, hc.2]
      simp only [encUser, Option.bind_none, Option.map_none]
      cases strPort sc np.port <;> simp [makeNetloc]
    · have := Except.ok.inj hnl
      rw [← this, makeNetloc_enc, makeNetloc_qf _ id]


theorem encUser_bind (e : Env) (U : Option Str) :
    (encUser (q e Gen.QUOTER) U).bind orNone = (U.map (q e Gen.QUOTER)).bind orNone := by
  cases U with
  | none => rfl
  | some s =>
    cases s with
    | nil => simp [encUser, q_quoter_nil, orNone]
    | cons c r => simp [encUser]

open NetShape in
/-- the cache-less record `build(authority=A)` returns, read lazily: the four authority components -/
theorem build_authority_net (e : Env) (a : BuildArgs) (v : Url) (h : build e a = .ok v)
    (henc : a.encoded = false) (hpy : PyStr a.authority) (np : NetlocParts) (h0 : Str)
    (hsp : splitNetloc e.o a.authority = .ok np) (hhost : np.host = some h0) (hk : HostTextOK h0)
    (hwrap : 58 ∉ h0 → 91 ∉ (rpartition 64 a.authority).2.2) :
    ∃ sc hs, lowerAny e a.scheme = .ok sc ∧ v.scheme = sc ∧ encodeHost e.o h0 false = .ok (bracket hs) ∧
      HostFix e.o hs ∧ (58 ∈ hs ↔ 58 ∈ h0) ∧
      net e v = .ok { rawHost := some hs, explicitPort := strPort sc np.port,
                      rawUser := (np.user.map (q e Gen.QUOTER)).bind orNone,
                      rawPassword := np.password.map (q e Gen.QUOTER) } := by
  obtain ⟨sc, hs, hsc, hsch, he, hfix, hiff, hpre, hnl⟩ :=
    build_authority_netloc e a v h henc np h0 hsp hhost hk hwrap
  refine ⟨sc, hs, hsc, hsch, he, hfix, hiff, ?_⟩
  obtain ⟨hu, _⟩ := WfLemmas.splitNetloc_pyStr e.o a.authority hpy np hsp
  obtain ⟨hne, h64, h91, h93⟩ := hfix.ok
  have hsplit := split_makeNetloc e.o id (encUser (q e Gen.QUOTER) np.user) (np.password.map (q e Gen.QUOTER))
    hs (strPort sc np.port)
    (by
      intro s hs'
      cases hus : np.user with
      | none => rw [hus] at hs'; cases hs'
      | some u =>
        rw [hus] at hs'
        simp only [encUser, Option.bind_some] at hs'
        split at hs'
        · cases hs'
        · cases hs'
          exact quoter_no_colon e.b u (hu u hus))
    h64 h91 h93
    (ReachFix.strPort_range sc np.port (fun p hp => splitNetloc_port_range e.o a.authority np p hsp hp))
  rw [← hnl, encUser_bind] at hsplit
  rw [net_of_split e v _ hpre hsplit]
  have : orNone hs = some hs := by
    cases hs with
    | nil => exact absurd rfl hne
    | cons _ _ => rfl
  simp only [this]


/-! ### QUOTER then UNQUOTER on ANY Python string: lone surrogates are dropped, nothing else changes -/

theorem stripSurr_idem (s : Str) : stripSurr (stripSurr s) = stripSurr s :=
  QsLemmas.stripSurr_id _ (QuoteEquiv.noSurr_stripSurr s)

theorem q_stripSurr (e : Env) (a : QArgs) (ha : a ∈ Gen.allQuoters) (s : Str) (hs : PyStr s) :
    q e a s = q e a (stripSurr s) := by
  show a.run e.b s = a.run e.b (stripSurr s)
  rw [QsLemmas.run_eq_cOut a ha e.b s hs,
    QsLemmas.run_eq_cOut a ha e.b (stripSurr s) (QuoteEquiv.pyStr_stripSurr hs), stripSurr_idem]

theorem uq_q_user (e : Env) (s : Str) (hs : PyStr s) :
    uq e Gen.UNQUOTER (q e Gen.QUOTER s) = stripSurr s := by
  rw [q_stripSurr e Gen.QUOTER (by decide) s hs]
  exact C06_readback_user e.b _ (QuoteEquiv.pyStr_stripSurr hs) (QuoteEquiv.noSurr_stripSurr s)

theorem q_user_nil_iff (e : Env) (s : Str) (hs : PyStr s) : q e Gen.QUOTER s = [] ↔ stripSurr s = [] := by
  rw [q_stripSurr e Gen.QUOTER (by decide) s hs]
  constructor
  · intro h
    apply Classical.byContradiction
    intro h0
    exact quoter_ne_nil Gen.QUOTER (by decide) (by decide) e.b _ (QuoteEquiv.pyStr_stripSurr hs)
      (QuoteEquiv.noSurr_stripSurr s) h0 h
  · intro h; rw [h]; exact q_quoter_nil e

theorem decoded_user (e : Env) (U : Option Str) (hU : ∀ s, U = some s → PyStr s) :
    ((U.map (q e Gen.QUOTER)).bind orNone).map (uq e Gen.UNQUOTER) = (U.map stripSurr).bind orNone := by
  cases U with
  | none => rfl
  | some s =>
    have hs := hU s rfl
    simp only [Option.map_some, Option.bind_some]
    by_cases h0 : stripSurr s = []
    · have := (q_user_nil_iff e s hs).2 h0
      simp [orNone, this, h0]
    · have h1 : q e Gen.QUOTER s ≠ [] := fun h => h0 ((q_user_nil_iff e s hs).1 h)
      have e1 : orNone (q e Gen.QUOTER s) = some (q e Gen.QUOTER s) := by
        simp [orNone, isEmpty_false_of_ne h1]
      have e2 : orNone (stripSurr s) = some (stripSurr s) := by
        simp [orNone, isEmpty_false_of_ne h0]
      rw [e1, e2, Option.map_some, uq_q_user e s hs]

theorem decoded_password (e : Env) (P : Option Str) (hP : ∀ s, P = some s → PyStr s) :
    (P.map (q e Gen.QUOTER)).map (uq e Gen.UNQUOTER) = P.map stripSurr := by
  cases P with
  | none => rfl
  | some s => simp only [Option.map_some, uq_q_user e s (hP s rfl)]

theorem splitNetloc_user_ne (o : Oracles) (n : Str) (np : NetlocParts) (h : splitNetloc o n = .ok np) :
    np.user ≠ some [] := by
  have key : ∀ U : Option Str, U.bind orNone ≠ some [] := by
    intro U hU
    cases U with
    | none => cases hU
    | some s =>
      simp only [Option.bind_some, orNone] at hU
      split at hU
      · cases hU
      · rename_i hne; cases hU; simp at hne
  rw [splitNetloc_eq] at h
  unfold finish at h
  simp only at h
  split at h
  · cases h; exact key _
  · cases hi : pyInt o (hostPort (userSplit n).2.2).2 with
    | error err => simp [hi, bind, Except.bind] at h
    | ok v =>
      cases v with
      | none => simp [hi, bind, Except.bind] at h
      | some i =>
        simp only [hi, bind, Except.bind] at h
        split at h
        · cases h; exact key _
        · cases h

theorem stripSurr_opt_id (U : Option Str) (hn : ∀ s, U = some s → NoSurrogate s) : U.map stripSurr = U := by
  cases U with
  | none => rfl
  | some s => simp [QsLemmas.stripSurr_id s (hn s rfl)]

theorem bind_orNone_id (U : Option Str) (h : U ≠ some []) : U.bind orNone = U := by
  cases U with
  | none => rfl
  | some s =>
    have : s ≠ [] := fun h0 => h (by rw [h0])
    simp [orNone, isEmpty_false_of_ne this]


/-! ## a STRING query: `parse_qsl(QUERY_QUOTER(s))` -/

section StrQuery
open QsLemmas PathLemmas Readback

theorem splitOn_append_notin (d : Nat) (a X p : Str) (ps : List Str) (ha : d ∉ a) (e : splitOn d X = p :: ps) :
    splitOn d (a ++ X) = (a ++ p) :: ps := by
  induction a with
  | nil => simpa using e
  | cons c a ih =>
    have hc : c ≠ d := fun h => ha (by simp [h])
    rw [List.cons_append, splitOn_cons_ne d c _ hc (ih (fun hm => ha (by simp [hm])))]
    rfl

theorem splitOn_flatMap (d : Nat) (f : Nat → Str) (hd : f d = [d]) (hf : ∀ c, c ≠ d → d ∉ f c) (s : Str) :
    splitOn d (s.flatMap f) = (splitOn d s).map (fun p => p.flatMap f) := by
  induction s with
  | nil => simp [splitOn]
  | cons c s ih =>
    by_cases hc : c = d
    · subst hc
      rw [List.flatMap_cons, hd]
      simp [splitOn, ih]
    · obtain ⟨p, ps, e⟩ := List.exists_cons_of_ne_nil (QsLemmas.splitOn_ne_nil d s)
      rw [List.flatMap_cons, splitOn_cons_ne d c s hc e]
      rw [e] at ih
      rw [splitOn_append_notin d (f c) _ _ _ (hf c hc) ih]
      simp

theorem partition_append_notin (d : Nat) (a X : Str) (ha : d ∉ a) :
    partition d (a ++ X) = (a ++ (partition d X).1, (partition d X).2.1, (partition d X).2.2) := by
  induction a with
  | nil => simp
  | cons c a ih =>
    have hc : c ≠ d := fun h => ha (by simp [h])
    rw [List.cons_append, partition]
    simp only [hc, if_false, ih (fun hm => ha (by simp [hm]))]
    rfl

theorem partition_flatMap (d : Nat) (f : Nat → Str) (hd : f d = [d]) (hf : ∀ c, c ≠ d → d ∉ f c) (s : Str) :
    partition d (s.flatMap f) =
      ((partition d s).1.flatMap f, (partition d s).2.1, (partition d s).2.2.flatMap f) := by
  induction s with
  | nil => simp [partition]
  | cons c s ih =>
    by_cases hc : c = d
    · subst hc
      rw [List.flatMap_cons, hd]
      simp [partition]
    · rw [List.flatMap_cons, partition_append_notin d (f c) _ (hf c hc), ih]
      simp [partition, hc]

theorem toHex_ne61 (v : Nat) : toHex v ≠ 61 := by unfold toHex; split <;> omega
theorem toHex_ne38 (v : Nat) : toHex v ≠ 38 := by unfold toHex; split <;> omega

/-- a character other than `d` (`d` = '&' or '=') never produces `d` -/
theorem cWriteOut_avoid2 (t : QTab) (c d : Nat) (hd : d = 38 ∨ d = 61) (hc : c ≠ d) : d ∉ cWriteOut t c := by
  unfold cWriteOut
  split
  · rcases hd with rfl | rfl <;> simp
  · split
    · simpa using fun h => hc h.symm
    · unfold writeUtf8
      intro h
      obtain ⟨b, _, hb⟩ := List.mem_flatMap.1 h
      simp only [pct, List.mem_cons, List.not_mem_nil, or_false] at hb
      have h1 := toHex_ne61 (b / 16)
      have h2 := toHex_ne61 (b % 16)
      have h3 := toHex_ne38 (b / 16)
      have h4 := toHex_ne38 (b % 16)
      rcases hd with rfl | rfl <;> omega

/-- one character of a query STRING through a `qs` quoter that keeps '+' literal, then `parse_qsl`'s
    '+' → ' ' and percent-decoding: the UTF-8 bytes of the character, of a SPACE for '+' -/
theorem utb_pts_cWriteOut_plus (q : QTab) (hq : q.WF) (hqs : q.qs = true) (hplus : q.safe 43 = true)
    (c : Nat) (hc : c ≤ 0x10FFFF) (r : Str) :
    unquoteToBytes (plusToSpace (cWriteOut q c) ++ r) = utf8 (if c = 43 then 32 else c) ++ unquoteToBytes r := by
  unfold cWriteOut
  by_cases h1 : q.qs = true ∧ c = 32
  · obtain ⟨_, rfl⟩ := h1
    simp only [hqs, and_self, if_true]
    show unquoteToBytes (32 :: r) = _
    rw [utb_plain 32 r (by decide)]
    rfl
  · simp only [h1, if_false]
    by_cases h2 : c < 128 ∧ q.safe c = true
    · have h37 : c ≠ 37 := OutLangLemmas.safe_ne37 hq h2.2
      simp only [h2, and_self, if_true]
      by_cases h43 : c = 43
      · subst h43
        show unquoteToBytes (32 :: r) = _
        rw [utb_plain 32 r (by decide)]
        rfl
      · have : plusToSpace [c] = [c] := by simp [plusToSpace, h43]
        rw [this, List.singleton_append, utb_plain c r h37, if_neg h43, utf8_1 c h2.1]
        rfl
    · simp only [h2, if_false]
      have h43 : c ≠ 43 := by
        rintro rfl
        exact h2 ⟨by decide, hplus⟩
      rw [writeUtf8, pts_flatMap_pct, utb_flatMap_pct _ (utf8_byte_lt c hc), if_neg h43]

theorem utf8s_plusToSpace_cons (c : Nat) (s : Str) :
    utf8s (plusToSpace (c :: s)) = utf8 (if c = 43 then 32 else c) ++ utf8s (plusToSpace s) := by
  simp [plusToSpace, QuoteEquiv.utf8s_cons]

theorem unquoteToBytes_plus_cOut_plus (q : QTab) (hq : q.WF) (hnr : q.requote = false)
    (hqs : q.qs = true) (hplus : q.safe 43 = true) (t : Str) (ht : PyStr t) :
    unquoteToBytes (plusToSpace (cOut q t)) = utf8s (plusToSpace t) := by
  induction t with
  | nil => rw [cOut]; exact utb_nil
  | cons c rest ih =>
    rw [cOut_nr_cons q hnr, pts_append, utb_pts_cWriteOut_plus q hq hqs hplus c (ht c (by simp)),
      ih (QuoteEquiv.pyStr_tail ht), utf8s_plusToSpace_cons]

/-- stdlib `unquote` on an ASCII string whose percent-decoding is the UTF-8 encoding of `t` -/
theorem stdUnquote_of_bytes (s t : Str) (hascii : ∀ c ∈ s, c < 128) (hbytes : unquoteToBytes s = utf8s t)
    (ht : PyStr t) (hn : NoSurrogate t) : stdUnquote s = t := by
  have hdec := decodeReplace_utf8s t ht hn
  unfold stdUnquote
  by_cases hm : mem 37 s = true
  · simp only [hm, Bool.not_true, Bool.false_eq_true, if_false]
    cases s with
    | nil => simp [mem] at hm
    | cons c r =>
      have hc : c < 128 := hascii c (by simp)
      have htw : (c :: r).takeWhile (· < 128) = c :: r :=
        takeWhile_all _ _ (fun x hx => by simpa using hascii x hx)
      have hdw : (c :: r).dropWhile (· < 128) = [] :=
        dropWhile_all _ _ (fun x hx => by simpa using hascii x hx)
      simp only [List.length_cons, stdUnquoteAux, hc, if_true]
      rw [htw, hdw, hbytes, hdec]
      cases (r.length + 1) <;> simp [stdUnquoteAux]
  · have hm' : 37 ∉ s := by
      intro h; exact hm (GenTabs.mem_iff.mpr h)
    have hm'' : mem 37 s = false := by simpa using hm
    simp only [hm'', Bool.not_false, if_true]
    have h1 : unquoteToBytes s = s := utb_no_pct s hm'
    have h2 : decodeReplace s = s := dr_ascii s hascii _ (Nat.lt_succ_self _)
    rw [← h2, ← h1, hbytes, hdec]

theorem good_plusToSpace {t : Str} (ht : PyStr t) (hn : NoSurrogate t) :
    PyStr (plusToSpace t) ∧ NoSurrogate (plusToSpace t) := by
  constructor
  · intro c hc
    simp only [plusToSpace, List.mem_map] at hc
    obtain ⟨a, ha, rfl⟩ := hc
    have := ht a ha
    split <;> omega
  · intro c hc
    simp only [plusToSpace, List.mem_map] at hc
    obtain ⟨a, ha, rfl⟩ := hc
    split
    · decide
    · exact hn a ha

theorem stdUnquote_plus_cOut_plus (q : QTab) (hq : q.WF) (hnr : q.requote = false)
    (hqs : q.qs = true) (hplus : q.safe 43 = true) (t : Str) (ht : PyStr t) (hn : NoSurrogate t) :
    stdUnquote (plusToSpace (cOut q t)) = plusToSpace t :=
  stdUnquote_of_bytes _ _ (pts_ascii _ (outLang_ascii q hq (cOut_outLang q hq t ht)))
    (unquoteToBytes_plus_cOut_plus q hq hnr hqs hplus t ht) (good_plusToSpace ht hn).1 (good_plusToSpace ht hn).2


theorem flatMap_eq_nil_iff_good (t : QTab) (p : Str) (hp : PyStr p) (hn : NoSurrogate p) :
    p.flatMap (cWriteOut t) = [] ↔ p = [] := by
  constructor
  · intro h
    cases p with
    | nil => rfl
    | cons c r =>
      rw [List.flatMap_cons] at h
      exact absurd (List.append_eq_nil_iff.1 h).1
        (PathAlg.cWriteOut_ne_nil t c (hp c (by simp)) (hn c (by simp)))
  · rintro rfl; rfl

theorem filterMap_ite_map {α β : Type} (P : α → Prop) [DecidablePred P] (g : α → β) (l : List α) :
    l.filterMap (fun x => if P x then none else some (g x)) = (l.filter (fun x => ¬ P x)).map g := by
  induction l with
  | nil => rfl
  | cons a l ih =>
    by_cases h : P a
    · simp [List.filterMap_cons, h, ih]
    · simp [List.filterMap_cons, h, ih]

theorem filterMap_congr' {α β : Type} (f g : α → Option β) (l : List α) (h : ∀ x ∈ l, f x = g x) :
    l.filterMap f = l.filterMap g := by
  induction l with
  | nil => rfl
  | cons a l ih =>
    rw [List.filterMap_cons, List.filterMap_cons, h a (by simp), ih (fun x hx => h x (by simp [hx]))]

/-- the piece function of `parse_qsl` on a quoted piece of a query STRING -/
theorem qslPiece_quoted (t : QTab) (hq : t.WF) (hnr : t.requote = false) (hqs : t.qs = true)
    (hplus : t.safe 43 = true) (h61 : t.safe 61 = true) (p : Str) (hp : PyStr p) (hn : NoSurrogate p) :
    qslPiece (p.flatMap (cWriteOut t)) =
      if p = [] then none else some (plusToSpace (partition 61 p).1, plusToSpace (partition 61 p).2.2) := by
  have hf61 : cWriteOut t 61 = [61] := by
    unfold cWriteOut
    simp [h61]
  have hpart := partition_flatMap 61 (cWriteOut t) hf61 (fun c hc => cWriteOut_avoid2 t c 61 (Or.inr rfl) hc) p
  have hj := StrTotal.partition_join 61 p
  have hsub1 : ∀ c ∈ (partition 61 p).1, c ∈ p := fun c hc => by rw [hj]; simp [hc]
  have hsub2 : ∀ c ∈ (partition 61 p).2.2, c ∈ p := by
    intro c hc
    cases hf : (partition 61 p).2.1 with
    | false => rw [NetShape.partition_nosep_rest hf] at hc; cases hc
    | true => rw [hj, hf]; simp [hc]
  have hrb : ∀ x : Str, (∀ c ∈ x, c ∈ p) → stdUnquote (plusToSpace (x.flatMap (cWriteOut t))) = plusToSpace x := by
    intro x hx
    rw [← PathAlg.cOut_flatMap t hnr]
    exact stdUnquote_plus_cOut_plus t hq hnr hqs hplus x (fun c hc => hp c (hx c hc)) (fun c hc => hn c (hx c hc))
  unfold qslPiece
  by_cases h0 : p = []
  · subst h0; rfl
  · have hne : (p.flatMap (cWriteOut t)).isEmpty = false :=
      isEmpty_false_of_ne (fun h => h0 ((flatMap_eq_nil_iff_good t p hp hn).1 h))
    simp only [hne, Bool.false_eq_true, if_false, if_neg h0, splitFirstEq, hpart]
    congr 2
    · exact hrb _ hsub1
    · cases hf : (partition 61 p).2.1 with
      | false =>
        have h2 : (partition 61 p).2.2 = [] := NetShape.partition_nosep_rest hf
        simp only [Bool.false_eq_true, if_false, Option.getD_none, h2]
        rfl
      | true =>
        simp only [if_true, Option.getD_some]
        exact hrb _ hsub2

/-- `parse_qsl(QUERY_QUOTER(s))`: the pieces of `s` between '&' (empty ones dropped), each cut at its first '=',
    '+' read as a space — and NOTHING else decoded: '%' in `s` is a literal character -/
theorem parseQsl_query_quoter (b : Backend) (s : Str) (hs : PyStr s) (hn : NoSurrogate s) :
    parseQsl (Gen.QUERY_QUOTER.run b s) =
      ((splitOn 38 s).filter (fun p => ¬ p = [])).map
        (fun p => (plusToSpace (partition 61 p).1, plusToSpace (partition 61 p).2.2)) := by
  have hmem : Gen.QUERY_QUOTER ∈ Gen.allQuoters := by decide
  have hwf := gen_tab_wf Gen.QUERY_QUOTER hmem b
  have hnr : (Gen.QUERY_QUOTER.tab b).requote = false := by cases b <;> rfl
  have hqs : (Gen.QUERY_QUOTER.tab b).qs = true := by cases b <;> rfl
  have hplus : (Gen.QUERY_QUOTER.tab b).safe 43 = true := by cases b <;> decide
  have h61 : (Gen.QUERY_QUOTER.tab b).safe 61 = true := by cases b <;> decide
  have h38 : (Gen.QUERY_QUOTER.tab b).safe 38 = true := by cases b <;> decide
  rw [QsLemmas.run_eq_cOut _ hmem b s hs, QsLemmas.stripSurr_id s hn, PathAlg.cOut_flatMap _ hnr, parseQsl_eq]
  by_cases h0 : s = []
  · subst h0; rfl
  · have hne : (s.flatMap (cWriteOut (Gen.QUERY_QUOTER.tab b))).isEmpty = false :=
      isEmpty_false_of_ne (fun h => h0 ((flatMap_eq_nil_iff_good _ s hs hn).1 h))
    have hf38 : cWriteOut (Gen.QUERY_QUOTER.tab b) 38 = [38] := by
      unfold cWriteOut
      simp [h38]
    simp only [hne, Bool.false_eq_true, if_false]
    rw [splitOn_flatMap 38 _ hf38 (fun c hc => cWriteOut_avoid2 _ c 38 (Or.inl rfl) hc), List.filterMap_map,
      ← filterMap_ite_map]
    apply filterMap_congr'
    intro p hp
    have hsub := QueryUrl.splitOn_mem 38 s p hp
    exact qslPiece_quoted _ hwf hnr hqs hplus h61 p (fun c hc => hs c (hsub c hc)) (fun c hc => hn c (hsub c hc))

end StrQuery


/-! ## joinpath with several arguments = joinpath with ONE argument (the arguments joined) -/

section Join
open PathLemmas PathAlg PathMore

/-- the quoted argument segments are the quoted verbatim argument segments -/
theorem argSegs_false_map (e : Env) : ∀ ps : List Str, (∀ p ∈ ps, PyStr p ∧ NoSurrogate p) →
    argSegs e false ps = (argSegs e true ps).map (q e Gen.PATH_QUOTER) := by
  intro ps
  induction ps with
  | nil => intro _; rfl
  | cons a ps ih =>
    intro h
    have ha := h a (by simp)
    have hseg1 : ∀ x ∈ splitOn 47 a, PyStr x := fun x hx => pyStr_seg ha.1 hx
    have hseg2 : ∀ x ∈ splitOn 47 a, NoSurrogate x := fun x hx => noSurr_seg ha.2 hx
    cases ps with
    | nil =>
      simp only [argSegs, argText, Bool.false_eq_true, if_false, if_true]
      rw [splitOn_q e a ha.1]
    | cons b r =>
      rw [argSegs, argSegs, List.map_append, ih (fun p hp => h p (List.mem_cons_of_mem _ hp))]
      congr 1
      simp only [argText, Bool.false_eq_true, if_false, if_true]
      rw [splitOn_q e a ha.1, stripTrail_map_q e _ hseg1 hseg2]

theorem joinC_head (X : List Str) (hX : Segs X) (h : X.head? ≠ some [] ∨ X = [[]]) :
    (joinC 47 X).head? ≠ some 47 := by
  rcases h with h | h
  · cases X with
    | nil => simp [joinC, joinSep]
    | cons x xs =>
      have hx : x ≠ [] := by simpa using h
      obtain ⟨c, r, rfl⟩ := List.exists_cons_of_ne_nil hx
      have hc : c ≠ 47 := fun hc => hX (c :: r) (by simp) (by simp [hc])
      rw [joinC_cons]
      simpa using hc
  · rw [h]; simp [joinC, joinSep]

/-- the text `a₁/…/aₙ` that `joinpath(a₁, …, aₙ)` appends: the arguments joined by '/', a trailing '/' of a non-last
    argument not doubled -/
def joinedArgs (e : Env) (ps : List Str) : Str := joinC 47 (argSegs e true ps)

theorem joinedArgs_split (e : Env) (ps : List Str) (hne : ps ≠ []) :
    splitOn 47 (joinedArgs e ps) = argSegs e true ps :=
  QsLemmas.splitOn_joinC 47 _ (argSegs_ne_nil e true ps hne) (segs_argSegs e true ps)

theorem joinedArgs_mem (e : Env) (ps : List Str) (c : Nat) (hc : c ∈ joinedArgs e ps) :
    c = 47 ∨ ∃ p ∈ ps, c ∈ p := by
  rcases HostLemmas.mem_joinC hc with h | ⟨x, hx, hcx⟩
  · exact Or.inl h
  · obtain ⟨p, hp, hxp⟩ := mem_argSegs e true ps x hx
    exact Or.inr ⟨p, hp, splitOn_sub 47 _ x hxp c hcx⟩

theorem joinedArgs_good (e : Env) (ps : List Str) (hps : ∀ p ∈ ps, PyStr p ∧ NoSurrogate p) :
    PyStr (joinedArgs e ps) ∧ NoSurrogate (joinedArgs e ps) := by
  constructor
  · intro c hc
    rcases joinedArgs_mem e ps c hc with rfl | ⟨p, hp, hcp⟩
    · decide
    · exact (hps p hp).1 c hcp
  · intro c hc
    rcases joinedArgs_mem e ps c hc with rfl | ⟨p, hp, hcp⟩
    · decide
    · exact (hps p hp).2 c hcp

/-- `u.joinpath(a₁, …, aₙ)` IS `u.joinpath("a₁/…/aₙ")` (= `u / "a₁/…/aₙ"`), when nothing is normalised -/
theorem makeChild_joined (e : Env) (u : Url) (ps : List Str) (v : Url) (hne : ps ≠ [])
    (hps : ∀ p ∈ ps, PyStr p ∧ NoSurrogate p)
    (hnd : u.netloc ≠ [] → NoDots (splitOn 47 u.path) ∧ ∀ p ∈ ps, NoDots (splitOn 47 p))
    (hq : u.netloc ≠ [] → u.path = [] → ∃ p ∈ ps, p ≠ [])
    (hpath : u.netloc ≠ [] → (u.path = [] ∨ u.path.head? = some 47))
    (h : makeChild e u ps false = .ok v) :
    makeChild e u [joinedArgs e ps] false = .ok v ∧
    (u.netloc ≠ [] → NoDots (splitOn 47 (joinedArgs e ps))) ∧
    (u.netloc ≠ [] → u.path = [] → joinedArgs e ps ≠ []) := by
  have hh := heads_of_ok e u ps false v h
  have hT : ∀ p ∈ ps, (argText e false p).head? ≠ some 47 :=
    fun p hp => q_path_head e p (hps p hp).1 (hps p hp).2 (hh p hp)
  have hTt : ∀ p ∈ ps, (argText e true p).head? ≠ some 47 := fun p hp => hh p hp
  obtain ⟨hv, _⟩ := C13_joinpath_parts e u ps false v hne hT
    (by
      intro hn
      refine ⟨(hnd hn).1, fun p hp => ?_⟩
      exact noDots_q e p (hps p hp).1 (hps p hp).2 ((hnd hn).2 p hp))
    (by
      intro hn hp hc
      obtain ⟨p, hpm, hp0⟩ := hq hn hp
      have hqp : argText e false p ≠ [] := C13_path_quoter_nonempty e p (hps p hpm).1 (hps p hpm).2 hp0
      obtain ⟨x, hx, hx0⟩ := argSegs_nonempty_mem e false ps ⟨p, hpm, hT p hpm, hqp⟩
      rw [hc] at hx
      simp at hx
      exact hx0 hx)
    hpath h
  obtain ⟨hJp, hJn⟩ := joinedArgs_good e ps hps
  have hsplit := joinedArgs_split e ps hne
  have hJhead : (joinedArgs e ps).head? ≠ some 47 :=
    joinC_head _ (segs_argSegs e true ps) (argSegs_head e true ps hne hTt)
  have hJnd : u.netloc ≠ [] → NoDots (splitOn 47 (joinedArgs e ps)) := by
    intro hn x hx
    rw [hsplit] at hx
    obtain ⟨p, hp, hxp⟩ := mem_argSegs e true ps x hx
    exact (hnd hn).2 p hp x hxp
  have hJne : u.netloc ≠ [] → u.path = [] → joinedArgs e ps ≠ [] := by
    intro hn hp hJ
    obtain ⟨p, hpm, hp0⟩ := hq hn hp
    obtain ⟨x, hx, hx0⟩ := argSegs_nonempty_mem e true ps ⟨p, hpm, hTt p hpm, hp0⟩
    have := PathMore.joinC_eq_nil (argSegs_ne_nil e true ps hne) (segs_argSegs e true ps) hJ
    rw [this] at hx
    simp at hx
    exact hx0 hx
  refine ⟨?_, hJnd, hJne⟩
  obtain ⟨v', hv'⟩ : ∃ v', makeChild e u [joinedArgs e ps] false = .ok v' :=
    ⟨_, makeChild_single e u _ false hJhead⟩
  obtain ⟨hv'', _⟩ := C13_child_slash e u (joinedArgs e ps) v' hJp hJn
    (fun hn => ⟨(hnd hn).1, hJnd hn⟩) hJne hpath hv'
  rw [hv', hv'', hsplit, ← argSegs_false_map e ps hps, ← hv]

end Join

end R2
end Yarl
