/-
  JoinLemmas.lean — helper lemmas for C14 (`join` is RFC 3986 §5.2 reference resolution):
  "the base path up to and including its last '/'" computed by split / dropLast / join
  (the code) and by reverse / dropWhile / reverse (the RFC spec) agree.
-/
import YarlModel
import YarlProofs.C15
namespace Yarl.JoinLemmas
open Yarl Yarl.PathLemmas

theorem joinC_snoc (a : List Str) (h : a ≠ []) (l : Str) :
    joinC 47 (a ++ [l]) = joinC 47 a ++ 47 :: l := by
  cases a with
  | nil => exact absurd rfl h
  | cons s r => simp [joinC_cons, flatF_append]

theorem dropWhile_rev_none (l : Str) (h : 47 ∉ l) : l.reverse.dropWhile (· ≠ 47) = [] := by
  have := dropWhile_seg l.reverse [] (by simpa using h) (Or.inl rfl)
  simpa using this

theorem upToLastSlash (X l : Str) (h : 47 ∉ l) :
    ((X ++ 47 :: l).reverse.dropWhile (· ≠ 47)).reverse = X ++ [47] := by
  have e : (X ++ 47 :: l).reverse = l.reverse ++ 47 :: X.reverse := by simp
  rw [e, dropWhile_seg l.reverse (47 :: X.reverse) (by simpa using h) (Or.inr ⟨_, rfl⟩)]
  simp

/-- the code's "all raw parts but the last, then an empty part, joined" is the RFC's
    "base path up to and including the right-most '/'" -/
theorem joinC_dropLast (s : Str) :
    joinC 47 ((splitOn 47 s).dropLast ++ [[]]) = (s.reverse.dropWhile (· ≠ 47)).reverse := by
  have hs : joinC 47 (splitOn 47 s) = s := joinC_splitOn s
  have hns := splitOn_no_sep 47 s
  have hne := splitOn_ne_nil 47 s
  generalize splitOn 47 s = xs at hs hns hne
  rcases List.eq_nil_or_concat xs with h | ⟨init, last, rfl⟩
  · exact absurd h hne
  · have hl : 47 ∉ last := hns last (by simp)
    simp only [List.concat_eq_append, List.dropLast_concat] at hs ⊢
    by_cases hi : init = []
    · subst hi
      simp only [List.nil_append] at hs ⊢
      have : last = s := by simpa [joinC, joinSep] using hs
      subst this
      rw [dropWhile_rev_none _ hl]
      simp [joinC, joinSep]
    · rw [joinC_snoc _ hi] at hs ⊢
      rw [← hs, upToLastSlash _ _ hl]

/-- rooted base path: the raw parts start with "/" (not ""), and the code drops one leading '/' -/
theorem merged_rooted (rest rp : Str) :
    (joinC 47 (([47] :: splitOn 47 rest).dropLast ++ [[]]) ++ rp).drop 1
      = ((47 :: rest).reverse.dropWhile (· ≠ 47)).reverse ++ rp := by
  rw [← joinC_dropLast (47 :: rest)]
  have hne := splitOn_ne_nil 47 rest
  simp only [splitOn, ↓reduceIte]
  generalize splitOn 47 rest = xs at hne
  cases xs with
  | nil => exact absurd rfl hne
  | cons x r => simp [List.dropLast, joinC_cons]

theorem rds_no_dot (p : Str) (h : 46 ∉ 47 :: p) :
    Rfc.removeDotSegments (47 :: p) = 47 :: p := by
  rw [← C15_rfc, C15_dot_guard_sound _ h]

/-! ### paths without any '.' : the RFC loop only ever applies rule E (for ARBITRARY paths,
    rooted or not) -/

theorem firstSegment_append (inp : Str) :
    (Rfc.firstSegment inp).1 ++ (Rfc.firstSegment inp).2 = inp := by
  unfold Rfc.firstSegment
  split <;> simp [List.takeWhile_append_dropWhile]

theorem firstSegment_length (x : Nat) (xs : Str) :
    (Rfc.firstSegment (x :: xs)).2.length ≤ xs.length := by
  unfold Rfc.firstSegment
  split
  · rename_i rest h
    obtain ⟨_, rfl⟩ := List.cons.inj h
    exact (List.dropWhile_sublist _).length_le
  · by_cases hx : x = 47
    · subst hx
      rename_i h
      exact absurd rfl (h xs)
    · simp only [List.dropWhile_cons, ne_eq, hx, not_false_eq_true, decide_true, ↓reduceIte]
      exact (List.dropWhile_sublist _).length_le

/-- rule E fires on an input without '.' -/
theorem rdsLoop_E_nodot (fuel x : Nat) (xs out : Str) (hx : x ≠ 46) (hxs : 46 ∉ xs) :
    Rfc.rdsLoop (fuel + 1) (x :: xs) out
      = Rfc.rdsLoop fuel (Rfc.firstSegment (x :: xs)).2 (out ++ (Rfc.firstSegment (x :: xs)).1) := by
  rw [Rfc.rdsLoop]
  · simp
  · intro r h; exact hx (List.cons.inj h).1
  · intro r h; exact hx (List.cons.inj h).1
  · intro r h; exact hxs (by rw [(List.cons.inj h).2]; simp)
  · intro h; exact hxs (by rw [(List.cons.inj h).2]; simp)
  · intro r h; exact hxs (by rw [(List.cons.inj h).2]; simp)
  · intro h; exact hxs (by rw [(List.cons.inj h).2]; simp)
  · intro h; exact hx (List.cons.inj h).1
  · intro h; exact hx (List.cons.inj h).1

theorem rdsLoop_nodot (fuel : Nat) : ∀ (inp out : Str), 46 ∉ inp → inp.length < fuel →
    Rfc.rdsLoop fuel inp out = out ++ inp := by
  induction fuel with
  | zero => intro inp out _ h; omega
  | succ fuel ih =>
    intro inp out hd hl
    cases inp with
    | nil => simp [Rfc.rdsLoop]
    | cons x xs =>
      have hx : x ≠ 46 := fun h => hd (h ▸ List.mem_cons_self)
      have hxs : 46 ∉ xs := fun h => hd (List.mem_cons_of_mem _ h)
      rw [rdsLoop_E_nodot fuel x xs out hx hxs]
      have happ := firstSegment_append (x :: xs)
      have hlen := firstSegment_length x xs
      rw [ih _ _ _ (by simp only [List.length_cons] at hl; omega), List.append_assoc, happ]
      intro hm
      exact hd (by rw [← happ]; exact List.mem_append_right _ hm)

/-- RFC 3986 §5.2.4 leaves ANY path without a '.' (rooted or rootless) unchanged -/
theorem rds_no_dot_any (p : Str) (h : 46 ∉ p) : Rfc.removeDotSegments p = p := by
  unfold Rfc.removeDotSegments
  rw [rdsLoop_nodot _ p [] h (by omega)]
  rfl

/-- the code's guard on a path without '.' -/
theorem guard_nodot (p : Str) (h : 46 ∉ p) :
    (if mem 46 p then normalizePath p else p) = Rfc.removeDotSegments p := by
  rw [rds_no_dot_any p h, if_neg]
  simpa [mem] using h

/-- the guarded normalisation of the code is RFC dot-segment removal on rooted paths -/
theorem guard_rds (p : Str) :
    (if mem 46 (47 :: p) then normalizePath (47 :: p) else 47 :: p) = Rfc.removeDotSegments (47 :: p) := by
  split
  · exact C15_rfc p
  · rename_i h
    rw [rds_no_dot]
    simpa [mem] using h

end Yarl.JoinLemmas
