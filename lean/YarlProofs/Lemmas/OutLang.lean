/-
  OutLang.lean — the output language of both quoter backends: everything the
  compiled core `cOut` and the pure-Python byte loop `pyLoop` write is in
  `OutLang t`, and `OutLang t` strings are ASCII, well escaped and made of
  allowed characters only.
-/
import YarlProofs.Defs
set_option linter.unusedVariables false
namespace Yarl

namespace OutLangLemmas

/-! ### hex digits -/

theorem toHex_upper {x : Nat} (h : x < 16) : isUpperHexDigit (toHex x) = true := by
  unfold isUpperHexDigit toHex
  split <;> simp <;> omega

theorem toHex_lt128 {x : Nat} (h : x < 16) : toHex x < 128 := by
  unfold toHex
  split <;> omega

theorem upperHex_lt128 {c : Nat} (h : isUpperHexDigit c = true) : c < 128 := by
  unfold isUpperHexDigit at h
  simp at h
  omega

theorem fromHex_lt {c v : Nat} (h : fromHex c = some v) : v < 16 := by
  unfold fromHex at h
  split at h
  · simp at h; omega
  · split at h
    · simp at h; omega
    · split at h
      · simp at h; omega
      · simp at h

theorem restoreCh_lt {d1 d2 v : Nat} (h : restoreCh d1 d2 = some v) : v < 256 := by
  unfold restoreCh at h
  split at h
  · rename_i a b ha hb
    have := fromHex_lt ha
    have := fromHex_lt hb
    simp at h
    omega
  · simp at h

theorem hexValUpper_lt {c v : Nat} (h : hexValUpper c = some v) : v < 16 := by
  unfold hexValUpper at h
  split at h
  · simp at h; omega
  · split at h
    · simp at h; omega
    · simp at h

theorem restorePy_lt {d1 d2 v : Nat} (h : restorePy d1 d2 = some v) : v < 256 := by
  unfold restorePy at h
  simp only at h
  split at h
  · split at h
    · rename_i a b ha hb
      have := hexValUpper_lt ha
      have := hexValUpper_lt hb
      simp at h
      omega
    · simp at h
  · simp at h

/-! ### UTF-8 bytes -/

theorem utf8_lt256 {c : Nat} (hc : c ≤ 0x10FFFF) : ∀ b ∈ utf8 c, b < 256 := by
  intro b hb
  unfold utf8 at hb
  split at hb
  · simp at hb; omega
  · split at hb
    · simp at hb; omega
    · split at hb
      · simp at hb
      · split at hb
        · simp at hb; omega
        · simp at hb; omega

/-! ### building blocks -/

theorem pct_outLang (t : QTab) {b : Nat} {r : Str} (hb : b < 256) (hr : OutLang t r) :
    OutLang t (pct b ++ r) := OutLang.esc b r hb hr

theorem flatMap_pct_outLang (t : QTab) (bs : List Nat) {r : Str} (hb : ∀ b ∈ bs, b < 256)
    (hr : OutLang t r) : OutLang t (bs.flatMap pct ++ r) := by
  induction bs with
  | nil => simpa using hr
  | cons b bs ih =>
    rw [List.flatMap_cons, List.append_assoc]
    exact OutLang.esc b _ (hb b (by simp)) (ih (fun x hx => hb x (by simp [hx])))

theorem safe_ne37 {t : QTab} (h : t.WF) {c : Nat} (hc : t.safe c = true) : c ≠ 37 := by
  intro e
  subst e
  rw [h.pct_unsafe] at hc
  exact Bool.noConfusion hc

theorem cWriteOut_outLang (t : QTab) (h : t.WF) {c : Nat} {r : Str} (hc : c ≤ 0x10FFFF)
    (hr : OutLang t r) : OutLang t (cWriteOut t c ++ r) := by
  unfold cWriteOut
  split
  · rename_i hq
    exact OutLang.plus r hq.1 hr
  · split
    · rename_i hs
      exact OutLang.lit c r hs.2 (safe_ne37 h hs.2) hr
    · exact flatMap_pct_outLang t _ (utf8_lt256 hc) hr

theorem cEscOut_outLang (t : QTab) (h : t.WF) {v : Nat} {r : Str} (hv : v < 256)
    (hr : OutLang t r) : OutLang t (cEscOut t v ++ r) := by
  unfold cEscOut
  split
  · exact OutLang.esc v r hv hr
  · split
    · rename_i hs
      exact OutLang.lit v r hs.2 (safe_ne37 h hs.2) hr
    · exact OutLang.esc v r hv hr

theorem emitEsc_outLang (t : QTab) (h : t.WF) {v : Nat} {r : Str} (hv : v < 256)
    (hr : OutLang t r) : OutLang t (emitEsc t v ++ r) := by
  unfold emitEsc
  split
  · exact OutLang.esc v r hv hr
  · split
    · rename_i hs
      exact OutLang.lit v r hs (safe_ne37 h hs) hr
    · exact OutLang.esc v r hv hr

/-! ### `WellEscaped` equations (the definition has overlapping patterns) -/

theorem wellEscaped_pct (a b : Nat) (r : Str) :
    WellEscaped (37 :: a :: b :: r) ↔
      (isUpperHexDigit a = true ∧ isUpperHexDigit b = true ∧ WellEscaped r) := by
  simp [WellEscaped]

theorem wellEscaped_cons_ne {c : Nat} (hc : c ≠ 37) (r : Str) :
    WellEscaped (c :: r) ↔ WellEscaped r := by
  rw [WellEscaped.eq_def]
  split
  · simp_all
  · simp_all
  · simp_all
  · simp_all
  · simp_all

end OutLangLemmas

open OutLangLemmas

/-- everything the compiled core writes is in the output language -/
theorem cOut_outLang (t : QTab) (h : t.WF) (s : Str) (hs : PyStr s) : OutLang t (cOut t s) := by
  fun_induction cOut t s with
  | case1 => exact OutLang.nil
  | case2 c rest hc v d1 d2 rest' hm ih =>
    have hrest : PyStr rest' := by
      intro x hx
      have := (takeEscape_eq hm).1
      exact hs x (by simp [this, hx])
    exact cEscOut_outLang t h (restoreCh_lt (takeEscape_eq hm).2) (ih hrest)
  | case3 c rest hc hm ih =>
    have hrest : PyStr rest := fun x hx => hs x (by simp [hx])
    exact cWriteOut_outLang t h (by decide) (ih hrest)
  | case4 c rest hc ih =>
    have hrest : PyStr rest := fun x hx => hs x (by simp [hx])
    exact cWriteOut_outLang t h (hs c (by simp)) (ih hrest)

/-- everything the pure-Python byte loop writes is in the output language -/
theorem pyLoop_outLang (t : QTab) (h : t.WF) (bs : List Nat) (hb : ∀ b ∈ bs, b < 256) :
    OutLang t (pyLoop t bs) := by
  fun_induction pyLoop t bs with
  | case1 => exact OutLang.nil
  | case2 b rest hc v d1 d2 rest' hm ih =>
    have hrest : ∀ x ∈ rest', x < 256 := by
      intro x hx
      have := (takeEscape_eq hm).1
      exact hb x (by simp [this, hx])
    exact emitEsc_outLang t h (restorePy_lt (takeEscape_eq hm).2) (ih hrest)
  | case3 b rest hc hm ih =>
    have hrest : ∀ x ∈ rest, x < 256 := fun x hx => hb x (by simp [hx])
    exact OutLang.esc 37 _ (by decide) (ih hrest)
  | case4 b rest hc hq ih =>
    have hrest : ∀ x ∈ rest, x < 256 := fun x hx => hb x (by simp [hx])
    exact OutLang.plus _ hq.1 (ih hrest)
  | case5 b rest hc hq hsafe ih =>
    have hrest : ∀ x ∈ rest, x < 256 := fun x hx => hb x (by simp [hx])
    exact OutLang.lit b _ hsafe (safe_ne37 h hsafe) (ih hrest)
  | case6 b rest hc hq hsafe ih =>
    have hrest : ∀ x ∈ rest, x < 256 := fun x hx => hb x (by simp [hx])
    exact OutLang.esc b _ (hb b (by simp)) (ih hrest)

theorem outLang_append (t : QTab) {a b : Str} : OutLang t a → OutLang t b → OutLang t (a ++ b) := by
  intro ha hb
  induction ha with
  | nil => simpa using hb
  | lit c r hs hc _ ih => exact OutLang.lit c _ hs hc ih
  | plus r hq _ ih => exact OutLang.plus _ hq ih
  | esc x r hx _ ih =>
    rw [List.append_assoc]
    exact OutLang.esc x _ hx ih

theorem outLang_ascii (t : QTab) (h : t.WF) {s : Str} : OutLang t s → ∀ c ∈ s, c < 128 := by
  intro hs
  induction hs with
  | nil => intro c hc; simp at hc
  | lit c r hsafe _ _ ih =>
    intro x hx
    rcases List.mem_cons.mp hx with rfl | hx
    · exact h.safe_ascii _ hsafe
    · exact ih x hx
  | plus r _ _ ih =>
    intro x hx
    rcases List.mem_cons.mp hx with rfl | hx
    · decide
    · exact ih x hx
  | esc b r hb _ ih =>
    intro x hx
    simp only [pct, List.cons_append, List.nil_append, List.mem_cons] at hx
    rcases hx with rfl | rfl | rfl | hx
    · decide
    · exact toHex_lt128 (by omega)
    · exact toHex_lt128 (by omega)
    · exact ih x hx

theorem outLang_wellEscaped (t : QTab) (h : t.WF) {s : Str} : OutLang t s → WellEscaped s := by
  intro hs
  induction hs with
  | nil => simp [WellEscaped]
  | lit c r _ hc _ ih => exact (wellEscaped_cons_ne hc r).mpr ih
  | plus r _ _ ih => exact (wellEscaped_cons_ne (by decide) r).mpr ih
  | esc b r hb _ ih =>
    simp only [pct, List.cons_append, List.nil_append]
    exact (wellEscaped_pct _ _ r).mpr ⟨toHex_upper (by omega), toHex_upper (by omega), ih⟩

theorem outLang_allowed (t : QTab) (h : t.WF) {s : Str} : OutLang t s →
    ∀ c ∈ s, t.safe c = true ∨ c = 37 ∨ isUpperHexDigit c = true ∨ (t.qs = true ∧ c = 43) := by
  intro hs
  induction hs with
  | nil => intro c hc; simp at hc
  | lit c r hsafe _ _ ih =>
    intro x hx
    rcases List.mem_cons.mp hx with rfl | hx
    · exact Or.inl hsafe
    · exact ih x hx
  | plus r hq _ ih =>
    intro x hx
    rcases List.mem_cons.mp hx with rfl | hx
    · exact Or.inr (Or.inr (Or.inr ⟨hq, rfl⟩))
    · exact ih x hx
  | esc b r hb _ ih =>
    intro x hx
    simp only [pct, List.cons_append, List.nil_append, List.mem_cons] at hx
    rcases hx with rfl | rfl | rfl | hx
    · exact Or.inr (Or.inl rfl)
    · exact Or.inr (Or.inr (Or.inl (toHex_upper (by omega))))
    · exact Or.inr (Or.inr (Or.inl (toHex_upper (by omega))))
    · exact ih x hx

theorem allSafe_outLang (t : QTab) (h : t.WF) (s : Str) : allSafe t s = true → OutLang t s := by
  intro hs
  induction s with
  | nil => exact OutLang.nil
  | cons c r ih =>
    simp only [allSafe, List.all_cons, Bool.and_eq_true, decide_eq_true_eq] at hs
    exact OutLang.lit c r hs.1.2 (safe_ne37 h hs.1.2) (ih (by simpa [allSafe] using hs.2))

end Yarl
