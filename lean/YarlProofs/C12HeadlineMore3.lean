import YarlProofs.C12Headline
import YarlProofs.C12Dyn
import YarlProofs.C12ReachE
/-!
  C12HeadlineMore3.lean — AUDIT LAYER for property C12, continuation of C12Headline.lean (the theorems here need
  C12ReachE.lean and C12Dyn.lean; this file is a leaf, nobody imports it).

  C12 | Query operations implement multi-dict algebra exactly |
  "with_query(q) yields exactly the pairs of q in order (a list/tuple value in a mapping expands to repeated keys; ints
  and floats are rendered by str()); extend_query appends q's pairs after the existing ones; update_query replaces all
  pairs whose key occurs in q and keeps every other pair in order; without_query_params removes exactly the named keys.
  None clears the query (with_query, update_query) or is a no-op (extend_query); bool, None values, NaN/inf and bytes
  are rejected with TypeError/ValueError; the argument is never mutated."

  What is here.
   * Part A (C12ReachE.lean) — GAPS 9 of C12Headline.lean: the C12 clauses over `ReachE`, the closure of ALL entry points
     of the model, `encoded=True` included (ReachE.lean).  `with_query` / `extend_query` need nothing of the URL;
     `update_query` / `without_query_params` need exactly one thing of the stored query: NO LONE SURROGATE
     (`NoSurrogate u.query`), which follows when no text handed over with `encoded=True` contained one, and which is
     NEEDED (`URL('?\ud800=1&b=2', encoded=True)` is in `ReachE`).
   * Part B (C12Dyn.lean) — the tail of GAPS 6 of C12Headline.lean: keys that are not `str`, values and whole arguments
     of the wrong type, in every container (dict, list / tuple of pairs, kwargs).  ALL OF PART B IS MODEL-LEVEL: the
     theorems are about `dynWithQuery` / `dynExtendQuery` / `dynUpdateQuery` of YarlModel/Dyn.lean, a hand TRANSCRIPTION
     of the `isinstance` / `type(x) is …` dispatch of `yarl/_query.py`, `URL.update_query` and (C implementation of)
     multidict 6.2 `MultiDict.update` over a small universe `PyObj` of Python objects.  That model is tied to CPython only
     by the run-time PROBE TABLE at the end of C12Dyn.lean (outcomes of the real library on a finite list of rows,
     re-checked by `decide`), not by proof.

  Vocabulary.
  `ReachE e u`            — `u` is obtainable through ANY entry point (both constructor modes, both `build` modes, the 18
                            operations with Python-string arguments, `with_path` / `joinpath` with `encoded=True`, `join`).
  `ReachEX A Z Sc e u`    — the same closure with the side condition `A` on every text handed over with `encoded=True`
                            (`Z`, `Sc`: conditions on auto-encoded host[:port] / scheme arguments, unused here).
  `NoSurrogate s`         — no code point of `s` is a lone surrogate U+D800..U+DFFF.
  `GoodText`, `GoodPairs`, `queryPairs`, `expandItems`, `SingleValued`, `mdUpdate`, `keysOf`, `strItems`, `slotErr`,
  `firstErr`, `flatVals`  — as in C12Headline.lean.
  `PyObj`                 — `.none .bool .int .float .str .strSub .bytes .tuple .list .dict .url .splitResult .other`
                            (YarlModel/Dyn.lean; `.strSub` = plain str subclass, `.other` = `object()`-like).
  `truthy o`              — `bool(o)`.   `strLike o` — `isinstance(o, str)` with the content.
  `toQVal` / `toQItem`    — the typed value / value slot an object denotes (a list / tuple / SplitResult is a slot of many).
  `keyStr k`              — the text of a KEY in with_query / extend_query: a str (subclass) is itself, `None` is "None",
                            anything else `none` (= TypeError).   `mkPair k v` — the typed pair of one `(k, v)`.
  `pairOf o` / `mdPair o` — one element of a pair sequence as with_query / extend_query (`for k, v in …`) resp.
                            `MultiDict.update` (update_query) see it.
  `Dyn.goodVal o`         — `o` is a str (subclass), int or finite float.   `Dyn.badVal o = some err` — `o` is a bool /
                            None / bytes / dict / URL / object (`err` TypeError) or a NaN / inf float (`err` ValueError).
  `Dyn.asDict kvs`, `Dyn.asPairs kvs`, `Dyn.asPairsT kvs` — the dict `{k: v, …}`, the list of 2-tuples, the tuple of 2-lists
                            with str keys made from the rows `kvs`; `dyn…Kw e u kvs` the keyword form `f(k=v, …)`.
-/
set_option linter.unusedVariables false
namespace Yarl
open StrAscii OutLangLemmas QsLemmas WfLemmas EntryLemmas R6 QueryUrl QsSpec MdLemmas QsMore Yarl.Dyn

/-! ## Part A — the clauses of C12 over `ReachE` (all entry points incl. `encoded=True`; GAPS 9) -/

/-- GAPS 9: what is needed of the URL.  Over `ReachE` the stored query is a Python string; if it contains no lone
    surrogate, the pairs read from it are good — this is the hypothesis `hold` of every update_query /
    without_query_params theorem of C12Headline.lean.  Cites C12_reachE_good_pairs. -/
theorem C12_headline_reachE_good_pairs (e : Env) (u : Url)
    (hr : ReachE e u)                     -- obtainable through any entry point
    (hq : NoSurrogate u.query) :          -- no lone surrogate in the stored query; needed: …_reachE_fails_for_surrogate
    GoodText u.query ∧ GoodPairs (queryPairs u) :=
  C12_reachE_good_pairs e u hr hq

/-- GAPS 9, INPUT side: if no text handed over with `encoded=True` contained a lone surrogate, the stored path, query and
    fragment contain none (the auto-encoding entry points store ASCII), hence `GoodPairs (queryPairs u)`: the
    hypothesis `hold` is discharged from the inputs.
    Cites C12_reachE_query_no_surrogate, C12_reachE_good_pairs_of_inputs. -/
theorem C12_headline_reachE_good_pairs_of_inputs (e : Env) (Z Sc : Str → Prop) (u : Url)
    (h : ReachEX NoSurrogate Z Sc e u) :  -- every `encoded=True` text on the way to `u` is free of lone surrogates
    (NoSurrogate u.path ∧ NoSurrogate u.query ∧ NoSurrogate u.fragment) ∧ GoodPairs (queryPairs u) :=
  ⟨C12_reachE_query_no_surrogate e Z Sc u h, C12_reachE_good_pairs_of_inputs e Z Sc u h⟩

/-- "with_query(q) yields exactly the pairs of q in order …; extend_query appends q's pairs after the existing ones" for
    every URL of `ReachE`, WHATEVER its stored query (indeed for every `Url`: `hr` is not used) — mapping and pair
    sequence.  Cites C12_reachE_with_and_extend_query. -/
theorem C12_headline_reachE_with_and_extend_query (e : Env) (u : Url) (hr : ReachE e u)
    (items : List (Str × QItem)) (ps : List (Str × Str))
    (hden : expandItems items = some ps)  -- the argument denotes the pairs `ps`
    (hg : GoodPairs ps) :                 -- no lone surrogate in the ARGUMENT (dropped by the quoter, C06)
    (∃ v, withQuery e u (.mapping items) = .ok v ∧ queryPairs v = ps) ∧
    (SingleValued items → ∃ v, withQuery e u (.pairs items) = .ok v ∧ queryPairs v = ps) ∧
    (ps ≠ [] → ∃ v, extendQuery e u (.mapping items) = .ok v ∧ queryPairs v = queryPairs u ++ ps) ∧
    (ps ≠ [] → SingleValued items → ∃ v, extendQuery e u (.pairs items) = .ok v ∧ queryPairs v = queryPairs u ++ ps) ∧
    (ps = [] → extendQuery e u (.mapping items) = .ok u) :=
  C12_reachE_with_and_extend_query e u hr items ps hden hg

/-- "without_query_params removes exactly the named keys" over `ReachE`.  Cites C12_reachE_without_query_params. -/
theorem C12_headline_reachE_without_query_params (e : Env) (u : Url)
    (hr : ReachE e u)                     -- obtainable through any entry point
    (hq : NoSurrogate u.query)            -- the kept pairs are re-rendered: a lone surrogate would be lost
    (names : List Str) :
    ∃ v, withoutQueryParams e u names = .ok v ∧
      queryPairs v = (queryPairs u).filter (fun p => !names.contains p.1) :=
  C12_reachE_without_query_params e u hr hq names

/-- `update_query(q)` is `MultiDict(url.query).update(q)` over `ReachE` (pair sequence, mapping with single values,
    string).  Cites C12_reachE_update_is_multidict_update. -/
theorem C12_headline_reachE_update_is_multidict_update (e : Env) (u : Url)
    (hr : ReachE e u) (hq : NoSurrogate u.query)   -- as above (the OLD pairs are re-rendered)
    (items : List (Str × QItem)) (ps : List (Str × Str)) (s : Str) :
    (SingleValued items → expandItems items = some ps → GoodPairs ps → ps ≠ [] →
      (∃ v, updateQuery e u (.pairs items) = .ok v ∧ queryPairs v = mdUpdate (queryPairs u) ps) ∧
      (∃ v, updateQuery e u (.mapping items) = .ok v ∧ queryPairs v = mdUpdate (queryPairs u) ps)) ∧
    (GoodText s → s ≠ [] →
      ∃ v, updateQuery e u (.str s) = .ok v ∧ queryPairs v = mdUpdate (queryPairs u) (parseQsl s)) :=
  C12_reachE_update_is_multidict_update e u hr hq items ps s

/-- "update_query … keeps every other pair in order" over `ReachE`.  Cites C12_reachE_update_keeps_others. -/
theorem C12_headline_reachE_update_keeps_others (e : Env) (u : Url)
    (hr : ReachE e u) (hq : NoSurrogate u.query)   -- as above
    (items : List (Str × QItem)) (ps : List (Str × Str)) (hs : SingleValued items)
    (hden : expandItems items = some ps) (hg : GoodPairs ps) (hne : ps ≠ []) :
    ∃ v, updateQuery e u (.pairs items) = .ok v ∧
      (queryPairs v).filter (fun p => !(keysOf ps).contains p.1) =
        (queryPairs u).filter (fun p => !(keysOf ps).contains p.1) :=
  C12_reachE_update_keeps_others e u hr hq items ps hs hden hg hne

/-- "update_query replaces all pairs whose key occurs in q" over `ReachE`: GUARDED form (F-C12-multidict-tail, see
    C12_headline_update_replaces) and the unguarded "new values first, then a sublist of the not overwritten old ones".
    Cites C12_reachE_update_replaces. -/
theorem C12_headline_reachE_update_replaces (e : Env) (u : Url)
    (hr : ReachE e u) (hq : NoSurrogate u.query)   -- as above
    (items : List (Str × QItem)) (ps : List (Str × Str)) (k : Str) (hs : SingleValued items)
    (hden : expandItems items = some ps) (hg : GoodPairs ps) (hk : k ∈ keysOf ps) :
    ((∀ k' ∈ keysOf ps, k' ≠ k →           -- excludes multidict's stale duplicate
        ((queryPairs u).filter (fun p => p.1 = k')).length ≤ (ps.filter (fun p => p.1 = k')).length) →
      ∃ v, updateQuery e u (.pairs items) = .ok v ∧
        ((queryPairs v).filter (fun p => p.1 = k)).map (·.2) = (ps.filter (fun p => p.1 = k)).map (·.2)) ∧
    (∃ v, updateQuery e u (.pairs items) = .ok v ∧
      ∃ S, ((queryPairs v).filter (fun p => p.1 = k)).map (·.2) = (ps.filter (fun p => p.1 = k)).map (·.2) ++ S ∧
        S.Sublist ((((queryPairs u).filter (fun p => p.1 = k)).map (·.2)).drop (ps.filter (fun p => p.1 = k)).length)) :=
  C12_reachE_update_replaces e u hr hq items ps k hs hden hg hk

/-- update_query with a MAPPING whose values may be lists / tuples, over `ReachE`: keeps the pairs of keys not in the
    mapping; replaces (guarded) / prefix (unguarded) for the keys of the mapping.  Cites C12_reachE_update_lists. -/
theorem C12_headline_reachE_update_lists (e : Env) (u : Url)
    (hr : ReachE e u) (hq : NoSurrogate u.query)   -- as above
    (items : List (Str × QItem)) (ps : List (Str × Str)) (hden : expandItems items = some ps) (hg : GoodPairs ps)
    (hne : items ≠ []) :                  -- an empty mapping is a no-op (different code path)
    (∃ v, updateQuery e u (.mapping items) = .ok v ∧
      (queryPairs v).filter (fun p => !(keysOf items).contains p.1) =
        (queryPairs u).filter (fun p => !(keysOf items).contains p.1)) ∧
    (∀ k ∈ keysOf items,
      (∀ k' ∈ keysOf items, k' ≠ k →      -- excludes multidict's stale duplicate
        ((queryPairs u).filter (fun p => p.1 = k')).length ≤ (items.filter (fun p => p.1 = k')).length) →
      ∃ v, updateQuery e u (.mapping items) = .ok v ∧
        (queryPairs v).filter (fun p => p.1 = k) = ps.filter (fun p => p.1 = k)) ∧
    (∀ k ∈ keysOf items, ∃ v, updateQuery e u (.mapping items) = .ok v ∧
      ps.filter (fun p => p.1 = k) <+: (queryPairs v).filter (fun p => p.1 = k)) :=
  C12_reachE_update_lists e u hr hq items ps hden hg hne

/-- the reading `queryPairs u` (stdlib `parse_qsl` of the stored text) meets its independent specification on every
    `ReachE` URL without lone surrogate in the query.  Cites C12_reachE_query_accessor_spec. -/
theorem C12_headline_reachE_query_accessor_spec (e : Env) (u : Url) (hr : ReachE e u) (hq : NoSurrogate u.query) :
    queryPairs u = queryPairsSpec u.query :=
  C12_reachE_query_accessor_spec e u hr hq

/-- the hypothesis `NoSurrogate u.query` is NEEDED: `URL('?\ud800=1&b=2', encoded=True)` (= `surrUrl`) IS in `ReachE`;
    `update_query([("c","3")])` on it reads back `[("", "1"), ("b","2"), ("c","3")]` instead of the multidict update
    `[("\ud800","1"), ("b","2"), ("c","3")]`, and `without_query_params("b")` reads back `[("", "1")]` instead of
    `[("\ud800","1")]` — "keeps every other pair" / "removes exactly the named keys" are FALSE there (C06 "lone
    surrogates excepted").  Cites C12_reachE_fails_for_surrogate. -/
theorem C12_headline_reachE_fails_for_surrogate (e : Env) :
    preEncodedUrl e [63, 0xD800, 61, 49, 38, 98, 61, 50] = .ok surrUrl ∧ ReachE e surrUrl ∧
    ¬ NoSurrogate surrUrl.query ∧ ¬ GoodPairs (queryPairs surrUrl) ∧
    (∃ v, updateQuery e surrUrl (.pairs [([99], .one (.str [51]))]) = .ok v ∧
      queryPairs v = [([], [49]), ([98], [50]), ([99], [51])] ∧
      mdUpdate (queryPairs surrUrl) [([99], [51])] = [([0xD800], [49]), ([98], [50]), ([99], [51])]) ∧
    (∃ v, withoutQueryParams e surrUrl [[98]] = .ok v ∧ queryPairs v = [([], [49])] ∧
      (queryPairs surrUrl).filter (fun p => ![[98]].contains p.1) = [([0xD800], [49])]) :=
  C12_reachE_fails_for_surrogate e

/-! ## Part B — "bool, None values, NaN/inf and bytes are rejected with TypeError/ValueError": arbitrary Python objects
    as VALUES, as the ARGUMENT and as KEYS — MODEL-LEVEL (YarlModel/Dyn.lean, tied to CPython by the probe table only) -/

/-- MODEL-LEVEL.  How `query_var` classifies an arbitrary object used as a VALUE: accepted are str, str subclasses, int
    ("rendered by str()": `intToStr`) and finite floats; NaN / ±inf → ValueError; bool, None, bytes, list, tuple, dict,
    URL, SplitResult, any other object → TypeError.  In a MAPPING a list / tuple / SplitResult value is first expanded
    into its elements ("a list/tuple value in a mapping expands to repeated keys").  Cites C12_dyn_value_gate. -/
theorem C12_headline_dyn_value_gate :
    (∀ s, queryVar (toQVal (.str s)) = .ok s) ∧ (∀ s, queryVar (toQVal (.strSub s)) = .ok s) ∧
    (∀ i, queryVar (toQVal (.int i)) = .ok (intToStr i)) ∧
    (∀ t, queryVar (toQVal (.float t 0)) = .ok t) ∧
    (∀ t k, k ≠ 0 → queryVar (toQVal (.float t k)) = .error .valueError) ∧
    (∀ b, queryVar (toQVal (.bool b)) = .error .typeError) ∧ queryVar (toQVal .none) = .error .typeError ∧
    (∀ b, queryVar (toQVal (.bytes b)) = .error .typeError) ∧ (∀ xs, queryVar (toQVal (.list xs)) = .error .typeError) ∧
    (∀ xs, queryVar (toQVal (.tuple xs)) = .error .typeError) ∧ (∀ d, queryVar (toQVal (.dict d)) = .error .typeError) ∧
    (∀ v, queryVar (toQVal (.url v)) = .error .typeError) ∧
    (∀ ps, queryVar (toQVal (.splitResult ps)) = .error .typeError) ∧
    (∀ t, queryVar (toQVal (.other t)) = .error .typeError) ∧
    (∀ xs, toQItem (.list xs) = .many (xs.map toQVal) ∧ toQItem (.tuple xs) = .many (xs.map toQVal)) ∧
    (∀ ps, toQItem (.splitResult ps) = .many (ps.map .str)) :=
  C12_dyn_value_gate

/-- MODEL-LEVEL.  Which objects are `Dyn.badVal` (with which error) and which are `Dyn.goodVal`.
    Cites C12_dyn_bad_value_kinds. -/
theorem C12_headline_dyn_bad_value_kinds :
    (∀ b, badVal (.bool b) = some .typeError) ∧ badVal .none = some .typeError ∧
    (∀ b, badVal (.bytes b) = some .typeError) ∧ (∀ d, badVal (.dict d) = some .typeError) ∧
    (∀ v, badVal (.url v) = some .typeError) ∧ (∀ t, badVal (.other t) = some .typeError) ∧
    (∀ t k, k ≠ 0 → badVal (.float t k) = some .valueError) ∧
    (∀ s, goodVal (.str s) = true) ∧ (∀ s, goodVal (.strSub s) = true) ∧ (∀ i, goodVal (.int i) = true) ∧
    (∀ t, goodVal (.float t 0) = true) :=
  C12_dyn_bad_value_kinds

/-- MODEL-LEVEL.  "bool, None values, NaN/inf … and bytes are rejected with TypeError/ValueError" for a bad VALUE in EVERY
    container — the dict `{…}`, the list of 2-tuples, the tuple of 2-lists and the keyword form: `with_query` and
    `extend_query` raise exactly the error of the first bad value (the entries before it being fine); `update_query`
    raises TypeError or ValueError — exactly that error when the entries after it are fine too (otherwise the error of
    one of the offenders: C12_headline_update_query_error_order).  Cites C12_dyn_rejects. -/
theorem C12_headline_dyn_rejects_values (e : Env) (u : Url) (pre post : List (Str × PyObj)) (k : Str) (bad : PyObj)
    (err : PyErr)
    (hpre : ∀ p ∈ pre, goodVal p.2 = true)   -- the values before it are str / int / finite float
    (hbad : badVal bad = some err) :         -- `bad` is a bool / None / bytes / dict / URL / object, or a NaN / inf float
    let kvs := pre ++ (k, bad) :: post
    (dynWithQuery e u (asDict kvs) = .error err ∧ dynExtendQuery e u (asDict kvs) = .error err ∧
     dynWithQuery e u (asPairs kvs) = .error err ∧ dynExtendQuery e u (asPairs kvs) = .error err ∧
     dynWithQuery e u (asPairsT kvs) = .error err ∧ dynExtendQuery e u (asPairsT kvs) = .error err ∧
     dynWithQueryKw e u kvs = .error err ∧ dynExtendQueryKw e u kvs = .error err) ∧
    (∀ c, c = asDict kvs ∨ c = asPairs kvs ∨ c = asPairsT kvs →
      ∃ err', dynUpdateQuery e u c = .error err' ∧ (err' = .typeError ∨ err' = .valueError)) ∧
    (∃ err', dynUpdateQueryKw e u kvs = .error err' ∧ (err' = .typeError ∨ err' = .valueError)) ∧
    ((∀ p ∈ post, goodVal p.2 = true) →      -- the values after it are fine too
      dynUpdateQuery e u (asDict kvs) = .error err ∧ dynUpdateQuery e u (asPairs kvs) = .error err ∧
      dynUpdateQuery e u (asPairsT kvs) = .error err ∧ dynUpdateQueryKw e u kvs = .error err) :=
  C12_dyn_rejects e u pre post k bad err hpre hbad

/-- MODEL-LEVEL.  A bad value INSIDE a list / tuple value of a mapping (`{"k": [1, True]}`, `k=[None]`, a nested list
    `{"k": [[1]]}`) is rejected with the kind of the first offending element; in a pair SEQUENCE a list / tuple value is
    itself a TypeError, whatever it contains (all three methods).  Cites C12_dyn_rejects_in_list_value. -/
theorem C12_headline_dyn_rejects_in_list_value (e : Env) (u : Url) (k : Str) (good : List PyObj) (bad : PyObj)
    (rest : List PyObj) (err : PyErr)
    (hgood : ∀ x ∈ good, ∃ s, queryVar (toQVal x) = .ok s)   -- the elements before it are accepted
    (hbad : queryVar (toQVal bad) = .error err) :            -- this one is rejected with `err`
    dynWithQuery e u (.dict [(.str k, .list (good ++ bad :: rest))]) = .error err ∧
    dynExtendQuery e u (.dict [(.str k, .tuple (good ++ bad :: rest))]) = .error err ∧
    dynWithQueryKw e u [(k, .list (good ++ bad :: rest))] = .error err ∧
    (∀ xs, dynWithQuery e u (.list [.tuple [.str k, .list xs]]) = .error .typeError ∧
           dynExtendQuery e u (.list [.tuple [.str k, .tuple xs]]) = .error .typeError ∧
           dynUpdateQuery e u (.list [.tuple [.str k, .list xs]]) = .error .typeError) :=
  C12_dyn_rejects_in_list_value e u k good bad rest err hgood hbad

/-- MODEL-LEVEL.  A non-query ARGUMENT — bytes, int, float, bool, URL, any other object: if it is TRUTHY all three methods
    raise TypeError; if it is FALSY (`b""`, `0`, `False`, `0.0`, `URL("")`) it is treated like `""` (`if not query:
    return ""`): `with_query` clears the query, `extend_query` and `update_query` keep it — NOT rejected.
    Cites C12_dyn_argument_gate. -/
theorem C12_headline_dyn_argument_gate (e : Env) (u : Url) (o : PyObj)
    (ho : (∃ b, o = .bytes b) ∨ (∃ i, o = .int i) ∨ (∃ t k, o = .float t k) ∨ (∃ b, o = .bool b) ∨ (∃ v, o = .url v) ∨
      (∃ t, o = .other t)) :                 -- the argument is none of None / str / Mapping / Sequence
    (truthy o = true → dynWithQuery e u o = .error .typeError ∧ dynExtendQuery e u o = .error .typeError ∧
      dynUpdateQuery e u o = .error .typeError) ∧
    (truthy o = false → dynWithQuery e u o = .ok (fromParts u.scheme u.netloc u.path [] u.fragment) ∧
      dynExtendQuery e u o = .ok u ∧
      dynUpdateQuery e u o = .ok (fromParts u.scheme u.netloc u.path u.query u.fragment)) :=
  C12_dyn_argument_gate e u o ho

/-- MODEL-LEVEL.  "… and bytes are rejected": a NON-EMPTY bytes argument, all three methods, TypeError.
    Cites C12_dyn_bytes_argument. -/
theorem C12_headline_dyn_bytes_argument (e : Env) (u : Url) (c : Nat) (b : List Nat) :
    dynWithQuery e u (.bytes (c :: b)) = .error .typeError ∧ dynExtendQuery e u (.bytes (c :: b)) = .error .typeError ∧
    dynUpdateQuery e u (.bytes (c :: b)) = .error .typeError :=
  C12_dyn_bytes_argument e u c b

/-- MODEL-LEVEL.  "non-empty" is needed — "bytes are rejected" is FALSE for the EMPTY bytes object: `with_query(b"")`
    clears the query, `extend_query(b"")` and `update_query(b"")` return the URL with its query — no error (the probe
    table of C12Dyn.lean has the rows `with_query(b"")`, `extend_query(b"")`, `update_query(b"")` → ok from the real
    library).
    Cites C12_dyn_argument_gate (instance `o = b""`). -/
theorem C12_headline_dyn_bytes_argument_fails_for_empty (e : Env) (u : Url) :
    dynWithQuery e u (.bytes []) = .ok (fromParts u.scheme u.netloc u.path [] u.fragment) ∧
    dynExtendQuery e u (.bytes []) = .ok u ∧
    dynUpdateQuery e u (.bytes []) = .ok (fromParts u.scheme u.netloc u.path u.query u.fragment) :=
  (C12_dyn_argument_gate e u (.bytes []) (.inl ⟨_, rfl⟩)).2 rfl

/-- MODEL-LEVEL.  KEYS in with_query / extend_query, one pair at a time: a str subclass key is the str; the key `None` is
    NOT rejected — it is the TEXT "None"; any other key type (`keyStr k = none`: int, bool, float, bytes, tuple, URL, …)
    poisons the pair — TypeError when a value of the pair is rendered, and nothing at all when the value is an empty
    list / tuple.  Cites C12_dyn_key_of_pair. -/
theorem C12_headline_dyn_key_of_pair (k v : PyObj) :
    (∀ s, k = .strSub s → mkPair k v = mkPair (.str s) v) ∧
    (k = .none → mkPair k v = mkPair (.str [78, 111, 110, 101]) v) ∧
    (keyStr k = none →
      (∀ x ∈ itemVals (mkPair k v).2, queryVar x = .error .typeError) ∧
      (itemVals (mkPair k v).2).length = (itemVals (toQItem v)).length ∧
      (slotErr (mkPair k v).2 = some .typeError)) ∧
    (keyStr k = none ↔ strLike k = none ∧ k ≠ .none) :=
  C12_dyn_key_of_pair k v

/-- MODEL-LEVEL.  A key that is neither a str (subclass) nor `None`, in a dict or in a list of pairs: `with_query`,
    `extend_query` AND `update_query` raise TypeError — as soon as the entries before it are fine and the entry has
    something to render.  Cites C12_dyn_non_str_keys. -/
theorem C12_headline_dyn_non_str_keys (e : Env) (u : Url) (pre : List (Str × PyObj)) (k v : PyObj)
    (post : List (PyObj × PyObj))
    (hpre : ∀ p ∈ pre, goodVal p.2 = true)   -- the entries before it: str keys, accepted values
    (hk : keyStr k = none)                   -- the key is not a str (subclass) and not None
    (hv : itemVals (toQItem v) ≠ []) :       -- its value is not an empty list / tuple: `…_empty_value_hides_key`
    let d := PyObj.dict (pre.map (fun p => (.str p.1, p.2)) ++ (k, v) :: post)
    let l := PyObj.list (pre.map (fun p => .tuple [.str p.1, p.2]) ++ .tuple [k, v] :: post.map (fun p => .tuple [p.1, p.2]))
    dynWithQuery e u d = .error .typeError ∧ dynExtendQuery e u d = .error .typeError ∧
    dynWithQuery e u l = .error .typeError ∧ dynExtendQuery e u l = .error .typeError ∧
    dynUpdateQuery e u d = .error .typeError ∧ dynUpdateQuery e u l = .error .typeError :=
  C12_dyn_non_str_keys e u pre k v post hpre hk hv

/-- MODEL-LEVEL.  update_query with a dict: ANY key that is not a str (subclass) — `None` included — is a TypeError
    (raised by `MultiDict.update` before anything is rendered), whatever the values and wherever it sits.
    Cites C12_dyn_update_query_non_str_key. -/
theorem C12_headline_dyn_update_query_non_str_key (e : Env) (u : Url) (items : List (PyObj × PyObj))
    (h : ∃ kv ∈ items, strLike kv.1 = none) :   -- some key is not a str (subclass)
    dynUpdateQuery e u (.dict items) = .error .typeError :=
  C12_dyn_update_query_non_str_key e u items h

/-- MODEL-LEVEL (C implementation of multidict 6.2; the pure-Python multidict raises TypeError instead of ValueError for an
    element of the wrong length — observed, not modelled).  update_query with a list / tuple: the elements are validated
    one by one by `MultiDict.update` (`mdPair`: not iterable → TypeError, length ≠ 2 → ValueError, key not a str →
    TypeError) and the FIRST offending element decides; if all are valid pairs the call is the typed `update_query` of
    those pairs (bad VALUES are met only then).  Cites C12_dyn_update_query_sequence. -/
theorem C12_headline_dyn_update_query_sequence (e : Env) (u : Url) (xs : List PyObj)
    (hne : xs ≠ []) :                        -- an empty sequence is falsy: `update_query([])` keeps the query
    (∀ err, xs.mapM mdPair = .error err → dynUpdateQuery e u (.list xs) = .error err ∧
      dynUpdateQuery e u (.tuple xs) = .error err ∧ (err = .typeError ∨ err = .valueError)) ∧
    (∀ items, xs.mapM mdPair = .ok items → dynUpdateQuery e u (.list xs) = updateQuery e u (.pairs items) ∧
      dynUpdateQuery e u (.tuple xs) = updateQuery e u (.pairs items)) :=
  C12_dyn_update_query_sequence e u xs hne

/-- MODEL-LEVEL OBSERVATION (not a clause of C12: the text speaks of None VALUES).  The key `None` is accepted — as the text
    "None" — by with_query / extend_query (`URL("http://h").with_query({None: "v"})` is `http://h/?None=v`) and rejected
    with TypeError by update_query, for every receiver and both backends.  Cites C12_dyn_none_key_differs. -/
theorem C12_headline_dyn_none_key_differs (e : Env) (u : Url) (v : Str) :
    dynWithQuery e u (.dict [(.none, .str v)]) = dynWithQuery e u (.dict [(.str "None".toStr, .str v)]) ∧
    dynExtendQuery e u (.dict [(.none, .str v)]) = dynExtendQuery e u (.dict [(.str "None".toStr, .str v)]) ∧
    dynWithQuery e u (.list [.tuple [.none, .str v]]) = dynWithQuery e u (.list [.tuple [.str "None".toStr, .str v]]) ∧
    (∃ r, dynWithQuery e u (.dict [(.none, .str v)]) = .ok r) ∧
    dynUpdateQuery e u (.dict [(.none, .str v)]) = .error .typeError ∧
    dynUpdateQuery e u (.list [.tuple [.none, .str v]]) = .error .typeError :=
  C12_dyn_none_key_differs e u v

/-- MODEL-LEVEL.  The hypothesis `hv` of C12_headline_dyn_non_str_keys is needed: an EMPTY list / tuple value hides a bad
    key from with_query / extend_query (`with_query({1: []})` succeeds with an empty query) — but not from update_query.
    Cites C12_dyn_empty_value_hides_key. -/
theorem C12_headline_dyn_empty_value_hides_key (e : Env) (u : Url) (i : Int) :
    dynWithQuery e u (.dict [(.int i, .list [])]) = .ok (fromParts u.scheme u.netloc u.path [] u.fragment) ∧
    dynExtendQuery e u (.dict [(.int i, .list [])]) = .ok u ∧
    dynUpdateQuery e u (.dict [(.int i, .list [])]) = .error .typeError :=
  C12_dyn_empty_value_hides_key e u i

/-- MODEL-LEVEL.  Elements of a pair sequence that are not pairs, for with_query / extend_query (the `for k, v in items`
    unpacking): not iterable → TypeError, wrong length → ValueError, raised at the element's position; a 2-element
    iterable is the pair `mkPair k v`.  Cites C12_dyn_unpack. -/
theorem C12_headline_dyn_unpack (o : PyObj) :
    (iterElems o = none → pairOf o = poisonPair .typeError ∧ slotErr (pairOf o).2 = some .typeError) ∧
    (∀ l, iterElems o = some l → l.length ≠ 2 → pairOf o = poisonPair .valueError ∧
      slotErr (pairOf o).2 = some .valueError) ∧
    (∀ k v, iterElems o = some [k, v] → pairOf o = mkPair k v) :=
  C12_dyn_unpack o

/-! ## non-vacuity -/

section checks
private def eP : Env := ⟨.py, Oracles.empty⟩

-- Part A: a `ReachE` URL that really comes from `encoded=True`, NON-canonical stored query (raw space, lower-case escape,
-- non-ASCII text) but no lone surrogate; `update_query` on it is the multidict update (through C12_reachE_instance)
example :
    let u := fromParts [] [] "/p".toStr ("a=x y&k=%c3%a9&z=".toStr ++ [233]) []
    preEncodedUrl eP ("/p?a=x y&k=%c3%a9&z=".toStr ++ [233]) = .ok u ∧
    ReachEX NoSurrogate (fun _ => True) (fun _ => True) eP u ∧ ReachE eP u ∧ NoSurrogate u.query ∧
    queryPairs u = [("a".toStr, "x y".toStr), ("k".toStr, [233]), ("z".toStr, [233])] ∧
    ∃ v, updateQuery eP u (.pairs [("a".toStr, .one (.str "2".toStr))]) = .ok v ∧
      queryPairs v = [("a".toStr, "2".toStr), ("k".toStr, [233]), ("z".toStr, [233])] :=
  C12_reachE_instance

-- Part B: hypotheses of C12_headline_dyn_rejects_values / _non_str_keys / _update_query_non_str_key / _update_query_sequence
example : (∀ p ∈ [(([97] : Str), PyObj.int 2), ([98], .strSub [120])], goodVal p.2 = true) ∧
    badVal (.float [110, 97, 110] 2) = some .valueError ∧ badVal (.bool true) = some .typeError := by decide
example : keyStr (.int 1) = none ∧ keyStr (.bytes [107]) = none ∧ keyStr (.bool true) = none ∧
    itemVals (toQItem (.str [118])) ≠ [] := by decide
example : [PyObj.tuple [.int 1, .str [118]], .str [97, 98, 99]].mapM mdPair = .error .typeError := by rfl
end checks

end Yarl
