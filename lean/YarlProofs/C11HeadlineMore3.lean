import YarlProofs.C11Headline
import YarlProofs.C11HeadlineMore
import YarlProofs.C11Encoded
import YarlProofs.C11ReachE
/-!
  C11HeadlineMore3.lean — AUDIT LAYER for property C11, continuation of C11Headline.lean / C11HeadlineMore.lean (the
  theorems here need C11Encoded.lean and C11ReachE.lean, which import C11Headline.lean through C11Ctor.lean; this file is
  a leaf, nobody imports it).

  C11 | Every modifier changes only its own component |
  "with_scheme, with_user, with_password, with_host, with_port, with_fragment and the query operations return a URL in
  which the targeted component reads back as the canonicalised argument and every other raw component - including IPv6
  brackets, an explicit port and an empty-vs-absent password - is unchanged (with_user(None) also drops the password, as
  documented). with_path, with_name, with_suffix, /, joinpath and parent keep scheme and authority and clear query and
  fragment unless keep_query/keep_fragment is given; origin() keeps only scheme, host and port and relative() only path,
  query and fragment."

  What is here: GAPS 2 of C11Headline.lean — authorities that are NOT the `make_netloc` text (`Written`) and do not
  satisfy the invariant `NetlocCanon`: `URL(s, encoded=True)`, `URL.build(authority=…, encoded=True)` and
  `URL.build(host=…, encoded=True)` store the authority VERBATIM ("user@:80", ":pw@h", "U:P@H:080", "[::1]x:80" …).
   * part A (C11Encoded.lean): sentence 1 for the authority modifiers and `origin()` on a URL WITHOUT pre-filled cache
     whose stored authority is ANY non-empty text that `split_netloc` accepts: what the raw accessors read, the EXACT
     stored result of each modifier, the frame "every other raw component reads the same as on `u`" — which holds with
     exactly TWO exceptions, both proved FALSE by witnesses: (E1) host text with '[' but no ':', (E2) nothing left to
     write; and what happens when `split_netloc` REJECTS the stored text.
   * part B (C11ReachE.lean): the same over `ReachE`, the closure of ALL entry points of the model, `encoded=True`
     included (ReachE.lean), cache or not; and the hypothesis-free frame on the five stored parts for every modifier in
     every `encoded` mode.
  The frame theorems here are RELATIVE ("reads as on `u`"), not in terms of a `Written` quadruple: the stored TEXT of the
  authority may change (port text "080" is re-written "80", junk around brackets is dropped …) while no accessor does.

  Vocabulary (C11Encoded.lean, ReachE.lean; `net`, `pickleTwin`, `GoodAuthority`: C11HeadlineMore.lean).
  `np : NetlocParts`     — the answer of `split_netloc` on the stored authority: `np.user`, `np.password`, `np.host`,
                           `np.port`; `np.host.getD []` is the host text ("" when absent), WITHOUT the brackets of a
                           bracketed host.
  `bracket h`            — `h` in brackets iff it contains ':' (`host_subcomponent`).
  `UserOK U`             — `U` is absent, or non-empty without ':'.
  `EncTrue.portBad p`    — `p` is an int outside 0..65535 (the range check of `with_port`).
  (E1)                   — `91 ∈ np.host.getD [] ∧ 58 ∉ np.host.getD []`: the host text contains '[' but no ':'.
  (E2)                   — no user, no password, empty host text, no port: the rebuilt authority is the EMPTY string.
  `ReachE e u`           — `u` is obtainable through ANY entry point: `URL(s)`, `URL(s, encoded=True)`, `URL.build` in
                           both modes, the 18 operations with Python-string arguments, `with_path(…, encoded=True)`,
                           `joinpath(…, encoded=True)`, `join` of two such URLs.  By `reachE_of_record` EVERY cache-less
                           record of five Python strings is in `ReachE`: a theorem over `ReachE` is a theorem about
                           arbitrary stored text.
-/
set_option linter.unusedVariables false
namespace Yarl
open StrAscii WfLemmas EntryLemmas R6 NetlocLemmas EncTrue EagerLemmas

/-! ## Part A — Sentence 1 ("… the targeted component reads back as the canonicalised argument and every other raw
    component … is unchanged") on a cache-less URL whose stored authority is ARBITRARY accepted text (GAPS 2) -/

/-- GAPS 2: what "raw component" MEANS on such a URL.  The raw accessors are the fields of the `split_netloc` answer
    (`raw_host` is `np.host or ""`, `host_subcomponent` brackets it iff it contains ':'), which is the
    `Rfc.authoritySplit` reading of the text; the answer always has: user absent or non-empty without ':', host text
    without '@' and either without ']' or without ':' and '[', port ≤ 65535.
    Cites C11_arbitrary_authority_accessors. -/
theorem C11_headline_arbitrary_authority_accessors (e : Env) (u : Url) (np : NetlocParts)
    (hpre : u.pre = none)                            -- no pre-filled cache (true of every `encoded=True` result)
    (hn : u.netloc ≠ [])                             -- there is an authority
    (hs : splitNetloc e.o u.netloc = .ok np) :       -- `split_netloc` accepts it; else: …_split_fails below
    rawUser e u = .ok np.user ∧ rawPassword e u = .ok np.password ∧
    rawHost e u = .ok (some (np.host.getD [])) ∧ explicitPort e u = .ok np.port ∧
    hostSubcomponent e u = .ok (some (bracket (np.host.getD []))) ∧
    np.user = (Rfc.authoritySplit u.netloc).user.bind orNone ∧
    np.password = (Rfc.authoritySplit u.netloc).password ∧
    np.host.getD [] = (Rfc.authoritySplit u.netloc).host ∧
    UserOK np.user ∧ 64 ∉ np.host.getD [] ∧
    (93 ∉ np.host.getD [] ∨ (58 ∉ np.host.getD [] ∧ 91 ∉ np.host.getD [])) ∧
    (∀ p, np.port = some p → p ≤ 65535) :=
  C11_arbitrary_authority_accessors e u np hpre hn hs

/-- GAPS 2: the EXACT stored result of every authority modifier on such a URL — each one re-makes the authority with
    `make_netloc(…, encode=False)` from `np.user`, `np.password`, the bracketed-iff-':' host text and `np.port`, with the
    targeted component replaced by the quoted / encoded argument; scheme, path, query, fragment are copied.  `origin()`
    re-makes the authority only when the text contains '@', otherwise it keeps the text VERBATIM.  Includes the error
    cases of `with_host` / `with_port` / `origin`.  No condition on the host text.
    Cites C11_arbitrary_authority_modifiers. -/
theorem C11_headline_arbitrary_authority_exact_results (e : Env) (u : Url) (np : NetlocParts)
    (hpre : u.pre = none) (hn : u.netloc ≠ []) (hs : splitNetloc e.o u.netloc = .ok np) :   -- as above
    let Q := q e Gen.QUOTER
    let hb := bracket (np.host.getD [])
    (∀ s, withUser e u (some s) =
      .ok (fromParts u.scheme (makeNetloc Q (some (Q s)) np.password (some hb) np.port false) u.path u.query u.fragment)) ∧
    (withUser e u none =
      .ok (fromParts u.scheme (makeNetloc Q none none (some hb) np.port false) u.path u.query u.fragment)) ∧
    (∀ pw, withPassword e u pw =
      .ok (fromParts u.scheme (makeNetloc Q np.user (pw.map Q) (some hb) np.port false) u.path u.query u.fragment)) ∧
    (∀ hs, withHost e u hs =
      if hs = [] then .error .valueError
      else (encodeHost e.o hs true).map (fun eh =>
        fromParts u.scheme (makeNetloc Q np.user np.password (some eh) np.port false) u.path u.query u.fragment)) ∧
    (∀ (p : Option Int) (kind : Nat), withPort e u p kind =
      if kind ≠ 0 then .error .typeError
      else if portBad p then .error .valueError
      else .ok (fromParts u.scheme (makeNetloc Q np.user np.password (some hb) (p.map Int.toNat) false)
                  u.path u.query u.fragment)) ∧
    (origin e u =
      if u.scheme = [] then .error .valueError
      else if 64 ∈ u.netloc then .ok (fromParts u.scheme (makeNetloc Q none none (some hb) np.port false) [] [] [])
      else if u.path = [] ∧ u.query = [] ∧ u.fragment = [] then .ok u
      else .ok (fromParts u.scheme u.netloc [] [] [])) :=
  C11_arbitrary_authority_modifiers e u np hpre hn hs

/-- GAPS 2, "with_user … reads back as the canonicalised argument and every other raw component - including IPv6
    brackets, an explicit port and an empty-vs-absent password - is unchanged" on an arbitrary accepted authority: the
    user reads back as the QUOTER output; `raw_password`, `raw_host`, `explicit_port`, `host_subcomponent`, scheme,
    path, query, fragment read exactly as on `u`.  Cites C11_arbitrary_authority_frame_with_user. -/
theorem C11_headline_arbitrary_authority_with_user (e : Env) (u : Url) (np : NetlocParts)
    (hpre : u.pre = none) (hn : u.netloc ≠ []) (hs : splitNetloc e.o u.netloc = .ok np)   -- as above
    -- not (E1): with '[' but no ':' in the host text the clause is FALSE, `…_fails_for_bracket_in_host` below
    (hgood : ¬ (91 ∈ np.host.getD [] ∧ 58 ∉ np.host.getD []))
    (s : Str) (hpy : PyStr s)                        -- a Python string: the quoter output has no ':'
    (hq : q e Gen.QUOTER s ≠ []) :                   -- `with_user("")` DROPS the user (GAPS 3)
    ∃ v, withUser e u (some s) = .ok v ∧ rawUser e v = .ok (some (q e Gen.QUOTER s)) ∧
      rawPassword e v = rawPassword e u ∧ rawHost e v = rawHost e u ∧ explicitPort e v = explicitPort e u ∧
      hostSubcomponent e v = hostSubcomponent e u ∧
      v.scheme = u.scheme ∧ v.path = u.path ∧ v.query = u.query ∧ v.fragment = u.fragment ∧ v.pre = none :=
  C11_arbitrary_authority_frame_with_user e u np hpre hn hs hgood s hpy hq

/-- GAPS 2, "(with_user(None) also drops the password, as documented)": user AND password read `None`; the explicit port
    reads as on `u`; `raw_host` / `host_subcomponent` read as on `u` UNLESS the host text is empty and there is no port
    — (E2): the rebuilt authority is EMPTY and both read `None` (was ""), `…_fails_for_nothing_left` below.
    Cites C11_arbitrary_authority_frame_with_user_none. -/
theorem C11_headline_arbitrary_authority_with_user_none (e : Env) (u : Url) (np : NetlocParts)
    (hpre : u.pre = none) (hn : u.netloc ≠ []) (hs : splitNetloc e.o u.netloc = .ok np)   -- as above
    (hgood : ¬ (91 ∈ np.host.getD [] ∧ 58 ∉ np.host.getD [])) :                           -- not (E1)
    ∃ v, withUser e u none = .ok v ∧ rawUser e v = .ok none ∧ rawPassword e v = .ok none ∧
      explicitPort e v = explicitPort e u ∧
      (rawHost e v = if np.host.getD [] = [] ∧ np.port = none then .ok none else rawHost e u) ∧
      (hostSubcomponent e v = if np.host.getD [] = [] ∧ np.port = none then .ok none else hostSubcomponent e u) ∧
      (v.netloc = [] ↔ np.host.getD [] = [] ∧ np.port = none) ∧
      v.scheme = u.scheme ∧ v.path = u.path ∧ v.query = u.query ∧ v.fragment = u.fragment ∧ v.pre = none :=
  C11_arbitrary_authority_frame_with_user_none e u np hpre hn hs hgood

/-- GAPS 2, "with_password …" (`pw = none` is `with_password(None)`): the password reads back as the QUOTER output
    (`some ""` for the empty password, distinct from absent); `raw_user`, `explicit_port` read as on `u`; `raw_host` /
    `host_subcomponent` too unless NOTHING is left to write (E2).  Cites C11_arbitrary_authority_frame_with_password. -/
theorem C11_headline_arbitrary_authority_with_password (e : Env) (u : Url) (np : NetlocParts)
    (hpre : u.pre = none) (hn : u.netloc ≠ []) (hs : splitNetloc e.o u.netloc = .ok np)   -- as above
    (hgood : ¬ (91 ∈ np.host.getD [] ∧ 58 ∉ np.host.getD [])) (pw : Option Str) :         -- not (E1)
    let nothing := np.user = none ∧ pw = none ∧ np.host.getD [] = [] ∧ np.port = none     -- (E2)
    ∃ v, withPassword e u pw = .ok v ∧ rawPassword e v = .ok (pw.map (q e Gen.QUOTER)) ∧
      rawUser e v = rawUser e u ∧ explicitPort e v = explicitPort e u ∧
      (rawHost e v = if nothing then .ok none else rawHost e u) ∧
      (hostSubcomponent e v = if nothing then .ok none else hostSubcomponent e u) ∧
      (v.netloc = [] ↔ nothing) ∧
      v.scheme = u.scheme ∧ v.path = u.path ∧ v.query = u.query ∧ v.fragment = u.fragment ∧ v.pre = none :=
  C11_arbitrary_authority_frame_with_password e u np hpre hn hs hgood pw

/-- GAPS 2, "with_port …" (`p = none` is `with_port(None)`): the explicit port reads back; `raw_user`, `raw_password`
    (empty vs absent) read as on `u`; `raw_host` / `host_subcomponent` too unless nothing is left to write (E2).
    Cites C11_arbitrary_authority_frame_with_port. -/
theorem C11_headline_arbitrary_authority_with_port (e : Env) (u : Url) (np : NetlocParts)
    (hpre : u.pre = none) (hn : u.netloc ≠ []) (hs : splitNetloc e.o u.netloc = .ok np)   -- as above
    (hgood : ¬ (91 ∈ np.host.getD [] ∧ 58 ∉ np.host.getD []))                             -- not (E1)
    (p : Option Int) (hr : ∀ i, p = some i → 0 ≤ i ∧ i ≤ 65535) :   -- other values are rejected (C17; exact: …_exact_results)
    let nothing := np.user = none ∧ np.password = none ∧ np.host.getD [] = [] ∧ p = none  -- (E2)
    ∃ v, withPort e u p 0 = .ok v ∧ explicitPort e v = .ok (p.map Int.toNat) ∧
      rawUser e v = rawUser e u ∧ rawPassword e v = rawPassword e u ∧
      (rawHost e v = if nothing then .ok none else rawHost e u) ∧
      (hostSubcomponent e v = if nothing then .ok none else hostSubcomponent e u) ∧
      (v.netloc = [] ↔ nothing) ∧
      v.scheme = u.scheme ∧ v.path = u.path ∧ v.query = u.query ∧ v.fragment = u.fragment ∧ v.pre = none :=
  C11_arbitrary_authority_frame_with_port e u np hpre hn hs hgood p hr

/-- GAPS 2, "with_host … reads back as the canonicalised argument": `raw_host` reads `unbracket eh`, `host_subcomponent`
    reads `eh` (`eh = _encode_host(argument)`), and `raw_user`, `raw_password`, `explicit_port` read as on `u`.  NO
    condition on the old host text (it is discarded), so neither (E1) nor (E2) arises.
    Cites C11_arbitrary_authority_frame_with_host. -/
theorem C11_headline_arbitrary_authority_with_host (e : Env) (u : Url) (np : NetlocParts)
    (hpre : u.pre = none) (hn : u.netloc ≠ []) (hs : splitNetloc e.o u.netloc = .ok np)   -- as above
    (hst eh : Str) (hne : hst ≠ [])                  -- `with_host("")` is rejected
    (henc : encodeHost e.o hst true = .ok eh)        -- `eh` = the canonicalisation (C16)
    (heh : eh ≠ []) :                                -- excludes an IDNA oracle answering "" (GAPS 4)
    ∃ v, withHost e u hst = .ok v ∧ rawHost e v = .ok (some (unbracket eh)) ∧
      hostSubcomponent e v = .ok (some eh) ∧
      rawUser e v = rawUser e u ∧ rawPassword e v = rawPassword e u ∧ explicitPort e v = explicitPort e u ∧
      v.scheme = u.scheme ∧ v.path = u.path ∧ v.query = u.query ∧ v.fragment = u.fragment ∧ v.pre = none :=
  C11_arbitrary_authority_frame_with_host e u np hpre hn hs hst eh hne henc heh

/-! ## Part A — Sentence 3 ("origin() keeps only scheme, host and port") on an arbitrary accepted authority -/

/-- GAPS 2, `origin()`: user and password read `None`, the explicit port reads as on `u`, path / query / fragment are
    empty, `raw_host` / `host_subcomponent` read as on `u` — unless the authority contains '@' and is left with nothing
    to write (E2: "http://@", "http://u:p@").  An authority without '@' is kept VERBATIM and needs no condition on the
    host text.  Cites C11_arbitrary_authority_frame_origin. -/
theorem C11_headline_arbitrary_authority_origin (e : Env) (u : Url) (np : NetlocParts)
    (hpre : u.pre = none) (hn : u.netloc ≠ []) (hs : splitNetloc e.o u.netloc = .ok np)   -- as above
    (hsc : u.scheme ≠ [])                            -- `origin()` without scheme raises ValueError
    (hgood : 64 ∈ u.netloc → ¬ (91 ∈ np.host.getD [] ∧ 58 ∉ np.host.getD [])) :   -- not (E1), asked only with an '@'
    let nothing := 64 ∈ u.netloc ∧ np.host.getD [] = [] ∧ np.port = none          -- (E2)
    ∃ v, origin e u = .ok v ∧ rawUser e v = .ok none ∧ rawPassword e v = .ok none ∧
      explicitPort e v = explicitPort e u ∧
      (rawHost e v = if nothing then .ok none else rawHost e u) ∧
      (hostSubcomponent e v = if nothing then .ok none else hostSubcomponent e u) ∧
      (64 ∉ u.netloc → v.netloc = u.netloc) ∧
      v.scheme = u.scheme ∧ v.path = [] ∧ v.query = [] ∧ v.fragment = [] :=
  C11_arbitrary_authority_frame_origin e u np hpre hn hs hsc hgood

/-! ## Part A — the two exceptions are real, the stored text may change, and rejected authorities -/

/-- the hypothesis "not (E1)" is NEEDED — "every other raw component is unchanged" is FALSE for a host text with '[' but
    no ':': `u = URL.build(scheme='http', authority='[a[b]', path='/p', encoded=True)` has `raw_host == 'a[b'`;
    `u.with_user('u')` stores "u@a[b" and its `raw_host` is 'b' — with_user CHANGED THE HOST.  The same through the
    constructor: `URL('http://[v1.a[b]/p', encoded=True)`.  (Py backend, empty oracle table.)
    Cites C11_arbitrary_authority_frame_fails_for_bracket_in_host. -/
theorem C11_headline_arbitrary_authority_fails_for_bracket_in_host :
    let e0 : Env := { b := .py, o := Oracles.empty }
    let u := fromParts "http".toStr "[a[b]".toStr "/p".toStr [] []
    splitNetloc e0.o u.netloc = .ok { user := none, password := none, host := some "a[b".toStr, port := none } ∧
    rawHost e0 u = .ok (some "a[b".toStr) ∧
    (withUser e0 u (some "u".toStr)).map (·.netloc) = .ok "u@a[b".toStr ∧
    (withUser e0 u (some "u".toStr)).bind (rawHost e0) = .ok (some "b".toStr) ∧
    (∃ w, preEncodedUrl e0 "http://[v1.a[b]/p".toStr = .ok w ∧ rawHost e0 w = .ok (some "v1.a[b".toStr) ∧
      (withUser e0 w (some "u".toStr)).bind (rawHost e0) = .ok (some "b".toStr)) :=
  C11_arbitrary_authority_frame_fails_for_bracket_in_host

/-- the exception (E2) is REAL — "every other raw component is unchanged" is FALSE when nothing is left to write:
    `URL('http://@/p', encoded=True)` has `raw_host == ""`; `.with_port(None)`, `.with_user(None)`,
    `.with_password(None)` store the EMPTY authority, `raw_host is None` and `str()` is "http:///p".  Same for ":" .
    Cites C11_arbitrary_authority_frame_fails_for_nothing_left. -/
theorem C11_headline_arbitrary_authority_fails_for_nothing_left :
    let e0 : Env := { b := .py, o := Oracles.empty }
    let u := fromParts "http".toStr "@".toStr "/p".toStr [] []
    splitNetloc e0.o u.netloc = .ok { user := none, password := none, host := none, port := none } ∧
    rawHost e0 u = .ok (some []) ∧
    (withPort e0 u none 0).map (·.netloc) = .ok [] ∧ (withPort e0 u none 0).bind (rawHost e0) = .ok none ∧
    (withUser e0 u none).bind (rawHost e0) = .ok none ∧ (withPassword e0 u none).bind (rawHost e0) = .ok none ∧
    (withPort e0 u none 0).bind (str e0) = .ok "http:///p".toStr ∧
    (withUser e0 (fromParts "http".toStr ":".toStr "/p".toStr [] []) none).bind (rawHost e0) = .ok none :=
  C11_arbitrary_authority_frame_fails_for_nothing_left

/-- "unchanged" is about what the ACCESSORS read, not about the stored TEXT: on `encoded=True` authorities the modifiers
    silently normalise the text without changing any accessor — "user@:80" (empty host) and ":pw@h" (empty user before a
    password) are kept; junk around brackets ("[::1]x:80", "y[::1]") is dropped; brackets around a host without ':'
    ("[v1.x]:81") are DROPPED (`raw_host` unchanged); "a@b@h" keeps the user "a@b"; `origin()` keeps "[::1]x:080"
    verbatim but re-writes "u@[::1]x:080" to "[::1]:80".  Cites C11_arbitrary_authority_text_normalisations. -/
theorem C11_headline_arbitrary_authority_text_normalised :
    let e0 : Env := { b := .py, o := Oracles.empty }
    let mk := fun (n : String) => fromParts "http".toStr n.toStr "/p".toStr [] []
    (withUser e0 (mk "user@:80") (some "n".toStr)).map (·.netloc) = .ok "n@:80".toStr ∧
    (withHost e0 (mk "user@:80") "g".toStr).map (·.netloc) = .ok "user@g:80".toStr ∧
    (withPort e0 (mk "user@:80") none 0).map (·.netloc) = .ok "user@".toStr ∧
    (withUser e0 (mk ":pw@h") (some "n".toStr)).map (·.netloc) = .ok "n:pw@h".toStr ∧
    (withPort e0 (mk ":pw@h") (some 81) 0).map (·.netloc) = .ok ":pw@h:81".toStr ∧
    (withPassword e0 (mk "[::1]x:80") (some "q".toStr)).map (·.netloc) = .ok ":q@[::1]:80".toStr ∧
    (withPort e0 (mk "y[::1]") (some 81) 0).map (·.netloc) = .ok "[::1]:81".toStr ∧
    (withUser e0 (mk "[v1.x]:81") (some "u".toStr)).map (·.netloc) = .ok "u@v1.x:81".toStr ∧
    (withUser e0 (mk "[v1.x]:81") (some "u".toStr)).bind (rawHost e0) = rawHost e0 (mk "[v1.x]:81") ∧
    (withPort e0 (mk "a@b@h") (some 1) 0).map (·.netloc) = .ok "a@b@h:1".toStr ∧
    (origin e0 (mk "[::1]x:080")).map (·.netloc) = .ok "[::1]x:080".toStr ∧
    (origin e0 (mk "u@[::1]x:080")).map (·.netloc) = .ok "[::1]:80".toStr :=
  C11_arbitrary_authority_text_normalisations

/-- GAPS 2, the remaining case: `split_netloc` REJECTS the stored authority (port text "99999", "x" — e.g. through
    `encoded=True`).  Then on a cache-less URL `with_user` (any argument), `with_password` and `str()` fail with
    that error `err` (ValueError, or an oracle miss for a non-ASCII port text); `with_host` / `with_port` fail (with the
    error of their own argument check if that comes first, else `err`); `origin()` fails with `err` when the authority
    contains '@' — and otherwise SUCCEEDS, copying the unparsable authority verbatim (its `str()` then fails).
    Cites C11_arbitrary_authority_split_fails. -/
theorem C11_headline_arbitrary_authority_split_fails (e : Env) (u : Url) (err : PyErr)
    (hpre : u.pre = none)                                -- no pre-filled cache
    (hs : splitNetloc e.o u.netloc = .error err) :       -- `split_netloc` rejects the stored authority
    u.netloc ≠ [] ∧ (err = .valueError ∨ ∃ f a, err = .oracleMiss f a) ∧
    (∀ x, withUser e u x = .error err) ∧
    (∀ pw, withPassword e u pw = .error err) ∧
    (∀ hst, withHost e u hst =
      if hst = [] then .error .valueError
      else match encodeHost e.o hst true with
        | .error err' => .error err'
        | .ok _ => .error err) ∧
    (∀ (p : Option Int) (kind : Nat), withPort e u p kind =
      if kind ≠ 0 then .error .typeError else if portBad p then .error .valueError else .error err) ∧
    (origin e u =
      if u.scheme = [] then .error .valueError
      else if 64 ∈ u.netloc then .error err
      else if u.path = [] ∧ u.query = [] ∧ u.fragment = [] then .ok u
      else .ok (fromParts u.scheme u.netloc [] [] [])) ∧
    str e u = .error err ∧
    (∀ v, origin e u = .ok v → str e v = .error err) :=
  C11_arbitrary_authority_split_fails e u err hpre hs

/-! ## Part B — all three sentences over `ReachE`, the closure of ALL entry points incl. `encoded=True` -/

/-- `ReachE` really is "arbitrary stored text": EVERY cache-less record whose five components are Python strings is in
    `ReachE` (`URL.build(scheme=, authority=, path=, query_string=, fragment=, encoded=True)` stores its arguments
    verbatim).  So the hypotheses of the theorems below can only be discharged from the inputs.
    Cites reachE_of_record (ReachE.lean). -/
theorem C11_headline_reachE_contains_every_record (e : Env) (s n p q f : Str)
    (hs : PyStr s) (hn : PyStr n) (hp : PyStr p) (hq : PyStr q) (hf : PyStr f) :   -- five Python strings
    ReachE e (fromParts s n p q f) :=
  reachE_of_record e s n p q f hs hn hp hq hf

/-- Sentences 1–3, THE FRAME ON THE FIVE STORED PARTS, for every `ReachE` URL (in fact for every record: `hr` is not
    used) and EVERY modifier in every mode (`with_path` / `joinpath` with `encoded` either way): the stored parts the
    modifier does not own are copied verbatim, or cleared where the API says so.  NO hypothesis.  For the four authority
    modifiers this says only "scheme, path, query, fragment unchanged" — the sub-components of the authority are
    `C11_headline_reachE_authority_frame`.  Cites C11_reachE_frame. -/
theorem C11_headline_reachE_frame (e : Env) (u : Url) (hr : ReachE e u) :
    -- with_scheme: everything but the scheme
    (∀ s v, withScheme e u s = .ok v →
      v.netloc = u.netloc ∧ v.path = u.path ∧ v.query = u.query ∧ v.fragment = u.fragment) ∧
    -- with_user / with_password / with_host / with_port: everything but the authority
    (∀ x v, withUser e u x = .ok v → v.scheme = u.scheme ∧ v.path = u.path ∧ v.query = u.query ∧ v.fragment = u.fragment) ∧
    (∀ x v, withPassword e u x = .ok v →
      v.scheme = u.scheme ∧ v.path = u.path ∧ v.query = u.query ∧ v.fragment = u.fragment) ∧
    (∀ x v, withHost e u x = .ok v → v.scheme = u.scheme ∧ v.path = u.path ∧ v.query = u.query ∧ v.fragment = u.fragment) ∧
    (∀ p k v, withPort e u p k = .ok v →
      v.scheme = u.scheme ∧ v.path = u.path ∧ v.query = u.query ∧ v.fragment = u.fragment) ∧
    -- with_path, `encoded` either way: scheme and authority; query / fragment kept or cleared as asked
    (∀ p enc kq kf, (withPath e u p enc kq kf).scheme = u.scheme ∧ (withPath e u p enc kq kf).netloc = u.netloc ∧
      (withPath e u p enc kq kf).query = (if kq then u.query else []) ∧
      (withPath e u p enc kq kf).fragment = (if kf then u.fragment else [])) ∧
    -- the four query operations: everything but the query
    (∀ a v, withQuery e u a = .ok v →
      v.scheme = u.scheme ∧ v.netloc = u.netloc ∧ v.path = u.path ∧ v.fragment = u.fragment) ∧
    (∀ a v, extendQuery e u a = .ok v →
      v.scheme = u.scheme ∧ v.netloc = u.netloc ∧ v.path = u.path ∧ v.fragment = u.fragment) ∧
    (∀ a v, updateQuery e u a = .ok v →
      v.scheme = u.scheme ∧ v.netloc = u.netloc ∧ v.path = u.path ∧ v.fragment = u.fragment) ∧
    (∀ ns v, withoutQueryParams e u ns = .ok v →
      v.scheme = u.scheme ∧ v.netloc = u.netloc ∧ v.path = u.path ∧ v.fragment = u.fragment) ∧
    -- with_fragment: everything but the fragment
    (∀ f, (withFragment e u f).scheme = u.scheme ∧ (withFragment e u f).netloc = u.netloc ∧
      (withFragment e u f).path = u.path ∧ (withFragment e u f).query = u.query) ∧
    -- with_name / with_suffix: scheme and authority; query / fragment kept or cleared as asked
    (∀ nm kq kf v, withName e u nm kq kf = .ok v → v.scheme = u.scheme ∧ v.netloc = u.netloc ∧
      v.query = (if kq then u.query else []) ∧ v.fragment = (if kf then u.fragment else [])) ∧
    (∀ sfx kq kf v, withSuffix e u sfx kq kf = .ok v → v.scheme = u.scheme ∧ v.netloc = u.netloc ∧
      v.query = (if kq then u.query else []) ∧ v.fragment = (if kf then u.fragment else [])) ∧
    -- `/`, joinpath, `encoded` either way; parent: scheme and authority kept, query and fragment cleared
    (∀ paths enc v, makeChild e u paths enc = .ok v →
      v.scheme = u.scheme ∧ v.netloc = u.netloc ∧ v.query = [] ∧ v.fragment = []) ∧
    ((parent u).scheme = u.scheme ∧ (parent u).netloc = u.netloc ∧ (parent u).query = [] ∧ (parent u).fragment = []) ∧
    -- origin(): the scheme (host / port inside the authority: part A); relative(): path, query, fragment
    (∀ v, origin e u = .ok v → v.scheme = u.scheme ∧ v.path = [] ∧ v.query = [] ∧ v.fragment = []) ∧
    (∀ v, relative u = .ok v →
      v.scheme = [] ∧ v.netloc = [] ∧ v.path = u.path ∧ v.query = u.query ∧ v.fragment = u.fragment) :=
  C11_reachE_frame e u hr

/-- the only `ReachE` URLs WITH a pre-filled cache are direct results of the auto-encoding constructor; when the inputs
    of those had `GoodAuthority` (the C09 guard; C11Headline GAPS 8) the cache agrees with what the lazy path reads
    from the stored authority.  For a cache-less URL (every `encoded=True` result, every modifier result) the
    hypothesis `hg` is vacuous.  Cites C11_reachE_cache_agrees. -/
theorem C11_headline_reachE_cache_agrees (e : Env) (u : Url)
    (hr : ReachE e u)                                -- obtainable through any entry point
    (hg : ∀ s, PyStr s → encodeUrl e s = .ok u → GoodAuthority e s) :   -- IF `u = URL(s)`, `s` is inside the C09 guard
    net e (pickleTwin u) = net e u :=
  C11_reachE_cache_agrees e u hr hg

/-- GAPS 2 over the whole closure — Sentence 1 for the SUB-COMPONENTS OF THE AUTHORITY on every `ReachE` URL (cache or
    not) with a non-empty stored authority that `split_netloc` accepts, host text not of shape (E1):
      * `with_user(s)`: user reads back the QUOTER output; password, host, port as on `u`;
      * `with_user(None)`: user and password read None; port as on `u`; host as on `u` unless nothing is left (E2);
      * `with_password(pw)`: password reads back; user, port as on `u`; host as on `u` unless nothing is left (E2);
      * `with_port(p)`: port reads back; user, password as on `u`; host as on `u` unless nothing is left (E2);
      * `with_host(h)`: `host_subcomponent` reads back the encoded argument; user, password, port as on `u`.
    (`origin()` is NOT in this theorem: part A covers it for cache-less URLs only.)
    Cites C11_reachE_authority_frame. -/
theorem C11_headline_reachE_authority_frame (e : Env) (u : Url) (np : NetlocParts)
    (hr : ReachE e u)                                -- obtainable through any entry point
    (hg : ∀ s, PyStr s → encodeUrl e s = .ok u → GoodAuthority e s)   -- IF `u = URL(s)`, `s` is inside the C09 guard
    (hn : u.netloc ≠ [])                             -- there is an authority
    (hs : splitNetloc e.o u.netloc = .ok np)         -- `split_netloc` accepts it; else `…_reachE_split_fails`
    -- not (E1); with it the clause is FALSE inside `ReachE`: `C11_headline_reachE_authority_frame_fails_for`
    (hgood : ¬ (91 ∈ np.host.getD [] ∧ 58 ∉ np.host.getD [])) :
    (∀ s, PyStr s → q e Gen.QUOTER s ≠ [] →          -- guards as in `C11_headline_with_user`
      ∃ v, withUser e u (some s) = .ok v ∧ rawUser e v = .ok (some (q e Gen.QUOTER s)) ∧
        rawPassword e v = rawPassword e u ∧ rawHost e v = rawHost e u ∧ explicitPort e v = explicitPort e u) ∧
    (∃ v, withUser e u none = .ok v ∧ rawUser e v = .ok none ∧ rawPassword e v = .ok none ∧
      explicitPort e v = explicitPort e u ∧
      (rawHost e v = if np.host.getD [] = [] ∧ np.port = none then .ok none else rawHost e u)) ∧
    (∀ pw, ∃ v, withPassword e u pw = .ok v ∧ rawPassword e v = .ok (pw.map (q e Gen.QUOTER)) ∧
      rawUser e v = rawUser e u ∧ explicitPort e v = explicitPort e u ∧
      (rawHost e v = if np.user = none ∧ pw = none ∧ np.host.getD [] = [] ∧ np.port = none then .ok none
                     else rawHost e u)) ∧
    (∀ p : Option Int, (∀ i, p = some i → 0 ≤ i ∧ i ≤ 65535) →      -- guard as in `C11_headline_with_port`
      ∃ v, withPort e u p 0 = .ok v ∧ explicitPort e v = .ok (p.map Int.toNat) ∧
        rawUser e v = rawUser e u ∧ rawPassword e v = rawPassword e u ∧
        (rawHost e v = if np.user = none ∧ np.password = none ∧ np.host.getD [] = [] ∧ p = none then .ok none
                       else rawHost e u)) ∧
    (∀ hst eh, hst ≠ [] → encodeHost e.o hst true = .ok eh → eh ≠ [] →   -- guards as in `C11_headline_with_host`
      ∃ v, withHost e u hst = .ok v ∧ hostSubcomponent e v = .ok (some eh) ∧
        rawUser e v = rawUser e u ∧ rawPassword e v = rawPassword e u ∧ explicitPort e v = explicitPort e u) :=
  C11_reachE_authority_frame e u np hr hg hn hs hgood

/-- the authority frame FAILS inside `ReachE` in the two excluded corners, both reached here through `encoded=True` (that
    the auto-encoding entry points never store such an authority is a remark of C11ReachE.lean, not a theorem): (E1) `u = URL.build(scheme='http', authority='[a[b]', path='/p', encoded=True)`: `u.raw_host == 'a[b'` but
    `u.with_user('u').raw_host == 'b'`; (E2) `w = URL('http://@/p', encoded=True)`: `w.raw_host == ''` but
    `w.with_port(None).raw_host is None`.  All four URLs are in `ReachE`.  So "every other raw component is unchanged"
    is FALSE as stated over all entry points.  Cites C11_reachE_authority_frame_fails_for. -/
theorem C11_headline_reachE_authority_frame_fails_for :
    let e0 : Env := { b := .py, o := Oracles.empty }
    (∃ u, build e0 { scheme := "http".toStr, authority := "[a[b]".toStr, path := "/p".toStr, encoded := true } = .ok u ∧
      ReachE e0 u ∧ u.pre = none ∧
      splitNetloc e0.o u.netloc = .ok { user := none, password := none, host := some "a[b".toStr, port := none } ∧
      rawHost e0 u = .ok (some "a[b".toStr) ∧
      ∃ v, withUser e0 u (some "u".toStr) = .ok v ∧ ReachE e0 v ∧ v.netloc = "u@a[b".toStr ∧
        rawHost e0 v = .ok (some "b".toStr)) ∧
    (∃ w, preEncodedUrl e0 "http://@/p".toStr = .ok w ∧ ReachE e0 w ∧ w.pre = none ∧
      splitNetloc e0.o w.netloc = .ok { user := none, password := none, host := none, port := none } ∧
      rawHost e0 w = .ok (some []) ∧
      ∃ v, withPort e0 w none 0 = .ok v ∧ ReachE e0 v ∧ v.netloc = [] ∧ rawHost e0 v = .ok none) :=
  C11_reachE_authority_frame_fails_for

/-- a `ReachE` URL (necessarily cache-less here) whose stored authority `split_netloc` REJECTS: `with_user`,
    `with_password` and `str()` fail with that error, `with_host` / `with_port` fail (some error), `origin()` fails when
    the authority contains '@' and otherwise may succeed with a result that cannot be printed.
    Cites C11_reachE_split_fails. -/
theorem C11_headline_reachE_split_fails (e : Env) (u : Url) (err : PyErr)
    (hr : ReachE e u)                                -- obtainable through any entry point
    (hpre : u.pre = none)                            -- no pre-filled cache
    (hs : splitNetloc e.o u.netloc = .error err) :   -- `split_netloc` rejects the stored authority
    u.netloc ≠ [] ∧ (∀ x, withUser e u x = .error err) ∧ (∀ pw, withPassword e u pw = .error err) ∧
    (∀ hst, ∃ err', withHost e u hst = .error err') ∧ (∀ p k, ∃ err', withPort e u p k = .error err') ∧
    str e u = .error err ∧ (64 ∈ u.netloc → ∃ err', origin e u = .error err') ∧
    (∀ v, origin e u = .ok v → str e v = .error err) :=
  C11_reachE_split_fails e u err hr hpre hs

/-! ## non-vacuity -/

section checks
private def eE : Env := { b := .py, o := Oracles.empty }
private def uE : Url := fromParts "http".toStr "U:P@H:080".toStr "/a/../b".toStr "x y".toStr []

-- `URL('http://U:P@H:080/a/../b?x y', encoded=True)`: in `ReachE`, hypotheses of the `ReachE` frame hold, and its first
-- clause on `with_user('n w')` (through C11_reachE_authority_frame_instance)
example : preEncodedUrl eE "http://U:P@H:080/a/../b?x y".toStr = .ok uE ∧ ReachE eE uE ∧
    (∀ s, PyStr s → encodeUrl eE s = .ok uE → GoodAuthority eE s) ∧ uE.netloc ≠ [] ∧
    splitNetloc eE.o uE.netloc =
      .ok { user := some "U".toStr, password := some "P".toStr, host := some "H".toStr, port := some 80 } ∧
    (∃ v, withUser eE uE (some "n w".toStr) = .ok v ∧ v.netloc = "n%20w:P@H:80".toStr ∧
      rawUser eE v = .ok (some "n%20w".toStr) ∧ rawPassword eE v = rawPassword eE uE ∧ rawHost eE v = rawHost eE uE ∧
      explicitPort eE v = explicitPort eE uE) :=
  C11_reachE_authority_frame_instance

-- the hypotheses of the part-A theorems on the same URL, and on four odd authorities
example : uE.pre = none ∧ uE.netloc ≠ [] ∧ ¬ (91 ∈ "H".toStr ∧ 58 ∉ "H".toStr) ∧ PyStr "n w".toStr ∧
    q eE Gen.QUOTER "n w".toStr ≠ [] := by
  refine ⟨rfl, by decide, by decide, by decide, by decide +kernel⟩
example : (["user@:80", ":pw@h", "[::1]x:80", "U:P@H:080", "[v1.x]:81", "a@b@h"].all fun n =>
    match splitNetloc eE.o (String.toStr n) with
    | .ok np => decide (¬ (91 ∈ np.host.getD [] ∧ 58 ∉ np.host.getD []))
    | .error _ => false) = true := by decide +kernel

-- a rejected port text: the hypothesis of `C11_headline_arbitrary_authority_split_fails`
example : splitNetloc eE.o "h:99999".toStr = .error .valueError := by decide +kernel
end checks

end Yarl
