/-
  C10.lean — "Equality, hashing and ordering are coherent".

  `Url.beq` is equality of the 5-tuple `eqKey`; `Url.lt` is Python's tuple `<` on that key
  (`ltParts`, built from `ltStr`).  We show: beq is characterised component-wise, is an
  equivalence, hashes agree on equal URLs, and `<`/`<=`/`>`/`>=` form a strict total order /
  total preorder on keys, consistent with `==` (exactly one of a < b, a == b, a > b).
-/
import YarlModel
import YarlProofs.Lemmas.CmpLemmas
namespace Yarl
open Yarl.CmpLemmas

namespace CmpLemmas

theorem beq_iff (a b : Url) : a.beq b = true ↔ eqKey a = eqKey b := by
  simp [Url.beq]

theorem beq_false_iff (a b : Url) : a.beq b = false ↔ eqKey a ≠ eqKey b := by
  simp [Url.beq]

end CmpLemmas

theorem C10_eq_components (a b : Url) : a.beq b = true ↔
    a.scheme = b.scheme ∧ a.netloc = b.netloc ∧
    (if a.path.isEmpty && !a.netloc.isEmpty then [47] else a.path) =
      (if b.path.isEmpty && !b.netloc.isEmpty then [47] else b.path) ∧
    a.query = b.query ∧ a.fragment = b.fragment := by
  rw [beq_iff]
  simp only [eqKey, Parts.mk.injEq]

theorem C10_equivalence : (∀ a : Url, a.beq a = true) ∧
    (∀ a b : Url, a.beq b = true → b.beq a = true) ∧
    (∀ a b c : Url, a.beq b = true → b.beq c = true → a.beq c = true) := by
  refine ⟨fun a => ?_, fun a b h => ?_, fun a b c h1 h2 => ?_⟩
  · rw [beq_iff]
  · rw [beq_iff] at h ⊢; exact h.symm
  · rw [beq_iff] at h1 h2 ⊢; exact h1.trans h2

theorem C10_hash_coherent (hash : Parts → Nat) (a b : Url) :
    a.beq b = true → hash (eqKey a) = hash (eqKey b) := by
  intro h; rw [beq_iff] at h; rw [h]

theorem C10_trichotomy (a b : Url) :
    (a.lt b = true ∧ a.beq b = false ∧ b.lt a = false) ∨
    (a.lt b = false ∧ a.beq b = true ∧ b.lt a = false) ∨
    (a.lt b = false ∧ a.beq b = false ∧ b.lt a = true) := by
  simp only [Url.lt, beq_iff, beq_false_iff]
  rcases ltParts_total (eqKey a) (eqKey b) with h | h | h
  · exact .inl ⟨h, ltParts_ne h, ltParts_asymm _ _ h⟩
  · rw [h]; exact .inr (.inl ⟨ltParts_irrefl _, rfl, ltParts_irrefl _⟩)
  · exact .inr (.inr ⟨ltParts_asymm _ _ h, (ltParts_ne h).symm, h⟩)

theorem C10_le_iff (a b : Url) : a.le b = true ↔ (a.lt b = true ∨ a.beq b = true) := by
  simp [Url.le, Url.beq]

theorem C10_ge_gt (a b : Url) : a.ge b = b.le a ∧ a.gt b = b.lt a := ⟨rfl, rfl⟩

theorem C10_lt_trans (a b c : Url) : a.lt b = true → b.lt c = true → a.lt c = true := by
  simp only [Url.lt]; exact ltParts_trans _ _ _

theorem C10_le_total (a b : Url) : a.le b = true ∨ b.le a = true := by
  rw [C10_le_iff, C10_le_iff]
  rcases C10_trichotomy a b with h | h | h
  · exact .inl (.inl h.1)
  · exact .inl (.inr h.2.1)
  · exact .inr (.inl h.2.2)

theorem C10_le_trans (a b c : Url) : a.le b = true → b.le c = true → a.le c = true := by
  rw [C10_le_iff, C10_le_iff, C10_le_iff]
  simp only [Url.lt, beq_iff]
  rintro (h1 | h1) (h2 | h2)
  · exact .inl (ltParts_trans _ _ _ h1 h2)
  · rw [← h2]; exact .inl h1
  · rw [h1]; exact .inl h2
  · exact .inr (h1.trans h2)

theorem C10_le_antisymm (a b : Url) : a.le b = true → b.le a = true → a.beq b = true := by
  rw [C10_le_iff, C10_le_iff]
  rintro (h1 | h1) (h2 | h2)
  · simp only [Url.lt] at h1 h2
    rw [ltParts_asymm _ _ h1] at h2; cases h2
  · exact C10_equivalence.2.1 _ _ h2
  · exact h1
  · exact h1

theorem C10_lt_respects_eq (a a' b : Url) :
    a.beq a' = true → a.lt b = a'.lt b ∧ b.lt a = b.lt a' := by
  intro h; rw [beq_iff] at h
  simp only [Url.lt, h, and_self]

theorem C10_route_independent (a : Url) :
    (pickleTwin a).beq a = true ∧ eqKey (pickleTwin a) = eqKey a := by
  have : eqKey (pickleTwin a) = eqKey a := rfl
  exact ⟨by rw [beq_iff]; exact this, this⟩

/-! ### further consequences (not requested, cheap) -/

theorem C10_lt_irrefl (a : Url) : a.lt a = false := by
  simp only [Url.lt]; exact ltParts_irrefl _

theorem C10_lt_asymm (a b : Url) : a.lt b = true → b.lt a = false := by
  simp only [Url.lt]; exact ltParts_asymm _ _

/-- `a < b` iff `a <= b` and not `a == b` -/
theorem C10_lt_iff_le_not_eq (a b : Url) : a.lt b = true ↔ (a.le b = true ∧ a.beq b = false) := by
  rw [C10_le_iff]
  rcases C10_trichotomy a b with h | h | h <;> simp [h.1, h.2.1]

/-- `a <= b` iff not `b < a` (Python: `not (b < a)`) -/
theorem C10_le_iff_not_gt (a b : Url) : a.le b = true ↔ b.lt a = false := by
  rw [C10_le_iff]
  rcases C10_trichotomy a b with h | h | h <;> simp [h.1, h.2.1, h.2.2]

/-! ### concrete checks -/

/-- the '' vs '/' near-collision from the property text -/
example : (fromParts "http".toStr "h".toStr [] [] []).beq (fromParts "http".toStr "h".toStr [47] [] []) = true := by decide
example : (fromParts "http".toStr "h".toStr [] [] []).lt (fromParts "http".toStr "h".toStr [47] [] []) = false := by decide

-- without an authority '' and '/' are different, and '' < '/'
example : (fromParts [] [] [] [] []).beq (fromParts [] [] [47] [] []) = false := by decide
example : (fromParts [] [] [] [] []).lt (fromParts [] [] [47] [] []) = true := by decide
-- non-vacuity of the hypotheses of lt_trans / le_trans / le_antisymm / lt_respects_eq
example : (fromParts "http".toStr "a".toStr [] [] []).lt (fromParts "http".toStr "b".toStr [] [] []) = true ∧
    (fromParts "http".toStr "b".toStr [] [] []).lt (fromParts "https".toStr "a".toStr [] [] []) = true := by decide
example : (fromParts "http".toStr "h".toStr [] "a=1".toStr []).le (fromParts "http".toStr "h".toStr [47] "a=1".toStr []) = true ∧
    (fromParts "http".toStr "h".toStr [47] "a=1".toStr []).le (fromParts "http".toStr "h".toStr [] "a=1".toStr []) = true := by decide
-- a URL with cache pre-fill equals its pickled twin although the structures differ
example : let u : Url := { scheme := "http".toStr, netloc := "h".toStr, path := [], query := [], fragment := [],
                           pre := some ⟨some "h".toStr, none, none, none⟩ }
    pickleTwin u ≠ u ∧ (pickleTwin u).beq u = true := by decide
-- prefix ordering and code-point ordering as in Python
example : ltStr "ab".toStr "abc".toStr = true ∧ ltStr "abc".toStr "ab".toStr = false ∧
    ltStr "Z".toStr "a".toStr = true ∧ ltStr [] [] = false := by decide

end Yarl
