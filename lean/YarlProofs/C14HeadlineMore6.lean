import YarlProofs.C14Headline
import YarlProofs.C14HeadlineMore3
import YarlProofs.C14Rootless
/-!
# C14 — join() is RFC 3986 section 5.2 reference resolution   (audit layer, sixth part)

Continuation of `C14Headline.lean` / `C14HeadlineMore3.lean`: headline theorems for the proof module added after the last
refresh, `C14Rootless.lean` (over `C15More2.lean`, `C14More.lean`, `Lemmas/MeanMore.lean`).  This file is a leaf, nobody
imports it.  It closes GAPS item 7 of `C14Headline.lean` ("STILL OPEN: no comparison with `Rfc.resolve` (no iff, no "differs
by …" statement) for this shape; references with an empty or rooted path or their own authority against such a base are
not stated in any headline theorem") and the last paragraph of GAPS item 6 of `C15Headline.lean` ("STILL OPEN (both inside
case (a) …): with a base path ending in '/' the relation of `normalize_path(base.path + ref.path)` to §5.2.4 is shown on
instances only …; a ROOTED reference path against such a base has no theorem").

Property statement (verbatim):

> For a base URL whose scheme supports relative resolution and any reference, base.join(ref) has exactly
> the components computed by the RFC 3986 5.2.2 algorithm (non-strict: a reference carrying the base's
> own scheme is treated as relative) applied to the encoded components, including dot-segment removal,
> inheriting the query only when the reference path is empty, and always taking the fragment from the
> reference. A reference with a different scheme, or a base whose scheme does not support relative
> resolution, yields the reference unchanged.

What is here.  The base shape every earlier theorem excludes: a base WITH an authority and a ROOTLESS non-empty path
(`URL.build(scheme="http", host="h", path="x/y", encoded=True)` or hand-made parts).  By the kind of reference:
 * (a) ROOTED reference path — `C14_headline_rootless_base_rooted_ref`: `join` IS `Rfc.resolve`, NO hypothesis on the base
   (C15Headline.lean GAPS 6, "a ROOTED reference path against such a base has no theorem").
 * (b) EMPTY reference path — `C14_headline_rootless_base_empty_ref`, `…_empty_ref_cases`: `join` IS `Rfc.resolve` ("inheriting
   the query only when the reference path is empty, and always taking the fragment from the reference"); the base path is
   kept VERBATIM (rootless stays rootless).  NO hypothesis on the base.
 * (c) reference with its OWN AUTHORITY — `C14_headline_rootless_base_own_authority`: `join` is `Rfc.resolve` IF AND ONLY IF
   §5.2.4 leaves the reference path unchanged; when it fails the two differ in the path only;
   `…_own_authority_clean`: implied by "empty, or rooted without dot segment".  NO hypothesis on the base.
 * (d) RELATIVE-PATH reference — `C14_headline_rootless_base_relative_ref_vs_rfc`: all components but the path are the RFC's,
   the comparison is a comparison of two paths; `…_vs_rfc_slash` (base path ends with '/'): RFC path = join path with ONE
   '/' in front exactly when `C14_pathEscapes (base.path ++ ref.path)`, equal IFF it is false (C15Headline.lean GAPS 6, "the
   general relation … is proved for a base WITHOUT authority" — now also here); `…_vs_rfc_noslash` (otherwise): both
   paths in closed form through the stack algorithm, the first character of the base path is "eaten";
   `…_vs_rfc_nodots`: with no '.' in either path, `join` = `Rfc.resolve` IFF the base path ends with '/';
   `…_vs_rfc_witnesses`: computed witnesses in both directions, both sub-cases.
 The clause "has exactly the components computed by the RFC 3986 5.2.2 algorithm" stays FALSE for this shape in case (d)
 (and in (c) for a reference path with dot segments): these theorems say exactly when, and by what the paths differ.

Vocabulary (as in `C14Headline.lean` / `C14HeadlineMore3.lean`).
`p5 u`                    — the five encoded components of `u` (`Rfc.Parts5`: scheme, authority, path, query, fragment).
`Rfc.resolve B R`         — RFC 3986 §5.2.2 (non-strict) on five components; `Rfc.removeDotSegments` — §5.2.4.
`join e base ref`         — `base.join(ref)` (does not use its backend / oracles: `e` is arbitrary).
`joinPath base ref`       — the path `join` stores for a reference without authority (JoinLemmas).
`target base ref`         — the §5.2.3 merged path for this base: `base.path` up to its last '/' followed by `ref.path`.
`Gen.usesRelative`        — `urllib.parse.uses_relative` as generated from the Python sources.
`normalizePath` / `normalizePathSegments` — `yarl._path.normalize_path` / `normalize_path_segments` (the stack algorithm).
`C14_pathEscapes p` / `C14_escapes segs` — a ".." pops the first segment that reached the output (C14More.lean).
`NoDotSegments p`         — no "." / ".." segment in `p`;  `splitOn 47` / `joinC 47` — `.split('/')` / `'/'.join`.
`fromParts s n p q f`     — the URL with these five stored parts (hand-made / `build(…, encoded=True)`).
47 = '/', 46 = '.', 120 = 'x'.
-/
set_option linter.unusedVariables false
namespace Yarl
open Yarl.PathLemmas Yarl.JoinLemmas Yarl.DotMore Yarl.PathAlg
open RootlessBase

/-! ## (a) rooted reference path -/

/-- "base.join(ref) has exactly the components computed by the RFC 3986 5.2.2 algorithm … including dot-segment removal",
    for a reference without (other) scheme and without authority whose path is ROOTED: `join` is EXACTLY §5.2.2 — scheme and
    authority of the base, path = remove_dot_segments(ref.path), query and fragment of the reference.  NO hypothesis on the
    base: in particular a base with an authority and a rootless non-empty path (the shape
    `C14_headline_join_rfc_ref_not_merged` excludes).  No deviation.  Cites C14_rootless_base_rooted_ref. -/
theorem C14_headline_rootless_base_rooted_ref (e : Env) (base ref : Url)
    (hrel : Gen.usesRelative.contains base.scheme = true)
    (hsch : ref.scheme = [] ∨ ref.scheme = base.scheme)
    (hrn : ref.netloc = [])                       -- no authority
    (hr : ref.path.head? = some 47) :             -- rooted path
    p5 (join e base ref) = Rfc.resolve (p5 base) (p5 ref) ∧
    p5 (join e base ref) =
      { scheme := base.scheme, authority := base.netloc, path := Rfc.removeDotSegments ref.path,
        query := ref.query, fragment := ref.fragment } :=
  C14_rootless_base_rooted_ref e base ref hrel hsch hrn hr

/-! ## (b) empty reference path -/

/-- "inheriting the query only when the reference path is empty, and always taking the fragment from the reference", for a
    reference without (other) scheme, without authority and with an EMPTY path (`?q`, `?q#f`, `#f`, ``): `join` is EXACTLY
    §5.2.2 — scheme, authority and path of the base VERBATIM (a rootless base path stays rootless, dot segments stay), the
    query of the reference if it has one, else that of the base, the fragment of the reference.  NO hypothesis on the base.
    No deviation.  Cites C14_rootless_base_empty_ref. -/
theorem C14_headline_rootless_base_empty_ref (e : Env) (base ref : Url)
    (hrel : Gen.usesRelative.contains base.scheme = true)
    (hsch : ref.scheme = [] ∨ ref.scheme = base.scheme)
    (hrn : ref.netloc = [])                       -- no authority
    (hp : ref.path = []) :                        -- empty path
    p5 (join e base ref) = Rfc.resolve (p5 base) (p5 ref) ∧
    p5 (join e base ref) =
      { scheme := base.scheme, authority := base.netloc, path := base.path,
        query := if ref.query ≠ [] then ref.query else base.query, fragment := ref.fragment } :=
  C14_rootless_base_empty_ref e base ref hrel hsch hrn hp

/-- … the sub-cases written out: query present / fragment only / completely empty.
    Cites C14_rootless_base_empty_ref_cases. -/
theorem C14_headline_rootless_base_empty_ref_cases (e : Env) (base ref : Url)
    (hrel : Gen.usesRelative.contains base.scheme = true)
    (hsch : ref.scheme = [] ∨ ref.scheme = base.scheme)
    (hrn : ref.netloc = []) (hp : ref.path = []) :
    (join e base ref).path = base.path ∧ (join e base ref).netloc = base.netloc ∧
    (join e base ref).fragment = ref.fragment ∧
    (ref.query ≠ [] → (join e base ref).query = ref.query) ∧
    (ref.query = [] → (join e base ref).query = base.query) ∧
    (ref.query = [] → ref.fragment = [] →
      p5 (join e base ref) = { p5 base with fragment := [] }) :=
  C14_rootless_base_empty_ref_cases e base ref hrel hsch hrn hp

/-! ## (c) reference with its own authority -/

/-- a reference with its OWN authority (scheme empty or the base's): returned with the base scheme and otherwise AS IT IS;
    this is RFC 3986 §5.2.2 IF AND ONLY IF §5.2.4 leaves the reference path unchanged (the RFC removes the dot segments of
    the reference path, `join` does not).  NO hypothesis on the base.  When it fails, the two differ in the path only.
    Cites C14_rootless_base_own_authority. -/
theorem C14_headline_rootless_base_own_authority (e : Env) (base ref : Url)
    (hrel : Gen.usesRelative.contains base.scheme = true)
    (hsch : ref.scheme = [] ∨ ref.scheme = base.scheme)
    (hrn : ref.netloc ≠ []) :                     -- own authority
    p5 (join e base ref) =
      { scheme := base.scheme, authority := ref.netloc, path := ref.path, query := ref.query, fragment := ref.fragment } ∧
    Rfc.resolve (p5 base) (p5 ref) = { p5 (join e base ref) with path := Rfc.removeDotSegments ref.path } ∧
    (p5 (join e base ref) = Rfc.resolve (p5 base) (p5 ref) ↔ Rfc.removeDotSegments ref.path = ref.path) :=
  C14_rootless_base_own_authority e base ref hrel hsch hrn

/-- … for a reference path that is empty, or rooted without dot segment (every reference made by the auto-encoding API
    with an authority is of this kind: `C15_headline_reachable`), `join` IS §5.2.2.
    Cites C14_rootless_base_own_authority_clean. -/
theorem C14_headline_rootless_base_own_authority_clean (e : Env) (base ref : Url)
    (hrel : Gen.usesRelative.contains base.scheme = true)
    (hsch : ref.scheme = [] ∨ ref.scheme = base.scheme)
    (hrn : ref.netloc ≠ [])
    (hclean : ref.path = [] ∨ (ref.path.head? = some 47 ∧ NoDotSegments ref.path)) :
    p5 (join e base ref) = Rfc.resolve (p5 base) (p5 ref) :=
  C14_rootless_base_own_authority_clean e base ref hrel hsch hrn hclean

/-! ## (d) relative-path reference: exact comparison with `Rfc.resolve` -/

/-- all components: for a base WITH an authority and a ROOTLESS non-empty path and a relative-path reference, scheme,
    authority, query and fragment of `join` are the RFC's; the whole comparison is a comparison of the two paths
    `joinPath base ref` (`= (join e base ref).path`) and §5.2.4 of the §5.2.3 merged path (`target base ref`, which is
    `base.path` up to its last '/' followed by `ref.path`, non-rooted).  Cites C14_rootless_base_relative_ref_vs_rfc. -/
theorem C14_headline_rootless_base_relative_ref_vs_rfc (e : Env) (base ref : Url) (c : Nat) (rest : Str)
    (hrel : Gen.usesRelative.contains base.scheme = true)
    (hsch : ref.scheme = [] ∨ ref.scheme = base.scheme)
    (_hn : base.netloc ≠ [])                                -- base WITH an authority …
    (hbp : base.path = c :: rest) (hc : c ≠ 47)             -- … and a rootless non-empty path
    (hrn : ref.netloc = [])                                 -- relative-path reference: no authority,
    (hp : ref.path ≠ []) (hr : ref.path.head? ≠ some 47) :  -- a non-empty rootless path
    (join e base ref).path = joinPath base ref ∧
    p5 (join e base ref) = { Rfc.resolve (p5 base) (p5 ref) with path := (join e base ref).path } ∧
    (Rfc.resolve (p5 base) (p5 ref)).path = Rfc.removeDotSegments (target base ref) ∧
    target base ref = (base.path.reverse.dropWhile (· ≠ 47)).reverse ++ ref.path ∧
    (target base ref).head? ≠ some 47 ∧
    (p5 (join e base ref) = Rfc.resolve (p5 base) (p5 ref) ↔
      (join e base ref).path = Rfc.removeDotSegments (target base ref)) :=
  C14_rootless_base_relative_ref_vs_rfc e base ref c rest hrel hsch _hn hbp hc hrn hp hr

/-- base path ENDING WITH '/' (`x/y/`): the code's merged path IS the RFC's (`base.path ++ ref.path`), but it is
    normalised as a RELATIVE path.  RFC path = join path, with ONE '/' in front exactly when
    `C14_pathEscapes (base.path ++ ref.path)`; `join` equals `Rfc.resolve` on all five components IF AND ONLY IF it is
    false.  (Same deviation as for a base without authority, `C14_headline_join_rfc_iff`.)
    Cites C14_rootless_base_relative_ref_vs_rfc_slash. -/
theorem C14_headline_rootless_base_relative_ref_vs_rfc_slash (e : Env) (base ref : Url) (c : Nat) (rest : Str)
    (hrel : Gen.usesRelative.contains base.scheme = true)
    (hsch : ref.scheme = [] ∨ ref.scheme = base.scheme)
    (hn : base.netloc ≠ []) (hbp : base.path = c :: rest) (hc : c ≠ 47)
    (hrn : ref.netloc = []) (hp : ref.path ≠ []) (hr : ref.path.head? ≠ some 47)
    (hl : base.path.getLast? = some 47) :                   -- the base path ends with '/'
    (join e base ref).path = normalizePath (base.path ++ ref.path) ∧
    (Rfc.resolve (p5 base) (p5 ref)).path
      = (if C14_pathEscapes (base.path ++ ref.path) then [47] else []) ++ (join e base ref).path ∧
    Rfc.resolve (p5 base) (p5 ref)
      = { p5 (join e base ref) with
          path := (if C14_pathEscapes (base.path ++ ref.path) then [47] else []) ++ (join e base ref).path } ∧
    (p5 (join e base ref) = Rfc.resolve (p5 base) (p5 ref) ↔ C14_pathEscapes (base.path ++ ref.path) = false) :=
  C14_rootless_base_relative_ref_vs_rfc_slash e base ref c rest hrel hsch hn hbp hc hrn hp hr hl

/-- base path NOT ending with '/' (`x/y`): both paths through the stack algorithm of `yarl._path` on explicit segment
    lists.  With `S = base.path[1:].split('/')`:
      code:  '/' + '/'.join(stack([""] ++ S[:-1] ++ ref.path.split('/')))
      RFC :  ['/' if escapes] + '/'.join(stack(B[:-1] ++ ref.path.split('/'))),  B = base.path.split('/')
    — `B` is `S` with the first character `c` of the base path put back in front of its first segment: `raw_parts` eats
    `c` as if it were the root '/'.  The code's path is always rooted.
    Cites C14_rootless_base_relative_ref_vs_rfc_noslash. -/
theorem C14_headline_rootless_base_relative_ref_vs_rfc_noslash (e : Env) (base ref : Url) (c : Nat) (rest : Str)
    (hrel : Gen.usesRelative.contains base.scheme = true)
    (hsch : ref.scheme = [] ∨ ref.scheme = base.scheme)
    (hn : base.netloc ≠ []) (hbp : base.path = c :: rest) (hc : c ≠ 47)
    (hrn : ref.netloc = []) (hp : ref.path ≠ []) (hr : ref.path.head? ≠ some 47)
    (hl : base.path.getLast? ≠ some 47) :                   -- the base path does not end with '/'
    (join e base ref).path
      = 47 :: joinC 47 (normalizePathSegments ([] :: ((splitOn 47 rest).dropLast ++ splitOn 47 ref.path))) ∧
    (Rfc.resolve (p5 base) (p5 ref)).path
      = (if C14_escapes ((splitOn 47 base.path).dropLast ++ splitOn 47 ref.path) then [47] else []) ++
          joinC 47 (normalizePathSegments ((splitOn 47 base.path).dropLast ++ splitOn 47 ref.path)) ∧
    splitOn 47 base.path = (c :: (splitOn 47 rest).headD []) :: (splitOn 47 rest).tail ∧
    -- the code's path is always rooted; so equality forces the RFC's path to be rooted although its input is not
    (join e base ref).path.head? = some 47 :=
  C14_rootless_base_relative_ref_vs_rfc_noslash e base ref c rest hrel hsch hn hbp hc hrn hp hr hl

/-- NO '.' in either path (no dot segment can occur): `join` equals `Rfc.resolve` IF AND ONLY IF the base path ends with
    '/'.  Otherwise the code's path is "//" + base.path[1:]-up-to-its-last-'/' + ref.path, the RFC's is
    base.path-up-to-its-last-'/' + ref.path, which does not start with '/'.
    Cites C14_rootless_base_relative_ref_vs_rfc_nodots. -/
theorem C14_headline_rootless_base_relative_ref_vs_rfc_nodots (e : Env) (base ref : Url) (c : Nat) (rest : Str)
    (hrel : Gen.usesRelative.contains base.scheme = true)
    (hsch : ref.scheme = [] ∨ ref.scheme = base.scheme)
    (hn : base.netloc ≠ []) (hbp : base.path = c :: rest) (hc : c ≠ 47)
    (hrn : ref.netloc = []) (hp : ref.path ≠ []) (hr : ref.path.head? ≠ some 47)
    (hnodot : 46 ∉ base.path ∧ 46 ∉ ref.path) :
    (p5 (join e base ref) = Rfc.resolve (p5 base) (p5 ref) ↔ base.path.getLast? = some 47) ∧
    (base.path.getLast? ≠ some 47 →
      (join e base ref).path = 47 :: 47 :: (rest.reverse.dropWhile (· ≠ 47)).reverse ++ ref.path ∧
      (Rfc.resolve (p5 base) (p5 ref)).path = (base.path.reverse.dropWhile (· ≠ 47)).reverse ++ ref.path) :=
  C14_rootless_base_relative_ref_vs_rfc_nodots e base ref c rest hrel hsch hn hbp hc hrn hp hr hnodot

/-! ## witnesses -/

/-- witnesses in BOTH directions, both sub-cases (`join` does not use its backend; `e` is arbitrary).  Python:
    `b = URL.build(scheme="http", host="h", path="x/y", query_string="bq", encoded=True)`, `b2` with path "x/y/", `b1`
    with path "x":
      b.join(URL("c"))            path "///c"   RFC "x/c"    (differs)
      b1.join(URL("a/../../c"))   path "/c"     RFC "/c"     (COINCIDES although the base path does not end with '/')
      b1.join(URL("c"))           path "//c"    RFC "c"      (differs)
      b2.join(URL("../c"))        path "x/c"    RFC "x/c"    (coincides)
      b2.join(URL("../../c"))     path "c"      RFC "/c"     (differs by the leading '/')
    (`bx p` = `fromParts "http" "h" p "bq" ""`, `rr p q f` = `fromParts "" "" p q f`: the private abbreviations of
    C14Rootless.lean, written out.)  Cites C14_rootless_base_relative_ref_vs_rfc_witnesses. -/
theorem C14_headline_rootless_base_relative_ref_vs_rfc_witnesses (e : Env) :
    let bx := fun (p : String) => fromParts "http".toStr "h".toStr p.toStr "bq".toStr []
    let rr := fun (p q f : String) => fromParts [] [] p.toStr q.toStr f.toStr
    ((join e (bx "x/y") (rr "c" "" "")).path = "///c".toStr ∧
      (Rfc.resolve (p5 (bx "x/y")) (p5 (rr "c" "" ""))).path = "x/c".toStr ∧
      p5 (join e (bx "x/y") (rr "c" "" "")) ≠ Rfc.resolve (p5 (bx "x/y")) (p5 (rr "c" "" ""))) ∧
    ((join e (bx "x") (rr "a/../../c" "" "")).path = "/c".toStr ∧
      p5 (join e (bx "x") (rr "a/../../c" "" "")) = Rfc.resolve (p5 (bx "x")) (p5 (rr "a/../../c" "" ""))) ∧
    ((join e (bx "x") (rr "c" "" "")).path = "//c".toStr ∧
      (Rfc.resolve (p5 (bx "x")) (p5 (rr "c" "" ""))).path = "c".toStr) ∧
    ((join e (bx "x/y/") (rr "../c" "" "")).path = "x/c".toStr ∧
      p5 (join e (bx "x/y/") (rr "../c" "" "")) = Rfc.resolve (p5 (bx "x/y/")) (p5 (rr "../c" "" ""))) ∧
    ((join e (bx "x/y/") (rr "../../c" "" "")).path = "c".toStr ∧
      (Rfc.resolve (p5 (bx "x/y/")) (p5 (rr "../../c" "" ""))).path = "/c".toStr ∧
      p5 (join e (bx "x/y/") (rr "../../c" "" "")) ≠ Rfc.resolve (p5 (bx "x/y/")) (p5 (rr "../../c" "" ""))) :=
  C14_rootless_base_relative_ref_vs_rfc_witnesses e

/-- the hypotheses of the shape hold for the witness base `b` (non-vacuity of (d)) -/
example : (fromParts "http".toStr "h".toStr "x/y".toStr "bq".toStr []).netloc ≠ [] ∧
    (fromParts "http".toStr "h".toStr "x/y".toStr "bq".toStr []).path = 120 :: "/y".toStr ∧ (120 : Nat) ≠ 47 ∧
    Gen.usesRelative.contains (fromParts "http".toStr "h".toStr "x/y".toStr "bq".toStr []).scheme = true := by decide

end Yarl
