import YarlProofs.C18Headline
import YarlProofs.C18HeadlineMore3
import YarlProofs.C18More3
import YarlProofs.C18More3b
import YarlProofs.C18More3Join
import YarlProofs.C18More3JoinB
import YarlProofs.C18More3Spell
/-!
  C18HeadlineMore4.lean — AUDIT LAYER for property C18, continuation of C18Headline.lean / C18HeadlineMore3.lean (the
  theorems here need C18More3.lean, C18More3b.lean, C18More3Join.lean, C18More3JoinB.lean, C18More3Spell.lean, written
  after C18HeadlineMore3.lean; this file is a leaf, nobody imports it).

  C18 | human_repr() is readable and round-trips |
  "For every absolute URL built from decoded components - any Unicode text in user, password, path, query
  keys/values and fragment; IDN, IPv4 or IPv6 host - URL(u.human_repr()) == u, and human_repr() shows
  printable non-ASCII text and the IDN host decoded rather than escaped. Only characters that would change
  the parse in their position, '%' and non-printable characters are escaped."

  What is here:
  * GAPS 6 (i) of C18Headline.lean — the '%' escape, UNIVERSALLY: at the level of the stored component the literal '%'
    changes the re-parse IFF it is followed by two hex digits (every position, every decoded text); at URL level the same
    `iff` for path / query key / query value / fragment, and the direction "not needed" for all six positions; the
    decoded-level converse is FALSE ("%FF") — cites C18More3.lean, C18More3b.lean;
  * GAPS 6 (ii) — the non-printable escapes, UNIVERSALLY: every set of non-printable characters other than TAB / LF / CR
    may be left literal in any position of any URL with `StoresOK`; TAB / LF / CR are dropped by `URL(…)` for every input;
  * GAPS 10 — the instrumented copy `R5.humanReprLit` IS `human_repr()` when nothing is literal, for every URL;
  * GAPS 2(e) — `join`: the result of `base.join(ref)` stores the encodings of decoded components for an absolute, a
    relative and a network-path reference that store them; the decoded join path is the path of RFC 3986 §5.2.2; chains of
    modifiers AND `join` steps (`HumanReachJ`); how a relative reference storing decoded components is made by the public
    API, and the side condition that is needed there ("a:b") — cites C18More3Join.lean, C18More3JoinB.lean;
  * GAPS 9 / 2(d) — the SPELLING CONDITIONS of the constructor theorem characterised SYNTACTICALLY, in both directions, and
    the constructor theorem restated with syntactic hypotheses; spellings that spell nothing (`%2F` in a path, `%FF`, `%20`
    in a query) — cites C18More3Spell.lean.
  STILL OPEN after this file: `join` with a reference (or a base) that does NOT store encodings of decoded components, a
  relative reference made by the constructor from a non-canonical spelling; `build(authority=<arbitrary raw text>)`; the
  '%' rule at URL level in the direction "needed" for user / password (proved at component level only); the NFKC proviso
  (F-C18-nfkc-userinfo) is a hypothesis everywhere (GAPS 1).

  Vocabulary added by C18More3.lean / C18More3b.lean (namespace `R12`; `StoresOK`, `humanReprLit`, `positions`,
  `HumanReachC`: C18Headline.lean / C18HeadlineMore3.lean):
  `R12.twoHex s`     — the text `s` starts with two hex digits (either case): `re.match("[0-9a-fA-F]{2}", s)`.
  `R5.humanQuoteLit o x uns lit` — `human_quote(x, uns)` (`uns`: the position's escape list `humanUnsafeOf …`) with the
                       characters selected by `lit` left literal.
  `R12.LitChars uns lit x` — every selected character of `x` is none of TAB / LF / CR and is not in the list `uns`.
  `R12.PctOK lit x`  — no SELECTED '%' of `x` is followed (in `x`) by two hex digits.
  `R12.textsAt comp user pw p kvs f` — the decoded texts in position `comp` ("user", "password", "path", "k", "v",
                       "fragment") of a URL storing these components (for "k" / "v": all keys / all values).
  `R12.LitSafeAt comp lit user pw p kvs f` — `LitChars (humanUnsafeOf comp) lit x ∧ PctOK lit x` for all of them
                       (decidable).
  Vocabulary added by C18More3Join.lean (namespace `R12c`):
  `R12c.RelStores e ref rp kvs f` — `ref` is a RELATIVE reference that stores the encodings of decoded components:
                       `ref.scheme == ""`, `ref.raw_authority == ""`, `ref.raw_path == PATH_QUOTER(rp)` for ANY text
                       `rp` (empty, rooted, rootless, with dot segments), `ref.raw_query_string` the `k=v&…` text of the
                       pairs, `ref.raw_fragment == FRAGMENT_QUOTER(f)` ("" for ""); no lone surrogates.
  `R12c.NetRefOK e ref user pw H port p kvs f` — a NETWORK-PATH reference (`//host/path…`: no scheme, an authority) with
                       `Stores` and the side conditions of `StoresOK` other than the scheme.
  `R12c.joinTail p rp` — the DECODED path (without its leading "/") of `base.join(ref)`: the base's `p` for `rp == ""`,
                       else `rp` (rooted) or `"/" ++ p` cut after its last "/" followed by `rp`, dot segments removed.
  `R12c.HumanReachJ e u` — `HumanReachC` (build / constructor + modifiers) closed under modifier steps and three `join`
                       steps: relative reference (`RelStores`), network-path reference (`NetRefOK`) — both for a base
                       in `HumanReachJ` whose scheme has relative resolution —, absolute reference in `HumanReachJ`
                       (base ANY URL).
  Vocabulary added by C18More3Spell.lean (namespace `R12d`):
  `R12d.SpellsP P s d` — the written text `s` SPELLS the decoded text `d` in position `P`: character by character, a
                       literal character other than '%' (standing for what `P.lit` says), a '%' not followed by two hex
                       digits (standing for '%'), or the `%XY…` escapes (either hex case) of the UTF-8 bytes of a character
                       that `P.esc` allows to be escaped.  An inductive relation; `R12d.spellsB` is its Bool checker.
  `R12d.SpellsPath` / `SpellsPlain` / `SpellsQV` — the relation for the path (`pathPos`: every literal stands for itself;
                       '/' and '+' may NOT be escaped), for fragment and userinfo (`plainPos`: no restriction), for a
                       query key / value (`queryPos`: literal ' ' and '+' stand for a space, literal '=', '&', ';' for
                       nothing, a space may NOT be written `%20`).
  `R12d.SpellsOpt y x` — optional texts: both absent, or both present and `SpellsPlain`.
  `R12d.AllSpell ps kvs` — the written pairs `ps` spell the decoded pairs `kvs` one by one (same number; `SpellsQV` for
                       key and value); `rawQuery ps` is the text `rk1=rv1&rk2=rv2…`.
  `R12d.Spells t t'` / `R12d.TabPair t t'` — the relation determined by a pair of quoter tables, and the decidable
                       conditions on the pair under which the generic theorem holds.
-/
set_option linter.unusedVariables false
namespace Yarl
open HumanLemmas HumanFull HumanMore HumanRelax QueryUrl QsLemmas NetlocLemmas PathAlg PathLemmas PathMore HumanReach
open R5 R12 R12c R12d

/-! ## Sentence 2 — "'%' … [is] escaped": WHEN the escape is needed for the parse, universally (GAPS 6 (i)) -/

/-- "'%' … [is] escaped" — for EVERY decoded text `x ++ "%" ++ y` (no lone surrogates) and every position kind, with `X`,
    `Y` what `human_quote` shows for `x`, `y`: the text `X ++ "%" ++ Y` (this '%' left literal) is read by the
    constructor's requoter as the encoding that `build` stores for the decoded text IF AND ONLY IF the '%' is NOT followed
    by two hex digits (`twoHex y = false`).  So the escape of '%' "would change the parse" — the STORED component, hence
    `==` — exactly in front of two hex digits; `human_quote` has no look-ahead and escapes every '%', as the property
    says.  Both backends.  Replaces the three witness texts of `C18_headline_percent_escape_needed`.
    Cites C18_percent_literal_iff (C18More3.lean). -/
theorem C18_headline_percent_escape_needed_iff (e : Env) (x y X Y : Str)
    (hx : PyStr x) (hxn : NoSurrogate x) (hy : PyStr y) (hyn : NoSurrogate y) :   -- Python strings, no lone surrogates
    (∀ key, key = "user" ∨ key = "password" →                       -- user / password: REQUOTER vs QUOTER
      humanQuote e.o x (humanUnsafeOf key) = .ok X → humanQuote e.o y (humanUnsafeOf key) = .ok Y →
      (q e Gen.REQUOTER (X ++ 37 :: Y) = q e Gen.QUOTER (x ++ 37 :: y) ↔ twoHex y = false)) ∧
    (humanQuote e.o x (humanUnsafeOf "path") = .ok X → humanQuote e.o y (humanUnsafeOf "path") = .ok Y →   -- path
      (q e Gen.PATH_REQUOTER (X ++ 37 :: Y) = q e Gen.PATH_QUOTER (x ++ 37 :: y) ↔ twoHex y = false)) ∧
    (∀ key, key = "k" ∨ key = "v" →                                 -- query key / value
      humanQuote e.o x (humanUnsafeOf key) = .ok X → humanQuote e.o y (humanUnsafeOf key) = .ok Y →
      (q e Gen.QUERY_REQUOTER (X ++ 37 :: Y) = q e Gen.QUERY_PART_QUOTER (x ++ 37 :: y) ↔ twoHex y = false)) ∧
    (humanQuote e.o x (humanUnsafeOf "fragment") = .ok X → humanQuote e.o y (humanUnsafeOf "fragment") = .ok Y →
      (q e Gen.FRAGMENT_REQUOTER (X ++ 37 :: Y) = q e Gen.FRAGMENT_QUOTER (x ++ 37 :: y) ↔ twoHex y = false)) :=
  C18_percent_literal_iff e x y X Y hx hxn hy hyn

/-- … with EVERY '%' of the decoded text `x` left literal (or any set `lit` of characters none of which is TAB / LF / CR
    or in the position's escape list): the requoter reads the shown text `X` as the encoding `build` stores for `x` IFF no '%'
    that was left literal is followed by two hex digits in `x` (`PctOK lit x`).  Every position kind, both backends.
    For user / password this is the ONLY form of the direction "needed" (the URL-level `iff` below is for the other four
    positions).  Cites C18_percent_literal_all_iff (C18More3.lean). -/
theorem C18_headline_percent_escape_needed_all_iff (e : Env) (lit : Nat → Bool) (x X : Str)
    (hx : PyStr x) (hxn : NoSurrogate x) :                          -- a Python string without lone surrogates
    (∀ key, key = "user" ∨ key = "password" →
      humanQuoteLit e.o x (humanUnsafeOf key) lit = .ok X → LitChars (humanUnsafeOf key) lit x →
      (q e Gen.REQUOTER X = q e Gen.QUOTER x ↔ PctOK lit x)) ∧
    (humanQuoteLit e.o x (humanUnsafeOf "path") lit = .ok X → LitChars (humanUnsafeOf "path") lit x →
      (q e Gen.PATH_REQUOTER X = q e Gen.PATH_QUOTER x ↔ PctOK lit x)) ∧
    (∀ key, key = "k" ∨ key = "v" →
      humanQuoteLit e.o x (humanUnsafeOf key) lit = .ok X → LitChars (humanUnsafeOf key) lit x →
      (q e Gen.QUERY_REQUOTER X = q e Gen.QUERY_PART_QUOTER x ↔ PctOK lit x)) ∧
    (humanQuoteLit e.o x (humanUnsafeOf "fragment") lit = .ok X → LitChars (humanUnsafeOf "fragment") lit x →
      (q e Gen.FRAGMENT_REQUOTER X = q e Gen.FRAGMENT_QUOTER x ↔ PctOK lit x)) :=
  C18_percent_literal_all_iff e lit x X hx hxn

/-- "'%' … [is] escaped" at URL LEVEL, BOTH directions, for the positions path, query key, query value, fragment: `u` ANY
    URL object that stores the encodings of decoded components (`StoresOK`), `hr` its `human_repr()` with the characters
    selected by `lit` left literal in position `comp` (`lit = (· == 37)`: every '%' of the position).  Then
    `URL(hr) == u` IF AND ONLY IF no '%' that was left literal stands in front of two hex digits in its decoded text.
    NOT stated for user / password (there: "⇐" by `C18_headline_percent_literal_roundtrip`, "⇒" at component level only,
    `C18_headline_percent_escape_needed_all_iff`).  Cites C18_percent_literal_url_iff (C18More3b.lean). -/
theorem C18_headline_percent_escape_url_iff (e : Env) (u : Url) (user pw : Option Str) (H : Str) (port : Option Nat)
    (p : Str) (kvs : List (Str × Str)) (f : Str)
    (ok : StoresOK e u user pw H port p kvs f)      -- `u` stores the encodings of the decoded components (+ side conditions)
    (comp : String) (hcomp : comp = "path" ∨ comp = "k" ∨ comp = "v" ∨ comp = "fragment")   -- NOT user / password
    (lit : Nat → Bool)
    -- the characters left literal are none of TAB / LF / CR and none of the position's escape list
    (hch : ∀ x ∈ textsAt comp user pw p kvs f, LitChars (humanUnsafeOf comp) lit x)
    (hr : Str) (hh : humanReprLit comp lit e u = .ok hr)            -- `hr`: `human_repr()` with those characters literal
    -- NFKC proviso (F-C18-nfkc-userinfo) on the shown authority
    (hnf : isAscii (Rfc.appendixB Gen.schemeChars hr).authority = false →
      checkNetloc e.o (Rfc.appendixB Gen.schemeChars hr).authority = .ok ()) :
    (∃ v, encodeUrl e hr = .ok v ∧ Url.beq v u = true) ↔ ∀ x ∈ textsAt comp user pw p kvs f, PctOK lit x :=
  C18_percent_literal_url_iff e u user pw H port p kvs f ok comp hcomp lit hch hr hh hnf

/-- … and the direction "NOT needed" for ALL SIX positions (user and password included): when no '%' of the decoded texts
    of the position is followed by two hex digits, the text shown with every '%' of that position left LITERAL is read
    back by `URL(…)` to an equal URL.  Cites C18_percent_literal_roundtrip (C18More3.lean). -/
theorem C18_headline_percent_literal_roundtrip (e : Env) (u : Url) (user pw : Option Str) (H : Str) (port : Option Nat)
    (p : Str) (kvs : List (Str × Str)) (f : Str)
    (ok : StoresOK e u user pw H port p kvs f)      -- `u` stores the encodings of the decoded components
    (comp : String) (hpos : comp ∈ positions)       -- one of "user", "password", "path", "k", "v", "fragment"
    (hpct : ∀ x ∈ textsAt comp user pw p kvs f, PctOK (· == 37) x) :   -- no '%' there is followed by two hex digits
    ∀ hr, humanReprLit comp (· == 37) e u = .ok hr →
      (isAscii (Rfc.appendixB Gen.schemeChars hr).authority = false →            -- NFKC proviso (F-C18-nfkc-userinfo)
        checkNetloc e.o (Rfc.appendixB Gen.schemeChars hr).authority = .ok ()) →
      ∃ v, encodeUrl e hr = .ok v ∧ Url.beq v u = true :=
  C18_percent_literal_roundtrip e u user pw H port p kvs f ok comp hpos hpct

/-- NEGATIVE RESULT: the rule "needed iff followed by two hex digits" is FALSE when "changes the parse" is read on the
    DECODED accessors instead of the stored components.  Decoded text "%FF" (`URL.build(scheme="http", host="h",
    path="/%FF")`, or user / fragment "%FF"): its '%' IS followed by two hex digits; left literal, the requoter keeps
    `%FF` (stored `%FF`, `build` stores `%25FF`: the URLs are not `==`), but `%FF` is not UTF-8, the unquoter keeps it
    verbatim and `.path` / `.user` / `.fragment` read "%FF" again.  Both backends.
    Cites C18_percent_literal_decoded_converse_fails (C18More3.lean); the direction that does hold at decoded level is
    C18_percent_literal_decoded (ibid., not restated). -/
theorem C18_headline_percent_rule_decoded_level_false : ∀ b : Backend,
    let e : Env := ⟨b, Oracles.empty⟩
    twoHex "FF".toStr = true ∧
    humanQuote e.o [] (humanUnsafeOf "path") = .ok [] ∧ humanQuote e.o "FF".toStr (humanUnsafeOf "path") = .ok "FF".toStr ∧
    q e Gen.PATH_REQUOTER "%FF".toStr = "%FF".toStr ∧ q e Gen.PATH_QUOTER "%FF".toStr = "%25FF".toStr ∧
    uq e Gen.PATH_UNQUOTER (q e Gen.PATH_REQUOTER "%FF".toStr) = "%FF".toStr ∧
    uq e Gen.UNQUOTER (q e Gen.REQUOTER "%FF".toStr) = "%FF".toStr ∧
    uq e Gen.UNQUOTER (q e Gen.FRAGMENT_REQUOTER "%FF".toStr) = "%FF".toStr :=
  C18_percent_literal_decoded_converse_fails

/-! ## Sentence 2 — "non-printable characters are escaped": which of these escapes the parse needs, universally
    (GAPS 6 (ii), GAPS 10) -/

/-- the UNIVERSAL statement behind both classifications: `u` ANY URL with `StoresOK`; `hr` its `human_repr()` with the
    characters selected by `lit` left LITERAL in position `comp`.  If in every decoded text of that position the selected
    characters are none of TAB / LF / CR, none of the position's escape list, and no selected '%' stands in
    front of two hex digits (`LitSafeAt`, decidable), then `URL(hr)` succeeds, is `== u` and stores the same decoded
    components.  Cites C18_literal_roundtrip (C18More3.lean). -/
theorem C18_headline_literal_roundtrip (e : Env) (u : Url) (user pw : Option Str) (H : Str) (port : Option Nat) (p : Str)
    (kvs : List (Str × Str)) (f : Str)
    (ok : StoresOK e u user pw H port p kvs f)      -- `u` stores the encodings of the decoded components
    (comp : String) (lit : Nat → Bool)
    (hsafe : LitSafeAt comp lit user pw p kvs f) :  -- the characters left literal are harmless in position `comp`
    ∀ hr, humanReprLit comp lit e u = .ok hr →
      (isAscii (Rfc.appendixB Gen.schemeChars hr).authority = false →            -- NFKC proviso (F-C18-nfkc-userinfo)
        checkNetloc e.o (Rfc.appendixB Gen.schemeChars hr).authority = .ok ()) →
      ∃ v, encodeUrl e hr = .ok v ∧ Url.beq v u = true ∧ StoresOK e v user pw H port p kvs f :=
  C18_literal_roundtrip e u user pw H port p kvs f ok comp lit hsafe

/-- "non-printable characters are escaped" — NONE of these escapes is needed for the parse, except those of TAB, LF and
    CR, UNIVERSALLY: for every URL with `StoresOK`, every position and EVERY set `lit` of characters that
    `str.isprintable()` rejects (C0 controls, DEL, every non-printable non-ASCII character, whatever the `isprintable`
    oracle says) other than TAB / LF / CR, the text shown with those characters left literal is read back by `URL(…)`
    to an equal URL.  Replaces the 14-character sample of `C18_headline_nonprintable_escape_classified`.
    Cites C18_nonprintable_literal_roundtrip (C18More3.lean). -/
theorem C18_headline_nonprintable_escapes_not_needed (e : Env) (u : Url) (user pw : Option Str) (H : Str)
    (port : Option Nat) (p : Str) (kvs : List (Str × Str)) (f : Str)
    (ok : StoresOK e u user pw H port p kvs f)      -- `u` stores the encodings of the decoded components
    (comp : String) (lit : Nat → Bool)
    -- every character left literal is NON-PRINTABLE and is none of TAB, LF, CR
    (hlit : ∀ c, lit c = true → isPrintableChar e.o c = .ok false ∧ c ≠ 9 ∧ c ≠ 10 ∧ c ≠ 13) :
    ∀ hr, humanReprLit comp lit e u = .ok hr →
      (isAscii (Rfc.appendixB Gen.schemeChars hr).authority = false →            -- NFKC proviso (F-C18-nfkc-userinfo)
        checkNetloc e.o (Rfc.appendixB Gen.schemeChars hr).authority = .ok ()) →
      ∃ v, encodeUrl e hr = .ok v ∧ Url.beq v u = true :=
  C18_nonprintable_literal_roundtrip e u user pw H port p kvs f ok comp lit hlit

/-- … and the converse for TAB, LF, CR, for EVERY input string: `URL(s)` IS `URL(s without its TAB / LF / CR characters)`
    (`split_url` removes them first; the removed set is exactly TAB, CR, LF).  So a TAB / LF / CR left literal in a decoded
    text is silently dropped by the re-parse: THAT escape is needed.  Cites C18_tab_lf_cr_dropped (C18More3.lean). -/
theorem C18_headline_tab_lf_cr_dropped (e : Env) (s : Str) :
    encodeUrl e s = encodeUrl e (s.filter (fun c => !mem c Gen.removeSet)) ∧ Gen.removeSet = [9, 13, 10] :=
  C18_tab_lf_cr_dropped e s

/-- GAPS 10: the instrumented copy `R5.humanReprLit` of `human_repr()` IS `human_repr()` when nothing is left literal —
    for EVERY URL, environment and position name (it was tied by one computed instance, `C18_humanReprLit_std`).
    Cites C18_humanReprLit_none (C18More3.lean). -/
theorem C18_headline_humanReprLit_is_human_repr (comp : String) (e : Env) (u : Url) :
    humanReprLit comp (fun _ => false) e u = humanRepr e u :=
  C18_humanReprLit_none comp e u

/-! ## Sentence 1, first half — "URL(u.human_repr()) == u" for the results of `join` (GAPS 2(e), "WHAT REMAINS") -/

/-- `base.join(ref)` for a base that stores decoded components (`StoresOK`) under a scheme with relative resolution, and a
    RELATIVE reference that stores the encodings of the decoded path `rp` (ANY shape), pairs `kvs'`, fragment `f'`
    (`RelStores`): the result stores the authority of the base, the merged and normalised DECODED path `joinTail p rp`,
    the query of the reference unless the reference has neither path nor query, and the fragment of the reference — with
    all side conditions of the master theorem.  Cites C18_stores_join_relative (C18More3Join.lean). -/
theorem C18_headline_join_relative_stores (e : Env) (base ref : Url) (user pw : Option Str) (H : Str)
    (port : Option Nat) (p : Str) (kvs : List (Str × Str)) (f : Str)
    (ok : StoresOK e base user pw H port p kvs f)   -- the base stores the encodings of decoded components
    (rp : Str) (kvs' : List (Str × Str)) (f' : Str)
    (rs : RelStores e ref rp kvs' f')               -- the reference: no scheme, no authority, encodings of `rp`, `kvs'`, `f'`
    (hrel : Gen.usesRelative.contains base.scheme = true) :   -- the base scheme has relative resolution (http, https, ftp, …)
    StoresOK e (join e base ref) user pw H port (joinTail p rp) (if rp ≠ [] ∨ kvs' ≠ [] then kvs' else kvs) f' :=
  C18_stores_join_relative e base ref user pw H port p kvs f ok rp kvs' f' rs hrel

/-- … where the decoded join path IS the path of RFC 3986 §5.2.2 reference resolution (`Rfc.resolve`, the independent
    spec of C14) applied to the DECODED base path `"/" ++ p` and the DECODED non-empty reference path: `join` commutes with
    decoding.  (`joinTail p "" = p`: `C18_joinTail_empty`.)  Cites C18_joinTail_rfc (C18More3Join.lean). -/
theorem C18_headline_join_path_is_rfc (sc A Q F Q' F' : Str) (p rp : Str)
    (hne : rp ≠ []) :                               -- a reference with a path
    (Rfc.resolve ⟨sc, A, 47 :: p, Q, F⟩ ⟨[], [], rp, Q', F'⟩).path = 47 :: joinTail p rp :=
  C18_joinTail_rfc sc A Q F Q' F' p rp hne

/-- `base.join(ref)` for an ABSOLUTE reference that stores decoded components, `base` ANY URL object: the result stores
    the same decoded components and has the five parts of `ref` (it IS `ref` when the schemes differ or the scheme has no
    relative resolution).  And for a NETWORK-PATH reference `//host/path` (`NetRefOK`) under a base with a valid scheme
    that has relative resolution: the result is `from_parts(base.scheme, ref's other four parts)` and stores the
    reference's decoded components.  Cites C18_stores_join_absolute, C18_stores_join_netpath (C18More3Join.lean). -/
theorem C18_headline_join_absolute_netpath_stores (e : Env) (base ref : Url) (user pw : Option Str) (H : Str)
    (port : Option Nat) (p : Str) (kvs : List (Str × Str)) (f : Str) :
    (StoresOK e ref user pw H port p kvs f →        -- an absolute reference storing decoded components
      StoresOK e (join e base ref) user pw H port p kvs f ∧ (join e base ref).parts = ref.parts ∧
      ((ref.scheme ≠ base.scheme ∨ Gen.usesRelative.contains ref.scheme = false) → join e base ref = ref)) ∧
    (ValidScheme base.scheme → Gen.usesRelative.contains base.scheme = true →
      NetRefOK e ref user pw H port p kvs f →       -- a network-path reference storing decoded components
      join e base ref = fromParts base.scheme ref.netloc ref.path ref.query ref.fragment ∧
      StoresOK e (join e base ref) user pw H port p kvs f) :=
  ⟨fun ok => let ⟨h1, h2, h3, _⟩ := C18_stores_join_absolute e base ref user pw H port p kvs f ok; ⟨h1, h2, h3⟩,
   fun vsb hrel nr => C18_stores_join_netpath e base ref user pw H port p kvs f vsb hrel nr⟩

/-- "URL(u.human_repr()) == u" for `u = base.join(ref)`: `ref` absolute and storing decoded components (`base` ANY URL),
    or `base` storing decoded components under a scheme with relative resolution and `ref` a relative or a network-path
    reference storing decoded components — NFKC proviso as everywhere.  Cites C18_roundtrip_join (C18More3Join.lean). -/
theorem C18_headline_roundtrip_join (e : Env) (base ref : Url)
    (h : (∃ user pw H port p kvs f, StoresOK e ref user pw H port p kvs f) ∨     -- an absolute reference, any base
      ((∃ user pw H port p kvs f, StoresOK e base user pw H port p kvs f) ∧      -- or: a base storing decoded components
        Gen.usesRelative.contains base.scheme = true ∧                           --   under a scheme with relative resolution
        ((∃ rp kvs' f', RelStores e ref rp kvs' f') ∨                            --   and a relative reference
          (∃ user pw H port p kvs f, NetRefOK e ref user pw H port p kvs f)))) : --   or a network-path reference
    ∀ hr, humanRepr e (join e base ref) = .ok hr →
      (isAscii (Rfc.appendixB Gen.schemeChars hr).authority = false →            -- NFKC proviso (F-C18-nfkc-userinfo)
        checkNetloc e.o (Rfc.appendixB Gen.schemeChars hr).authority = .ok ()) →
      ∃ v, encodeUrl e hr = .ok v ∧ Url.beq v (join e base ref) = true :=
  C18_roundtrip_join e base ref h

/-- "URL(u.human_repr()) == u" for every URL obtained from `URL.build` / the constructor (human or canonical input) by
    ANY finite chain of modifiers with decoded arguments AND `join` steps (`HumanReachJ`): every such URL stores the
    encodings of decoded components (`StoresOK`), hence round-trips (NFKC proviso).
    Cites C18_reachJ_stores, C18_roundtrip_reachJ (C18More3Join.lean). -/
theorem C18_headline_roundtrip_reachable_with_join (e : Env) (u : Url)
    (hr : HumanReachJ e u) :                        -- build / constructor + a chain of modifiers and `join` steps
    (∃ user pw H port p kvs f, StoresOK e u user pw H port p kvs f) ∧
    ∀ t, humanRepr e u = .ok t →
      (isAscii (Rfc.appendixB Gen.schemeChars t).authority = false →             -- NFKC proviso (F-C18-nfkc-userinfo)
        checkNetloc e.o (Rfc.appendixB Gen.schemeChars t).authority = .ok ()) →
      ∃ v, encodeUrl e t = .ok v ∧ Url.beq v u = true :=
  ⟨C18_reachJ_stores e u hr, C18_roundtrip_reachJ e u hr⟩

/-- the hypothesis `RelStores` is ESTABLISHED by the public API: `URL.build(path=rp, query=[(k, v), …], fragment=f)`
    without scheme and host, for ANY decoded path text `rp`; and the constructor on the text `str(ref)` of such a
    reference, PROVIDED the first segment of the decoded path has no ':'.
    Cites C18_relstores_build, C18_relstores_constructor_first_segment (C18More3Join.lean; the exact condition, on the
    encoded path, is C18_relstores_constructor, ibid.). -/
theorem C18_headline_relative_reference_established (e : Env) (rp : Str) (kvs : List (Str × Str)) (f : Str)
    (hp : PyStr rp) (hn : NoSurrogate rp)           -- decoded path: a Python string without lone surrogates
    (hg : GoodPairs kvs) (hf : PyStr f) (hfn : NoSurrogate f) :   -- decoded pairs / fragment: no lone surrogates
    (∃ r, build e { path := rp, query := .pairs (strItems kvs), fragment := f } = .ok r ∧ RelStores e r rp kvs f) ∧
    (58 ∉ rp.takeWhile (· ≠ 47) →                   -- no ':' in the first segment of the decoded path
      ∃ r, encodeUrl e (unsplitResult [] [] (q e Gen.PATH_QUOTER rp) (qtext e.b kvs) (fragText e f)) = .ok r ∧
        RelStores e r rp kvs f) :=
  ⟨C18_relstores_build e rp kvs f hp hn hg hf hfn,
   fun hseg => let ⟨r, h1, _, h3⟩ := C18_relstores_constructor_first_segment e rp kvs f hp hn hg hf hfn hseg; ⟨r, h1, h3⟩⟩

/-- NON-VACUITY of the constructor clause above, and the side condition is NEEDED (both backends, oracle
    `HumanReach.demoIdn`): `URL("../x%20y?q=1+2#g%20h")` is the relative reference storing the decoded path "../x y", the
    pair ("q", "1 2"), the fragment "g h"; for the decoded path "a:b" the text `str(ref)` is "a:b" and `URL("a:b")` reads
    scheme "a", path "b" — NOT the reference.  Cites C18_relstores_constructor_instance (C18More3JoinB.lean). -/
theorem C18_headline_relative_reference_constructor_example : ∀ b : Backend,
    unsplitResult [] [] (q (demoEnv b) Gen.PATH_QUOTER "../x y".toStr) (qtext b [("q".toStr, "1 2".toStr)])
      (fragText (demoEnv b) "g h".toStr) = "../x%20y?q=1+2#g%20h".toStr ∧
    (∃ r, encodeUrl (demoEnv b) "../x%20y?q=1+2#g%20h".toStr = .ok r ∧
      RelStores (demoEnv b) r "../x y".toStr [("q".toStr, "1 2".toStr)] "g h".toStr) ∧
    unsplitResult [] [] (q (demoEnv b) Gen.PATH_QUOTER "a:b".toStr) (qtext b []) (fragText (demoEnv b) []) = "a:b".toStr ∧
    (encodeUrl (demoEnv b) "a:b".toStr).map Url.parts = .ok (mkP "a" "" "b" "" "") :=
  C18_relstores_constructor_instance

/-- NON-VACUITY of `C18_headline_join_relative_stores` / `C18_headline_roundtrip_join` / `HumanReachJ` (both backends,
    oracle `HumanReach.demoIdn`; hypotheses discharged by computation): base `http://us er@example.com/a b/c d?k=v#f`
    (`R12c.demoBase`), reference built from the decoded path "../x y", pairs [("q", "1 2")], fragment "g h".  The result
    stores user "us er", host example.com, the decoded path "/x y", the pairs and the fragment of the reference; it is in
    `HumanReachJ`; it is shown `http://us er@example.com/x y?q=1 2#g h`, and `URL(…)` of that is `==` the result; a
    modifier applied to it stays in `HumanReachJ`.  Cites C18_join_relative_instance (C18More3JoinB.lean). -/
theorem C18_headline_join_relative_example : ∀ b : Backend,
    ∃ base ref, build (demoEnv b) demoBase = .ok base ∧
      build (demoEnv b) (relArgs "../x y".toStr [("q".toStr, "1 2".toStr)] "g h".toStr) = .ok ref ∧
      RelStores (demoEnv b) ref "../x y".toStr [("q".toStr, "1 2".toStr)] "g h".toStr ∧
      joinTail "a b/c d".toStr "../x y".toStr = "x y".toStr ∧
      StoresOK (demoEnv b) (join (demoEnv b) base ref) (some "us er".toStr) none "example.com".toStr none "x y".toStr
        [("q".toStr, "1 2".toStr)] "g h".toStr ∧
      HumanReachJ (demoEnv b) (join (demoEnv b) base ref) ∧
      humanRepr (demoEnv b) (join (demoEnv b) base ref) = .ok "http://us er@example.com/x y?q=1 2#g h".toStr ∧
      (∃ v, encodeUrl (demoEnv b) "http://us er@example.com/x y?q=1 2#g h".toStr = .ok v ∧
        Url.beq v (join (demoEnv b) base ref) = true) ∧
      ∃ w, applyOp (demoEnv b) (join (demoEnv b) base ref) (HOp.withFragment none).toUOp = .ok w ∧
        HumanReachJ (demoEnv b) w :=
  C18_join_relative_instance

/-! ## Sentence 1, first half — the constructor: the SPELLING CONDITIONS characterised syntactically (GAPS 9, 2(d)) -/

/-- GAPS 9: the spelling conditions of `C18_headline_constructor_any_spelling` — EQUATIONS between quoter outputs — are,
    for texts without lone surrogates and on both backends, EQUIVALENT to the syntactic relation "the written text `s`
    spells the decoded text `d`" of the position:
    path — `d` with any of its characters EXCEPT '/' and '+' written as `%XY…` (UTF-8 bytes, either hex case), a '%' of
    `d` written literally only where no two hex digits follow; fragment and userinfo — the same with no exception;
    query key / value — a space written ' ' or '+' (NOT `%20`), '+', '=', '&', ';' written `%2B`, `%3D`, `%26`, `%3B`
    only, any other character literal or escaped.
    Cites C18_spelling_path, C18_spelling_fragment, C18_spelling_userinfo, C18_spelling_query_value
    (C18More3Spell.lean). -/
theorem C18_headline_spelling_conditions_syntactic (e : Env) (s d : Str)
    (hs : PyStr s) (hn : NoSurrogate s)             -- the written text: a Python string without lone surrogates
    (hd : PyStr d) (hdn : NoSurrogate d) :          -- the decoded text: likewise
    (q e Gen.PATH_REQUOTER s = q e Gen.PATH_QUOTER d ↔ SpellsPath s d) ∧
    (q e Gen.FRAGMENT_REQUOTER s = q e Gen.FRAGMENT_QUOTER d ↔ SpellsPlain s d) ∧
    (q e Gen.REQUOTER s = q e Gen.QUOTER d ↔ SpellsPlain s d) ∧
    (q e Gen.QUERY_REQUOTER s = q e Gen.QUERY_PART_QUOTER d ↔ SpellsQV s d) :=
  ⟨C18_spelling_path e s d hs hn hd hdn, C18_spelling_fragment e s d hs hn hd hdn,
   C18_spelling_userinfo e s d hs hn hd hdn, C18_spelling_query_value e s d hs hn hd hdn⟩

/-- … the WHOLE QUERY: what the constructor stores for the written query `rq` equals the `k=v&…` text that `build` makes
    of the decoded pairs `kvs` IFF `rq = rk1=rv1&rk2=rv2&…` with the SAME NUMBER of pairs, each written key / value
    spelling the decoded key / value (`AllSpell`).  So a piece without '=' (`?a`), an empty piece (`a=1&&b=2`), a second
    literal '=' in a piece, a literal ';' or `%20` are spellings of NO list of pairs.
    Cites C18_spelling_query (C18More3Spell.lean). -/
theorem C18_headline_spelling_query (e : Env) (rq : Str) (kvs : List (Str × Str))
    (hs : PyStr rq) (hn : NoSurrogate rq)           -- the written query: no lone surrogates
    (hg : GoodPairs kvs) :                          -- the decoded pairs: no lone surrogates
    FixLemmas.encQuery e rq = qtext e.b kvs ↔ ∃ ps, rq = rawQuery ps ∧ AllSpell ps kvs :=
  C18_spelling_query e rq kvs hs hn hg

/-- … the written text DETERMINES the decoded text (a text spells at most one decoded text, computed by the library's own
    unquoters), the relation is decided by a Bool checker, and the standard forms ARE spellings: the canonical encodings
    and the human form (what `human_repr()` shows) of every decoded text, in every position.
    Cites C18_spelling_decoded, C18_spelling_checker, C18_spelling_canonical, C18_spelling_human (C18More3Spell.lean). -/
theorem C18_headline_spelling_determined_and_standard_forms (e : Env) (s d x : Str)
    (hd : PyStr d) (hdn : NoSurrogate d) :          -- the decoded text: a Python string without lone surrogates
    ((SpellsPath s d → d = uq e Gen.UNQUOTER (q e Gen.PATH_REQUOTER s)) ∧
     (SpellsPlain s d → d = uq e Gen.UNQUOTER (q e Gen.FRAGMENT_REQUOTER s) ∧
        d = uq e Gen.UNQUOTER (q e Gen.REQUOTER s)) ∧
     (SpellsQV s d → d = stdUnquote (plusToSpace (q e Gen.QUERY_REQUOTER s)))) ∧
    (∀ P : Pos, spellsB P s d = true ↔ SpellsP P s d) ∧
    (SpellsPath (q e Gen.PATH_QUOTER d) d ∧ SpellsPlain (q e Gen.FRAGMENT_QUOTER d) d ∧
      SpellsPlain (q e Gen.QUOTER d) d ∧ SpellsQV (q e Gen.QUERY_PART_QUOTER d) d) ∧
    ((humanQuote e.o d (humanUnsafeOf "path") = .ok x → SpellsPath x d) ∧
     (humanQuote e.o d (humanUnsafeOf "fragment") = .ok x → SpellsPlain x d) ∧
     (humanQuote e.o d (humanUnsafeOf "user") = .ok x → SpellsPlain x d) ∧
     (humanQuote e.o d (humanUnsafeOf "password") = .ok x → SpellsPlain x d) ∧
     (humanQuote e.o d (humanUnsafeOf "k") = .ok x → SpellsQV x d) ∧
     (humanQuote e.o d (humanUnsafeOf "v") = .ok x → SpellsQV x d)) :=
  ⟨C18_spelling_decoded e s d hd hdn, fun P => C18_spelling_checker P s d, C18_spelling_canonical e d hd hdn,
   C18_spelling_human e d x hd hdn⟩

/-- GAPS 2(d) / 9: `C18_headline_constructor_any_spelling` WITH SYNTACTIC HYPOTHESES — `URL(s)` for
    `s = scheme://[usr[:pw']@]D[:port]/rp[?rk1=rv1&…][#rf]` whose pieces SPELL decoded components: `URL(s)` succeeds,
    stores their encodings (`StoresOK`) and round-trips.  The hypothesis "a written user is not empty" follows and is
    dropped.  The exclusions of literal characters (TAB LF CR `# / : ? @ [ ]` in the userinfo: `HumanPart`; '?', '#', TAB,
    LF, CR in the path; '#', TAB, LF, CR in the query; TAB, LF, CR in the fragment) do NOT follow from the spelling
    relations — they are about how `URL(…)` SPLITS the string — and stay.
    Cites C18_constructor_any_spelling_syntactic (C18More3Spell.lean). -/
theorem C18_headline_constructor_any_spelling_syntactic (e : Env) (sc : Str) (user pw : Option Str) (h H D : Str)
    (port : Option Nat) (p : Str) (kvs : List (Str × Str)) (f : Str) (usr pw' : Option Str) (rp : Str)
    (ps : List (Str × Str)) (rf : Str)
    (vs : ValidScheme sc)                           -- "absolute": the written scheme is RFC-valid and LOWER case
    (hk : HostKind e h H D)                         -- `D` is the host text written in `s` (as `human_repr()` shows it)
    (hport : ∀ x, port = some x → x ≤ 65535)        -- guard: a port in range
    (hu : UText user) (hw : UText pw)               -- decoded user / password: no lone surrogates
    (hune : ∀ s, user = some s → s ≠ [])            -- a decoded user is not ""
    (hp : PyStr (47 :: p)) (hn : NoSurrogate (47 :: p))   -- decoded path: a Python string without lone surrogates
    (hnorm : normalizePath (47 :: p) = 47 :: p)     -- … without dot segments
    (hg : GoodPairs kvs) (hf : PyStr f) (hfn : NoSurrogate f)   -- decoded pairs / fragment: no lone surrogates
    (su : SpellsOpt usr user) (hpu : HumanPart usr) -- the written user spells the decoded user; no delimiter literal in it
    (sw : SpellsOpt pw' pw) (hpw : HumanPart pw')   -- the same for the password
    (spath : SpellsPath rp p)                       -- the written path spells the decoded path …
    (hrp : ∀ c ∈ rp, c ≠ 63 ∧ c ≠ 35) (hc1 : Clean rp)   -- … with no literal '?', '#', TAB, LF, CR
    (squery : AllSpell ps kvs)                      -- the written pairs spell the decoded pairs …
    (hq35 : ∀ c ∈ rawQuery ps, c ≠ 35) (hcq : Clean (rawQuery ps))   -- … with no literal '#', TAB, LF, CR
    (sfrag : SpellsPlain rf f) (hc2 : Clean rf)     -- the written fragment spells the decoded one, no TAB, LF, CR
    -- NFKC proviso on the INPUT (F-C18-nfkc-userinfo): a non-ASCII written authority must pass `_check_netloc`
    (hnf : isAscii (authText usr pw' D port) = false → checkNetloc e.o (authText usr pw' D port) = .ok ()) :
    ∃ u, encodeUrl e (composeUrl sc (authText usr pw' D port) (47 :: rp) (rawQuery ps) rf) = .ok u ∧ u.scheme = sc ∧
      StoresOK e u user pw H port p kvs f ∧
      ∀ hr, humanRepr e u = .ok hr →
        (isAscii (Rfc.appendixB Gen.schemeChars hr).authority = false →          -- NFKC proviso on the OUTPUT
          checkNetloc e.o (Rfc.appendixB Gen.schemeChars hr).authority = .ok ()) →
        ∃ v, encodeUrl e hr = .ok v ∧ Url.beq v u = true :=
  C18_constructor_any_spelling_syntactic e sc user pw h H D port p kvs f usr pw' rp ps rf vs hk hport hu hw hune hp hn
    hnorm hg hf hfn su hpu sw hpw spath hrp hc1 squery hq35 hcq sfrag hc2 hnf

/-- NEGATIVE RESULTS — written texts that spell NOTHING, so `URL(…)` of them stores no encoding of decoded components
    (the counterexamples of GAPS 2(d), now for EVERY decoded text / list of pairs, both backends):
    the written path "a%2Fb" (`URL("http://example.com/a%2Fb")`: the requoter keeps `%2F`, the quoter never writes it);
    `%FF…` in any position (not UTF-8); the written query `k=v%20w` (`%20` stays `%20`, `build` writes '+').
    Cites C18_spelling_escaped_slash_spells_nothing, C18_spelling_non_utf8_spells_nothing,
    C18_spelling_query_pct20_spells_nothing (C18More3Spell.lean; general forms:
    C18_spelling_bad_escape_spells_nothing, C18_spelling_bad_lead_spells_nothing, ibid.). -/
theorem C18_headline_spellings_of_nothing (e : Env) :
    (∀ d, PyStr d → NoSurrogate d → q e Gen.PATH_REQUOTER "a%2Fb".toStr ≠ q e Gen.PATH_QUOTER d) ∧
    (∀ (P : Pos) (r d : Str), ¬ SpellsP P (37 :: 70 :: 70 :: r) d) ∧
    (∀ kvs, GoodPairs kvs → FixLemmas.encQuery e "k=v%20w".toStr ≠ qtext e.b kvs) :=
  ⟨fun d hd hdn => C18_spelling_escaped_slash_spells_nothing e d hd hdn,
   fun P r d => C18_spelling_non_utf8_spells_nothing P r d,
   fun kvs hg => C18_spelling_query_pct20_spells_nothing e kvs hg⟩

/-- instances decided by the checker (Python-level texts): a mixed spelling; lower- and mixed-case hex; `%2F` does NOT
    spell "/" in a path; "%zz" spells "%zz" (and so does "%25zz"); "%41" spells "A", not "%41"; a literal '?' / '#' DOES
    spell itself for the path quoter (it is the URL splitter that excludes it); in a query value a space is written ' '
    or '+', NOT `%20`; '+' and '=' are written `%2B`, `%3D` only; `%FF` alone is no UTF-8.
    Cites C18_spelling_examples (C18More3Spell.lean). -/
theorem C18_headline_spelling_examples :
    SpellsPath "é%20x".toStr "é x".toStr ∧
    SpellsPath "%c3%a9".toStr "é".toStr ∧ SpellsPath "%C3%a9".toStr "é".toStr ∧
    ¬ SpellsPath "%2F".toStr "/".toStr ∧ SpellsPath "/".toStr "/".toStr ∧ ¬ SpellsPath "a%2Fb".toStr "a/b".toStr ∧
    SpellsPath "%zz".toStr "%zz".toStr ∧ SpellsPath "%25zz".toStr "%zz".toStr ∧
    SpellsPath "%41".toStr "A".toStr ∧ ¬ SpellsPath "%41".toStr "%41".toStr ∧ SpellsPath "%2541".toStr "%41".toStr ∧
    SpellsPath "?".toStr "?".toStr ∧ SpellsPath "#".toStr "#".toStr ∧ SpellsPlain "a:b@c/[]".toStr "a:b@c/[]".toStr ∧
    SpellsQV "#".toStr "#".toStr ∧
    SpellsQV "v+w".toStr "v w".toStr ∧ SpellsQV "v w".toStr "v w".toStr ∧ ¬ SpellsQV "v%20w".toStr "v w".toStr ∧
    SpellsQV "a%2Bb".toStr "a+b".toStr ∧ ¬ SpellsQV "a+b".toStr "a+b".toStr ∧
    SpellsQV "a%3Db".toStr "a=b".toStr ∧ ¬ SpellsQV "a=b".toStr "a=b".toStr ∧
    SpellsPlain "%e2%82%AC%2f".toStr "€/".toStr ∧ ¬ SpellsPlain "%FF".toStr [0xFF] ∧ ¬ SpellsPlain "%C3".toStr "é".toStr ∧
    SpellsOpt (some "us%20er".toStr) (some "us er".toStr) ∧ ¬ SpellsOpt none (some []) :=
  C18_spelling_examples

/-! ## non-vacuity -/

-- `LitSafeAt` / `PctOK` / `twoHex` on Python-level texts: "a%zz", "a%4" may keep their '%' literal, "a%41" may not
example : twoHex "41".toStr = true ∧ twoHex "zz".toStr = false ∧ twoHex "4".toStr = false ∧
    PctOK (· == 37) "a%zz%4".toStr ∧ ¬ PctOK (· == 37) "a%41".toStr ∧
    LitSafeAt "path" (· == 37) none none "a%zz".toStr [] [] ∧ ¬ LitSafeAt "path" (· == 37) none none "a%41".toStr [] [] := by
  decide +kernel

-- the hypothesis `hlit` of C18_headline_nonprintable_escapes_not_needed is satisfiable: SOH and DEL are non-printable
example : ∀ c, (fun c => c == 1 || c == 127) c = true →
    isPrintableChar demo c = .ok false ∧ c ≠ 9 ∧ c ≠ 10 ∧ c ≠ 13 := by
  intro c hc
  simp only [Bool.or_eq_true, beq_iff_eq] at hc
  rcases hc with rfl | rfl <;> exact ⟨by decide +kernel, by decide, by decide, by decide⟩

-- the spelling hypotheses of C18_headline_constructor_any_spelling_syntactic on the mixed spelling
-- `http://us%20er@example.com/é%20x?k=v w#é%20f` (C18_constructor_any_spelling_syntactic_example, C18More3Spell.lean)
example : SpellsOpt (some "us%20er".toStr) (some "us er".toStr) ∧ SpellsPath "é%20x".toStr "é x".toStr ∧
    AllSpell [("k".toStr, "v w".toStr)] [("k".toStr, "v w".toStr)] ∧ SpellsPlain "é%20f".toStr "é f".toStr :=
  ⟨by decide +kernel, by decide +kernel, .cons ⟨by decide +kernel, by decide +kernel⟩ .nil, by decide +kernel⟩

-- the join example goes through the headline theorems: the result round-trips
example (b : Backend) : ∃ base ref, build (demoEnv b) demoBase = .ok base ∧
    HumanReachJ (demoEnv b) (join (demoEnv b) base ref) ∧
    ∃ user pw H port p kvs f, StoresOK (demoEnv b) (join (demoEnv b) base ref) user pw H port p kvs f := by
  obtain ⟨base, ref, hb, _, _, _, _, hJ, _⟩ := C18_headline_join_relative_example b
  exact ⟨base, ref, hb, hJ, (C18_headline_roundtrip_reachable_with_join _ _ hJ).1⟩

end Yarl
