import YarlProofs.C09More
import YarlProofs.C09HeadlineMore4
/-!
# C09 — GAPS 7 of C09Headline.lean closed: class (A) `NormalisesToEmpty` for EVERY authority text

`C09_normalises_to_empty_ascii` (C09More.lean) characterises class (A) — "the authority normalises to empty",
F-C09-empty-authority — among the non-empty authority texts WITHOUT lone surrogates: "@", ":", "@:".  Here the
characterisation for every text (lone surrogates allowed, no hypothesis at all — not even `PyStr`):

  `NormalisesToEmpty n  ↔  n = "" ∨ n = ":" ∨ ∃ σ of lone surrogates only (possibly empty), n = σ@ ∨ n = σ@:`

Decided by the definition: a PASSWORD (even an empty one or one of surrogates only: "σ:τ@", "σ:@") takes the text out
of the class (the ':' inside the userinfo makes `password` non-None, which is written back as ":"); so does any port
text ("@:0") and any '[' after the last '@'; a '[' BEFORE the last '@' is a written user ("[@").  The empty text "" IS
in the class as the predicate is defined (it is excluded from the disagreement only because an input without authority
text caches nothing — `C09_eager_ne_lazy_iff` has the hypothesis `u.pre = some p`).

Also: the quoter drops a user of lone surrogates only on BOTH backends (`C09_requote_surrogates_nil`), and the
evaluated disagreement for "foo://\udc80@/x" on the PURE-PYTHON backend (`C09_surrogate_user_empty_host_py`), in the
form of the compiled-backend theorem `C09_surrogate_user_empty_host_counterexample`.
-/
set_option linter.unusedVariables false
namespace Yarl
open EagerLemmas NetlocLemmas

/-- a string of lone surrogates only (possibly empty) -/
def SurrOnly (σ : Str) : Prop := ∀ c ∈ σ, isSurrogate c = true

instance (σ : Str) : Decidable (SurrOnly σ) := by unfold SurrOnly; infer_instance

namespace EmptyAuth

/-- `NormalisesToEmpty` on the pieces of `userSplit` -/
theorem nte_iff (n : Str) : NormalisesToEmpty n ↔
    ((hostPort (userSplit n).2.2).1 = [] ∧ mem 91 (userSplit n).2.2 = false ∧
     (match (userSplit n).1 with
      | some u => u.any (fun c => !isSurrogate c)
      | none => false) = false ∧
     (userSplit n).2.1 = none ∧ (hostPort (userSplit n).2.2).2 = []) := Iff.rfl

/-- the host/port half is "" or ":" -/
theorem tail (hi : Str) (a : mem 91 hi = false) (b : (hostPort hi).1 = []) (c : (hostPort hi).2 = []) :
    hi = [] ∨ hi = [58] := by
  unfold hostPort at b c
  simp only [a, Bool.false_eq_true, if_false] at b c
  have hj := EagerLemmas.partition_join 58 hi
  rw [b, c] at hj
  cases hf : (partition 58 hi).2.1 with
  | true => rw [hf] at hj; exact Or.inr (by simpa using hj)
  | false => rw [hf] at hj; exact Or.inl (by simpa using hj)

theorem surr_any {σ : Str} : (σ.any (fun c => !isSurrogate c)) = false ↔ SurrOnly σ := by
  unfold SurrOnly
  rw [List.any_eq_false]
  constructor
  · intro h c hc
    have := h c hc
    cases hs : isSurrogate c with
    | true => rfl
    | false => rw [hs] at this; exact absurd rfl this
  · intro h c hc
    rw [h c hc]; simp

theorem surr_no58 {σ : Str} (h : SurrOnly σ) : 58 ∉ σ := fun h58 => by
  have := h 58 h58
  revert this; decide

/-- members of the form σ ++ "@" ++ hi, hi ∈ {"", ":"} -/
theorem member (σ hi : Str) (hσ : SurrOnly σ) (hhi : hi = [] ∨ hi = [58]) : NormalisesToEmpty (σ ++ 64 :: hi) := by
  have h64 : 64 ∉ hi := by rcases hhi with rfl | rfl <;> decide
  rw [nte_iff, userSplit_at σ hi h64, partition_notFound 58 σ (surr_no58 hσ)]
  simp only [Bool.false_eq_true, if_false]
  refine ⟨?_, ?_, surr_any.mpr hσ, trivial, ?_⟩ <;> rcases hhi with rfl | rfl <;> decide

end EmptyAuth
open EmptyAuth

/-! ## (a) the class in closed form, every text -/

/-- GAPS 7: class (A) for EVERY authority text `n` (no hypothesis; in particular every Python string, lone surrogates
    allowed): the empty text, ":", and `σ@`, `σ@:` with σ a (possibly empty) string of lone surrogates only.  NOT
    members: a password of any kind ("σ:τ@", "σ:@", ":@"), a port text ("@:0"), a written user, a non-empty host. -/
theorem C09_normalises_to_empty_iff (n : Str) :
    NormalisesToEmpty n ↔
      (n = [] ∨ n = ":".toStr ∨ ∃ σ, SurrOnly σ ∧ (n = σ ++ "@".toStr ∨ n = σ ++ "@:".toStr)) := by
  constructor
  · intro h
    rw [nte_iff] at h
    obtain ⟨h1, h2, h3, h4, h5⟩ := h
    by_cases h64 : 64 ∈ n
    · have hsplit : ∃ ui hi, n = ui ++ 64 :: hi ∧ 64 ∉ hi := by
        have := ParseLemmas.rpartition_mem h64
        exact ⟨(rpartition 64 n).1, (rpartition 64 n).2.2, by simpa using this.1, this.2⟩
      obtain ⟨ui, hi, hn, hhi⟩ := hsplit
      have hus := userSplit_at ui hi hhi
      rw [← hn] at hus
      rw [hus] at h1 h2 h3 h4 h5
      simp only at h1 h2 h3 h4 h5
      have hnf : (partition 58 ui).2.1 = false := by
        cases hf : (partition 58 ui).2.1 with
        | false => rfl
        | true => rw [hf] at h4; cases h4
      have hui : (partition 58 ui).1 = ui := by
        have := EagerLemmas.partition_join 58 ui
        rw [hnf] at this
        simpa using this.symm
      rw [hui] at h3
      refine Or.inr (Or.inr ⟨ui, surr_any.mp h3, ?_⟩)
      rcases tail hi h2 h1 h5 with h | h
      · left; rw [hn, h]; rfl
      · right; rw [hn, h]; rfl
    · have hus := userSplit_noAt n h64
      rw [hus] at h1 h2 h5
      rcases tail n h2 h1 h5 with h | h
      · exact Or.inl h
      · exact Or.inr (Or.inl h)
  · rintro (h | h | ⟨σ, hσ, h | h⟩)
    · subst h; decide
    · subst h; decide
    · subst h; exact member σ [] hσ (Or.inl rfl)
    · subst h; exact member σ [58] hσ (Or.inr rfl)

/-- the same for the NON-EMPTY texts (an input with an empty authority text caches nothing, so only these matter for
    the disagreement `C09_eager_ne_lazy_iff`); `C09_normalises_to_empty_ascii` is the case σ = "" -/
theorem C09_normalises_to_empty_iff_nonempty (n : Str) (hne : n ≠ []) :
    NormalisesToEmpty n ↔ (n = ":".toStr ∨ ∃ σ, SurrOnly σ ∧ (n = σ ++ "@".toStr ∨ n = σ ++ "@:".toStr)) := by
  rw [C09_normalises_to_empty_iff]
  constructor
  · rintro (h | h)
    · exact absurd h hne
    · exact h
  · exact Or.inr

/-- consistency with `C09_normalises_to_empty_ascii`: without lone surrogates σ is empty -/
theorem C09_normalises_to_empty_nosurr (n : Str) (hns : NoSurrogate n) :
    NormalisesToEmpty n ↔ (n = [] ∨ n = ":".toStr ∨ n = "@".toStr ∨ n = "@:".toStr) := by
  rw [C09_normalises_to_empty_iff]
  constructor
  · rintro (h | h | ⟨σ, hσ, h⟩)
    · exact Or.inl h
    · exact Or.inr (Or.inl h)
    · have hnil : σ = [] := by
        cases σ with
        | nil => rfl
        | cons c t =>
          have h1 : isSurrogate c = true := hσ c (by simp)
          have h2 : isSurrogate c = false := hns c (by rcases h with h | h <;> rw [h] <;> simp)
          rw [h1] at h2; cases h2
      subst hnil
      rcases h with h | h
      · exact Or.inr (Or.inr (Or.inl h))
      · exact Or.inr (Or.inr (Or.inr h))
  · rintro (h | h | h | h)
    · exact Or.inl h
    · exact Or.inr (Or.inl h)
    · exact Or.inr (Or.inr ⟨[], ⟨(fun c hc => nomatch hc), Or.inl h⟩⟩)
    · exact Or.inr (Or.inr ⟨[], ⟨(fun c hc => nomatch hc), Or.inr h⟩⟩)

/-- a password of ANY kind takes the text out of the class — also the empty one (":@", "σ:@") and one made of lone
    surrogates only ("σ:τ@"): for arbitrary σ, τ and any text `hi` after the last '@'.  (Port text, written user,
    non-empty host, '[' : computed examples in `C09_normalises_to_empty_computed_non_members`; in general by the iff.) -/
theorem C09_normalises_to_empty_non_members (σ τ hi : Str) (h64 : 64 ∉ hi) :
    ¬ NormalisesToEmpty (σ ++ 58 :: τ ++ 64 :: hi) := by
  intro h
  rw [nte_iff] at h
  have h4 := h.2.2.2.1
  have : σ ++ 58 :: τ ++ 64 :: hi = (σ ++ 58 :: τ) ++ 64 :: hi := by simp
  rw [this, userSplit_at _ hi h64] at h4
  simp only at h4
  have hf : (partition 58 (σ ++ 58 :: τ)).2.1 = true := by
    rw [ParseLemmas.partition_eq]; simp
  rw [hf] at h4
  cases h4

/-! ## (b) computed members and non-members (the class is a predicate on TEXT: no backend appears) -/

theorem C09_normalises_to_empty_members :
    NormalisesToEmpty ([0xDC80] ++ "@".toStr) ∧ NormalisesToEmpty ([0xDC80, 0xD800] ++ "@:".toStr) ∧
    NormalisesToEmpty ":".toStr ∧ NormalisesToEmpty "@".toStr ∧ NormalisesToEmpty "@:".toStr ∧
    NormalisesToEmpty [] := by decide

theorem C09_normalises_to_empty_computed_non_members :
    ¬ NormalisesToEmpty ([0xDC80] ++ ":@".toStr) ∧ ¬ NormalisesToEmpty ([0xDC80] ++ "@h".toStr) ∧
    ¬ NormalisesToEmpty "a@".toStr ∧ ¬ NormalisesToEmpty "@:0".toStr ∧ ¬ NormalisesToEmpty "[@".toStr ∧
    ¬ NormalisesToEmpty ([0xDC80] ++ ":".toStr ++ [0xDC81] ++ "@".toStr) ∧ ¬ NormalisesToEmpty ":@".toStr ∧
    ¬ NormalisesToEmpty "@[".toStr ∧ ¬ NormalisesToEmpty ([0xDC80] ++ "@@".toStr) := by decide

/-- the same members through the closed form (the witnesses σ) -/
example : SurrOnly [0xDC80] ∧ SurrOnly [0xDC80, 0xD800] ∧ SurrOnly [] ∧ ¬ SurrOnly "a".toStr := by decide
example : NormalisesToEmpty ([0xDC80, 0xD800] ++ "@:".toStr) :=
  (C09_normalises_to_empty_iff _).mpr (Or.inr (Or.inr ⟨[0xDC80, 0xD800], by decide, Or.inr rfl⟩))
/-- non-vacuity of `C09_normalises_to_empty_iff_nonempty`, `…_nosurr`, `…_non_members` -/
example : ([0xDC80] ++ "@".toStr : Str) ≠ [] := by decide
example : NoSurrogate "@:".toStr := by decide
example : ¬ NormalisesToEmpty ([0xDC80] ++ 58 :: [0xDC81] ++ 64 :: []) :=
  C09_normalises_to_empty_non_members [0xDC80] [0xDC81] [] (by decide)

/-! ## (c) the quoter on a user of lone surrogates only, both backends; evaluated disagreement, pure-Python backend -/

/-- a user made of lone surrogates only requotes to "" — EVERY environment, in particular both quoter backends
    (the class is stated on text through `userWritten`; this is the quoter fact that ties it to `encode_url`) -/
theorem C09_requote_surrogates_nil (e : Env) (σ : Str) (hpy : PyStr σ) (hσ : SurrOnly σ) :
    q e Gen.REQUOTER σ = [] := R9.requoter_nil e σ hpy hσ

/-- … spelled out per backend -/
theorem C09_requote_surrogates_nil_backends (o : Oracles) (σ : Str) (hpy : PyStr σ) (hσ : SurrOnly σ) :
    q { b := .py, o := o } Gen.REQUOTER σ = [] ∧ q { b := .c, o := o } Gen.REQUOTER σ = [] :=
  ⟨C09_requote_surrogates_nil _ σ hpy hσ, C09_requote_surrogates_nil _ σ hpy hσ⟩

/-- `PyStr` is automatic: a lone surrogate is a code point -/
theorem C09_surrOnly_pyStr (σ : Str) (hσ : SurrOnly σ) : PyStr σ := by
  intro c hc
  have := hσ c hc
  unfold isSurrogate at this
  simp only [Bool.and_eq_true, decide_eq_true_eq] at this
  omega

/-- so: no side condition at all -/
theorem C09_requote_surrogates_nil' (e : Env) (σ : Str) (hσ : SurrOnly σ) : q e Gen.REQUOTER σ = [] :=
  C09_requote_surrogates_nil e σ (C09_surrOnly_pyStr σ hσ) hσ

example : q envPy Gen.REQUOTER [0xDC80, 0xD800] = [] ∧ q envC Gen.REQUOTER [0xDC80, 0xD800] = [] :=
  ⟨C09_requote_surrogates_nil' _ _ (by decide), C09_requote_surrogates_nil' _ _ (by decide)⟩

/-- pure-Python backend, NFKC oracle = identity (needed for any non-ASCII authority): `envC` with the other quoter -/
def envPyN : Env := { b := .py, o := { Oracles.empty with nfkc := fun s => some s } }

/-- GAPS 7 "STILL OPEN": the evaluated disagreement for "foo://\udc80@/x" on the PURE-PYTHON backend, same form as
    `C09_surrogate_user_empty_host_counterexample` (compiled backend): the stored netloc is empty, eager
    `raw_host = ""`, the restored URL reads `None`; the input is outside the guard. -/
theorem C09_surrogate_user_empty_host_py :
    eagerLazy envPyN ("foo://".toStr ++ [0xDC80] ++ "@/x".toStr) = .ok ([],
      some { rawHost := some [], explicitPort := none, rawUser := none, rawPassword := none },
      .ok { rawHost := none, explicitPort := none, rawUser := none, rawPassword := none }) ∧
    ¬ GoodAuthority envPyN ("foo://".toStr ++ [0xDC80] ++ "@/x".toStr) := by
  have h : eagerLazy envPyN ("foo://".toStr ++ [0xDC80] ++ "@/x".toStr) = .ok ([],
      some { rawHost := some [], explicitPort := none, rawUser := none, rawPassword := none },
      .ok { rawHost := none, explicitPort := none, rawUser := none, rawPassword := none }) := by decide +kernel
  exact ⟨h, C09_guard_excludes _ _ _ _ _ h (by decide)⟩

/-- the other computed members of (b), on BOTH backends: "σ@:" with two surrogates disagrees the same way -/
theorem C09_surrogate_user_empty_host_both_backends :
    ∀ e ∈ [envPyN, envC], ∀ s ∈ ["foo://".toStr ++ [0xDC80] ++ "@/x".toStr,
                                  "foo://".toStr ++ [0xDC80, 0xD800] ++ "@:/x".toStr],
      eagerLazy e s = .ok ([],
        some { rawHost := some [], explicitPort := none, rawUser := none, rawPassword := none },
        .ok { rawHost := none, explicitPort := none, rawUser := none, rawPassword := none }) := by
  decide +kernel

/-- … and the computed NON-members agree on both backends: an (empty) password behind a surrogate user, a non-empty
    host behind a surrogate user -/
theorem C09_surrogate_non_members_agree_both_backends :
    ∀ e ∈ [envPyN, envC],
      eagerLazy e ("foo://".toStr ++ [0xDC80] ++ ":@/x".toStr) = .ok (":@".toStr,
        some { rawHost := some [], explicitPort := none, rawUser := none, rawPassword := some [] },
        .ok { rawHost := some [], explicitPort := none, rawUser := none, rawPassword := some [] }) ∧
      eagerLazy e ("foo://".toStr ++ [0xDC80] ++ "@h/x".toStr) = .ok ("h".toStr,
        some { rawHost := some "h".toStr, explicitPort := none, rawUser := none, rawPassword := none },
        .ok { rawHost := some "h".toStr, explicitPort := none, rawUser := none, rawPassword := none }) := by
  decide +kernel

end Yarl
